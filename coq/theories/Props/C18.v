(* Props/C18.v — Views and paths mean what their names say; unique views are
   reciprocity classes.
   Only statements; every proof is `exact <lemma>` (lemmas in Proofs/ViewsProofs.v).
   Model (Model/Views.v): path names are words over {L, T}; the view "X-Y" is the pair
   (X, Y); `inl` = the call returns, `inr e` = it raises (ValueError / KeyError /
   NotImplementedError / AssertionError).  SPEC side (same file, second half):
   doc_lt (the documented order), first_of_class, subseq, spec_names, spec_path
   (what a path named w is documented to be), spec_paths.
   What these theorems do NOT cover (exercised at run time by harness/prop_C18.py):
   that arim's Python code computes what the model says (strings, dictionaries,
   numpy transposition, object identity of the paths shared between views). *)
From Coq Require Import Arith List Bool ZArith Permutation Sorting.Sorted.
From Arim Require Import Model.Views Proofs.ViewsProofs Model.ViewsN Proofs.ViewsNProofs.
Import ListNotations.

(* ---- names --------------------------------------------------------- *)
(* reciprocal_viewname is an involution *)
Theorem recip_involutive : forall v, recip (recip v) = v.
Proof. exact recip_involutive_l. Qed.

(* make_viewnames(pathnames): for any duplicate-free list of path names every
   ordered pair (tx, rx) appears, exactly once, and nothing else: n^2 views *)
Theorem viewnames_all_pairs : forall names, NoDup names ->
  Permutation (make_viewnames names false) (list_prod names names)
  /\ NoDup (make_viewnames names false)
  /\ length (make_viewnames names false) = length names * length names
  /\ (forall tx rx, In (tx, rx) (make_viewnames names false) <-> In tx names /\ In rx names).
Proof.
  intros names HN. split; [exact (viewnames_perm names)|]. split; [exact (viewnames_NoDup names HN)|].
  split; [exact (viewnames_length names) | exact (viewnames_In names)].
Qed.

(* ... in strictly ascending documented order: total number of legs, then the
   larger of the two leg counts, then legs of rx, then legs of tx, then tx and rx
   lexicographically with L before T *)
Theorem viewnames_sorted : forall names, NoDup names ->
  StronglySorted doc_lt (make_viewnames names false).
Proof. exact viewnames_sorted_strict. Qed.

(* the key tuple compared the way Python compares tuples IS the documented order *)
Theorem key_order_is_documented : forall a b, view_cmp a b = Lt <-> doc_lt a b.
Proof. exact view_cmp_doc. Qed.

(* doc_lt is a strict total order, so "sorted by it" determines the list uniquely *)
Theorem doc_lt_strict_total : forall a b c,
  ~ doc_lt a a /\ (doc_lt a b -> doc_lt b c -> doc_lt a c) /\ (doc_lt a b \/ a = b \/ doc_lt b a).
Proof.
  intros a b c. split; [exact (doc_lt_irrefl a)|]. split; [exact (doc_lt_trans a b c) | exact (doc_lt_total a b)].
Qed.

(* ---- unique views = reciprocity classes ---------------------------- *)
(* filter_unique_views on any duplicate-free list l of views: the result u keeps
   the order of l, contains v iff v is the FIRST member of {v, recip v} in l,
   hence at least one and at most one member of every class, and never drops a
   view whose reciprocal is absent *)
Theorem unique_classes_list : forall l, NoDup l ->
  let u := filter_unique_views l in
  subseq u l
  /\ (forall v, In v u <-> first_of_class l v)
  /\ (forall v, In v l -> In v u \/ In (recip v) u)
  /\ (forall v, In v u -> In (recip v) u -> v = recip v)
  /\ (forall v, In v l -> ~ In (recip v) l -> In v u).
Proof.
  intros l HN. split; [exact (filter_subseq l)|].
  split; [exact (fun v => filter_first_of_class l v HN)|].
  split; [exact (fun v => filter_at_least_one l v HN)|].
  split; [exact (fun v => filter_at_most_one l v HN) | exact (fun v => filter_keeps_alone l v HN)].
Qed.

(* make_viewnames(names, tfm_unique_only=True) for duplicate-free names closed under
   reversal: the set of all views is closed under recip and the unique list contains
   exactly one member of each class {v, recip v} (v itself when v = recip v), namely
   the first in the documented order; it is an ordered sublist of the full list *)
Theorem unique_classes : forall names, NoDup names ->
  (forall w, In w names -> In (rev w) names) ->
  let all := make_viewnames names false in
  let u := make_viewnames names true in
  subseq u all /\ StronglySorted doc_lt u
  /\ (forall v, In v all -> In (recip v) all)
  /\ (forall v, In v u <-> first_of_class all v)
  /\ (forall v, In v all ->
        (In v u /\ (v = recip v \/ ~ In (recip v) u)) \/ (~ In v u /\ In (recip v) u)).
Proof.
  intros names HN Hc. split; [exact (filter_subseq _)|].
  split; [exact (subseq_sorted doc_lt _ _ (filter_subseq _) (viewnames_sorted_strict names HN))|].
  split; [exact (fun v => viewnames_closed names v Hc)|].
  split; [exact (fun v => filter_first_of_class _ v (viewnames_NoDup names HN))|].
  exact (fun v => filter_exactly_one _ v (viewnames_NoDup names HN)).
Qed.

(* ... so there are n(n+1)/2 unique views for n reversal-closed path names, and in
   general (|l| + number of self-reciprocal views)/2 *)
Theorem unique_views_count : forall names, NoDup names ->
  (forall w, In w names -> In (rev w) names) ->
  2 * length (make_viewnames names true) = length names * (length names + 1).
Proof. exact unique_views_count_l. Qed.

Theorem unique_count_list : forall l, NoDup l -> (forall v, In v l -> In (recip v) l) ->
  2 * length (filter_unique_views l) = length l + length (filter self_recip l).
Proof. exact filter_unique_count. Qed.

(* ---- paths --------------------------------------------------------- *)
(* FINITE statement, decided by vm_compute for max_number_of_reflection in {0,1,2}
   on each of the 10 examination objects (immersion with/without back wall; contact
   with/without front wall, back wall, under-material) and by case analysis outside
   that range: make_interfaces + make_paths return exactly the documented paths
   (spec_paths: names L, T, LL, ..., in order; interface sequence probe, [front wall
   transmission,] back wall, front wall, ..., grid; kinds, transmission/reflection,
   reflection_against; normal-side flags derived from the up/down direction of the
   legs; materials; modes = [L in the couplant] ++ the name) or raise the documented
   error (negative -> ValueError, > 2 -> NotImplementedError, missing wall ->
   KeyError in immersion / ValueError in contact) *)
Theorem paths_wired : forall s r, make_paths s r = spec_paths s r.
Proof. exact paths_wired_all. Qed.

(* consequence, readable: path w has block modes w in order *)
Theorem paths_block_modes : forall s r paths, make_paths s r = inl paths ->
  map fst paths = spec_names (Z.to_nat r) /\
  forall w p, In (w, p) paths ->
    In w (spec_names (Z.to_nat r)) /\ p = spec_path s w /\
    p_modes p = block_prefix s ++ w /\ p_name p = w.
Proof. exact paths_names_modes. Qed.

(* ---- views --------------------------------------------------------- *)
(* make_views_from_paths on ANY dictionary of paths: the view names are
   make_viewnames(keys); view X-Y transmits along paths[X] and receives along
   paths[reversed Y] *)
Theorem view_wiring : forall paths uo views, make_views_from_paths paths uo = inl views ->
  map fst views = make_viewnames (map fst paths) uo /\
  forall X Y v, In ((X, Y), v) views ->
    plookup X paths = Some (v_tx v) /\ plookup (rev Y) paths = Some (v_rx v) /\ v_name v = (X, Y).
Proof. exact views_from_paths_spec. Qed.

(* it returns whenever the keys are closed under reversal, and raises KeyError when
   some key has no reversed counterpart (with or without tfm_unique_only) *)
Theorem view_wiring_defined : forall paths uo,
  (forall w, In w (map fst paths) -> In (rev w) (map fst paths)) ->
  exists views, make_views_from_paths paths uo = inl views.
Proof. exact views_from_paths_total. Qed.

Theorem view_wiring_open_fails : forall paths uo w,
  NoDup (map fst paths) -> In w (map fst paths) -> ~ In (rev w) (map fst paths) ->
  make_views_from_paths paths uo = inr ErrKey.
Proof. exact views_from_paths_open. Qed.

(* make_views of every configuration: view X-Y has as transmit path the documented
   path X (block legs X from probe to scatterer), as receive path the documented
   path of reversed Y (so block legs Y from scatterer to probe), and its scattering
   key is last(X) followed by first(Y) *)
Theorem view_wiring_configs : forall s r uo views, make_views s r uo = inl views ->
  map fst views = make_viewnames (spec_names (Z.to_nat r)) uo /\
  forall X Y v, In ((X, Y), v) views ->
    In X (spec_names (Z.to_nat r)) /\ In Y (spec_names (Z.to_nat r)) /\
    v_name v = (X, Y) /\
    v_tx v = spec_path s X /\ v_rx v = spec_path s (rev Y) /\
    p_modes (v_tx v) = block_prefix s ++ X /\ p_modes (v_rx v) = block_prefix s ++ rev Y /\
    scat_key v = Some (last X L, hd L Y).
Proof. exact view_wiring_setups. Qed.

(* ---- reversal ------------------------------------------------------ *)
(* Path.reverse twice gives back the same modes, materials, interfaces (kinds,
   flags, reflection_against, normal sides), name and rays *)
Theorem path_reverse_involutive : forall p q, path_reverse p = inl q -> path_reverse q = inl p.
Proof. exact path_reverse_invol. Qed.

Theorem interface_reverse_involutive : forall i j, iface_reverse i = inl j -> iface_reverse j = inl i.
Proof. exact iface_reverse_invol. Qed.

(* ... and what the reversed objects are: legs, materials and interfaces in the
   opposite order; each interface keeps its points, transmission/reflection flag and
   reflection_against, swaps its two normal-side flags, and swaps fluid_solid and
   solid_fluid exactly when it is a transmission *)
Theorem path_reverse_meaning : forall p q, path_reverse p = inl q ->
  p_modes q = rev (p_modes p) /\ p_materials q = rev (p_materials p) /\ p_name q = p_name p /\
  p_rays q = option_map rays_reverse (p_rays p) /\
  exists ri, p_interfaces q = rev ri /\
             Forall2 (fun x y => iface_reverse x = inl y) (p_interfaces p) ri.
Proof. exact path_reverse_spec. Qed.

Theorem interface_reverse_meaning : forall i j, iface_reverse i = inl j ->
  i_points j = i_points i /\ i_tr j = i_tr i /\ i_against j = i_against i /\
  i_inc j = i_out i /\ i_out j = i_inc i /\
  i_kind j = match i_tr i with
             | Some Transmission => option_map kind_reverse (i_kind i)
             | _ => i_kind i
             end.
Proof. exact iface_reverse_spec. Qed.

(* Rays.reverse is an involution, and the reversed rays are the same rays travelled
   backwards: indices_rev[k, j, i] = indices[d-1-k, i, j] *)
Theorem rays_reverse_involutive : forall r, rays_reverse (rays_reverse r) = r.
Proof. exact rays_reverse_invol. Qed.

Theorem rays_reverse_indices : forall r,
  rays_indices (rays_reverse r) = rev (map transpose (rays_indices r)).
Proof. exact rays_reverse_indices_eq. Qed.

(* the premise of path_reverse_involutive is met by every path of every configuration *)
Theorem config_paths_reverse_defined : forall s r paths, make_paths s r = inl paths ->
  forall w p, In (w, p) paths -> exists q, path_reverse p = inl q.
Proof. exact config_paths_reversible. Qed.

(* ---- non-vacuity --------------------------------------------------- *)
(* the 21 unique views of L, T, LL, LT, TL, TT are arim.ut.IMAGING_MODES *)
Example unique_views_6_paths :
  make_viewnames (spec_names 1) true =
  [([L],[L]); ([L],[T]); ([T],[T]);
   ([L;L],[L]); ([L;L],[T]); ([L;T],[L]); ([L;T],[T]); ([T;L],[L]); ([T;L],[T]); ([T;T],[L]); ([T;T],[T]);
   ([L;L],[L;L]); ([L;L],[L;T]); ([L;L],[T;L]); ([L;L],[T;T]); ([L;T],[L;T]); ([L;T],[T;L]);
   ([L;T],[T;T]); ([T;L],[L;T]); ([T;L],[T;T]); ([T;T],[T;T])].
Proof. vm_compute. reflexivity. Qed.

Example counts_14_paths :
  length (make_viewnames (spec_names 2) false) = 196 /\ length (make_viewnames (spec_names 2) true) = 105.
Proof. vm_compute. split; reflexivity. Qed.

(* the premises of unique_classes hold for the 14 names *)
Example names_14_closed : NoDup (spec_names 2) /\ forall w, In w (spec_names 2) -> In (rev w) (spec_names 2).
Proof.
  split.
  - vm_compute. repeat (constructor; [simpl; intuition discriminate|]). constructor.
  - intros w Hw. vm_compute in Hw. repeat (destruct Hw as [<-|Hw]; [vm_compute; tauto|]). destruct Hw.
Qed.

(* immersion, two reflections: the path LTL *)
Example immersion_LTL :
  exists paths, make_paths (Immersion true) 2 = inl paths /\ length paths = 14 /\
  plookup [L; T; L] paths = Some (mkPath
    [ mkIface PProbe None None None None (Some true);
      mkIface PFront (Some FluidSolid) (Some Transmission) None (Some false) (Some true);
      mkIface PBack (Some SolidFluid) (Some Reflection) (Some Couplant) (Some false) (Some false);
      mkIface PFront (Some SolidFluid) (Some Reflection) (Some Couplant) (Some true) (Some true);
      mkIface PGrid None None None (Some true) None ]
    [Couplant; Block; Block; Block] [L; L; T; L] [L; T; L] None).
Proof. eexists. split; [vm_compute; reflexivity|]. split; vm_compute; reflexivity. Qed.

(* the view LT-TT of the contact model with under-material: receive path is TT
   reversed = TT ... and LLT-LT receives along TL *)
Example contact_view_LLT_LT :
  exists views v, make_views (Contact true true true) 2 false = inl views /\
    length views = 196 /\ In (([L; L; T], [L; T]), v) views /\
    p_name (v_tx v) = [L; L; T] /\ p_modes (v_rx v) = [T; L] /\ scat_key v = Some (T, L).
Proof.
  eexists. eexists. split; [vm_compute; reflexivity|]. split; [vm_compute; reflexivity|].
  split.
  - vm_compute. repeat (first [left; reflexivity | right]).
  - vm_compute. repeat split; reflexivity.
Qed.

(* errors *)
Example errors :
  make_paths (Immersion false) 1 = inr ErrKey /\ make_paths (Contact true false true) 1 = inr ErrValue /\
  make_paths (Contact false true true) 2 = inr ErrValue /\ make_paths (Immersion true) 3 = inr ErrNotImplemented /\
  make_paths (Immersion true) (-1) = inr ErrValue /\
  iface_reverse (mkIface PFront (Some FluidSolid) None None None None) = inr ErrValue /\
  (exists paths, make_paths (Immersion true) 1 = inl paths /\
     make_views_from_paths (select [[L]; [L; T]] paths) true = inr ErrKey).
Proof.
  repeat (split; [vm_compute; reflexivity|]). eexists. split; vm_compute; reflexivity.
Qed.

(* a reversed path *)
Example reverse_immersion_LT :
  exists paths p, make_paths (Immersion true) 1 = inl paths /\ plookup [L; T] paths = Some p /\
  path_reverse p = inl (mkPath
    [ mkIface PGrid None None None None (Some true);
      mkIface PBack (Some SolidFluid) (Some Reflection) (Some Couplant) (Some false) (Some false);
      mkIface PFront (Some SolidFluid) (Some Transmission) None (Some true) (Some false);
      mkIface PProbe None None None (Some true) None ]
    [Block; Block; Couplant] [T; L; L] [L; T] None).
Proof. eexists. eexists. split; [vm_compute; reflexivity|]. split; vm_compute; reflexivity. Qed.

(* ==================================================================== *)
(* SECOND PART — the glue around the core (Model/ViewsN.v, Proofs/ViewsNProofs.v):
   names as the real Python strings, the views dictionary, the examination objects
   accepted by the two public make_views, and the wiring rule for ANY number of wall
   reflections (the code stops at 2 with NotImplementedError; make_paths_gen is the same
   rule without the limit and is proved equal to the code's make_paths on 0..2).
   A str is the list of its characters (`pystr`); `word_str w` is the name of the path
   w, `view_str (X, Y)` the dictionary key f"{X}-{Y}". *)
(* ==================================================================== *)

(* ---- names as strings ---------------------------------------------- *)
(* reciprocal_viewname on the key of a view is the key of the reciprocal view:
   split("-"), [::-1] and "+" do on the string what recip does on the pair *)
Theorem reciprocal_viewname_on_view_names : forall v,
  reciprocal_viewname_str (view_str v) = inl (view_str (recip v)).
Proof. exact reciprocal_str_view. Qed.

(* on ANY string: it returns iff the string has exactly one "-" (otherwise the tuple
   unpacking raises ValueError) *)
Theorem reciprocal_viewname_defined_iff : forall s,
  ((exists t, reciprocal_viewname_str s = inl t) <-> count_dash s = 1) /\
  (count_dash s <> 1 -> reciprocal_viewname_str s = inr ErrValue).
Proof. intros s. split; [exact (reciprocal_str_defined s) | exact (reciprocal_str_error s)]. Qed.

(* ... and then it is an involution and swaps the two reversed pieces, whatever the
   characters of the path names are (no_dash a: "-" does not occur in a) *)
Theorem reciprocal_viewname_any_string : forall s t, reciprocal_viewname_str s = inl t ->
  reciprocal_viewname_str t = inl s /\
  exists a b, s = join_dash a b /\ no_dash a /\ no_dash b /\ t = join_dash (rev b) (rev a).
Proof. intros s t H. split; [exact (reciprocal_str_invol s t H) | exact (reciprocal_str_spec s t H)]. Qed.

(* the dictionary key determines the view name (no two views share a key) and
   split("-") reads the two path names back *)
Theorem view_key_injective : forall u v,
  (view_str u = view_str v -> u = v) /\
  split_dash (view_str v) = [word_str (fst v); word_str (snd v)].
Proof. intros u v. split; [exact (view_str_inj u v) | exact (view_str_split v)]. Qed.

(* Mode.key() and parse_enum_constant / mode_dict are inverse on path names; only the
   letters L and T parse *)
Theorem path_name_letters_roundtrip : forall w s,
  parse_word (word_str w) = inl w /\ (parse_word s = inl w -> s = word_str w) /\
  length (word_str w) = length w /\ word_str (rev w) = rev (word_str w).
Proof.
  intros w s. split; [exact (parse_word_str w)|]. split; [exact (parse_word_some s w)|].
  split; [exact (word_str_length w) | exact (word_str_rev w)].
Qed.

(* default_viewname_order evaluated on the real strings and compared the way Python
   compares tuples (ints, then str by code point) is the model's view_cmp, hence (by
   key_order_is_documented) the documented order *)
Theorem python_key_is_model_key : forall a b,
  sview_cmp (word_str (fst a), word_str (snd a)) (word_str (fst b), word_str (snd b)) = view_cmp a b.
Proof. exact sview_cmp_view. Qed.

(* on ARBITRARY strings the key comparison is a total order on the pairs (tx, rx):
   equal keys only for equal pairs, antisymmetric, transitive - so sorted() by it has
   exactly one possible result on duplicate-free input, whatever the path names are *)
Theorem python_key_total_order : forall a b c : pystr * pystr,
  (sview_cmp a b = Eq <-> a = b) /\ sview_cmp b a = CompOpp (sview_cmp a b) /\
  (sview_cmp a b = Lt -> sview_cmp b c = Lt -> sview_cmp a c = Lt).
Proof.
  intros a b c. split; [exact (gc_eq _ good_sview a b)|].
  split; [exact (gc_sym _ good_sview a b) | exact (gc_trans _ good_sview a b c)].
Qed.

(* ---- the views dictionary ------------------------------------------ *)
(* make_views_from_paths with its OrderedDict: when the keys of paths_dict are distinct
   (a dict) no assignment views[view_name] = ... overwrites an earlier one: the
   dictionary has exactly one entry per view name, in the order of make_viewnames, keyed
   by f"{tx}-{rx}" *)
Theorem views_dict_no_collision : forall paths uo, NoDup (map fst paths) ->
  make_views_from_paths_dict paths uo =
    match make_views_from_paths paths uo with
    | inl vs => inl (keyed vs)
    | inr e => inr e
    end.
Proof. exact views_dict_spec. Qed.

(* the premise holds for the paths of every configuration *)
Theorem views_dict_configs : forall s r uo paths, make_paths s r = inl paths ->
  make_views_from_paths_dict paths uo =
    match make_views_from_paths paths uo with inl vs => inl (keyed vs) | inr e => inr e end.
Proof. exact views_dict_config. Qed.

(* for reversal-closed path names the keys of the full dictionary are closed under
   reciprocal_viewname (which never raises on them) *)
Theorem views_keys_closed_under_reciprocal : forall paths vs k,
  (forall w, In w (map fst paths) -> In (rev w) (map fst paths)) ->
  make_views_from_paths paths false = inl vs ->
  In k (map fst (keyed vs)) ->
  exists k', reciprocal_viewname_str k = inl k' /\ In k' (map fst (keyed vs)).
Proof. exact views_keys_reciprocal. Qed.

(* ---- the public make_views and the examination objects --------------- *)
(* block_in_immersion.make_views: a BlockInImmersion with a couplant and a front wall
   gives the views of the configuration Immersion(backwall is not None); a couplant
   None is a ValueError (reflection_against must be defined), a front wall None a
   TypeError; any object lacking one of the four attributes read (a BlockInContact, a
   plain ExaminationObject) is rejected with ValueError BEFORE max_number_of_reflection
   is looked at *)
Theorem make_views_immersion_objects : forall couplant bw r uo,
  make_views_imm_obj (block_in_immersion couplant true bw) r uo =
    (if couplant then liftX (make_views (Immersion bw) r uo) else inr (XBase ErrValue)) /\
  make_views_imm_obj (block_in_immersion couplant false bw) r uo = inr XType /\
  (forall o, eo_couplant_material o = NoAttr \/ eo_block_material o = NoAttr \/
             eo_frontwall o = NoAttr \/ eo_backwall o = NoAttr ->
             make_views_imm_obj o r uo = inr (XBase ErrValue)).
Proof.
  intros couplant bw r uo. split; [exact (make_views_imm_block couplant bw r uo)|].
  split; [exact (make_views_imm_no_frontwall couplant bw r uo)
         | exact (fun o => make_views_imm_wrong_object o r uo)].
Qed.

(* block_in_contact.make_views: the four try/except blocks: block_material or, failing
   that, material (else the AttributeError escapes); a missing frontwall / backwall /
   under_material attribute counts as None *)
Theorem make_views_contact_objects : forall o r uo,
  ((eo_block_material o <> NoAttr \/ eo_material o <> NoAttr) ->
   make_views_contact_obj o r uo =
   liftX (make_views (Contact (attr_or_none (eo_frontwall o)) (attr_or_none (eo_backwall o))
                              (attr_or_none (eo_under_material o))) r uo)) /\
  (eo_block_material o = NoAttr -> eo_material o = NoAttr ->
   make_views_contact_obj o r uo = inr XAttribute).
Proof.
  intros o r uo. split; [exact (make_views_contact_setup o r uo) | exact (make_views_contact_no_material o r uo)].
Qed.

(* end to end: whenever a public make_views returns, it returned the views of a
   configuration, to which view_wiring_configs / view_counts / unique_dictionary apply *)
Theorem make_views_objects_wired : forall o r uo views,
  (make_views_imm_obj o r uo = inl views ->
   exists bw, eo_backwall o = Attr bw /\ eo_frontwall o = Attr true /\
              eo_couplant_material o = Attr true /\ make_views (Immersion bw) r uo = inl views) /\
  (make_views_contact_obj o r uo = inl views ->
   make_views (Contact (attr_or_none (eo_frontwall o)) (attr_or_none (eo_backwall o))
                       (attr_or_none (eo_under_material o))) r uo = inl views).
Proof.
  intros o r uo views. split; [exact (make_views_imm_obj_wired o r uo views)
                              | exact (make_views_contact_obj_wired o r uo views)].
Qed.

(* the interfaces dictionary of every configuration: documented keys in the documented
   order, documented objects; in immersion the front wall is TWO Interface objects on
   the same points - fluid_solid transmission (normals away from the incoming rays) and
   solid_fluid reflection against the couplant (normals towards them) *)
Theorem interfaces_dictionary_wired : forall s bw,
  make_interfaces s = inl (spec_interfaces s) /\
  ilookup KFrontTrans (spec_interfaces (Immersion bw)) = Some spec_front_trans /\
  ilookup KFrontRefl (spec_interfaces (Immersion bw)) = Some (spec_wall (Immersion bw) 2) /\
  i_points spec_front_trans = i_points (spec_wall (Immersion bw) 2) /\
  i_tr spec_front_trans = Some Transmission /\ i_tr (spec_wall (Immersion bw) 2) = Some Reflection /\
  i_kind spec_front_trans = Some FluidSolid /\ i_kind (spec_wall (Immersion bw) 2) = Some SolidFluid /\
  i_inc spec_front_trans = Some false /\ i_inc (spec_wall (Immersion bw) 2) = Some true.
Proof. intros s bw. split; [exact (interfaces_wired s) | exact (frontwall_two_objects bw)]. Qed.

(* ---- any number of reflections -------------------------------------- *)
(* the path names with up to r reflections, for EVERY r: exactly the non-empty L/T words
   of at most r+1 letters, each once, closed under reversal, 2(2^(r+1) - 1) of them, in
   the order shortest first then alphabetical (L, T, LL, LT, TL, TT, LLL, ...).
   This discharges the premises NoDup / reversal-closed of viewnames_all_pairs,
   viewnames_sorted, unique_classes and unique_views_count for the real name sets *)
Theorem path_names_any_reflections : forall r,
  (forall w, In w (spec_names r) <-> 1 <= length w <= r + 1) /\
  NoDup (spec_names r) /\
  (forall w, In w (spec_names r) -> In (rev w) (spec_names r)) /\
  length (spec_names r) = num_paths r /\ num_paths r = 2 * (2 ^ (r + 1) - 1) /\
  StronglySorted shortlex (spec_names r).
Proof.
  intros r. split; [exact (spec_names_In r)|]. split; [exact (spec_names_NoDup r)|].
  split; [exact (spec_names_closed r)|]. split; [exact (spec_names_length r)|].
  split; [exact (num_paths_alt r) | exact (spec_names_shortlex r)].
Qed.

(* make_interfaces + make_paths with the limit removed give, for EVERY
   max_number_of_reflection, the documented paths of all the names (induction on the
   names, not enumeration); up to 2 this is the code's make_paths, above 2 the code
   raises NotImplementedError *)
Theorem make_paths_any_reflections : forall s r,
  make_paths_gen s r = spec_paths_gen s r /\
  ((r <= 2)%Z -> make_paths_gen s r = make_paths s r) /\
  ((2 < r)%Z -> make_paths s r = inr ErrNotImplemented).
Proof.
  intros s r. split; [exact (make_paths_gen_wired s r)|].
  split; [exact (make_paths_gen_agrees s r) | exact (make_paths_limit s r)].
Qed.

(* it returns exactly when r >= 0 and the walls it needs are declared: the back wall
   from one reflection on, the front wall of a contact block from two on *)
Theorem make_paths_any_defined_iff : forall s r,
  (exists paths, make_paths_gen s r = inl paths) <->
  (0 <= r)%Z /\
  match s with
  | Immersion bw => (1 <= r)%Z -> bw = true
  | Contact fw bw _ => ((1 <= r)%Z -> bw = true) /\ ((2 <= r)%Z -> fw = true)
  end.
Proof. exact make_paths_gen_defined. Qed.

(* the documented path of ANY non-empty word w: one interface more than legs; probe
   first, grid last, in immersion the front-wall transmission second and a couplant leg
   of mode L first; the k-th wall crossing (k = 1 .. |w|-1) sits at position k (+1 in
   immersion) and is the object spec_wall s k; the legs in the block carry the letters of
   w in order, all in the block material; the name is w *)
Theorem path_interfaces_any_word : forall s w, 1 <= length w ->
  let p := spec_path s w in
  length (p_interfaces p) = length w + 1 + iface_offset s /\
  length (p_materials p) = length w + iface_offset s /\
  length (p_modes p) = length w + iface_offset s /\
  nth_error (p_interfaces p) 0 = Some spec_probe /\
  nth_error (p_interfaces p) (length w + iface_offset s) = Some spec_grid /\
  (iface_offset s = 1 -> nth_error (p_interfaces p) 1 = Some spec_front_trans) /\
  (forall k, 1 <= k < length w -> nth_error (p_interfaces p) (k + iface_offset s) = Some (spec_wall s k)) /\
  p_materials p = (match s with Immersion _ => [Couplant] | Contact _ _ _ => [] end) ++ repeat Block (length w) /\
  p_modes p = block_prefix s ++ w /\ p_name p = w /\ p_rays p = None.
Proof.
  intros s w Hw. cbv zeta.
  split; [exact (proj1 (spec_path_length s w Hw))|].
  split; [exact (proj1 (proj2 (spec_path_length s w Hw)))|].
  split; [exact (proj2 (proj2 (spec_path_length s w Hw)))|].
  split; [exact (proj1 (spec_path_ends s w Hw))|].
  split; [exact (proj1 (proj2 (spec_path_ends s w Hw)))|].
  split; [exact (proj2 (proj2 (spec_path_ends s w Hw)))|].
  split; [exact (fun k Hk => spec_path_wall s w k Hk) | exact (spec_path_materials s w)].
Qed.

(* what the k-th wall crossing is, for every k >= 1: back wall for odd k, front wall for
   even k; the normals (all pointing down) face both the incoming and the outgoing rays at
   the front wall and neither at the back wall; immersion: solid_fluid reflection against
   the couplant; contact: solid_fluid reflection against the under-material at the back
   wall when there is one, otherwise no kind / flag at all; and the object depends on the
   parity of k only (the two Interface objects backwall_refl / frontwall_refl are reused) *)
Theorem wall_crossing_meaning : forall s k, 1 <= k ->
  i_points (spec_wall s k) = (if Nat.odd k then PBack else PFront) /\
  i_inc (spec_wall s k) = Some (Nat.even k) /\ i_out (spec_wall s k) = Some (Nat.even k) /\
  (i_kind (spec_wall s k), i_tr (spec_wall s k), i_against (spec_wall s k)) =
    match s with
    | Immersion _ => (Some SolidFluid, Some Reflection, Some Couplant)
    | Contact _ _ um => if Nat.odd k && um then (Some SolidFluid, Some Reflection, Some Under)
                        else (None, None, None)
    end /\
  spec_wall s k = spec_wall s (if Nat.odd k then 1 else 2).
Proof.
  intros s k Hk. destruct (spec_wall_meaning s k Hk) as (H1 & H2 & H3 & H4).
  split; [exact H1|]. split; [exact H2|]. split; [exact H3|]. split; [exact H4 | exact (spec_wall_parity s k Hk)].
Qed.

(* Path.reverse of the documented path of ANY non-empty word is, explicitly, the path
   travelled backwards (spec_path_reversed: grid first, the same wall objects in the
   opposite order - Interface.reverse leaves a wall reflection unchanged -, the front wall
   as a solid_fluid transmission with swapped normal sides, probe last; legs and materials
   reversed; same name), and reversing that gives the path back *)
Theorem path_reverse_any_word : forall s w, 1 <= length w ->
  path_reverse (spec_path s w) = inl (spec_path_reversed s w) /\
  path_reverse (spec_path_reversed s w) = inl (spec_path s w) /\
  (forall k, 1 <= k -> iface_reverse (spec_wall s k) = inl (spec_wall s k)).
Proof.
  intros s w Hw. split; [exact (spec_path_reverse_explicit s w Hw)|].
  split; [exact (spec_path_reverse_twice s w Hw) | exact (fun k Hk => spec_wall_reverse_fixed s k Hk)].
Qed.

(* the views for any number of reflections: names, wiring and scattering key exactly as
   in view_wiring_configs; defined as soon as the paths are; equal to the code's make_views
   up to 2 reflections *)
Theorem view_wiring_any_reflections : forall s r uo,
  (forall views, make_views_gen s r uo = inl views ->
    (0 <= r)%Z /\
    map fst views = make_viewnames (spec_names (Z.to_nat r)) uo /\
    forall X Y v, In ((X, Y), v) views ->
      In X (spec_names (Z.to_nat r)) /\ In Y (spec_names (Z.to_nat r)) /\
      v_name v = (X, Y) /\
      v_tx v = spec_path s X /\ v_rx v = spec_path s (rev Y) /\
      p_modes (v_tx v) = block_prefix s ++ X /\ p_modes (v_rx v) = block_prefix s ++ rev Y /\
      scat_key v = Some (last X L, hd L Y)) /\
  (forall paths, make_paths_gen s r = inl paths -> exists views, make_views_gen s r uo = inl views) /\
  ((r <= 2)%Z -> make_views_gen s r uo = make_views s r uo).
Proof.
  intros s r uo. split; [exact (fun views => view_wiring_gen s r uo views)|].
  split; [exact (fun paths => make_views_gen_defined s r uo paths) | exact (make_views_gen_agrees s r uo)].
Qed.

(* how many views: with n = 2(2^(r+1) - 1) paths, n^2 views, n(n+1)/2 unique ones - for the
   code's make_views (r in 0..2: 4/3, 36/21, 196/105) and for any r with the general rule *)
Theorem view_counts : forall s r uo views,
  let n := num_paths (Z.to_nat r) in
  (make_views s r uo = inl views ->
     if uo then 2 * length views = n * (n + 1) else length views = n * n) /\
  (make_views_gen s r uo = inl views ->
     if uo then 2 * length views = n * (n + 1) else length views = n * n).
Proof.
  intros s r uo views. cbv zeta.
  split; [exact (views_count_config s r uo views) | exact (views_count_gen s r uo views)].
Qed.

(* which view of each reciprocity class is kept, in closed form: for duplicate-free,
   reversal-closed path names, X-Y is in the unique list iff it is in the full list and
   its reciprocal does not come before it in the documented order, i.e. iff the transmit
   path has more legs than the receive path, or as many and X is not after reversed(Y)
   alphabetically *)
Theorem unique_views_closed_form : forall names tx rx, NoDup names ->
  (forall w, In w names -> In (rev w) names) ->
  (In (tx, rx) (make_viewnames names true) <->
   In (tx, rx) (make_viewnames names false) /\ ~ doc_lt (recip (tx, rx)) (tx, rx)) /\
  (~ doc_lt (recip (tx, rx)) (tx, rx) <->
   length rx < length tx \/ (length rx = length tx /\ ~ word_lt (rev rx) tx)).
Proof.
  intros names tx rx HN Hc. split; [exact (unique_kept_iff names (tx, rx) HN Hc) | exact (kept_explicit tx rx)].
Qed.

(* tfm_unique_only=True returns a SUB-dictionary of tfm_unique_only=False: same View
   objects (same tx/rx paths), same relative order, exactly the kept names; whenever the
   full dictionary is built the unique one is too *)
Theorem unique_dictionary_is_subdictionary : forall paths va, NoDup (map fst paths) ->
  (forall w, In w (map fst paths) -> In (rev w) (map fst paths)) ->
  make_views_from_paths paths false = inl va ->
  exists vu, make_views_from_paths paths true = inl vu /\ subseq vu va /\
    forall n v, In (n, v) vu <-> In (n, v) va /\ ~ doc_lt (recip n) n.
Proof. exact unique_subdict. Qed.

Theorem unique_dictionary_configs : forall s r va,
  (make_views s r false = inl va ->
   exists vu, make_views s r true = inl vu /\ subseq vu va /\
     forall n v, In (n, v) vu <-> In (n, v) va /\ ~ doc_lt (recip n) n) /\
  (make_views_gen s r false = inl va ->
   exists vu, make_views_gen s r true = inl vu /\ subseq vu va /\
     forall n v, In (n, v) vu <-> In (n, v) va /\ ~ doc_lt (recip n) n).
Proof.
  intros s r va. split; [exact (unique_subdict_config s r va) | exact (unique_subdict_gen s r va)].
Qed.

(* ---- non-vacuity of the second part ----------------------------------- *)
Module StringExamples.
  Import Coq.Strings.String.
  Local Open Scope string_scope.
  Definition s (x : string) : pystr := list_ascii_of_string x.

  (* the docstring example of reciprocal_viewname, and the two ways it raises *)
  Example reciprocal_docstring :
    reciprocal_viewname_str (s "L-LT") = inl (s "TL-L") /\
    reciprocal_viewname_str (s "LL") = inr ErrValue /\
    reciprocal_viewname_str (s "L-T-L") = inr ErrValue /\
    reciprocal_viewname_str (s "") = inr ErrValue /\
    reciprocal_viewname_str (s "ab-") = inl (s "-ba") /\
    count_dash (s "L-LT") = 1 /\ count_dash (s "L-T-L") = 2.
  Proof. vm_compute. repeat split; reflexivity. Qed.

  Example names_and_keys :
    word_str [L; T; L] = s "LTL" /\ view_str ([L; L; T], [L; T]) = s "LLT-LT" /\
    parse_word (s "LTL") = inl [L; T; L] /\ parse_word (s "LXL") = inr ErrValue /\
    split_dash (s "LLT-LT") = [s "LLT"; s "LT"] /\ split_dash (s "a--b") = [s "a"; s ""; s "b"].
  Proof. vm_compute. repeat split; reflexivity. Qed.

  (* Python: ("T", "L") sorts after ("L", "T"); "LL-L" (3 legs) after "T-T" (2 legs);
     upper case before lower case, a proper prefix first *)
  Example key_comparisons :
    sview_cmp (s "T", s "L") (s "L", s "T") = Gt /\ sview_cmp (s "T", s "T") (s "LL", s "L") = Lt /\
    sview_cmp (s "L", s "LL") (s "LL", s "L") = Gt /\
    str_cmp (s "T") (s "a") = Lt /\ str_cmp (s "LT") (s "LTL") = Lt.
  Proof. vm_compute. repeat split; reflexivity. Qed.

  (* an assignment to an existing key keeps its place; NoDup is needed in
     views_dict_no_collision: the same name twice gives one entry, not four *)
  Example dictionary_overwrite :
    od_set (s "b") 5 (od_set (s "a") 3 (od_set (s "b") 2 (od_set (s "a") 1 []))) = [(s "a", 3); (s "b", 5)] /\
    (exists paths p, make_paths (Contact false false false) 0 = inl paths /\ plookup [L] paths = Some p /\
       match make_views_from_paths_dict [([L], p); ([L], p)] false, make_views_from_paths [([L], p); ([L], p)] false with
       | inl d, inl vs => List.length d = 1 /\ List.length vs = 4
       | _, _ => False
       end).
  Proof.
    split; [vm_compute; reflexivity|]. eexists. eexists. split; [vm_compute; reflexivity|].
    split; vm_compute; auto.
  Qed.

  (* the 21 keys of the unique views of the default immersion model are IMAGING_MODES *)
  Example keys_21 :
    exists paths d, make_paths (Immersion true) 1 = inl paths /\
      make_views_from_paths_dict paths true = inl d /\
      map fst d = map s ["L-L"; "L-T"; "T-T"; "LL-L"; "LL-T"; "LT-L"; "LT-T"; "TL-L"; "TL-T"; "TT-L"; "TT-T";
                         "LL-LL"; "LL-LT"; "LL-TL"; "LL-TT"; "LT-LT"; "LT-TL"; "LT-TT"; "TL-LT"; "TL-TT"; "TT-TT"].
  Proof. eexists. eexists. split; [vm_compute; reflexivity|]. split; vm_compute; reflexivity. Qed.
End StringExamples.

(* the objects: a contact block given to the immersion model is rejected whatever r is
   (even r = 7, which alone would be NotImplementedError); an immersion block given to the
   contact model is read as a contact block with both walls and no under-material; a plain
   ExaminationObject has no wall at all *)
Example objects :
  make_views_imm_obj (block_in_contact true true true) 7 false = inr (XBase ErrValue) /\
  make_views_imm_obj examination_object 0 false = inr (XBase ErrValue) /\
  make_views_imm_obj (block_in_immersion true true true) 7 false = inr (XBase ErrNotImplemented) /\
  make_views_imm_obj (block_in_immersion true true false) 1 true = inr (XBase ErrKey) /\
  make_views_imm_obj (block_in_immersion false true true) 0 true = inr (XBase ErrValue) /\
  make_views_contact_obj (block_in_immersion true true true) 2 true
    = liftX (make_views (Contact true true false) 2 true) /\
  make_views_contact_obj examination_object 1 false = inr (XBase ErrValue) /\
  make_views_contact_obj (mkExam NoAttr NoAttr NoAttr NoAttr NoAttr NoAttr) 0 false = inr XAttribute /\
  (exists views, make_views_contact_obj examination_object 0 true = inl views /\ length views = 3) /\
  (exists views, make_views_imm_obj (block_in_immersion true true true) 1 true = inl views /\ length views = 21).
Proof.
  repeat (split; [vm_compute; reflexivity|]).
  split; eexists; (split; [vm_compute; reflexivity|]); vm_compute; reflexivity.
Qed.

(* three reflections (beyond the code's limit): 30 paths, 900 views, 465 unique; LTLT *)
Example three_reflections :
  num_paths 0 = 2 /\ num_paths 1 = 6 /\ num_paths 2 = 14 /\ num_paths 3 = 30 /\
  make_paths (Immersion true) 3 = inr ErrNotImplemented /\
  (exists paths, make_paths_gen (Immersion true) 3 = inl paths /\ length paths = 30 /\
     plookup [L; T; L; T] paths = Some (mkPath
       [ mkIface PProbe None None None None (Some true);
         mkIface PFront (Some FluidSolid) (Some Transmission) None (Some false) (Some true);
         mkIface PBack (Some SolidFluid) (Some Reflection) (Some Couplant) (Some false) (Some false);
         mkIface PFront (Some SolidFluid) (Some Reflection) (Some Couplant) (Some true) (Some true);
         mkIface PBack (Some SolidFluid) (Some Reflection) (Some Couplant) (Some false) (Some false);
         mkIface PGrid None None None (Some true) None ]
       [Couplant; Block; Block; Block; Block] [L; L; T; L; T] [L; T; L; T] None)) /\
  (exists va vu, make_views_gen (Contact true true true) 3 false = inl va /\
     make_views_gen (Contact true true true) 3 true = inl vu /\ length va = 900 /\ length vu = 465) /\
  make_paths_gen (Contact false true true) 3 = inr ErrValue /\
  make_paths_gen (Immersion false) 3 = inr ErrKey /\ make_paths_gen (Immersion true) (-1) = inr ErrValue.
Proof.
  repeat (split; [vm_compute; reflexivity|]).
  split; [eexists; split; [vm_compute; reflexivity|]; split; vm_compute; reflexivity|].
  split; [eexists; eexists; split; [vm_compute; reflexivity|]; split; [vm_compute; reflexivity|];
          split; vm_compute; reflexivity|].
  repeat split; vm_compute; reflexivity.
Qed.

(* the premises of make_paths_any_defined_iff / path_interfaces_any_word are satisfiable,
   and the closed form of the unique filter on IMAGING_MODES-like names *)
Example kept_examples :
  (~ doc_lt (recip ([L; L], [T])) ([L; L], [T])) /\ doc_lt (recip ([T], [L; L])) ([T], [L; L]) /\
  (~ doc_lt (recip ([L], [T])) ([L], [T])) /\ doc_lt (recip ([T], [L])) ([T], [L]) /\
  (~ doc_lt (recip ([L; T], [L; T])) ([L; T], [L; T])) /\
  In ([L; L], [T]) (make_viewnames (spec_names 1) true) /\ ~ In ([T], [L; L]) (make_viewnames (spec_names 1) true).
Proof.
  assert (K : forall a b, view_cmp a b = Lt <-> doc_lt a b) by exact view_cmp_doc.
  repeat split; try (apply K; vm_compute; reflexivity);
    try (intros H; apply K in H; vm_compute in H; discriminate).
  - vm_compute. repeat (first [left; reflexivity | right]).
  - intros H. vm_compute in H. repeat (destruct H as [H|H]; [discriminate|]). exact H.
Qed.

(* the explicit reversed path agrees with reverse_immersion_LT above *)
Example reversed_LT :
  spec_path_reversed (Immersion true) [L; T] = mkPath
    [ mkIface PGrid None None None None (Some true);
      mkIface PBack (Some SolidFluid) (Some Reflection) (Some Couplant) (Some false) (Some false);
      mkIface PFront (Some SolidFluid) (Some Transmission) None (Some true) (Some false);
      mkIface PProbe None None None (Some true) None ]
    [Block; Block; Couplant] [T; L; L] [L; T] None.
Proof. vm_compute. reflexivity. Qed.
