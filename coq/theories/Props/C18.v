(* Props/C18.v — Views and paths mean what their names say; unique views are
   reciprocity classes.
   Only statements; every proof is `exact <lemma>` (lemmas in Proofs/ViewsProofs.v).
   Model (Model/Views.v): path names are words over {L, T}; the view "X-Y" is the pair
   (X, Y); `inl` = the call returns, `inr e` = it raises (ValueError / KeyError /
   NotImplementedError / AssertionError).  SPEC side (same file, second half):
   doc_lt (the documented order), first_of_class, subseq, spec_names, spec_path
   (what a path named w is documented to be), spec_paths.
   What these theorems do NOT cover (exercised at run time by harness/prop_C18.py):
   that arim's Python code computes what the model says (strings, dictionaries,
   numpy transposition, object identity of the paths shared between views). *)
From Coq Require Import Arith List Bool ZArith Permutation Sorting.Sorted.
From Arim Require Import Model.Views Proofs.ViewsProofs.
Import ListNotations.

(* ---- names --------------------------------------------------------- *)
(* reciprocal_viewname is an involution *)
Theorem recip_involutive : forall v, recip (recip v) = v.
Proof. exact recip_involutive_l. Qed.

(* make_viewnames(pathnames): for any duplicate-free list of path names every
   ordered pair (tx, rx) appears, exactly once, and nothing else: n^2 views *)
Theorem viewnames_all_pairs : forall names, NoDup names ->
  Permutation (make_viewnames names false) (list_prod names names)
  /\ NoDup (make_viewnames names false)
  /\ length (make_viewnames names false) = length names * length names
  /\ (forall tx rx, In (tx, rx) (make_viewnames names false) <-> In tx names /\ In rx names).
Proof.
  intros names HN. split; [exact (viewnames_perm names)|]. split; [exact (viewnames_NoDup names HN)|].
  split; [exact (viewnames_length names) | exact (viewnames_In names)].
Qed.

(* ... in strictly ascending documented order: total number of legs, then the
   larger of the two leg counts, then legs of rx, then legs of tx, then tx and rx
   lexicographically with L before T *)
Theorem viewnames_sorted : forall names, NoDup names ->
  StronglySorted doc_lt (make_viewnames names false).
Proof. exact viewnames_sorted_strict. Qed.

(* the key tuple compared the way Python compares tuples IS the documented order *)
Theorem key_order_is_documented : forall a b, view_cmp a b = Lt <-> doc_lt a b.
Proof. exact view_cmp_doc. Qed.

(* doc_lt is a strict total order, so "sorted by it" determines the list uniquely *)
Theorem doc_lt_strict_total : forall a b c,
  ~ doc_lt a a /\ (doc_lt a b -> doc_lt b c -> doc_lt a c) /\ (doc_lt a b \/ a = b \/ doc_lt b a).
Proof.
  intros a b c. split; [exact (doc_lt_irrefl a)|]. split; [exact (doc_lt_trans a b c) | exact (doc_lt_total a b)].
Qed.

(* ---- unique views = reciprocity classes ---------------------------- *)
(* filter_unique_views on any duplicate-free list l of views: the result u keeps
   the order of l, contains v iff v is the FIRST member of {v, recip v} in l,
   hence at least one and at most one member of every class, and never drops a
   view whose reciprocal is absent *)
Theorem unique_classes_list : forall l, NoDup l ->
  let u := filter_unique_views l in
  subseq u l
  /\ (forall v, In v u <-> first_of_class l v)
  /\ (forall v, In v l -> In v u \/ In (recip v) u)
  /\ (forall v, In v u -> In (recip v) u -> v = recip v)
  /\ (forall v, In v l -> ~ In (recip v) l -> In v u).
Proof.
  intros l HN. split; [exact (filter_subseq l)|].
  split; [exact (fun v => filter_first_of_class l v HN)|].
  split; [exact (fun v => filter_at_least_one l v HN)|].
  split; [exact (fun v => filter_at_most_one l v HN) | exact (fun v => filter_keeps_alone l v HN)].
Qed.

(* make_viewnames(names, tfm_unique_only=True) for duplicate-free names closed under
   reversal: the set of all views is closed under recip and the unique list contains
   exactly one member of each class {v, recip v} (v itself when v = recip v), namely
   the first in the documented order; it is an ordered sublist of the full list *)
Theorem unique_classes : forall names, NoDup names ->
  (forall w, In w names -> In (rev w) names) ->
  let all := make_viewnames names false in
  let u := make_viewnames names true in
  subseq u all /\ StronglySorted doc_lt u
  /\ (forall v, In v all -> In (recip v) all)
  /\ (forall v, In v u <-> first_of_class all v)
  /\ (forall v, In v all ->
        (In v u /\ (v = recip v \/ ~ In (recip v) u)) \/ (~ In v u /\ In (recip v) u)).
Proof.
  intros names HN Hc. split; [exact (filter_subseq _)|].
  split; [exact (subseq_sorted doc_lt _ _ (filter_subseq _) (viewnames_sorted_strict names HN))|].
  split; [exact (fun v => viewnames_closed names v Hc)|].
  split; [exact (fun v => filter_first_of_class _ v (viewnames_NoDup names HN))|].
  exact (fun v => filter_exactly_one _ v (viewnames_NoDup names HN)).
Qed.

(* ... so there are n(n+1)/2 unique views for n reversal-closed path names, and in
   general (|l| + number of self-reciprocal views)/2 *)
Theorem unique_views_count : forall names, NoDup names ->
  (forall w, In w names -> In (rev w) names) ->
  2 * length (make_viewnames names true) = length names * (length names + 1).
Proof. exact unique_views_count_l. Qed.

Theorem unique_count_list : forall l, NoDup l -> (forall v, In v l -> In (recip v) l) ->
  2 * length (filter_unique_views l) = length l + length (filter self_recip l).
Proof. exact filter_unique_count. Qed.

(* ---- paths --------------------------------------------------------- *)
(* FINITE statement, decided by vm_compute for max_number_of_reflection in {0,1,2}
   on each of the 10 examination objects (immersion with/without back wall; contact
   with/without front wall, back wall, under-material) and by case analysis outside
   that range: make_interfaces + make_paths return exactly the documented paths
   (spec_paths: names L, T, LL, ..., in order; interface sequence probe, [front wall
   transmission,] back wall, front wall, ..., grid; kinds, transmission/reflection,
   reflection_against; normal-side flags derived from the up/down direction of the
   legs; materials; modes = [L in the couplant] ++ the name) or raise the documented
   error (negative -> ValueError, > 2 -> NotImplementedError, missing wall ->
   KeyError in immersion / ValueError in contact) *)
Theorem paths_wired : forall s r, make_paths s r = spec_paths s r.
Proof. exact paths_wired_all. Qed.

(* consequence, readable: path w has block modes w in order *)
Theorem paths_block_modes : forall s r paths, make_paths s r = inl paths ->
  map fst paths = spec_names (Z.to_nat r) /\
  forall w p, In (w, p) paths ->
    In w (spec_names (Z.to_nat r)) /\ p = spec_path s w /\
    p_modes p = block_prefix s ++ w /\ p_name p = w.
Proof. exact paths_names_modes. Qed.

(* ---- views --------------------------------------------------------- *)
(* make_views_from_paths on ANY dictionary of paths: the view names are
   make_viewnames(keys); view X-Y transmits along paths[X] and receives along
   paths[reversed Y] *)
Theorem view_wiring : forall paths uo views, make_views_from_paths paths uo = inl views ->
  map fst views = make_viewnames (map fst paths) uo /\
  forall X Y v, In ((X, Y), v) views ->
    plookup X paths = Some (v_tx v) /\ plookup (rev Y) paths = Some (v_rx v) /\ v_name v = (X, Y).
Proof. exact views_from_paths_spec. Qed.

(* it returns whenever the keys are closed under reversal, and raises KeyError when
   some key has no reversed counterpart (with or without tfm_unique_only) *)
Theorem view_wiring_defined : forall paths uo,
  (forall w, In w (map fst paths) -> In (rev w) (map fst paths)) ->
  exists views, make_views_from_paths paths uo = inl views.
Proof. exact views_from_paths_total. Qed.

Theorem view_wiring_open_fails : forall paths uo w,
  NoDup (map fst paths) -> In w (map fst paths) -> ~ In (rev w) (map fst paths) ->
  make_views_from_paths paths uo = inr ErrKey.
Proof. exact views_from_paths_open. Qed.

(* make_views of every configuration: view X-Y has as transmit path the documented
   path X (block legs X from probe to scatterer), as receive path the documented
   path of reversed Y (so block legs Y from scatterer to probe), and its scattering
   key is last(X) followed by first(Y) *)
Theorem view_wiring_configs : forall s r uo views, make_views s r uo = inl views ->
  map fst views = make_viewnames (spec_names (Z.to_nat r)) uo /\
  forall X Y v, In ((X, Y), v) views ->
    In X (spec_names (Z.to_nat r)) /\ In Y (spec_names (Z.to_nat r)) /\
    v_name v = (X, Y) /\
    v_tx v = spec_path s X /\ v_rx v = spec_path s (rev Y) /\
    p_modes (v_tx v) = block_prefix s ++ X /\ p_modes (v_rx v) = block_prefix s ++ rev Y /\
    scat_key v = Some (last X L, hd L Y).
Proof. exact view_wiring_setups. Qed.

(* ---- reversal ------------------------------------------------------ *)
(* Path.reverse twice gives back the same modes, materials, interfaces (kinds,
   flags, reflection_against, normal sides), name and rays *)
Theorem path_reverse_involutive : forall p q, path_reverse p = inl q -> path_reverse q = inl p.
Proof. exact path_reverse_invol. Qed.

Theorem interface_reverse_involutive : forall i j, iface_reverse i = inl j -> iface_reverse j = inl i.
Proof. exact iface_reverse_invol. Qed.

(* ... and what the reversed objects are: legs, materials and interfaces in the
   opposite order; each interface keeps its points, transmission/reflection flag and
   reflection_against, swaps its two normal-side flags, and swaps fluid_solid and
   solid_fluid exactly when it is a transmission *)
Theorem path_reverse_meaning : forall p q, path_reverse p = inl q ->
  p_modes q = rev (p_modes p) /\ p_materials q = rev (p_materials p) /\ p_name q = p_name p /\
  p_rays q = option_map rays_reverse (p_rays p) /\
  exists ri, p_interfaces q = rev ri /\
             Forall2 (fun x y => iface_reverse x = inl y) (p_interfaces p) ri.
Proof. exact path_reverse_spec. Qed.

Theorem interface_reverse_meaning : forall i j, iface_reverse i = inl j ->
  i_points j = i_points i /\ i_tr j = i_tr i /\ i_against j = i_against i /\
  i_inc j = i_out i /\ i_out j = i_inc i /\
  i_kind j = match i_tr i with
             | Some Transmission => option_map kind_reverse (i_kind i)
             | _ => i_kind i
             end.
Proof. exact iface_reverse_spec. Qed.

(* Rays.reverse is an involution, and the reversed rays are the same rays travelled
   backwards: indices_rev[k, j, i] = indices[d-1-k, i, j] *)
Theorem rays_reverse_involutive : forall r, rays_reverse (rays_reverse r) = r.
Proof. exact rays_reverse_invol. Qed.

Theorem rays_reverse_indices : forall r,
  rays_indices (rays_reverse r) = rev (map transpose (rays_indices r)).
Proof. exact rays_reverse_indices_eq. Qed.

(* the premise of path_reverse_involutive is met by every path of every configuration *)
Theorem config_paths_reverse_defined : forall s r paths, make_paths s r = inl paths ->
  forall w p, In (w, p) paths -> exists q, path_reverse p = inl q.
Proof. exact config_paths_reversible. Qed.

(* ---- non-vacuity --------------------------------------------------- *)
(* the 21 unique views of L, T, LL, LT, TL, TT are arim.ut.IMAGING_MODES *)
Example unique_views_6_paths :
  make_viewnames (spec_names 1) true =
  [([L],[L]); ([L],[T]); ([T],[T]);
   ([L;L],[L]); ([L;L],[T]); ([L;T],[L]); ([L;T],[T]); ([T;L],[L]); ([T;L],[T]); ([T;T],[L]); ([T;T],[T]);
   ([L;L],[L;L]); ([L;L],[L;T]); ([L;L],[T;L]); ([L;L],[T;T]); ([L;T],[L;T]); ([L;T],[T;L]);
   ([L;T],[T;T]); ([T;L],[L;T]); ([T;L],[T;T]); ([T;T],[T;T])].
Proof. vm_compute. reflexivity. Qed.

Example counts_14_paths :
  length (make_viewnames (spec_names 2) false) = 196 /\ length (make_viewnames (spec_names 2) true) = 105.
Proof. vm_compute. split; reflexivity. Qed.

(* the premises of unique_classes hold for the 14 names *)
Example names_14_closed : NoDup (spec_names 2) /\ forall w, In w (spec_names 2) -> In (rev w) (spec_names 2).
Proof.
  split.
  - vm_compute. repeat (constructor; [simpl; intuition discriminate|]). constructor.
  - intros w Hw. vm_compute in Hw. repeat (destruct Hw as [<-|Hw]; [vm_compute; tauto|]). destruct Hw.
Qed.

(* immersion, two reflections: the path LTL *)
Example immersion_LTL :
  exists paths, make_paths (Immersion true) 2 = inl paths /\ length paths = 14 /\
  plookup [L; T; L] paths = Some (mkPath
    [ mkIface PProbe None None None None (Some true);
      mkIface PFront (Some FluidSolid) (Some Transmission) None (Some false) (Some true);
      mkIface PBack (Some SolidFluid) (Some Reflection) (Some Couplant) (Some false) (Some false);
      mkIface PFront (Some SolidFluid) (Some Reflection) (Some Couplant) (Some true) (Some true);
      mkIface PGrid None None None (Some true) None ]
    [Couplant; Block; Block; Block] [L; L; T; L] [L; T; L] None).
Proof. eexists. split; [vm_compute; reflexivity|]. split; vm_compute; reflexivity. Qed.

(* the view LT-TT of the contact model with under-material: receive path is TT
   reversed = TT ... and LLT-LT receives along TL *)
Example contact_view_LLT_LT :
  exists views v, make_views (Contact true true true) 2 false = inl views /\
    length views = 196 /\ In (([L; L; T], [L; T]), v) views /\
    p_name (v_tx v) = [L; L; T] /\ p_modes (v_rx v) = [T; L] /\ scat_key v = Some (T, L).
Proof.
  eexists. eexists. split; [vm_compute; reflexivity|]. split; [vm_compute; reflexivity|].
  split.
  - vm_compute. repeat (first [left; reflexivity | right]).
  - vm_compute. repeat split; reflexivity.
Qed.

(* errors *)
Example errors :
  make_paths (Immersion false) 1 = inr ErrKey /\ make_paths (Contact true false true) 1 = inr ErrValue /\
  make_paths (Contact false true true) 2 = inr ErrValue /\ make_paths (Immersion true) 3 = inr ErrNotImplemented /\
  make_paths (Immersion true) (-1) = inr ErrValue /\
  iface_reverse (mkIface PFront (Some FluidSolid) None None None None) = inr ErrValue /\
  (exists paths, make_paths (Immersion true) 1 = inl paths /\
     make_views_from_paths (select [[L]; [L; T]] paths) true = inr ErrKey).
Proof.
  repeat (split; [vm_compute; reflexivity|]). eexists. split; vm_compute; reflexivity.
Qed.

(* a reversed path *)
Example reverse_immersion_LT :
  exists paths p, make_paths (Immersion true) 1 = inl paths /\ plookup [L; T] paths = Some p /\
  path_reverse p = inl (mkPath
    [ mkIface PGrid None None None None (Some true);
      mkIface PBack (Some SolidFluid) (Some Reflection) (Some Couplant) (Some false) (Some false);
      mkIface PFront (Some SolidFluid) (Some Transmission) None (Some true) (Some false);
      mkIface PProbe None None None (Some true) None ]
    [Block; Block; Couplant] [T; L; L] [L; T] None).
Proof. eexists. eexists. split; [vm_compute; reflexivity|]. split; vm_compute; reflexivity. Qed.
