(* Props/C09.v — Scattering functions satisfy reciprocity and their geometric symmetries.
   Statements only (proofs: Proofs/ScatProofs.v, Proofs/ScatCrackProofs.v); exact arithmetic
   (NumR), complex numbers are pairs of reals.  Model: Model/Scat.v.

   Oracles (universally quantified, no property assumed unless stated):
     H1a H2a H1b H2b : Z -> R*R      the Hankel values hankel1/2(n, alpha|beta) — ARBITRARY;
     ax az : Z -> R*R                the quadrature values a_0..a_{N-1} of A_x, A_z — ARBITRARY;
     cp_solve_x / cp_solve_z         numpy.linalg.solve — hypothesis exact_solve: A (solve b) = b.
   Partial for the crack: what is proved is the exact reciprocity / symmetry of the discrete
   Galerkin system as assembled and used by the code; the accuracy of scipy's Hankel
   functions, of quad and of the LU solve is outside (measured by harness/prop_C09.py). *)
From Coq Require Import ZArith List Bool String Reals Lia Lra.
From Arim Require Import Base.Num Base.NumR Model.Scat Proofs.ScatProofs Proofs.ScatCrackProofs.
Import ListNotations.
Local Open Scope R_scope.

(* ---- side-drilled hole: for every number of modal terms and arbitrary Hankel values ---- *)

(* the four functions depend on the two angles only through their difference *)
Theorem sdh_depends_on_difference : forall H1a H2a H1b H2b f r vL vT maxn a b d,
  sdh_LL NumR H1a H2a H1b f r vL vT maxn (a + d) (b + d) = sdh_LL NumR H1a H2a H1b f r vL vT maxn a b /\
  sdh_LT NumR H1a H1b f r vL vT maxn (a + d) (b + d) = sdh_LT NumR H1a H1b f r vL vT maxn a b /\
  sdh_TL NumR H1a H1b f r vL vT maxn (a + d) (b + d) = sdh_TL NumR H1a H1b f r vL vT maxn a b /\
  sdh_TT NumR H1a H1b H2b f r vL vT maxn (a + d) (b + d) = sdh_TT NumR H1a H1b H2b f r vL vT maxn a b.
Proof. intros H1a H2a H1b H2b f r vL vT maxn a b d. exact (sdh_difference H1a H2a H1b H2b f r vL vT maxn a b d). Qed.

(* S_LL and S_TT are symmetric under exchange of incident and scattered angle *)
Theorem sdh_LL_TT_symmetric : forall H1a H2a H1b H2b f r vL vT maxn a b,
  sdh_LL NumR H1a H2a H1b f r vL vT maxn a b = sdh_LL NumR H1a H2a H1b f r vL vT maxn b a /\
  sdh_TT NumR H1a H1b H2b f r vL vT maxn a b = sdh_TT NumR H1a H1b H2b f r vL vT maxn b a.
Proof. intros. split; [apply sdh_LL_sym | apply sdh_TT_sym]. Qed.

(* v_T^2 S_LT(a, b) = - v_L^2 S_TL(b, a) *)
Theorem sdh_LT_TL_reciprocal : forall H1a H1b f r vL vT maxn a b,
  vL <> 0 -> vT <> 0 -> f <> 0 -> r <> 0 ->
  rscale NumR (vT * vT) (sdh_LT NumR H1a H1b f r vL vT maxn a b)
  = copp NumR (rscale NumR (vL * vL) (sdh_TL NumR H1a H1b f r vL vT maxn b a)).
Proof. intros; apply sdh_reciprocal; assumption. Qed.

(* 2 pi-periodic in each angle separately *)
Theorem sdh_periodic : forall H1a H2a H1b H2b f r vL vT maxn a b (k l : Z),
  sdh_LL NumR H1a H2a H1b f r vL vT maxn (a + 2 * PI * IZR k) (b + 2 * PI * IZR l)
    = sdh_LL NumR H1a H2a H1b f r vL vT maxn a b /\
  sdh_LT NumR H1a H1b f r vL vT maxn (a + 2 * PI * IZR k) (b + 2 * PI * IZR l)
    = sdh_LT NumR H1a H1b f r vL vT maxn a b /\
  sdh_TL NumR H1a H1b f r vL vT maxn (a + 2 * PI * IZR k) (b + 2 * PI * IZR l)
    = sdh_TL NumR H1a H1b f r vL vT maxn a b /\
  sdh_TT NumR H1a H1b H2b f r vL vT maxn (a + 2 * PI * IZR k) (b + 2 * PI * IZR l)
    = sdh_TT NumR H1a H1b H2b f r vL vT maxn a b.
Proof. intros H1a H2a H1b H2b f r vL vT maxn a b k l. exact (sdh_periodic_all H1a H2a H1b H2b f r vL vT maxn a b k l). Qed.

(* the complex division of the model (Smith's algorithm, as numpy evaluates `/`) is the quotient *)
Theorem smith_division_exact : forall z w : R * R, w <> c0 NumR -> cmul NumR w (cdiv NumR z w) = z.
Proof. exact cdiv_correct. Qed.

(* ---- point source ------------------------------------------------------------------------ *)
Theorem point_source_reciprocal : forall vL vT a b, vL <> 0 -> vT <> 0 ->
  vT * vT * point_LT NumR vL vT a b = - (vL * vL * point_TL NumR vL vT b a) /\
  point_LL NumR a b = point_LL NumR b a /\ point_TT NumR a b = point_TT NumR b a /\
  (forall a' b', point_LT NumR vL vT a' b' = point_LT NumR vL vT a b /\
                 point_TL NumR vL vT a' b' = point_TL NumR vL vT a b /\
                 point_LL NumR a' b' = point_LL NumR a b /\ point_TT NumR a' b' = point_TT NumR a b).
Proof.
  intros vL vT a b HL HT. split; [apply point_reciprocal; assumption|]. repeat split; reflexivity.
Qed.

(* ---- crack centre ------------------------------------------------------------------------ *)

(* the matrices assembled from the mirrored table I_12 through m_ind are symmetric Toeplitz *)
Theorem galerkin_matrices_symmetric : forall nn (a : Z -> R * R) i j, (0 <= i < nn)%Z -> (0 <= j < nn)%Z ->
  galerkin_matrix nn a i j = a (Z.abs (i - j)) /\ galerkin_matrix nn a i j = galerkin_matrix nn a j i.
Proof. intros nn a i j Hi Hj. split; [apply galerkin_toeplitz | apply galerkin_symmetric]; assumption. Qed.

(* symmetric A and exact solve: u^T A^-1 v = v^T A^-1 u, for any size *)
Theorem crack_bilinear_symmetric : forall n (A : Z -> Z -> R * R) solve,
  symmetric_matrix n A -> exact_solve NumR n A solve ->
  forall u v : Z -> R * R, cdot NumR n (solve u) v = cdot NumR n (solve v) u.
Proof. exact bilinear_symmetric. Qed.

Theorem crack_LL_TT_symmetric : forall (p : crack_params) (ax az : Z -> R * R),
  exact_solve NumR (cp_nn p) (galerkin_matrix (Z.of_nat (cp_nn p)) ax) (cp_solve_x p) ->
  exact_solve NumR (cp_nn p) (galerkin_matrix (Z.of_nat (cp_nn p)) az) (cp_solve_z p) ->
  cp_vL p <> 0 -> cp_vT p <> 0 ->
  forall a b, crack_LL NumR p a b = crack_LL NumR p b a /\ crack_TT NumR p a b = crack_TT NumR p b a.
Proof.
  intros p ax az Hx Hz HL HT a b. split.
  - apply (crack_LL_sym p ax az Hx Hz); assumption.
  - apply (crack_TT_sym p ax az Hx Hz).
Qed.

Theorem crack_LT_TL_reciprocal : forall (p : crack_params) (ax az : Z -> R * R),
  exact_solve NumR (cp_nn p) (galerkin_matrix (Z.of_nat (cp_nn p)) ax) (cp_solve_x p) ->
  exact_solve NumR (cp_nn p) (galerkin_matrix (Z.of_nat (cp_nn p)) az) (cp_solve_z p) ->
  0 < cp_vL p -> 0 < cp_vT p -> 0 < cp_frequency p ->
  forall a b, rscale NumR (cp_vT p * cp_vT p) (crack_LT NumR p a b)
              = copp NumR (rscale NumR (cp_vL p * cp_vL p) (crack_TL NumR p b a)).
Proof. intros p ax az Hx Hz HL HT Hf a b. apply (crack_reciprocal p ax az Hx Hz); assumption. Qed.

Theorem crack_periodic : forall (p : crack_params) a b (k l : Z),
  crack_LL NumR p (a + 2 * PI * IZR k) (b + 2 * PI * IZR l) = crack_LL NumR p a b /\
  crack_LT NumR p (a + 2 * PI * IZR k) (b + 2 * PI * IZR l) = crack_LT NumR p a b /\
  crack_TL NumR p (a + 2 * PI * IZR k) (b + 2 * PI * IZR l) = crack_TL NumR p a b /\
  crack_TT NumR p (a + 2 * PI * IZR k) (b + 2 * PI * IZR l) = crack_TT NumR p a b.
Proof. exact crack_periodic_all. Qed.

(* optimised driver = general driver when the incident angle is constant along each column *)
Theorem crack_optimised_eq_general : forall (kern : R -> R -> R * R) (inc out : Z -> Z -> R) (j i : Z),
  inc j i = inc 0%Z i -> driver_optimised kern inc out j i = driver_general kern inc out j i.
Proof. exact driver_optimised_eq_general. Qed.

(* ---- to_compute: the value returned for a requested key is the one of the full computation;
   holds for every list of valid keys (hence for the 15 non-empty subsets), any numeric instance *)
Theorem subset_eq_full_sdh : forall (T : Type) (N : Num T) H1a H2a H1b H2b f r vL vT mt tf tc k a b,
  valid_to_compute tc = true -> In k tc ->
  exists d dfull v,
    sdh_2d_scat N H1a H2a H1b H2b f r vL vT mt tf tc a b = Some d /\
    sdh_2d_scat N H1a H2a H1b H2b f r vL vT mt tf scat_keys a b = Some dfull /\
    lookup k d = Some v /\ lookup k dfull = Some v.
Proof. intros T N. exact (sdh_subset N). Qed.

Theorem subset_eq_full_point : forall (T : Type) (N : Num T) vL vT tc k a b, valid_key k = true -> In k tc ->
  exists v, lookup k (point_scat N vL vT tc a b) = Some v /\ lookup k (point_scat N vL vT scat_keys a b) = Some v.
Proof. intros T N. exact (point_subset N). Qed.

Theorem subset_eq_full_crack : forall (T : Type) (N : Num T) (p : crack_params) tc k a b,
  valid_to_compute tc = true -> In k tc ->
  exists d dfull v,
    crack_2d_scat N p tc a b = Some d /\ crack_2d_scat N p scat_keys a b = Some dfull /\
    lookup k d = Some v /\ lookup k dfull = Some v.
Proof. intros T N. exact (crack_subset N). Qed.

(* a key outside LL/LT/TL/TT is rejected (ValueError) by the hole and the crack *)
Theorem to_compute_invalid_rejected : forall (T : Type) (N : Num T) H1a H2a H1b H2b f r vL vT mt tf (p : crack_params) tc a b,
  (sdh_2d_scat N H1a H2a H1b H2b f r vL vT mt tf tc a b = None <-> valid_to_compute tc = false) /\
  (crack_2d_scat N p tc a b = None <-> valid_to_compute tc = false).
Proof. intros. split; [apply sdh_invalid | apply crack_invalid]. Qed.

(* ---- non-vacuity --------------------------------------------------------------------------- *)

(* the solver hypothesis is satisfiable for a genuine 2x2 Galerkin matrix [[2,1],[1,2]] *)
Example exact_solve_example :
  let a := fun k : Z => if (k =? 0)%Z then (2, 0) else (1, 0) in
  let solve := fun (b : Z -> R * R) (i : Z) =>
    if (i =? 0)%Z then rscale NumR (/ 3) (csub NumR (rscale NumR 2 (b 0%Z)) (b 1%Z))
    else rscale NumR (/ 3) (csub NumR (rscale NumR 2 (b 1%Z)) (b 0%Z)) in
  exact_solve NumR 2 (galerkin_matrix 2 a) solve.
Proof.
  intros a solve b i Hi. assert (E : i = 0%Z \/ i = 1%Z) by lia.
  destruct E as [E|E]; subst i; unfold matvec, galerkin_matrix, I12, m_ind, solve, a;
    cbn [csum_upto Z.of_nat Pos.of_succ_nat]; change (Z.pos (Pos.succ 1)) with 2%Z;
    cbn -[Rplus Rmult Rinv Rminus Rdiv IZR cadd cmul rscale csub c0];
    destruct (b 0%Z) as [x0 y0]; destruct (b 1%Z) as [x1 y1];
    cx_unfold; apply injective_projections; cbn [fst snd]; field.
Qed.

Example gating_example :
  lookup "TT" (gated_dict ["TT"; "LL"]%string 1%Z 2%Z 3%Z 4%Z) = Some 4%Z /\
  lookup "LT" (gated_dict ["TT"; "LL"]%string 1%Z 2%Z 3%Z 4%Z) = None /\
  lookup "TT" (crack_dict ["LL"]%string 0%Z 1%Z 2%Z 3%Z 4%Z) = Some 0%Z /\
  lookup "LT" (crack_dict ["LL"]%string 0%Z 1%Z 2%Z 3%Z 4%Z) = Some 2%Z /\
  valid_to_compute ["LL"; "XX"]%string = false.
Proof. repeat split. Qed.
