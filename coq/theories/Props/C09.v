(* Props/C09.v — Scattering functions satisfy reciprocity and their geometric symmetries.
   Statements only (proofs: Proofs/ScatProofs.v, Proofs/ScatCrackProofs.v); exact arithmetic
   (NumR), complex numbers are pairs of reals.  Model: Model/Scat.v.

   Oracles (universally quantified, no property assumed unless stated):
     H1a H2a H1b H2b : Z -> R*R      the Hankel values hankel1/2(n, alpha|beta) — ARBITRARY;
     ax az : Z -> R*R                the quadrature values a_0..a_{N-1} of A_x, A_z — ARBITRARY;
     cp_solve_x / cp_solve_z         numpy.linalg.solve — hypothesis exact_solve: A (solve b) = b.
   Partial for the crack: what is proved is the exact reciprocity / symmetry of the discrete
   Galerkin system as assembled and used by the code; the accuracy of scipy's Hankel
   functions, of quad and of the LU solve is outside (measured by harness/prop_C09.py). *)
From Coq Require Import ZArith List Bool String Reals Lia Lra.
From Arim Require Import Base.Num Base.NumR Model.Scat Proofs.ScatProofs Proofs.ScatCrackProofs.
Import ListNotations.
Local Open Scope R_scope.

(* ---- side-drilled hole: for every number of modal terms and arbitrary Hankel values ---- *)

(* the four functions depend on the two angles only through their difference *)
Theorem sdh_depends_on_difference : forall H1a H2a H1b H2b f r vL vT maxn a b d,
  sdh_LL NumR H1a H2a H1b f r vL vT maxn (a + d) (b + d) = sdh_LL NumR H1a H2a H1b f r vL vT maxn a b /\
  sdh_LT NumR H1a H1b f r vL vT maxn (a + d) (b + d) = sdh_LT NumR H1a H1b f r vL vT maxn a b /\
  sdh_TL NumR H1a H1b f r vL vT maxn (a + d) (b + d) = sdh_TL NumR H1a H1b f r vL vT maxn a b /\
  sdh_TT NumR H1a H1b H2b f r vL vT maxn (a + d) (b + d) = sdh_TT NumR H1a H1b H2b f r vL vT maxn a b.
Proof. intros H1a H2a H1b H2b f r vL vT maxn a b d. exact (sdh_difference H1a H2a H1b H2b f r vL vT maxn a b d). Qed.

(* S_LL and S_TT are symmetric under exchange of incident and scattered angle *)
Theorem sdh_LL_TT_symmetric : forall H1a H2a H1b H2b f r vL vT maxn a b,
  sdh_LL NumR H1a H2a H1b f r vL vT maxn a b = sdh_LL NumR H1a H2a H1b f r vL vT maxn b a /\
  sdh_TT NumR H1a H1b H2b f r vL vT maxn a b = sdh_TT NumR H1a H1b H2b f r vL vT maxn b a.
Proof. intros. split; [apply sdh_LL_sym | apply sdh_TT_sym]. Qed.

(* v_T^2 S_LT(a, b) = - v_L^2 S_TL(b, a) *)
Theorem sdh_LT_TL_reciprocal : forall H1a H1b f r vL vT maxn a b,
  vL <> 0 -> vT <> 0 -> f <> 0 -> r <> 0 ->
  rscale NumR (vT * vT) (sdh_LT NumR H1a H1b f r vL vT maxn a b)
  = copp NumR (rscale NumR (vL * vL) (sdh_TL NumR H1a H1b f r vL vT maxn b a)).
Proof. intros; apply sdh_reciprocal; assumption. Qed.

(* 2 pi-periodic in each angle separately *)
Theorem sdh_periodic : forall H1a H2a H1b H2b f r vL vT maxn a b (k l : Z),
  sdh_LL NumR H1a H2a H1b f r vL vT maxn (a + 2 * PI * IZR k) (b + 2 * PI * IZR l)
    = sdh_LL NumR H1a H2a H1b f r vL vT maxn a b /\
  sdh_LT NumR H1a H1b f r vL vT maxn (a + 2 * PI * IZR k) (b + 2 * PI * IZR l)
    = sdh_LT NumR H1a H1b f r vL vT maxn a b /\
  sdh_TL NumR H1a H1b f r vL vT maxn (a + 2 * PI * IZR k) (b + 2 * PI * IZR l)
    = sdh_TL NumR H1a H1b f r vL vT maxn a b /\
  sdh_TT NumR H1a H1b H2b f r vL vT maxn (a + 2 * PI * IZR k) (b + 2 * PI * IZR l)
    = sdh_TT NumR H1a H1b H2b f r vL vT maxn a b.
Proof. intros H1a H2a H1b H2b f r vL vT maxn a b k l. exact (sdh_periodic_all H1a H2a H1b H2b f r vL vT maxn a b k l). Qed.

(* the complex division of the model (Smith's algorithm, as numpy evaluates `/`) is the quotient *)
Theorem smith_division_exact : forall z w : R * R, w <> c0 NumR -> cmul NumR w (cdiv NumR z w) = z.
Proof. exact cdiv_correct. Qed.

(* ---- point source ------------------------------------------------------------------------ *)
Theorem point_source_reciprocal : forall vL vT a b, vL <> 0 -> vT <> 0 ->
  vT * vT * point_LT NumR vL vT a b = - (vL * vL * point_TL NumR vL vT b a) /\
  point_LL NumR a b = point_LL NumR b a /\ point_TT NumR a b = point_TT NumR b a /\
  (forall a' b', point_LT NumR vL vT a' b' = point_LT NumR vL vT a b /\
                 point_TL NumR vL vT a' b' = point_TL NumR vL vT a b /\
                 point_LL NumR a' b' = point_LL NumR a b /\ point_TT NumR a' b' = point_TT NumR a b).
Proof.
  intros vL vT a b HL HT. split; [apply point_reciprocal; assumption|]. repeat split; reflexivity.
Qed.

(* ---- crack centre ------------------------------------------------------------------------ *)

(* the matrices assembled from the mirrored table I_12 through m_ind are symmetric Toeplitz *)
Theorem galerkin_matrices_symmetric : forall nn (a : Z -> R * R) i j, (0 <= i < nn)%Z -> (0 <= j < nn)%Z ->
  galerkin_matrix nn a i j = a (Z.abs (i - j)) /\ galerkin_matrix nn a i j = galerkin_matrix nn a j i.
Proof. intros nn a i j Hi Hj. split; [apply galerkin_toeplitz | apply galerkin_symmetric]; assumption. Qed.

(* symmetric A and exact solve: u^T A^-1 v = v^T A^-1 u, for any size *)
Theorem crack_bilinear_symmetric : forall n (A : Z -> Z -> R * R) solve,
  symmetric_matrix n A -> exact_solve NumR n A solve ->
  forall u v : Z -> R * R, cdot NumR n (solve u) v = cdot NumR n (solve v) u.
Proof. exact bilinear_symmetric. Qed.

Theorem crack_LL_TT_symmetric : forall (p : crack_params) (ax az : Z -> R * R),
  exact_solve NumR (cp_nn p) (galerkin_matrix (Z.of_nat (cp_nn p)) ax) (cp_solve_x p) ->
  exact_solve NumR (cp_nn p) (galerkin_matrix (Z.of_nat (cp_nn p)) az) (cp_solve_z p) ->
  cp_vL p <> 0 -> cp_vT p <> 0 ->
  forall a b, crack_LL NumR p a b = crack_LL NumR p b a /\ crack_TT NumR p a b = crack_TT NumR p b a.
Proof.
  intros p ax az Hx Hz HL HT a b. split.
  - apply (crack_LL_sym p ax az Hx Hz); assumption.
  - apply (crack_TT_sym p ax az Hx Hz).
Qed.

Theorem crack_LT_TL_reciprocal : forall (p : crack_params) (ax az : Z -> R * R),
  exact_solve NumR (cp_nn p) (galerkin_matrix (Z.of_nat (cp_nn p)) ax) (cp_solve_x p) ->
  exact_solve NumR (cp_nn p) (galerkin_matrix (Z.of_nat (cp_nn p)) az) (cp_solve_z p) ->
  0 < cp_vL p -> 0 < cp_vT p -> 0 < cp_frequency p ->
  forall a b, rscale NumR (cp_vT p * cp_vT p) (crack_LT NumR p a b)
              = copp NumR (rscale NumR (cp_vL p * cp_vL p) (crack_TL NumR p b a)).
Proof. intros p ax az Hx Hz HL HT Hf a b. apply (crack_reciprocal p ax az Hx Hz); assumption. Qed.

Theorem crack_periodic : forall (p : crack_params) a b (k l : Z),
  crack_LL NumR p (a + 2 * PI * IZR k) (b + 2 * PI * IZR l) = crack_LL NumR p a b /\
  crack_LT NumR p (a + 2 * PI * IZR k) (b + 2 * PI * IZR l) = crack_LT NumR p a b /\
  crack_TL NumR p (a + 2 * PI * IZR k) (b + 2 * PI * IZR l) = crack_TL NumR p a b /\
  crack_TT NumR p (a + 2 * PI * IZR k) (b + 2 * PI * IZR l) = crack_TT NumR p a b.
Proof. exact crack_periodic_all. Qed.

(* optimised driver = general driver when the incident angle is constant along each column *)
Theorem crack_optimised_eq_general : forall (kern : R -> R -> R * R) (inc out : Z -> Z -> R) (j i : Z),
  inc j i = inc 0%Z i -> driver_optimised kern inc out j i = driver_general kern inc out j i.
Proof. exact driver_optimised_eq_general. Qed.

(* ---- to_compute: the value returned for a requested key is the one of the full computation;
   holds for every list of valid keys (hence for the 15 non-empty subsets), any numeric instance *)
Theorem subset_eq_full_sdh : forall (T : Type) (N : Num T) H1a H2a H1b H2b f r vL vT mt tf tc k a b,
  valid_to_compute tc = true -> In k tc ->
  exists d dfull v,
    sdh_2d_scat N H1a H2a H1b H2b f r vL vT mt tf tc a b = Some d /\
    sdh_2d_scat N H1a H2a H1b H2b f r vL vT mt tf scat_keys a b = Some dfull /\
    lookup k d = Some v /\ lookup k dfull = Some v.
Proof. intros T N. exact (sdh_subset N). Qed.

Theorem subset_eq_full_point : forall (T : Type) (N : Num T) vL vT tc k a b, valid_key k = true -> In k tc ->
  exists v, lookup k (point_scat N vL vT tc a b) = Some v /\ lookup k (point_scat N vL vT scat_keys a b) = Some v.
Proof. intros T N. exact (point_subset N). Qed.

Theorem subset_eq_full_crack : forall (T : Type) (N : Num T) (p : crack_params) tc k a b,
  valid_to_compute tc = true -> In k tc ->
  exists d dfull v,
    crack_2d_scat N p tc a b = Some d /\ crack_2d_scat N p scat_keys a b = Some dfull /\
    lookup k d = Some v /\ lookup k dfull = Some v.
Proof. intros T N. exact (crack_subset N). Qed.

(* a key outside LL/LT/TL/TT is rejected (ValueError) by the hole and the crack *)
Theorem to_compute_invalid_rejected : forall (T : Type) (N : Num T) H1a H2a H1b H2b f r vL vT mt tf (p : crack_params) tc a b,
  (sdh_2d_scat N H1a H2a H1b H2b f r vL vT mt tf tc a b = None <-> valid_to_compute tc = false) /\
  (crack_2d_scat N p tc a b = None <-> valid_to_compute tc = false).
Proof. intros. split; [apply sdh_invalid | apply crack_invalid]. Qed.

(* ---- non-vacuity --------------------------------------------------------------------------- *)

(* the solver hypothesis is satisfiable for a genuine 2x2 Galerkin matrix [[2,1],[1,2]] *)
Example exact_solve_example :
  let a := fun k : Z => if (k =? 0)%Z then (2, 0) else (1, 0) in
  let solve := fun (b : Z -> R * R) (i : Z) =>
    if (i =? 0)%Z then rscale NumR (/ 3) (csub NumR (rscale NumR 2 (b 0%Z)) (b 1%Z))
    else rscale NumR (/ 3) (csub NumR (rscale NumR 2 (b 1%Z)) (b 0%Z)) in
  exact_solve NumR 2 (galerkin_matrix 2 a) solve.
Proof.
  intros a solve b i Hi. assert (E : i = 0%Z \/ i = 1%Z) by lia.
  destruct E as [E|E]; subst i; unfold matvec, galerkin_matrix, I12, m_ind, solve, a;
    cbn [csum_upto Z.of_nat Pos.of_succ_nat]; change (Z.pos (Pos.succ 1)) with 2%Z;
    cbn -[Rplus Rmult Rinv Rminus Rdiv IZR cadd cmul rscale csub c0];
    destruct (b 0%Z) as [x0 y0]; destruct (b 1%Z) as [x1 y1];
    cx_unfold; apply injective_projections; cbn [fst snd]; field.
Qed.

Example gating_example :
  lookup "TT" (gated_dict ["TT"; "LL"]%string 1%Z 2%Z 3%Z 4%Z) = Some 4%Z /\
  lookup "LT" (gated_dict ["TT"; "LL"]%string 1%Z 2%Z 3%Z 4%Z) = None /\
  lookup "TT" (crack_dict ["LL"]%string 0%Z 1%Z 2%Z 3%Z 4%Z) = Some 0%Z /\
  lookup "LT" (crack_dict ["LL"]%string 0%Z 1%Z 2%Z 3%Z 4%Z) = Some 2%Z /\
  valid_to_compute ["LL"; "XX"]%string = false.
Proof. repeat split. Qed.

(* ============================================================================================== *)
(* The glue around the scalar functions (Model/ScatGlue.v, Proofs/ScatGlueProofs.v):               *)
(* the calls on ARRAYS of any broadcastable shapes, their error branches and the precedence of the *)
(* errors, the wrappers of the Scattering2d interface, the scattering matrices, the flag of        *)
(* CrackCentreScat over histories of calls, the number of modal terms.                             *)
(* An array is a shape with a function of the multi-index; `nd_read a idx` is the element of `a`    *)
(* that numpy's broadcasting reads when the result is read at `idx`.                               *)
(* Oracles: hankel1 hankel2 : Z -> T -> cx (order, argument), ARBITRARY; the crack kernels at each  *)
(* frequency (arbitrary functions, instantiated with crack_LL .. crack_TT where stated).            *)
(* ============================================================================================== *)
From Arim Require Import Model.ScatMatrix Model.ScatGlue Proofs.ScatGlueProofs.
From Flocq Require Import Core.Raux.

(* ---- numpy broadcasting (axiom-free) ---- *)
Theorem broadcast_shape_rules : forall a b : list nat,
  bshape a b = bshape b a /\
  (forall s, bshape a b = Some s -> List.length s = Nat.max (List.length a) (List.length b)) /\
  bshape a a = Some a /\ bshape a [] = Some a /\ bshape [] a = Some a.
Proof.
  intros a b. split; [apply bshape_comm|]. split; [apply bshape_length|].
  split; [apply bshape_same|]. split; [apply bshape_nil_r | apply bshape_nil_l].
Qed.

(* ---- sdh_2d_scat on arrays: for EVERY numeric instance (reals, floats, ...), every pair of shapes ---- *)

(* entry by entry the array call is the scalar function of Model/Scat.v at the pair of angles that
   broadcasting reads at that entry; the result has the broadcast shape *)
Theorem sdh_array_entrywise : forall (T : Type) (N : Num T) hankel1 hankel2 (inc out : nd T) f r vL vT mt tf tc D k arr,
  sdh_2d_scat_nd N hankel1 hankel2 inc out f r vL vT mt tf tc = inr D ->
  lookup k D = Some arr ->
  bshape (nd_shape out) (nd_shape inc) = Some (nd_shape arr) /\
  forall idx, nd_at arr idx = sdh_pick N hankel1 hankel2 f r vL vT mt tf k (nd_read inc idx) (nd_read out idx).
Proof. intros T N hankel1 hankel2 inc out f r vL vT mt tf. exact (sdh_nd_entry N hankel1 hankel2 inc out f r vL vT mt tf). Qed.

(* which error, in which order (shapes, then to_compute, then the empty modal range), and the keys of
   a successful result: exactly the requested ones among LL, LT, TL, TT *)
Theorem sdh_array_outcome : forall (T : Type) (N : Num T) hankel1 hankel2 (inc out : nd T) f r vL vT mt tf tc,
  match sdh_2d_scat_nd N hankel1 hankel2 inc out f r vL vT mt tf tc with
  | inl EBroadcast => bshape (nd_shape out) (nd_shape inc) = None
  | inl EToCompute => bshape (nd_shape out) (nd_shape inc) <> None /\ valid_to_compute tc = false
  | inl EEmptyModes => bshape (nd_shape out) (nd_shape inc) <> None /\ valid_to_compute tc = true /\
                       (sdh_maxn N f r vL vT mt tf < 0)%Z
  | inl _ => False
  | inr D => bshape (nd_shape out) (nd_shape inc) <> None /\ valid_to_compute tc = true /\
             (0 <= sdh_maxn N f r vL vT mt tf)%Z /\
             forall k, lookup k D <> None <-> (valid_key k = true /\ requested tc k = true)
  end.
Proof. intros T N hankel1 hankel2 inc out f r vL vT mt tf. exact (sdh_nd_outcome N hankel1 hankel2 inc out f r vL vT mt tf). Qed.

(* the array model and the scalar model of the existing theorems agree entry by entry *)
Theorem sdh_array_agrees_with_scalar_model : forall (T : Type) (N : Num T) hankel1 hankel2 (inc out : nd T) f r vL vT mt tf tc D k arr idx,
  sdh_2d_scat_nd N hankel1 hankel2 inc out f r vL vT mt tf tc = inr D ->
  lookup k D = Some arr ->
  exists d,
    sdh_2d_scat N (fun n => hankel1 n (sdh_alpha N f r vL)) (fun n => hankel2 n (sdh_alpha N f r vL))
                  (fun n => hankel1 n (sdh_beta N f r vT)) (fun n => hankel2 n (sdh_beta N f r vT))
                  f r vL vT mt tf tc (nd_read inc idx) (nd_read out idx) = Some d /\
    lookup k d = Some (nd_at arr idx).
Proof. intros T N. exact (sdh_nd_vs_scalar N). Qed.

(* the angles enter only through out - inc as the numeric instance computes it (bit for bit in floats):
   entries with the same difference — in one call or in two calls with arrays of different shapes,
   orders, sizes, and different requested keys — carry the same value; an entry does not depend on the
   other entries of the call (what a block-wise evaluation must preserve) *)
Theorem sdh_array_only_difference : forall (T : Type) (N : Num T) hankel1 hankel2
    (inc1 out1 inc2 out2 : nd T) f r vL vT mt tf tc1 tc2 D1 D2 k arr1 arr2 idx1 idx2,
  sdh_2d_scat_nd N hankel1 hankel2 inc1 out1 f r vL vT mt tf tc1 = inr D1 ->
  sdh_2d_scat_nd N hankel1 hankel2 inc2 out2 f r vL vT mt tf tc2 = inr D2 ->
  lookup k D1 = Some arr1 -> lookup k D2 = Some arr2 ->
  nsub N (nd_read out1 idx1) (nd_read inc1 idx1) = nsub N (nd_read out2 idx2) (nd_read inc2 idx2) ->
  nd_at arr1 idx1 = nd_at arr2 idx2.
Proof. intros T N. exact (sdh_nd_only_difference N). Qed.

(* reciprocity of the ARRAYS: the call with the two angle arrays exchanged (any two shapes that
   broadcast: scalar / vector, row / column, ...) *)
Theorem sdh_array_exchange : forall hankel1 hankel2 f r vL vT mt tf (inc out : nd R) tc tc' D D',
  sdh_2d_scat_nd NumR hankel1 hankel2 inc out f r vL vT mt tf tc = inr D ->
  sdh_2d_scat_nd NumR hankel1 hankel2 out inc f r vL vT mt tf tc' = inr D' ->
  (forall k A A', (k = "LL" \/ k = "TT")%string -> lookup k D = Some A -> lookup k D' = Some A' ->
     nd_shape A = nd_shape A' /\ forall idx, nd_at A idx = nd_at A' idx) /\
  (forall A A', lookup "LT" D = Some A -> lookup "TL" D' = Some A' ->
     vL <> 0 -> vT <> 0 -> f <> 0 -> r <> 0 ->
     nd_shape A = nd_shape A' /\
     forall idx, rscale NumR (vT * vT) (nd_at A idx) = copp NumR (rscale NumR (vL * vL) (nd_at A' idx))).
Proof. exact sdh_nd_exchange. Qed.

(* parity: S_LL, S_TT are unchanged and S_LT, S_TL change sign when both angles change sign *)
Theorem sdh_parity : forall hankel1 hankel2 f r vL vT mt tf a b,
  let S := sdh_pick NumR hankel1 hankel2 f r vL vT mt tf in
  S "LL"%string (- a) (- b) = S "LL"%string a b /\ S "TT"%string (- a) (- b) = S "TT"%string a b /\
  S "LT"%string (- a) (- b) = rscale NumR (-1) (S "LT"%string a b) /\
  S "TL"%string (- a) (- b) = rscale NumR (-1) (S "TL"%string a b).
Proof. intros hankel1 hankel2 f r vL vT mt tf a b. exact (spick_parity hankel1 hankel2 f r vL vT mt tf a b). Qed.

(* integer-typed angles (int64 arrays, the Python int 0): out - inc is an integer subtraction, the
   phase is the one of the angles converted to float *)
Theorem sdh_integer_angles : forall inc out : ang (T:=R),
  sdh_phi_typed NumR inc out = sdh_phi NumR (ang_float NumR inc) (ang_float NumR out).
Proof. exact sdh_phi_typed_R. Qed.

(* ---- PointSourceScat on arrays: no validation of to_compute; constant arrays of the broadcast shape ---- *)
Theorem point_array_outcome : forall (T : Type) (N : Num T) vL vT (inc out : nd T) tc,
  match point_scat_nd N vL vT inc out tc with
  | inl e => e = EBroadcast /\ bshape (nd_shape inc) (nd_shape out) = None
  | inr D => exists s, bshape (nd_shape inc) (nd_shape out) = Some s /\
      forall k, match lookup k D with
                | Some arr => valid_key k = true /\ requested tc k = true /\ nd_shape arr = s /\
                              forall idx, nd_at arr idx
                                = pick k (point_LL N (nd_read inc idx) (nd_read out idx))
                                         (point_LT N vL vT (nd_read inc idx) (nd_read out idx))
                                         (point_TL N vL vT (nd_read inc idx) (nd_read out idx))
                                         (point_TT N (nd_read inc idx) (nd_read out idx))
                | None => valid_key k = false \/ requested tc k = false
                end
  end.
Proof. intros T N. exact (point_nd_outcome N). Qed.

(* ---- crack_2d_scat on arrays ---- *)

(* all four keys, broadcast shape; a key whose incident mode is used carries the kernel at the pair of
   angles of the entry (general driver) or at the incident angle of the FIRST ROW of the column
   (optimised driver); the other keys are zero *)
Theorem crack_array_entrywise : forall (T : Type) (N : Num T) K (inc out : nd T) safe tc D,
  crack_2d_scat_nd N K inc out safe tc = inr D ->
  exists fs, bshape (nd_shape inc) (nd_shape out) = Some fs /\ (List.length fs <= 2)%nat /\
    valid_to_compute tc = true /\
    forall k, valid_key k = true ->
      exists arr, lookup k D = Some arr /\ nd_shape arr = fs /\
        forall idx, in_shape idx fs ->
          nd_at arr idx = if crack_use k tc
                          then kern_pick K k (nd_read inc (if safe then row0 idx else idx)) (nd_read out idx)
                          else c0 N.
Proof. intros T N. exact (crack_nd_entry N). Qed.

(* ValueError (to_compute) before ValueError (shapes) before NotImplementedError (> 2 dimensions)
   before — with the optimised driver only — the IndexError of inc_theta[0] (scat.py:420) when the
   broadcast shape is (0, b): the 2-d arrays the drivers work on have no row.  (A scalar is computed as
   (1, 1) and a vector of any length, also 0, as (1, n): no error there.)  EEmptyModes is the model's
   IndexError. *)
Theorem crack_array_outcome : forall (T : Type) (N : Num T) K (inc out : nd T) safe tc,
  match crack_2d_scat_nd N K inc out safe tc with
  | inl EToCompute => valid_to_compute tc = false
  | inl EBroadcast => valid_to_compute tc = true /\ bshape (nd_shape inc) (nd_shape out) = None
  | inl ENotImplemented => valid_to_compute tc = true /\
      exists fs, bshape (nd_shape inc) (nd_shape out) = Some fs /\ (2 < List.length fs)%nat
  | inl EEmptyModes => valid_to_compute tc = true /\ safe = true /\
      exists b, bshape (nd_shape inc) (nd_shape out) = Some [0%nat; b]
  | inl _ => False
  | inr _ => valid_to_compute tc = true /\
      exists fs, bshape (nd_shape inc) (nd_shape out) = Some fs /\ (List.length fs <= 2)%nat /\
                 (safe = true -> forall b, fs <> [0%nat; b])
  end.
Proof. intros T N. exact (crack_nd_outcome N). Qed.

(* the converse, as an equation: valid keys and a broadcast shape (0, b) — the optimised driver raises
   IndexError, the general driver answers (the four empty arrays, by crack_array_entrywise).
   On the library: crack_2d_scat(np.zeros((0, 2)), 1., 1e6, 1e-3, 6300., 3120., 2700.,
   assume_safe_for_opt=True) raises IndexError; with assume_safe_for_opt=False it returns arrays of
   shape (0, 2). *)
Theorem crack_array_empty_first_axis : forall (T : Type) (N : Num T) K (inc out : nd T) tc b,
  valid_to_compute tc = true -> bshape (nd_shape inc) (nd_shape out) = Some [0%nat; b] ->
  crack_2d_scat_nd N K inc out true tc = inl EEmptyModes /\
  exists D, crack_2d_scat_nd N K inc out false tc = inr D.
Proof. intros T N. exact (crack_nd_empty_rows N). Qed.

(* optimised = general for scalars and vectors (always) and for matrices with column-constant
   incident angles (the documented precondition), key by key, entry by entry *)
Theorem crack_array_drivers_agree : forall (T : Type) (N : Num T) K (inc out : nd T) tc D D',
  crack_2d_scat_nd N K inc out true tc = inr D ->
  crack_2d_scat_nd N K inc out false tc = inr D' ->
  forall fs, bshape (nd_shape inc) (nd_shape out) = Some fs ->
  ((List.length fs < 2)%nat \/
   (forall j i, in_shape [j; i] fs -> nd_read inc [0%nat; i] = nd_read inc [j; i])) ->
  forall k A A', valid_key k = true -> lookup k D = Some A -> lookup k D' = Some A' ->
    nd_shape A = nd_shape A' /\ forall idx, in_shape idx fs -> nd_at A idx = nd_at A' idx.
Proof. intros T N. exact (crack_nd_drivers_agree N). Qed.

(* ---- the wrappers of the Scattering2d interface ---- *)

(* binding of `frequency` by the functions of as_angles_funcs / as_freq_angles_funcs *)
Theorem partial_func_binding : forall (T V : Type) (self : scat_obj T V) k inc out f g,
  partial_one_scat_key self k (Some f) (Args2 inc out None) = getitem (self inc out f [k]) k /\
  partial_one_scat_key self k (Some f) (Args2 inc out (Some g)) = getitem (self inc out g [k]) k /\
  partial_one_scat_key self k None (Args3 inc out f None) = getitem (self inc out f [k]) k /\
  partial_one_scat_key self k None (Args2 inc out (Some f)) = getitem (self inc out f [k]) k /\
  partial_one_scat_key self k None (Args2 inc out None) = inl ETypeError /\
  (forall kw, partial_one_scat_key self k (Some f) (Args3 inc out g kw) = inl ETypeError) /\
  (forall b, partial_one_scat_key self k b (Args3 inc out f (Some g)) = inl ETypeError).
Proof. intros T V. exact partial_binding. Qed.

(* each of the four functions closes over ITS OWN key *)
Theorem funcs_are_closures : forall (T V : Type) (self : scat_obj T V) f k,
  lookup k (as_angles_funcs self f)
    = (if valid_key k then Some (partial_one_scat_key self k (Some f)) else None) /\
  lookup k (as_freq_angles_funcs self)
    = (if valid_key k then Some (partial_one_scat_key self k None) else None).
Proof. intros T V. exact funcs_lookup. Qed.

(* subset = full at the level of the arrays, for the three objects (the crack with either driver):
   identical arrays, identical errors *)
Theorem subset_eq_full_arrays : forall (T : Type) (N : Num T) hankel1 hankel2 kw vL vT K flag,
  subset_ok (sdh_obj_call N hankel1 hankel2 kw) /\ subset_ok (point_obj_call N vL vT) /\
  subset_ok (crack_obj_call N K flag).
Proof.
  intros T N hankel1 hankel2 kw vL vT K flag.
  split; [apply sdh_obj_subset|]. split; [apply point_obj_subset | apply crack_obj_subset].
Qed.

(* as_angles_funcs(f)[k](inc, out) = as_freq_angles_funcs()[k](inc, out, f) = obj(inc, out, f)[k] *)
Theorem funcs_eq_call : forall (T V : Type) (self : scat_obj T V), subset_ok self ->
  forall k inc out f, valid_key k = true ->
    exists fa ff, lookup k (as_angles_funcs self f) = Some fa /\ lookup k (as_freq_angles_funcs self) = Some ff /\
      fa (Args2 inc out None) = getitem (self inc out f scat_keys) k /\
      ff (Args3 inc out f None) = getitem (self inc out f scat_keys) k /\
      ff (Args2 inc out (Some f)) = getitem (self inc out f scat_keys) k.
Proof. intros T V. exact ScatGlueProofs.funcs_eq_call. Qed.

(* ---- scattering matrices ---- *)

(* S[j, i] = function(theta_i, theta_j), theta = make_angles(n) *)
Theorem sdh_matrix_entries : forall (T : Type) (N : Num T) hankel1 hankel2 kw f n tc D k M,
  as_single_freq_matrices N (sdh_obj_call N hankel1 hankel2 kw) f n tc = inr D ->
  lookup k D = Some M ->
  nd_shape M = [n; n] /\
  forall j i, (j < n)%nat -> (i < n)%nat ->
    nd_at M [j; i] = sdh_pick N hankel1 hankel2 f (sk_radius kw) (sk_vL kw) (sk_vT kw)
                       (sk_min_terms kw) (sk_term_factor kw) k
                       (angle N (npi N) (Z.of_nat n) (Z.of_nat i)) (angle N (npi N) (Z.of_nat n) (Z.of_nat j)).
Proof. intros T N. exact (sdh_single_entry N). Qed.

Theorem sdh_matrix_outcome : forall (T : Type) (N : Num T) hankel1 hankel2 kw f n tc,
  match as_single_freq_matrices N (sdh_obj_call N hankel1 hankel2 kw) f n tc with
  | inl EToCompute => valid_to_compute tc = false
  | inl EEmptyModes => valid_to_compute tc = true /\ (sdh_obj_maxn N kw f < 0)%Z
  | inl _ => False
  | inr D => valid_to_compute tc = true /\ (0 <= sdh_obj_maxn N kw f)%Z /\
             forall k, lookup k D <> None <-> (valid_key k = true /\ requested tc k = true)
  end.
Proof. intros T N. exact (sdh_single_outcome N). Qed.

Theorem sdh_matrix_symmetric : forall hankel1 hankel2 rad vL vT mt tf fq n tc D,
  as_single_freq_matrices NumR (sdh_obj_call NumR hankel1 hankel2 (mkSdhKw rad vL vT mt tf)) fq n tc = inr D ->
  forall k M, (k = "LL" \/ k = "TT")%string -> lookup k D = Some M ->
  forall j i, (j < n)%nat -> (i < n)%nat -> nd_at M [j; i] = nd_at M [i; j].
Proof. exact ScatGlueProofs.sdh_matrix_symmetric. Qed.

Theorem sdh_matrix_reciprocal : forall hankel1 hankel2 rad vL vT mt tf fq n tc D,
  as_single_freq_matrices NumR (sdh_obj_call NumR hankel1 hankel2 (mkSdhKw rad vL vT mt tf)) fq n tc = inr D ->
  forall MLT MTL, lookup "LT" D = Some MLT -> lookup "TL" D = Some MTL ->
  vL <> 0 -> vT <> 0 -> fq <> 0 -> rad <> 0 ->
  forall j i, (j < n)%nat -> (i < n)%nat ->
    rscale NumR (vT * vT) (nd_at MLT [j; i]) = copp NumR (rscale NumR (vL * vL) (nd_at MTL [i; j])).
Proof. exact ScatGlueProofs.sdh_matrix_reciprocal. Qed.

(* the matrices of the hole are circulant: a cyclic shift of both indices (a rotation of the hole by
   a whole number of grid steps, rotate_matrix of C10) leaves them unchanged *)
Theorem sdh_matrix_circulant : forall hankel1 hankel2 kw fq n tc D k M (s : nat),
  as_single_freq_matrices NumR (sdh_obj_call NumR hankel1 hankel2 kw) fq n tc = inr D ->
  lookup k D = Some M ->
  forall j i, (j < n)%nat -> (i < n)%nat ->
    nd_at M [((j + s) mod n)%nat; ((i + s) mod n)%nat] = nd_at M [j; i].
Proof. exact ScatGlueProofs.sdh_matrix_circulant. Qed.

(* the crack: whatever the flag (optimised or general driver), S[j, i] = kernel(theta_i, theta_j) —
   the grid of make_angles_grid satisfies the precondition of the optimised driver *)
Theorem crack_matrix_entries : forall (T : Type) (N : Num T) K flag f n tc D k,
  as_single_freq_matrices N (crack_obj_call N K flag) f n tc = inr D -> valid_key k = true ->
  exists M, lookup k D = Some M /\ nd_shape M = [n; n] /\
    forall j i, (j < n)%nat -> (i < n)%nat ->
      nd_at M [j; i] = if crack_use k tc
                       then kern_pick (K f) k (angle N (npi N) (Z.of_nat n) (Z.of_nat i))
                                              (angle N (npi N) (Z.of_nat n) (Z.of_nat j))
                       else c0 N.
Proof. intros T N. exact (crack_single_entry N). Qed.

(* which matrix requests of the crack answer: valid keys, and — when the object is called with the flag
   True, as the matrix entry points of CrackCentreScat do — at least one angle; numangles = 0 raises
   IndexError (the grid has the shape (0, 0)):
   CrackCentreScat(1e-3, 6300., 3120., 2700.).as_single_freq_matrices(1e6, 0) *)
Theorem crack_matrix_outcome : forall (T : Type) (N : Num T) (K : T -> crack_kernels) flag f n tc,
  match as_single_freq_matrices N (crack_obj_call N K flag) f n tc with
  | inl EToCompute => valid_to_compute tc = false
  | inl EEmptyModes => valid_to_compute tc = true /\ flag = true /\ n = 0%nat
  | inl _ => False
  | inr _ => valid_to_compute tc = true /\ (flag = true -> n <> 0%nat)
  end.
Proof. intros T N K. exact (crack_single_outcome N K). Qed.

Theorem crack_matrix_symmetric : forall (P : R -> crack_params) (ax az : R -> Z -> R * R) fq n tc D flag,
  exact_solve NumR (cp_nn (P fq)) (galerkin_matrix (Z.of_nat (cp_nn (P fq))) (ax fq)) (cp_solve_x (P fq)) ->
  exact_solve NumR (cp_nn (P fq)) (galerkin_matrix (Z.of_nat (cp_nn (P fq))) (az fq)) (cp_solve_z (P fq)) ->
  as_single_freq_matrices NumR (crack_obj_call NumR (fun g => crack_kernels_of NumR (P g)) flag) fq n tc = inr D ->
  forall k M, (k = "LL" \/ k = "TT")%string -> lookup k D = Some M ->
  cp_vL (P fq) <> 0 -> cp_vT (P fq) <> 0 ->
  forall j i, (j < n)%nat -> (i < n)%nat -> nd_at M [j; i] = nd_at M [i; j].
Proof. intros P ax az fq n tc D flag Hx Hz. exact (ScatGlueProofs.crack_matrix_symmetric P ax az fq n tc D Hx Hz flag). Qed.

(* needs BOTH mode-converted keys requested: an unrequested one may be an array of zeros *)
Theorem crack_matrix_reciprocal : forall (P : R -> crack_params) (ax az : R -> Z -> R * R) fq n tc D flag,
  exact_solve NumR (cp_nn (P fq)) (galerkin_matrix (Z.of_nat (cp_nn (P fq))) (ax fq)) (cp_solve_x (P fq)) ->
  exact_solve NumR (cp_nn (P fq)) (galerkin_matrix (Z.of_nat (cp_nn (P fq))) (az fq)) (cp_solve_z (P fq)) ->
  as_single_freq_matrices NumR (crack_obj_call NumR (fun g => crack_kernels_of NumR (P g)) flag) fq n tc = inr D ->
  forall MLT MTL, lookup "LT" D = Some MLT -> lookup "TL" D = Some MTL ->
  In "LT"%string tc -> In "TL"%string tc ->
  0 < cp_vL (P fq) -> 0 < cp_vT (P fq) -> 0 < cp_frequency (P fq) ->
  forall j i, (j < n)%nat -> (i < n)%nat ->
    rscale NumR (cp_vT (P fq) * cp_vT (P fq)) (nd_at MLT [j; i])
    = copp NumR (rscale NumR (cp_vL (P fq) * cp_vL (P fq)) (nd_at MTL [i; j])).
Proof. intros P ax az fq n tc D flag Hx Hz. exact (ScatGlueProofs.crack_matrix_reciprocal P ax az fq n tc D Hx Hz flag). Qed.

(* multi-frequency: S[kf] is the single-frequency result at frequencies[kf]; None for no frequency;
   the first frequency that raises, or lacks a requested key (KeyError), decides the error *)
Theorem multi_freq_is_stack : forall (T V : Type) (N : Num T) zero (self : scat_obj T V) fs n tc d,
  match as_multi_freq_matrices N zero self fs n tc with
  | inr None => fs = []
  | inr (Some Om) =>
      fs <> [] /\
      forall k, requested tc k = true ->
        exists A, lookup k Om = Some A /\ nd_shape A = [List.length fs; n; n] /\
          forall kf, (kf < List.length fs)%nat ->
            exists D M, as_single_freq_matrices N self (nth kf fs d) n tc = inr D /\
                        lookup k D = Some M /\ forall idx, nd_at A (kf :: idx) = nd_at M idx
  | inl e =>
      exists pre f post, fs = pre ++ f :: post /\
        (forall g, In g pre -> exists D, as_single_freq_matrices N self g n tc = inr D) /\
        (as_single_freq_matrices N self f n tc = inl e \/
         exists D k, as_single_freq_matrices N self f n tc = inr D /\ requested tc k = true /\
                     lookup k D = None /\ e = EKeyError k)
  end.
Proof. intros T V N. exact (as_multi_is_stack_nd N). Qed.

Theorem sdh_multi_freq_entries : forall (T : Type) (N : Num T) hankel1 hankel2 kw fs n tc Om k d,
  as_multi_freq_matrices N (c0 N) (sdh_obj_call N hankel1 hankel2 kw) fs n tc = inr (Some Om) ->
  requested tc k = true ->
  exists A, lookup k Om = Some A /\ nd_shape A = [List.length fs; n; n] /\
    forall kf j i, (kf < List.length fs)%nat -> (j < n)%nat -> (i < n)%nat ->
      nd_at A [kf; j; i]
      = sdh_pick N hankel1 hankel2 (nth kf fs d) (sk_radius kw) (sk_vL kw) (sk_vT kw)
          (sk_min_terms kw) (sk_term_factor kw) k
          (angle N (npi N) (Z.of_nat n) (Z.of_nat i)) (angle N (npi N) (Z.of_nat n) (Z.of_nat j)).
Proof. intros T N. exact (sdh_multi_entry N). Qed.

Theorem crack_multi_freq_entries : forall (T : Type) (N : Num T) (K : T -> crack_kernels) flag fs n tc Om k d,
  as_multi_freq_matrices N (c0 N) (crack_obj_call N K flag) fs n tc = inr (Some Om) ->
  requested tc k = true -> valid_key k = true ->
  exists A, lookup k Om = Some A /\ nd_shape A = [List.length fs; n; n] /\
    forall kf j i, (kf < List.length fs)%nat -> (j < n)%nat -> (i < n)%nat ->
      nd_at A [kf; j; i]
      = kern_pick (K (nth kf fs d)) k (angle N (npi N) (Z.of_nat n) (Z.of_nat i))
                                      (angle N (npi N) (Z.of_nat n) (Z.of_nat j)).
Proof. intros T N. exact (crack_multi_entry N). Qed.

(* ---- the flag _in_matrix_calculation of CrackCentreScat over histories of calls ---- *)

(* HISTORY OF THIS PART.  The model was first written against the library whose context manager
   _scat_matrix_calculation had NO try/finally.  Modelling it showed a genuine defect: a matrix request
   that raised (e.g. an invalid key: obj.as_single_freq_matrices(1e6, 4, ["XX"]) -> ValueError) left
   _in_matrix_calculation True, and every later plain call obj(inc, out, f) on 2-d angle arrays was
   evaluated by the optimised driver, i.e. with the incident angles of the FIRST ROW:
   obj(inc, out, f)[k][j, i] = S_k(inc[0, i], out[j, i]) instead of S_k(inc[j, i], out[j, i]).
   Concrete witness that used to differ (replayed on the library at the time, notes/prover_C09_TIE.md):
     obj = CrackCentreScat(...); obj.as_single_freq_matrices(1e6, 4, ["XX"])   # raises ValueError
     obj(inc, out, 1e6)["LL"][1, 0]  with  inc = [[0.], [1.]], out = [[0.], [0.]]
   answered S_LL(0, 0) (first-row incident angle) while a fresh object answers S_LL(1, 0).
   The theorems crack_flag_stuck_after_error and crack_history_independence_refuted recorded this.
   The defect was REPAIRED in the library by /repo commit 3989d85 (the flag is reset in a `finally`
   clause); the model describes the repaired code, and the two theorems are replaced by the positive
   statements crack_flag_reset_after_failed_request, crack_history_answers_as_fresh and
   crack_failed_request_witness below (the same witness, now agreeing with the fresh object). *)

(* a plain call leaves the flag; a matrix request leaves it False, whether it returned or raised *)
Theorem crack_flag_after_step : forall (T : Type) (N : Num T) K flag op,
  snd (crack_step N K flag op)
  = match op with
    | OpCall _ _ _ _ => flag
    | _ => false
    end.
Proof. intros T N. exact (crack_step_flag N). Qed.

(* after ANY history from a fresh object — plain calls that raise, matrix requests that raise, anything —
   the flag is False and the next operation answers what it answers on a fresh object *)
Theorem crack_history_independent : forall (T : Type) (N : Num T) K ops op,
  snd (crack_run N K false ops) = false /\
  crack_step N K (snd (crack_run N K false ops)) op = crack_step N K crack_init_flag op.
Proof.
  intros T N K ops op. split; [apply crack_flag_restored | apply ScatGlueProofs.crack_history_independent].
Qed.

(* ... and every operation OF the history answered as on a fresh object: the results of a run are the
   results of its operations taken one by one on fresh objects; every plain call of every history is
   evaluated by the general driver (assume_safe_for_opt=False) *)
Theorem crack_history_answers_as_fresh : forall (T : Type) (N : Num T) K ops,
  crack_run N K false ops = (map (fun op => fst (crack_step N K crack_init_flag op)) ops, false) /\
  forall inc out f tc, fst (crack_step N K crack_init_flag (OpCall inc out f tc))
                       = RDict (crack_2d_scat_nd N (K f) inc out false tc).
Proof. intros T N K ops. split; [apply crack_run_pointwise | apply crack_call_fresh]. Qed.

(* a failed request (single or multi-frequency; here an invalid key) resets the flag, and the plain call
   that follows is evaluated by the general driver; whatever the flag found (also one forced to True by
   hand), one matrix request — failed or not — resets it *)
Theorem crack_flag_reset_after_failed_request : forall (T : Type) (N : Num T) K f n inc out g tc,
  crack_run N K false [OpSingle f n ["XX"%string]; OpCall inc out g tc]
  = ([RDict (inl EToCompute); RDict (crack_2d_scat_nd N (K g) inc out false tc)], false) /\
  crack_step N K false (OpMulti [f] n ["XX"%string]) = (RMulti (inl EToCompute), false) /\
  (forall flag op ops,
     match op with OpCall _ _ _ _ => True | _ => snd (crack_run N K flag (op :: ops)) = false end).
Proof.
  intros T N K f n inc out g tc. split; [apply crack_flag_reset|]. split; [apply crack_flag_reset_multi|].
  apply crack_flag_reset_any.
Qed.

(* the witness of the repaired defect, and the reason why the reset matters (the flag is observable):
   after the failed request the call answers D' = the answer of a fresh object; an object whose flag is
   True (what the code before /repo 3989d85 had at this point) answers D, different at [1, 0] *)
Theorem crack_failed_request_witness :
  exists (K : R -> crack_kernels (T:=R)) (inc out : nd R) (D D' : dict (nd (R * R))) (A A' : nd (R * R)),
    crack_run NumR K false [OpSingle 1 4%nat ["XX"%string]; OpCall inc out 1 scat_keys]
      = ([RDict (inl EToCompute); RDict (inr D')], false) /\
    crack_obj_call NumR K crack_init_flag inc out 1 scat_keys = inr D' /\
    crack_obj_call NumR K true inc out 1 scat_keys = inr D /\
    lookup "LL" D = Some A /\ lookup "LL" D' = Some A' /\ nd_at A [1; 0]%nat <> nd_at A' [1; 0]%nat.
Proof. exact ScatGlueProofs.crack_failed_request_witness. Qed.

(* numangles = 0 on the crack object: the request raises IndexError (valid keys; with an invalid key the
   ValueError comes first, crack_matrix_outcome), for the multi-frequency request at the first
   frequency; the flag is reset all the same *)
Theorem crack_zero_angles_request : forall (T : Type) (N : Num T) K f fs tc, valid_to_compute tc = true ->
  crack_step N K false (OpSingle f 0 tc) = (RDict (inl EEmptyModes), false) /\
  crack_step N K false (OpMulti (f :: fs) 0 tc) = (RMulti (inl EEmptyModes), false).
Proof. intros T N K f fs tc Hv. split; [apply crack_single_zero | apply crack_multi_zero]; exact Hv. Qed.

(* ---- mirror symmetry of the crack (exact solver, mesh symmetric about the centre) ---- *)
Theorem crack_mirror_symmetry : forall (p : crack_params) (ax az : Z -> R * R),
  exact_solve NumR (cp_nn p) (galerkin_matrix (Z.of_nat (cp_nn p)) ax) (cp_solve_x p) ->
  exact_solve NumR (cp_nn p) (galerkin_matrix (Z.of_nat (cp_nn p)) az) (cp_solve_z p) ->
  (forall m : Z, cp_x p (Z.of_nat (cp_nn p) - 1 - m)%Z = - cp_x p m) ->
  forall a b, cp_vL p <> 0 -> cp_vT p <> 0 ->
    crack_LL NumR p (- a) (- b) = crack_LL NumR p a b /\
    crack_TT NumR p (- a) (- b) = crack_TT NumR p a b /\
    crack_LT NumR p (- a) (- b) = rscale NumR (-1) (crack_LT NumR p a b) /\
    crack_TL NumR p (- a) (- b) = rscale NumR (-1) (crack_TL NumR p a b).
Proof. exact crack_mirror. Qed.

(* the mesh hypothesis holds for the mesh that crack_2d_scat builds *)
Theorem crack_mesh_symmetric : forall L (nn m : Z), IZR nn + 2 * magic_p NumR <> 0 ->
  crack_x_nodes NumR L nn (nn - 1 - m) = - crack_x_nodes NumR L nn m.
Proof. exact crack_x_nodes_symmetric. Qed.

(* ---- the number of modal terms of the hole ---- *)

(* maxn is the least integer >= min_terms, term_factor * alpha, term_factor * beta *)
Theorem sdh_maxn_characterised : forall f r vL vT mt tf,
  ((mt <= sdh_maxn NumR f r vL vT mt tf)%Z /\
   IZR tf * sdh_alpha NumR f r vL <= IZR (sdh_maxn NumR f r vL vT mt tf) /\
   IZR tf * sdh_beta NumR f r vT <= IZR (sdh_maxn NumR f r vL vT mt tf)) /\
  (forall m, (mt <= m)%Z -> IZR tf * sdh_alpha NumR f r vL <= IZR m -> IZR tf * sdh_beta NumR f r vT <= IZR m ->
     (sdh_maxn NumR f r vL vT mt tf <= m)%Z).
Proof. intros f r vL vT mt tf. split; [apply sdh_maxn_bounds | apply sdh_maxn_least]. Qed.

Theorem sdh_maxn_monotone : forall f r vL vT mt tf f' r' mt',
  (0 <= tf)%Z -> 0 < vL -> 0 < vT -> 0 <= f <= f' -> 0 <= r <= r' -> (mt <= mt')%Z ->
  (sdh_maxn NumR f r vL vT mt tf <= sdh_maxn NumR f' r' vL vT mt' tf)%Z.
Proof. exact ScatGlueProofs.sdh_maxn_monotone. Qed.

Theorem sdh_maxn_transverse_decides : forall f r vL vT mt tf,
  (0 <= tf)%Z -> 0 < vT <= vL -> 0 <= f -> 0 <= r ->
  sdh_maxn NumR f r vL vT mt tf = Z.max mt (Zceil (IZR tf * sdh_beta NumR f r vT)).
Proof. exact sdh_maxn_beta_decides. Qed.

(* no IndexError on the modal range: min_terms >= 0, or non-negative physical parameters *)
Theorem sdh_modal_range_not_empty : forall f r vL vT mt tf,
  (0 <= mt)%Z \/ ((0 <= tf)%Z /\ 0 < vL /\ 0 <= f /\ 0 <= r) -> (0 <= sdh_maxn NumR f r vL vT mt tf)%Z.
Proof. exact sdh_maxn_nonneg. Qed.

(* ---- non-vacuity of the new statements --------------------------------------------------------- *)

(* a row of incident angles against a column of scattered angles: the call succeeds for arbitrary
   Hankel values and returns arrays of shape (3, 2) *)
Example sdh_array_call_example : forall hankel1 hankel2,
  exists D arr,
    sdh_2d_scat_nd NumR hankel1 hankel2 (nd_vector 0 [0; 1]) (mkNd [3; 1]%nat (fun _ => 0)) 1 1 1 1 10 4 scat_keys = inr D /\
    lookup "LL" D = Some arr /\ nd_shape arr = [3; 2]%nat.
Proof.
  intros h1 h2.
  pose proof (sdh_nd_outcome NumR h1 h2 (nd_vector 0 [0; 1]) (mkNd [3; 1]%nat (fun _ => 0)) 1 1 1 1 10 4 scat_keys) as Ho.
  destruct (sdh_2d_scat_nd NumR h1 h2 (nd_vector 0 [0; 1]) (mkNd [3; 1]%nat (fun _ => 0)) 1 1 1 1 10 4 scat_keys)
    as [[]|D] eqn:E; try contradiction.
  - discriminate Ho.
  - destruct Ho as (_ & Hv). discriminate Hv.
  - destruct Ho as (_ & _ & Hm). assert (H10 : (0 <= 10)%Z) by lia. pose proof (sdh_maxn_nonneg 1 1 1 1 10 4 (or_introl H10)). lia.
  - destruct Ho as (_ & _ & _ & Hk). destruct (lookup "LL" D) as [arr|] eqn:El.
    + exists D, arr. split; [reflexivity|]. split; [exact El|].
      destruct (sdh_nd_entry NumR h1 h2 _ _ _ _ _ _ _ _ _ _ _ _ E El) as [Hs _].
      cbn in Hs. injection Hs as <-. reflexivity.
    + exfalso. apply (proj2 (Hk "LL"%string)); [split; reflexivity | exact El].
Qed.

(* a history with successful and failed operations of every kind: which raise, and the final flag *)
Example mixed_history_example : forall K : R -> crack_kernels (T:=R),
  let run := crack_run NumR K false
    [OpCall (nd_scalar 0) (nd_scalar 1) 1 scat_keys; OpSingle 1 3%nat ["LL"; "TT"]%string;
     OpSingle 1 3%nat ["XX"]%string; OpMulti [1; 2] 2%nat scat_keys; OpMulti [1; 2] 0%nat scat_keys;
     OpCall (nd_scalar 0) (nd_scalar 1) 1 ["XX"]%string; OpSingle 1 0%nat scat_keys;
     OpCall (nd_scalar 0) (nd_scalar 1) 1 scat_keys] in
  map (res_ok (T:=R)) (fst run) = [true; true; false; true; false; false; false; true] /\ snd run = false.
Proof. intros K. split; reflexivity. Qed.

(* the hypotheses of crack_mirror_symmetry are satisfiable: two nodes, the mesh of crack_2d_scat, the
   2x2 Galerkin matrix [[2,1],[1,2]] and its exact solver *)
Example crack_mirror_hypotheses_example :
  exists (p : crack_params (T:=R)) (ax az : Z -> R * R),
    exact_solve NumR (cp_nn p) (galerkin_matrix (Z.of_nat (cp_nn p)) ax) (cp_solve_x p) /\
    exact_solve NumR (cp_nn p) (galerkin_matrix (Z.of_nat (cp_nn p)) az) (cp_solve_z p) /\
    (forall m : Z, cp_x p (Z.of_nat (cp_nn p) - 1 - m)%Z = - cp_x p m) /\ cp_vL p <> 0 /\ cp_vT p <> 0.
Proof.
  set (a := fun k : Z => if (k =? 0)%Z then (2, 0) else (1, 0)).
  set (solve := fun (b : Z -> R * R) (i : Z) =>
    if (i =? 0)%Z then rscale NumR (/ 3) (csub NumR (rscale NumR 2 (b 0%Z)) (b 1%Z))
    else rscale NumR (/ 3) (csub NumR (rscale NumR 2 (b 1%Z)) (b 0%Z))).
  exists (mkCrack 2 1 1 1 2%nat (crack_h_nodes NumR 1 2) (crack_x_nodes NumR 1 2) solve solve), a, a.
  cbn [cp_nn cp_solve_x cp_solve_z cp_x cp_vL cp_vT].
  split; [exact exact_solve_example|]. split; [exact exact_solve_example|]. split; [|split; lra].
  intros m. change (Z.of_nat 2) with 2%Z. apply crack_x_nodes_symmetric.
  unfold magic_p. cbn [ndiv nofZ NumR]. lra.
Qed.

(* with the default min_terms = 10 and a vanishing ka the sum has the documented minimum of terms *)
Example sdh_maxn_example : sdh_maxn NumR 0 1 1 1 10 4 = 10%Z.
Proof.
  rewrite sdh_maxn_R. unfold sdh_alpha, sdh_beta, sdh_kl, sdh_kt, two_pi. cbn [nmul ndiv nofZ npi NumR].
  replace (4 * (2 * PI * 0 / 1 * 1)) with (IZR 0) by (field). rewrite Zceil_IZR. reflexivity.
Qed.

(* entries of the key structure decided by computation: a crack asked for LT alone also fills LL (same
   incident mode) and leaves TL, TT zero; index plumbing of a vector against a scalar *)
Example crack_array_example :
  crack_use "LL" ["LT"]%string = true /\ crack_use "TL" ["LT"]%string = false /\
  bshape [3; 1]%nat [2]%nat = Some [3; 2]%nat /\ bshape [3]%nat [2]%nat = None /\
  bidx [3; 1]%nat [2; 1]%nat = [2; 0]%nat /\ bidx [2]%nat [2; 1]%nat = [1]%nat /\ bidx [] [2; 1]%nat = [] /\
  row0 [2; 1]%nat = [0; 1]%nat /\ pad2 [4]%nat = [0; 4]%nat.
Proof. repeat split. Qed.
