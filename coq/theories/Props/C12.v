(* Props/C12.v — TFM pipelines: contact = straight rays, HMC = FMC, reciprocal views coincide.
   Statements only; proofs are in Proofs/TfmProofs.v and Proofs/TfmViewProofs.v.

   Model: Model/Tfm.v (arim.im.tfm.contact_tfm, tfm_for_view, FocalLaw shape checks, the
   dispatch of das.delay_and_sum on the amplitudes, default weights as floats,
   Frame.expand_frame_assuming_reciprocity on timetraces) built on the models of the
   parts: Model/Das.v (C02: kernels and `das_spec`), Model/Frame.v (C15: fmc, hmc,
   default_timetrace_weights, expand), Model/Fermat.v + MinPlus.v (C01: dist, leg_times,
   Rays, transpose).  Numeric statements are about the real-number instance NumR; sample
   values live in any module `Data R D` satisfying `DataLaws` (Props/C02.v: the real and the
   complex-as-pairs instances do).  An image is the list of its pixels in the C order of
   grid.to_1d_points().

   Reading guide
     frame_of g pairs        the frame recorded on the element pairs `pairs`, g i j = timetrace (tx i, rx j)
     fmc n / hmc n           ut.fmc / ut.hmc (C15: every ordered / unordered pair exactly once)
     contact_row v probe p   the row of the focal law at grid point p: tau[e] = |p - e| / v, tx and rx
     mirror s                the timetrace s with tx and rx exchanged (same samples)
     spike ns k              a timetrace of ns samples, 1 at sample k, 0 elsewhere

   What these theorems do NOT cover (sampled by harness/prop_C12.py): binary64/32 rounding,
   numba fastmath, the Points/Probe/Frame/View/TfmResult glue (to_1d_points, reshape, memory
   order of the ray times), the ray tracing itself (C01). *)
From Coq Require Import List Reals ZArith Bool Arith Permutation QArith.
From Arim Require Import Base.Num Base.NumR Base.NumQ Model.MinPlus Model.Fermat Model.Das Model.Frame Model.Tfm.
From Arim Require Import Proofs.DasProofs Proofs.TfmProofs Proofs.TfmViewProofs.
Import ListNotations.
Local Open Scope R_scope.

(* ---- contact TFM is the delay-and-sum of C02 with tau = distance / velocity on both
   sides (any interpolation, fill value, frame; default weights = those of C15) --------- *)
Theorem contact_is_das : forall D (V : Data R D), DataLaws V ->
  forall sc ns dt t0 fill grid probe v ss,
  contact_tfm NumR V sc ns dt t0 fill WDefault grid probe v None ss
  = Some (das_spec NumR V sc false ns dt t0 fill (Some (default_weights NumR ss))
                   (map (contact_row v probe) grid) ss).
Proof. intros D V L sc ns dt t0 fill grid probe v ss. exact (contact_is_das_default V L sc ns dt t0 fill grid probe v ss). Qed.

(* the weights argument is passed on as it is ("default" / None / an array) *)
Theorem contact_is_das_any_weights : forall D (V : Data R D),
  forall sc ns dt t0 fill wa grid probe v ss,
  contact_tfm NumR V sc ns dt t0 fill wa grid probe v None ss
  = das_noamp NumR V sc ns dt t0 fill (resolve_weights NumR wa ss) (map (contact_row v probe) grid) ss.
Proof. intros D V sc ns dt t0 fill wa grid probe v ss. exact (contact_is_das_gen V sc ns dt t0 fill wa grid probe v ss). Qed.

(* with TxRxAmplitudes: the amplitude kernels of C02 on the same two tables; None
   (AssertionError) when an amplitude table has not the shape of the lookup table *)
Theorem contact_is_das_with_amplitudes : forall D (V : Data R D),
  forall sc ns dt t0 fill wa grid probe v atx arx ss,
  contact_tfm NumR V sc ns dt t0 fill wa grid probe v (Some (atx, arx)) ss
  = let ltab : list (list R) := map (fun g => map (fun e => dist NumR g e / v) probe) grid in
    if same_shape2 atx ltab && same_shape2 arx ltab
    then das_amp NumR V sc ns dt t0 fill (resolve_weights NumR wa ss)
                 (map (fun q : list R * (list D * list D) => mkRow (fst q) (fst q) (fst (snd q)) (snd (snd q)))
                      (combine ltab (combine atx arx))) ss
    else None.
Proof. intros D V sc ns dt t0 fill wa grid probe v atx arx ss. exact (contact_is_das_amp V sc ns dt t0 fill wa grid probe v atx arx ss). Qed.

(* "contact = straight rays": contact TFM (no weights) is tfm_for_view for the view whose
   two paths are the direct path probe -> grid traced by the Fermat solver of C01 *)
Theorem contact_is_straight_rays : forall D (V : Data R D),
  forall sc ns dt t0 fill grid probe v r ss,
  c_solve_pure NumR (Leg (Start (1%Z, probe)) v (0%Z, grid)) = Some r ->
  tfm_for_view NumR V sc ns dt t0 fill (length grid) r r None ss
  = contact_tfm NumR V sc ns dt t0 fill WNone grid probe v None ss.
Proof. intros D V sc ns dt t0 fill grid probe v r ss. exact (TfmViewProofs.contact_is_straight_rays V sc ns dt t0 fill grid probe v r ss). Qed.

(* tfm_for_view is the delay-and-sum of C02 on the transposed ray times, no weights *)
Theorem view_is_das : forall D (V : Data R D), DataLaws V ->
  forall sc ns dt t0 fill p rtx rrx ss,
  rays_shape_ok p rtx -> rays_shape_ok p rrx ->
  tfm_for_view NumR V sc ns dt t0 fill p rtx rrx None ss
  = Some (das_spec NumR V sc false ns dt t0 fill None (view_rows p rtx rrx) ss).
Proof. intros D V L sc ns dt t0 fill p rtx rrx ss. exact (tfm_for_view_is_das V L sc ns dt t0 fill p rtx rrx ss). Qed.

(* ---- HMC = FMC.  Reciprocal data (g i j = g j i), one lookup table for transmission and
   reception (contact TFM), default weights, default fill value 0: for every pixel, every
   element count n (0 and 1 included), nearest / linear / Lanczos interpolation,
       N_hmc * I_hmc(p) = N_fmc * I_fmc(p),   N_hmc = len(hmc(n)) = n(n+1)/2,  N_fmc = n^2.
   (sum over ordered pairs = diagonal + 2 x strict upper triangle; uses fmc_enumerates,
   hmc_enumerates and weights_spec of C15.)
   The fill value must be 0: the kernels add the BARE fill value for a lookup outside the
   time window, so an off-diagonal pair outside the window counts fill once in the HMC sum
   and twice in the FMC sum (see hmc_eq_fmc_needs_zero_fill below). *)
Theorem hmc_eq_fmc : forall D (V : Data R D), DataLaws V ->
  forall sc ns dt t0 grid probe v (g : nat -> nat -> list D) n,
  (forall i j, g i j = g j i) ->
  exists Ih If,
    contact_tfm NumR V sc ns dt t0 (dzero V) WDefault grid probe v None (frame_of g (hmc n)) = Some Ih /\
    contact_tfm NumR V sc ns dt t0 (dzero V) WDefault grid probe v None (frame_of g (fmc n)) = Some If /\
    map (dscale V (IZR (Z.of_nat (length (hmc n))))) Ih = map (dscale V (IZR (Z.of_nat (n * n)))) If.
Proof. intros D V L sc ns dt t0 grid probe v g n. exact (hmc_eq_fmc_contact V L sc ns dt t0 grid probe v g n). Qed.

(* the same for any focal law whose rows use one table for tx and rx (with amplitudes: one
   amplitude table, commutative product), stated on the specification of C02 *)
Theorem hmc_eq_fmc_das : forall D (V : Data R D), DataLaws V ->
  forall sc b ns dt t0 (g : nat -> nat -> list D) n rows,
  (forall i j, g i j = g j i) -> rows_sym V b rows ->
  map (dscale V (IZR (Z.of_nat (length (hmc n)))))
      (das_spec NumR V sc b ns dt t0 (dzero V) (Some (default_weights NumR (frame_of g (hmc n))))
                rows (frame_of g (hmc n)))
  = map (dscale V (IZR (Z.of_nat (length (fmc n)))))
      (das_spec NumR V sc b ns dt t0 (dzero V) (Some (default_weights NumR (frame_of g (fmc n))))
                rows (frame_of g (fmc n))).
Proof. intros D V L sc b ns dt t0 g n rows. exact (hmc_fmc_spec V L sc b ns dt t0 g n rows). Qed.

(* ... and for ANY half-matrix acquisition: every unordered pair of elements recorded exactly
   once, in any storage order and either orientation (ut.hmc, its mirror tx >= rx, any
   permutation or mixture of them) *)
Theorem hmc_is_half_matrix : forall n, half_matrix n (hmc n) /\ half_matrix n (map swap (hmc n)).
Proof. intros n. exact (conj (hmc_half_matrix n) (hmc_swap_half_matrix n)). Qed.

Theorem half_matrix_any_order : forall n l l', Permutation l l' -> half_matrix n l -> half_matrix n l'.
Proof. exact half_matrix_perm. Qed.

Theorem half_matrix_eq_fmc : forall D (V : Data R D), DataLaws V ->
  forall sc ns dt t0 grid probe v (g : nat -> nat -> list D) n pairs,
  half_matrix n pairs -> (forall i j, g i j = g j i) ->
  exists Ih If,
    contact_tfm NumR V sc ns dt t0 (dzero V) WDefault grid probe v None (frame_of g pairs) = Some Ih /\
    contact_tfm NumR V sc ns dt t0 (dzero V) WDefault grid probe v None (frame_of g (fmc n)) = Some If /\
    map (dscale V (IZR (Z.of_nat (length pairs)))) Ih = map (dscale V (IZR (Z.of_nat (n * n)))) If.
Proof. intros D V L sc ns dt t0 grid probe v g n pairs. exact (half_eq_fmc_contact V L sc ns dt t0 grid probe v g n pairs). Qed.

Theorem half_matrix_eq_fmc_das : forall D (V : Data R D), DataLaws V ->
  forall sc b ns dt t0 (g : nat -> nat -> list D) n pairs rows,
  half_matrix n pairs -> (forall i j, g i j = g j i) -> rows_sym V b rows ->
  map (dscale V (IZR (Z.of_nat (length pairs))))
      (das_spec NumR V sc b ns dt t0 (dzero V) (Some (default_weights NumR (frame_of g pairs)))
                rows (frame_of g pairs))
  = map (dscale V (IZR (Z.of_nat (length (fmc n)))))
      (das_spec NumR V sc b ns dt t0 (dzero V) (Some (default_weights NumR (frame_of g (fmc n))))
                rows (frame_of g (fmc n))).
Proof. intros D V L sc b ns dt t0 g n pairs rows. exact (half_fmc_spec V L sc b ns dt t0 g n pairs rows). Qed.

(* the combinatorial core *)
Theorem ordered_pairs_are_half_matrix_and_mirror : forall n,
  Permutation (fmc n) (hmc n ++ map swap (filter offdiag (hmc n))).
Proof. exact fmc_perm_hmc. Qed.

Theorem default_weights_of_hmc : forall n,
  default_timetrace_weights (hmc n) = map (fun p => if fst p =? snd p then 1%nat else 2%nat) (hmc n).
Proof. exact weights_hmc_map. Qed.

(* ---- expansion.  Frame.expand_frame_assuming_reciprocity of the HMC frame is the FMC
   frame itself — same timetraces, same storage order — where the pair (a, b), a > b, gets
   the recorded (b, a); hence for reciprocal data imaging the expanded frame (by anything)
   is imaging the FMC frame *)
Theorem expand_hmc_gives_fmc : forall D (g : nat -> nat -> list D) n,
  expand_frame (frame_of g (hmc n)) = Some (frame_of (symg g) (fmc n)).
Proof. intros D g n. exact (expand_hmc_frame g n). Qed.

Theorem expand_then_image : forall D (V : Data R D) (g : nat -> nat -> list D) n,
  (forall i j, g i j = g j i) ->
  exists e, expand_frame (frame_of g (hmc n)) = Some e /\
    forall sc ns dt t0 fill wa grid probe v amps,
    contact_tfm NumR V sc ns dt t0 fill wa grid probe v amps e
    = contact_tfm NumR V sc ns dt t0 fill wa grid probe v amps (frame_of g (fmc n)).
Proof.
  intros D V g n Hg. exists (frame_of g (fmc n)).
  exact (conj (expand_hmc_is_fmc g n Hg) (fun sc ns dt t0 fill wa grid probe v amps => eq_refl)).
Qed.

(* any half-matrix acquisition of reciprocal data, in any order and orientation *)
Theorem expand_half_matrix_gives_fmc : forall D (g : nat -> nat -> list D) n pairs,
  half_matrix n pairs -> (forall i j, g i j = g j i) ->
  expand_frame (frame_of g pairs) = Some (frame_of g (fmc n)).
Proof. intros D g n pairs. exact (expand_half_frame g n pairs). Qed.

Theorem expand_then_image_view : forall D (V : Data R D) (g : nat -> nat -> list D) n,
  (forall i j, g i j = g j i) ->
  exists e, expand_frame (frame_of g (hmc n)) = Some e /\
    forall sc ns dt t0 fill p rtx rrx amps,
    tfm_for_view NumR V sc ns dt t0 fill p rtx rrx amps e
    = tfm_for_view NumR V sc ns dt t0 fill p rtx rrx amps (frame_of g (fmc n)).
Proof.
  intros D V g n Hg. exists (frame_of g (fmc n)).
  exact (conj (expand_hmc_is_fmc g n Hg) (fun sc ns dt t0 fill p rtx rrx amps => eq_refl)).
Qed.

(* ---- reciprocal views.  A frame without repeated timetraces that contains with every
   timetrace its mirror (closed under (i, j) -> (j, i), reciprocal data): the view
   (tx_path, rx_path) and the reciprocal view (rx_path, tx_path) — amplitudes exchanged
   along — give the same image, pixel by pixel, for every interpolation and fill value
   (re-indexing bijection of the sum over timetraces) *)
Theorem reciprocal_views_coincide : forall D (V : Data R D), DataLaws V -> mul_comm V ->
  forall sc ns dt t0 fill p rtx rrx amps ss,
  NoDup ss -> mirror_closed ss ->
  tfm_for_view NumR V sc ns dt t0 fill p rrx rtx (swap_amps amps) ss
  = tfm_for_view NumR V sc ns dt t0 fill p rtx rrx amps ss.
Proof. intros D V L C sc ns dt t0 fill p rtx rrx amps ss Hnd Hcl. exact (reciprocal_views V L sc ns dt t0 fill p rtx rrx amps ss Hnd Hcl C). Qed.

Theorem reciprocal_views_das : forall D (V : Data R D), DataLaws V ->
  forall sc b ns dt t0 fill ss rows,
  NoDup ss -> mirror_closed ss -> (b = true -> mul_comm V) ->
  das_spec NumR V sc b ns dt t0 fill None (map (swap_row (D:=D)) rows) ss
  = das_spec NumR V sc b ns dt t0 fill None rows ss.
Proof. intros D V L sc b ns dt t0 fill ss rows. exact (reciprocal_spec V L sc b ns dt t0 fill ss rows). Qed.

Theorem real_product_commutes : mul_comm (DataReal NumR).
Proof. exact DataReal_mul_comm. Qed.

Theorem complex_product_commutes : mul_comm (DataCplx NumR).
Proof. exact DataCplx_mul_comm. Qed.

(* the FMC frame of reciprocal data satisfies the premises *)
Theorem fmc_frame_mirror_closed : forall D (g : nat -> nat -> list D) n,
  (forall i j, g i j = g j i) -> NoDup (frame_of g (fmc n)) /\ mirror_closed (frame_of g (fmc n)).
Proof. intros D g n. exact (fmc_frame_closed g n). Qed.

(* ---- focusing.  Real data made of unit spikes at the samples round((tau_tx + tau_rx - t0)/dt)
   of a scatterer sitting on the grid point whose focal-law row is r0 (all arrivals inside
   the recorded time window), at least one timetrace, nearest-sample interpolation, no
   weights, no amplitudes, fill value 0 (tfm_for_view, or contact_tfm with
   timetrace_weights=None): the image is exactly 1 at that grid point and every pixel is in
   [0, 1] *)
Theorem spike_focus : forall ns dt t0 rows ss r0,
  ss <> [] -> spikes_of ns dt t0 r0 ss ->
  exists img,
    das_noamp NumR (DataReal NumR) Nearest ns dt t0 0 None rows ss = Some img /\
    Forall (fun v => 0 <= v <= 1) img /\
    (forall p, nth_error rows p = Some r0 -> nth_error img p = Some 1).
Proof. exact spike_focus_das. Qed.

(* ... through the pipeline *)
Theorem spike_focus_view : forall ns dt t0 p rtx rrx ss r0,
  rays_shape_ok p rtx -> rays_shape_ok p rrx ->
  ss <> [] -> spikes_of ns dt t0 r0 ss ->
  exists img,
    tfm_for_view NumR (DataReal NumR) Nearest ns dt t0 0 p rtx rrx None ss = Some img /\
    Forall (fun v => 0 <= v <= 1) img /\
    (forall k, nth_error (view_rows p rtx rrx) k = Some r0 -> nth_error img k = Some 1).
Proof. exact spike_focus_view_lemma. Qed.

Theorem spike_focus_contact : forall ns dt t0 grid probe v ss r0,
  ss <> [] -> spikes_of ns dt t0 r0 ss ->
  exists img,
    contact_tfm NumR (DataReal NumR) Nearest ns dt t0 0 WNone grid probe v None ss = Some img /\
    Forall (fun v => 0 <= v <= 1) img /\
    (forall k, nth_error (map (contact_row v probe) grid) k = Some r0 -> nth_error img k = Some 1).
Proof. exact spike_focus_contact_lemma. Qed.

(* ---- the fill value matters for HMC = FMC: two elements, one sample, the pair (0, 0) inside
   the time window and the pairs (0, 1), (1, 1) outside, data zero, fill 1:
   3 * I_hmc = 2 but 4 * I_fmc = 3 *)
Theorem hmc_eq_fmc_needs_zero_fill :
  exists ns dt t0 fill rows (g : nat -> nat -> list R) n,
    (forall i j, g i j = g j i) /\ rows_sym (DataReal NumR) false rows /\
    map (dscale (DataReal NumR) (IZR (Z.of_nat (length (hmc n)))))
        (das_spec NumR (DataReal NumR) Linear false ns dt t0 fill (Some (default_weights NumR (frame_of g (hmc n))))
                  rows (frame_of g (hmc n)))
    <> map (dscale (DataReal NumR) (IZR (Z.of_nat (length (fmc n)))))
        (das_spec NumR (DataReal NumR) Linear false ns dt t0 fill (Some (default_weights NumR (frame_of g (fmc n))))
                  rows (frame_of g (fmc n))).
Proof. exact hmc_fmc_fill_counterexample. Qed.

(* ---- non-vacuity: the model computes (exact rationals).  Two elements at x = 0 and x = 3,
   one grid point at (0, 0, 4): distances 4 and 5 (Pythagorean), velocity 1, dt = 1, t0 = 0,
   12 samples; timetrace (i, j) = 100 i + 10 j + sample index, reciprocal: g 0 1 = g 1 0 *)
Local Open Scope Q_scope.
Definition ex_probe : list (Q * Q * Q) := [(0, 0, 0); (3, 0, 0)].
Definition ex_grid : list (Q * Q * Q) := [(0, 0, 4); (3, 0, 4)].
Definition ex_g (i j : nat) : list Q :=
  map (fun k => inject_Z (100 * Z.of_nat (Nat.min i j) + 10 * Z.of_nat (Nat.max i j) + k)) (zrange 0 12).

Example contact_lookup_example :
  contact_lookup_times NumQ ex_grid ex_probe 1 = [[4; 5]; [5; 4]].
Proof. vm_compute. reflexivity. Qed.

(* FMC: (x[8] of (0,0) + x[9] of (0,1) + x[9] of (1,0) + x[10] of (1,1)) / 4 = (8 + 19 + 19 + 120) / 4 *)
Example contact_fmc_example :
  contact_tfm NumQ (DataReal NumQ) Nearest 12 1 0 0 WDefault ex_grid ex_probe 1 None (frame_of ex_g (fmc 2))
  = Some [83 # 2; 83 # 2].
Proof. vm_compute. reflexivity. Qed.

(* HMC: (8 + 2 * 19 + 120) / 3; 3 * 166/3 = 4 * 83/2 = 166 *)
Example contact_hmc_example :
  contact_tfm NumQ (DataReal NumQ) Nearest 12 1 0 0 WDefault ex_grid ex_probe 1 None (frame_of ex_g (hmc 2))
  = Some [166 # 3; 166 # 3].
Proof. vm_compute. reflexivity. Qed.

Example expand_example :
  expand_frame (frame_of ex_g (hmc 2)) = Some (frame_of ex_g (fmc 2)).
Proof. vm_compute. reflexivity. Qed.

(* a view with different tx and rx ray times (2 elements x 2 grid points each) and its reciprocal;
   pixel 0: lookups 4.5, 6.5, 5.5, 7.5 -> (4.5 + 16.5 + 15.5 + 117.5) / 4 *)
Example view_example :
  let rt := mkRays [[4; 5]; [5; 4]] [] in let rr := mkRays [[1; 2]; [3; 1]] [] in
  tfm_for_view NumQ (DataReal NumQ) Linear 12 1 (1 # 2) 0 2 rt rr None (frame_of ex_g (fmc 2))
  = tfm_for_view NumQ (DataReal NumQ) Linear 12 1 (1 # 2) 0 2 rr rt None (frame_of ex_g (fmc 2))
  /\ tfm_for_view NumQ (DataReal NumQ) Linear 12 1 (1 # 2) 0 2 rt rr None (frame_of ex_g (fmc 2))
     = Some [77 # 2; 38].
Proof. vm_compute. split; reflexivity. Qed.

(* unit spikes of a scatterer on grid point 0 (arrivals 8, 9, 9, 10): image 1 there, 1/2 on
   the other grid point (arrivals 10, 9, 9, 8: two of the four samples hit a spike) *)
Example spike_example :
  let sp i j := spike (DataReal NumQ) 12 (Z.of_nat (8 + i + j)) in
  contact_tfm NumQ (DataReal NumQ) Nearest 12 1 0 0 WNone ex_grid ex_probe 1 None (frame_of sp (fmc 2))
  = Some [1; 1 # 2].
Proof. vm_compute. reflexivity. Qed.
