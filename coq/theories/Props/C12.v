(* Props/C12.v — TFM pipelines: contact = straight rays, HMC = FMC, reciprocal views coincide.
   Statements only; proofs are in Proofs/TfmProofs.v and Proofs/TfmViewProofs.v.

   Model: Model/Tfm.v (arim.im.tfm.contact_tfm, tfm_for_view, FocalLaw shape checks, the
   dispatch of das.delay_and_sum on the amplitudes, default weights as floats,
   Frame.expand_frame_assuming_reciprocity on timetraces) built on the models of the
   parts: Model/Das.v (C02: kernels and `das_spec`), Model/Frame.v (C15: fmc, hmc,
   default_timetrace_weights, expand), Model/Fermat.v + MinPlus.v (C01: dist, leg_times,
   Rays, transpose).  Numeric statements are about the real-number instance NumR; sample
   values live in any module `Data R D` satisfying `DataLaws` (Props/C02.v: the real and the
   complex-as-pairs instances do).  An image is the list of its pixels in the C order of
   grid.to_1d_points().

   Reading guide
     frame_of g pairs        the frame recorded on the element pairs `pairs`, g i j = timetrace (tx i, rx j)
     fmc n / hmc n           ut.fmc / ut.hmc (C15: every ordered / unordered pair exactly once)
     contact_row v probe p   the row of the focal law at grid point p: tau[e] = |p - e| / v, tx and rx
     mirror s                the timetrace s with tx and rx exchanged (same samples)
     spike ns k              a timetrace of ns samples, 1 at sample k, 0 elsewhere

   What these theorems do NOT cover (sampled by harness/prop_C12.py): binary64/32 rounding,
   numba fastmath, the Points/Probe/Frame/View/TfmResult glue (to_1d_points, reshape, memory
   order of the ray times), the ray tracing itself (C01). *)
From Coq Require Import List Reals ZArith Bool Arith Permutation QArith.
From Arim Require Import Base.Num Base.NumR Base.NumQ Model.MinPlus Model.Fermat Model.Das Model.Frame Model.Tfm.
From Arim Require Import Proofs.DasProofs Proofs.TfmProofs Proofs.TfmViewProofs.
Import ListNotations.
Local Open Scope R_scope.

(* ---- contact TFM is the delay-and-sum of C02 with tau = distance / velocity on both
   sides (any interpolation, fill value, frame; default weights = those of C15) --------- *)
Theorem contact_is_das : forall D (V : Data R D), DataLaws V ->
  forall sc ns dt t0 fill grid probe v ss,
  contact_tfm NumR V sc ns dt t0 fill WDefault grid probe v None ss
  = Some (das_spec NumR V sc false ns dt t0 fill (Some (default_weights NumR ss))
                   (map (contact_row v probe) grid) ss).
Proof. intros D V L sc ns dt t0 fill grid probe v ss. exact (contact_is_das_default V L sc ns dt t0 fill grid probe v ss). Qed.

(* the weights argument is passed on as it is ("default" / None / an array) *)
Theorem contact_is_das_any_weights : forall D (V : Data R D),
  forall sc ns dt t0 fill wa grid probe v ss,
  contact_tfm NumR V sc ns dt t0 fill wa grid probe v None ss
  = das_noamp NumR V sc ns dt t0 fill (resolve_weights NumR wa ss) (map (contact_row v probe) grid) ss.
Proof. intros D V sc ns dt t0 fill wa grid probe v ss. exact (contact_is_das_gen V sc ns dt t0 fill wa grid probe v ss). Qed.

(* with TxRxAmplitudes: the amplitude kernels of C02 on the same two tables; None
   (AssertionError) when an amplitude table has not the shape of the lookup table *)
Theorem contact_is_das_with_amplitudes : forall D (V : Data R D),
  forall sc ns dt t0 fill wa grid probe v atx arx ss,
  contact_tfm NumR V sc ns dt t0 fill wa grid probe v (Some (atx, arx)) ss
  = let ltab : list (list R) := map (fun g => map (fun e => dist NumR g e / v) probe) grid in
    if same_shape2 atx ltab && same_shape2 arx ltab
    then das_amp NumR V sc ns dt t0 fill (resolve_weights NumR wa ss)
                 (map (fun q : list R * (list D * list D) => mkRow (fst q) (fst q) (fst (snd q)) (snd (snd q)))
                      (combine ltab (combine atx arx))) ss
    else None.
Proof. intros D V sc ns dt t0 fill wa grid probe v atx arx ss. exact (contact_is_das_amp V sc ns dt t0 fill wa grid probe v atx arx ss). Qed.

(* "contact = straight rays": contact TFM (no weights) is tfm_for_view for the view whose
   two paths are the direct path probe -> grid traced by the Fermat solver of C01 *)
Theorem contact_is_straight_rays : forall D (V : Data R D),
  forall sc ns dt t0 fill grid probe v r ss,
  c_solve_pure NumR (Leg (Start (1%Z, probe)) v (0%Z, grid)) = Some r ->
  tfm_for_view NumR V sc ns dt t0 fill (length grid) r r None ss
  = contact_tfm NumR V sc ns dt t0 fill WNone grid probe v None ss.
Proof. intros D V sc ns dt t0 fill grid probe v r ss. exact (TfmViewProofs.contact_is_straight_rays V sc ns dt t0 fill grid probe v r ss). Qed.

(* tfm_for_view is the delay-and-sum of C02 on the transposed ray times, no weights *)
Theorem view_is_das : forall D (V : Data R D), DataLaws V ->
  forall sc ns dt t0 fill p rtx rrx ss,
  rays_shape_ok p rtx -> rays_shape_ok p rrx ->
  tfm_for_view NumR V sc ns dt t0 fill p rtx rrx None ss
  = Some (das_spec NumR V sc false ns dt t0 fill None (view_rows p rtx rrx) ss).
Proof. intros D V L sc ns dt t0 fill p rtx rrx ss. exact (tfm_for_view_is_das V L sc ns dt t0 fill p rtx rrx ss). Qed.

(* ---- HMC = FMC.  Reciprocal data (g i j = g j i), one lookup table for transmission and
   reception (contact TFM), default weights, default fill value 0: for every pixel, every
   element count n (0 and 1 included), nearest / linear / Lanczos interpolation,
       N_hmc * I_hmc(p) = N_fmc * I_fmc(p),   N_hmc = len(hmc(n)) = n(n+1)/2,  N_fmc = n^2.
   (sum over ordered pairs = diagonal + 2 x strict upper triangle; uses fmc_enumerates,
   hmc_enumerates and weights_spec of C15.)
   The fill value must be 0: the kernels add the BARE fill value for a lookup outside the
   time window, so an off-diagonal pair outside the window counts fill once in the HMC sum
   and twice in the FMC sum (see hmc_eq_fmc_needs_zero_fill below). *)
Theorem hmc_eq_fmc : forall D (V : Data R D), DataLaws V ->
  forall sc ns dt t0 grid probe v (g : nat -> nat -> list D) n,
  (forall i j, g i j = g j i) ->
  exists Ih If,
    contact_tfm NumR V sc ns dt t0 (dzero V) WDefault grid probe v None (frame_of g (hmc n)) = Some Ih /\
    contact_tfm NumR V sc ns dt t0 (dzero V) WDefault grid probe v None (frame_of g (fmc n)) = Some If /\
    map (dscale V (IZR (Z.of_nat (length (hmc n))))) Ih = map (dscale V (IZR (Z.of_nat (n * n)))) If.
Proof. intros D V L sc ns dt t0 grid probe v g n. exact (hmc_eq_fmc_contact V L sc ns dt t0 grid probe v g n). Qed.

(* the same for any focal law whose rows use one table for tx and rx (with amplitudes: one
   amplitude table, commutative product), stated on the specification of C02 *)
Theorem hmc_eq_fmc_das : forall D (V : Data R D), DataLaws V ->
  forall sc b ns dt t0 (g : nat -> nat -> list D) n rows,
  (forall i j, g i j = g j i) -> rows_sym V b rows ->
  map (dscale V (IZR (Z.of_nat (length (hmc n)))))
      (das_spec NumR V sc b ns dt t0 (dzero V) (Some (default_weights NumR (frame_of g (hmc n))))
                rows (frame_of g (hmc n)))
  = map (dscale V (IZR (Z.of_nat (length (fmc n)))))
      (das_spec NumR V sc b ns dt t0 (dzero V) (Some (default_weights NumR (frame_of g (fmc n))))
                rows (frame_of g (fmc n))).
Proof. intros D V L sc b ns dt t0 g n rows. exact (hmc_fmc_spec V L sc b ns dt t0 g n rows). Qed.

(* ... and for ANY half-matrix acquisition: every unordered pair of elements recorded exactly
   once, in any storage order and either orientation (ut.hmc, its mirror tx >= rx, any
   permutation or mixture of them) *)
Theorem hmc_is_half_matrix : forall n, half_matrix n (hmc n) /\ half_matrix n (map swap (hmc n)).
Proof. intros n. exact (conj (hmc_half_matrix n) (hmc_swap_half_matrix n)). Qed.

Theorem half_matrix_any_order : forall n l l', Permutation l l' -> half_matrix n l -> half_matrix n l'.
Proof. exact half_matrix_perm. Qed.

Theorem half_matrix_eq_fmc : forall D (V : Data R D), DataLaws V ->
  forall sc ns dt t0 grid probe v (g : nat -> nat -> list D) n pairs,
  half_matrix n pairs -> (forall i j, g i j = g j i) ->
  exists Ih If,
    contact_tfm NumR V sc ns dt t0 (dzero V) WDefault grid probe v None (frame_of g pairs) = Some Ih /\
    contact_tfm NumR V sc ns dt t0 (dzero V) WDefault grid probe v None (frame_of g (fmc n)) = Some If /\
    map (dscale V (IZR (Z.of_nat (length pairs)))) Ih = map (dscale V (IZR (Z.of_nat (n * n)))) If.
Proof. intros D V L sc ns dt t0 grid probe v g n pairs. exact (half_eq_fmc_contact V L sc ns dt t0 grid probe v g n pairs). Qed.

Theorem half_matrix_eq_fmc_das : forall D (V : Data R D), DataLaws V ->
  forall sc b ns dt t0 (g : nat -> nat -> list D) n pairs rows,
  half_matrix n pairs -> (forall i j, g i j = g j i) -> rows_sym V b rows ->
  map (dscale V (IZR (Z.of_nat (length pairs))))
      (das_spec NumR V sc b ns dt t0 (dzero V) (Some (default_weights NumR (frame_of g pairs)))
                rows (frame_of g pairs))
  = map (dscale V (IZR (Z.of_nat (length (fmc n)))))
      (das_spec NumR V sc b ns dt t0 (dzero V) (Some (default_weights NumR (frame_of g (fmc n))))
                rows (frame_of g (fmc n))).
Proof. intros D V L sc b ns dt t0 g n pairs rows. exact (half_fmc_spec V L sc b ns dt t0 g n pairs rows). Qed.

(* the combinatorial core *)
Theorem ordered_pairs_are_half_matrix_and_mirror : forall n,
  Permutation (fmc n) (hmc n ++ map swap (filter offdiag (hmc n))).
Proof. exact fmc_perm_hmc. Qed.

Theorem default_weights_of_hmc : forall n,
  default_timetrace_weights (hmc n) = map (fun p => if fst p =? snd p then 1%nat else 2%nat) (hmc n).
Proof. exact weights_hmc_map. Qed.

(* ---- expansion.  Frame.expand_frame_assuming_reciprocity of the HMC frame is the FMC
   frame itself — same timetraces, same storage order — where the pair (a, b), a > b, gets
   the recorded (b, a); hence for reciprocal data imaging the expanded frame (by anything)
   is imaging the FMC frame *)
Theorem expand_hmc_gives_fmc : forall D (g : nat -> nat -> list D) n,
  expand_frame (frame_of g (hmc n)) = Some (frame_of (symg g) (fmc n)).
Proof. intros D g n. exact (expand_hmc_frame g n). Qed.

Theorem expand_then_image : forall D (V : Data R D) (g : nat -> nat -> list D) n,
  (forall i j, g i j = g j i) ->
  exists e, expand_frame (frame_of g (hmc n)) = Some e /\
    forall sc ns dt t0 fill wa grid probe v amps,
    contact_tfm NumR V sc ns dt t0 fill wa grid probe v amps e
    = contact_tfm NumR V sc ns dt t0 fill wa grid probe v amps (frame_of g (fmc n)).
Proof.
  intros D V g n Hg. exists (frame_of g (fmc n)).
  exact (conj (expand_hmc_is_fmc g n Hg) (fun sc ns dt t0 fill wa grid probe v amps => eq_refl)).
Qed.

(* any half-matrix acquisition of reciprocal data, in any order and orientation *)
Theorem expand_half_matrix_gives_fmc : forall D (g : nat -> nat -> list D) n pairs,
  half_matrix n pairs -> (forall i j, g i j = g j i) ->
  expand_frame (frame_of g pairs) = Some (frame_of g (fmc n)).
Proof. intros D g n pairs. exact (expand_half_frame g n pairs). Qed.

Theorem expand_then_image_view : forall D (V : Data R D) (g : nat -> nat -> list D) n,
  (forall i j, g i j = g j i) ->
  exists e, expand_frame (frame_of g (hmc n)) = Some e /\
    forall sc ns dt t0 fill p rtx rrx amps,
    tfm_for_view NumR V sc ns dt t0 fill p rtx rrx amps e
    = tfm_for_view NumR V sc ns dt t0 fill p rtx rrx amps (frame_of g (fmc n)).
Proof.
  intros D V g n Hg. exists (frame_of g (fmc n)).
  exact (conj (expand_hmc_is_fmc g n Hg) (fun sc ns dt t0 fill p rtx rrx amps => eq_refl)).
Qed.

(* ---- reciprocal views.  A frame without repeated timetraces that contains with every
   timetrace its mirror (closed under (i, j) -> (j, i), reciprocal data): the view
   (tx_path, rx_path) and the reciprocal view (rx_path, tx_path) — amplitudes exchanged
   along — give the same image, pixel by pixel, for every interpolation and fill value
   (re-indexing bijection of the sum over timetraces) *)
Theorem reciprocal_views_coincide : forall D (V : Data R D), DataLaws V -> mul_comm V ->
  forall sc ns dt t0 fill p rtx rrx amps ss,
  NoDup ss -> mirror_closed ss ->
  tfm_for_view NumR V sc ns dt t0 fill p rrx rtx (swap_amps amps) ss
  = tfm_for_view NumR V sc ns dt t0 fill p rtx rrx amps ss.
Proof. intros D V L C sc ns dt t0 fill p rtx rrx amps ss Hnd Hcl. exact (reciprocal_views V L sc ns dt t0 fill p rtx rrx amps ss Hnd Hcl C). Qed.

Theorem reciprocal_views_das : forall D (V : Data R D), DataLaws V ->
  forall sc b ns dt t0 fill ss rows,
  NoDup ss -> mirror_closed ss -> (b = true -> mul_comm V) ->
  das_spec NumR V sc b ns dt t0 fill None (map (swap_row (D:=D)) rows) ss
  = das_spec NumR V sc b ns dt t0 fill None rows ss.
Proof. intros D V L sc b ns dt t0 fill ss rows. exact (reciprocal_spec V L sc b ns dt t0 fill ss rows). Qed.

Theorem real_product_commutes : mul_comm (DataReal NumR).
Proof. exact DataReal_mul_comm. Qed.

Theorem complex_product_commutes : mul_comm (DataCplx NumR).
Proof. exact DataCplx_mul_comm. Qed.

(* the FMC frame of reciprocal data satisfies the premises *)
Theorem fmc_frame_mirror_closed : forall D (g : nat -> nat -> list D) n,
  (forall i j, g i j = g j i) -> NoDup (frame_of g (fmc n)) /\ mirror_closed (frame_of g (fmc n)).
Proof. intros D g n. exact (fmc_frame_closed g n). Qed.

(* ---- focusing.  Real data made of unit spikes at the samples round((tau_tx + tau_rx - t0)/dt)
   of a scatterer sitting on the grid point whose focal-law row is r0 (all arrivals inside
   the recorded time window), at least one timetrace, nearest-sample interpolation, no
   weights, no amplitudes, fill value 0 (tfm_for_view, or contact_tfm with
   timetrace_weights=None): the image is exactly 1 at that grid point and every pixel is in
   [0, 1] *)
Theorem spike_focus : forall ns dt t0 rows ss r0,
  ss <> [] -> spikes_of ns dt t0 r0 ss ->
  exists img,
    das_noamp NumR (DataReal NumR) Nearest ns dt t0 0 None rows ss = Some img /\
    Forall (fun v => 0 <= v <= 1) img /\
    (forall p, nth_error rows p = Some r0 -> nth_error img p = Some 1).
Proof. exact spike_focus_das. Qed.

(* ... through the pipeline *)
Theorem spike_focus_view : forall ns dt t0 p rtx rrx ss r0,
  rays_shape_ok p rtx -> rays_shape_ok p rrx ->
  ss <> [] -> spikes_of ns dt t0 r0 ss ->
  exists img,
    tfm_for_view NumR (DataReal NumR) Nearest ns dt t0 0 p rtx rrx None ss = Some img /\
    Forall (fun v => 0 <= v <= 1) img /\
    (forall k, nth_error (view_rows p rtx rrx) k = Some r0 -> nth_error img k = Some 1).
Proof. exact spike_focus_view_lemma. Qed.

Theorem spike_focus_contact : forall ns dt t0 grid probe v ss r0,
  ss <> [] -> spikes_of ns dt t0 r0 ss ->
  exists img,
    contact_tfm NumR (DataReal NumR) Nearest ns dt t0 0 WNone grid probe v None ss = Some img /\
    Forall (fun v => 0 <= v <= 1) img /\
    (forall k, nth_error (map (contact_row v probe) grid) k = Some r0 -> nth_error img k = Some 1).
Proof. exact spike_focus_contact_lemma. Qed.

(* ---- the fill value matters for HMC = FMC: two elements, one sample, the pair (0, 0) inside
   the time window and the pairs (0, 1), (1, 1) outside, data zero, fill 1:
   3 * I_hmc = 2 but 4 * I_fmc = 3 *)
Theorem hmc_eq_fmc_needs_zero_fill :
  exists ns dt t0 fill rows (g : nat -> nat -> list R) n,
    (forall i j, g i j = g j i) /\ rows_sym (DataReal NumR) false rows /\
    map (dscale (DataReal NumR) (IZR (Z.of_nat (length (hmc n)))))
        (das_spec NumR (DataReal NumR) Linear false ns dt t0 fill (Some (default_weights NumR (frame_of g (hmc n))))
                  rows (frame_of g (hmc n)))
    <> map (dscale (DataReal NumR) (IZR (Z.of_nat (length (fmc n)))))
        (das_spec NumR (DataReal NumR) Linear false ns dt t0 fill (Some (default_weights NumR (frame_of g (fmc n))))
                  rows (frame_of g (fmc n))).
Proof. exact hmc_fmc_fill_counterexample. Qed.

(* ---- non-vacuity: the model computes (exact rationals).  Two elements at x = 0 and x = 3,
   one grid point at (0, 0, 4): distances 4 and 5 (Pythagorean), velocity 1, dt = 1, t0 = 0,
   12 samples; timetrace (i, j) = 100 i + 10 j + sample index, reciprocal: g 0 1 = g 1 0 *)
Local Open Scope Q_scope.
Definition ex_probe : list (Q * Q * Q) := [(0, 0, 0); (3, 0, 0)].
Definition ex_grid : list (Q * Q * Q) := [(0, 0, 4); (3, 0, 4)].
Definition ex_g (i j : nat) : list Q :=
  map (fun k => inject_Z (100 * Z.of_nat (Nat.min i j) + 10 * Z.of_nat (Nat.max i j) + k)) (zrange 0 12).

Example contact_lookup_example :
  contact_lookup_times NumQ ex_grid ex_probe 1 = [[4; 5]; [5; 4]].
Proof. vm_compute. reflexivity. Qed.

(* FMC: (x[8] of (0,0) + x[9] of (0,1) + x[9] of (1,0) + x[10] of (1,1)) / 4 = (8 + 19 + 19 + 120) / 4 *)
Example contact_fmc_example :
  contact_tfm NumQ (DataReal NumQ) Nearest 12 1 0 0 WDefault ex_grid ex_probe 1 None (frame_of ex_g (fmc 2))
  = Some [83 # 2; 83 # 2].
Proof. vm_compute. reflexivity. Qed.

(* HMC: (8 + 2 * 19 + 120) / 3; 3 * 166/3 = 4 * 83/2 = 166 *)
Example contact_hmc_example :
  contact_tfm NumQ (DataReal NumQ) Nearest 12 1 0 0 WDefault ex_grid ex_probe 1 None (frame_of ex_g (hmc 2))
  = Some [166 # 3; 166 # 3].
Proof. vm_compute. reflexivity. Qed.

Example expand_example :
  expand_frame (frame_of ex_g (hmc 2)) = Some (frame_of ex_g (fmc 2)).
Proof. vm_compute. reflexivity. Qed.

(* a view with different tx and rx ray times (2 elements x 2 grid points each) and its reciprocal;
   pixel 0: lookups 4.5, 6.5, 5.5, 7.5 -> (4.5 + 16.5 + 15.5 + 117.5) / 4 *)
Example view_example :
  let rt := mkRays [[4; 5]; [5; 4]] [] in let rr := mkRays [[1; 2]; [3; 1]] [] in
  tfm_for_view NumQ (DataReal NumQ) Linear 12 1 (1 # 2) 0 2 rt rr None (frame_of ex_g (fmc 2))
  = tfm_for_view NumQ (DataReal NumQ) Linear 12 1 (1 # 2) 0 2 rr rt None (frame_of ex_g (fmc 2))
  /\ tfm_for_view NumQ (DataReal NumQ) Linear 12 1 (1 # 2) 0 2 rt rr None (frame_of ex_g (fmc 2))
     = Some [77 # 2; 38].
Proof. vm_compute. split; reflexivity. Qed.

(* unit spikes of a scatterer on grid point 0 (arrivals 8, 9, 9, 10): image 1 there, 1/2 on
   the other grid point (arrivals 10, 9, 9, 8: two of the four samples hit a spike) *)
Example spike_example :
  let sp i j := spike (DataReal NumQ) 12 (Z.of_nat (8 + i + j)) in
  contact_tfm NumQ (DataReal NumQ) Nearest 12 1 0 0 WNone ex_grid ex_probe 1 None (frame_of sp (fmc 2))
  = Some [1; 1 # 2].
Proof. vm_compute. reflexivity. Qed.

(* ==========================================================================
   SECOND PART — the glue around the cores (Model/TfmGlue.v; proofs in Proofs/TfmGlueProofs.v,
   axiom-free, any numeric instance, and Proofs/TfmGlueRealProofs.v, over R).

   Reading guide
     ndt A d                    an N-d array (d = number of dimensions) as nested lists, indexed
                                logically; nd_get a idx = a[idx]; nd_okb s a = "a has shape s"
     nd_flatten                 Points.to_1d_points / a.reshape(-1): C index order
     nd_reshape, np_reshape     flat.reshape(s) (np_reshape: None = ValueError on a wrong size)
     ravel s idx                position of the multi-index idx in C order (np.ravel_multi_index)
     contact_tfm_nd, tfm_for_view_nd   the public functions on a grid of shape s, with the shape
                                assertions of contact_tfm and TfmResult and res.reshape(grid.shape)
     row_at ltx lrx amps k      row k of the (two or four) focal-law tables
     take_idx idx l             l[idx] for a list of indices (None = IndexError); take_cols: t[:, idx]
     default_weights_z tx rx    ut.default_timetrace_weights on integer index VALUES (None = ValueError)
     arr2, a_rows, a_T, a_ascontiguous, a_asfortran   a 2-d array with its memory order
     tfm_for_view_mem           tfm_for_view on ray times with their memory order
     weights_x, contact_tfm_x   timetrace_weights as the caller writes it; GRaise / GShapeDrift
     maximum_intensity_in_rectbox(_nd), in_rectbox   TfmResult.maximum_intensity_in_rectbox
   Not covered here either: binary64 rounding, numba fastmath, dtype promotion. *)
From Arim Require Import Model.TfmGlue Proofs.TfmGlueProofs Proofs.TfmGlueRealProofs.
Local Close Scope Q_scope.
Local Close Scope R_scope.

(* ---- N-d arrays: reshape and the C-order enumeration ------------------------------------ *)
(* flat.reshape(s).reshape(-1) = flat   and   a.reshape(-1).reshape(a.shape) = a *)
Theorem flatten_of_reshape : forall A (dflt : A) s flat,
  length flat = shape_size s -> nd_flatten (length s) (nd_reshape dflt s flat) = flat.
Proof. exact @flatten_reshape. Qed.

Theorem reshape_of_flatten : forall A (dflt : A) s (t : ndt A (length s)),
  nd_okb s t = true -> nd_reshape dflt s (nd_flatten (length s) t) = t.
Proof. exact @reshape_flatten. Qed.

(* the element at a multi-index of a reshaped array is the flat element at the C-order position;
   the element of an array at a multi-index is the element of to_1d_points at that position *)
Theorem reshaped_element_position : forall A (dflt : A) s flat idx k,
  length flat = shape_size s -> ravel s idx = Some k ->
  nd_get (length s) (nd_reshape dflt s flat) idx = nth_error flat k.
Proof. exact @get_reshape. Qed.

Theorem to_1d_points_position : forall A s (t : ndt A (length s)) idx k,
  nd_okb s t = true -> ravel s idx = Some k ->
  nd_get (length s) t idx = nth_error (nd_flatten (length s) t) k.
Proof. exact @get_flatten. Qed.

(* np.ndindex enumerates in C order: its k-th multi-index ravels to k (so ravel is a bijection
   from the multi-indices of the shape onto range(prod(shape))) *)
Theorem ndindex_is_c_order : forall s, map (ravel s) (ndindex s) = map Some (seq 0 (shape_size s)).
Proof. exact ravel_ndindex. Qed.

(* to_1d_points ; point-wise computation ; reshape(shape)  =  the point-wise map on the N-d array *)
Theorem reshape_of_pointwise_values : forall A B (dflt : B) (f : A -> B) s (t : ndt A (length s)),
  nd_okb s t = true -> nd_reshape dflt s (map f (nd_flatten (length s) t)) = nd_map f (length s) t.
Proof. exact @reshape_map_flatten. Qed.

(* ---- contact_tfm / tfm_for_view on a grid of any shape ---------------------------------- *)
(* on a well-formed grid of any shape (0-d, 1-d, ..., with or without amplitudes, any weights
   argument) none of the glue assertions fires and the reshape succeeds: the call is the 1-d call
   on to_1d_points followed by reshape(grid.shape); it raises exactly when the 1-d call raises *)
Theorem contact_tfm_any_shape : forall T D (N : Num T) (V : Data T D) sc ns dt t0 fill wa s
    (grid : ndt (T * T * T) (length s)) probe v amps ss,
  nd_okb s grid = true ->
  contact_tfm_nd N V sc ns dt t0 fill wa s grid probe v amps ss
  = option_map (nd_reshape (dzero V) s)
               (contact_tfm N V sc ns dt t0 fill wa (nd_flatten (length s) grid) probe v amps ss).
Proof. intros T D N V. exact (contact_tfm_nd_eq N V). Qed.

(* the pixel at a multi-index is the 1-d value at the C-order position of that multi-index, and
   that position holds the grid point of the same multi-index; the image has the shape of the grid *)
Theorem contact_tfm_pixel_at_own_index : forall T D (N : Num T) (V : Data T D) sc ns dt t0 fill wa s
    (grid : ndt (T * T * T) (length s)) probe v amps ss img,
  nd_okb s grid = true ->
  contact_tfm_nd N V sc ns dt t0 fill wa s grid probe v amps ss = Some img ->
  exists res,
    contact_tfm N V sc ns dt t0 fill wa (nd_flatten (length s) grid) probe v amps ss = Some res /\
    nd_flatten (length s) img = res /\ nd_okb s img = true /\
    forall idx k, ravel s idx = Some k ->
      nd_get (length s) img idx = nth_error res k /\
      nd_get (length s) grid idx = nth_error (nd_flatten (length s) grid) k.
Proof. intros T D N V. exact (contact_tfm_nd_get N V). Qed.

(* without amplitudes: ONE function of a point (it depends on the frame, the weights and the
   options, not on the grid) gives every pixel from the grid point at the same multi-index *)
Theorem contact_tfm_image_is_pointwise : forall T D (N : Num T) (V : Data T D) sc ns dt t0 fill wa s
    (grid : ndt (T * T * T) (length s)) probe v ss img,
  nd_okb s grid = true ->
  contact_tfm_nd N V sc ns dt t0 fill wa s grid probe v None ss = Some img ->
  exists wss, weigh_timetraces V (resolve_weights N wa ss) ss = Some wss /\
    forall idx, nd_get (length s) img idx
                = option_map (contact_pixel N V sc ns dt t0 fill v probe wss) (nd_get (length s) grid idx).
Proof. intros T D N V. exact (contact_tfm_nd_pixel N V). Qed.

(* tfm_for_view with ray times of shape (numelements, prod(grid.shape)), no amplitudes: never raises,
   the pixel at a multi-index reads column ravel(idx) of the two ray-time tables.
   (Statement unchanged by the repair of tfm_for_view_nd; the two hypotheses on the widths are now
   exactly what makes the call succeed, see tfm_for_view_raises_iff_wrong_width below.) *)
Theorem tfm_for_view_any_shape : forall T D (N : Num T) (V : Data T D) sc ns dt t0 fill s rtx rrx ss,
  Forall (fun row => length row = shape_size s) (r_times rtx) ->
  Forall (fun row => length row = shape_size s) (r_times rrx) ->
  exists img, tfm_for_view_nd N V sc ns dt t0 fill s rtx rrx None ss = Some img /\
    nd_okb s img = true /\
    forall idx k, ravel s idx = Some k ->
      nd_get (length s) img idx = Some (view_pixel N V sc ns dt t0 fill (r_times rtx) (r_times rrx) ss k).
Proof. intros T D N V. exact (tfm_for_view_nd_get N V). Qed.

(* REPAIR of the model (run-time tie): tfm_for_view never compares the ray times with the grid before
   the final res.reshape(grid.shape).  When a ray-time table has a number of columns different from
   prod(grid.shape) the library raises — AssertionError of FocalLaw (tfm.py:214) when the two tables
   differ, ValueError of the reshape (tfm.py:466) when they agree — e.g. grid shape (1,), tx times
   [[4,5],[5,4]], rx times [[1,2],[3,1]].  The model used to drop the columns in excess and answer an
   image; it now answers None.  New theorems: *)
(* without amplitudes the call raises EXACTLY when some row of a ray-time table has a length
   different from prod(grid.shape) *)
Theorem tfm_for_view_raises_iff_wrong_width : forall T D (N : Num T) (V : Data T D) sc ns dt t0 fill s rtx rrx ss,
  tfm_for_view_nd N V sc ns dt t0 fill s rtx rrx None ss = None <->
  Exists (fun row => length row <> shape_size s) (r_times rtx) \/
  Exists (fun row => length row <> shape_size s) (r_times rrx).
Proof. intros T D N V. exact (tfm_for_view_nd_noamp_raises_iff N V). Qed.

(* with amplitudes: a wrong width, or the core call raises (amplitude tables of another shape, an
   interpolation the amplitude kernels do not have) *)
Theorem tfm_for_view_raises_iff : forall T D (N : Num T) (V : Data T D) sc ns dt t0 fill s rtx rrx amps ss,
  tfm_for_view_nd N V sc ns dt t0 fill s rtx rrx amps ss = None <->
  Exists (fun row => length row <> shape_size s) (r_times rtx) \/
  Exists (fun row => length row <> shape_size s) (r_times rrx) \/
  tfm_for_view N V sc ns dt t0 fill (shape_size s) rtx rrx amps ss = None.
Proof. intros T D N V. exact (tfm_for_view_nd_raises_iff N V). Qed.

(* correctly sized ray times, with or without amplitudes: the call is the core call on the columns
   followed by reshape(grid.shape), one value per column *)
Theorem tfm_for_view_any_shape_amplitudes : forall T D (N : Num T) (V : Data T D) sc ns dt t0 fill s rtx rrx amps ss,
  Forall (fun row => length row = shape_size s) (r_times rtx) ->
  Forall (fun row => length row = shape_size s) (r_times rrx) ->
  tfm_for_view_nd N V sc ns dt t0 fill s rtx rrx amps ss
  = option_map (nd_reshape (dzero V) s) (tfm_for_view N V sc ns dt t0 fill (shape_size s) rtx rrx amps ss)
  /\ forall res, tfm_for_view N V sc ns dt t0 fill (shape_size s) rtx rrx amps ss = Some res ->
       length res = shape_size s.
Proof.
  intros T D N V sc ns dt t0 fill s rtx rrx amps ss Htx Hrx.
  exact (conj (tfm_for_view_nd_eq N V sc ns dt t0 fill s rtx rrx amps ss Htx Hrx)
              (fun res => tfm_for_view_length N V sc ns dt t0 fill (shape_size s) rtx rrx amps ss res Htx)).
Qed.

(* ---- a pixel does not depend on the pixels imaged with it ------------------------------- *)
(* two calls of delay_and_sum on the same frame, weights and options: pixels whose rows of the
   focal-law tables coincide have the same value, whatever the other rows and their positions *)
Theorem pixel_independent_of_other_pixels : forall T D (N : Num T) (V : Data T D)
    sc ns dt t0 fill w ss ltx lrx amps img ltx' lrx' amps' img' k k',
  delay_and_sum N V sc ns dt t0 fill w ltx lrx amps ss = Some img ->
  delay_and_sum N V sc ns dt t0 fill w ltx' lrx' amps' ss = Some img' ->
  has_amps amps = has_amps amps' ->
  row_at ltx lrx amps k = row_at ltx' lrx' amps' k' ->
  nth_error img k = nth_error img' k'.
Proof. intros T D N V. exact (pixel_independence N V). Qed.

(* block-wise imaging: the image of a concatenation of point lists is the concatenation of the images *)
Theorem contact_tfm_blockwise : forall T D (N : Num T) (V : Data T D) sc ns dt t0 fill wa g1 g2 probe v ss,
  contact_tfm N V sc ns dt t0 fill wa (g1 ++ g2) probe v None ss
  = match contact_tfm N V sc ns dt t0 fill wa g1 probe v None ss,
          contact_tfm N V sc ns dt t0 fill wa g2 probe v None ss with
    | Some a, Some b => Some (a ++ b)
    | _, _ => None
    end.
Proof. intros T D N V. exact (contact_tfm_app N V). Qed.

(* imaging a sub-list of the points (any selection, repetition and order) gives the sub-list of the values *)
Theorem contact_tfm_sublist : forall T D (N : Num T) (V : Data T D) sc ns dt t0 fill wa grid probe v ss img idx sub,
  contact_tfm N V sc ns dt t0 fill wa grid probe v None ss = Some img ->
  take_idx idx grid = Some sub ->
  contact_tfm N V sc ns dt t0 fill wa sub probe v None ss = take_idx idx img.
Proof. intros T D N V. exact (contact_tfm_take N V). Qed.

Theorem tfm_for_view_sublist : forall T D (N : Num T) (V : Data T D) sc ns dt t0 fill p rtx rrx ss img idx ttx' trx',
  Forall (fun row => length row = p) (r_times rtx) -> Forall (fun row => length row = p) (r_times rrx) ->
  tfm_for_view N V sc ns dt t0 fill p rtx rrx None ss = Some img ->
  take_cols idx (r_times rtx) = Some ttx' -> take_cols idx (r_times rrx) = Some trx' ->
  (forall i, In i idx -> i < p) ->
  tfm_for_view N V sc ns dt t0 fill (length idx) (mkRays ttx' []) (mkRays trx' []) None ss = take_idx idx img.
Proof. intros T D N V. exact (tfm_for_view_take N V). Qed.

(* ---- default_timetrace_weights on ARBITRARY frames -------------------------------------- *)
(* REPAIR of the model (run-time tie): ut.default_timetrace_weights([], []) raises "ValueError:
   Iteration of zero-sized operands is not enabled" (np.nditer over np.ones(0), ut.py:148-151); the
   model used to answer Some [].  default_weights_z [] [] is now None:
     default_weights_arbitrary_frames   statement unchanged (its hypothesis `= Some w` now excludes
                                        the empty frame as well)
     default_weights_length_check       OLD  None <-> length tx <> length rx
                                        NEW  None <-> length tx <> length rx \/ (tx = [] /\ rx = [])
     default_weights_defined_iff        NEW  a value exactly on non-empty lists of equal lengths
     default_weights_empty_frame_raises NEW
     default_weights_values_are_model   gains the hypothesis l <> []: on the empty frame the total
                                        function of C15 answers [] where the library raises *)
(* any tx / rx lists of integers (any values, repeated pairs, any order, any subset of the matrix):
   timetrace k gets 1 exactly when the pair (rx[k], tx[k]) occurs somewhere in the frame, else 2 *)
Theorem default_weights_arbitrary_frames : forall tx rx w,
  default_weights_z tx rx = Some w ->
  length w = length tx /\
  forall k a b, nth_error tx k = Some a -> nth_error rx k = Some b ->
    (In (b, a) (combine tx rx) -> nth_error w k = Some 1%Z) /\
    (~ In (b, a) (combine tx rx) -> nth_error w k = Some 2%Z).
Proof. exact default_weights_z_spec. Qed.

Theorem default_weights_length_check : forall tx rx,
  default_weights_z tx rx = None <-> length tx <> length rx \/ (tx = [] /\ rx = []).
Proof. exact default_weights_z_raises. Qed.

Theorem default_weights_defined_iff : forall tx rx,
  (exists w, default_weights_z tx rx = Some w) <-> length tx = length rx /\ tx <> [].
Proof. exact default_weights_z_defined. Qed.

Theorem default_weights_empty_frame_raises : default_weights_z [] [] = None.
Proof. exact default_weights_z_empty. Qed.

(* independent of the storage order: the weights travel with the timetraces *)
Theorem default_weights_order_independent : forall tx rx tx' rx' w w',
  Permutation (combine tx rx) (combine tx' rx') ->
  default_weights_z tx rx = Some w -> default_weights_z tx' rx' = Some w' ->
  Permutation (combine (combine tx rx) w) (combine (combine tx' rx') w').
Proof. exact default_weights_z_perm. Qed.

(* on element indices (non-negative) it is the model of C15 that hmc_eq_fmc uses *)
Theorem default_weights_values_are_model : forall l : list (nat * nat),
  l <> [] ->
  default_weights_z (map (fun p => Z.of_nat (fst p)) l) (map (fun p => Z.of_nat (snd p)) l)
  = Some (map Z.of_nat (default_timetrace_weights l)).
Proof. exact default_weights_z_nat. Qed.

(* ---- memory order of the ray times ------------------------------------------------------ *)
(* `.T` is the transposed table for C- and for Fortran-ordered arrays (no condition on the buffer);
   np.ascontiguousarray / np.asfortranarray keep the logical content *)
Theorem transposed_view_is_transpose : forall A (dflt : A) (a : arr2 A),
  a_rows dflt (a_T a) = transpose (a_p a) (a_rows dflt a).
Proof. exact @a_rows_T. Qed.

Theorem memory_copies_keep_content : forall A (dflt : A) (a : arr2 A),
  a_rows dflt (a_ascontiguous dflt a) = a_rows dflt a /\ a_rows dflt (a_asfortran dflt a) = a_rows dflt a.
Proof. intros A dflt a. exact (conj (a_rows_ascontiguous dflt a) (a_rows_asfortran dflt a)). Qed.

(* tfm_for_view reads the LOGICAL table: lookup_times[point][element] = times[element][point] *)
Theorem tfm_for_view_memory_order : forall T D (N : Num T) (V : Data T D) sc ns dt t0 fill p ttx trx amps ss,
  a_p ttx = p -> a_p trx = p ->
  tfm_for_view_mem N V sc ns dt t0 fill ttx trx amps ss
  = tfm_for_view N V sc ns dt t0 fill p (mkRays (a_rows (n0 N) ttx) []) (mkRays (a_rows (n0 N) trx) []) amps ss.
Proof. intros T D N V. exact (tfm_for_view_mem_logical N V). Qed.

(* ray tracing with convert_to_fortran_order=True or False: same image *)
Theorem tfm_for_view_fortran_rays : forall T D (N : Num T) (V : Data T D) sc ns dt t0 fill ttx trx amps ss,
  tfm_for_view_mem N V sc ns dt t0 fill (a_asfortran (n0 N) ttx) (a_asfortran (n0 N) trx) amps ss
  = tfm_for_view_mem N V sc ns dt t0 fill ttx trx amps ss.
Proof. intros T D N V. exact (tfm_for_view_fortran N V). Qed.

(* ---- an explicit timetrace_weights argument --------------------------------------------- *)
Theorem explicit_weights_one_per_timetrace : forall T D (N : Num T) (V : Data T D) sc ns dt t0 fill w grid probe v amps ss,
  length w = length ss ->
  contact_tfm_x N V sc ns dt t0 fill (XArray w) grid probe v amps ss
  = glue_of_option (contact_tfm N V sc ns dt t0 fill (WGiven w) grid probe v amps ss).
Proof. intros T D N V. exact (contact_tfm_x_matching N V). Qed.

(* a float, or a list of one value: broadcast to every timetrace *)
Theorem explicit_weights_single_value : forall T D (N : Num T) (V : Data T D) sc ns dt t0 fill w0 grid probe v amps ss,
  contact_tfm_x N V sc ns dt t0 fill (XArray [w0]) grid probe v amps ss
  = glue_of_option (contact_tfm N V sc ns dt t0 fill (WGiven (repeat w0 (length ss))) grid probe v amps ss)
  /\ contact_tfm_x N V sc ns dt t0 fill (XScalar w0) grid probe v amps ss
     = contact_tfm_x N V sc ns dt t0 fill (XArray [w0]) grid probe v amps ss.
Proof. intros T D N V. exact (contact_tfm_x_single N V). Qed.

Theorem explicit_weights_wrong_length_raises : forall T D (N : Num T) (V : Data T D) sc ns dt t0 fill w grid probe v amps ss,
  length w <> length ss -> length w <> 1 -> length ss <> 1 ->
  contact_tfm_x N V sc ns dt t0 fill (XArray w) grid probe v amps ss = GRaise.
Proof. intros T D N V. exact (contact_tfm_x_mismatch N V). Qed.

(* FINDING (recorded, explicit weights are outside the statement of C12): the only way to reach
   the kernel with a number of weighted rows different from len(frame.tx) — out-of-bounds reads of
   tx / rx, observed as a segmentation fault or as garbage — is a frame of exactly ONE timetrace
   with a weight list of length 0 or >= 2 in a call that would otherwise succeed *)
Theorem explicit_weights_shape_drift_iff : forall T D (N : Num T) (V : Data T D) sc ns dt t0 fill wx grid probe v amps ss,
  contact_tfm_x N V sc ns dt t0 fill wx grid probe v amps ss = GShapeDrift
  <-> exists w, wx = XArray w /\ length ss = 1 /\ length w <> 1 /\
                contact_tfm N V sc ns dt t0 fill WNone grid probe v amps ss <> None.
Proof. intros T D N V. exact (contact_tfm_x_drift_iff N V). Qed.

(* ---- the warning branches ---------------------------------------------------------------- *)
Theorem expanded_frame_never_warns : forall D (ss e : list (scan D)) amps,
  expand_frame ss = Some e -> tfm_for_view_warns e = false /\ contact_tfm_warns amps e = false.
Proof. exact @expanded_frame_no_warning. Qed.

Local Open Scope R_scope.
(* ---- re-ordering the timetraces (over R) ------------------------------------------------- *)
(* default weights are recomputed from the re-ordered frame: same image, with or without amplitudes *)
Theorem timetrace_order_irrelevant_default : forall D (V : Data R D), DataLaws V ->
  forall sc ns dt t0 fill grid probe v amps ss ss',
  Permutation ss ss' ->
  contact_tfm NumR V sc ns dt t0 fill WDefault grid probe v amps ss
  = contact_tfm NumR V sc ns dt t0 fill WDefault grid probe v amps ss'.
Proof. intros D V L. exact (contact_tfm_perm_default V L). Qed.

(* explicit weights re-ordered together with their timetraces *)
Theorem timetrace_order_irrelevant_given : forall D (V : Data R D), DataLaws V ->
  forall sc ns dt t0 fill grid probe v amps ss ss' w w',
  length w = length ss -> length w' = length ss' ->
  Permutation (combine ss w) (combine ss' w') ->
  contact_tfm NumR V sc ns dt t0 fill (WGiven w) grid probe v amps ss
  = contact_tfm NumR V sc ns dt t0 fill (WGiven w') grid probe v amps ss'.
Proof. intros D V L. exact (contact_tfm_perm_given V L). Qed.

Theorem timetrace_order_irrelevant_view : forall D (V : Data R D), DataLaws V ->
  forall sc ns dt t0 fill p rtx rrx amps ss ss',
  Permutation ss ss' ->
  tfm_for_view NumR V sc ns dt t0 fill p rtx rrx amps ss
  = tfm_for_view NumR V sc ns dt t0 fill p rtx rrx amps ss'.
Proof. intros D V L. exact (tfm_for_view_perm V L). Qed.

(* on a frame complete under reciprocity (FMC, any expanded frame) "default" weights = no weights *)
Theorem default_weights_on_complete_frame : forall D (V : Data R D), DataLaws V ->
  forall sc ns dt t0 fill grid probe v amps ss,
  frame_complete ss = true ->
  contact_tfm NumR V sc ns dt t0 fill WDefault grid probe v amps ss
  = contact_tfm NumR V sc ns dt t0 fill WNone grid probe v amps ss.
Proof. intros D V L. exact (contact_tfm_default_complete V L). Qed.

(* ---- TfmResult.maximum_intensity_in_rectbox ---------------------------------------------- *)
(* the box is closed on every given side, unbounded on every side left to None *)
Theorem rectbox_is_closed_box : forall b x y z,
  in_rectbox NumR b (x, y, z) = true <->
  (forall m, b_xmin b = Some m -> m <= x) /\ (forall m, b_xmax b = Some m -> x <= m) /\
  (forall m, b_ymin b = Some m -> m <= y) /\ (forall m, b_ymax b = Some m -> y <= m) /\
  (forall m, b_zmin b = Some m -> m <= z) /\ (forall m, b_zmax b = Some m -> z <= m).
Proof. exact in_rectbox_spec. Qed.

(* the value returned is |pixel| of a grid point of the box and no grid point of the box has a
   greater |pixel| (real or complex samples: dabs is any function) *)
Theorem maximum_intensity_is_max_in_box : forall D (dabs : D -> R) grid res b M,
  maximum_intensity_in_rectbox NumR no_nan dabs grid res b = Some M <->
  (exists k q v, nth_error grid k = Some q /\ nth_error res k = Some v /\ in_rectbox NumR b q = true /\ dabs v = M) /\
  (forall k q v, nth_error grid k = Some q -> nth_error res k = Some v -> in_rectbox NumR b q = true -> dabs v <= M).
Proof. exact @max_intensity_spec. Qed.

(* ValueError exactly when no grid point lies in the box *)
Theorem maximum_intensity_empty_box : forall D (dabs : D -> R) grid res b,
  maximum_intensity_in_rectbox NumR no_nan dabs grid res b = None <->
  (forall k q v, nth_error grid k = Some q -> nth_error res k = Some v -> in_rectbox NumR b q = false).
Proof. exact @max_intensity_none. Qed.

(* on the N-d image and grid of a TfmResult it is the 1-d statement on their C-order lists *)
Theorem maximum_intensity_any_shape : forall T D (N : Num T) isnan (dabs : D -> T) d
    (grid : ndt (T * T * T) d) (res : ndt D d) b,
  maximum_intensity_in_rectbox_nd N isnan dabs d grid res b
  = maximum_intensity_in_rectbox N isnan dabs (nd_flatten d grid) (nd_flatten d res) b.
Proof. intros T D N. exact (maximum_intensity_nd_flat N). Qed.

(* np.abs on real and complex samples is absolutely homogeneous ... *)
Theorem abs_is_homogeneous :
  (forall c v, abs_real NumR (dscale (DataReal NumR) c v) = Rabs c * abs_real NumR v) /\
  (forall c v, abs_cplx NumR (dscale (DataCplx NumR) c v) = Rabs c * abs_cplx NumR v).
Proof. exact (conj abs_real_scale abs_cplx_scale). Qed.

(* ... hence HMC = FMC carries over to the maximum intensity of any area (None = the whole image):
   N_hmc * max|I_hmc| = N_fmc * max|I_fmc| *)
Theorem maximum_intensity_hmc_fmc : forall D (V : Data R D), DataLaws V -> forall (dabs : D -> R)
    sc ns dt t0 grid probe v (g : nat -> nat -> list D) n area,
  (forall c x, dabs (dscale V c x) = Rabs c * dabs x) ->
  (forall i j, g i j = g j i) ->
  exists Ih If,
    contact_tfm NumR V sc ns dt t0 (dzero V) WDefault grid probe v None (frame_of g (hmc n)) = Some Ih /\
    contact_tfm NumR V sc ns dt t0 (dzero V) WDefault grid probe v None (frame_of g (fmc n)) = Some If /\
    option_map (Rmult (INR (length (hmc n)))) (maximum_intensity_in_area NumR no_nan dabs Ih area)
    = option_map (Rmult (INR (n * n))) (maximum_intensity_in_area NumR no_nan dabs If area).
Proof. intros D V L dabs. exact (hmc_fmc_max_intensity_contact V L dabs). Qed.

(* ---- non-vacuity: the glue model computes (exact rationals; every value below was replayed on
   the real library, see notes/prover_C12_TIE.md) ------------------------------------------- *)
Local Close Scope R_scope.
Local Open Scope Q_scope.
(* a Points object of shape (2, 1, 3); distances to the elements (0,0,0), (3,0,0) are rational *)
Definition ex_grid3 : ndt (Q * Q * Q) 3 :=
  [[[(0, 0, 4); (0, 0, 0); (8, 0, 0)]]; [[(1, 0, 0); (-4, 0, 0); (0, 4, 0)]]].

Example glue_grid_shape : nd_okb [2; 1; 3]%nat ex_grid3 = true
  /\ nd_flatten 3 ex_grid3 = [(0, 0, 4); (0, 0, 0); (8, 0, 0); (1, 0, 0); (-4, 0, 0); (0, 4, 0)]
  /\ ravel [2; 1; 3]%nat [1; 0; 2]%nat = Some 5%nat /\ ravel [2; 1; 3]%nat [1; 1; 0]%nat = None
  /\ np_reshape 0 [3; 2]%nat [10; 11; 12; 13; 14] = None.
Proof. vm_compute. repeat split; reflexivity. Qed.

Example glue_contact_nd :
  contact_tfm_nd NumQ (DataReal NumQ) Nearest 12 1 0 0 WDefault [2; 1; 3]%nat ex_grid3 ex_probe 1 None (frame_of ex_g (fmc 2))
  = Some [[[83 # 2; 71 # 2; 30]]; [[71 # 2; 25 # 2; 83 # 2]]]
  /\ contact_tfm_nd NumQ (DataReal NumQ) Linear 12 1 (1 # 2) (-7) WDefault [2; 1; 3]%nat ex_grid3 ex_probe 1 None (frame_of ex_g (hmc 2))
     = Some [[[164 # 3; 89 # 2; 211 # 6]]; [[140 # 3; 83 # 6; 164 # 3]]].
Proof. vm_compute. split; reflexivity. Qed.

(* a sub-list of the points, in another order and with a repetition *)
Example glue_sublist :
  contact_tfm NumQ (DataReal NumQ) Nearest 12 1 0 0 WDefault [(-4, 0, 0); (0, 0, 4); (-4, 0, 0)] ex_probe 1 None (frame_of ex_g (fmc 2))
  = take_idx [4; 0; 4]%nat [83 # 2; 71 # 2; 30; 71 # 2; 25 # 2; 83 # 2].
Proof. vm_compute. reflexivity. Qed.

Example glue_default_weights :
  default_weights_z [0; 0; 2; 1]%Z [0; 1; 1; 0]%Z = Some [1; 1; 2; 1]%Z
  /\ default_weights_z [0; 0; 0]%Z [1; 1; 0]%Z = Some [2; 2; 1]%Z
  /\ default_weights_z [5; -3; 7; 7]%Z [7; 5; 5; -3]%Z = Some [1; 2; 1; 2]%Z
  /\ default_weights_z [0; 0; 0]%Z [1; 1]%Z = None
  /\ default_weights_z [] [] = None /\ default_weights_z [] [1]%Z = None.
Proof. vm_compute. repeat split; reflexivity. Qed.

(* C- and Fortran-ordered ray times (2 elements x 2 grid points) *)
Example glue_memory_order :
  let tC := mkArr2 2 2 false [4; 5; 5; 4] in let rC := mkArr2 2 2 false [1; 2; 3; 1] in
  a_asfortran 0 (mkArr2 2 3 false [1; 2; 3; 4; 5; 6]) = mkArr2 2 3 true [1; 4; 2; 5; 3; 6]
  /\ a_rows 0 (a_T (mkArr2 2 3 true [1; 4; 2; 5; 3; 6])) = [[1; 4]; [2; 5]; [3; 6]]
  /\ tfm_for_view_mem NumQ (DataReal NumQ) Linear 12 1 (1 # 2) 0 tC rC None (frame_of ex_g (fmc 2)) = Some [77 # 2; 38]
  /\ tfm_for_view_mem NumQ (DataReal NumQ) Linear 12 1 (1 # 2) 0 (a_asfortran 0 tC) rC None (frame_of ex_g (fmc 2)) = Some [77 # 2; 38]
  /\ tfm_for_view_nd NumQ (DataReal NumQ) Linear 12 1 (1 # 2) 0 [2; 1]%nat (mkRays [[4; 5]; [5; 4]] []) (mkRays [[1; 2]; [3; 1]] []) None
                     (frame_of ex_g (fmc 2)) = Some [[77 # 2]; [38]]
  (* fewer / more grid points than columns of the ray times, tables of different widths: the library raises *)
  /\ tfm_for_view_nd NumQ (DataReal NumQ) Linear 12 1 (1 # 2) 0 [1]%nat (mkRays [[4; 5]; [5; 4]] []) (mkRays [[1; 2]; [3; 1]] []) None
                     (frame_of ex_g (fmc 2)) = None
  /\ tfm_for_view_nd NumQ (DataReal NumQ) Linear 12 1 (1 # 2) 0 [3]%nat (mkRays [[4; 5]; [5; 4]] []) (mkRays [[1; 2]; [3; 1]] []) None
                     (frame_of ex_g (fmc 2)) = None
  /\ tfm_for_view_nd NumQ (DataReal NumQ) Linear 12 1 (1 # 2) 0 [1]%nat (mkRays [[4]; [5]] []) (mkRays [[1; 2]; [3; 1]] []) None
                     (frame_of ex_g (fmc 2)) = None.
Proof. vm_compute. repeat split; reflexivity. Qed.

Example glue_explicit_weights :
  let run wx ss := contact_tfm_x NumQ (DataReal NumQ) Nearest 12 1 0 0 wx ex_grid ex_probe 1 None ss in
  run (XArray [2]) (frame_of ex_g (fmc 2)) = GOk [83; 83]
  /\ run (XScalar 2) (frame_of ex_g (fmc 2)) = GOk [83; 83]
  /\ run (XArray [1; 2; 3; 4]) (frame_of ex_g (fmc 2)) = GOk [583 # 4; 577 # 4]
  /\ run (XArray [1; 1; 1]) (frame_of ex_g (fmc 2)) = GRaise
  /\ run XNd (frame_of ex_g (fmc 2)) = GRaise
  /\ run (XArray [3]) (frame_of ex_g [(0, 1)%nat]) = GOk [57; 57]
  /\ run (XArray [1; 1; 1]) (frame_of ex_g [(0, 1)%nat]) = GShapeDrift.
Proof. vm_compute. repeat split; reflexivity. Qed.

Example glue_maximum_intensity :
  let nn := fun _ : Q => false in
  maximum_intensity_in_rectbox NumQ nn (abs_real NumQ) ex_grid [1; -5] (mkBox None None None None None None) = Some 5
  /\ maximum_intensity_in_rectbox NumQ nn (abs_real NumQ) ex_grid [1; -5] (mkBox (Some 0) (Some 0) None None None None) = Some 1
  /\ maximum_intensity_in_rectbox NumQ nn (abs_real NumQ) ex_grid [1; -5] (mkBox (Some 3) None None None None None) = Some 5
  /\ maximum_intensity_in_rectbox NumQ nn (abs_real NumQ) ex_grid [1; -5] (mkBox (Some 10) None None None None None) = None
  /\ maximum_intensity_in_rectbox NumQ nn (abs_cplx NumQ) ex_grid [(3, 4); (-5, 0)] (mkBox None (Some 0) None None None None) = Some 5
  /\ maximum_intensity_in_rectbox_nd NumQ nn (abs_real NumQ) 3 ex_grid3 [[[1; -5; 2]]; [[-9; 3; 4]]]
                                     (mkBox None (Some 0) None None None None) = Some 5.
Proof. vm_compute. repeat split; reflexivity. Qed.

Example glue_warnings :
  tfm_for_view_warns (frame_of ex_g (hmc 2)) = true /\ tfm_for_view_warns (frame_of ex_g (fmc 2)) = false
  /\ contact_tfm_warns None (frame_of ex_g (hmc 2)) = false
  /\ contact_tfm_warns (Some ([[1; 1]], [[1; 1]])) (frame_of ex_g (hmc 2)) = true.
Proof. vm_compute. repeat split; reflexivity. Qed.

(* the HMC frame stored in another order images alike; N_hmc * max|I_hmc| = N_fmc * max|I_fmc| *)
Example glue_permuted_frame :
  contact_tfm NumQ (DataReal NumQ) Nearest 12 1 0 0 WDefault ex_grid ex_probe 1 None (frame_of ex_g [(1, 1); (0, 1); (0, 0)]%nat)
  = Some [166 # 3; 166 # 3]
  /\ maximum_intensity_in_area NumQ (fun _ => false) (abs_real NumQ) [166 # 3; 166 # 3] None = Some (166 # 3)
  /\ maximum_intensity_in_area NumQ (fun _ => false) (abs_real NumQ) [83 # 2; 83 # 2] None = Some (83 # 2)
  /\ Qeq_bool (3 * (166 # 3)) (4 * (83 # 2)) = true.
Proof. vm_compute. repeat split; reflexivity. Qed.
