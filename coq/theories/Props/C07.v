(* Props/C07.v — Receive-side (reverse) terms equal transmit-side terms of the reversed
   path.  Statements only (proofs: Proofs/WeightsProofs.v, Proofs/BeamspreadProofs.v).
   Hypothesis common to the first two theorems, as in the property ("for rays obeying
   Snell's law"): the incidence angle of the REVERSED ray at every interior interface is
   the Snell image of the forward incidence angle at that interface.  That the reversed
   ray's incidence angle is the forward ray's outgoing angle is C05 (inc_is_out_of_reverse). *)
From Coq Require Import List Reals Lra.
From Arim Require Import Base.Num Base.NumR Model.Interface Model.Weights Model.Beamspread
                         Proofs.WeightsProofs Proofs.BeamspreadProofs.
Import ListNotations.
Local Open Scope R_scope.

(* transmission/reflection product, stress and displacement units, every interface kind /
   mode combination (factors that make the code raise included: both sides raise), complex
   coefficients (angles beyond the critical angles): the reverse function applied to a path
   equals the direct function applied to the reversed path (interfaces reversed, kinds
   reversed for transmissions, materials and modes reversed) whose incidence angles are the
   Snell images computed by `reverse_angle` *)
Theorem rev_transrefl_eq : forall u (l : list (iface (K := R * R))),
  reverse_transrefl_for_path (NumC NumR) u l
  = transrefl_for_path (NumC NumR) u (path_reverse l (map (reverse_angle (NumC NumR)) (rev l))).
Proof. exact rev_transrefl_eq_C. Qed.

(* the same in ANY coefficient structure whose multiplication is commutative and
   associative; no other law is used (factor by factor the calls are identical) *)
Theorem rev_transrefl_eq_any_field : forall (K : Type) (N : Num K),
  (forall a b : K, nmul N a b = nmul N b a) ->
  (forall a b c : K, nmul N (nmul N a b) c = nmul N a (nmul N b c)) ->
  forall u (l : list (iface (K := K))),
  reverse_transrefl_for_path N u l
  = transrefl_for_path N u (path_reverse l (map (reverse_angle N) (rev l))).
Proof. exact @rev_transrefl_eq_gen. Qed.

Theorem rev_transrefl_factorwise : forall (K : Type) (N : Num K) u (x : iface (K := K)),
  tr_reverse N u x = tr_forward N u (iface_reverse x (reverse_angle N x)).
Proof. exact @tr_reverse_is_forward_of_reversed. Qed.

(* beamspread, any number of legs: rthetas' = incidence angles of the reversed path in its
   own order, each with sin th' = (v_next / v_prev) sin th (Snell) and cos th' <> 0 *)
Theorem rev_beamspread_eq : forall vel legs thetas rthetas',
  snell_images (rev vel) (rev thetas) rthetas' -> length thetas = length rthetas' ->
  reverse_beamspread NumR vel legs thetas = beamspread NumR (rev vel) (rev legs) rthetas'.
Proof. exact reverse_beamspread_eq. Qed.

(* material attenuation is identical in the two directions *)
Theorem attenuation_symmetric : forall atts legs, length atts = length legs ->
  attenuation NumR (rev atts) (rev legs) = attenuation NumR atts legs.
Proof. exact attenuation_reverse. Qed.

(* non-vacuity: the premises are satisfiable (one interface, velocities 1 -> 2, normal
   incidence; oblique examples are exercised by harness/prop_C07.py on the real code) *)
Example snell_images_example : snell_images (rev [1; 2]) (rev [0]) [0].
Proof.
  simpl. rewrite sin_0, cos_0. repeat split; lra.
Qed.
