(* Props/C07.v — Receive-side (reverse) terms equal transmit-side terms of the reversed
   path.  Statements only (proofs: Proofs/WeightsProofs.v, Proofs/BeamspreadProofs.v).
   Hypothesis common to the first two theorems, as in the property ("for rays obeying
   Snell's law"): the incidence angle of the REVERSED ray at every interior interface is
   the Snell image of the forward incidence angle at that interface.  That the reversed
   ray's incidence angle is the forward ray's outgoing angle is C05 (inc_is_out_of_reverse). *)
From Coq Require Import List Reals Lra.
From Arim Require Import Base.Num Base.NumR Model.Interface Model.Weights Model.Beamspread
                         Proofs.WeightsProofs Proofs.BeamspreadProofs.
Import ListNotations.
Local Open Scope R_scope.

(* transmission/reflection product, stress and displacement units, every interface kind /
   mode combination (factors that make the code raise included: both sides raise), complex
   coefficients (angles beyond the critical angles): the reverse function applied to a path
   equals the direct function applied to the reversed path (interfaces reversed, kinds
   reversed for transmissions, materials and modes reversed) whose incidence angles are the
   Snell images computed by `reverse_angle` *)
Theorem rev_transrefl_eq : forall u (l : list (iface (K := R * R))),
  reverse_transrefl_for_path (NumC NumR) u l
  = transrefl_for_path (NumC NumR) u (path_reverse l (map (reverse_angle (NumC NumR)) (rev l))).
Proof. exact rev_transrefl_eq_C. Qed.

(* the same in ANY coefficient structure whose multiplication is commutative and
   associative; no other law is used (factor by factor the calls are identical) *)
Theorem rev_transrefl_eq_any_field : forall (K : Type) (N : Num K),
  (forall a b : K, nmul N a b = nmul N b a) ->
  (forall a b c : K, nmul N (nmul N a b) c = nmul N a (nmul N b c)) ->
  forall u (l : list (iface (K := K))),
  reverse_transrefl_for_path N u l
  = transrefl_for_path N u (path_reverse l (map (reverse_angle N) (rev l))).
Proof. exact @rev_transrefl_eq_gen. Qed.

Theorem rev_transrefl_factorwise : forall (K : Type) (N : Num K) u (x : iface (K := K)),
  tr_reverse N u x = tr_forward N u (iface_reverse x (reverse_angle N x)).
Proof. exact @tr_reverse_is_forward_of_reversed. Qed.

(* beamspread, any number of legs: rthetas' = incidence angles of the reversed path in its
   own order, each with sin th' = (v_next / v_prev) sin th (Snell) and cos th' <> 0 *)
Theorem rev_beamspread_eq : forall vel legs thetas rthetas',
  snell_images (rev vel) (rev thetas) rthetas' -> length thetas = length rthetas' ->
  reverse_beamspread NumR vel legs thetas = beamspread NumR (rev vel) (rev legs) rthetas'.
Proof. exact reverse_beamspread_eq. Qed.

(* material attenuation is identical in the two directions *)
Theorem attenuation_symmetric : forall atts legs, length atts = length legs ->
  attenuation NumR (rev atts) (rev legs) = attenuation NumR atts legs.
Proof. exact attenuation_reverse. Qed.

(* non-vacuity: the premises are satisfiable (one interface, velocities 1 -> 2, normal
   incidence; oblique examples are exercised by harness/prop_C07.py on the real code) *)
Example snell_images_example : snell_images (rev [1; 2]) (rev [0]) [0].
Proof.
  simpl. rewrite sin_0, cos_0. repeat split; lra.
Qed.

(* ====================================================================================== *)
(* EXTENSION: the objects (Interface / Path / RayGeometry), their reversal, and the three
   functions as the LOOPS of the source with the source's index arithmetic
   (Model/PathReverse.v; proofs in Proofs/PathReverseProofs.v, Proofs/PathReverseGeomProofs.v).
   The theorems above are about the list-level kernels (interfaces already zipped with what
   the loops read, angles of the reversed path GIVEN as the Snell images); the theorems below
   put the zipping, the indices, Path.reverse() / Interface.reverse() / the reversed
   RayGeometry, the unit strings, force_complex and the error branches inside the model, and
   discharge the Snell hypothesis from the ray's own outgoing angles.

   REPAIRED after the run-time tie (harness/ties/tie_C07.py) on two points where the model
   misrepresented the code; the statements that changed say so:
   (1) a fluid's transverse velocity is None (pm_vt : option, Path.velocities may hold None) and
       reverse_transmission_reflection_for_path raises the TypeError of snell_angles(…, None, …)
       BEFORE the per-interface helper checks the unit / the kind / reflection_against;
   (2) the ray-geometry record holds conventional_inc_angle(1..n) — the LAST interface included,
       which a path longer than the ray geometry reads — and conventional_out_angle(0..n-1). *)
From Coq Require Import String.
From Coq Require Import List ZArith Arith Lia.
From Arim Require Import Model.PathReverse Proofs.PathReverseProofs Proofs.PathReverseGeomProofs.
From Arim Require Model.Vec3 Model.RayGeom Proofs.RayGeomProofs.

(* ---- 1. the loops with the source's indices ARE the list-level kernels (every Num instance,
        floats included: no algebraic law is used) ---- *)
Theorem beamspread_loop_is_kernel : forall T (N : Num T) (rg : raygeom T) n, rg_wf rg n ->
  beamspread_idx N rg = Ok (beamspread N (rg_vel rg) (rg_leg rg) (rg_inc rg)).
Proof. exact @beamspread_idx_eq. Qed.

(* changed by repair (2): the kernel takes the angles the loop reads, conventional_inc_angle(1..n-1)
   = rg_inc_interior rg (rg_inc rg had exactly these entries before; in the direct kernel above the
   additional last angle is ignored by gamma_list) *)
Theorem reverse_beamspread_loop_is_kernel : forall T (N : Num T) (rg : raygeom T) n, rg_wf rg n ->
  reverse_beamspread_idx N rg = Ok (reverse_beamspread N (rg_vel rg) (rg_leg rg) (rg_inc_interior rg)).
Proof. exact @reverse_beamspread_idx_eq. Qed.

Theorem attenuation_loop_is_kernel : forall T (N : Num T) (p : ppath T) rg n frequency,
  rg_wf rg n -> length (pp_materials p) = n -> length (pp_modes p) = n ->
  material_attenuation_path N p rg frequency
  = Ok (attenuation N (att_coeffs_of_path p frequency) (rg_leg rg)).
Proof. exact @material_attenuation_path_eq. Qed.

(* changed by repair (1): `view_path` is defined only when, besides what it required before, the
   materials in the solid role of every interior interface have a transverse velocity (the list-level
   kernels have no None velocity; without it the loops raise, see helper_raises_without_solid_vt) *)
Theorem transrefl_loop_is_kernel : forall T K (NK : Num K) (emb : T -> K) (p : ppath T) rg n u l,
  path_wf p rg n -> view_path emb p rg = Some l ->
  transrefl_path NK emb p rg (Some u) = lift2 (transrefl_for_path NK u l).
Proof. exact @transrefl_path_view. Qed.

(* for the reverse function the conversion to the coefficient dtype must commute with the
   Snell angle of the REFLECTIONS: the code converts to complex before snell_angles at a
   transmission only; at a reflection it takes the real arcsin and converts afterwards *)
Theorem reverse_transrefl_loop_is_kernel : forall T K (N : Num T) (NK : Num K) (emb : T -> K) (p : ppath T) rg n u l,
  path_wf p rg n -> view_path emb p rg = Some l ->
  (forall th a b, emb (snell_angles N th a b) = snell_angles NK (emb th) (emb a) (emb b)) ->
  reverse_transrefl_path N NK emb p rg (Some u) = lift2 (reverse_transrefl_for_path NK u l).
Proof. exact @reverse_transrefl_path_view. Qed.

(* ---- 2. Interface.reverse / Path.reverse / the RayGeometry of the reversed path ---- *)
Theorem interface_reverse_spec : forall T (x y : pinterface T), pint_reverse x = Ok y ->
  pi_points y = pi_points x /\ pi_tr y = pi_tr x /\ pi_against y = pi_against x /\
  pi_inc_side y = pi_out_side x /\ pi_out_side y = pi_inc_side x /\
  pi_kind y = match pi_kind x, pi_tr x with
              | Some k, Some Transmission => Some (ikind_reverse k)
              | k, _ => k
              end /\
  (pi_kind x <> None -> pi_tr x <> None) /\
  (pi_against x <> None <-> pi_tr x = Some Reflection).
Proof. exact @pint_reverse_fields. Qed.

Theorem interface_reverse_raises_iff : forall T (x : pinterface T),
  (exists e, pint_reverse x = Raise e) <->
  ((pi_kind x <> None /\ pi_tr x = None) \/
   (pi_against x <> None /\ pi_tr x <> Some Reflection) \/
   (pi_against x = None /\ pi_tr x = Some Reflection)).
Proof. exact @pint_reverse_raises_iff. Qed.

Theorem interface_reverse_involutive : forall T (x y : pinterface T),
  pint_reverse x = Ok y -> pint_reverse y = Ok x.
Proof. exact @pint_reverse_involutive. Qed.

Theorem path_reverse_spec : forall T (p q : ppath T), ppath_reverse p = Ok q ->
  exists ris, omapM pint_reverse (pp_interfaces p) = Ok ris /\
    pp_interfaces q = rev ris /\ pp_materials q = rev (pp_materials p) /\
    pp_modes q = rev (pp_modes p) /\
    pp_rays q = match pp_rays p with None => None | Some r => Some (rg_reverse r) end /\
    (2 <= length (pp_interfaces p))%nat /\
    length (pp_materials p) = (length (pp_interfaces p) - 1)%nat /\
    length (pp_modes p) = (length (pp_interfaces p) - 1)%nat.
Proof. exact @ppath_reverse_fields. Qed.

Theorem path_reverse_defined_iff : forall T (p : ppath T),
  (exists q, ppath_reverse p = Ok q) <->
  ((exists ris, omapM pint_reverse (pp_interfaces p) = Ok ris) /\
   (2 <= length (pp_interfaces p))%nat /\
   length (pp_materials p) = (length (pp_interfaces p) - 1)%nat /\
   length (pp_modes p) = (length (pp_interfaces p) - 1)%nat).
Proof. exact @ppath_reverse_ok_iff. Qed.

Theorem path_reverse_involutive_objects : forall T (p q : ppath T),
  ppath_reverse p = Ok q -> ppath_reverse q = Ok p.
Proof. exact @ppath_reverse_involutive. Qed.

Theorem ray_geometry_reverse_involutive : forall T (rg : raygeom T), rg_reverse (rg_reverse rg) = rg.
Proof. exact @rg_reverse_involutive. Qed.

(* Path.velocities of the reversed path = the velocities of FermatPath.reverse() *)
Theorem path_reverse_velocities : forall T (p q : ppath T), ppath_reverse p = Ok q ->
  ppath_velocities q = rev (ppath_velocities p).
Proof. exact @ppath_velocities_reverse. Qed.

Theorem ray_geometry_of_reversed_path : forall T (p q : ppath T) rg, ppath_reverse p = Ok q ->
  ray_geometry_from_path p = Ok rg -> ray_geometry_from_path q = Ok (rg_reverse rg).
Proof. exact @PathReverseProofs.ray_geometry_of_reversed_path. Qed.

(* rg_reverse is not an assumption: on the geometric model of C05 (points, local frames,
   normal-side flags, Interface.reverse swapping the flags, the reversed column of point indices)
   the legs of the reversed ray are the reversed legs and its incoming / outgoing conventional
   angles are the outgoing / incoming ones of the ray.  Changed by repair (2): rg_of_geometry reads
   conventional_inc_angle at the interfaces 1..n and conventional_out_angle at 0..n-1 (the interior
   interfaces only before), so `= Ok rg` also requires the inc flag of the last and the out flag of
   the first interface, and the conclusion also covers these two angles *)
Theorem ray_geometry_of_reversed_geometry : forall (ifs : list (RayGeom.iface (T:=R))) ray,
  length ray = length ifs -> forall vels rg,
  rg_of_geometry NumR ifs ray vels = Ok rg ->
  rg_of_geometry NumR (RayGeom.path_reverse ifs) (rev ray) (rev vels) = Ok (rg_reverse rg).
Proof. exact rg_of_geometry_reverse. Qed.

(* ... ray for ray through the index arrays of Rays.reverse(): x[k, i, j] -> y[d - k, j, i] *)
Theorem ray_geometry_of_reversed_rays : forall (ifs : list (RayGeom.iface (T:=R))) n m interior i j r vels rg,
  (length interior + 2 = length ifs)%nat -> RayGeomProofs.interior_shape n m interior ->
  (i < n)%nat -> (j < m)%nat ->
  RayGeom.ray_column (RayGeom.make_indices n m interior) i j = Some r ->
  rg_of_geometry NumR ifs r vels = Ok rg ->
  exists r', RayGeom.ray_column (RayGeom.make_indices m n (RayGeom.rays_reverse_interior m interior)) j i = Some r' /\
             rg_of_geometry NumR (RayGeom.path_reverse ifs) r' (rev vels) = Ok (rg_reverse rg).
Proof. exact rg_of_reversed_rays. Qed.

(* ---- 3. the property on the objects ---- *)
(* any coefficient structure with a commutative, associative product; `snell_frames`: at every
   interior interface the angle the reverse function derives by snell_angles IS the ray's
   conventional outgoing angle (in the coefficient dtype).  Error branches included: if one
   call raises so does the other. *)
Theorem reverse_transrefl_objects_any_field : forall T K (N : Num T) (NK : Num K) (emb : T -> K),
  (forall a b : K, nmul NK a b = nmul NK b a) ->
  (forall a b c : K, nmul NK (nmul NK a b) c = nmul NK a (nmul NK b c)) ->
  forall (p q : ppath T) rg n u,
  ppath_reverse p = Ok q -> path_wf p rg n -> snell_frames N NK emb p rg ->
  same_outcome (reverse_transrefl_path N NK emb p rg u) (transrefl_path NK emb q (rg_reverse rg) u).
Proof. exact @reverse_transrefl_path_eq. Qed.

(* over the reals the hypothesis is Snell's law itself: sin(out) = (v_b / v_a) sin(inc) with the
   outgoing angle in [-pi/2, pi/2]; both dtypes (force_complex), any unit string *)
Theorem reverse_transrefl_objects : forall (p q : ppath R) rg n force_complex unit,
  ppath_reverse p = Ok q -> path_wf p rg n -> snell_path_R p rg ->
  same_outcome (reverse_transmission_reflection_for_path NumR p rg force_complex unit)
               (transmission_reflection_for_path NumR q (rg_reverse rg) force_complex unit).
Proof. exact reverse_transmission_reflection_eq. Qed.

Theorem reverse_beamspread_objects : forall (rg : raygeom R) n, rg_wf rg n -> snell_ray rg n ->
  reverse_beamspread_idx NumR rg = beamspread_idx NumR (rg_reverse rg).
Proof. exact reverse_beamspread_idx_eq_reversed. Qed.

Theorem attenuation_objects : forall (p q : ppath R) rg n frequency,
  ppath_reverse p = Ok q -> path_wf p rg n ->
  material_attenuation_path NumR q (rg_reverse rg) frequency = material_attenuation_path NumR p rg frequency.
Proof. exact material_attenuation_path_reversed. Qed.

(* END TO END, as the property is observed: p with its rays, RayGeometry.from_path(p),
   p.reverse(), RayGeometry.from_path(p.reverse()) *)
(* changed by repair (1): Path.velocities may hold None, the Fermat path's velocities are numbers:
   `map Some (rg_vel rg) = ppath_velocities p` (it was `rg_vel rg = ppath_velocities p`) *)
Theorem receive_side_is_transmit_side_of_reversed_path : forall (p q : ppath R) rg n,
  ppath_reverse p = Ok q -> ray_geometry_from_path p = Ok rg -> path_wf p rg n ->
  map Some (rg_vel rg) = ppath_velocities p -> reflections_in_one_medium p rg -> snell_ray rg n ->
  exists rg', ray_geometry_from_path q = Ok rg' /\ rg' = rg_reverse rg /\
    (forall force_complex unit,
       same_outcome (reverse_transmission_reflection_for_path NumR p rg force_complex unit)
                    (transmission_reflection_for_path NumR q rg' force_complex unit)) /\
    reverse_beamspread_idx NumR rg = beamspread_idx NumR rg' /\
    (forall frequency,
       material_attenuation_path NumR p rg frequency = material_attenuation_path NumR q rg' frequency).
Proof. exact PathReverseProofs.receive_side_is_transmit_side_of_reversed_path. Qed.

(* ---- 4. the unit strings and the error branches ---- *)
Theorem unit_case_insensitive : forall s,
  parse_unit (str_lower s) = parse_unit s /\ parse_unit (str_upper s) = parse_unit s.
Proof. exact parse_unit_lower_upper. Qed.

Theorem unit_spec : forall s,
  (parse_unit s = Some Stress <-> str_lower s = "stress"%string) /\
  (parse_unit s = Some Displacement <-> str_lower s = "displacement"%string) /\
  (parse_unit s = None <-> str_lower s <> "stress"%string /\ str_lower s <> "displacement"%string).
Proof. exact parse_unit_spec. Qed.

(* no interior interface: None, whatever the unit string (an invalid unit is only detected by
   the per-interface helpers) *)
Theorem no_interior_interface_returns_none : forall T K (N : Num T) (NK : Num K) (emb : T -> K) (p : ppath T) rg u,
  (length (pp_interfaces p) <= 2)%nat ->
  transrefl_path NK emb p rg u = Ok None /\ reverse_transrefl_path N NK emb p rg u = Ok None.
Proof. exact @transrefl_no_interior. Qed.

(* the exception of every branch of the two loop bodies.  Changed by repair (1): in the reverse
   body a None velocity handed to snell_angles (rev_vel_missing fr: the T mode in a fluid) raises
   TypeError (class EHelper) before the helper looks at the unit, the kind or reflection_against —
   and after interface.kind.reverse() of a transmission; the statement before the repair is the
   case rev_vel_missing fr = false *)
Theorem loop_body_error_kinds : forall T K (N : Num T) (NK : Num K) (emb : T -> K) (fr : frame (T:=T)),
  (pi_tr (fr_x fr) = None ->
     forall u, stepF_fr NK emb u fr = Raise EAssert /\ stepR_fr N NK emb u fr = Raise EAssert) /\
  (pi_tr (fr_x fr) <> None ->
     stepF_fr NK emb None fr = Raise EValue /\
     stepR_fr N NK emb None fr =
       Raise (if match pi_tr (fr_x fr), pi_kind (fr_x fr) with
                 | Some Transmission, None => true
                 | _, _ => false
                 end then EAttr
              else if rev_vel_missing fr then EHelper else EValue)) /\
  (pi_tr (fr_x fr) = Some Transmission -> pi_kind (fr_x fr) = None ->
     forall u, stepF_fr NK emb (Some u) fr = Raise ENotImpl /\ stepR_fr N NK emb (Some u) fr = Raise EAttr) /\
  (pi_tr (fr_x fr) = Some Reflection -> pi_kind (fr_x fr) = None ->
     forall u, stepF_fr NK emb (Some u) fr = Raise ENotImpl /\
               stepR_fr N NK emb (Some u) fr = Raise (if rev_vel_missing fr then EHelper else ENotImpl)) /\
  (pi_tr (fr_x fr) = Some Reflection -> pi_kind (fr_x fr) <> None -> pi_against (fr_x fr) = None ->
     forall u, stepF_fr NK emb (Some u) fr = Raise EAttr /\
               stepR_fr N NK emb (Some u) fr = Raise (if rev_vel_missing fr then EHelper else EAttr)) /\
  (pi_tr (fr_x fr) <> None -> (pi_tr (fr_x fr) = Some Transmission -> pi_kind (fr_x fr) <> None) ->
     rev_vel_missing fr = true -> forall u, stepR_fr N NK emb u fr = Raise EHelper).
Proof. exact @step_error_kinds. Qed.

(* repair (1): the number standing for a missing transverse velocity is never read — the helpers
   as called raise when the material in the SOLID role has none, and the kernels ignore the
   transverse velocity of the material in the FLUID role *)
Theorem helper_raises_without_solid_vt : forall T K (NK : Num K) (emb : T -> K) k (m_inc m_oth : pmaterial T) mi mo a u,
  (pm_vt_missing (match k with FluidSolid => m_oth | SolidFluid => m_inc end) = true ->
     transmission_call NK emb (Some k) m_inc m_oth mi mo a (Some u) = Raise EHelper) /\
  (pm_vt_missing (match k with FluidSolid => m_oth | SolidFluid => m_inc end) = true ->
     reflection_call NK emb (Some k) m_inc (Some m_oth) mi mo a (Some u) = Raise EHelper).
Proof. exact @PathReverseProofs.helper_raises_without_solid_vt. Qed.

Theorem helper_ignores_fluid_role_vt : forall K (NK : Num K) (m_inc m_oth : material K) mi mo a u v,
  transmission_at_interface NK FluidSolid (set_vt m_inc v) m_oth mi mo a u
  = transmission_at_interface NK FluidSolid m_inc m_oth mi mo a u /\
  transmission_at_interface NK SolidFluid m_inc (set_vt m_oth v) mi mo a u
  = transmission_at_interface NK SolidFluid m_inc m_oth mi mo a u /\
  reflection_at_interface NK SolidFluid m_inc (set_vt m_oth v) mi mo a u
  = reflection_at_interface NK SolidFluid m_inc m_oth mi mo a u /\
  reflection_at_interface NK FluidSolid (set_vt m_inc v) m_oth mi mo a u
  = reflection_at_interface NK FluidSolid m_inc m_oth mi mo a u.
Proof. exact @PathReverseProofs.helper_ignores_fluid_role_vt. Qed.

(* repair (2): conventional_inc_angle over the whole index range — None at the first interface, a
   value at the interfaces 1..n (the last one included), IndexError beyond — and the reversal of
   the record restricted to the interior interfaces *)
Theorem conventional_inc_angle_range : forall T (rg : raygeom T) n, rg_wf rg n ->
  rg_conv_inc_angle rg 0 = Raise EAttr /\
  (forall i, (1 <= i <= n)%nat ->
     exists th, nth_error (rg_inc rg) (i - 1)%nat = Some th /\ rg_conv_inc_angle rg i = Ok th) /\
  (forall i, (n < i)%nat -> rg_conv_inc_angle rg i = Raise EIndex).
Proof. exact @conv_inc_angle_range. Qed.

Theorem ray_geometry_interior_reverse : forall T (rg : raygeom T),
  rg_inc_interior (rg_reverse rg) = rev (rg_out_interior rg) /\
  rg_out_interior (rg_reverse rg) = rev (rg_inc_interior rg).
Proof. exact @rg_interior_reverse. Qed.

(* the loop bodies of the model with the source's indices are these frame-level bodies, and the
   first interface (in path order) that raises decides the exception of the whole call *)
Theorem loop_body_at_interface : forall T K (N : Num T) (NK : Num K) (emb : T -> K) (p : ppath T) rg n u j fr,
  path_wf p rg n -> frame_at p rg j = Some fr ->
  tr_step_forward NK emb p rg u (1 + j) (fr_x fr) = stepF_fr NK emb u fr /\
  tr_step_reverse N NK emb p rg u (1 + j) (fr_x fr) = stepR_fr N NK emb u fr.
Proof. exact @steps_at. Qed.

Theorem first_error_wins : forall T K (NK : Num K) (step : nat -> pinterface T -> outcome K) L j e,
  (forall j', (j' < j)%nat -> exists v, nth_error (steps step 1 L) j' = Some (Ok v)) ->
  nth_error (steps step 1 L) j = Some (Raise e) -> tr_loop NK step 1 L None = Raise e.
Proof. exact @tr_loop_first_error. Qed.

(* ---- non-vacuity: an OBLIQUE Snell-exact ray on a 4-interface immersion path ----
   probe -> front wall (transmission fluid_solid) -> back wall (reflection against the couplant,
   mode conversion L -> T) -> grid.  couplant c = 1; block c_L = sqrt 2, c_T = 1.
   Angles: pi/6 in the couplant, pi/4 for L in the block, pi/6 for the reflected T. *)
Definition ex_couplant : pmaterial R := mkPMat 1 1 None (Some (fun _ => 2)) None.
Definition ex_block : pmaterial R := mkPMat 3 (sqrt 2) (Some 1) (Some (fun f => f)) None.
(* conventional_inc_angle(1..3) and conventional_out_angle(0..2) *)
Definition ex_rg : raygeom R :=
  mkRG 4 [1; sqrt 2; 1] [1; 2; 3] [PI / 6; PI / 4; PI / 6] [PI / 6; PI / 4; PI / 6].
Definition ex_path : ppath R :=
  mkPPath [ mkPInt 0 None None None None (Some true);
            mkPInt 1 (Some FluidSolid) (Some Transmission) None (Some true) (Some false);
            mkPInt 2 (Some SolidFluid) (Some Reflection) (Some ex_couplant) (Some false) (Some false);
            mkPInt 3 None None None (Some true) None ]
          [ex_couplant; ex_block; ex_block] [ModeL; ModeL; ModeT] (Some ex_rg).

Lemma ex_sqrt2 : sqrt 2 * sqrt 2 = 2. Proof. apply sqrt_sqrt. lra. Qed.
Lemma ex_sqrt2_pos : 0 < sqrt 2. Proof. apply sqrt_lt_R0. lra. Qed.

Example end_to_end_hypotheses_satisfiable :
  exists q, ppath_reverse ex_path = Ok q /\ ray_geometry_from_path ex_path = Ok ex_rg /\
    path_wf ex_path ex_rg 3 /\ map Some (rg_vel ex_rg) = ppath_velocities ex_path /\
    reflections_in_one_medium ex_path ex_rg /\ snell_ray ex_rg 3 /\ snell_path_R ex_path ex_rg.
Proof.
  assert (Hwf : path_wf ex_path ex_rg 3) by (repeat split; cbn; lia).
  assert (Hrefl : reflections_in_one_medium ex_path ex_rg).
  { intros j fr Hfr Htr. destruct j as [|[|[|[|j]]]]; cbn in Hfr; try discriminate;
      injection Hfr as <-; cbn in *; try discriminate; reflexivity. }
  assert (Hs : snell_ray ex_rg 3).
  { pose proof ex_sqrt2 as S2. pose proof ex_sqrt2_pos as P2. pose proof PI_RGT_0 as HP.
    intros j Hj. destruct j as [|[|j]]; [| |lia]; cbn [ex_rg rg_vel rg_inc rg_out nth].
    - rewrite sin_PI4, sin_PI6. repeat split; try lra. field_simplify_eq; lra.
    - rewrite sin_PI4, sin_PI6. repeat split; try lra. field_simplify_eq; lra. }
  eexists. split; [reflexivity|]. split; [reflexivity|]. split; [exact Hwf|]. split; [reflexivity|].
  split; [exact Hrefl|]. split; [exact Hs|].
  apply (snell_ray_path ex_path ex_rg 3 Hwf eq_refl Hrefl Hs).
Qed.

(* ... on which the calls do return values (the conclusion is not "both raise"): *)
Example end_to_end_returns_values :
  (exists v, reverse_transmission_reflection_for_path NumR ex_path ex_rg true "Displacement" = Ok (Some v)) /\
  (exists v, reverse_transmission_reflection_for_path NumR ex_path ex_rg false "stress" = Ok (Some v)) /\
  (exists v, reverse_beamspread_idx NumR ex_rg = Ok v) /\
  (exists v, material_attenuation_path NumR ex_path ex_rg 5 = Ok v).
Proof. repeat split; eexists; reflexivity. Qed.

(* the error branches exist: an ambiguous interface (kind without transmission/reflection)
   stops Path.reverse(); an invalid unit raises ValueError; a path whose rays were not computed
   has no RayGeometry *)
Example error_branches_reachable :
  ppath_reverse (mkPPath [mkPInt 0 (Some FluidSolid) None None None None; mkPInt 1 None None None None None]
                         [ex_couplant] [ModeL] None) = Raise EValue /\
  transmission_reflection_for_path NumR ex_path ex_rg true "pressure" = Raise EValue /\
  reverse_transmission_reflection_for_path NumR ex_path ex_rg true "pressure" = Raise EValue /\
  ray_geometry_from_path (mkPPath (pp_interfaces ex_path) (pp_materials ex_path) (pp_modes ex_path) None)
  = Raise EValue /\
  parse_unit "DISPLACEMENT" = Some Displacement /\ parse_unit "Stress" = Some Stress /\
  parse_unit "pressure" = None.
Proof. repeat split; reflexivity. Qed.

(* repair (1) on the example path with the T mode in the couplant and an invalid unit: the reverse
   function raises the TypeError of snell_angles (class EHelper) where the direct one raises the
   helper's ValueError; repair (2): a path with one more interface than the ray geometry reads the
   incidence angle at the ray geometry's LAST interface and returns, two more give IndexError *)
Definition ex_path_T : ppath R :=
  mkPPath (pp_interfaces ex_path) (pp_materials ex_path) [ModeT; ModeL; ModeT] None.
Definition ex_path_longer (extra : list (pinterface R)) : ppath R :=
  mkPPath ([ mkPInt 0 None None None None (Some true);
             mkPInt 1 (Some FluidSolid) (Some Transmission) None (Some true) (Some false);
             mkPInt 2 (Some SolidFluid) (Some Reflection) (Some ex_couplant) (Some false) (Some false);
             mkPInt 3 (Some SolidFluid) (Some Reflection) (Some ex_couplant) (Some true) (Some true) ]
           ++ extra ++ [ mkPInt 9 None None None (Some true) None ])
          ([ex_couplant; ex_block; ex_block; ex_block] ++ map (fun _ => ex_block) extra)
          ([ModeL; ModeL; ModeT; ModeT] ++ map (fun _ => ModeT) extra) None.
Example repaired_points_reachable :
  transmission_reflection_for_path NumR ex_path_T ex_rg true "pressure" = Raise EValue /\
  reverse_transmission_reflection_for_path NumR ex_path_T ex_rg true "pressure" = Raise EHelper /\
  reverse_transmission_reflection_for_path NumR ex_path_T ex_rg true "stress" = Raise EHelper /\
  ppath_velocities ex_path_T = [None; Some (sqrt 2); Some 1] /\
  (exists v, transmission_reflection_for_path NumR (ex_path_longer []) ex_rg true "stress" = Ok (Some v)) /\
  (exists v, reverse_transmission_reflection_for_path NumR (ex_path_longer []) ex_rg false "stress" = Ok (Some v)) /\
  transmission_reflection_for_path NumR
    (ex_path_longer [mkPInt 4 (Some SolidFluid) (Some Reflection) (Some ex_couplant) (Some true) (Some true)])
    ex_rg true "stress" = Raise EIndex.
Proof. repeat split; try (eexists; reflexivity); reflexivity. Qed.

(* the hypotheses of the geometric bridge are satisfiable: see C05's reverse_hypotheses_satisfiable
   and f1_witness (Props/C05.v) for a path on which every RayGeometry entry is a value *)

(* the view hypothesis of the *_loop_is_kernel theorems holds on the example path ... *)
Example view_hypothesis_satisfiable :
  (exists l, view_path (cre NumR) ex_path ex_rg = Some l /\ length l = 2%nat) /\
  (exists l, view_path (fun x : R => x) ex_path ex_rg = Some l /\ length l = 2%nat).
Proof. split; eexists; split; reflexivity. Qed.

(* ... and so does the hypothesis of the geometric bridge: three one-point interfaces with the
   global frame as local frame, every normal-side flag set *)
Definition ex_ifs : list (RayGeom.iface (T:=R)) :=
  [ RayGeom.mkIface [ (0, 0, 1) ] [ Vec3.mid3 NumR ] None (Some true);
    RayGeom.mkIface [ (0, 0, 0) ] [ Vec3.mid3 NumR ] (Some true) (Some false);
    RayGeom.mkIface [ (1, 0, -1) ] [ Vec3.mid3 NumR ] (Some false) None ].
Example bridge_hypothesis_satisfiable :
  exists rg, rg_of_geometry NumR ex_ifs [0; 0; 0]%nat [1; 2] = Ok rg /\
             length (rg_leg rg) = 2%nat /\ length (rg_inc rg) = 2%nat /\ length (rg_out rg) = 2%nat.
Proof. eexists. split; [reflexivity|]. repeat split. Qed.
