(* Props/C19.v — Front-wall registration recovers the true probe standoff and tilt.
   Statements only (proofs: Proofs/RegistrationProofs.v, Proofs/RegistrationTimeProofs.v).
   Exact arithmetic (NumR).  numpy.polyfit(x, d, 1) is the function argument `fit`
   with the hypothesis `is_ls_minimiser fit` (it returns (slope, intercept) minimising
   the sum of squared residuals); `fit_line` is the closed-form normal-equation
   solution the executions use.
   Not modelled (compared by the harness only): Probe.reset_position inside
   find_probe_loc_from_frontwall — the model starts from the PCS coordinates with
   PCS = GCS; complex (analytic) timetraces in detect_surface_from_extrema. *)
From Coq Require Import Reals ZArith List Bool Permutation PrimFloat Lra.
From Arim Require Import Base.Num Base.NumR Base.NumF Model.Registration
  Proofs.RegistrationProofs Proofs.RegistrationTimeProofs.
Import ListNotations.
Local Open Scope R_scope.

(* == least-squares line ======================================================= *)
(* non-degeneracy of the normal equations: n Sxx - Sx^2 > 0 as soon as two abscissae differ *)
Theorem fit_nondegenerate : forall xs x1 x2, In x1 xs -> In x2 xs -> x1 <> x2 ->
  0 < INR (length xs) * rsum (map (fun x => x * x) xs) - rsum xs * rsum xs.
Proof. exact den_pos_xs. Qed.

(* the closed form is a least-squares minimiser ... *)
Theorem fit_minimises : forall xs ds a b x1 x2,
  length xs = length ds -> In x1 xs -> In x2 xs -> x1 <> x2 ->
  sse xs ds (fst (fit_line NumR xs ds)) (snd (fit_line NumR xs ds)) <= sse xs ds a b.
Proof. exact fit_line_is_minimiser. Qed.

(* ... the only one: whatever numpy.polyfit does, it returns the closed-form line *)
Theorem fit_oracle_is_closed_form : forall fit xs ds x1 x2,
  is_ls_minimiser fit -> length xs = length ds -> In x1 xs -> In x2 xs -> x1 <> x2 ->
  fit xs ds = fit_line NumR xs ds.
Proof. exact oracle_is_closed_form. Qed.

(* fit_exact: collinear data d = a x + b at >= 2 distinct abscissae are reproduced *)
Theorem fit_exact : forall xs a b x1 x2, In x1 xs -> In x2 xs -> x1 <> x2 ->
  fit_line NumR xs (map (fun x => a * x + b) xs) = (a, b).
Proof. exact fit_line_exact. Qed.

Theorem fit_exact_oracle : forall fit xs a b x1 x2,
  is_ls_minimiser fit -> In x1 xs -> In x2 xs -> x1 <> x2 ->
  fit xs (map (fun x => a * x + b) xs) = (a, b).
Proof.
  intros fit xs a b x1 x2 Hfit H1 H2 Hne.
  rewrite (oracle_is_closed_form fit xs _ x1 x2 Hfit (eq_sym (map_length _ xs)) H1 H2 Hne).
  exact (fit_line_exact xs a b x1 x2 H1 H2 Hne).
Qed.

(* == the whole registration move ============================================== *)
(* on EVERY input (error outcomes included) the result does not depend on which
   least-squares minimiser the oracle returns *)
Theorem registration_oracle_free : forall fit pcs tx rx dead locs ds,
  is_ls_minimiser fit ->
  move_probe NumR fit pcs tx rx dead locs ds = move_probe NumR (fit_line NumR) pcs tx rx dead locs ds.
Proof. exact move_probe_oracle. Qed.

(* invariant under any permutation of the timetraces (tx, rx and distances permuted together) *)
Theorem registration_permutation_invariant : forall fit pcs dead locs tx rx ds tx' rx' ds',
  is_ls_minimiser fit ->
  length tx = length rx -> length ds = length tx -> length tx' = length rx' -> length ds' = length tx' ->
  Permutation (combine (combine tx rx) ds) (combine (combine tx' rx') ds') ->
  move_probe NumR fit pcs tx rx dead locs ds = move_probe NumR fit pcs tx' rx' dead locs ds'.
Proof. exact move_probe_perm. Qed.

(* independent of the values attached to non-pulse-echo timetraces and to dead elements *)
Theorem registration_ignores_non_pulse_echo : forall fit pcs dead locs tx rx ds1 ds2,
  length ds1 = length ds2 ->
  (forall i, pulse_echo dead (nth i tx 0%Z) (nth i rx 0%Z) = true -> nth i ds1 0 = nth i ds2 0) ->
  move_probe NumR fit pcs tx rx dead locs ds1 = move_probe NumR fit pcs tx rx dead locs ds2.
Proof. exact move_probe_indep. Qed.

(* a readable sufficient condition for the code's `assert not isclose(xA, xB)` *)
Theorem abscissae_spread_suffices : forall l x1 x2 X,
  In x1 l -> In x2 l -> (forall x, In x l -> Rabs x <= X) -> tolA + tolR * X < Rabs (x1 - x2) ->
  isclose NumR (lmin NumR l) (lmax NumR l) = false.
Proof. exact spread_not_close. Qed.

(* registration_recovers.  A probe lying on Ox in its PCS (abscissae xs: ANY reals, so
   any reference point — the PCS origin is where x = 0), PCS = GCS.  True pose: rotation
   of th about Oy then translation (t_x, 0, z0), i.e. element x sits at
   (cos th * x + t_x, 0, - sin th * x + z0); measured distance of a usable pulse-echo
   timetrace: d = -z = sin th * x - z0 >= 0.  Then the call succeeds, reports
   (z_o, theta) = (z0, th), every element (dead or not, used or not) ends at
   z = -(sin th * x - z0) = minus its distance, y = 0, x = cos th * x (the true position
   up to the unobservable shift t_x), and the PCS origin ends at (0, 0, z0).
   Stated for |th| <= pi/2, which contains the (-45, 45) degrees of the property. *)
Theorem registration_recovers : forall fit xs th z0 dead tx rx ds,
  is_ls_minimiser fit ->
  - (PI / 2) <= th <= PI / 2 ->
  length tx = length rx -> length ds = length tx ->
  (2 <= length (selected dead tx rx ds))%nat ->
  (forall t, In t (selected dead tx rx ds) ->
     (0 <= tr_tx t < Z.of_nat (length xs))%Z /\ tr_d t = sin th * trace_x xs t - z0 /\ 0 <= tr_d t) ->
  isclose NumR (lmin NumR (map (trace_x xs) (selected dead tx rx ds)))
               (lmax NumR (map (trace_x xs) (selected dead tx rx ds))) = false ->
  move_probe NumR fit (gcs NumR) tx rx dead (on_axis xs) ds
  = inr (mkMove z0 th
                (map (fun x => (cos th * x, 0, - (sin th * x - z0))) xs)
                ((0, 0, z0), (cos th, 0, - sin th), (0, 1, 0))).
Proof. exact move_probe_recovers. Qed.

(* the same for a uniform array of n elements of any pitch (either sign) whose reference
   point lies rho pitches after element 0 (rho = r: reference element r; (n-1)/2: 'mean'),
   as soon as two usable pulse-echo timetraces belong to different elements and the pitch
   exceeds numpy's isclose tolerance *)
Theorem registration_recovers_linear_array : forall fit n pitch rho th z0 dead tx rx ds t1 t2,
  is_ls_minimiser fit ->
  - (PI / 2) <= th <= PI / 2 ->
  length tx = length rx -> length ds = length tx ->
  (forall t, In t (selected dead tx rx ds) ->
     (0 <= tr_tx t < Z.of_nat n)%Z /\
     tr_d t = sin th * ((IZR (tr_tx t) - rho) * pitch) - z0 /\ 0 <= tr_d t) ->
  In t1 (selected dead tx rx ds) -> In t2 (selected dead tx rx ds) -> tr_tx t1 <> tr_tx t2 ->
  tolA + tolR * ((INR n + Rabs rho) * Rabs pitch) < Rabs pitch ->
  move_probe NumR fit (gcs NumR) tx rx dead (on_axis (linear_array n pitch rho)) ds
  = inr (mkMove z0 th
                (map (fun x => (cos th * x, 0, - (sin th * x - z0))) (linear_array n pitch rho))
                ((0, 0, z0), (cos th, 0, - sin th), (0, 1, 0))).
Proof. exact move_probe_recovers_linear_array. Qed.

(* find_probe_loc_from_frontwall: detected times t with t * c / 2 = the true distances *)
Theorem frontwall_registration_recovers :
  forall fit xs th z0 dead tx rx start step num rows (c : R) tmin tmax times,
  is_ls_minimiser fit ->
  - (PI / 2) <= th <= PI / 2 ->
  detect_surface NumR (time_samples NumR start step num) rows tmin tmax = Some times ->
  length tx = length rx -> length times = length tx ->
  (2 <= length (selected dead tx rx (map (fun t => (t * c / 2)%R) times)))%nat ->
  (forall t, In t (selected dead tx rx (map (fun t => (t * c / 2)%R) times)) ->
     (0 <= tr_tx t < Z.of_nat (length xs))%Z /\ tr_d t = sin th * trace_x xs t - z0 /\ 0 <= tr_d t) ->
  isclose NumR (lmin NumR (map (trace_x xs) (selected dead tx rx (map (fun t => (t * c / 2)%R) times))))
               (lmax NumR (map (trace_x xs) (selected dead tx rx (map (fun t => (t * c / 2)%R) times)))) = false ->
  find_probe_loc NumR fit start step num rows tx rx dead (on_axis xs) c tmin tmax
  = inr (mkMove z0 th
                (map (fun x => (cos th * x, 0, - (sin th * x - z0))) xs)
                ((0, 0, z0), (cos th, 0, - sin th), (0, 1, 0)), times).
Proof. exact find_probe_loc_recovers. Qed.

(* == Time.window and detect_surface_from_extrema ================================ *)
Theorem time_samples_spec : forall start step num k, (k < Z.to_nat num)%nat ->
  nth k (time_samples NumR start step num) 0 = INR k * step + start.
Proof. exact time_samples_nth. Qed.

Theorem time_samples_are_sorted : forall start step num, 0 <= step ->
  sorted (time_samples NumR start step num).
Proof. exact time_samples_sorted. Qed.

(* window_spec: the slice selects exactly the samples inside the interval, for the four
   endpoint conventions (searchsorted 'left'/'right') *)
Theorem window_spec : forall samples tmin tmax endl endr, sorted samples ->
  forall i, (i < length samples)%nat ->
  ((fst (window NumR samples tmin tmax endl endr) <= i < snd (window NumR samples tmin tmax endl endr))%nat
   <-> in_window tmin tmax endl endr (nth i samples 0)).
Proof. exact window_spec_R. Qed.

(* extrema_spec: every returned time is a sample time inside [tmin, tmax] whose |value| is
   maximal among the samples of the window, and the first such *)
Theorem extrema_spec : forall samples rows tmin tmax times,
  sorted samples -> (forall row, In row rows -> length row = length samples) ->
  detect_surface NumR samples rows tmin tmax = Some times ->
  length times = length rows /\
  forall r, (r < length rows)%nat ->
    exists i, (i < length samples)%nat /\ nth r times 0 = nth i samples 0
      /\ in_window tmin tmax true true (nth i samples 0)
      /\ (forall j, (j < length samples)%nat -> in_window tmin tmax true true (nth j samples 0) ->
                    Rabs (nth j (nth r rows []) 0) <= Rabs (nth i (nth r rows []) 0))
      /\ (forall j, (j < i)%nat -> in_window tmin tmax true true (nth j samples 0) ->
                    Rabs (nth j (nth r rows []) 0) < Rabs (nth i (nth r rows []) 0)).
Proof. exact detect_surface_spec. Qed.

(* the error (ValueError of argmax) is raised exactly when no sample lies in the window *)
Theorem extrema_error_iff_empty_window : forall samples rows tmin tmax,
  sorted samples -> (forall row, In row rows -> length row = length samples) ->
  (detect_surface NumR samples rows tmin tmax = None <->
   forall i, (i < length samples)%nat -> ~ in_window tmin tmax true true (nth i samples 0)).
Proof. exact detect_surface_none. Qed.

(* completeness per timetrace: the first largest |sample| of the window is the answer *)
Theorem extrema_complete : forall samples imin imax row i,
  length row = length samples -> (imax <= length samples)%nat -> (imin <= i < imax)%nat ->
  (forall j, (imin <= j < imax)%nat -> Rabs (nth j row 0) <= Rabs (nth i row 0)) ->
  (forall j, (imin <= j < i)%nat -> Rabs (nth j row 0) < Rabs (nth i row 0)) ->
  detect_trace NumR samples imin imax row = Some (nth i samples 0).
Proof. exact detect_trace_complete. Qed.

(* == non-vacuity ================================================================ *)
(* the oracle hypothesis is satisfiable (a total least-squares minimiser exists) *)
Theorem ls_oracle_exists : exists fit, is_ls_minimiser fit.
Proof. exact ls_minimiser_exists. Qed.

(* the hypotheses of registration_recovers are satisfiable: two elements at x = 0 and
   x = 1, a three-timetrace frame in a non-canonical order with garbage (-7) on the
   cross timetrace, tilt 0, standoff 1 *)
Example registration_recovers_instance :
  move_probe NumR (fit_line NumR) (gcs NumR) [1; 0; 0]%Z [1; 1; 0]%Z [false; false] (on_axis [0; 1]) [1; -7; 1]
  = inr (mkMove (-1) 0 (map (fun x => (cos 0 * x, 0, - (sin 0 * x - (-1)))) [0; 1])
                ((0, 0, -1), (cos 0, 0, - sin 0), (0, 1, 0))).
Proof.
  assert (selected [false; false] [1; 0; 0]%Z [1; 1; 0]%Z [1; -7; 1] = [((1, 1)%Z, 1); ((0, 0)%Z, 1)]) as Hsel
      by reflexivity.
  apply move_probe_recovers_closed.
  - pose proof PI_RGT_0. lra.
  - reflexivity.
  - reflexivity.
  - rewrite Hsel. cbn [length]. apply le_n.
  - rewrite Hsel. intros t [<- | [<- | []]]; unfold trace_x, tr_tx, tr_d; cbn [fst snd length nth Z.to_nat Pos.to_nat Pos.iter_op Nat.add];
      rewrite sin_0; (split; [split; [apply Z.leb_le | apply Z.ltb_lt]; reflexivity | split; lra]).
  - rewrite Hsel.
    assert (map (trace_x [0; 1]) [((1, 1)%Z, 1); ((0, 0)%Z, 1)] = [1; 0]) as -> by reflexivity.
    apply (spread_not_close _ 0 1 1).
    + right. left. reflexivity.
    + left. reflexivity.
    + intros x [<- | [<- | []]]; [rewrite Rabs_R1 | rewrite Rabs_R0]; lra.
    + replace (0 - 1) with (- (1)) by ring. rewrite Rabs_Ropp, Rabs_R1. unfold tolA, tolR. lra.
Qed.

(* binary64 executions of the model (vm_compute): the negative extremum -3 wins over 2,
   the FIRST of the tied |values| is returned, window bounds on samples are inclusive *)
Example detect_surface_instance :
  detect_surface NumF (time_samples NumF 10%float 1%float 6%Z) [[1; -3; 2; 3; -3; 0.5]%float] (Some 11%float) (Some 14%float)
  = Some [11%float].
Proof. vm_compute. reflexivity. Qed.

Example detect_surface_value_not_abs_would_differ :
  detect_surface NumF (time_samples NumF 10%float 1%float 6%Z) [[1; -3; 2; 2.5; -1; 0.5]%float] None None = Some [11%float].
Proof. vm_compute. reflexivity. Qed.

Example detect_surface_empty_window :
  detect_surface NumF (time_samples NumF 10%float 1%float 6%Z) [[1; -3; 2; 3; -3; 0.5]%float] (Some 11.25%float) (Some 11.75%float)
  = None.
Proof. vm_compute. reflexivity. Qed.

Example window_instance :
  window NumF (time_samples NumF 10%float 1%float 6%Z) (Some 11%float) (Some 14%float) true true = (1%nat, 5%nat)
  /\ window NumF (time_samples NumF 10%float 1%float 6%Z) (Some 11%float) (Some 14%float) false false = (2%nat, 4%nat).
Proof. split; vm_compute; reflexivity. Qed.

(* ============================================================================================ *)
(* == The glue around the core (Model/RegistrationGlue.v; Proofs/RegistrationGlueProofs.v,      *)
(* == Proofs/RegistrationGlueRealProofs.v)                                                      *)
(* ============================================================================================ *)
(* Now modelled: Probe.__init__'s dead_elements argument (any truthy spelling), the index vector
   arange(n)[dead_elements], the pulse-echo MASK as the code builds it (three passes) with
   boolean-mask indexing, the error precedence, numpy's argmax on floats (a NaN is the maximum),
   np.abs on complex samples, Time.window as index arithmetic on the uniform grid,
   Time.closest_index, and find_probe_loc_from_frontwall on the Probe OBJECT of C16's model
   (Model/Probe.v): reset_position first, the move through Probe.rotate / Probe.translate with
   the CoordinateSystem constructor checks, the returned tuple, the state left behind on errors. *)
From Coq Require Import Lia.
From Arim Require Import Model.Vec3 Proofs.Vec3Proofs Model.Probe Proofs.ProbeProofs
  Model.RegistrationGlue Proofs.RegistrationGlueProofs Proofs.RegistrationGlueRealProofs.

(* == dead elements: spelling of the flags, the index vector, the broadcast ======================= *)
(* (every numeric instance, axiom-free) *)
(* only "zero or not" matters: True / 1 / 255 / 2.5 for the same elements give the same flags *)
Theorem dead_flags_any_truthy_spelling : forall n l l', map truthy l = map truthy l' ->
  init_dead n (DeadEach l) = init_dead n (DeadEach l').
Proof. exact init_dead_spelling. Qed.

Theorem dead_flags_scalar_is_broadcast : forall n z,
  init_dead n (DeadScalar z) = init_dead n (DeadEach (repeat z n)).
Proof. exact init_dead_scalar_each. Qed.

Theorem dead_flags_have_probe_length : forall n a m, init_dead n a = Some m -> length m = n.
Proof. exact init_dead_length. Qed.

(* arange(n)[dead_elements] lists exactly the elements whose flag is non zero *)
Theorem dead_index_vector_spec : forall (l : list Z) (e : Z),
  In e (mask_positions 0 (map truthy l)) <->
  (0 <= e < Z.of_nat (length l))%Z /\ nth (Z.to_nat e) l 0%Z <> 0%Z.
Proof. exact dead_set_of_spelling. Qed.

(* ... and the expression is accepted iff there is one flag per element OR NO FLAG AT ALL: numpy
   accepts an empty boolean index on a vector of any length and selects nothing, so an empty vector
   stored as probe.dead_elements after construction means "no dead element", like the all-False
   vector; flags of any other length raise IndexError.
   (Model repair: dead_indices used to answer None for the empty vector on a non-empty probe.  The
   theorems below whose hypothesis was `length dead = length locs` now read
   `length dead = length locs \/ dead = []`.) *)
Theorem dead_index_vector_accepted_iff : forall (n : nat) (mask : list bool) (r : list Z),
  (dead_indices n mask = Some r <-> (length mask = n \/ mask = []) /\ r = mask_positions 0 mask) /\
  (length mask <> n -> mask <> [] -> dead_indices n mask = None) /\
  dead_indices n [] = dead_indices n (repeat false n).
Proof.
  intros n mask r.
  exact (conj (dead_indices_spec n mask r) (conj (dead_indices_raises n mask) (dead_indices_empty_is_all_false n))).
Qed.

(* np.any(v == dead_indices) is the flag of element v (False for anything that is not an element
   index: a comparison does not wrap negative numbers) *)
Theorem dead_broadcast_is_flag : forall dead e, any_eq (mask_positions 0 dead) e = is_dead dead e.
Proof. exact any_eq_dead. Qed.

(* had the flags stayed integers, arange(n)[flags] would be FANCY indexing: other elements *)
Example integer_flags_would_be_fancy_indexing :
  init_dead 3 (DeadEach [0; 1; 0]%Z) = Some [false; true; false] /\
  dead_indices 3 [false; true; false] = Some [1%Z] /\
  fancy_indices 3 [0; 1; 0]%Z = Some [0; 1; 0]%Z /\
  (* no flag at all: nothing selected; two flags for three elements: IndexError *)
  dead_indices 3 [] = Some [] /\ dead_indices 3 [false; true] = None.
Proof. repeat split. Qed.

Example dead_flags_spellings :
  init_dead 3 (DeadEach [0; 255; 0]%Z) = init_dead 3 (DeadEach [0; 1; 0]%Z) /\
  init_dead 3 (DeadScalar 1%Z) = Some [true; true; true] /\ init_dead 3 DeadNone = Some [false; false; false] /\
  init_dead 3 (DeadEach [0; 1]%Z) = None.
Proof. repeat split. Qed.

(* == the pulse-echo mask and boolean-mask indexing ================================================ *)
(* the three passes of the code (tx == rx, clear where any(tx == dead), clear where any(rx == dead))
   compute the predicate `pulse_echo` of Model/Registration.v, timetrace by timetrace *)
Theorem pulse_echo_mask_spec : forall dead tx rx,
  pe_mask (mask_positions 0 dead) tx rx = map (fun p => pulse_echo dead (fst p) (snd p)) (combine tx rx).
Proof. exact pe_mask_spec. Qed.

(* distance_to_surface[pulse_echo] and frame.tx[pulse_echo] are the distances / transmitters of the
   selected timetraces, in frame order *)
Theorem mask_indexing_selects : forall (T : Type) dead tx rx (ds : list T),
  length tx = length rx -> length ds = length tx ->
  bmask (pe_mask (mask_positions 0 dead) tx rx) ds = map tr_d (selected dead tx rx ds) /\
  bmask (pe_mask (mask_positions 0 dead) tx rx) tx = map tr_tx (selected dead tx rx ds).
Proof.
  intros T dead tx rx ds H1 H2; rewrite pe_mask_spec;
    exact (conj (bmask_distances dead tx rx ds) (bmask_transmitters dead tx rx ds H1 H2)).
Qed.

(* steps I-IV as written with masks, followed by the motion, ARE move_probe of Model/Registration.v
   (so every theorem above about move_probe is about the code as written), for every numeric type *)
Theorem move_probe_as_written : forall (T : Type) (N : Num T) fit pcs tx rx dead locs ds,
  length dead = length locs \/ dead = [] -> length tx = length rx ->
  move_probe N fit pcs tx rx dead locs ds = pose_result N pcs locs (fit_pose N fit pcs tx rx dead locs ds).
Proof. intros T N; exact (move_probe_fit_pose N). Qed.

(* == error precedence ============================================================================== *)
(* the gate comes first: whatever else is wrong, a PCS that is not the GCS gives ValueError #1 ... *)
Theorem gate_is_first : forall (T : Type) (N : Num T) fit pcs tx rx dead locs ds,
  fit_pose N fit pcs tx rx dead locs ds = inl E_PcsNotGcs <-> cs_isclose N pcs (Registration.gcs N) = false.
Proof. intros T N; exact (fit_pose_gate N). Qed.

(* ... then "at least 2 pulse echo timetraces": exactly when fewer than two timetraces have tx = rx on a
   live element; the distances (their number, sign, values) are not looked at *)
Theorem too_few_pulse_echo_iff : forall (T : Type) (N : Num T) fit pcs tx rx dead locs ds,
  length dead = length locs \/ dead = [] ->
  (fit_pose N fit pcs tx rx dead locs ds = inl E_TooFewPulseEcho
   <-> cs_isclose N pcs (Registration.gcs N) = true /\
       (length (filter (fun p => pulse_echo dead (fst p) (snd p)) (combine tx rx)) < 2)%nat).
Proof. intros T N; exact (fit_pose_too_few N). Qed.

Theorem success_needs : forall (T : Type) (N : Num T) fit pcs tx rx dead locs ds z th,
  length dead = length locs \/ dead = [] -> length tx = length rx ->
  fit_pose N fit pcs tx rx dead locs ds = inr (z, th) ->
  cs_isclose N pcs (Registration.gcs N) = true /\
  (2 <= length (selected dead tx rx ds))%nat /\ length ds = length tx /\
  forall t, In t (selected dead tx rx ds) -> nltb N (tr_d t) (n0 N) = false.
Proof. intros T N; exact (fit_pose_ok_needs N). Qed.

(* the flags that were excluded so far: the empty vector is "no dead element" on a probe of any
   size (every theorem about move_probe applies with dead := []); flags of any other wrong length
   give IndexError, right after the gate *)
Theorem empty_or_mismatched_dead_flags : forall (T : Type) (N : Num T) fit pcs tx rx dead locs ds,
  fit_pose N fit pcs tx rx [] locs ds = fit_pose N fit pcs tx rx (repeat false (length locs)) locs ds /\
  (length dead <> length locs -> dead <> [] ->
   fit_pose N fit pcs tx rx dead locs ds =
   if cs_isclose N pcs (Registration.gcs N) then inl E_Index else inl E_PcsNotGcs).
Proof.
  intros T N fit pcs tx rx dead locs ds.
  exact (conj (fit_pose_empty_dead N fit pcs tx rx locs ds) (fit_pose_dead_mismatch N fit pcs tx rx dead locs ds)).
Qed.

(* FMC and HMC frames (canonical order; any other order: registration_permutation_invariant): one
   usable pulse-echo timetrace per live element, for every probe size and every dead set *)
Theorem fmc_usable_timetraces : forall dead,
  length (filter (fun p => pulse_echo dead (fst p) (snd p)) (fmc_pairs (length dead))) = length (filter negb dead).
Proof. exact fmc_usable. Qed.

Theorem hmc_usable_timetraces : forall dead,
  length (filter (fun p => pulse_echo dead (fst p) (snd p)) (hmc_pairs (length dead))) = length (filter negb dead).
Proof. exact hmc_usable. Qed.

(* hence on an FMC / HMC frame the ValueError is raised exactly when fewer than two elements are alive *)
Theorem fmc_too_few_iff_fewer_than_two_alive : forall (T : Type) (N : Num T) fit pcs dead locs ds,
  length dead = length locs -> cs_isclose N pcs (Registration.gcs N) = true ->
  (fit_pose N fit pcs (map fst (fmc_pairs (length dead))) (map snd (fmc_pairs (length dead))) dead locs ds
   = inl E_TooFewPulseEcho <-> (length (filter negb dead) < 2)%nat).
Proof. intros T N; exact (fit_pose_fmc_too_few N). Qed.

Theorem hmc_too_few_iff_fewer_than_two_alive : forall (T : Type) (N : Num T) fit pcs dead locs ds,
  length dead = length locs -> cs_isclose N pcs (Registration.gcs N) = true ->
  (fit_pose N fit pcs (map fst (hmc_pairs (length dead))) (map snd (hmc_pairs (length dead))) dead locs ds
   = inl E_TooFewPulseEcho <-> (length (filter negb dead) < 2)%nat).
Proof. intros T N; exact (fit_pose_hmc_too_few N). Qed.

(* a 3-element FMC with only element 1 alive: the error, on binary64, before any distance is read *)
Example fmc_one_alive_raises :
  fit_pose NumF (fit_line NumF) (Registration.gcs NumF)
           (map fst (fmc_pairs 3)) (map snd (fmc_pairs 3)) [true; false; true]
           [(0, 0, 0); (1, 0, 0); (2, 0, 0)]%float [] = inl E_TooFewPulseEcho.
Proof. vm_compute. reflexivity. Qed.

(* the same frame with NO flag at all: three usable pulse-echo timetraces, the function goes on to the
   next check (the number of distances); with two flags for three elements: IndexError *)
Example fmc_empty_or_short_dead_flags :
  fit_pose NumF (fit_line NumF) (Registration.gcs NumF)
           (map fst (fmc_pairs 3)) (map snd (fmc_pairs 3)) []
           [(0, 0, 0); (1, 0, 0); (2, 0, 0)]%float [] = inl E_Shape /\
  fit_pose NumF (fit_line NumF) (Registration.gcs NumF)
           (map fst (fmc_pairs 3)) (map snd (fmc_pairs 3)) [true; false]
           [(0, 0, 0); (1, 0, 0); (2, 0, 0)]%float [] = inl E_Index.
Proof. split; vm_compute; reflexivity. Qed.

(* the gate, exactly: each of the nine numbers of the PCS within 1e-8 (absolute) of the GCS's *)
Theorem gate_tolerance : forall o i j : vec3 R,
  cs_isclose NumR (o, i, j) (Registration.gcs NumR) = true <->
  (Rabs (Vec3.vx o) <= tolA /\ Rabs (Vec3.vy o) <= tolA /\ Rabs (Vec3.vz o) <= tolA) /\
  (Rabs (Vec3.vx i - 1) <= tolA /\ Rabs (Vec3.vy i) <= tolA /\ Rabs (Vec3.vz i) <= tolA) /\
  (Rabs (Vec3.vx j) <= tolA /\ Rabs (Vec3.vy j - 1) <= tolA /\ Rabs (Vec3.vz j) <= tolA).
Proof. exact gate_iff. Qed.

(* move_probe_over_flat_surface cannot be applied twice in a row: the probe it placed at a standoff of
   more than 1e-8 is rejected, whatever the data (find_probe_loc_from_frontwall resets first: see
   frontwall_idempotent) *)
Theorem placed_probe_is_rejected_by_the_gate : forall fit th z0 tx rx dead locs ds,
  tolA < Rabs z0 ->
  fit_pose NumR fit ((0, 0, z0), (cos th, 0, - sin th), (0, 1, 0)) tx rx dead locs ds = inl E_PcsNotGcs.
Proof. exact placed_probe_rejected. Qed.

(* == detection: numpy's argmax, np.abs on complex samples, flat rows ================================ *)
(* without NaN, numpy's argmax loop is the first maximum *)
Theorem argmax_np_is_first_maximum : forall l, argmax_np NumR l = argmax_first NumR l.
Proof. exact argmax_np_R. Qed.

Theorem detection_real_samples : forall samples rows tmin tmax,
  detect_surface_np NumR (nabs NumR) samples rows tmin tmax = detect_surface NumR samples rows tmin tmax.
Proof. exact detect_surface_np_real. Qed.

(* samples of any type with a non-negative magnitude (np.abs): the detection is the real-valued one
   on the magnitudes, so window_spec / extrema_spec / extrema_complete apply to them *)
Theorem detection_on_magnitudes : forall (A : Type) (mag : A -> R) samples (rows : list (list A)) tmin tmax,
  (forall a, 0 <= mag a) ->
  detect_surface_np NumR mag samples rows tmin tmax = detect_surface NumR samples (map (map mag) rows) tmin tmax.
Proof. exact @detect_surface_np_mag. Qed.

(* complex (analytic) timetraces: the extremum of the modulus sqrt(re^2 + im^2) *)
Theorem detection_complex_samples : forall samples (rows : list (list (R * R))) tmin tmax,
  detect_surface_np NumR (cabs NumR) samples rows tmin tmax
  = detect_surface NumR samples (map (map (cabs NumR)) rows) tmin tmax.
Proof. exact detect_surface_np_complex. Qed.

(* a row whose |samples| are all equal inside the window (all-zero row of a dead channel, clipped
   row): the FIRST sample time of the window *)
Theorem flat_row_gives_first_window_sample : forall samples imin imax row,
  length row = length samples -> (imax <= length samples)%nat -> (imin < imax)%nat ->
  (forall j, (imin <= j < imax)%nat -> Rabs (nth j row 0) = Rabs (nth imin row 0)) ->
  detect_trace NumR samples imin imax row = Some (nth imin samples 0).
Proof. exact detect_trace_flat. Qed.

Example flat_row_instance :
  detect_trace NumR [10; 11; 12; 13] 1 3 [5; -2; 2; 7] = Some 11.
Proof.
  apply (detect_trace_flat [10; 11; 12; 13] 1 3 [5; -2; 2; 7]); try reflexivity; try (cbn [length]; lia).
  intros j Hj. assert (j = 1 \/ j = 2)%nat as [-> | ->] by lia; cbn [nth]; [reflexivity|].
  rewrite <- (Rabs_Ropp (-2)). f_equal. lra.
Qed.

(* binary64 executions.  numpy: a NaN is the maximum, the first NaN wins; an all-zero row gives the
   first sample of the window; a NaN before the window is not seen *)
Example argmax_np_first_nan :
  argmax_np NumF [1; 3; nan; 5; nan; 0.5]%float = Some 2%nat /\
  argmax_np NumF [nan; 7]%float = Some 0%nat /\ argmax_np NumF [2; 7; 7; 1]%float = Some 1%nat /\
  argmax_np NumF ([] : list float) = None.
Proof. repeat split; vm_compute; reflexivity. Qed.

(* (the first-maximum loop of Model/Registration.v is NOT numpy's argmax on a row that contains a NaN
   after its first sample: it skips the NaN.  Real-valued theorems are unaffected.) *)
Example argmax_first_skips_nan : argmax_first NumF [1; 3; nan; 5; nan; 0.5]%float = Some 3%nat.
Proof. vm_compute. reflexivity. Qed.

Example detect_surface_np_nan_and_zero_rows :
  let rows := [[1; 3; nan; 5; nan; 0.5]; [0; 0; 0; 0; 0; 0]; [nan; 1; 2; 3; 4; 5]]%float in
  detect_surface_np NumF (nabs NumF) (time_samples NumF 10%float 1%float 6%Z) rows None None
    = Some [12; 10; 10]%float /\
  detect_surface_np NumF (nabs NumF) (time_samples NumF 10%float 1%float 6%Z) rows (Some 11%float) (Some 14%float)
    = Some [12; 11; 14]%float /\
  detect_surface_np NumF (nabs NumF) (time_samples NumF 10%float 1%float 6%Z) rows (Some 10.5%float) (Some 13.5%float)
    = Some [12; 11; 13]%float /\
  detect_surface_np NumF (nabs NumF) (time_samples NumF 10%float 1%float 6%Z) rows (Some 12%float) (Some 11%float)
    = None.
Proof. repeat split; vm_compute; reflexivity. Qed.

Example detect_surface_np_complex_instance :
  detect_surface_np NumF (cabs NumF) (time_samples NumF 0%float 0.5%float 4%Z)
    [[(1, 0); (3, 4); (0, -5); (4, 4)]; [(0, 0); (0, 0); (0, 0); (0, 0)]]%float None (Some 1%float)
  = Some [0.5; 0]%float.
Proof. vm_compute. reflexivity. Qed.

(* == Time.window on the uniform grid: index arithmetic ============================================== *)
(* searchsorted(samples, v, 'left') = clip(ceil((v - start) / step), 0, num),
   searchsorted(samples, v, 'right') = clip(floor((v - start) / step) + 1, 0, num) *)
Theorem searchsorted_left_closed_form : forall start step num v, 0 < step ->
  ss_left NumR (time_samples NumR start step num) v = Z.to_nat (lo_index start step num v).
Proof. exact ss_left_uniform. Qed.

Theorem searchsorted_right_closed_form : forall start step num v, 0 < step ->
  ss_right NumR (time_samples NumR start step num) v = Z.to_nat (hi_index start step num v).
Proof. exact ss_right_uniform. Qed.

(* Time.window: None bounds, bounds between samples, on samples, before the start, after the end *)
Theorem window_closed_form : forall start step num tmin tmax endl endr, 0 < step ->
  window NumR (time_samples NumR start step num) tmin tmax endl endr
  = (match tmin with
     | None => O
     | Some v => Z.to_nat (if endl then lo_index start step num v else hi_index start step num v)
     end,
     match tmax with
     | None => Z.to_nat num
     | Some v => Z.to_nat (if endr then hi_index start step num v else lo_index start step num v)
     end).
Proof. exact window_uniform. Qed.

(* the detected times are grid points start + k step with lo(tmin) <= k < hi(tmax) *)
Theorem detected_times_on_grid : forall start step num rows tmin tmax times, 0 < step ->
  (forall row, In row rows -> length row = Z.to_nat num) ->
  detect_surface NumR (time_samples NumR start step num) rows tmin tmax = Some times ->
  forall r, (r < length rows)%nat ->
    exists k : nat,
      (match tmin with None => 0 | Some v => lo_index start step num v end <= Z.of_nat k
       < match tmax with None => Z.max 0 num | Some v => hi_index start step num v end)%Z /\
      nth r times 0 = INR k * step + start.
Proof. exact detect_surface_uniform. Qed.

(* 0 < step is satisfiable and the closed form is what the model computes on binary64 *)
Example window_closed_form_instance :
  window NumF (time_samples NumF 10%float 1%float 6%Z) (Some 10.5%float) (Some 13.5%float) true true = (1%nat, 4%nat) /\
  window NumF (time_samples NumF 10%float 1%float 6%Z) None (Some 13.5%float) true true = (0%nat, 4%nat) /\
  window NumF (time_samples NumF 10%float 1%float 6%Z) (Some 9%float) None true true = (0%nat, 6%nat) /\
  window NumF (time_samples NumF 10%float 1%float 6%Z) (Some 100%float) None true true = (6%nat, 6%nat) /\
  window NumF (time_samples NumF 10%float 1%float 6%Z) (Some 12%float) (Some 11%float) true true = (2%nat, 2%nat).
Proof. repeat split; vm_compute; reflexivity. Qed.

Example lo_hi_index_instance :
  lo_index 10 1 6 (21 / 2) = 1%Z /\ hi_index 10 1 6 (27 / 2) = 4%Z /\ lo_index 10 1 6 12 = 2%Z /\ hi_index 10 1 6 12 = 3%Z.
Proof.
  unfold lo_index, hi_index.
  replace ((21 / 2 - 10) / 1) with (1 / 2) by field. replace ((27 / 2 - 10) / 1) with (7 / 2) by field.
  replace ((12 - 10) / 1) with (IZR 2) by (simpl; field).
  rewrite Raux.Zceil_IZR, Raux.Zfloor_IZR.
  rewrite (Raux.Zceil_imp 1 (1 / 2)) by (simpl; lra). rewrite (Raux.Zfloor_imp 3 (7 / 2)) by (simpl; lra).
  repeat split.
Qed.

(* Time.closest_index: the first sample nearest to the requested time *)
Theorem closest_index_is_first_nearest : forall samples t r, closest_index NumR samples t = Some r ->
  (r < length samples)%nat /\
  (forall j, (j < length samples)%nat -> Rabs (nth r samples 0 - t) <= Rabs (nth j samples 0 - t)) /\
  (forall j, (j < r)%nat -> Rabs (nth r samples 0 - t) < Rabs (nth j samples 0 - t)).
Proof. exact closest_index_spec. Qed.

Theorem closest_index_raises_iff_no_sample : forall samples t, closest_index NumR samples t = None <-> samples = [].
Proof. exact closest_index_none. Qed.

Example closest_index_instance :
  closest_index NumF (time_samples NumF 10%float 1%float 6%Z) 12.5%float = Some 2%nat /\
  closest_index NumF (time_samples NumF 10%float 1%float 6%Z) 99%float = Some 5%nat.
Proof. split; vm_compute; reflexivity. Qed.

(* == find_probe_loc_from_frontwall on the Probe object ============================================== *)
(* step V on the object (Probe.rotate(rotation_matrix_y(theta)) then Probe.translate((0, 0, z_o)), with
   the CoordinateSystem constructor checks) = the motion of move_probe on the raw coordinates; the
   element normals turn with the probe; nothing raises *)
Theorem move_on_the_object : forall fit (p : probe (T:=R)) dead tx rx ds,
  frame_ok (p_pcs p) -> length dead = length (p_locs p) \/ dead = [] -> length tx = length rx ->
  move_probe_obj NumR fit p dead tx rx ds =
  match move_probe NumR fit (cs_of (p_pcs p)) tx rx dead (p_locs p) ds with
  | inl e => MvRaised e
  | inr r => MvOk (mkProbe (mr_locs r)
                           (option_map (map (mvec NumR (rotation_matrix_y NumR (mr_theta r)))) (p_oris p))
                           (csys_of (mr_pcs r)))
                  (mr_z_o r) (mr_theta r)
  end.
Proof. exact move_probe_obj_R. Qed.

(* the whole function, for a probe in ANY pose (orthonormal PCS) and real or complex samples, is
   find_probe_loc of Model/Registration.v on the PCS coordinates: the returned tuple is
   (z_o, theta, times); on an exception the probe is left RESET; on success it is the moved probe.
   This discharges the caveat "the model starts from the PCS coordinates with PCS = GCS" of the
   theorems above. *)
Theorem frontwall_on_the_objects : forall (A : Type) (mag : A -> R) fit (p : probe (T:=R)) dead
    start step num (rows : list (list A)) tx rx c tmin tmax,
  (forall a, 0 <= mag a) -> frame_ok (p_pcs p) -> length dead = length (p_locs p) \/ dead = [] -> length tx = length rx ->
  frontwall_obj NumR mag fit p dead start step num rows tx rx c tmin tmax =
  match find_probe_loc NumR fit start step num (map (map mag) rows) tx rx dead (locations_pcs NumR p) c tmin tmax with
  | inl e => FwRaised (reset_probe p) e
  | inr (r, times) =>
      FwOk (mkProbe (mr_locs r)
                    (option_map (map (mvec NumR (rotation_matrix_y NumR (mr_theta r)))) (p_oris (reset_probe p)))
                    (csys_of (mr_pcs r)))
           (mr_z_o r) (mr_theta r) times
  end.
Proof. exact @frontwall_obj_R. Qed.

(* no CoordinateSystem setter raises (exact arithmetic) *)
Theorem frontwall_never_raises_from_a_setter : forall (A : Type) (mag : A -> R) fit (p : probe (T:=R)) dead
    start step num (rows : list (list A)) tx rx c tmin tmax,
  frame_ok (p_pcs p) ->
  forall q, frontwall_obj NumR mag fit p dead start step num rows tx rx c tmin tmax <> FwCsRaised q.
Proof. exact @frontwall_obj_no_cs_error. Qed.

(* a failed registration has already moved the probe: it is left where reset_position put it *)
Theorem failed_registration_leaves_the_probe_reset : forall (A : Type) (mag : A -> R) fit (p : probe (T:=R)) dead
    start step num (rows : list (list A)) tx rx c tmin tmax p1 e,
  frame_ok (p_pcs p) ->
  frontwall_obj NumR mag fit p dead start step num rows tx rx c tmin tmax = FwRaised p1 e ->
  p1 = reset_probe p.
Proof. exact @frontwall_obj_raised_state. Qed.

(* reset_position comes first: the outcome depends on the probe only through its PCS view; the pose it
   has in the GCS at the time of the call is irrelevant ... *)
Theorem frontwall_depends_on_the_pcs_view_only : forall (A : Type) (mag : A -> R) fit (p p' : probe (T:=R)) dead
    start step num (rows : list (list A)) tx rx c tmin tmax,
  frame_ok (p_pcs p) -> frame_ok (p_pcs p') ->
  locations_pcs NumR p' = locations_pcs NumR p -> orientations_pcs NumR p' = orientations_pcs NumR p ->
  frontwall_obj NumR mag fit p' dead start step num rows tx rx c tmin tmax
  = frontwall_obj NumR mag fit p dead start step num rows tx rx c tmin tmax.
Proof. exact @frontwall_obj_pcs_view. Qed.

(* ... in particular any rigid motion x -> M x + t (M a proper rotation) of the probe before the call *)
Theorem frontwall_initial_pose_irrelevant : forall (A : Type) (mag : A -> R) fit (n : nat) (M : mat3 R) (t : vec3 R)
    (p p' : probe (T:=R)) dead start step num (rows : list (list A)) tx rx c tmin tmax,
  proper_rotation NumR M -> moved M t p p' -> good n p ->
  frontwall_obj NumR mag fit p' dead start step num rows tx rx c tmin tmax
  = frontwall_obj NumR mag fit p dead start step num rows tx rx c tmin tmax.
Proof. exact @frontwall_obj_moved. Qed.

(* a successful registration moved the probe rigidly: PCS coordinates of elements and normals unchanged *)
Theorem registered_probe_keeps_its_pcs_view : forall (A : Type) (mag : A -> R) fit (n : nat) (p q : probe (T:=R)) dead
    start step num (rows : list (list A)) tx rx c tmin tmax z th times,
  good n p ->
  frontwall_obj NumR mag fit p dead start step num rows tx rx c tmin tmax = FwOk q z th times ->
  good n q /\ locations_pcs NumR q = locations_pcs NumR p /\ orientations_pcs NumR q = orientations_pcs NumR p.
Proof. exact @frontwall_obj_ok_view. Qed.

(* registration is idempotent: on the registered probe with the same data it returns the same tuple
   and leaves the probe in place *)
Theorem frontwall_idempotent : forall (A : Type) (mag : A -> R) fit (n : nat) (p q : probe (T:=R)) dead
    start step num (rows : list (list A)) tx rx c tmin tmax z th times,
  good n p ->
  frontwall_obj NumR mag fit p dead start step num rows tx rx c tmin tmax = FwOk q z th times ->
  frontwall_obj NumR mag fit q dead start step num rows tx rx c tmin tmax = FwOk q z th times.
Proof. exact @frontwall_obj_idempotent. Qed.

(* registration_recovers end to end on the objects: a probe whose elements lie on Ox of its PCS, in any
   pose at the time of the call; echoes (real or complex) whose detected times t satisfy t c / 2 = true
   distance on the usable pulse-echo timetraces => returns (z0, th, times); elements at
   (cos th x, 0, -d), PCS origin (0, 0, z0), axes (cos th, 0, -sin th), (0, 1, 0) *)
Theorem frontwall_registration_recovers_on_objects : forall (A : Type) (mag : A -> R) fit (p : probe (T:=R))
    xs th z0 dead tx rx start step num (rows : list (list A)) (c : R) tmin tmax times,
  is_ls_minimiser fit -> (forall a, 0 <= mag a) ->
  frame_ok (p_pcs p) -> locations_pcs NumR p = on_axis xs -> length dead = length xs \/ dead = [] ->
  - (PI / 2) <= th <= PI / 2 ->
  detect_surface NumR (time_samples NumR start step num) (map (map mag) rows) tmin tmax = Some times ->
  length tx = length rx -> length times = length tx ->
  (2 <= length (selected dead tx rx (map (fun t => (t * c / 2)%R) times)))%nat ->
  (forall t, In t (selected dead tx rx (map (fun t => (t * c / 2)%R) times)) ->
     (0 <= tr_tx t < Z.of_nat (length xs))%Z /\ tr_d t = sin th * trace_x xs t - z0 /\ 0 <= tr_d t) ->
  isclose NumR (lmin NumR (map (trace_x xs) (selected dead tx rx (map (fun t => (t * c / 2)%R) times))))
               (lmax NumR (map (trace_x xs) (selected dead tx rx (map (fun t => (t * c / 2)%R) times)))) = false ->
  frontwall_obj NumR mag fit p dead start step num rows tx rx c tmin tmax
  = FwOk (mkProbe (map (fun x => (cos th * x, 0, - (sin th * x - z0))) xs)
                  (option_map (map (mvec NumR (rotation_matrix_y NumR th))) (p_oris (reset_probe p)))
                  (mkCS (0, 0, z0) (cos th, 0, - sin th) (0, 1, 0)))
         z0 th times.
Proof. exact @frontwall_obj_recovers. Qed.

(* == the whole function: unused timetraces, timetrace order ========================================== *)
(* the sample rows of non-pulse-echo and dead-element timetraces are processed by the detection but
   never matter: same error, or same pose and same detected times on every usable timetrace *)
Theorem frontwall_ignores_unused_rows : forall fit start step num rows1 rows2 tx rx dead locs (c : R) tmin tmax,
  length rows1 = length rows2 ->
  (forall row, In row rows1 \/ In row rows2 -> length row = Z.to_nat num) ->
  (forall i, pulse_echo dead (nth i tx 0%Z) (nth i rx 0%Z) = true -> nth i rows1 [] = nth i rows2 []) ->
  same_registration tx rx dead
    (find_probe_loc NumR fit start step num rows1 tx rx dead locs c tmin tmax)
    (find_probe_loc NumR fit start step num rows2 tx rx dead locs c tmin tmax).
Proof. exact find_probe_loc_unused_rows. Qed.

(* any order of the timetraces (tx, rx and the sample rows permuted together): same error, or same pose
   and the detected times permuted the same way *)
Theorem frontwall_timetrace_order_irrelevant : forall fit start step num rows rows' tx rx tx' rx' dead locs (c : R) tmin tmax,
  is_ls_minimiser fit ->
  length tx = length rx -> length rows = length tx -> length tx' = length rx' -> length rows' = length tx' ->
  (forall row, In row rows \/ In row rows' -> length row = Z.to_nat num) ->
  Permutation (combine (combine tx rx) rows) (combine (combine tx' rx') rows') ->
  same_registration_perm tx rx tx' rx'
    (find_probe_loc NumR fit start step num rows tx rx dead locs c tmin tmax)
    (find_probe_loc NumR fit start step num rows' tx' rx' dead locs c tmin tmax).
Proof. exact find_probe_loc_perm. Qed.

(* == non-vacuity of the object-level theorems: one concrete registration ============================= *)
(* a two-element probe (pitch 1, reference = element 0) lying displaced at (5, 0, 7) *)
Definition ex_probe : probe (T:=R) :=
  mkProbe [(5, 0, 7); (6, 0, 7)] None (mkCS (5, 0, 7) (1, 0, 0) (0, 1, 0)).
(* three timetraces in a non-canonical order: (1,1), (0,1), (0,0); echo of height 1 at the first of
   the two samples t = 2, 3 on the pulse-echo timetraces, elsewhere on the cross timetrace *)
Definition ex_rows : list (list R) := [[1; 0]; [0; 1]; [1; 0]].
Definition ex_times : list R := [0 * 1 + 2; 1 * 1 + 2; 0 * 1 + 2].

Example ex_probe_frame_ok : frame_ok (p_pcs ex_probe).
Proof. unfold frame_ok, unit_v, ex_probe. cbn [p_pcs cs_i cs_j]. v3_unfold. repeat split; ring. Qed.

Example ex_probe_good : good 2 ex_probe.
Proof. split; [exact ex_probe_frame_ok|]. split; [reflexivity | exact I]. Qed.

Example ex_probe_on_axis : locations_pcs NumR ex_probe = on_axis [0; 1].
Proof.
  unfold locations_pcs, ex_probe, on_axis. cbn [p_locs p_pcs map]. rewrite !cs_from_gcs_R.
  unfold cs_axes, cs_k. cbn [cs_o cs_i cs_j]. v3_unfold. repeat f_equal; ring.
Qed.

Example ex_detect :
  detect_surface NumR (time_samples NumR 2 1 2) (map (map Rabs) ex_rows) None None = Some ex_times.
Proof.
  assert (time_samples NumR 2 1 2 = [0 * 1 + 2; 1 * 1 + 2]) as -> by reflexivity.
  unfold ex_rows. cbn [map]. rewrite !Rabs_R1, !Rabs_R0.
  unfold detect_surface, window. cbn [fst snd length slice Nat.sub skipn firstn map].
  assert (forall row i, (i < 2)%nat ->
            (forall j, (j < 2)%nat -> Rabs (nth j row 0) <= Rabs (nth i row 0)) ->
            (forall j, (j < i)%nat -> Rabs (nth j row 0) < Rabs (nth i row 0)) -> length row = 2%nat ->
            detect_trace NumR [0 * 1 + 2; 1 * 1 + 2] 0 2 row = Some (nth i [0 * 1 + 2; 1 * 1 + 2] 0)) as Hrow.
  { intros row i Hi Hall Hfirst HL. apply detect_trace_complete; [exact HL | apply le_n | lia | |].
    - intros j Hj. apply Hall. lia.
    - intros j Hj. apply Hfirst. lia. }
  rewrite (Hrow [1; 0] 0%nat), (Hrow [0; 1] 1%nat); try reflexivity; try lia;
    try (intros j Hj; assert (j = 0 \/ j = 1)%nat as [-> | ->] by lia; cbn [nth]; rewrite ?Rabs_R1, ?Rabs_R0; first [lra | lia]).
Qed.

Example frontwall_objects_instance :
  frontwall_obj NumR Rabs fit_total ex_probe [false; false] 2 1 2 ex_rows [1; 0; 0]%Z [1; 1; 0]%Z 1 None None
  = FwOk (mkProbe (map (fun x => (cos 0 * x, 0, - (sin 0 * x - (-1)))) [0; 1]) None
                  (mkCS (0, 0, -1) (cos 0, 0, - sin 0) (0, 1, 0)))
         (-1) 0 ex_times.
Proof.
  set (ds := map (fun t => (t * 1 / 2)%R) ex_times).
  assert (selected [false; false] [1; 0; 0]%Z [1; 1; 0]%Z ds
          = [((1, 1)%Z, (0 * 1 + 2) * 1 / 2); ((0, 0)%Z, (0 * 1 + 2) * 1 / 2)]) as Hsel by reflexivity.
  apply (frontwall_obj_recovers Rabs fit_total ex_probe [0; 1] 0 (-1) [false; false] [1; 0; 0]%Z [1; 1; 0]%Z
           2 1 2%Z ex_rows 1 None None ex_times).
  - exact fit_total_is_ls_minimiser.
  - exact Rabs_pos.
  - exact ex_probe_frame_ok.
  - exact ex_probe_on_axis.
  - left. reflexivity.
  - pose proof PI_RGT_0. lra.
  - exact ex_detect.
  - reflexivity.
  - reflexivity.
  - fold ds. rewrite Hsel. cbn [length]. apply le_n.
  - fold ds. rewrite Hsel. intros t [<- | [<- | []]]; unfold trace_x, tr_tx, tr_d;
      cbn [fst snd length nth Z.to_nat Pos.to_nat Pos.iter_op Nat.add]; rewrite sin_0;
      (split; [split; [apply Z.leb_le | apply Z.ltb_lt]; reflexivity | split; lra]).
  - fold ds. rewrite Hsel.
    assert (map (trace_x [0; 1]) [((1, 1)%Z, (0 * 1 + 2) * 1 / 2); ((0, 0)%Z, (0 * 1 + 2) * 1 / 2)] = [1; 0]) as -> by reflexivity.
    apply (spread_not_close _ 0 1 1).
    + right. left. reflexivity.
    + left. reflexivity.
    + intros x [<- | [<- | []]]; [rewrite Rabs_R1 | rewrite Rabs_R0]; lra.
    + replace (0 - 1) with (- (1)) by ring. rewrite Rabs_Ropp, Rabs_R1. unfold tolA, tolR. lra.
Qed.

(* hence the hypothesis of frontwall_idempotent is satisfiable, and its conclusion on this instance *)
Example frontwall_idempotent_instance :
  let q := mkProbe (map (fun x => (cos 0 * x, 0, - (sin 0 * x - (-1)))) [0; 1]) None
                   (mkCS (0, 0, -1) (cos 0, 0, - sin 0) (0, 1, 0)) in
  frontwall_obj NumR Rabs fit_total q [false; false] 2 1 2 ex_rows [1; 0; 0]%Z [1; 1; 0]%Z 1 None None
  = FwOk q (-1) 0 ex_times.
Proof.
  exact (frontwall_obj_idempotent Rabs fit_total 2 ex_probe _ [false; false] 2 1 2%Z ex_rows [1; 0; 0]%Z [1; 1; 0]%Z 1 None None
           (-1) 0 ex_times ex_probe_good frontwall_objects_instance).
Qed.

(* the same probe brought back to the origin (PCS = GCS) gives the same outcome *)
Example frontwall_initial_pose_instance :
  frontwall_obj NumR Rabs fit_total (mkProbe [(0, 0, 0); (1, 0, 0)] None (Probe.gcs NumR)) [false; false] 2 1 2 ex_rows
                [1; 0; 0]%Z [1; 1; 0]%Z 1 None None
  = frontwall_obj NumR Rabs fit_total ex_probe [false; false] 2 1 2 ex_rows [1; 0; 0]%Z [1; 1; 0]%Z 1 None None.
Proof.
  apply frontwall_obj_pcs_view; [exact ex_probe_frame_ok | exact gcs_frame_ok | | reflexivity].
  rewrite ex_probe_on_axis. unfold locations_pcs, on_axis. cbn [p_locs p_pcs map]. rewrite !cs_from_gcs_R.
  unfold cs_axes, cs_k, Probe.gcs. cbn [cs_o cs_i cs_j]. v3_unfold. repeat f_equal; ring.
Qed.

(* garbage on the cross timetrace (0, 1): same registration *)
Example frontwall_unused_rows_instance :
  same_registration [1; 0; 0]%Z [1; 1; 0]%Z [false; false]
    (find_probe_loc NumR fit_total 2 1 2 [[1; 0]; [0; 1]; [1; 0]] [1; 0; 0]%Z [1; 1; 0]%Z [false; false] (on_axis [0; 1]) 1 None None)
    (find_probe_loc NumR fit_total 2 1 2 [[1; 0]; [7; -9]; [1; 0]] [1; 0; 0]%Z [1; 1; 0]%Z [false; false] (on_axis [0; 1]) 1 None None).
Proof.
  apply find_probe_loc_unused_rows.
  - reflexivity.
  - intros row [H | H]; cbn [In] in H; intuition (subst; reflexivity).
  - intros [| [| [| i]]] H; try reflexivity; discriminate H.
Qed.

(* the canonical order (0,0), (0,1), (1,1) instead of (1,1), (0,1), (0,0) *)
Example frontwall_order_instance :
  same_registration_perm [1; 0; 0]%Z [1; 1; 0]%Z [0; 0; 1]%Z [0; 1; 1]%Z
    (find_probe_loc NumR fit_total 2 1 2 [[1; 0]; [0; 1]; [2; 0]] [1; 0; 0]%Z [1; 1; 0]%Z [false; false] (on_axis [0; 1]) 1 None None)
    (find_probe_loc NumR fit_total 2 1 2 [[2; 0]; [0; 1]; [1; 0]] [0; 0; 1]%Z [0; 1; 1]%Z [false; false] (on_axis [0; 1]) 1 None None).
Proof.
  apply find_probe_loc_perm; try reflexivity.
  - exact fit_total_is_ls_minimiser.
  - intros row [H | H]; cbn [In] in H; intuition (subst; reflexivity).
  - cbn [combine]. apply Permutation_rev.
Qed.
