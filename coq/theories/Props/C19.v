(* Props/C19.v — Front-wall registration recovers the true probe standoff and tilt.
   Statements only (proofs: Proofs/RegistrationProofs.v, Proofs/RegistrationTimeProofs.v).
   Exact arithmetic (NumR).  numpy.polyfit(x, d, 1) is the function argument `fit`
   with the hypothesis `is_ls_minimiser fit` (it returns (slope, intercept) minimising
   the sum of squared residuals); `fit_line` is the closed-form normal-equation
   solution the executions use.
   Not modelled (compared by the harness only): Probe.reset_position inside
   find_probe_loc_from_frontwall — the model starts from the PCS coordinates with
   PCS = GCS; complex (analytic) timetraces in detect_surface_from_extrema. *)
From Coq Require Import Reals ZArith List Bool Permutation PrimFloat Lra.
From Arim Require Import Base.Num Base.NumR Base.NumF Model.Registration
  Proofs.RegistrationProofs Proofs.RegistrationTimeProofs.
Import ListNotations.
Local Open Scope R_scope.

(* == least-squares line ======================================================= *)
(* non-degeneracy of the normal equations: n Sxx - Sx^2 > 0 as soon as two abscissae differ *)
Theorem fit_nondegenerate : forall xs x1 x2, In x1 xs -> In x2 xs -> x1 <> x2 ->
  0 < INR (length xs) * rsum (map (fun x => x * x) xs) - rsum xs * rsum xs.
Proof. exact den_pos_xs. Qed.

(* the closed form is a least-squares minimiser ... *)
Theorem fit_minimises : forall xs ds a b x1 x2,
  length xs = length ds -> In x1 xs -> In x2 xs -> x1 <> x2 ->
  sse xs ds (fst (fit_line NumR xs ds)) (snd (fit_line NumR xs ds)) <= sse xs ds a b.
Proof. exact fit_line_is_minimiser. Qed.

(* ... the only one: whatever numpy.polyfit does, it returns the closed-form line *)
Theorem fit_oracle_is_closed_form : forall fit xs ds x1 x2,
  is_ls_minimiser fit -> length xs = length ds -> In x1 xs -> In x2 xs -> x1 <> x2 ->
  fit xs ds = fit_line NumR xs ds.
Proof. exact oracle_is_closed_form. Qed.

(* fit_exact: collinear data d = a x + b at >= 2 distinct abscissae are reproduced *)
Theorem fit_exact : forall xs a b x1 x2, In x1 xs -> In x2 xs -> x1 <> x2 ->
  fit_line NumR xs (map (fun x => a * x + b) xs) = (a, b).
Proof. exact fit_line_exact. Qed.

Theorem fit_exact_oracle : forall fit xs a b x1 x2,
  is_ls_minimiser fit -> In x1 xs -> In x2 xs -> x1 <> x2 ->
  fit xs (map (fun x => a * x + b) xs) = (a, b).
Proof.
  intros fit xs a b x1 x2 Hfit H1 H2 Hne.
  rewrite (oracle_is_closed_form fit xs _ x1 x2 Hfit (eq_sym (map_length _ xs)) H1 H2 Hne).
  exact (fit_line_exact xs a b x1 x2 H1 H2 Hne).
Qed.

(* == the whole registration move ============================================== *)
(* on EVERY input (error outcomes included) the result does not depend on which
   least-squares minimiser the oracle returns *)
Theorem registration_oracle_free : forall fit pcs tx rx dead locs ds,
  is_ls_minimiser fit ->
  move_probe NumR fit pcs tx rx dead locs ds = move_probe NumR (fit_line NumR) pcs tx rx dead locs ds.
Proof. exact move_probe_oracle. Qed.

(* invariant under any permutation of the timetraces (tx, rx and distances permuted together) *)
Theorem registration_permutation_invariant : forall fit pcs dead locs tx rx ds tx' rx' ds',
  is_ls_minimiser fit ->
  length tx = length rx -> length ds = length tx -> length tx' = length rx' -> length ds' = length tx' ->
  Permutation (combine (combine tx rx) ds) (combine (combine tx' rx') ds') ->
  move_probe NumR fit pcs tx rx dead locs ds = move_probe NumR fit pcs tx' rx' dead locs ds'.
Proof. exact move_probe_perm. Qed.

(* independent of the values attached to non-pulse-echo timetraces and to dead elements *)
Theorem registration_ignores_non_pulse_echo : forall fit pcs dead locs tx rx ds1 ds2,
  length ds1 = length ds2 ->
  (forall i, pulse_echo dead (nth i tx 0%Z) (nth i rx 0%Z) = true -> nth i ds1 0 = nth i ds2 0) ->
  move_probe NumR fit pcs tx rx dead locs ds1 = move_probe NumR fit pcs tx rx dead locs ds2.
Proof. exact move_probe_indep. Qed.

(* a readable sufficient condition for the code's `assert not isclose(xA, xB)` *)
Theorem abscissae_spread_suffices : forall l x1 x2 X,
  In x1 l -> In x2 l -> (forall x, In x l -> Rabs x <= X) -> tolA + tolR * X < Rabs (x1 - x2) ->
  isclose NumR (lmin NumR l) (lmax NumR l) = false.
Proof. exact spread_not_close. Qed.

(* registration_recovers.  A probe lying on Ox in its PCS (abscissae xs: ANY reals, so
   any reference point — the PCS origin is where x = 0), PCS = GCS.  True pose: rotation
   of th about Oy then translation (t_x, 0, z0), i.e. element x sits at
   (cos th * x + t_x, 0, - sin th * x + z0); measured distance of a usable pulse-echo
   timetrace: d = -z = sin th * x - z0 >= 0.  Then the call succeeds, reports
   (z_o, theta) = (z0, th), every element (dead or not, used or not) ends at
   z = -(sin th * x - z0) = minus its distance, y = 0, x = cos th * x (the true position
   up to the unobservable shift t_x), and the PCS origin ends at (0, 0, z0).
   Stated for |th| <= pi/2, which contains the (-45, 45) degrees of the property. *)
Theorem registration_recovers : forall fit xs th z0 dead tx rx ds,
  is_ls_minimiser fit ->
  - (PI / 2) <= th <= PI / 2 ->
  length tx = length rx -> length ds = length tx ->
  (2 <= length (selected dead tx rx ds))%nat ->
  (forall t, In t (selected dead tx rx ds) ->
     (0 <= tr_tx t < Z.of_nat (length xs))%Z /\ tr_d t = sin th * trace_x xs t - z0 /\ 0 <= tr_d t) ->
  isclose NumR (lmin NumR (map (trace_x xs) (selected dead tx rx ds)))
               (lmax NumR (map (trace_x xs) (selected dead tx rx ds))) = false ->
  move_probe NumR fit (gcs NumR) tx rx dead (on_axis xs) ds
  = inr (mkMove z0 th
                (map (fun x => (cos th * x, 0, - (sin th * x - z0))) xs)
                ((0, 0, z0), (cos th, 0, - sin th), (0, 1, 0))).
Proof. exact move_probe_recovers. Qed.

(* the same for a uniform array of n elements of any pitch (either sign) whose reference
   point lies rho pitches after element 0 (rho = r: reference element r; (n-1)/2: 'mean'),
   as soon as two usable pulse-echo timetraces belong to different elements and the pitch
   exceeds numpy's isclose tolerance *)
Theorem registration_recovers_linear_array : forall fit n pitch rho th z0 dead tx rx ds t1 t2,
  is_ls_minimiser fit ->
  - (PI / 2) <= th <= PI / 2 ->
  length tx = length rx -> length ds = length tx ->
  (forall t, In t (selected dead tx rx ds) ->
     (0 <= tr_tx t < Z.of_nat n)%Z /\
     tr_d t = sin th * ((IZR (tr_tx t) - rho) * pitch) - z0 /\ 0 <= tr_d t) ->
  In t1 (selected dead tx rx ds) -> In t2 (selected dead tx rx ds) -> tr_tx t1 <> tr_tx t2 ->
  tolA + tolR * ((INR n + Rabs rho) * Rabs pitch) < Rabs pitch ->
  move_probe NumR fit (gcs NumR) tx rx dead (on_axis (linear_array n pitch rho)) ds
  = inr (mkMove z0 th
                (map (fun x => (cos th * x, 0, - (sin th * x - z0))) (linear_array n pitch rho))
                ((0, 0, z0), (cos th, 0, - sin th), (0, 1, 0))).
Proof. exact move_probe_recovers_linear_array. Qed.

(* find_probe_loc_from_frontwall: detected times t with t * c / 2 = the true distances *)
Theorem frontwall_registration_recovers :
  forall fit xs th z0 dead tx rx start step num rows (c : R) tmin tmax times,
  is_ls_minimiser fit ->
  - (PI / 2) <= th <= PI / 2 ->
  detect_surface NumR (time_samples NumR start step num) rows tmin tmax = Some times ->
  length tx = length rx -> length times = length tx ->
  (2 <= length (selected dead tx rx (map (fun t => (t * c / 2)%R) times)))%nat ->
  (forall t, In t (selected dead tx rx (map (fun t => (t * c / 2)%R) times)) ->
     (0 <= tr_tx t < Z.of_nat (length xs))%Z /\ tr_d t = sin th * trace_x xs t - z0 /\ 0 <= tr_d t) ->
  isclose NumR (lmin NumR (map (trace_x xs) (selected dead tx rx (map (fun t => (t * c / 2)%R) times))))
               (lmax NumR (map (trace_x xs) (selected dead tx rx (map (fun t => (t * c / 2)%R) times)))) = false ->
  find_probe_loc NumR fit start step num rows tx rx dead (on_axis xs) c tmin tmax
  = inr (mkMove z0 th
                (map (fun x => (cos th * x, 0, - (sin th * x - z0))) xs)
                ((0, 0, z0), (cos th, 0, - sin th), (0, 1, 0)), times).
Proof. exact find_probe_loc_recovers. Qed.

(* == Time.window and detect_surface_from_extrema ================================ *)
Theorem time_samples_spec : forall start step num k, (k < Z.to_nat num)%nat ->
  nth k (time_samples NumR start step num) 0 = INR k * step + start.
Proof. exact time_samples_nth. Qed.

Theorem time_samples_are_sorted : forall start step num, 0 <= step ->
  sorted (time_samples NumR start step num).
Proof. exact time_samples_sorted. Qed.

(* window_spec: the slice selects exactly the samples inside the interval, for the four
   endpoint conventions (searchsorted 'left'/'right') *)
Theorem window_spec : forall samples tmin tmax endl endr, sorted samples ->
  forall i, (i < length samples)%nat ->
  ((fst (window NumR samples tmin tmax endl endr) <= i < snd (window NumR samples tmin tmax endl endr))%nat
   <-> in_window tmin tmax endl endr (nth i samples 0)).
Proof. exact window_spec_R. Qed.

(* extrema_spec: every returned time is a sample time inside [tmin, tmax] whose |value| is
   maximal among the samples of the window, and the first such *)
Theorem extrema_spec : forall samples rows tmin tmax times,
  sorted samples -> (forall row, In row rows -> length row = length samples) ->
  detect_surface NumR samples rows tmin tmax = Some times ->
  length times = length rows /\
  forall r, (r < length rows)%nat ->
    exists i, (i < length samples)%nat /\ nth r times 0 = nth i samples 0
      /\ in_window tmin tmax true true (nth i samples 0)
      /\ (forall j, (j < length samples)%nat -> in_window tmin tmax true true (nth j samples 0) ->
                    Rabs (nth j (nth r rows []) 0) <= Rabs (nth i (nth r rows []) 0))
      /\ (forall j, (j < i)%nat -> in_window tmin tmax true true (nth j samples 0) ->
                    Rabs (nth j (nth r rows []) 0) < Rabs (nth i (nth r rows []) 0)).
Proof. exact detect_surface_spec. Qed.

(* the error (ValueError of argmax) is raised exactly when no sample lies in the window *)
Theorem extrema_error_iff_empty_window : forall samples rows tmin tmax,
  sorted samples -> (forall row, In row rows -> length row = length samples) ->
  (detect_surface NumR samples rows tmin tmax = None <->
   forall i, (i < length samples)%nat -> ~ in_window tmin tmax true true (nth i samples 0)).
Proof. exact detect_surface_none. Qed.

(* completeness per timetrace: the first largest |sample| of the window is the answer *)
Theorem extrema_complete : forall samples imin imax row i,
  length row = length samples -> (imax <= length samples)%nat -> (imin <= i < imax)%nat ->
  (forall j, (imin <= j < imax)%nat -> Rabs (nth j row 0) <= Rabs (nth i row 0)) ->
  (forall j, (imin <= j < i)%nat -> Rabs (nth j row 0) < Rabs (nth i row 0)) ->
  detect_trace NumR samples imin imax row = Some (nth i samples 0).
Proof. exact detect_trace_complete. Qed.

(* == non-vacuity ================================================================ *)
(* the oracle hypothesis is satisfiable (a total least-squares minimiser exists) *)
Theorem ls_oracle_exists : exists fit, is_ls_minimiser fit.
Proof. exact ls_minimiser_exists. Qed.

(* the hypotheses of registration_recovers are satisfiable: two elements at x = 0 and
   x = 1, a three-timetrace frame in a non-canonical order with garbage (-7) on the
   cross timetrace, tilt 0, standoff 1 *)
Example registration_recovers_instance :
  move_probe NumR (fit_line NumR) (gcs NumR) [1; 0; 0]%Z [1; 1; 0]%Z [false; false] (on_axis [0; 1]) [1; -7; 1]
  = inr (mkMove (-1) 0 (map (fun x => (cos 0 * x, 0, - (sin 0 * x - (-1)))) [0; 1])
                ((0, 0, -1), (cos 0, 0, - sin 0), (0, 1, 0))).
Proof.
  assert (selected [false; false] [1; 0; 0]%Z [1; 1; 0]%Z [1; -7; 1] = [((1, 1)%Z, 1); ((0, 0)%Z, 1)]) as Hsel
      by reflexivity.
  apply move_probe_recovers_closed.
  - pose proof PI_RGT_0. lra.
  - reflexivity.
  - reflexivity.
  - rewrite Hsel. cbn [length]. apply le_n.
  - rewrite Hsel. intros t [<- | [<- | []]]; unfold trace_x, tr_tx, tr_d; cbn [fst snd length nth Z.to_nat Pos.to_nat Pos.iter_op Nat.add];
      rewrite sin_0; (split; [split; [apply Z.leb_le | apply Z.ltb_lt]; reflexivity | split; lra]).
  - rewrite Hsel.
    assert (map (trace_x [0; 1]) [((1, 1)%Z, 1); ((0, 0)%Z, 1)] = [1; 0]) as -> by reflexivity.
    apply (spread_not_close _ 0 1 1).
    + right. left. reflexivity.
    + left. reflexivity.
    + intros x [<- | [<- | []]]; [rewrite Rabs_R1 | rewrite Rabs_R0]; lra.
    + replace (0 - 1) with (- (1)) by ring. rewrite Rabs_Ropp, Rabs_R1. unfold tolA, tolR. lra.
Qed.

(* binary64 executions of the model (vm_compute): the negative extremum -3 wins over 2,
   the FIRST of the tied |values| is returned, window bounds on samples are inclusive *)
Example detect_surface_instance :
  detect_surface NumF (time_samples NumF 10%float 1%float 6%Z) [[1; -3; 2; 3; -3; 0.5]%float] (Some 11%float) (Some 14%float)
  = Some [11%float].
Proof. vm_compute. reflexivity. Qed.

Example detect_surface_value_not_abs_would_differ :
  detect_surface NumF (time_samples NumF 10%float 1%float 6%Z) [[1; -3; 2; 2.5; -1; 0.5]%float] None None = Some [11%float].
Proof. vm_compute. reflexivity. Qed.

Example detect_surface_empty_window :
  detect_surface NumF (time_samples NumF 10%float 1%float 6%Z) [[1; -3; 2; 3; -3; 0.5]%float] (Some 11.25%float) (Some 11.75%float)
  = None.
Proof. vm_compute. reflexivity. Qed.

Example window_instance :
  window NumF (time_samples NumF 10%float 1%float 6%Z) (Some 11%float) (Some 14%float) true true = (1%nat, 5%nat)
  /\ window NumF (time_samples NumF 10%float 1%float 6%Z) (Some 11%float) (Some 14%float) false false = (2%nat, 4%nat).
Proof. split; vm_compute; reflexivity. Qed.
