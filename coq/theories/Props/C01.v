(* Props/C01.v — Ray tracing returns the globally fastest discrete ray (Fermat).
   Only statements; every proof is `exact <lemma>` (lemmas in Proofs/MinPlusProofs.v,
   Proofs/FermatProofs.v, Proofs/FermatSnell.v, Proofs/FermatSnellN.v).  Models: Model/MinPlus.v (the kernel _find_minimum_times),
   Model/Fermat.v (FermatPath, Rays, FermatSolver with its caches).

   The cost type T is ABSTRACT: `leb` a total preorder, `ltb a b = negb (leb b a)`
   the code's strict `<`, `add` monotone in its first argument — nothing else.
   IEEE non-NaN doubles satisfy these laws, so minplus_* / solve_optimal /
   solve_realised / solver_grouping / discrete_between are not "up to rounding".
   Reversal additionally needs an associative-commutative `add` and a symmetric
   distance (exact arithmetic: R, Q), which floats do not have.

   Vocabulary:
     path       Leg (Leg (Start P0) v0 P1) v1 P2 ...  = FermatPath (P0, v0, P1, v1, P2, ...)
     wf P v Q i j   travel time from point i of P to point j of Q at velocity v
     leg_model  the array distance_pairwise(P, Q) / v is the table of wf P v Q
                (proved for the concrete instance: concrete_leg_model)
     cost p ridx = Some c   ridx = [i_n; ...; i_0] (last point first) is a valid index
                tuple for p (right length, every index in range) and c is the
                LEFT-nested sum ((w_0 + w_1) + w_2) + ... the code accumulates
     interior_ok p   every interior point set is non-empty (otherwise the code raises
                ZeroDivisionError and solve_pure returns None)
     ray_of r i j = indices[:, i, j]

   What these theorems do NOT cover (sampled at run time by harness/prop_C01.py):
   memory layout (C/F), dtype casts, the thread pool (C13), the
   gone_through_extreme_points warning.  The continuous problem enters discrete_between
   through an arbitrary lower bound L; for ANY NUMBER of flat parallel interfaces in the
   plane the last section identifies the best such L: the travel time of the ray that
   obeys Snell's law at every interface is the global minimum of the continuous travel
   time (snell_global_min, discrete_between_snell).  Curved or non-parallel surfaces and
   3-D rays: not mechanised (there L stays abstract). *)
From Coq Require Import Arith List Bool ZArith QArith Lia Reals.
From Arim Require Import Base.Num Base.NumQ Model.MinPlus Model.Fermat
                         Proofs.MinPlusProofs Proofs.FermatProofs Proofs.FermatSnell
                         Proofs.FermatSnellN.
Import ListNotations.
Local Open Scope nat_scope.

(* ---- the kernel ---------------------------------------------------------- *)
(* for all table sizes with m >= 1: the returned time is <= every candidate
   time_1[i,k] + time_2[k,j], equals the candidate at the returned index, and
   (strict `<`) every earlier candidate is strictly larger *)
Theorem minplus_spec : forall T (leb ltb : T -> T -> bool) (add : T -> T -> T),
  total_preorder leb ltb ->
  forall (t1 t2c : list (list T)) i j r c,
    nth_error t1 i = Some r -> nth_error t2c j = Some c -> r <> [] -> c <> [] ->
    exists b kb,
      get2 (minplus ltb add t1 t2c) i j = Some (Some (b, kb))
      /\ (exists x y, nth_error r kb = Some x /\ nth_error c kb = Some y /\ b = add x y)
      /\ (forall k x y, nth_error r k = Some x -> nth_error c k = Some y -> leb b (add x y) = true)
      /\ (forall k x y, k < kb -> nth_error r k = Some x -> nth_error c k = Some y -> ltb b (add x y) = true).
Proof. exact minplus_spec_lemma. Qed.

(* the returned index is the LEAST minimiser *)
Theorem minplus_first : forall T (leb ltb : T -> T -> bool) (add : T -> T -> T),
  total_preorder leb ltb ->
  forall (t1 t2c : list (list T)) i j r c b kb,
    nth_error t1 i = Some r -> nth_error t2c j = Some c ->
    get2 (minplus ltb add t1 t2c) i j = Some (Some (b, kb)) ->
    forall k x y, k < kb -> nth_error r k = Some x -> nth_error c k = Some y -> ltb b (add x y) = true.
Proof. exact minplus_first_lemma. Qed.

(* a cell stays at (inf, -1) when there is no candidate (m = 0) *)
Theorem minplus_empty : forall T (ltb : T -> T -> bool) (add : T -> T -> T) (r c : list T),
  r = [] \/ c = [] -> minplus_cell ltb add r c = None.
Proof. exact minplus_empty_lemma. Qed.

(* one task of find_minimum_times: the kernel on rows a..b-1 of time_1 and columns
   c..d-1 of time_2 is the block [a:b, c:d] of the kernel on the whole tables
   (C13 shows that the blocks partition the output) *)
Theorem minplus_tile : forall T (ltb : T -> T -> bool) (add : T -> T -> T) (t1 t2c : list (list T)) a b c d,
  minplus ltb add (slice a b t1) (slice c d t2c) = block a b c d (minplus ltb add t1 t2c).
Proof. exact minplus_tile_lemma. Qed.

(* ---- the solver ------------------------------------------------------------ *)
(* the executable instance over any Num record satisfies the leg-table hypothesis *)
Theorem concrete_leg_model : forall T (N : Num T),
  leg_model psize (distance_pairwise N) (ndiv N) (leg_entry N).
Proof. exact @c_leg_tab. Qed.

(* the solver answers (no error) on every path with >= 1 leg and non-empty interior sets,
   with arrays of the right shapes *)
Theorem solve_defined : forall T D V PS (leb ltb : T -> T -> bool) (add : T -> T -> T)
    (size : PS -> nat) (dtab : PS -> PS -> list (list D)) (divv : D -> V -> T)
    (wf : PS -> V -> PS -> nat -> nat -> T),
  total_preorder leb ltb -> leg_model size dtab divv wf ->
  forall p : fpath V PS, 1 <= nlegs p -> interior_ok size p ->
  exists r, solve_pure ltb add size dtab divv p = Some r.
Proof. exact solve_defined_b. Qed.

Theorem solve_shapes : forall T D V PS (leb ltb : T -> T -> bool) (add : T -> T -> T)
    (size : PS -> nat) (dtab : PS -> PS -> list (list D)) (divv : D -> V -> T)
    (wf : PS -> V -> PS -> nat -> nat -> T),
  total_preorder leb ltb -> leg_model size dtab divv wf ->
  forall (p : fpath V PS) r, interior_ok size p -> solve_pure ltb add size dtab divv p = Some r ->
  length (r_times r) = size (startp p)
  /\ (forall row, In row (r_times r) -> length row = size (endp p))
  /\ length (r_int r) = nlegs p - 1.
Proof. exact solve_shape_b. Qed.

(* times[i][j] <= cost of EVERY valid tuple of indices from i to j (any number of legs) *)
Theorem solve_optimal : forall T D V PS (leb ltb : T -> T -> bool) (add : T -> T -> T)
    (size : PS -> nat) (dtab : PS -> PS -> list (list D)) (divv : D -> V -> T)
    (wf : PS -> V -> PS -> nat -> nat -> T),
  total_preorder leb ltb -> monotone_add leb add -> leg_model size dtab divv wf ->
  forall (p : fpath V PS) r ridx c,
    interior_ok size p -> solve_pure ltb add size dtab divv p = Some r ->
    cost add size wf p ridx = Some c ->
    exists t, get2 (r_times r) (last ridx 0) (hd 0 ridx) = Some t /\ leb t c = true.
Proof. exact solve_optimal_b. Qed.

(* the reported indices realise exactly the reported time: indices[0] = i,
   indices[last] = j, every index in range (cost is defined), cost = times[i][j] *)
Theorem solve_realised : forall T D V PS (leb ltb : T -> T -> bool) (add : T -> T -> T)
    (size : PS -> nat) (dtab : PS -> PS -> list (list D)) (divv : D -> V -> T)
    (wf : PS -> V -> PS -> nat -> nat -> T),
  total_preorder leb ltb -> leg_model size dtab divv wf ->
  forall (p : fpath V PS) r i j,
    interior_ok size p -> solve_pure ltb add size dtab divv p = Some r ->
    i < size (startp p) -> j < size (endp p) ->
    exists t, get2 (r_times r) i j = Some t
              /\ cost add size wf p (rev (ray_of r i j)) = Some t
              /\ hd 0 (ray_of r i j) = i /\ last (ray_of r i j) 0 = j
              /\ length (ray_of r i j) = S (nlegs p).
Proof. exact solve_realised_b. Qed.

(* the same two theorems for the solver run with ANY argmin choice function `sel` returning a
   minimiser (in range, attained, <= every candidate): `solve_sel sel` is the answer computed
   with that choice; the model (first strict minimiser) is the instance sel = cell1 ltb *)
Theorem solve_optimal_any_choice : forall T V PS (leb : T -> T -> bool) (add : T -> T -> T) (size : PS -> nat)
    (wf : PS -> V -> PS -> nat -> nat -> T) (sel : nat -> (nat -> T) -> T * nat),
  (forall a, leb a a = true) -> (forall a b c, leb a b = true -> leb b c = true -> leb a c = true) ->
  monotone_add leb add -> argmin_choice leb sel ->
  forall (h : fpath V PS) v P ridx c, interior_ok size (Leg h v P) ->
    cost add size wf (Leg h v P) ridx = Some c ->
    exists t, get2 (r_times (solve_sel T V PS add size wf sel h v P)) (last ridx 0) (hd 0 ridx) = Some t
              /\ leb t c = true.
Proof. exact any_choice_optimal_lemma. Qed.

Theorem solve_realised_any_choice : forall T V PS (leb : T -> T -> bool) (add : T -> T -> T) (size : PS -> nat)
    (wf : PS -> V -> PS -> nat -> nat -> T) (sel : nat -> (nat -> T) -> T * nat),
  argmin_choice leb sel ->
  forall (h : fpath V PS) v P i j, interior_ok size (Leg h v P) ->
    i < size (startp h) -> j < size P ->
    exists t, get2 (r_times (solve_sel T V PS add size wf sel h v P)) i j = Some t
              /\ cost add size wf (Leg h v P) (rev (ray_of (solve_sel T V PS add size wf sel h v P) i j)) = Some t
              /\ hd 0 (ray_of (solve_sel T V PS add size wf sel h v P) i j) = i
              /\ last (ray_of (solve_sel T V PS add size wf sel h v P) i j) 0 = j
              /\ length (ray_of (solve_sel T V PS add size wf sel h v P) i j) = S (S (nlegs h)).
Proof. exact any_choice_realised_lemma. Qed.

Theorem model_choice : forall T (leb ltb : T -> T -> bool),
  total_preorder leb ltb -> argmin_choice leb (cell1 T ltb).
Proof. exact model_choice_lemma. Qed.

Theorem model_is_choice : forall T D V PS (leb ltb : T -> T -> bool) (add : T -> T -> T) (size : PS -> nat)
    (dtab : PS -> PS -> list (list D)) (divv : D -> V -> T) (wf : PS -> V -> PS -> nat -> nat -> T),
  total_preorder leb ltb -> leg_model size dtab divv wf ->
  forall (h : fpath V PS) v P, interior_ok size (Leg h v P) ->
    solve_pure ltb add size dtab divv (Leg h v P) = Some (solve_sel T V PS add size wf (cell1 T ltb) h v P).
Proof. exact model_is_choice_lemma. Qed.

(* the executable specification `brute` (minimum of cost over ALL enumerated index tuples from i
   to j — the function the harness evaluates by vm_compute on the implementation's times) is what
   it says: attained by a valid tuple and <= the cost of every valid tuple ... *)
Theorem brute_spec : forall T V PS (leb ltb : T -> T -> bool) (add : T -> T -> T) (size : PS -> nat)
    (wf : PS -> V -> PS -> nat -> nat -> T),
  total_preorder leb ltb ->
  forall (p : fpath V PS) i j b,
    brute ltb add size wf p i j = Some b ->
    (exists ridx, cost add size wf p ridx = Some b /\ last ridx 0 = i /\ hd 0 ridx = j)
    /\ (forall ridx c, cost add size wf p ridx = Some c -> last ridx 0 = i -> hd 0 ridx = j -> leb b c = true).
Proof. exact brute_spec_lemma. Qed.

(* ... and the solver's times are that brute-force minimum *)
Theorem solve_is_brute : forall T D V PS (leb ltb : T -> T -> bool) (add : T -> T -> T) (size : PS -> nat)
    (dtab : PS -> PS -> list (list D)) (divv : D -> V -> T) (wf : PS -> V -> PS -> nat -> nat -> T),
  total_preorder leb ltb -> monotone_add leb add -> leg_model size dtab divv wf ->
  forall (p : fpath V PS) r i j t b,
    interior_ok size p -> solve_pure ltb add size dtab divv p = Some r ->
    get2 (r_times r) i j = Some t -> brute ltb add size wf p i j = Some b ->
    leb t b = true /\ leb b t = true.
Proof. exact solve_is_brute_lemma. Qed.

(* solving any list of paths with ONE solver (shared cached_result / cached_distance,
   the `rkey` slip of consecutive_times included) gives, path by path and in any order,
   the stand-alone answers — and raises iff some stand-alone solve raises *)
Theorem solver_grouping : forall T D V PS (ltb : T -> T -> bool) (add : T -> T -> T)
    (ps_eqb : PS -> PS -> bool) (v_eqb : V -> V -> bool)
    (size : PS -> nat) (dtab : PS -> PS -> list (list D)) (divv : D -> V -> T),
  (forall a b, ps_eqb a b = true <-> a = b) -> (forall a b, v_eqb a b = true -> a = b) ->
  forall ps : list (fpath V PS),
    solver_solve ltb add ps_eqb v_eqb size dtab divv ps
    = all_some (map (fun p => option_map (fun r => (p, r)) (solve_pure ltb add size dtab divv p)) ps).
Proof. exact solver_grouping_lemma. Qed.

(* ---- reversal (exact arithmetic: associative-commutative add, symmetric distance) ---- *)
Theorem path_reverse_involutive : forall V PS (p : fpath V PS), path_reverse (path_reverse p) = p.
Proof. exact path_reverse_involutive. Qed.

(* the cost of a tuple on the reversed path, read backwards, is the same value *)
Theorem cost_reverse : forall T V PS (add : T -> T -> T) (size : PS -> nat)
    (wf : PS -> V -> PS -> nat -> nat -> T),
  (forall a b c, add a (add b c) = add (add a b) c) -> (forall a b, add a b = add b a) ->
  (forall P v Q i j, wf P v Q i j = wf Q v P j i) ->
  forall (p : fpath V PS) ridx c,
    cost add size wf p ridx = Some c -> cost add size wf (path_reverse p) (rev ridx) = Some c.
Proof. exact cost_reverse. Qed.

(* the reversed path has the same interior sets *)
Theorem interior_ok_reverse : forall V PS (size : PS -> nat) (p : fpath V PS),
  interior_ok size (path_reverse p) <-> interior_ok size p.
Proof. exact interior_ok_reverse. Qed.

(* times(reverse p)[j][i] and times(p)[i][j] are order-equivalent ... *)
Theorem solve_reverse : forall T D V PS (leb ltb : T -> T -> bool) (add : T -> T -> T)
    (size : PS -> nat) (dtab : PS -> PS -> list (list D)) (divv : D -> V -> T)
    (wf : PS -> V -> PS -> nat -> nat -> T),
  total_preorder leb ltb -> monotone_add leb add -> leg_model size dtab divv wf ->
  (forall a b c, add a (add b c) = add (add a b) c) -> (forall a b, add a b = add b a) ->
  (forall P v Q i j, wf P v Q i j = wf Q v P j i) ->
  forall (p : fpath V PS) r r' i j,
    interior_ok size p ->
    solve_pure ltb add size dtab divv p = Some r ->
    solve_pure ltb add size dtab divv (path_reverse p) = Some r' ->
    i < size (startp p) -> j < size (endp p) ->
    exists t t', get2 (r_times r) i j = Some t /\ get2 (r_times r') j i = Some t'
                 /\ leb t t' = true /\ leb t' t = true.
Proof. exact solve_reverse_lemma. Qed.

(* ... hence EQUAL (transposed times) when the order is antisymmetric (R, Z, normalised Q) *)
Theorem solve_reverse_transposed : forall T D V PS (leb ltb : T -> T -> bool) (add : T -> T -> T)
    (size : PS -> nat) (dtab : PS -> PS -> list (list D)) (divv : D -> V -> T)
    (wf : PS -> V -> PS -> nat -> nat -> T),
  total_preorder leb ltb -> monotone_add leb add -> leg_model size dtab divv wf ->
  (forall a b c, add a (add b c) = add (add a b) c) -> (forall a b, add a b = add b a) ->
  (forall P v Q i j, wf P v Q i j = wf Q v P j i) ->
  forall (p : fpath V PS) r r' i j,
    (forall a b, leb a b = true -> leb b a = true -> a = b) ->
    interior_ok size p ->
    solve_pure ltb add size dtab divv p = Some r ->
    solve_pure ltb add size dtab divv (path_reverse p) = Some r' ->
    i < size (startp p) -> j < size (endp p) ->
    exists t, get2 (r_times r) i j = Some t /\ get2 (r_times r') j i = Some t.
Proof. exact solve_reverse_eq. Qed.

(* Rays.reverse twice is the identity on every answer of the solver (no monoid law needed) *)
Theorem rays_reverse_involutive : forall T D V PS (leb ltb : T -> T -> bool) (add : T -> T -> T)
    (size : PS -> nat) (dtab : PS -> PS -> list (list D)) (divv : D -> V -> T)
    (wf : PS -> V -> PS -> nat -> nat -> T),
  total_preorder leb ltb -> leg_model size dtab divv wf ->
  forall (p : fpath V PS) r, interior_ok size p -> solve_pure ltb add size dtab divv p = Some r ->
  rays_reverse (size (startp p)) (rays_reverse (size (endp p)) r) = r.
Proof. exact rays_reverse_involutive_lemma. Qed.

(* Rays.reverse of an answer: transposed times, and its index tuples realise them on the reversed path *)
Theorem rays_reverse_valid : forall T D V PS (leb ltb : T -> T -> bool) (add : T -> T -> T)
    (size : PS -> nat) (dtab : PS -> PS -> list (list D)) (divv : D -> V -> T)
    (wf : PS -> V -> PS -> nat -> nat -> T),
  total_preorder leb ltb -> leg_model size dtab divv wf ->
  (forall a b c, add a (add b c) = add (add a b) c) -> (forall a b, add a b = add b a) ->
  (forall P v Q i j, wf P v Q i j = wf Q v P j i) ->
  forall (p : fpath V PS) r i j,
    interior_ok size p -> solve_pure ltb add size dtab divv p = Some r ->
    i < size (startp p) -> j < size (endp p) ->
    exists t, get2 (r_times r) i j = Some t
              /\ get2 (r_times (rays_reverse (size (endp p)) r)) j i = Some t
              /\ cost add size wf (path_reverse p) (rev (ray_of (rays_reverse (size (endp p)) r) j i)) = Some t.
Proof. exact rays_reverse_valid_lemma. Qed.

(* ---- relation to the continuous problem ------------------------------------------ *)
(* X = tuples of crossing points on the surfaces, ctime = continuous travel time, `sample ridx` =
   the positions of the sample points with indices ridx (the samples LIE on the surfaces, so the
   discrete cost is the continuous travel time through them).  For every lower bound L of the
   continuous travel time:  L <= times[i][j] <= ctime of ANY sample tuple, in particular of the
   samples nearest to the continuous (Snell) crossing points.
   fermat_stationary_snell below identifies the continuous minimiser with the Snell ray for
   one flat interface, snell_global_min / fermat_snellN / discrete_between_snell (section
   "any number of flat parallel interfaces") for n of them; for other geometries "Snell" is
   only the name of L. *)
Theorem discrete_between : forall T D V PS (leb ltb : T -> T -> bool) (add : T -> T -> T)
    (size : PS -> nat) (dtab : PS -> PS -> list (list D)) (divv : D -> V -> T)
    (wf : PS -> V -> PS -> nat -> nat -> T),
  total_preorder leb ltb -> leg_model size dtab divv wf -> monotone_add leb add ->
  forall (p : fpath V PS) r i j (X : Type) (ctime : X -> T) (sample : list nat -> X) (L : T),
    interior_ok size p -> solve_pure ltb add size dtab divv p = Some r ->
    i < size (startp p) -> j < size (endp p) ->
    (forall ridx c, cost add size wf p ridx = Some c -> last ridx 0 = i -> hd 0 ridx = j ->
                    ctime (sample ridx) = c) ->
    (forall x, leb L (ctime x) = true) ->
    exists t, get2 (r_times r) i j = Some t
              /\ leb L t = true
              /\ (forall ridx c, cost add size wf p ridx = Some c -> last ridx 0 = i -> hd 0 ridx = j ->
                                 leb t (ctime (sample ridx)) = true).
Proof. exact discrete_between_lemma. Qed.

(* Fermat => Snell for one flat interface z = 0 (2-D): if x is a local minimiser of the travel
   time  |A X| / c1 + |X B| / c2,  A = (xa, za), B = (xb, zb), X = (x, 0), then
   sin(theta1) / c1 = sin(theta2) / c2  with sin(theta1) = (x - xa) / |A X| and
   sin(theta2) = (xb - x) / |X B| (angles to the normal).  So the lower bound L of
   discrete_between attained by the continuous minimiser is the Snell ray's travel time.
   (One interface; any number of flat parallel interfaces: next section; curved surfaces:
   not mechanised.) *)
Theorem fermat_stationary_snell : forall xa za xb zb c1 c2 x a b : R,
  (za <> 0 -> zb <> 0 -> c1 <> 0 -> c2 <> 0 -> a < x < b ->
   (forall y, a < y < b -> ttime xa za xb zb c1 c2 x <= ttime xa za xb zb c1 c2 y) ->
   (x - xa) / sqrt ((x - xa) * (x - xa) + za * za) / c1
   = (xb - x) / sqrt ((xb - x) * (xb - x) + zb * zb) / c2)%R.
Proof. exact fermat_stationary_snell_lemma. Qed.

(* ---- any number of flat parallel interfaces (2-D) ---------------------------------- *)
(* n >= 0 horizontal interfaces, n+1 legs.  ls = [(h_0, v_0); ...; (h_n, v_n)] thickness and
   velocity of the layer crossed by leg k (layers_ok: all > 0); a, b abscissae of source and
   target; xs = [x_1; ...; x_n] abscissae of the crossing points.
     leg h v d   = sqrt (d*d + h*h) / v                      time of a leg of horizontal extent d
     slope h v d = d / (v * sqrt (d*d + h*h))                = sin(theta) / v
     ttimeN ls a xs b = sum_k leg h_k v_k (x_{k+1} - x_k)     (x_0 = a, x_{n+1} = b)
     slopesN ls a xs b = [sin(theta_0)/v_0; ...; sin(theta_n)/v_n]
     snellN ls a xs b : consecutive entries of slopesN are equal (Snell at every interface)
   All statements are for every n (induction over the lists). *)

(* each leg time is differentiable in its horizontal extent, derivative sin(theta)/v ... *)
Theorem leg_time_derivative : forall h v d : R, (0 < h)%R -> (0 < v)%R ->
  derivable_pt_lim (leg h v) d (slope h v d).
Proof. exact leg_derive_Reals. Qed.

(* ... where theta = atan (d / h) is the angle of the leg to the normal of the interfaces *)
Theorem leg_slope_is_sine_over_v : forall h v d : R, (0 < h)%R -> (0 < v)%R ->
  slope h v d = (sin (atan (d / h)) / v)%R.
Proof. exact slope_sin_atan. Qed.

(* the leg time lies above its tangent lines (Cauchy-Schwarz) and is convex *)
Theorem leg_time_tangent : forall h v d e : R, (0 < h)%R -> (0 < v)%R ->
  (leg h v d + slope h v d * (e - d) <= leg h v e)%R.
Proof. exact leg_tangent. Qed.

Theorem leg_time_convex : forall h v d e t : R, (0 < h)%R -> (0 < v)%R -> (0 <= t <= 1)%R ->
  (leg h v (t * d + (1 - t) * e) <= t * leg h v d + (1 - t) * leg h v e)%R.
Proof. exact leg_convex. Qed.

(* Snell at every interface <=> one ray parameter p = sin(theta_k)/v_k for all legs *)
Theorem snell_invariant : forall ls a xs b,
  snellN ls a xs b <-> exists p, Forall (fun s => s = p) (slopesN ls a xs b).
Proof. exact snellN_invariant. Qed.

(* SNELL ==> GLOBAL MINIMUM: the ray obeying Snell's law at every interface is at least as fast
   as the ray through ANY other crossing points (tangent-line inequalities of all legs summed;
   the linear terms telescope because p is common and both rays go from a to b) *)
Theorem snell_global_min : forall ls a xs b,
  layers_ok ls -> length ls = S (length xs) -> snellN ls a xs b ->
  forall ys, length ys = length xs -> (ttimeN ls a xs b <= ttimeN ls a ys b)%R.
Proof. exact snell_global_min_lemma. Qed.

(* FERMAT ==> SNELL: a LOCAL minimiser (within eps in every coordinate) obeys Snell's law at
   every interface *)
Theorem fermat_snellN : forall ls, layers_ok ls -> forall a xs b,
  length ls = S (length xs) ->
  (exists eps, (0 < eps)%R /\ forall ys, Forall2 (fun x y => (Rabs (y - x) < eps)%R) xs ys ->
                                         (ttimeN ls a xs b <= ttimeN ls a ys b)%R) ->
  snellN ls a xs b.
Proof. exact fermat_snellN_lemma. Qed.

(* the partial derivative of the travel time in the crossing point x_k (k = length pre) is
   sin(theta_k)/v_k - sin(theta_{k+1})/v_{k+1} ... *)
Theorem travel_time_partial_derivative : forall ls, layers_ok ls ->
  forall (pre : list R) (a x : R) (post : list R) (b : R),
  length ls = S (length (pre ++ x :: post)) ->
  derivable_pt_lim (fun y : R => ttimeN ls a (pre ++ y :: post) b) x
    (nth (length pre) (slopesN ls a (pre ++ x :: post) b) 0
     - nth (S (length pre)) (slopesN ls a (pre ++ x :: post) b) 0)%R.
Proof. exact ttimeN_partial_Reals. Qed.

(* ... so the stationary points (all partial derivatives vanish) are exactly the Snell rays *)
Theorem stationary_iff_snell : forall ls a xs b,
  layers_ok ls -> length ls = S (length xs) ->
  ((forall (pre : list R) (x : R) (post : list R), xs = pre ++ x :: post ->
      derivable_pt_lim (fun y : R => ttimeN ls a (pre ++ y :: post) b) x 0%R)
   <-> snellN ls a xs b).
Proof. exact stationary_iff_snell_lemma. Qed.

(* Snell ray <=> global minimiser <=> local minimiser of the continuous travel time *)
Theorem snell_min_equiv : forall ls a xs b,
  layers_ok ls -> length ls = S (length xs) ->
  (snellN ls a xs b <-> global_minN ls a xs b) /\ (snellN ls a xs b <-> local_minN ls a xs b).
Proof. exact snell_min_equiv_lemma. Qed.

(* samples = one non-empty list of sampled abscissae per interface; discrete_minN = the minimum
   of ttimeN over all choices of one sample per interface (is_choice ys samples).  Then
   continuous Snell time <= discrete minimum (attained) <= time through ANY tuple of samples. *)
Theorem snell_discrete_min : forall ls a xs b samples,
  layers_ok ls -> length ls = S (length xs) -> snellN ls a xs b ->
  length samples = length xs -> Forall (fun s => s <> []) samples ->
  (ttimeN ls a xs b <= discrete_minN ls a samples b)%R
  /\ (exists ys, is_choice ys samples /\ discrete_minN ls a samples b = ttimeN ls a ys b)
  /\ (forall ys, is_choice ys samples -> (discrete_minN ls a samples b <= ttimeN ls a ys b)%R).
Proof. exact snell_discrete_min_lemma. Qed.

(* discrete_between for the verified solver over the reals with L := the Snell ray's travel time:
   if the interior sets sample n flat parallel interfaces (the discrete cost of every valid index
   tuple is ttimeN through the abscissae `sample ridx` of its interior points), then
       Snell time <= times[i][j] <= time of the ray through any tuple of samples,
   in particular through the samples nearest to the Snell crossing points. *)
Theorem discrete_between_snell : forall (D V PS : Type) (size : PS -> nat)
    (dtab : PS -> PS -> list (list D)) (divv : D -> V -> R)
    (wf : PS -> V -> PS -> nat -> nat -> R),
  leg_model size dtab divv wf ->
  forall (p : fpath V PS) (r : rays R) (i j : nat) ls a xs b (sample : list nat -> list R),
    layers_ok ls -> length ls = S (length xs) -> snellN ls a xs b ->
    interior_ok size p -> solve_pure Rltb Rplus size dtab divv p = Some r ->
    i < size (startp p) -> j < size (endp p) ->
    (forall ridx c, cost Rplus size wf p ridx = Some c -> last ridx 0 = i -> hd 0 ridx = j ->
                    length (sample ridx) = length xs /\ ttimeN ls a (sample ridx) b = c) ->
    exists t, get2 (r_times r) i j = Some t
              /\ (ttimeN ls a xs b <= t)%R
              /\ (forall ridx c, cost Rplus size wf p ridx = Some c -> last ridx 0 = i -> hd 0 ridx = j ->
                                 (t <= ttimeN ls a (sample ridx) b)%R).
Proof. exact discrete_between_snell_lemma. Qed.

(* the reals with <= and + are an instance of every hypothesis used above (total preorder,
   monotone, associative, commutative, antisymmetric); the Euclidean leg time is symmetric *)
Theorem cost_structure_R :
  total_preorder Rleb Rltb /\ monotone_add Rleb Rplus
  /\ (forall a b c, a + (b + c) = (a + b) + c)%R /\ (forall a b, a + b = b + a)%R
  /\ (forall a b, Rleb a b = true -> Rleb b a = true -> a = b).
Proof. exact cost_structure_R_lemma. Qed.

Theorem leg_time_symmetric : forall x1 y1 z1 x2 y2 z2 v : R,
  (sqrt ((x1 - x2) * (x1 - x2) + (y1 - y2) * (y1 - y2) + (z1 - z2) * (z1 - z2)) / v
   = sqrt ((x2 - x1) * (x2 - x1) + (y2 - y1) * (y2 - y1) + (z2 - z1) * (z2 - z1)) / v)%R.
Proof. exact leg_time_symmetric_lemma. Qed.

(* whatever the tie-breaking of the argmin, realised + optimal pin the time (this is why the
   harness compares `times` with the model but only checks solve_realised on `indices`) *)
Theorem fastest_unique : forall T V PS (leb : T -> T -> bool) (add : T -> T -> T) (size : PS -> nat)
    (wf : PS -> V -> PS -> nat -> nat -> T) (p : fpath V PS) i j ridx1 ridx2 t1 t2,
  cost add size wf p ridx1 = Some t1 -> last ridx1 0 = i -> hd 0 ridx1 = j ->
  cost add size wf p ridx2 = Some t2 -> last ridx2 0 = i -> hd 0 ridx2 = j ->
  (forall ridx c, cost add size wf p ridx = Some c -> last ridx 0 = i -> hd 0 ridx = j -> leb t1 c = true) ->
  (forall ridx c, cost add size wf p ridx = Some c -> last ridx 0 = i -> hd 0 ridx = j -> leb t2 c = true) ->
  leb t1 t2 = true /\ leb t2 t1 = true.
Proof. exact @fastest_unique_lemma. Qed.

(* ---- non-vacuity ----------------------------------------------------------- *)
(* a 2 x 3 x 2 cloud over Q (3-4-5 triangles; the third interior point coincides with
   the first, so (i,j) = (0,0) has a tie that strict `<` resolves to index 0) *)
Definition exq (a b c : Z) : pt (T:=Q) := (inject_Z a, inject_Z b, inject_Z c).
Definition exP0 : pset := (0%Z, [exq 0 0 0; exq 3 0 0]).
Definition exP1 : pset := (1%Z, [exq 0 0 4; exq 3 0 4; exq 0 0 4]).
Definition exP2 : pset := (2%Z, [exq 0 0 8; exq 3 0 8]).
Definition expath : cpath := mk_path exP0 [((1#1)%Q, exP1); ((2#1)%Q, exP2)].

Example solve_example :
  c_solve_pure NumQ expath
  = Some (mkRays [[6#1; 13#2]; [13#2; 6#1]]%Q [[[0; 0]; [1; 1]]]).
Proof. vm_compute. reflexivity. Qed.

Example brute_example :
  map (fun ij => c_brute NumQ expath (fst ij) (snd ij)) [(0,0); (0,1); (1,0); (1,1)]
  = [Some (6#1); Some (13#2); Some (13#2); Some (6#1)]%Q.
Proof. vm_compute. reflexivity. Qed.

Example grouped_example :
  option_map (map (fun pr => r_times (snd pr))) (c_solver NumQ [expath; path_reverse expath; expath])
  = Some [[[6#1; 13#2]; [13#2; 6#1]]; [[6#1; 13#2]; [13#2; 6#1]]; [[6#1; 13#2]; [13#2; 6#1]]]%Q.
Proof. vm_compute. reflexivity. Qed.

(* the hypotheses on the cost type are satisfiable (integers) *)
Example cost_structure_Z : total_preorder Z.leb Z.ltb /\ monotone_add Z.leb Z.add.
Proof.
  unfold total_preorder, monotone_add. repeat split; intros.
  - apply Z.leb_refl.
  - apply Z.leb_le in H, H0. apply Z.leb_le. lia.
  - destruct (Z.le_ge_cases a b); [left | right]; now apply Z.leb_le.
  - rewrite Z.ltb_antisym. reflexivity.
  - apply Z.leb_le in H. apply Z.leb_le. lia.
Qed.

(* two interfaces, three 3-4-5 legs with velocities 1, 4/3, 1 (ex_layers = [(4,1); (3,4/3); (4,1)],
   a = 0, crossings 3 and 7, b = 10): sin(theta)/v = 3/5 on every leg, the Snell ray takes
   55/4, every other pair of crossing points takes at least that, and so does the discrete
   minimum over the samples {2,4} x {6,8} *)
Example snell_example :
  layers_ok ex_layers
  /\ snellN ex_layers 0 [3; 7]%R 10
  /\ ttimeN ex_layers 0 [3; 7]%R 10 = (55 / 4)%R
  /\ (forall y1 y2 : R, (55 / 4 <= ttimeN ex_layers 0 [y1; y2] 10)%R)
  /\ (55 / 4 <= discrete_minN ex_layers 0 [[2; 4]; [6; 8]]%R 10)%R.
Proof. exact snell_example_lemma. Qed.

(* ==================================================================================== *)
(* ---- the glue of arim.ray around the solver (Model/FermatGlue.v) -------------------- *)
(* Lemmas in Proofs/FermatGlueProofs.v and Proofs/FermatGlueIndexProofs.v; all axiom-free.

   Vocabulary (additional):
     item           an element of the Python tuple FermatPath: IP points | IV velocity
     unparse p      the tuple (P0, v0, P1, ..., Pn) of the path p;  parse = its inverse
     fp_new         FermatPath.__new__: inl ValueError (even length or < 3),
                    inl AssertionError (non-finite velocity), inr the tuple
     vel_finite p   all velocities of p pass np.isfinite
     res A = err + A   explicit exceptions
     iterable       Reiterable l (list, tuple, set, dict view) | OneShot l (generator, iterator)
     pathobj        (identity, (points of the interfaces, velocities of the legs)) of a Path object
     dict_get/dict_set   Python dict keyed by FermatPath (tuple ==: Points by identity, velocities by ==)
     last_write id ws    the attribute obj.rays after the writes ws
     store b k      the integer k cast to a signed dtype of b bits (two's complement wrap)
     make_indices_z b n m X   Rays.make_indices on interior layers X in that dtype
     zray_of t i j  = t[:, i, j]
     rays_obj       a Rays object: times, their memory order, the (d+2, n, m) index table, its
                    memory order, its dtype, the FermatPath tuple;  wf_obj = built by Rays.__init__
     solve_dt b     the solver with out_best_indices / expanded_indices of a b-bit dtype
     interior_le size B p   every interior point set of p has at most B points *)
From Arim Require Import Model.FermatGlue Proofs.FermatGlueProofs Proofs.FermatGlueIndexProofs.

(* ---- FermatPath as a tuple ---- *)
(* alternating tuples (Points, v, Points, ..., Points) are exactly the paths of the model *)
Theorem fp_parse_unparse : forall (V PS : Type) (p : fpath V PS), parse (unparse p) = Some p.
Proof. exact parse_unparse. Qed.

Theorem fp_unparse_parse : forall (V PS : Type) (s : list (item V PS)) (p : fpath V PS),
  parse s = Some p -> s = unparse p.
Proof. exact unparse_parse. Qed.

(* __new__: a single point set is rejected (ValueError), a non-finite velocity is rejected
   (AssertionError), everything else with >= 1 leg is accepted unchanged *)
Theorem fp_new_of_path : forall (V PS : Type) (v_finite : V -> bool) (p : fpath V PS),
  fp_new v_finite (unparse p)
  = if nlegs p =? 0 then inl ValueError
    else if vel_finite v_finite p then inr (unparse p) else inl AssertionError.
Proof. exact fp_new_unparse. Qed.

(* FermatPath.reverse is the model's path_reverse (involutive: path_reverse_involutive above) *)
Theorem fp_reverse_of_path : forall (V PS : Type) (v_finite : V -> bool) (p : fpath V PS),
  1 <= nlegs p -> vel_finite v_finite p = true ->
  fp_reverse v_finite (unparse p) = inr (unparse (path_reverse p)).
Proof. exact fp_reverse_unparse. Qed.

(* split_queue (self[:-2], self[-3:]) peels the LAST leg: exactly the constructor Leg *)
Theorem fp_split_queue_of_path : forall (V PS : Type) (v_finite : V -> bool) (h' : fpath V PS)
    (v' : V) (Pm : PS) (v : V) (P : PS),
  vel_finite v_finite (Leg (Leg h' v' Pm) v P) = true ->
  fp_split_queue v_finite (unparse (Leg (Leg h' v' Pm) v P))
  = inr (unparse (Leg h' v' Pm), unparse (Leg (Start Pm) v P)).
Proof. exact fp_split_queue_unparse. Qed.

(* split_head (self[:3], self[2:]) peels the FIRST leg *)
Theorem fp_split_head_of_path : forall (V PS : Type) (v_finite : V -> bool) (P0 : PS) (v : V) (q : fpath V PS),
  1 <= nlegs q -> vel_finite v_finite (prepend P0 v q) = true ->
  fp_split_head v_finite (unparse (prepend P0 v q))
  = inr (unparse (Leg (Start P0) v (startp q)), unparse q).
Proof. exact fp_split_head_unparse. Qed.

(* ... and every path with >= 1 leg is of that form *)
Theorem path_first_leg : forall (V PS : Type) (p : fpath V PS), 1 <= nlegs p ->
  exists v : V, p = prepend (startp p) v (drop_first p).
Proof. exact prepend_drop_first. Qed.

(* both splits raise ValueError on a path with fewer than two legs *)
Theorem fp_split_too_short : forall (V PS : Type) (v_finite : V -> bool) (p : fpath V PS),
  nlegs p <= 1 ->
  fp_split_queue v_finite (unparse p) = inl ValueError /\ fp_split_head v_finite (unparse p) = inl ValueError.
Proof. exact fp_split_short. Qed.

(* the properties points (self[0::2]), velocities (self[1::2]), num_points_sets (len // 2 + 1),
   len_largest_interface (max over all_points[1:-1], 0 if none) *)
Theorem fp_points_of_path : forall (V PS : Type) (p : fpath V PS),
  fp_points (unparse p) = map IP (path_points p).
Proof. exact fp_points_unparse. Qed.

Theorem fp_velocities_of_path : forall (V PS : Type) (p : fpath V PS),
  fp_velocities (unparse p) = map IV (path_velocities p).
Proof. exact fp_velocities_unparse. Qed.

Theorem fp_num_points_sets_of_path : forall (V PS : Type) (p : fpath V PS),
  fp_num_points_sets (unparse p) = S (nlegs p).
Proof. exact fp_num_points_sets_unparse. Qed.

Theorem fp_len_largest_of_path : forall (V PS : Type) (size : PS -> nat) (p : fpath V PS),
  fp_len_largest_interface size (unparse p)
  = Some (fold_right Nat.max 0 (map size (removelast (tl (path_points p))))).
Proof. exact fp_len_largest_unparse. Qed.

(* from_path of a Path object (one material/mode per leg, as Path.__init__ asserts) is the tuple
   (P0, v0, P1, ..., Pn) given to __new__ *)
Theorem fp_from_path_of_path : forall (V PS : Type) (v_finite : V -> bool) (P0 : PS) (rest : list PS) (vs : list V),
  length vs = length rest ->
  fp_from_path v_finite (P0 :: rest) vs = fp_new v_finite (unparse (mk_path P0 (combine vs rest))).
Proof. exact fp_from_path_wf. Qed.

(* Path.reverse() (interfaces, materials, modes reversed; same Points objects) has the reversed
   FermatPath: Path.reverse().to_fermat_path() == Path.to_fermat_path().reverse() *)
Theorem fp_from_path_reversed : forall (V PS : Type) (v_finite : V -> bool) (ifs : list PS) (vs : list V)
    (s : list (item V PS)),
  length ifs = S (length vs) ->
  fp_from_path v_finite ifs vs = inr s -> fp_from_path v_finite (rev ifs) (rev vs) = inr (rev s).
Proof. exact fp_from_path_reverse. Qed.

(* ---- _solve on the tuple ---- *)
(* the recursion of FermatSolver._solve written on the Python tuple (len(path) == 3, split_queue,
   two recursive calls, find_minimum_times, expand_rays) computes what the structural recursion
   solve_pure computes — so every theorem above about solve_pure is about that recursion *)
Theorem solve_on_tuple : forall (T D V PS : Type) (ltb : T -> T -> bool) (add : T -> T -> T)
    (v_finite : V -> bool) (size : PS -> nat) (dtab : PS -> PS -> list (list D)) (divv : D -> V -> T)
    (p : fpath V PS) (fuel : nat),
  1 <= nlegs p -> nlegs p <= fuel -> vel_finite v_finite p = true ->
  solve_seq ltb add v_finite size dtab divv fuel (unparse p) = solve_pure ltb add size dtab divv p.
Proof. exact solve_seq_correct. Qed.

(* ---- the solver object and its dict ---- *)
(* FermatSolver(paths).solve() for a re-iterable `paths` (list, tuple, set in any order), with
   duplicates and with equal tuples built separately: every path handed over is a key whose value
   is ITS stand-alone solution, there are no other keys, no two equal keys, the caches are
   cleared; an exception iff some stand-alone solve raises *)
Theorem solver_object_solve : forall (T D V PS : Type) (ltb : T -> T -> bool) (add : T -> T -> T)
    (ps_eqb : PS -> PS -> bool) (v_eqb : V -> V -> bool) (size : PS -> nat)
    (dtab : PS -> PS -> list (list D)) (divv : D -> V -> T),
  (forall a b : PS, ps_eqb a b = true <-> a = b) ->
  (forall a b : V, v_eqb a b = true <-> a = b) ->
  forall (l : list (fpath V PS)) (b : option Z),
  match solver_solve_obj ltb add ps_eqb v_eqb size dtab divv (solver_init (Reiterable l) b) with
  | Some (s', rs) =>
      so_res s' = rs /\ so_paths s' = Reiterable l /\ so_state s' = ([], [])
      /\ (forall p0 : fpath V PS, In p0 l ->
            exists r : rays T, solve_pure ltb add size dtab divv p0 = Some r
                               /\ dict_get ps_eqb v_eqb p0 rs = Some r)
      /\ (forall k : fpath V PS, In k (map fst rs) -> In k l)
      /\ NoDup (map fst rs)
  | None => exists p : fpath V PS, In p l /\ solve_pure ltb add size dtab divv p = None
  end.
Proof. exact FermatGlueProofs.solver_object_solve. Qed.

(* FermatSolver(iterator).solve(): __init__ exhausts the iterator while checking hashability,
   solve() finds nothing left — an EMPTY dict, no exception (replayed on the library: {}) *)
Theorem solver_oneshot_empty : forall (T D V PS : Type) (ltb : T -> T -> bool) (add : T -> T -> T)
    (ps_eqb : PS -> PS -> bool) (v_eqb : V -> V -> bool) (size : PS -> nat)
    (dtab : PS -> PS -> list (list D)) (divv : D -> V -> T) (l : list (fpath V PS)) (b : option Z),
  solver_solve_obj ltb add ps_eqb v_eqb size dtab divv (solver_init (OneShot l) b)
  = Some (mkSolver (OneShot []) [] ([], []) (default_bits b), []).
Proof. exact FermatGlueProofs.solver_oneshot_empty. Qed.

(* history: calling solve() again, any number of times, returns the same dict *)
Theorem solver_solve_repeat : forall (T D V PS : Type) (ltb : T -> T -> bool) (add : T -> T -> T)
    (ps_eqb : PS -> PS -> bool) (v_eqb : V -> V -> bool) (size : PS -> nat)
    (dtab : PS -> PS -> list (list D)) (divv : D -> V -> T),
  (forall a b : PS, ps_eqb a b = true <-> a = b) ->
  (forall a b : V, v_eqb a b = true <-> a = b) ->
  forall (l : list (fpath V PS)) (b : option Z) (s1 : solver T D V PS) (rs : list (fpath V PS * rays T)),
  solver_solve_obj ltb add ps_eqb v_eqb size dtab divv (solver_init (Reiterable l) b) = Some (s1, rs) ->
  forall k : nat, solver_solve_times ltb add ps_eqb v_eqb size dtab divv k s1 = Some (s1, rs).
Proof. exact FermatGlueProofs.solver_solve_repeat. Qed.

(* ---- ray_tracing_for_paths / ray_tracing ---- *)
(* for ANY iterable of Path objects (list, tuple, set, dict view, generator, iterator), with the
   same Path object listed several times and with distinct Path objects giving equal FermatPaths:
   the attribute writes `path.rays = ...` are, in order, each Path object with the stand-alone
   solution of ITS OWN FermatPath in the requested memory order; an exception iff from_path or
   some stand-alone solve raises (never a KeyError of rays_dict[fermat_path]) *)
Theorem ray_tracing_for_paths_spec : forall (T D V PS : Type) (ltb : T -> T -> bool) (add : T -> T -> T)
    (ps_eqb : PS -> PS -> bool) (v_eqb : V -> V -> bool) (v_finite : V -> bool) (size : PS -> nat)
    (dtab : PS -> PS -> list (list D)) (divv : D -> V -> T),
  (forall a b : PS, ps_eqb a b = true <-> a = b) ->
  (forall a b : V, v_eqb a b = true <-> a = b) ->
  forall (it : iterable (pathobj V PS)) (fortran : bool),
  ray_tracing_for_paths ltb add ps_eqb v_eqb v_finite size dtab divv it fortran
  = match all_some (map (to_fermat v_finite) (fst (iterate it))) with
    | Some fps =>
        match all_some (map (solve_pure ltb add size dtab divv) fps) with
        | Some rl => Some (combine (map fst (fst (iterate it))) (map (fun r : rays T => (r, fortran)) rl))
        | None => None
        end
    | None => None
    end.
Proof. exact FermatGlueProofs.ray_tracing_for_paths_spec. Qed.

(* a one-shot iterable is consumed exactly once: same writes as for the list of its items *)
Theorem ray_tracing_for_paths_oneshot : forall (T D V PS : Type) (ltb : T -> T -> bool) (add : T -> T -> T)
    (ps_eqb : PS -> PS -> bool) (v_eqb : V -> V -> bool) (v_finite : V -> bool) (size : PS -> nat)
    (dtab : PS -> PS -> list (list D)) (divv : D -> V -> T),
  (forall a b : PS, ps_eqb a b = true <-> a = b) ->
  (forall a b : V, v_eqb a b = true <-> a = b) ->
  forall (l : list (pathobj V PS)) (fortran : bool),
  ray_tracing_for_paths ltb add ps_eqb v_eqb v_finite size dtab divv (OneShot l) fortran
  = ray_tracing_for_paths ltb add ps_eqb v_eqb v_finite size dtab divv (Reiterable l) fortran.
Proof. exact FermatGlueProofs.ray_tracing_for_paths_oneshot. Qed.

(* after the call EVERY Path object of the group holds the rays of its own FermatPath
   (hypothesis: an identity denotes one object) *)
Theorem path_rays_attr : forall (T D V PS : Type) (ltb : T -> T -> bool) (add : T -> T -> T)
    (ps_eqb : PS -> PS -> bool) (v_eqb : V -> V -> bool) (v_finite : V -> bool) (size : PS -> nat)
    (dtab : PS -> PS -> list (list D)) (divv : D -> V -> T),
  (forall a b : PS, ps_eqb a b = true <-> a = b) ->
  (forall a b : V, v_eqb a b = true <-> a = b) ->
  forall (it : iterable (pathobj V PS)) (fortran : bool) (ws : list (Z * (rays T * bool))),
  (forall o o' : pathobj V PS, In o (fst (iterate it)) -> In o' (fst (iterate it)) -> fst o = fst o' -> o = o') ->
  ray_tracing_for_paths ltb add ps_eqb v_eqb v_finite size dtab divv it fortran = Some ws ->
  forall o : pathobj V PS, In o (fst (iterate it)) ->
  exists (fp : fpath V PS) (r : rays T),
    to_fermat v_finite o = Some fp /\ solve_pure ltb add size dtab divv fp = Some r
    /\ last_write (fst o) ws = Some (r, fortran).
Proof. exact FermatGlueProofs.path_rays_attr. Qed.

(* ray_tracing(views) = ray_tracing_for_paths(list(set of the tx and rx Path objects)) ... *)
Theorem ray_tracing_is_for_paths : forall (T D V PS : Type) (ltb : T -> T -> bool) (add : T -> T -> T)
    (ps_eqb : PS -> PS -> bool) (v_eqb : V -> V -> bool) (v_finite : V -> bool) (size : PS -> nat)
    (dtab : PS -> PS -> list (list D)) (divv : D -> V -> T)
    (enum : list (pathobj V PS) -> list (pathobj V PS)) (views : list (pathobj V PS * pathobj V PS))
    (fortran : bool),
  ray_tracing ltb add ps_eqb v_eqb v_finite size dtab divv enum views fortran
  = ray_tracing_for_paths ltb add ps_eqb v_eqb v_finite size dtab divv
      (Reiterable (enum (map fst views ++ map snd views))) fortran.
Proof. exact FermatGlueProofs.ray_tracing_is_for_paths. Qed.

(* ... and whatever the iteration order `enum` of that set (any enumeration with the same
   elements; de-duplication is by identity), every tx path and every rx path of every view ends
   with the rays of its own FermatPath *)
Theorem ray_tracing_views : forall (T D V PS : Type) (ltb : T -> T -> bool) (add : T -> T -> T)
    (ps_eqb : PS -> PS -> bool) (v_eqb : V -> V -> bool) (v_finite : V -> bool) (size : PS -> nat)
    (dtab : PS -> PS -> list (list D)) (divv : D -> V -> T),
  (forall a b : PS, ps_eqb a b = true <-> a = b) ->
  (forall a b : V, v_eqb a b = true <-> a = b) ->
  forall (enum : list (pathobj V PS) -> list (pathobj V PS)) (views : list (pathobj V PS * pathobj V PS))
         (fortran : bool) (ws : list (Z * (rays T * bool))),
  let src := map fst views ++ map snd views in
  (forall o : pathobj V PS, In o (enum src) <-> In o src) ->
  (forall o o' : pathobj V PS, In o src -> In o' src -> fst o = fst o' -> o = o') ->
  ray_tracing ltb add ps_eqb v_eqb v_finite size dtab divv enum views fortran = Some ws ->
  forall v : pathobj V PS * pathobj V PS, In v views ->
  (exists (fp : fpath V PS) (r : rays T),
     to_fermat v_finite (fst v) = Some fp /\ solve_pure ltb add size dtab divv fp = Some r
     /\ last_write (fst (fst v)) ws = Some (r, fortran))
  /\ (exists (fp : fpath V PS) (r : rays T),
        to_fermat v_finite (snd v) = Some fp /\ solve_pure ltb add size dtab divv fp = Some r
        /\ last_write (fst (snd v)) ws = Some (r, fortran)).
Proof. exact FermatGlueProofs.ray_tracing_views. Qed.

(* the first-occurrence order is such an enumeration (the hypothesis above is satisfiable) *)
Theorem set_enumeration_exists : forall (V PS : Type) (l : list (pathobj V PS)),
  (forall o o' : pathobj V PS, In o l -> In o' l -> fst o = fst o' -> o = o') ->
  (forall o : pathobj V PS, In o (dedup_ids [] l) <-> In o l) /\ NoDup (map fst (dedup_ids [] l)).
Proof. exact dedup_ids_enum. Qed.

(* ---- Rays.make_indices: values, dtype, memory order ---- *)
(* the cast to a signed dtype of b bits is exact iff the index is below 2^(b-1) ... *)
Theorem index_cast_exact_iff : forall (b : Z) (k : nat), (1 <= b)%Z ->
  (store b k = Z.of_nat k <-> (Z.of_nat k < 2 ^ (b - 1))%Z).
Proof. exact store_exact_iff. Qed.

(* ... and an index in [2^(b-1), 2^b) is stored as a NEGATIVE number *)
Theorem index_cast_wraps : forall (b : Z) (k : nat), (1 <= b)%Z -> (2 ^ (b - 1) <= Z.of_nat k < 2 ^ b)%Z ->
  (store b k = Z.of_nat k - 2 ^ b /\ store b k < 0)%Z.
Proof. exact store_wraps. Qed.

(* indices[:, i, j] = (i, interior_indices[:, i, j], j) in the dtype *)
Theorem make_indices_column : forall (b : Z) (n m : nat) (X : list (list (list Z))) (i j : nat),
  i < n -> j < m ->
  zray_of (make_indices_z b n m X) i j
  = store b i :: map (fun lay => nth j (nth i lay []) (-1)%Z) X ++ [store b j].
Proof. exact zray_of_make_indices. Qed.

(* layer 0 holds i, the last layer holds j, layers 1..d are the interior layers, d + 2 layers *)
Theorem make_indices_layout : forall (b : Z) (n m : nat) (X : list (list (list Z))),
  nth 0 (make_indices_z b n m X) [] = tab n m (fun i _ => store b i)
  /\ last (make_indices_z b n m X) [] = tab n m (fun _ j => store b j)
  /\ (forall k, k < length X -> nth (S k) (make_indices_z b n m X) [] = nth k X [])
  /\ length (make_indices_z b n m X) = length X + 2.
Proof. exact FermatGlueIndexProofs.make_indices_layout. Qed.

(* overflow condition of the two end rows: indices[0] = i and indices[-1] = j hold for all rays
   EXACTLY when the first set (resp. the last set) has at most 2^(b-1) points *)
Theorem make_indices_exact_iff : forall (b : Z) (n m : nat) (X : list (list (list Z))), (1 <= b)%Z ->
  ((forall i j, i < n -> j < m ->
      hd 0%Z (zray_of (make_indices_z b n m X) i j) = Z.of_nat i
      /\ last (zray_of (make_indices_z b n m X) i j) 0%Z = Z.of_nat j)
   <-> ((m = 0 \/ (Z.of_nat n <= 2 ^ (b - 1))%Z) /\ (n = 0 \/ (Z.of_nat m <= 2 ^ (b - 1))%Z))).
Proof. exact FermatGlueIndexProofs.make_indices_exact_iff. Qed.

(* the property interior_indices (indices[1:-1]) gives back what __init__ was given *)
Theorem interior_indices_roundtrip : forall (b : Z) (n m : nat) (X : list (list (list Z))),
  interior_of (make_indices_z b n m X) = X.
Proof. exact interior_of_make_indices. Qed.

(* Rays.reverse acts on the WHOLE index table as y[d+1-k, j, i] = x[k, i, j] — the first and last
   rows included (they are rebuilt by make_indices, not copied) *)
Theorem make_indices_reverse : forall (b : Z) (n m : nat) (X : list (list (list Z))),
  make_indices_z b m n (rev (map (transpose m) X)) = rev (map (transpose m) (make_indices_z b n m X)).
Proof. exact FermatGlueIndexProofs.make_indices_reverse. Qed.

(* memory order of the index table: an explicit `order` wins; with order=None it is Fortran only
   for a Fortran-allocated interior block that is not degenerate (no zero-length axis and at
   least two axes longer than 1) *)
Theorem make_indices_order_explicit : forall (o lay : order) (sh : list nat),
  make_indices_order (Some o) lay sh = o.
Proof. exact FermatGlueIndexProofs.make_indices_order_explicit. Qed.

Theorem make_indices_order_default : forall (lay : order) (sh : list nat),
  make_indices_order None lay sh = if order_eqb lay OC || degenerate sh then OC else OF.
Proof. exact FermatGlueIndexProofs.make_indices_order_default. Qed.

(* ---- the Rays object: __init__, to_fortran_order, reverse ---- *)
(* when the assertions of Rays.__init__ pass, the object is as described (wf_obj) *)
Theorem rays_init_ok : forall (T V PS : Type) (size : PS -> nat) (tshape : nat * nat) (times : list (list T))
    (tlay : order) (n m : nat) (X : list (list (list Z))) (ilay : order) (b : Z) (fp : list (item V PS))
    (oarg : option order) (r : rays_obj T V PS),
  rays_init size tshape times tlay (length X, (n, m)) X ilay b fp oarg = inr r ->
  wf_obj T V PS size r /\ ro_shape r = (n, m) /\ ro_times r = times /\ ro_tlay r = tlay
  /\ ro_bits r = b /\ ro_path r = fp /\ ro_order r = make_indices_order oarg ilay [length X; n; m].
Proof. exact rays_init_wf. Qed.

(* REPAIR (order of the checks of Rays.__init__, ray.py:296-300): the assertion is the chained comparison
   times.shape == interior_indices.shape[1:] == (len(points[0]), len(points[-1])), which short-circuits.
   The model used to evaluate the end lengths first (a number at an end of the path -> TypeError, whatever
   the shapes); now, as in the library, unequal shapes are an AssertionError whatever the path is, and the
   end lengths are looked at only when the first two shapes agree.  rays_init_ok above is unchanged. *)
Theorem rays_init_shape_first : forall (T V PS : Type) (size : PS -> nat) (tshape : nat * nat)
    (times : list (list T)) (tlay : order) (d n m : nat) (X : list (list (list Z))) (ilay : order) (b : Z)
    (fp : list (item V PS)) (oarg : option order),
  tshape <> (n, m) ->
  rays_init size tshape times tlay (d, (n, m)) X ilay b fp oarg = inl AssertionError.
Proof.
  intros T V PS size [a c] times tlay d n m X ilay b fp oarg Hne. unfold rays_init. cbn [fst snd].
  destruct (nat2_eqb (a, c) (n, m)) eqn:E; cbn [negb]; [|reflexivity].
  unfold nat2_eqb in E. cbn [fst snd] in E. apply andb_prop in E as [E1 E2].
  apply Nat.eqb_eq in E1, E2. subst. now contradiction Hne.
Qed.

(* ... and with equal shapes, end lengths that cannot be taken (a number at an end position of the path,
   or no points at all) are the TypeError / IndexError of len(points[0]) *)
Theorem rays_init_ends_second : forall (T V PS : Type) (size : PS -> nat) (times : list (list T))
    (tlay : order) (d n m : nat) (X : list (list (list Z))) (ilay : order) (b : Z)
    (fp : list (item V PS)) (oarg : option order),
  ends_len size fp = None ->
  rays_init size (n, m) times tlay (d, (n, m)) X ilay b fp oarg = inl OtherError.
Proof.
  intros T V PS size times tlay d n m X ilay b fp oarg He. unfold rays_init. cbn [fst snd].
  unfold nat2_eqb at 1. cbn [fst snd]. rewrite !Nat.eqb_refl. cbn [andb negb]. now rewrite He.
Qed.

(* to_fortran_order: same values, times and indices both in Fortran order, whatever the shape *)
Theorem rays_to_fortran_order : forall (T V PS : Type) (size : PS -> nat) (r : rays_obj T V PS),
  wf_obj T V PS size r ->
  rays_obj_to_fortran size r
  = inr (mkRaysObj (ro_shape r) (ro_times r) OF (ro_indices r) OF (ro_bits r) (ro_path r)).
Proof. exact rays_obj_to_fortran_spec. Qed.

(* Rays.reverse(order): transposed times in the requested order, the whole index table flipped and
   transposed, the reversed FermatPath; the index table gets the requested order only when the
   interior block is not degenerate *)
Theorem rays_reverse_object : forall (T V PS : Type) (v_finite : V -> bool) (size : PS -> nat) (ord : order)
    (r : rays_obj T V PS) (p : fpath V PS),
  wf_obj T V PS size r -> ro_path r = unparse p -> 1 <= nlegs p -> vel_finite v_finite p = true ->
  let n := size (startp p) in
  let m := size (endp p) in
  rays_obj_reverse v_finite size ord r
  = inr (mkRaysObj (m, n) (transpose m (ro_times r)) ord (rev (map (transpose m) (ro_indices r)))
                   (if order_eqb ord OC || degenerate [ro_d r; m; n] then OC else OF)
                   (ro_bits r) (unparse (path_reverse p))).
Proof. exact rays_obj_reverse_spec. Qed.

(* consequence (replayed on the library): for a path with two interfaces Rays.reverse() returns
   Fortran-ordered times but a C-ordered index table *)
Theorem rays_reverse_two_interfaces_mixed_order : forall (T V PS : Type) (v_finite : V -> bool) (size : PS -> nat)
    (r : rays_obj T V PS) (P0 : PS) (v : V) (P : PS),
  wf_obj T V PS size r -> ro_path r = unparse (Leg (Start P0) v P) -> v_finite v = true ->
  exists r' : rays_obj T V PS,
    rays_obj_reverse v_finite size OF r = inr r' /\ ro_tlay r' = OF /\ ro_order r' = OC.
Proof. exact rays_obj_reverse_two_interfaces. Qed.

(* get_coordinates: fancy indexing by a layer of in-range indices is the table of the points *)
Theorem get_coordinates_in_range : forall (A : Type) (coords : list A) (d : A) (n m : nat) (f : nat -> nat -> nat),
  (forall i j : nat, i < n -> j < m -> f i j < length coords) ->
  get_coordinates coords (tab n m (fun i j : nat => Z.of_nat (f i j)))
  = Some (tab n m (fun i j : nat => nth (f i j) coords d)).
Proof. exact @get_coordinates_tab. Qed.

(* gone_through_extreme_points: ray (i, j) is flagged iff at some interior interface its index is
   0 or len(points) - 1 *)
Theorem gone_through_extreme_points_spec : forall (n m : nat) (sizes : list nat) (fs : list (nat -> nat -> Z)),
  gone_through_extreme_points n m sizes (map (tab n m) fs)
  = tab n m (fun i j : nat =>
       existsb (fun sf : nat * (nat -> nat -> Z) =>
                  (snd sf i j =? 0)%Z || (snd sf i j =? Z.of_nat (fst sf) - 1)%Z) (combine sizes fs)).
Proof. exact gone_through_extreme_points_tab. Qed.

(* ---- the solver's index tables ---- *)
(* every interior layer of an answer has the shape (n, p) of the time table ... *)
Theorem solve_interior_shapes : forall (T D V PS : Type) (leb ltb : T -> T -> bool) (add : T -> T -> T)
    (size : PS -> nat) (dtab : PS -> PS -> list (list D)) (divv : D -> V -> T)
    (wf : PS -> V -> PS -> nat -> nat -> T),
  total_preorder leb ltb -> leg_model size dtab divv wf ->
  forall (p : fpath V PS) (r : rays T),
  interior_ok size p -> solve_pure ltb add size dtab divv p = Some r ->
  forall lay : list (list nat), In lay (r_int r) ->
  length lay = size (startp p) /\ (forall row : list nat, In row lay -> length row = size (endp p)).
Proof. exact solve_int_shapes. Qed.

(* ... and layer k only holds valid indices of the (k+1)-th point set of the path *)
Theorem solve_indices_in_range : forall (T D V PS : Type) (leb ltb : T -> T -> bool) (add : T -> T -> T)
    (size : PS -> nat) (dtab : PS -> PS -> list (list D)) (divv : D -> V -> T)
    (wf : PS -> V -> PS -> nat -> nat -> T),
  total_preorder leb ltb -> leg_model size dtab divv wf ->
  forall (p : fpath V PS) (r : rays T),
  interior_ok size p -> solve_pure ltb add size dtab divv p = Some r ->
  Forall2 (fun (lay : list (list nat)) (Pk : PS) =>
             forall i j : nat, i < size (startp p) -> j < size (endp p) -> nth j (nth i lay []) 0 < size Pk)
          (r_int r) (removelast (tl (path_points p))).
Proof. exact FermatGlueIndexProofs.solve_indices_in_range. Qed.

(* Rays.indices[:, i, j] of the object built from an answer is the ray of solve_realised, cast *)
Theorem indices_column_is_ray : forall (T D V PS : Type) (leb ltb : T -> T -> bool) (add : T -> T -> T)
    (size : PS -> nat) (dtab : PS -> PS -> list (list D)) (divv : D -> V -> T)
    (wf : PS -> V -> PS -> nat -> nat -> T),
  total_preorder leb ltb -> leg_model size dtab divv wf ->
  forall (b : Z) (p : fpath V PS) (r : rays T) (i j : nat),
  interior_ok size p -> solve_pure ltb add size dtab divv p = Some r ->
  i < size (startp p) -> j < size (endp p) ->
  zray_of (make_indices_z b (size (startp p)) (size (endp p)) (interior_z b r)) i j
  = map (store b) (ray_of r i j).
Proof. exact zray_of_solve. Qed.

(* ---- the solver in the index dtype (dtype_indices; default settings.INT = 32 bits) ---- *)
(* if no interior point set has more than 2^(b-1) points, the solver whose index arrays have b bits
   (stored minimiser cast, _expand_rays indexing with the stored value) returns exactly the times
   and, as integers, the indices of the unbounded model — all theorems above apply to it *)
Theorem solve_dtype_exact : forall (T D V PS : Type) (leb ltb : T -> T -> bool) (add : T -> T -> T)
    (size : PS -> nat) (dtab : PS -> PS -> list (list D)) (divv : D -> V -> T)
    (wf : PS -> V -> PS -> nat -> nat -> T),
  total_preorder leb ltb -> leg_model size dtab divv wf ->
  forall (b : Z) (p : fpath V PS), (1 <= b)%Z ->
  interior_ok size p -> interior_le size (Z.to_nat (2 ^ (b - 1))) p ->
  solve_dt ltb add size dtab divv b p
  = option_map (fun r : rays T => (r_times r, map (map (map Z.of_nat)) (r_int r)))
               (solve_pure ltb add size dtab divv p).
Proof. exact solve_dt_exact. Qed.

(* the hypothesis is what FermatPath.len_largest_interface measures *)
Theorem interior_le_is_len_largest : forall (V PS : Type) (size : PS -> nat) (bound : nat) (p : fpath V PS),
  1 <= nlegs p ->
  (interior_le size bound p
   <-> exists L : nat, fp_len_largest_interface size (unparse p) = Some L /\ L <= bound).
Proof. exact interior_le_largest. Qed.

(* the bound is sharp: with 8-bit indices an interior set of 2^7 + 1 = 129 points whose last
   point is the fastest gives the stored index -128 instead of 128 (the full statement
   "solve_dt b = solve_pure for every path" is false) *)
Theorem solve_dtype_exact_bound_sharp_refuted :
  exists (p : fpath unit nat),
    interior_le (fun n : nat => n) 129 p
    /\ option_map (fun r => r_int r) (solve_pure Z.ltb Z.add (fun n => n) ovf_dtab (fun d _ => d) p)
       = Some [[[128]]]
    /\ option_map snd (solve_dt Z.ltb Z.add (fun n => n) ovf_dtab (fun d _ => d) 8 p)
       = Some [[[(-128)%Z]]].
Proof. exact (ex_intro _ ovf_path solve_dt_overflow_example). Qed.

(* ---- non-vacuity of the glue theorems (the 2 x 3 x 2 cloud over Q of the examples above) ---- *)
Definition qfin (_ : Q) : bool := true.
Definition expath_rev : cpath := path_reverse expath.

(* the tuple of expath; parse is its inverse; split_queue / split_head / reverse; a single point
   set and an even-length tuple are rejected *)
Example tuple_example :
  unparse expath = [IP exP0; IV (1#1)%Q; IP exP1; IV (2#1)%Q; IP exP2]
  /\ parse (unparse expath) = Some expath
  /\ fp_split_queue qfin (unparse expath) = inr ([IP exP0; IV (1#1)%Q; IP exP1], [IP exP1; IV (2#1)%Q; IP exP2])
  /\ fp_split_head qfin (unparse expath) = inr ([IP exP0; IV (1#1)%Q; IP exP1], [IP exP1; IV (2#1)%Q; IP exP2])
  /\ fp_reverse qfin (unparse expath) = inr [IP exP2; IV (2#1)%Q; IP exP1; IV (1#1)%Q; IP exP0]
  /\ fp_new qfin [IP exP0] = inl ValueError
  /\ fp_new qfin [IP exP0; IV (1#1)%Q] = inl ValueError
  /\ fp_split_queue qfin [IP exP0; IV (1#1)%Q; IP exP1] = inl ValueError
  /\ fp_from_path qfin [exP0; exP1; exP2] [(1#1)%Q; (2#1)%Q] = inr (unparse expath)
  /\ fp_from_path qfin [exP0] [(1#1)%Q] = inr [IP exP0; IV (1#1)%Q; IP exP0]
  /\ fp_from_path qfin [exP0] [] = inl ValueError
  /\ fp_num_points_sets (unparse expath) = 3
  /\ fp_len_largest_interface psize (unparse expath) = Some 3
  /\ vel_finite qfin expath = true /\ nlegs expath = 2.
Proof. repeat split; vm_compute; reflexivity. Qed.

(* _solve on the tuple gives the answer of solve_example *)
Example solve_on_tuple_example :
  solve_seq (nltb NumQ) (nadd NumQ) qfin psize (distance_pairwise NumQ) (ndiv NumQ) 2 (unparse expath)
  = Some (mkRays [[6#1; 13#2]; [13#2; 6#1]]%Q [[[0; 0]; [1; 1]]]).
Proof. vm_compute. reflexivity. Qed.

(* a generator of four Path objects: object 1 twice, object 2 equal to object 1 but distinct,
   object 3 the reversed path; every object ends with its own rays; Fortran order flagged *)
Definition exobj (id : Z) : pathobj Q pset := (id, ([exP0; exP1; exP2], [(1#1)%Q; (2#1)%Q])).
Definition exobj_rev (id : Z) : pathobj Q pset := (id, ([exP2; exP1; exP0], [(2#1)%Q; (1#1)%Q])).
Definition ex_rt (it : iterable (pathobj Q pset)) (fortran : bool) :=
  ray_tracing_for_paths (nltb NumQ) (nadd NumQ) pset_eqb (neqb NumQ) qfin psize
                        (distance_pairwise NumQ) (ndiv NumQ) it fortran.

Example ray_tracing_for_paths_example :
  option_map (map (fun w => (fst w, r_times (fst (snd w)), r_int (fst (snd w)), snd (snd w))))
             (ex_rt (OneShot [exobj 1; exobj 2; exobj 1; exobj_rev 3]) true)
  = Some [(1%Z, [[6#1; 13#2]; [13#2; 6#1]]%Q, [[[0; 0]; [1; 1]]], true);
          (2%Z, [[6#1; 13#2]; [13#2; 6#1]]%Q, [[[0; 0]; [1; 1]]], true);
          (1%Z, [[6#1; 13#2]; [13#2; 6#1]]%Q, [[[0; 0]; [1; 1]]], true);
          (3%Z, [[6#1; 13#2]; [13#2; 6#1]]%Q, [[[0; 1]; [0; 1]]], true)]
  /\ ex_rt (OneShot [exobj 1; exobj 2; exobj 1; exobj_rev 3]) true
     = ex_rt (Reiterable [exobj 1; exobj 2; exobj 1; exobj_rev 3]) true
  /\ option_map (fun ws => option_map (fun x => r_times (fst x)) (last_write 2%Z ws))
                (ex_rt (Reiterable [exobj 1; exobj 2]) false)
     = Some (Some [[6#1; 13#2]; [13#2; 6#1]]%Q)
  /\ ex_rt (Reiterable []) false = Some []
  /\ ex_rt (Reiterable [(7%Z, ([exP0], []))]) false = None.
Proof. repeat split; vm_compute; reflexivity. Qed.

(* the solver object: three paths of which two are equal give a dict with two keys; an iterator
   gives the empty dict *)
Example solver_object_example :
  option_map (fun sr => map (fun kv => r_times (snd kv)) (snd sr))
    (solver_solve_obj (nltb NumQ) (nadd NumQ) pset_eqb (neqb NumQ) psize (distance_pairwise NumQ) (ndiv NumQ)
       (solver_init (Reiterable [expath; expath_rev; expath]) None))
  = Some [[[6#1; 13#2]; [13#2; 6#1]]; [[6#1; 13#2]; [13#2; 6#1]]]%Q
  /\ option_map snd
       (solver_solve_obj (nltb NumQ) (nadd NumQ) pset_eqb (neqb NumQ) psize (distance_pairwise NumQ) (ndiv NumQ)
          (solver_init (OneShot [expath; expath_rev; expath]) None))
     = Some [].
Proof. split; vm_compute; reflexivity. Qed.

(* make_indices with 8-bit indices: a (1, 2, 2) interior block; index 150 is stored as -106 and
   200 rows overflow the first row from row 128 on (replayed on the library with np.int8) *)
Example make_indices_example :
  make_indices_z 8 2 2 [[[0; 0]; [1; 1]]%Z] = [[[0; 0]; [1; 1]]; [[0; 0]; [1; 1]]; [[0; 1]; [0; 1]]]%Z
  /\ store 8 150 = (-106)%Z /\ store 8 127 = 127%Z /\ store 8 128 = (-128)%Z /\ store 32 150 = 150%Z
  /\ zray_of (make_indices_z 8 200 1 []) 130 0 = [(-126)%Z; 0%Z]
  /\ make_indices_order None OF [1; 2; 2] = OF /\ make_indices_order None OF [0; 2; 3] = OC
  /\ make_indices_order None OF [1; 1; 3] = OC /\ make_indices_order None OC [2; 2; 2] = OC
  /\ make_indices_order (Some OF) OC [0; 2; 3] = OF.
Proof. repeat split; vm_compute; reflexivity. Qed.

(* the Rays object of solve_example, its reverse and its Fortran copy; assertion failures *)
Definition exrays : res (rays_obj Q Q pset) :=
  rays_init psize (2, 2) [[6#1; 13#2]; [13#2; 6#1]]%Q OC (1, (2, 2)) [[[0; 0]; [1; 1]]%Z] OC 32
            (unparse expath) None.

Example rays_object_example :
  (exists r, exrays = inr r /\ ro_order r = OC
     /\ ro_indices r = [[[0; 0]; [1; 1]]; [[0; 0]; [1; 1]]; [[0; 1]; [0; 1]]]%Z
     /\ (exists r', rays_obj_reverse qfin psize OF r = inr r' /\ ro_order r' = OF /\ ro_tlay r' = OF
           /\ ro_indices r' = [[[0; 0]; [1; 1]]; [[0; 1]; [0; 1]]; [[0; 1]; [0; 1]]]%Z
           /\ ro_path r' = unparse expath_rev)
     /\ (exists r', rays_obj_to_fortran psize r = inr r' /\ ro_order r' = OF /\ ro_indices r' = ro_indices r))
  /\ rays_init psize (2, 2) [[6#1; 13#2]; [13#2; 6#1]]%Q OC (1, (2, 3)) [] OC 32 (unparse expath) None
     = inl AssertionError
  /\ rays_init psize (2, 2) [[6#1; 13#2]; [13#2; 6#1]]%Q OC (0, (2, 2)) [] OC 32 (unparse expath) None
     = inl AssertionError
  /\ make_rays_two_interfaces psize (2, 2) [[6#1; 13#2]; [13#2; 6#1]]%Q OC 32 (unparse expath)
     = inl ValueError.
Proof.
  split; [|repeat split; vm_compute; reflexivity].
  eexists. split; [vm_compute; reflexivity|]. split; [reflexivity|]. split; [reflexivity|]. split.
  - eexists. split; [vm_compute; reflexivity|]. repeat split; vm_compute; reflexivity.
  - eexists. split; [vm_compute; reflexivity|]. repeat split; vm_compute; reflexivity.
Qed.

(* a number at the first position of the FermatPath (1.5, 0.5, P2, 0.5, P1, 1.0, P1, 0.5, P2): with
   times.shape (2, 2) and interior shape (3, 1, 1) the library raises AssertionError (the chained comparison
   stops at the first inequality), with times.shape (1, 1) TypeError (replayed on the library) *)
Example rays_number_at_end_example :
  let fp := [IV (3#2)%Q; IV (1#2)%Q; IP exP2; IV (1#2)%Q; IP exP1; IV (1#1)%Q; IP exP1; IV (1#2)%Q; IP exP2] in
  rays_init psize (2, 2) [[0; 0]; [0; 0]]%Q OC (3, (1, 1)) [[[0%Z]]; [[0%Z]]; [[0%Z]]] OC 32 fp None
  = inl AssertionError
  /\ rays_init psize (1, 1) [[0]]%Q OC (3, (1, 1)) [[[0%Z]]; [[0%Z]]; [[0%Z]]] OC 32 fp None
     = inl OtherError.
Proof. split; vm_compute; reflexivity. Qed.

(* get_coordinates (x of exP1 = 0, 3, 0) and gone_through_extreme_points (3 points: 0 and 2 are
   extreme) on the interior layer [[0, 0], [1, 1]] of solve_example; a negative index counts from
   the end, an out-of-range index raises *)
Example coordinates_example :
  get_coordinates [0; 3; 0]%Z [[0; 0]; [1; 1]]%Z = Some [[0; 0]; [3; 3]]%Z
  /\ get_coordinates [0; 3; 7]%Z [[(-1); 0]]%Z = Some [[7; 0]]%Z
  /\ get_coordinates [0; 3; 7]%Z [[3; 0]]%Z = None
  /\ gone_through_extreme_points 2 2 [3] [[[0; 0]; [1; 1]]%Z] = [[true; true]; [false; false]].
Proof. repeat split; vm_compute; reflexivity. Qed.
