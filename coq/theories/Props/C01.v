(* Props/C01.v — Ray tracing returns the globally fastest discrete ray (Fermat).
   Only statements; every proof is `exact <lemma>` (lemmas in Proofs/MinPlusProofs.v,
   Proofs/FermatProofs.v, Proofs/FermatSnell.v, Proofs/FermatSnellN.v).  Models: Model/MinPlus.v (the kernel _find_minimum_times),
   Model/Fermat.v (FermatPath, Rays, FermatSolver with its caches).

   The cost type T is ABSTRACT: `leb` a total preorder, `ltb a b = negb (leb b a)`
   the code's strict `<`, `add` monotone in its first argument — nothing else.
   IEEE non-NaN doubles satisfy these laws, so minplus_* / solve_optimal /
   solve_realised / solver_grouping / discrete_between are not "up to rounding".
   Reversal additionally needs an associative-commutative `add` and a symmetric
   distance (exact arithmetic: R, Q), which floats do not have.

   Vocabulary:
     path       Leg (Leg (Start P0) v0 P1) v1 P2 ...  = FermatPath (P0, v0, P1, v1, P2, ...)
     wf P v Q i j   travel time from point i of P to point j of Q at velocity v
     leg_model  the array distance_pairwise(P, Q) / v is the table of wf P v Q
                (proved for the concrete instance: concrete_leg_model)
     cost p ridx = Some c   ridx = [i_n; ...; i_0] (last point first) is a valid index
                tuple for p (right length, every index in range) and c is the
                LEFT-nested sum ((w_0 + w_1) + w_2) + ... the code accumulates
     interior_ok p   every interior point set is non-empty (otherwise the code raises
                ZeroDivisionError and solve_pure returns None)
     ray_of r i j = indices[:, i, j]

   What these theorems do NOT cover (sampled at run time by harness/prop_C01.py):
   memory layout (C/F), dtype casts, the thread pool (C13), the
   gone_through_extreme_points warning.  The continuous problem enters discrete_between
   through an arbitrary lower bound L; for ANY NUMBER of flat parallel interfaces in the
   plane the last section identifies the best such L: the travel time of the ray that
   obeys Snell's law at every interface is the global minimum of the continuous travel
   time (snell_global_min, discrete_between_snell).  Curved or non-parallel surfaces and
   3-D rays: not mechanised (there L stays abstract). *)
From Coq Require Import Arith List Bool ZArith QArith Lia Reals.
From Arim Require Import Base.Num Base.NumQ Model.MinPlus Model.Fermat
                         Proofs.MinPlusProofs Proofs.FermatProofs Proofs.FermatSnell
                         Proofs.FermatSnellN.
Import ListNotations.
Local Open Scope nat_scope.

(* ---- the kernel ---------------------------------------------------------- *)
(* for all table sizes with m >= 1: the returned time is <= every candidate
   time_1[i,k] + time_2[k,j], equals the candidate at the returned index, and
   (strict `<`) every earlier candidate is strictly larger *)
Theorem minplus_spec : forall T (leb ltb : T -> T -> bool) (add : T -> T -> T),
  total_preorder leb ltb ->
  forall (t1 t2c : list (list T)) i j r c,
    nth_error t1 i = Some r -> nth_error t2c j = Some c -> r <> [] -> c <> [] ->
    exists b kb,
      get2 (minplus ltb add t1 t2c) i j = Some (Some (b, kb))
      /\ (exists x y, nth_error r kb = Some x /\ nth_error c kb = Some y /\ b = add x y)
      /\ (forall k x y, nth_error r k = Some x -> nth_error c k = Some y -> leb b (add x y) = true)
      /\ (forall k x y, k < kb -> nth_error r k = Some x -> nth_error c k = Some y -> ltb b (add x y) = true).
Proof. exact minplus_spec_lemma. Qed.

(* the returned index is the LEAST minimiser *)
Theorem minplus_first : forall T (leb ltb : T -> T -> bool) (add : T -> T -> T),
  total_preorder leb ltb ->
  forall (t1 t2c : list (list T)) i j r c b kb,
    nth_error t1 i = Some r -> nth_error t2c j = Some c ->
    get2 (minplus ltb add t1 t2c) i j = Some (Some (b, kb)) ->
    forall k x y, k < kb -> nth_error r k = Some x -> nth_error c k = Some y -> ltb b (add x y) = true.
Proof. exact minplus_first_lemma. Qed.

(* a cell stays at (inf, -1) when there is no candidate (m = 0) *)
Theorem minplus_empty : forall T (ltb : T -> T -> bool) (add : T -> T -> T) (r c : list T),
  r = [] \/ c = [] -> minplus_cell ltb add r c = None.
Proof. exact minplus_empty_lemma. Qed.

(* one task of find_minimum_times: the kernel on rows a..b-1 of time_1 and columns
   c..d-1 of time_2 is the block [a:b, c:d] of the kernel on the whole tables
   (C13 shows that the blocks partition the output) *)
Theorem minplus_tile : forall T (ltb : T -> T -> bool) (add : T -> T -> T) (t1 t2c : list (list T)) a b c d,
  minplus ltb add (slice a b t1) (slice c d t2c) = block a b c d (minplus ltb add t1 t2c).
Proof. exact minplus_tile_lemma. Qed.

(* ---- the solver ------------------------------------------------------------ *)
(* the executable instance over any Num record satisfies the leg-table hypothesis *)
Theorem concrete_leg_model : forall T (N : Num T),
  leg_model psize (distance_pairwise N) (ndiv N) (leg_entry N).
Proof. exact @c_leg_tab. Qed.

(* the solver answers (no error) on every path with >= 1 leg and non-empty interior sets,
   with arrays of the right shapes *)
Theorem solve_defined : forall T D V PS (leb ltb : T -> T -> bool) (add : T -> T -> T)
    (size : PS -> nat) (dtab : PS -> PS -> list (list D)) (divv : D -> V -> T)
    (wf : PS -> V -> PS -> nat -> nat -> T),
  total_preorder leb ltb -> leg_model size dtab divv wf ->
  forall p : fpath V PS, 1 <= nlegs p -> interior_ok size p ->
  exists r, solve_pure ltb add size dtab divv p = Some r.
Proof. exact solve_defined_b. Qed.

Theorem solve_shapes : forall T D V PS (leb ltb : T -> T -> bool) (add : T -> T -> T)
    (size : PS -> nat) (dtab : PS -> PS -> list (list D)) (divv : D -> V -> T)
    (wf : PS -> V -> PS -> nat -> nat -> T),
  total_preorder leb ltb -> leg_model size dtab divv wf ->
  forall (p : fpath V PS) r, interior_ok size p -> solve_pure ltb add size dtab divv p = Some r ->
  length (r_times r) = size (startp p)
  /\ (forall row, In row (r_times r) -> length row = size (endp p))
  /\ length (r_int r) = nlegs p - 1.
Proof. exact solve_shape_b. Qed.

(* times[i][j] <= cost of EVERY valid tuple of indices from i to j (any number of legs) *)
Theorem solve_optimal : forall T D V PS (leb ltb : T -> T -> bool) (add : T -> T -> T)
    (size : PS -> nat) (dtab : PS -> PS -> list (list D)) (divv : D -> V -> T)
    (wf : PS -> V -> PS -> nat -> nat -> T),
  total_preorder leb ltb -> monotone_add leb add -> leg_model size dtab divv wf ->
  forall (p : fpath V PS) r ridx c,
    interior_ok size p -> solve_pure ltb add size dtab divv p = Some r ->
    cost add size wf p ridx = Some c ->
    exists t, get2 (r_times r) (last ridx 0) (hd 0 ridx) = Some t /\ leb t c = true.
Proof. exact solve_optimal_b. Qed.

(* the reported indices realise exactly the reported time: indices[0] = i,
   indices[last] = j, every index in range (cost is defined), cost = times[i][j] *)
Theorem solve_realised : forall T D V PS (leb ltb : T -> T -> bool) (add : T -> T -> T)
    (size : PS -> nat) (dtab : PS -> PS -> list (list D)) (divv : D -> V -> T)
    (wf : PS -> V -> PS -> nat -> nat -> T),
  total_preorder leb ltb -> leg_model size dtab divv wf ->
  forall (p : fpath V PS) r i j,
    interior_ok size p -> solve_pure ltb add size dtab divv p = Some r ->
    i < size (startp p) -> j < size (endp p) ->
    exists t, get2 (r_times r) i j = Some t
              /\ cost add size wf p (rev (ray_of r i j)) = Some t
              /\ hd 0 (ray_of r i j) = i /\ last (ray_of r i j) 0 = j
              /\ length (ray_of r i j) = S (nlegs p).
Proof. exact solve_realised_b. Qed.

(* the same two theorems for the solver run with ANY argmin choice function `sel` returning a
   minimiser (in range, attained, <= every candidate): `solve_sel sel` is the answer computed
   with that choice; the model (first strict minimiser) is the instance sel = cell1 ltb *)
Theorem solve_optimal_any_choice : forall T V PS (leb : T -> T -> bool) (add : T -> T -> T) (size : PS -> nat)
    (wf : PS -> V -> PS -> nat -> nat -> T) (sel : nat -> (nat -> T) -> T * nat),
  (forall a, leb a a = true) -> (forall a b c, leb a b = true -> leb b c = true -> leb a c = true) ->
  monotone_add leb add -> argmin_choice leb sel ->
  forall (h : fpath V PS) v P ridx c, interior_ok size (Leg h v P) ->
    cost add size wf (Leg h v P) ridx = Some c ->
    exists t, get2 (r_times (solve_sel T V PS add size wf sel h v P)) (last ridx 0) (hd 0 ridx) = Some t
              /\ leb t c = true.
Proof. exact any_choice_optimal_lemma. Qed.

Theorem solve_realised_any_choice : forall T V PS (leb : T -> T -> bool) (add : T -> T -> T) (size : PS -> nat)
    (wf : PS -> V -> PS -> nat -> nat -> T) (sel : nat -> (nat -> T) -> T * nat),
  argmin_choice leb sel ->
  forall (h : fpath V PS) v P i j, interior_ok size (Leg h v P) ->
    i < size (startp h) -> j < size P ->
    exists t, get2 (r_times (solve_sel T V PS add size wf sel h v P)) i j = Some t
              /\ cost add size wf (Leg h v P) (rev (ray_of (solve_sel T V PS add size wf sel h v P) i j)) = Some t
              /\ hd 0 (ray_of (solve_sel T V PS add size wf sel h v P) i j) = i
              /\ last (ray_of (solve_sel T V PS add size wf sel h v P) i j) 0 = j
              /\ length (ray_of (solve_sel T V PS add size wf sel h v P) i j) = S (S (nlegs h)).
Proof. exact any_choice_realised_lemma. Qed.

Theorem model_choice : forall T (leb ltb : T -> T -> bool),
  total_preorder leb ltb -> argmin_choice leb (cell1 T ltb).
Proof. exact model_choice_lemma. Qed.

Theorem model_is_choice : forall T D V PS (leb ltb : T -> T -> bool) (add : T -> T -> T) (size : PS -> nat)
    (dtab : PS -> PS -> list (list D)) (divv : D -> V -> T) (wf : PS -> V -> PS -> nat -> nat -> T),
  total_preorder leb ltb -> leg_model size dtab divv wf ->
  forall (h : fpath V PS) v P, interior_ok size (Leg h v P) ->
    solve_pure ltb add size dtab divv (Leg h v P) = Some (solve_sel T V PS add size wf (cell1 T ltb) h v P).
Proof. exact model_is_choice_lemma. Qed.

(* the executable specification `brute` (minimum of cost over ALL enumerated index tuples from i
   to j — the function the harness evaluates by vm_compute on the implementation's times) is what
   it says: attained by a valid tuple and <= the cost of every valid tuple ... *)
Theorem brute_spec : forall T V PS (leb ltb : T -> T -> bool) (add : T -> T -> T) (size : PS -> nat)
    (wf : PS -> V -> PS -> nat -> nat -> T),
  total_preorder leb ltb ->
  forall (p : fpath V PS) i j b,
    brute ltb add size wf p i j = Some b ->
    (exists ridx, cost add size wf p ridx = Some b /\ last ridx 0 = i /\ hd 0 ridx = j)
    /\ (forall ridx c, cost add size wf p ridx = Some c -> last ridx 0 = i -> hd 0 ridx = j -> leb b c = true).
Proof. exact brute_spec_lemma. Qed.

(* ... and the solver's times are that brute-force minimum *)
Theorem solve_is_brute : forall T D V PS (leb ltb : T -> T -> bool) (add : T -> T -> T) (size : PS -> nat)
    (dtab : PS -> PS -> list (list D)) (divv : D -> V -> T) (wf : PS -> V -> PS -> nat -> nat -> T),
  total_preorder leb ltb -> monotone_add leb add -> leg_model size dtab divv wf ->
  forall (p : fpath V PS) r i j t b,
    interior_ok size p -> solve_pure ltb add size dtab divv p = Some r ->
    get2 (r_times r) i j = Some t -> brute ltb add size wf p i j = Some b ->
    leb t b = true /\ leb b t = true.
Proof. exact solve_is_brute_lemma. Qed.

(* solving any list of paths with ONE solver (shared cached_result / cached_distance,
   the `rkey` slip of consecutive_times included) gives, path by path and in any order,
   the stand-alone answers — and raises iff some stand-alone solve raises *)
Theorem solver_grouping : forall T D V PS (ltb : T -> T -> bool) (add : T -> T -> T)
    (ps_eqb : PS -> PS -> bool) (v_eqb : V -> V -> bool)
    (size : PS -> nat) (dtab : PS -> PS -> list (list D)) (divv : D -> V -> T),
  (forall a b, ps_eqb a b = true <-> a = b) -> (forall a b, v_eqb a b = true -> a = b) ->
  forall ps : list (fpath V PS),
    solver_solve ltb add ps_eqb v_eqb size dtab divv ps
    = all_some (map (fun p => option_map (fun r => (p, r)) (solve_pure ltb add size dtab divv p)) ps).
Proof. exact solver_grouping_lemma. Qed.

(* ---- reversal (exact arithmetic: associative-commutative add, symmetric distance) ---- *)
Theorem path_reverse_involutive : forall V PS (p : fpath V PS), path_reverse (path_reverse p) = p.
Proof. exact path_reverse_involutive. Qed.

(* the cost of a tuple on the reversed path, read backwards, is the same value *)
Theorem cost_reverse : forall T V PS (add : T -> T -> T) (size : PS -> nat)
    (wf : PS -> V -> PS -> nat -> nat -> T),
  (forall a b c, add a (add b c) = add (add a b) c) -> (forall a b, add a b = add b a) ->
  (forall P v Q i j, wf P v Q i j = wf Q v P j i) ->
  forall (p : fpath V PS) ridx c,
    cost add size wf p ridx = Some c -> cost add size wf (path_reverse p) (rev ridx) = Some c.
Proof. exact cost_reverse. Qed.

(* the reversed path has the same interior sets *)
Theorem interior_ok_reverse : forall V PS (size : PS -> nat) (p : fpath V PS),
  interior_ok size (path_reverse p) <-> interior_ok size p.
Proof. exact interior_ok_reverse. Qed.

(* times(reverse p)[j][i] and times(p)[i][j] are order-equivalent ... *)
Theorem solve_reverse : forall T D V PS (leb ltb : T -> T -> bool) (add : T -> T -> T)
    (size : PS -> nat) (dtab : PS -> PS -> list (list D)) (divv : D -> V -> T)
    (wf : PS -> V -> PS -> nat -> nat -> T),
  total_preorder leb ltb -> monotone_add leb add -> leg_model size dtab divv wf ->
  (forall a b c, add a (add b c) = add (add a b) c) -> (forall a b, add a b = add b a) ->
  (forall P v Q i j, wf P v Q i j = wf Q v P j i) ->
  forall (p : fpath V PS) r r' i j,
    interior_ok size p ->
    solve_pure ltb add size dtab divv p = Some r ->
    solve_pure ltb add size dtab divv (path_reverse p) = Some r' ->
    i < size (startp p) -> j < size (endp p) ->
    exists t t', get2 (r_times r) i j = Some t /\ get2 (r_times r') j i = Some t'
                 /\ leb t t' = true /\ leb t' t = true.
Proof. exact solve_reverse_lemma. Qed.

(* ... hence EQUAL (transposed times) when the order is antisymmetric (R, Z, normalised Q) *)
Theorem solve_reverse_transposed : forall T D V PS (leb ltb : T -> T -> bool) (add : T -> T -> T)
    (size : PS -> nat) (dtab : PS -> PS -> list (list D)) (divv : D -> V -> T)
    (wf : PS -> V -> PS -> nat -> nat -> T),
  total_preorder leb ltb -> monotone_add leb add -> leg_model size dtab divv wf ->
  (forall a b c, add a (add b c) = add (add a b) c) -> (forall a b, add a b = add b a) ->
  (forall P v Q i j, wf P v Q i j = wf Q v P j i) ->
  forall (p : fpath V PS) r r' i j,
    (forall a b, leb a b = true -> leb b a = true -> a = b) ->
    interior_ok size p ->
    solve_pure ltb add size dtab divv p = Some r ->
    solve_pure ltb add size dtab divv (path_reverse p) = Some r' ->
    i < size (startp p) -> j < size (endp p) ->
    exists t, get2 (r_times r) i j = Some t /\ get2 (r_times r') j i = Some t.
Proof. exact solve_reverse_eq. Qed.

(* Rays.reverse twice is the identity on every answer of the solver (no monoid law needed) *)
Theorem rays_reverse_involutive : forall T D V PS (leb ltb : T -> T -> bool) (add : T -> T -> T)
    (size : PS -> nat) (dtab : PS -> PS -> list (list D)) (divv : D -> V -> T)
    (wf : PS -> V -> PS -> nat -> nat -> T),
  total_preorder leb ltb -> leg_model size dtab divv wf ->
  forall (p : fpath V PS) r, interior_ok size p -> solve_pure ltb add size dtab divv p = Some r ->
  rays_reverse (size (startp p)) (rays_reverse (size (endp p)) r) = r.
Proof. exact rays_reverse_involutive_lemma. Qed.

(* Rays.reverse of an answer: transposed times, and its index tuples realise them on the reversed path *)
Theorem rays_reverse_valid : forall T D V PS (leb ltb : T -> T -> bool) (add : T -> T -> T)
    (size : PS -> nat) (dtab : PS -> PS -> list (list D)) (divv : D -> V -> T)
    (wf : PS -> V -> PS -> nat -> nat -> T),
  total_preorder leb ltb -> leg_model size dtab divv wf ->
  (forall a b c, add a (add b c) = add (add a b) c) -> (forall a b, add a b = add b a) ->
  (forall P v Q i j, wf P v Q i j = wf Q v P j i) ->
  forall (p : fpath V PS) r i j,
    interior_ok size p -> solve_pure ltb add size dtab divv p = Some r ->
    i < size (startp p) -> j < size (endp p) ->
    exists t, get2 (r_times r) i j = Some t
              /\ get2 (r_times (rays_reverse (size (endp p)) r)) j i = Some t
              /\ cost add size wf (path_reverse p) (rev (ray_of (rays_reverse (size (endp p)) r) j i)) = Some t.
Proof. exact rays_reverse_valid_lemma. Qed.

(* ---- relation to the continuous problem ------------------------------------------ *)
(* X = tuples of crossing points on the surfaces, ctime = continuous travel time, `sample ridx` =
   the positions of the sample points with indices ridx (the samples LIE on the surfaces, so the
   discrete cost is the continuous travel time through them).  For every lower bound L of the
   continuous travel time:  L <= times[i][j] <= ctime of ANY sample tuple, in particular of the
   samples nearest to the continuous (Snell) crossing points.
   fermat_stationary_snell below identifies the continuous minimiser with the Snell ray for
   one flat interface, snell_global_min / fermat_snellN / discrete_between_snell (section
   "any number of flat parallel interfaces") for n of them; for other geometries "Snell" is
   only the name of L. *)
Theorem discrete_between : forall T D V PS (leb ltb : T -> T -> bool) (add : T -> T -> T)
    (size : PS -> nat) (dtab : PS -> PS -> list (list D)) (divv : D -> V -> T)
    (wf : PS -> V -> PS -> nat -> nat -> T),
  total_preorder leb ltb -> leg_model size dtab divv wf -> monotone_add leb add ->
  forall (p : fpath V PS) r i j (X : Type) (ctime : X -> T) (sample : list nat -> X) (L : T),
    interior_ok size p -> solve_pure ltb add size dtab divv p = Some r ->
    i < size (startp p) -> j < size (endp p) ->
    (forall ridx c, cost add size wf p ridx = Some c -> last ridx 0 = i -> hd 0 ridx = j ->
                    ctime (sample ridx) = c) ->
    (forall x, leb L (ctime x) = true) ->
    exists t, get2 (r_times r) i j = Some t
              /\ leb L t = true
              /\ (forall ridx c, cost add size wf p ridx = Some c -> last ridx 0 = i -> hd 0 ridx = j ->
                                 leb t (ctime (sample ridx)) = true).
Proof. exact discrete_between_lemma. Qed.

(* Fermat => Snell for one flat interface z = 0 (2-D): if x is a local minimiser of the travel
   time  |A X| / c1 + |X B| / c2,  A = (xa, za), B = (xb, zb), X = (x, 0), then
   sin(theta1) / c1 = sin(theta2) / c2  with sin(theta1) = (x - xa) / |A X| and
   sin(theta2) = (xb - x) / |X B| (angles to the normal).  So the lower bound L of
   discrete_between attained by the continuous minimiser is the Snell ray's travel time.
   (One interface; any number of flat parallel interfaces: next section; curved surfaces:
   not mechanised.) *)
Theorem fermat_stationary_snell : forall xa za xb zb c1 c2 x a b : R,
  (za <> 0 -> zb <> 0 -> c1 <> 0 -> c2 <> 0 -> a < x < b ->
   (forall y, a < y < b -> ttime xa za xb zb c1 c2 x <= ttime xa za xb zb c1 c2 y) ->
   (x - xa) / sqrt ((x - xa) * (x - xa) + za * za) / c1
   = (xb - x) / sqrt ((xb - x) * (xb - x) + zb * zb) / c2)%R.
Proof. exact fermat_stationary_snell_lemma. Qed.

(* ---- any number of flat parallel interfaces (2-D) ---------------------------------- *)
(* n >= 0 horizontal interfaces, n+1 legs.  ls = [(h_0, v_0); ...; (h_n, v_n)] thickness and
   velocity of the layer crossed by leg k (layers_ok: all > 0); a, b abscissae of source and
   target; xs = [x_1; ...; x_n] abscissae of the crossing points.
     leg h v d   = sqrt (d*d + h*h) / v                      time of a leg of horizontal extent d
     slope h v d = d / (v * sqrt (d*d + h*h))                = sin(theta) / v
     ttimeN ls a xs b = sum_k leg h_k v_k (x_{k+1} - x_k)     (x_0 = a, x_{n+1} = b)
     slopesN ls a xs b = [sin(theta_0)/v_0; ...; sin(theta_n)/v_n]
     snellN ls a xs b : consecutive entries of slopesN are equal (Snell at every interface)
   All statements are for every n (induction over the lists). *)

(* each leg time is differentiable in its horizontal extent, derivative sin(theta)/v ... *)
Theorem leg_time_derivative : forall h v d : R, (0 < h)%R -> (0 < v)%R ->
  derivable_pt_lim (leg h v) d (slope h v d).
Proof. exact leg_derive_Reals. Qed.

(* ... where theta = atan (d / h) is the angle of the leg to the normal of the interfaces *)
Theorem leg_slope_is_sine_over_v : forall h v d : R, (0 < h)%R -> (0 < v)%R ->
  slope h v d = (sin (atan (d / h)) / v)%R.
Proof. exact slope_sin_atan. Qed.

(* the leg time lies above its tangent lines (Cauchy-Schwarz) and is convex *)
Theorem leg_time_tangent : forall h v d e : R, (0 < h)%R -> (0 < v)%R ->
  (leg h v d + slope h v d * (e - d) <= leg h v e)%R.
Proof. exact leg_tangent. Qed.

Theorem leg_time_convex : forall h v d e t : R, (0 < h)%R -> (0 < v)%R -> (0 <= t <= 1)%R ->
  (leg h v (t * d + (1 - t) * e) <= t * leg h v d + (1 - t) * leg h v e)%R.
Proof. exact leg_convex. Qed.

(* Snell at every interface <=> one ray parameter p = sin(theta_k)/v_k for all legs *)
Theorem snell_invariant : forall ls a xs b,
  snellN ls a xs b <-> exists p, Forall (fun s => s = p) (slopesN ls a xs b).
Proof. exact snellN_invariant. Qed.

(* SNELL ==> GLOBAL MINIMUM: the ray obeying Snell's law at every interface is at least as fast
   as the ray through ANY other crossing points (tangent-line inequalities of all legs summed;
   the linear terms telescope because p is common and both rays go from a to b) *)
Theorem snell_global_min : forall ls a xs b,
  layers_ok ls -> length ls = S (length xs) -> snellN ls a xs b ->
  forall ys, length ys = length xs -> (ttimeN ls a xs b <= ttimeN ls a ys b)%R.
Proof. exact snell_global_min_lemma. Qed.

(* FERMAT ==> SNELL: a LOCAL minimiser (within eps in every coordinate) obeys Snell's law at
   every interface *)
Theorem fermat_snellN : forall ls, layers_ok ls -> forall a xs b,
  length ls = S (length xs) ->
  (exists eps, (0 < eps)%R /\ forall ys, Forall2 (fun x y => (Rabs (y - x) < eps)%R) xs ys ->
                                         (ttimeN ls a xs b <= ttimeN ls a ys b)%R) ->
  snellN ls a xs b.
Proof. exact fermat_snellN_lemma. Qed.

(* the partial derivative of the travel time in the crossing point x_k (k = length pre) is
   sin(theta_k)/v_k - sin(theta_{k+1})/v_{k+1} ... *)
Theorem travel_time_partial_derivative : forall ls, layers_ok ls ->
  forall (pre : list R) (a x : R) (post : list R) (b : R),
  length ls = S (length (pre ++ x :: post)) ->
  derivable_pt_lim (fun y : R => ttimeN ls a (pre ++ y :: post) b) x
    (nth (length pre) (slopesN ls a (pre ++ x :: post) b) 0
     - nth (S (length pre)) (slopesN ls a (pre ++ x :: post) b) 0)%R.
Proof. exact ttimeN_partial_Reals. Qed.

(* ... so the stationary points (all partial derivatives vanish) are exactly the Snell rays *)
Theorem stationary_iff_snell : forall ls a xs b,
  layers_ok ls -> length ls = S (length xs) ->
  ((forall (pre : list R) (x : R) (post : list R), xs = pre ++ x :: post ->
      derivable_pt_lim (fun y : R => ttimeN ls a (pre ++ y :: post) b) x 0%R)
   <-> snellN ls a xs b).
Proof. exact stationary_iff_snell_lemma. Qed.

(* Snell ray <=> global minimiser <=> local minimiser of the continuous travel time *)
Theorem snell_min_equiv : forall ls a xs b,
  layers_ok ls -> length ls = S (length xs) ->
  (snellN ls a xs b <-> global_minN ls a xs b) /\ (snellN ls a xs b <-> local_minN ls a xs b).
Proof. exact snell_min_equiv_lemma. Qed.

(* samples = one non-empty list of sampled abscissae per interface; discrete_minN = the minimum
   of ttimeN over all choices of one sample per interface (is_choice ys samples).  Then
   continuous Snell time <= discrete minimum (attained) <= time through ANY tuple of samples. *)
Theorem snell_discrete_min : forall ls a xs b samples,
  layers_ok ls -> length ls = S (length xs) -> snellN ls a xs b ->
  length samples = length xs -> Forall (fun s => s <> []) samples ->
  (ttimeN ls a xs b <= discrete_minN ls a samples b)%R
  /\ (exists ys, is_choice ys samples /\ discrete_minN ls a samples b = ttimeN ls a ys b)
  /\ (forall ys, is_choice ys samples -> (discrete_minN ls a samples b <= ttimeN ls a ys b)%R).
Proof. exact snell_discrete_min_lemma. Qed.

(* discrete_between for the verified solver over the reals with L := the Snell ray's travel time:
   if the interior sets sample n flat parallel interfaces (the discrete cost of every valid index
   tuple is ttimeN through the abscissae `sample ridx` of its interior points), then
       Snell time <= times[i][j] <= time of the ray through any tuple of samples,
   in particular through the samples nearest to the Snell crossing points. *)
Theorem discrete_between_snell : forall (D V PS : Type) (size : PS -> nat)
    (dtab : PS -> PS -> list (list D)) (divv : D -> V -> R)
    (wf : PS -> V -> PS -> nat -> nat -> R),
  leg_model size dtab divv wf ->
  forall (p : fpath V PS) (r : rays R) (i j : nat) ls a xs b (sample : list nat -> list R),
    layers_ok ls -> length ls = S (length xs) -> snellN ls a xs b ->
    interior_ok size p -> solve_pure Rltb Rplus size dtab divv p = Some r ->
    i < size (startp p) -> j < size (endp p) ->
    (forall ridx c, cost Rplus size wf p ridx = Some c -> last ridx 0 = i -> hd 0 ridx = j ->
                    length (sample ridx) = length xs /\ ttimeN ls a (sample ridx) b = c) ->
    exists t, get2 (r_times r) i j = Some t
              /\ (ttimeN ls a xs b <= t)%R
              /\ (forall ridx c, cost Rplus size wf p ridx = Some c -> last ridx 0 = i -> hd 0 ridx = j ->
                                 (t <= ttimeN ls a (sample ridx) b)%R).
Proof. exact discrete_between_snell_lemma. Qed.

(* the reals with <= and + are an instance of every hypothesis used above (total preorder,
   monotone, associative, commutative, antisymmetric); the Euclidean leg time is symmetric *)
Theorem cost_structure_R :
  total_preorder Rleb Rltb /\ monotone_add Rleb Rplus
  /\ (forall a b c, a + (b + c) = (a + b) + c)%R /\ (forall a b, a + b = b + a)%R
  /\ (forall a b, Rleb a b = true -> Rleb b a = true -> a = b).
Proof. exact cost_structure_R_lemma. Qed.

Theorem leg_time_symmetric : forall x1 y1 z1 x2 y2 z2 v : R,
  (sqrt ((x1 - x2) * (x1 - x2) + (y1 - y2) * (y1 - y2) + (z1 - z2) * (z1 - z2)) / v
   = sqrt ((x2 - x1) * (x2 - x1) + (y2 - y1) * (y2 - y1) + (z2 - z1) * (z2 - z1)) / v)%R.
Proof. exact leg_time_symmetric_lemma. Qed.

(* whatever the tie-breaking of the argmin, realised + optimal pin the time (this is why the
   harness compares `times` with the model but only checks solve_realised on `indices`) *)
Theorem fastest_unique : forall T V PS (leb : T -> T -> bool) (add : T -> T -> T) (size : PS -> nat)
    (wf : PS -> V -> PS -> nat -> nat -> T) (p : fpath V PS) i j ridx1 ridx2 t1 t2,
  cost add size wf p ridx1 = Some t1 -> last ridx1 0 = i -> hd 0 ridx1 = j ->
  cost add size wf p ridx2 = Some t2 -> last ridx2 0 = i -> hd 0 ridx2 = j ->
  (forall ridx c, cost add size wf p ridx = Some c -> last ridx 0 = i -> hd 0 ridx = j -> leb t1 c = true) ->
  (forall ridx c, cost add size wf p ridx = Some c -> last ridx 0 = i -> hd 0 ridx = j -> leb t2 c = true) ->
  leb t1 t2 = true /\ leb t2 t1 = true.
Proof. exact @fastest_unique_lemma. Qed.

(* ---- non-vacuity ----------------------------------------------------------- *)
(* a 2 x 3 x 2 cloud over Q (3-4-5 triangles; the third interior point coincides with
   the first, so (i,j) = (0,0) has a tie that strict `<` resolves to index 0) *)
Definition exq (a b c : Z) : pt (T:=Q) := (inject_Z a, inject_Z b, inject_Z c).
Definition exP0 : pset := (0%Z, [exq 0 0 0; exq 3 0 0]).
Definition exP1 : pset := (1%Z, [exq 0 0 4; exq 3 0 4; exq 0 0 4]).
Definition exP2 : pset := (2%Z, [exq 0 0 8; exq 3 0 8]).
Definition expath : cpath := mk_path exP0 [((1#1)%Q, exP1); ((2#1)%Q, exP2)].

Example solve_example :
  c_solve_pure NumQ expath
  = Some (mkRays [[6#1; 13#2]; [13#2; 6#1]]%Q [[[0; 0]; [1; 1]]]).
Proof. vm_compute. reflexivity. Qed.

Example brute_example :
  map (fun ij => c_brute NumQ expath (fst ij) (snd ij)) [(0,0); (0,1); (1,0); (1,1)]
  = [Some (6#1); Some (13#2); Some (13#2); Some (6#1)]%Q.
Proof. vm_compute. reflexivity. Qed.

Example grouped_example :
  option_map (map (fun pr => r_times (snd pr))) (c_solver NumQ [expath; path_reverse expath; expath])
  = Some [[[6#1; 13#2]; [13#2; 6#1]]; [[6#1; 13#2]; [13#2; 6#1]]; [[6#1; 13#2]; [13#2; 6#1]]]%Q.
Proof. vm_compute. reflexivity. Qed.

(* the hypotheses on the cost type are satisfiable (integers) *)
Example cost_structure_Z : total_preorder Z.leb Z.ltb /\ monotone_add Z.leb Z.add.
Proof.
  unfold total_preorder, monotone_add. repeat split; intros.
  - apply Z.leb_refl.
  - apply Z.leb_le in H, H0. apply Z.leb_le. lia.
  - destruct (Z.le_ge_cases a b); [left | right]; now apply Z.leb_le.
  - rewrite Z.ltb_antisym. reflexivity.
  - apply Z.leb_le in H. apply Z.leb_le. lia.
Qed.

(* two interfaces, three 3-4-5 legs with velocities 1, 4/3, 1 (ex_layers = [(4,1); (3,4/3); (4,1)],
   a = 0, crossings 3 and 7, b = 10): sin(theta)/v = 3/5 on every leg, the Snell ray takes
   55/4, every other pair of crossing points takes at least that, and so does the discrete
   minimum over the samples {2,4} x {6,8} *)
Example snell_example :
  layers_ok ex_layers
  /\ snellN ex_layers 0 [3; 7]%R 10
  /\ ttimeN ex_layers 0 [3; 7]%R 10 = (55 / 4)%R
  /\ (forall y1 y2 : R, (55 / 4 <= ttimeN ex_layers 0 [y1; y2] 10)%R)
  /\ (55 / 4 <= discrete_minN ex_layers 0 [[2; 4]; [6; 8]]%R 10)%R.
Proof. exact snell_example_lemma. Qed.
