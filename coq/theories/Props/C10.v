(* Props/C10.v — Scattering matrices faithfully represent, interpolate and rotate the
   functions.  Statements only (proofs: Proofs/ScatMatrixProofs.v, Proofs/DftProofs.v).
   The half period P > 0 is a parameter of every statement (the code uses pi); exact
   arithmetic (NumR).  Oracles: numpy.fft.fft2/ifft2 compute the finite Fourier sums of
   Model/Dft.v; scipy.interpolate.interp1d(linear, extrapolate) computes `lerp` on the
   bracketing pair of frequencies; MAT-file I/O (round trip is correspondence only). *)
From Coq Require Import ZArith Reals Lia Lra.
From Coquelicot Require Import Complex.
From Arim Require Import Base.Num Base.NumR Model.ScatMatrix Model.Dft
                         Proofs.ScatMatrixProofs Proofs.DftProofs Proofs.Dft2Proofs.
Local Open Scope R_scope.

(* entry [j, i] is the function value for incident angle -P + 2P i/n and scattered angle
   -P + 2P j/n *)
Theorem matrix_layout : forall P, 0 < P -> forall n, (1 <= n)%Z -> forall (f : R -> R -> R) i j,
  matrix_of NumR P f n j i = f (- P + 2 * P * IZR i / IZR n) (- P + 2 * P * IZR j / IZR n).
Proof. intros; apply matrix_layout_R; assumption. Qed.

(* interpolation reproduces the entries at the nodes *)
Theorem interp_at_nodes : forall P, 0 < P -> forall n, (1 <= n)%Z -> forall M i j,
  (0 <= i < n)%Z -> (0 <= j < n)%Z ->
  interp NumR P n M (angle NumR P n i) (angle NumR P n j) = M j i.
Proof. intros; apply interp_at_nodes_R; assumption. Qed.

(* ... is bilinear in between (including across the seam: indices wrap modulo n) *)
Theorem interp_bilinear : forall P, 0 < P -> forall n, (1 <= n)%Z -> forall M i j s t,
  (0 <= i < n)%Z -> (0 <= j < n)%Z -> 0 <= s < 1 -> 0 <= t < 1 ->
  interp NumR P n M (angle NumR P n i + s * dtheta NumR P n) (angle NumR P n j + t * dtheta NumR P n)
  = bilinear (M j i) (M j ((i + 1) mod n)%Z) (M ((j + 1) mod n)%Z i)
             (M ((j + 1) mod n)%Z ((i + 1) mod n)%Z) s t.
Proof. intros; apply interp_bilinear_R; assumption. Qed.

(* ... and wraps around for any real angles *)
Theorem interp_periodic : forall P, 0 < P -> forall n, (1 <= n)%Z -> forall M a b k l,
  interp NumR P n M (a + 2 * P * IZR k) (b + 2 * P * IZR l) = interp NumR P n M a b.
Proof. intros; apply interp_periodic_R; assumption. Qed.

Theorem interp_seam : forall P, 0 < P -> forall n, (1 <= n)%Z -> forall M b,
  interp NumR P n M P b = interp NumR P n M (- P) b.
Proof. intros; apply interp_seam_R; assumption. Qed.

Theorem interp_index_in_range : forall P, 0 < P -> forall n, (1 <= n)%Z -> forall theta,
  (0 <= theta_idx NumR P n theta < n)%Z /\ 0 <= theta_frac NumR P n theta < 1.
Proof. intros P HP n Hn theta. split; [apply idx_range | apply frac_range]; assumption. Qed.

(* rotating by a whole number of grid steps = shifting both indices *)
Theorem rotate_commutes : forall P, 0 < P -> forall n, (1 <= n)%Z -> forall M a b k,
  interp NumR P n (shift_matrix n k M) a b
  = interp NumR P n M (a - IZR k * dtheta NumR P n) (b - IZR k * dtheta NumR P n).
Proof. intros; apply rotate_commutes_R; assumption. Qed.

(* rotate_matrix's FFT route: multiplying the 2-D spectrum by exp(-2 pi i (fx + fy) phi),
   phi = m grid steps, and transforming back shifts both indices by m, circularly *)
Theorem rotate_fft_is_shift : forall X n (m j1 j2 : Z), (0 < n)%nat ->
  idft2 (rotate_spectrum X n (IZR m * (2 * PI / INR n))) n j1 j2 = idft2 X n (j1 - m) (j2 - m).
Proof. exact rotate_whole_steps. Qed.

Theorem rotate_fft_circular : forall X n (j1 j2 : Z), (0 < n)%nat ->
  idft2 X n (j1 + Z.of_nat n) j2 = idft2 X n j1 j2 /\ idft2 X n j1 (j2 + Z.of_nat n) = idft2 X n j1 j2.
Proof. exact idft2_periodic. Qed.

(* ... and since the two-dimensional Fourier sums invert each other (orthogonality of the roots
   of unity, twice), this is a statement about the MATRIX: rotate_matrix by m grid steps
   returns the matrix with both indices shifted circularly by m *)
Theorem rotate_matrix_is_index_shift : forall (x : nat -> nat -> C) n (m : Z) (j1 j2 : nat),
  (j1 < n)%nat -> (j2 < n)%nat ->
  idft2 (rotate_spectrum (dft2 x n) n (IZR m * (2 * PI / INR n))) n (Z.of_nat j1) (Z.of_nat j2)
  = x (Z.to_nat ((Z.of_nat j1 - m) mod Z.of_nat n)) (Z.to_nat ((Z.of_nat j2 - m) mod Z.of_nat n)).
Proof. exact rotate_is_index_shift. Qed.

Theorem fourier_inversion_2d : forall (x : nat -> nat -> C) n (j1 j2 : nat), (j1 < n)%nat -> (j2 < n)%nat ->
  idft2 (dft2 x n) n (Z.of_nat j1) (Z.of_nat j2) = x j1 j2.
Proof. exact idft2_dft2. Qed.

(* data-backed scatterers: linear in frequency, reproducing the data at the samples *)
Theorem freq_interp_nodes : forall f0 f1 v0 v1, f0 <> f1 ->
  lerp NumR f0 f1 v0 v1 f0 = v0 /\ lerp NumR f0 f1 v0 v1 f1 = v1.
Proof. exact lerp_nodes. Qed.

Theorem freq_interp_linear : forall f0 f1 v0 v1 f, f0 <> f1 ->
  lerp NumR f0 f1 v0 v1 f = ((f1 - f) * v0 + (f - f0) * v1) / (f1 - f0).
Proof. exact lerp_affine. Qed.

(* non-vacuity: n = 4, the point a quarter of the way between nodes (1,2) and (2,3) *)
Example interp_example : forall M,
  interp NumR 1 4 M (angle NumR 1 4 1 + / 4 * dtheta NumR 1 4) (angle NumR 1 4 2 + / 2 * dtheta NumR 1 4)
  = bilinear (M 2%Z 1%Z) (M 2%Z 2%Z) (M 3%Z 1%Z) (M 3%Z 2%Z) (/ 4) (/ 2).
Proof.
  intros M. rewrite interp_bilinear_R by (try lia; lra). reflexivity.
Qed.
