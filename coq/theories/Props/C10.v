(* Props/C10.v — Scattering matrices faithfully represent, interpolate and rotate the
   functions.  Statements only (proofs: Proofs/ScatMatrixProofs.v, Proofs/DftProofs.v).
   The half period P > 0 is a parameter of every statement (the code uses pi); exact
   arithmetic (NumR).  Oracles: numpy.fft.fft2/ifft2 compute the finite Fourier sums of
   Model/Dft.v; scipy.interpolate.interp1d(linear, extrapolate) computes `lerp` on the
   bracketing pair of frequencies; MAT-file I/O (round trip is correspondence only). *)
From Coq Require Import ZArith Reals Lia Lra.
From Coquelicot Require Import Complex.
From Arim Require Import Base.Num Base.NumR Model.ScatMatrix Model.Dft
                         Proofs.ScatMatrixProofs Proofs.DftProofs Proofs.Dft2Proofs.
Local Open Scope R_scope.

(* entry [j, i] is the function value for incident angle -P + 2P i/n and scattered angle
   -P + 2P j/n *)
Theorem matrix_layout : forall P, 0 < P -> forall n, (1 <= n)%Z -> forall (f : R -> R -> R) i j,
  matrix_of NumR P f n j i = f (- P + 2 * P * IZR i / IZR n) (- P + 2 * P * IZR j / IZR n).
Proof. intros; apply matrix_layout_R; assumption. Qed.

(* interpolation reproduces the entries at the nodes *)
Theorem interp_at_nodes : forall P, 0 < P -> forall n, (1 <= n)%Z -> forall M i j,
  (0 <= i < n)%Z -> (0 <= j < n)%Z ->
  interp NumR P n M (angle NumR P n i) (angle NumR P n j) = M j i.
Proof. intros; apply interp_at_nodes_R; assumption. Qed.

(* ... is bilinear in between (including across the seam: indices wrap modulo n) *)
Theorem interp_bilinear : forall P, 0 < P -> forall n, (1 <= n)%Z -> forall M i j s t,
  (0 <= i < n)%Z -> (0 <= j < n)%Z -> 0 <= s < 1 -> 0 <= t < 1 ->
  interp NumR P n M (angle NumR P n i + s * dtheta NumR P n) (angle NumR P n j + t * dtheta NumR P n)
  = bilinear (M j i) (M j ((i + 1) mod n)%Z) (M ((j + 1) mod n)%Z i)
             (M ((j + 1) mod n)%Z ((i + 1) mod n)%Z) s t.
Proof. intros; apply interp_bilinear_R; assumption. Qed.

(* ... and wraps around for any real angles *)
Theorem interp_periodic : forall P, 0 < P -> forall n, (1 <= n)%Z -> forall M a b k l,
  interp NumR P n M (a + 2 * P * IZR k) (b + 2 * P * IZR l) = interp NumR P n M a b.
Proof. intros; apply interp_periodic_R; assumption. Qed.

Theorem interp_seam : forall P, 0 < P -> forall n, (1 <= n)%Z -> forall M b,
  interp NumR P n M P b = interp NumR P n M (- P) b.
Proof. intros; apply interp_seam_R; assumption. Qed.

Theorem interp_index_in_range : forall P, 0 < P -> forall n, (1 <= n)%Z -> forall theta,
  (0 <= theta_idx NumR P n theta < n)%Z /\ 0 <= theta_frac NumR P n theta < 1.
Proof. intros P HP n Hn theta. split; [apply idx_range | apply frac_range]; assumption. Qed.

(* rotating by a whole number of grid steps = shifting both indices *)
Theorem rotate_commutes : forall P, 0 < P -> forall n, (1 <= n)%Z -> forall M a b k,
  interp NumR P n (shift_matrix n k M) a b
  = interp NumR P n M (a - IZR k * dtheta NumR P n) (b - IZR k * dtheta NumR P n).
Proof. intros; apply rotate_commutes_R; assumption. Qed.

(* rotate_matrix's FFT route: multiplying the 2-D spectrum by exp(-2 pi i (fx + fy) phi),
   phi = m grid steps, and transforming back shifts both indices by m, circularly *)
Theorem rotate_fft_is_shift : forall X n (m j1 j2 : Z), (0 < n)%nat ->
  idft2 (rotate_spectrum X n (IZR m * (2 * PI / INR n))) n j1 j2 = idft2 X n (j1 - m) (j2 - m).
Proof. exact rotate_whole_steps. Qed.

Theorem rotate_fft_circular : forall X n (j1 j2 : Z), (0 < n)%nat ->
  idft2 X n (j1 + Z.of_nat n) j2 = idft2 X n j1 j2 /\ idft2 X n j1 (j2 + Z.of_nat n) = idft2 X n j1 j2.
Proof. exact idft2_periodic. Qed.

(* ... and since the two-dimensional Fourier sums invert each other (orthogonality of the roots
   of unity, twice), this is a statement about the MATRIX: rotate_matrix by m grid steps
   returns the matrix with both indices shifted circularly by m *)
Theorem rotate_matrix_is_index_shift : forall (x : nat -> nat -> C) n (m : Z) (j1 j2 : nat),
  (j1 < n)%nat -> (j2 < n)%nat ->
  idft2 (rotate_spectrum (dft2 x n) n (IZR m * (2 * PI / INR n))) n (Z.of_nat j1) (Z.of_nat j2)
  = x (Z.to_nat ((Z.of_nat j1 - m) mod Z.of_nat n)) (Z.to_nat ((Z.of_nat j2 - m) mod Z.of_nat n)).
Proof. exact rotate_is_index_shift. Qed.

Theorem fourier_inversion_2d : forall (x : nat -> nat -> C) n (j1 j2 : nat), (j1 < n)%nat -> (j2 < n)%nat ->
  idft2 (dft2 x n) n (Z.of_nat j1) (Z.of_nat j2) = x j1 j2.
Proof. exact idft2_dft2. Qed.

(* data-backed scatterers: linear in frequency, reproducing the data at the samples *)
Theorem freq_interp_nodes : forall f0 f1 v0 v1, f0 <> f1 ->
  lerp NumR f0 f1 v0 v1 f0 = v0 /\ lerp NumR f0 f1 v0 v1 f1 = v1.
Proof. exact lerp_nodes. Qed.

Theorem freq_interp_linear : forall f0 f1 v0 v1 f, f0 <> f1 ->
  lerp NumR f0 f1 v0 v1 f = ((f1 - f) * v0 + (f - f0) * v1) / (f1 - f0).
Proof. exact lerp_affine. Qed.

(* non-vacuity: n = 4, the point a quarter of the way between nodes (1,2) and (2,3) *)
Example interp_example : forall M,
  interp NumR 1 4 M (angle NumR 1 4 1 + / 4 * dtheta NumR 1 4) (angle NumR 1 4 2 + / 2 * dtheta NumR 1 4)
  = bilinear (M 2%Z 1%Z) (M 2%Z 2%Z) (M 3%Z 1%Z) (M 3%Z 2%Z) (/ 4) (/ 2).
Proof.
  intros M. rewrite interp_bilinear_R by (try lia; lra). reflexivity.
Qed.

(* ============================================================================================ *)
(* EXTENSION — the glue of arim.scat around the kernel (Model/ScatData.v, Proofs/ScatDataProofs.v) *)
(*                                                                                              *)
(* ScatFromData: scipy's interp1d(kind='linear') as freq_interp_matrices uses it is now INSIDE  *)
(* the model (stable argsort of the frequencies, take, searchsorted, clip, the two weights, the *)
(* bounds_error / fill_value handling) instead of being an oracle given by the formula `lerp`.  *)
(* Then: the key loop and the single-frequency branch of freq_interp_matrices, __call__ (frequency *)
(* then angle interpolation), the validation of __init__, make_angles_grid, as_single/multi_     *)
(* freq_matrices (late initialisation with the dtype of the first frequency), rotate_matrices,   *)
(* scat_factory.  interp1d_table kw tbl f = interp1d on the two columns of the table of rows     *)
(* (frequency, sample) `tbl`.                                                                    *)
(* ============================================================================================ *)
From Coq Require Import String List Permutation.
From Flocq Require Import Core.Raux.
From Arim Require Import Model.ScatData Proofs.ScatDataProofs.
Import ListNotations.

(* --- A. the table of sampled frequencies ---------------------------------------------------- *)

(* the two arrays that interp1d builds (x[ind], take(y, ind) with ind the stable argsort of x)
   are the two columns of the table sorted as rows — for every numeric instance *)
Theorem freq_sort_is_table_sort : forall (T : Type) (N : Num T) (xs ys : list T),
  length xs = length ys ->
  take (n0 N) xs (argsort N xs) = map fst (sort_key N (combine xs ys)) /\
  take (n0 N) ys (argsort N xs) = map snd (sort_key N (combine xs ys)).
Proof. exact @sorted_columns. Qed.

(* the rows may be given in ANY order (distinct frequencies): same answer — value, fill value
   or error — for every requested frequency and every interp_freq_kwargs *)
Theorem freq_table_order_irrelevant : forall kw (t1 t2 : list (R * R)) f,
  Permutation t1 t2 -> NoDup (map fst t1) -> interp1d_table kw t1 f = interp1d_table kw t2 f.
Proof. exact interp1d_perm_invariant. Qed.

(* interp_freq_kwargs are accepted by the constructor of interp1d unless they ask to extrapolate
   and to raise at the same time *)
Theorem freq_kwargs_accepted_iff : forall kw : i1kwargs (T:=R),
  kw_ok kw <-> ~ (kw_fill kw = Extrapolate /\ kw_bounds_error kw = Some true).
Proof. exact kw_ok_iff. Qed.

Theorem freq_extrapolate_and_raise_rejected : forall xs ys f, xs <> [] ->
  interp1d NumR (mk_kw (Some true) Extrapolate) xs ys f = inl ErrExtrapolateAndRaise.
Proof. exact interp1d_extrapolate_and_raise. Qed.

(* the data are reproduced at every sampled frequency: any order, any accepted options *)
Theorem freq_table_exact_at_samples : forall kw (tbl : list (R * R)) x y,
  NoDup (map fst tbl) -> (2 <= length tbl)%nat -> In (x, y) tbl -> kw_ok kw ->
  interp1d_table kw tbl x = inr y.
Proof. exact table_exact. Qed.

(* between two sampled frequencies with no sampled frequency in between: the straight line
   (the `lerp` of the earlier theorems), any order, any accepted options *)
Theorem freq_table_linear_between : forall kw (tbl : list (R * R)) x0 y0 x1 y1 f,
  NoDup (map fst tbl) -> In (x0, y0) tbl -> In (x1, y1) tbl -> no_key_between tbl x0 x1 ->
  kw_ok kw -> x0 < f <= x1 ->
  interp1d_table kw tbl f = inr (lerp NumR x0 x1 y0 y1 f).
Proof. exact table_linear_between. Qed.

(* below the smallest sampled frequency x0 (x1 the next one): the first segment extended
   (fill_value='extrapolate', arim's default), else ValueError (bounds_error true or left to its
   default), else the `below` fill value *)
Theorem freq_table_below_range : forall kw (tbl : list (R * R)) x0 y0 x1 y1 f extrap be below above,
  NoDup (map fst tbl) -> In (x0, y0) tbl -> In (x1, y1) tbl -> x0 < x1 -> no_key_between tbl x0 x1 ->
  is_min_key tbl x0 -> resolve_fill NumR kw = inr (extrap, be, below, above) -> f < x0 ->
  interp1d_table kw tbl f =
    if extrap then inr (lerp NumR x0 x1 y0 y1 f) else if be then inl ErrBelowRange else inr below.
Proof. exact table_below. Qed.

(* above the largest sampled frequency x1 (x0 the previous one) *)
Theorem freq_table_above_range : forall kw (tbl : list (R * R)) x0 y0 x1 y1 f extrap be below above,
  NoDup (map fst tbl) -> In (x0, y0) tbl -> In (x1, y1) tbl -> x0 < x1 -> no_key_between tbl x0 x1 ->
  is_max_key tbl x1 -> resolve_fill NumR kw = inr (extrap, be, below, above) -> x1 < f ->
  interp1d_table kw tbl f =
    if extrap then inr (lerp NumR x0 x1 y0 y1 f) else if be then inl ErrAboveRange else inr above.
Proof. exact table_above. Qed.

(* --- B. freq_interp_matrices: the dict of matrices ------------------------------------------ *)

(* two or more frequencies: the keys of the result are the keys present in the data; each matrix
   is obtained from the matrices of ITS key alone, with one and the same pair of weights *)
Theorem freq_interp_matrices_per_key : forall kw freqs f (D : sdict (list (mat (T:=R)))) p,
  (1 < length freqs)%nat -> interp1d_plan NumR kw freqs f = inr p ->
  exists out, freq_interp_matrices NumR kw freqs f D = inr out /\
    forall k, out k = match D k with Some ms => Some (apply_plan_mat NumR p ms) | None => None end.
Proof. exact freq_interp_matrices_multi. Qed.

(* ... and entry [j, i] of it is the one-dimensional interpolation of the samples [k][j, i] *)
Theorem freq_interp_entrywise : forall kw freqs f p (ms : list (mat (T:=R))) j i,
  interp1d_plan NumR kw freqs f = inr p ->
  interp1d NumR kw freqs (map (fun M : mat => M j i) ms) f = inr (apply_plan_mat NumR p ms j i).
Proof. exact apply_plan_mat_entry. Qed.

(* an error of the interpolator surfaces iff at least one key is present *)
Theorem freq_interp_matrices_error_iff_some_key : forall kw freqs f (D : sdict (list (mat (T:=R)))) e,
  (1 < length freqs)%nat -> interp1d_plan NumR kw freqs f = inl e ->
  freq_interp_matrices NumR kw freqs f D =
    if existsb (fun k => match D k with Some _ => true | None => false end) SCAT_KEYS
    then inl e else inr dict_empty.
Proof. exact freq_interp_matrices_error. Qed.

(* ONE sampled frequency: its matrices at any requested frequency, for any options (the
   interpolator is never built); the warning is issued iff the frequency differs *)
Theorem freq_single_table : forall kw f0 f (D : sdict (list (mat (T:=R)))),
  (forall k, D k <> Some []) ->
  exists out, freq_interp_matrices NumR kw [f0] f D = inr out /\
    (forall k, match D k, out k with
               | Some ms, Some m => forall j i, m j i = nth 0%nat ms M0 j i
               | None, None => True
               | _, _ => False
               end) /\
    freq_interp_warns NumR [f0] f = negb (Req_bool f f0).
Proof. exact freq_interp_matrices_single. Qed.

Theorem freq_no_frequency_is_index_error : forall kw f (D : sdict (list (mat (T:=R)))),
  freq_interp_matrices NumR kw [] f D = inl ErrIndex.
Proof. exact freq_interp_matrices_empty. Qed.

(* --- C. ScatFromData.__call__ and __init__ -------------------------------------------------- *)

(* the interpolation in frequency and the interpolation in angle commute *)
Theorem freq_angle_interpolations_commute : forall P n p (ms : list (mat (T:=R))) a b,
  interp NumR P n (apply_plan_mat NumR p ms) a b
  = apply_plan NumR p (map (fun M => interp NumR P n M a b) ms).
Proof. exact freq_angle_commute. Qed.

(* hence the value returned by the call for a key is the interpolation in frequency of the
   angle-interpolated sampled matrices of that key *)
Theorem scat_data_call_is_freq_interp_of_angle_interp :
  forall P n kw freqs (D : sdict (list (mat (T:=R)))) a b f out key ms,
  (1 < length freqs)%nat -> D key = Some ms ->
  scat_from_data_call NumR P n kw freqs D a b f = inr out ->
  exists v, out key = Some v /\
    interp1d NumR kw freqs (map (fun M => interp NumR P n M a b) ms) f = inr v.
Proof. exact call_is_freq_interp_of_angle_interp. Qed.

(* end to end: at a sampled frequency and at grid angles the call returns the stored entry
   [j, i] = (scattered j, incident i), for frequencies listed in any order *)
Theorem scat_data_call_reproduces_data :
  forall P, 0 < P -> forall n, (1 <= n)%Z ->
  forall kw freqs (D : sdict (list (mat (T:=R)))) key ms k i j,
  NoDup freqs -> (2 <= length freqs)%nat -> length ms = length freqs -> kw_ok kw ->
  D key = Some ms -> (k < length freqs)%nat -> (0 <= i < n)%Z -> (0 <= j < n)%Z ->
  exists out,
    scat_from_data_call NumR P n kw freqs D (angle NumR P n i) (angle NumR P n j) (nth k freqs 0) = inr out
    /\ out key = Some (nth k ms M0 j i).
Proof. exact call_reproduces_data. Qed.

Theorem scat_data_call_single_frequency :
  forall P n kw f0 f (D : sdict (list (mat (T:=R)))) a b key M,
  (forall k, D k <> Some []) -> D key = Some [M] ->
  exists out, scat_from_data_call NumR P n kw [f0] D a b f = inr out
              /\ out key = Some (interp NumR P n M a b).
Proof. exact call_single_frequency. Qed.

(* the constructor accepts exactly: frequencies 0-d or 1-d, at least one matrix, every matrix
   that is given of shape (numfreq, numangles, numangles) *)
Theorem scat_data_init_accepts_iff : forall freq_shape shapes nf na,
  sfd_init freq_shape shapes = inr (nf, na) <->
  numfreq_of freq_shape = Some nf /\ (exists k s, shapes k = Some s) /\
  (forall k s, shapes k = Some s -> s = [nf; na; na]).
Proof. exact sfd_init_ok_iff. Qed.

(* --- D. make_angles_grid, as_single_freq_matrices, as_multi_freq_matrices ------------------- *)

(* meshgrid 'xy': the incident angle runs along the columns, the scattered angle along the rows;
   an elementwise function evaluated on the two grids is the matrix of `matrix_layout` *)
Theorem angles_grid_layout : forall (T : Type) (N : Num T) P n j i,
  fst (make_angles_grid N P n) j i = angle N P n i /\ snd (make_angles_grid N P n) j i = angle N P n j.
Proof. exact @grid_layout. Qed.

Theorem matrix_on_grid_is_layout : forall (T : Type) (N : Num T) P n (f : T -> T -> T) j i,
  matrix_on_grid f (fst (make_angles_grid N P n)) (snd (make_angles_grid N P n)) j i = matrix_of N P f n j i.
Proof. exact @matrix_on_grid_is_matrix_of. Qed.

(* as_multi_freq_matrices is the stack of as_single_freq_matrices: slab i of a requested key is
   the single-frequency matrix of that key at frequencies[i], stored in an array whose dtype is
   the dtype of THAT key at frequencies[0] (per key, not common); other keys are absent *)
Theorem multi_freq_is_stack_of_single : forall (T : Type) (N : Num T) (S : scat_call (T:=T)) P n tc f0 r,
  (forall f, In f (f0 :: r) -> forall k, memb k tc = true ->
             as_single_freq_matrices N S P f n tc k <> None) ->
  exists o, as_multi_freq_matrices N S P (f0 :: r) n tc = inr (Some o) /\
    forall k, if memb k tc
              then exists a, o k = Some (dtype_of (as_single_freq_matrices N S P f0 n tc) k, a) /\
                   forall i j l, (i < length (f0 :: r))%nat ->
                     a i j l = cast_to N (dtype_of (as_single_freq_matrices N S P f0 n tc) k)
                                 (slab_of N (as_single_freq_matrices N S P (nth i (f0 :: r) (n0 N)) n tc) k j l)
              else o k = None.
Proof. exact @as_multi_is_stack. Qed.

(* values that fit the dtype are stored unchanged (a complex value put into a float array loses
   its imaginary part — this is what `cast_to` says) *)
Theorem multi_freq_values_kept : forall (T : Type) (N : Num T) dt v,
  well_typed N dt v -> cast_to N dt v = v.
Proof. exact @cast_to_id. Qed.

Theorem multi_freq_missing_key_is_keyerror :
  forall (T : Type) (N : Num T) (S : scat_call (T:=T)) P n tc fs f k,
  In f fs -> memb k tc = true -> as_single_freq_matrices N S P f n tc k = None ->
  exists k', as_multi_freq_matrices N S P fs n tc = inl (MKeyError k').
Proof. exact @as_multi_keyerror. Qed.

Theorem multi_freq_no_frequency_is_none : forall (T : Type) (N : Num T) (S : scat_call (T:=T)) P n tc,
  as_multi_freq_matrices N S P [] n tc = inr None.
Proof. exact @as_multi_empty. Qed.

(* --- E. rotation by whole numbers of grid steps --------------------------------------------- *)

Theorem rotate_steps_compose : forall (T : Type) (n k l : Z) (M : Z -> Z -> T) j i,
  shift_matrix n k (shift_matrix n l M) j i = shift_matrix n (k + l) M j i.
Proof. exact @shift_compose. Qed.

Theorem rotate_steps_mod_n : forall (T : Type) (n k : Z) (M : Z -> Z -> T) j i,
  shift_matrix n (k mod n) M j i = shift_matrix n k M j i.
Proof. exact @shift_mod. Qed.

(* any whole number of full turns, negative included, is the identity *)
Theorem rotate_full_turns_identity : forall (T : Type) (n m : Z) (M : Z -> Z -> T) j i,
  (0 <= j < n)%Z -> (0 <= i < n)%Z -> shift_matrix n (m * n) M j i = M j i.
Proof. exact @shift_full_turns. Qed.

Theorem rotate_back_is_inverse : forall (T : Type) (n k : Z) (M : Z -> Z -> T) j i,
  (0 <= j < n)%Z -> (0 <= i < n)%Z -> shift_matrix n (- k) (shift_matrix n k M) j i = M j i.
Proof. exact @shift_inverse. Qed.

(* rotate_matrices on a dict = rotate_matrix per key: same keys in the same order *)
Theorem rotate_matrices_is_per_key :
  forall (K T : Type) (eqb : K -> K -> bool) n k (items : list (K * (Z -> Z -> T))) key,
  lookup eqb key (rotate_matrices_steps n k items) = option_map (shift_matrix n k) (lookup eqb key items).
Proof. exact @rotate_matrices_per_key. Qed.

Theorem rotate_matrices_keeps_keys : forall (K A B : Type) (g : A -> B) (items : list (K * A)),
  map fst (dict_map_values g items) = map fst items.
Proof. exact @dict_map_values_keys. Qed.

Theorem rotate_matrices_compose_steps : forall (K T : Type) n k l (items : list (K * (Z -> Z -> T))),
  Forall2 (fun a b => fst a = fst b /\ forall j i, snd a j i = snd b j i)
          (rotate_matrices_steps n k (rotate_matrices_steps n l items))
          (rotate_matrices_steps n (k + l) items).
Proof. exact @rotate_matrices_compose. Qed.

(* the FFT route: the phase ramps of two rotations by ANY real angles multiply to the ramp of the
   sum; a whole number of full turns is the identity on the spectrum for every matrix size *)
Theorem rotate_fft_composes : forall X n a b k1 k2,
  rotate_spectrum (rotate_spectrum X n a) n b k1 k2 = rotate_spectrum X n (a + b) k1 k2.
Proof. exact rotate_spectrum_compose. Qed.

Theorem rotate_fft_full_turns : forall X n (m : Z) k1 k2,
  rotate_spectrum X n (2 * PI * IZR m) k1 k2 = X k1 k2.
Proof. exact rotate_spectrum_full_turns. Qed.

(* --- F. scat_factory ------------------------------------------------------------------------- *)
Local Open Scope string_scope.

Theorem scat_factory_dispatch : forall (A : Type) (m : material A) args kwargs,
  scat_factory "file" m args kwargs = inr (mk_call CLoadScat args kwargs) /\
  scat_factory "crack_centre" m args kwargs =
    inr (mk_call CCrackCentreScat args
           (("longitudinal_vel", m_vl m) :: ("transverse_vel", m_vt m) :: ("density", m_rho m) :: kwargs)) /\
  scat_factory "crack_tip" m args kwargs = inr (mk_call CCrackTipScat (m_vl m :: m_vt m :: args) kwargs) /\
  scat_factory "sdh" m args kwargs =
    inr (mk_call CSdhScat args (("longitudinal_vel", m_vl m) :: ("transverse_vel", m_vt m) :: kwargs)) /\
  scat_factory "point" m args kwargs = inr (mk_call CPointSourceScat (m_vl m :: m_vt m :: args) kwargs).
Proof. exact @scat_factory_table. Qed.

Theorem scat_factory_ignores_case : forall (A : Type) s1 s2 (m : material A) args kwargs,
  lower s1 = lower s2 -> scat_factory s1 m args kwargs = scat_factory s2 m args kwargs.
Proof. exact @scat_factory_case_insensitive. Qed.

Theorem scat_factory_exhaustive : forall (A : Type) s (m : material A) args kwargs,
  match scat_factory s m args kwargs with
  | inr c => match c_ctor c with
             | CLoadScat => lower s = "file"
             | CCrackCentreScat => lower s = "crack_centre"
             | CCrackTipScat => lower s = "crack_tip"
             | CSdhScat => lower s = "sdh"
             | CPointSourceScat => lower s = "point"
             end
  | inl msg => msg = lower s /\ ~ In (lower s) ["file"; "crack_centre"; "crack_tip"; "sdh"; "point"]
  end.
Proof. exact @scat_factory_ctor. Qed.
Local Close Scope string_scope.

(* --- non-vacuity: the table 3 -> 30, 1 -> 10, 2 -> 25 given in that (unsorted) order ---------- *)
Example freq_table_example_hyps :
  NoDup (map fst [(3, 30); (1, 10); (2, 25)]) /\ no_key_between [(3, 30); (1, 10); (2, 25)] 2 3 /\
  no_key_between [(3, 30); (1, 10); (2, 25)] 1 2 /\ is_min_key [(3, 30); (1, 10); (2, 25)] 1 /\
  is_max_key [(3, 30); (1, 10); (2, 25)] 3.
Proof.
  split; [cbn; repeat constructor; cbn; intuition lra|].
  repeat split; intros p [<-|[<-|[<-|[]]]]; cbn; lra.
Qed.

Example freq_table_example_order : forall kw f,
  interp1d_table kw [(3, 30); (1, 10); (2, 25)] f = interp1d_table kw [(1, 10); (2, 25); (3, 30)] f.
Proof.
  intros kw f. apply freq_table_order_irrelevant; [|apply freq_table_example_hyps].
  apply (Permutation_cons_append [(1, 10); (2, 25)] (3, 30)).
Qed.

Example freq_table_example_exact : interp1d_table arim_default_kwargs [(3, 30); (1, 10); (2, 25)] 2 = inr 25.
Proof.
  apply freq_table_exact_at_samples;
    [apply freq_table_example_hyps|cbn; lia|cbn; auto|apply arim_default_kw_ok].
Qed.

Example freq_table_example_between :
  interp1d_table arim_default_kwargs [(3, 30); (1, 10); (2, 25)] (5 / 2) = inr (lerp NumR 2 3 25 30 (5 / 2)).
Proof.
  apply freq_table_linear_between;
    [apply freq_table_example_hyps|cbn; auto|cbn; auto|apply freq_table_example_hyps
    |apply arim_default_kw_ok|lra].
Qed.

Example freq_table_example_below_extrapolated :
  interp1d_table arim_default_kwargs [(3, 30); (1, 10); (2, 25)] 0 = inr (lerp NumR 1 2 10 25 0).
Proof.
  apply (freq_table_below_range arim_default_kwargs _ 1 10 2 25 0 true false 0 0);
    try apply freq_table_example_hyps; [cbn; auto|cbn; auto|lra|reflexivity|lra].
Qed.

Example freq_table_example_below_raises :
  interp1d_table (mk_kw None (FillBoth 0)) [(3, 30); (1, 10); (2, 25)] 0 = inl ErrBelowRange.
Proof.
  apply (freq_table_below_range (mk_kw None (FillBoth 0)) _ 1 10 2 25 0 false true 0 0);
    try apply freq_table_example_hyps; [cbn; auto|cbn; auto|lra|reflexivity|lra].
Qed.

Example freq_table_example_above_filled :
  interp1d_table (mk_kw (Some false) (FillPair 7 9)) [(3, 30); (1, 10); (2, 25)] 4 = inr 9.
Proof.
  apply (freq_table_above_range (mk_kw (Some false) (FillPair 7 9)) _ 2 25 3 30 4 false false 7 9);
    try apply freq_table_example_hyps; [cbn; auto|cbn; auto|lra|reflexivity|lra].
Qed.

(* a scatterer with the frequencies 3, 1 (in that order) and the key LL only *)
Example scat_data_call_example : forall Ma Mb : mat (T:=R),
  exists out,
    scat_from_data_call NumR 1 2 arim_default_kwargs [3; 1]
      (fun k => match k with LL => Some [Ma; Mb] | _ => None end)
      (angle NumR 1 2 1) (angle NumR 1 2 0) 3 = inr out
    /\ out LL = Some (Ma 0%Z 1%Z).
Proof.
  intros Ma Mb.
  apply (scat_data_call_reproduces_data 1 ltac:(lra) 2 ltac:(lia) arim_default_kwargs [3; 1]
           (fun k => match k with LL => Some [Ma; Mb] | _ => None end) LL [Ma; Mb] 0%nat 1%Z 0%Z);
    try (cbn; lia); try reflexivity; try apply arim_default_kw_ok.
  repeat constructor; cbn; intuition lra.
Qed.

Example scat_data_init_examples :
  sfd_init [2%nat] (fun k => match k with LL | TT => Some [2; 4; 4]%nat | _ => None end) = inr (2%nat, 4%nat) /\
  sfd_init [] (fun k => match k with LT => Some [1; 4; 4]%nat | _ => None end) = inr (1%nat, 4%nat) /\
  sfd_init [2%nat] (fun k => match k with LL => Some [2; 4; 4]%nat | TT => Some [2; 5; 5]%nat | _ => None end)
    = inl EShapesDiffer /\
  sfd_init [3%nat] (fun k => match k with LL => Some [2; 4; 4]%nat | _ => None end) = inl EWrongShape /\
  sfd_init [2%nat] (fun _ => None) = inl ENoMatrix /\
  sfd_init [1; 2]%nat (fun k => match k with LL => Some [2; 4; 4]%nat | _ => None end) = inl EFreqNot1d.
Proof. repeat split. Qed.

(* a scatterer returning, for every key, a complex matrix built from the two grids *)
Example multi_freq_example :
  exists o, as_multi_freq_matrices NumR (fun inc out f _ _ => Some (C128, fun j i => (inc j i + f, out j i))) 1
              [5; 7] 2 [LL; TT] = inr (Some o)
            /\ o LT = None
            /\ exists a, o TT = Some (C128, a) /\ a 1%nat 0%Z 1%Z = (angle NumR 1 2 1 + 7, angle NumR 1 2 0).
Proof.
  destruct (multi_freq_is_stack_of_single R NumR (fun inc out f _ _ => Some (C128, fun j i => (inc j i + f, out j i)))
              1 2 [LL; TT] 5 [7]) as (o & Ho & Hk); [intros; discriminate|].
  exists o. split; [exact Ho|]. split; [exact (Hk LT)|].
  destruct (Hk TT) as (a & Ea & Ha). exists a. split; [exact Ea|].
  rewrite (Ha 1%nat 0%Z 1%Z) by (cbn; lia). reflexivity.
Qed.

Example rotate_full_turns_example : forall (M : Z -> Z -> R),
  shift_matrix 4 (-3 * 4) M 1 2 = M 1%Z 2%Z.
Proof. intros M. apply rotate_full_turns_identity; lia. Qed.

Example scat_factory_examples : forall (m : material R) (r : R),
  scat_factory "SDH" m [r] [] =
    inr (mk_call CSdhScat [r] [("longitudinal_vel"%string, m_vl m); ("transverse_vel"%string, m_vt m)]) /\
  scat_factory "Crack_Tip" m [] [] = inr (mk_call CCrackTipScat [m_vl m; m_vt m] []) /\
  scat_factory "sphere" m [] [] = inl "sphere"%string.
Proof. repeat split. Qed.
