(* Props/C03.v — Immersion forward model is reciprocal.
   Statements only (proofs: Proofs/ReciprocityProofs.v, which builds on the Stokes relations of
   C04, the beamspread lemmas of C06/C07 and the products of Model/Weights.v).

   Structure of the argument, for one ray of an immersion path with interior interfaces
   1..n-1 (front-wall transmission, then wall reflections):
     (1) displacement_ratio_* : at each interface  F cos_out z_out = s G cos_in z_in
         (F/G = forward / reverse displacement coefficient; s = -1 iff exactly one leg is T);
     (2) telescoping, sign_parity, impedance_chain : products over the interfaces;
     (3) reverse_gamma_is_inverse, reverse_virtual_distance : vd' = (prod gamma) vd;
     (4) gammas_telescope : prod gamma = (c_0/c_last) (prod cos_out/cos_in)^2;
     (5) qratio : Q c_last^2 sigma = kappa Q',  kappa = rho_f c_0 sqrt(c_0 f)/rho_s, for ANY
         leg lengths, directivity D and attenuation A (both enabled or not: they are the
         same factor on both sides), provided beamspread and transmission/reflection are
         BOTH enabled;
     (6) view_reciprocity : P_ij(X-Y) = P_ji(rev Y - rev X) for a reciprocal scatterer.
     (5') qratio_direct_path_L / _T : the chain (1)-(5) instantiated end to end on the direct
         paths L and T (one interface) from the (sin, cos) layer of the interface model.
     (5'') qratio_any_path : the general theorem for ANY number of interior interfaces (every
         skip / double-skip path and mode word), from the per-interface relation (1).
   `qratio_end_to_end_partial` (what is still not mechanised): reading the records of
   qratio_any_path off `Model.Weights.transrefl_for_path` for the 14 concrete immersion paths
   (which of the four relations (1) applies at which interface, and the passage from the
   `_auto` angle layer to the (sin, cos) layer inside the products; done by hand for the
   direct paths in (5')); the harness measures Q c_last^2 sigma / Q' = kappa on the real code
   for every path, element and scatterer (2e-15). *)
From Coq Require Import List ZArith Bool Reals Lra.
From Arim Require Import Base.Num Base.NumR Model.Interface Model.Beamspread Model.Weights
                         Proofs.InterfaceProofs Proofs.BeamspreadProofs Proofs.ReciprocityProofs.
Import ListNotations.
Local Open Scope R_scope.

(* (1) in any field (real or complex angles) *)
Theorem displacement_ratio_front_L : forall (K : Type) (N : Num K),
  field_theory (n0 N) (n1 N) (nadd N) (nmul N) (nsub N) (nopp N) (ndiv N) (fun x => ndiv N (n1 N) x) (@eq K) ->
  nofZ N 2%Z = nadd N (n1 N) (n1 N) ->
  forall sf cf sl cl st ct rho_f rho_s v_f v_l v_t,
  cf <> n0 N -> rho_f <> n0 N -> rho_s <> n0 N -> v_f <> n0 N -> v_l <> n0 N ->
  fluid_solid_n_sc N sf cf sl cl st ct rho_f rho_s v_f v_l v_t <> n0 N ->
  nmul N (nmul N (nmul N (snd3 (fluid_solid_sc N sf cf sl cl st ct rho_f rho_s v_f v_l v_t))
                         (ndiv N (nmul N rho_f v_f) (nmul N rho_s v_l))) cl) (nmul N rho_s v_l)
  = nmul N (nmul N (nmul N (thd3 (solid_l_fluid_sc N sf cf sl cl st ct rho_f rho_s v_f v_l v_t))
                           (ndiv N (nmul N rho_s v_l) (nmul N rho_f v_f))) cf) (nmul N rho_f v_f).
Proof. intros K N Fth two sf cf sl cl st ct rho_f rho_s v_f v_l v_t H1 H2 H3 H4 H5 H6.
       exact (ratio_front_L N Fth two sf cf sl cl st ct rho_f rho_s v_f v_l v_t H1 H2 H3 H4 H5 H6). Qed.

Theorem displacement_ratio_front_T : forall (K : Type) (N : Num K),
  field_theory (n0 N) (n1 N) (nadd N) (nmul N) (nsub N) (nopp N) (ndiv N) (fun x => ndiv N (n1 N) x) (@eq K) ->
  nofZ N 2%Z = nadd N (n1 N) (n1 N) ->
  forall sf cf sl cl st ct rho_f rho_s v_f v_l v_t,
  cf <> n0 N -> rho_f <> n0 N -> rho_s <> n0 N -> v_f <> n0 N -> v_l <> n0 N -> v_t <> n0 N ->
  nmul N sl v_t = nmul N st v_l ->
  fluid_solid_n_sc N sf cf sl cl st ct rho_f rho_s v_f v_l v_t <> n0 N ->
  nmul N (nmul N (nmul N (thd3 (fluid_solid_sc N sf cf sl cl st ct rho_f rho_s v_f v_l v_t))
                         (ndiv N (nmul N rho_f v_f) (nmul N rho_s v_t))) ct) (nmul N rho_s v_t)
  = nmul N (nmul N (nmul N (nopp N (n1 N))
             (nmul N (thd3 (solid_t_fluid_sc N sf cf sl cl st ct rho_f rho_s v_f v_l v_t))
                     (ndiv N (nmul N rho_s v_t) (nmul N rho_f v_f)))) cf) (nmul N rho_f v_f).
Proof. intros K N Fth two sf cf sl cl st ct rho_f rho_s v_f v_l v_t H1 H2 H3 H4 H5 H6 H7 H8.
       exact (ratio_front_T N Fth two sf cf sl cl st ct rho_f rho_s v_f v_l v_t H1 H2 H3 H4 H5 H6 H7 H8). Qed.

Theorem displacement_ratio_refl_LT : forall (K : Type) (N : Num K),
  field_theory (n0 N) (n1 N) (nadd N) (nmul N) (nsub N) (nopp N) (ndiv N) (fun x => ndiv N (n1 N) x) (@eq K) ->
  nofZ N 2%Z = nadd N (n1 N) (n1 N) ->
  forall sf cf sl cl st ct rho_f rho_s v_f v_l v_t,
  cl <> n0 N -> rho_s <> n0 N -> v_l <> n0 N -> v_t <> n0 N ->
  nmul N sl v_t = nmul N st v_l ->
  fluid_solid_n_sc N sf cf sl cl st ct rho_f rho_s v_f v_l v_t <> n0 N ->
  nmul N (nmul N (nmul N (snd3 (solid_l_fluid_sc N sf cf sl cl st ct rho_f rho_s v_f v_l v_t)) (ndiv N v_l v_t)) ct)
         (nmul N rho_s v_t)
  = nmul N (nmul N (nmul N (nopp N (n1 N))
             (nmul N (fst3 (solid_t_fluid_sc N sf cf sl cl st ct rho_f rho_s v_f v_l v_t)) (ndiv N v_t v_l))) cl)
           (nmul N rho_s v_l).
Proof. intros K N Fth two sf cf sl cl st ct rho_f rho_s v_f v_l v_t H1 H2 H3 H4 H5 H6.
       exact (ratio_refl_LT N Fth two sf cf sl cl st ct rho_f rho_s v_f v_l v_t H1 H2 H3 H4 H5 H6). Qed.

Theorem displacement_ratio_refl_TL : forall (K : Type) (N : Num K),
  field_theory (n0 N) (n1 N) (nadd N) (nmul N) (nsub N) (nopp N) (ndiv N) (fun x => ndiv N (n1 N) x) (@eq K) ->
  nofZ N 2%Z = nadd N (n1 N) (n1 N) ->
  forall sf cf sl cl st ct rho_f rho_s v_f v_l v_t,
  cl <> n0 N -> rho_s <> n0 N -> v_l <> n0 N -> v_t <> n0 N ->
  nmul N sl v_t = nmul N st v_l ->
  fluid_solid_n_sc N sf cf sl cl st ct rho_f rho_s v_f v_l v_t <> n0 N ->
  nmul N (nmul N (nmul N (fst3 (solid_t_fluid_sc N sf cf sl cl st ct rho_f rho_s v_f v_l v_t)) (ndiv N v_t v_l)) cl)
         (nmul N rho_s v_l)
  = nmul N (nmul N (nmul N (nopp N (n1 N))
             (nmul N (snd3 (solid_l_fluid_sc N sf cf sl cl st ct rho_f rho_s v_f v_l v_t)) (ndiv N v_l v_t))) ct)
           (nmul N rho_s v_t).
Proof. intros K N Fth two sf cf sl cl st ct rho_f rho_s v_f v_l v_t H1 H2 H3 H4 H5 H6.
       exact (ratio_refl_TL N Fth two sf cf sl cl st ct rho_f rho_s v_f v_l v_t H1 H2 H3 H4 H5 H6). Qed.

(* (2) *)
Theorem telescoping_products : forall (K : Type) (N : Num K),
  field_theory (n0 N) (n1 N) (nadd N) (nmul N) (nsub N) (nopp N) (ndiv N) (fun x => ndiv N (n1 N) x) (@eq K) ->
  forall l : list (rfact (K := K)), Forall (ratio_ok N) l ->
  nmul N (prodK N rF l) (prodK N (fun x => nmul N (rcout x) (rzout x)) l)
  = nmul N (nmul N (prodK N (fun x => sgnK N (rsgn x)) l) (prodK N rG l))
           (prodK N (fun x => nmul N (rcin x) (rzin x)) l).
Proof. intros K N Fth l H. exact (telescoping N Fth l H). Qed.

Theorem sign_parity : forall (K : Type) (N : Num K),
  field_theory (n0 N) (n1 N) (nadd N) (nmul N) (nsub N) (nopp N) (ndiv N) (fun x => ndiv N (n1 N) x) (@eq K) ->
  forall l : list (rfact (K := K)),
  prodK N (fun x => sgnK N (rsgn x)) l = sgnK N (fold_right xorb false (map rsgn l)).
Proof. intros K N Fth l. exact (prod_sgn N Fth l). Qed.

Theorem impedance_chain : forall (K : Type) (N : Num K),
  field_theory (n0 N) (n1 N) (nadd N) (nmul N) (nsub N) (nopp N) (ndiv N) (fun x => ndiv N (n1 N) x) (@eq K) ->
  forall (l : list (rfact (K := K))) x, chained (x :: l) ->
  nmul N (prodK N rzout (x :: l)) (rzin x) = nmul N (prodK N rzin (x :: l)) (rzout (last l x)).
Proof. intros K N Fth l x H. exact (chain_z N Fth l x H). Qed.

(* (3) *)
Theorem reverse_gamma_is_inverse : forall vn vp th, 0 < vn -> 0 < vp -> cos th <> 0 ->
  1 - vn / vp * (vn / vp) * sin th * sin th <> 0 ->
  rev_gamma_of NumR vn vp th = / gamma_of NumR vp vn th.
Proof. exact rev_gamma_inv. Qed.

Theorem reverse_virtual_distance_is_scaled : forall r1 (xs : list (R * R)),
  Forall (fun gr => fst gr <> 0) xs ->
  virtual_distance NumR (rev (r1 :: map snd xs)) (map Rinv (rev (map fst xs)))
  = P_of xs * virtual_distance NumR (r1 :: map snd xs) (map fst xs).
Proof. exact reverse_virtual_distance. Qed.

(* (4) *)
Theorem gammas_telescope : forall l x, Forall gpos (x :: l) -> gchained (x :: l) ->
  gprod gamma_beta (x :: l) * gvout (last l x) * (gprod gcin (x :: l) * gprod gcin (x :: l))
  = gvin x * (gprod gcout (x :: l) * gprod gcout (x :: l)).
Proof. exact gammas_product. Qed.

(* (5) *)
Theorem qratio : forall D TRp TRr vd vd' Pg A lam c0 cl rho_f rho_s f X s,
  0 < vd -> 0 < c0 -> 0 < cl -> 0 < rho_f -> 0 < rho_s -> 0 < f -> 0 < X ->
  s * s = 1 ->
  vd' = Pg * vd ->
  Pg = (c0 / cl) * (X * X) ->
  TRp * X * (rho_s * cl) = s * TRr * (rho_f * c0) ->
  lam = cl / f ->
  let Q := D * TRp * (1 / sqrt vd) * A in
  let Q' := D * TRr * (1 / sqrt vd') * A * sqrt lam in
  Q * (cl * cl) * s = (rho_f * c0 * sqrt (c0 * f) / rho_s) * Q'.
Proof. exact qratio_combination. Qed.

(* (5') the whole chain instantiated on the two direct paths (one interface), from the
   (sin, cos) layer of the interface model: legs r1 (couplant) and r2 (block), any D, A, f *)
Theorem qratio_direct_path_L : forall sf cf sl cl st ct rho_f rho_s v_f v_l v_t,
  0 < cf -> 0 < cl -> 0 < ct -> 0 < rho_f -> 0 < rho_s -> 0 < v_f -> 0 < v_l -> 0 < v_t ->
  sl * v_t = st * v_l ->
  fluid_solid_n_sc NumR sf cf sl cl st ct rho_f rho_s v_f v_l v_t <> 0 ->
  forall r1 r2 D A f, 0 < r1 -> 0 < r2 -> 0 < f ->
  let FS := fluid_solid_sc NumR sf cf sl cl st ct rho_f rho_s v_f v_l v_t in
  let LF := solid_l_fluid_sc NumR sf cf sl cl st ct rho_f rho_s v_f v_l v_t in
  let g := v_f * (cl * cl) / (v_l * (cf * cf)) in
  let Q  := D * (snd3 FS * ((rho_f * v_f) / (rho_s * v_l))) * (1 / sqrt (r1 + r2 / g)) * A in
  let Q' := D * (thd3 LF * ((rho_s * v_l) / (rho_f * v_f))) * (1 / sqrt (r2 + r1 / (/ g))) * A * sqrt (v_l / f) in
  Q * (v_l * v_l) * 1 = (rho_f * v_f * sqrt (v_f * f) / rho_s) * Q'.
Proof. intros; apply qratio_direct_L; assumption. Qed.

Theorem qratio_direct_path_T : forall sf cf sl cl st ct rho_f rho_s v_f v_l v_t,
  0 < cf -> 0 < cl -> 0 < ct -> 0 < rho_f -> 0 < rho_s -> 0 < v_f -> 0 < v_l -> 0 < v_t ->
  sl * v_t = st * v_l ->
  fluid_solid_n_sc NumR sf cf sl cl st ct rho_f rho_s v_f v_l v_t <> 0 ->
  forall r1 r2 D A f, 0 < r1 -> 0 < r2 -> 0 < f ->
  let FS := fluid_solid_sc NumR sf cf sl cl st ct rho_f rho_s v_f v_l v_t in
  let TF := solid_t_fluid_sc NumR sf cf sl cl st ct rho_f rho_s v_f v_l v_t in
  let g := v_f * (ct * ct) / (v_t * (cf * cf)) in
  let Q  := D * (thd3 FS * ((rho_f * v_f) / (rho_s * v_t))) * (1 / sqrt (r1 + r2 / g)) * A in
  let Q' := D * (thd3 TF * ((rho_s * v_t) / (rho_f * v_f))) * (1 / sqrt (r2 + r1 / (/ g))) * A * sqrt (v_t / f) in
  Q * (v_t * v_t) * (-1) = (rho_f * v_f * sqrt (v_f * f) / rho_s) * Q'.
Proof. intros; apply qratio_direct_T; assumption. Qed.

(* (5'') THE GENERAL THEOREM: any number of interior interfaces (so every skip and double-skip
   path, any mode word), any leg lengths, directivity D, attenuation A and frequency f.
   x :: l lists the interior interfaces in path order, each with its forward / reverse
   displacement coefficients F, G, the cosines of its incidence and outgoing angles and the
   velocity and density of its incoming and outgoing legs.  Hypotheses: positivity, consecutive
   interfaces share a leg, and at every interface the displacement Stokes relation
   `ifr_ratio_ok` — which is exactly what displacement_ratio_front_L/T and
   displacement_ratio_refl_LT/TL (and reflexivity for LL, TT) establish.  The beamspread
   factors are the MODEL's `virtual_distance` of the forward and of the reversed ray. *)
Theorem qratio_any_path : forall x l r1 rs D A f,
  Forall ifr_pos (x :: l) -> ifr_chained (x :: l) -> Forall ifr_ratio_ok (x :: l) ->
  length rs = length (x :: l) -> 0 < r1 -> all_pos rs -> 0 < f ->
  let gs := map ifr_gamma (x :: l) in
  let vlast := fvout (last l x) in let rholast := frout (last l x) in
  let vd := virtual_distance NumR (r1 :: rs) gs in
  let vd' := virtual_distance NumR (rev (r1 :: rs)) (map Rinv (rev gs)) in
  let Q := D * rprod fF (x :: l) * (1 / sqrt vd) * A in
  let Q' := D * rprod fG (x :: l) * (1 / sqrt vd') * A * sqrt (vlast / f) in
  Q * (vlast * vlast) * rprod ifr_sign (x :: l)
  = (frin x * fvin x * sqrt (fvin x * f) / rholast) * Q'.
Proof. exact qratio_general. Qed.

(* (6) *)
Theorem view_reciprocity : forall kappa cx cy sx sy QiX Q'iX QjY Q'jY Sxy Syx,
  cx <> 0 -> cy <> 0 -> sx * sx = 1 -> sy * sy = 1 ->
  QiX * (cx * cx) * sx = kappa * Q'iX ->
  QjY * (cy * cy) * sy = kappa * Q'jY ->
  sx * Sxy / (cx * cx) = sy * Syx / (cy * cy) ->
  Sxy * QiX * Q'jY = Syx * QjY * Q'iX.
Proof. exact view_reciprocity_R. Qed.

(* non-vacuity of (5''): two interfaces with concrete numbers satisfying every hypothesis *)
Example qratio_any_path_premises :
  let x := mkIfr 2 16 1 1 1 2 1 4 false in
  let y := mkIfr 3 (- (9 / 2)) 1 1 2 3 4 4 true in
  Forall ifr_pos [x; y] /\ ifr_chained [x; y] /\ Forall ifr_ratio_ok [x; y].
Proof.
  cbv zeta. split; [|split].
  - repeat constructor; simpl; lra.
  - simpl. repeat split; reflexivity.
  - repeat constructor; unfold ifr_ratio_ok, ifr_sign; simpl; lra.
Qed.

(* non-vacuity of (5): one interface, normal incidence water -> steel (X = 1, s = 1) *)
Example qratio_premises_satisfiable :
  exists TRp TRr Pg : R, Pg = (1480 / 5900) * (1 * 1) /\ TRp * 1 * (7800 * 5900) = 1 * TRr * (1000 * 1480) /\ TRp <> 0.
Proof. exists 1, (7800 * 5900 / (1000 * 1480)), (1480 / 5900). split; [ring|]. split; [field | lra]. Qed.
