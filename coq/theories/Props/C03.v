(* Props/C03.v — Immersion forward model is reciprocal.
   Statements only (proofs: Proofs/ReciprocityProofs.v, which builds on the Stokes relations of
   C04, the beamspread lemmas of C06/C07 and the products of Model/Weights.v).

   Structure of the argument, for one ray of an immersion path with interior interfaces
   1..n-1 (front-wall transmission, then wall reflections):
     (1) displacement_ratio_* : at each interface  F cos_out z_out = s G cos_in z_in
         (F/G = forward / reverse displacement coefficient; s = -1 iff exactly one leg is T);
     (2) telescoping, sign_parity, impedance_chain : products over the interfaces;
     (3) reverse_gamma_is_inverse, reverse_virtual_distance : vd' = (prod gamma) vd;
     (4) gammas_telescope : prod gamma = (c_0/c_last) (prod cos_out/cos_in)^2;
     (5) qratio : Q c_last^2 sigma = kappa Q',  kappa = rho_f c_0 sqrt(c_0 f)/rho_s, for ANY
         leg lengths, directivity D and attenuation A (both enabled or not: they are the
         same factor on both sides), provided beamspread and transmission/reflection are
         BOTH enabled;
     (6) view_reciprocity : P_ij(X-Y) = P_ji(rev Y - rev X) for a reciprocal scatterer.
     (5') qratio_direct_path_L / _T : the chain (1)-(5) instantiated end to end on the direct
         paths L and T (one interface) from the (sin, cos) layer of the interface model.
     (5'') qratio_any_path : the general theorem for ANY number of interior interfaces (every
         skip / double-skip path and mode word), from the per-interface relation (1).
     (5p) (Proofs/ReciprocityPaths.v) the records of (5'') are BUILT from the interface model and
         relation (1) is PROVED for them, for every block-in-immersion path = mode word m0 m1 ... mk
         (front-wall transmission into m0, then k reflections against the couplant):
         displacement_record_front / _refl (all six interface events), qratio_skip_path_LL / LT /
         TL / TT (one reflection, explicit), qratio_immersion_path (any k; sigma = +1 / -1 as the
         last leg is L / T) on the (sin, cos) layer; then on the ANGLE layer, for real sub-critical
         conventional incidence angles: model_transrefl_products (the factors of
         Model.Weights.transrefl_for_path / reverse_transrefl_for_path ARE the F / G of the records:
         the Snell angles the reverse function recomputes lead to the forward wall),
         model_gammas (Model.Beamspread's gamma_list / rev_gamma_list are the records' gammas /
         their inverses reversed), qratio_model_path (the identity for the model's own four
         functions, real dtype) and qratio_model_path_complex (default complex dtype, the model's
         tx_weight / rx_weight with directivity and attenuation each on or off).
   What is still not mechanised (`qratio_beyond_critical_partial`): rays with a wave beyond a
   critical angle at some wall (complex angles: relation (1) is proved in any field, but the
   beamspread / sqrt algebra of (3)-(5) is over the reals), and that the conventional incidence
   angles of arim's traced rays are the arguments fed to the model (C05/C07 tie).  The harness
   measures Q c_last^2 sigma / Q' = kappa on the real code for every path, element and scatterer
   (2e-15). *)
From Coq Require Import List ZArith Bool Reals Lra.
From Arim Require Import Base.Num Base.NumR Model.Interface Model.Beamspread Model.Weights
                         Proofs.InterfaceProofs Proofs.BeamspreadProofs Proofs.ReciprocityProofs
                         Proofs.ReciprocityPaths.
Import ListNotations.
Local Open Scope R_scope.

(* (1) in any field (real or complex angles) *)
Theorem displacement_ratio_front_L : forall (K : Type) (N : Num K),
  field_theory (n0 N) (n1 N) (nadd N) (nmul N) (nsub N) (nopp N) (ndiv N) (fun x => ndiv N (n1 N) x) (@eq K) ->
  nofZ N 2%Z = nadd N (n1 N) (n1 N) ->
  forall sf cf sl cl st ct rho_f rho_s v_f v_l v_t,
  cf <> n0 N -> rho_f <> n0 N -> rho_s <> n0 N -> v_f <> n0 N -> v_l <> n0 N ->
  fluid_solid_n_sc N sf cf sl cl st ct rho_f rho_s v_f v_l v_t <> n0 N ->
  nmul N (nmul N (nmul N (snd3 (fluid_solid_sc N sf cf sl cl st ct rho_f rho_s v_f v_l v_t))
                         (ndiv N (nmul N rho_f v_f) (nmul N rho_s v_l))) cl) (nmul N rho_s v_l)
  = nmul N (nmul N (nmul N (thd3 (solid_l_fluid_sc N sf cf sl cl st ct rho_f rho_s v_f v_l v_t))
                           (ndiv N (nmul N rho_s v_l) (nmul N rho_f v_f))) cf) (nmul N rho_f v_f).
Proof. intros K N Fth two sf cf sl cl st ct rho_f rho_s v_f v_l v_t H1 H2 H3 H4 H5 H6.
       exact (ratio_front_L N Fth two sf cf sl cl st ct rho_f rho_s v_f v_l v_t H1 H2 H3 H4 H5 H6). Qed.

Theorem displacement_ratio_front_T : forall (K : Type) (N : Num K),
  field_theory (n0 N) (n1 N) (nadd N) (nmul N) (nsub N) (nopp N) (ndiv N) (fun x => ndiv N (n1 N) x) (@eq K) ->
  nofZ N 2%Z = nadd N (n1 N) (n1 N) ->
  forall sf cf sl cl st ct rho_f rho_s v_f v_l v_t,
  cf <> n0 N -> rho_f <> n0 N -> rho_s <> n0 N -> v_f <> n0 N -> v_l <> n0 N -> v_t <> n0 N ->
  nmul N sl v_t = nmul N st v_l ->
  fluid_solid_n_sc N sf cf sl cl st ct rho_f rho_s v_f v_l v_t <> n0 N ->
  nmul N (nmul N (nmul N (thd3 (fluid_solid_sc N sf cf sl cl st ct rho_f rho_s v_f v_l v_t))
                         (ndiv N (nmul N rho_f v_f) (nmul N rho_s v_t))) ct) (nmul N rho_s v_t)
  = nmul N (nmul N (nmul N (nopp N (n1 N))
             (nmul N (thd3 (solid_t_fluid_sc N sf cf sl cl st ct rho_f rho_s v_f v_l v_t))
                     (ndiv N (nmul N rho_s v_t) (nmul N rho_f v_f)))) cf) (nmul N rho_f v_f).
Proof. intros K N Fth two sf cf sl cl st ct rho_f rho_s v_f v_l v_t H1 H2 H3 H4 H5 H6 H7 H8.
       exact (ratio_front_T N Fth two sf cf sl cl st ct rho_f rho_s v_f v_l v_t H1 H2 H3 H4 H5 H6 H7 H8). Qed.

Theorem displacement_ratio_refl_LT : forall (K : Type) (N : Num K),
  field_theory (n0 N) (n1 N) (nadd N) (nmul N) (nsub N) (nopp N) (ndiv N) (fun x => ndiv N (n1 N) x) (@eq K) ->
  nofZ N 2%Z = nadd N (n1 N) (n1 N) ->
  forall sf cf sl cl st ct rho_f rho_s v_f v_l v_t,
  cl <> n0 N -> rho_s <> n0 N -> v_l <> n0 N -> v_t <> n0 N ->
  nmul N sl v_t = nmul N st v_l ->
  fluid_solid_n_sc N sf cf sl cl st ct rho_f rho_s v_f v_l v_t <> n0 N ->
  nmul N (nmul N (nmul N (snd3 (solid_l_fluid_sc N sf cf sl cl st ct rho_f rho_s v_f v_l v_t)) (ndiv N v_l v_t)) ct)
         (nmul N rho_s v_t)
  = nmul N (nmul N (nmul N (nopp N (n1 N))
             (nmul N (fst3 (solid_t_fluid_sc N sf cf sl cl st ct rho_f rho_s v_f v_l v_t)) (ndiv N v_t v_l))) cl)
           (nmul N rho_s v_l).
Proof. intros K N Fth two sf cf sl cl st ct rho_f rho_s v_f v_l v_t H1 H2 H3 H4 H5 H6.
       exact (ratio_refl_LT N Fth two sf cf sl cl st ct rho_f rho_s v_f v_l v_t H1 H2 H3 H4 H5 H6). Qed.

Theorem displacement_ratio_refl_TL : forall (K : Type) (N : Num K),
  field_theory (n0 N) (n1 N) (nadd N) (nmul N) (nsub N) (nopp N) (ndiv N) (fun x => ndiv N (n1 N) x) (@eq K) ->
  nofZ N 2%Z = nadd N (n1 N) (n1 N) ->
  forall sf cf sl cl st ct rho_f rho_s v_f v_l v_t,
  cl <> n0 N -> rho_s <> n0 N -> v_l <> n0 N -> v_t <> n0 N ->
  nmul N sl v_t = nmul N st v_l ->
  fluid_solid_n_sc N sf cf sl cl st ct rho_f rho_s v_f v_l v_t <> n0 N ->
  nmul N (nmul N (nmul N (fst3 (solid_t_fluid_sc N sf cf sl cl st ct rho_f rho_s v_f v_l v_t)) (ndiv N v_t v_l)) cl)
         (nmul N rho_s v_l)
  = nmul N (nmul N (nmul N (nopp N (n1 N))
             (nmul N (snd3 (solid_l_fluid_sc N sf cf sl cl st ct rho_f rho_s v_f v_l v_t)) (ndiv N v_l v_t))) ct)
           (nmul N rho_s v_t).
Proof. intros K N Fth two sf cf sl cl st ct rho_f rho_s v_f v_l v_t H1 H2 H3 H4 H5 H6.
       exact (ratio_refl_TL N Fth two sf cf sl cl st ct rho_f rho_s v_f v_l v_t H1 H2 H3 H4 H5 H6). Qed.

(* (2) *)
Theorem telescoping_products : forall (K : Type) (N : Num K),
  field_theory (n0 N) (n1 N) (nadd N) (nmul N) (nsub N) (nopp N) (ndiv N) (fun x => ndiv N (n1 N) x) (@eq K) ->
  forall l : list (rfact (K := K)), Forall (ratio_ok N) l ->
  nmul N (prodK N rF l) (prodK N (fun x => nmul N (rcout x) (rzout x)) l)
  = nmul N (nmul N (prodK N (fun x => sgnK N (rsgn x)) l) (prodK N rG l))
           (prodK N (fun x => nmul N (rcin x) (rzin x)) l).
Proof. intros K N Fth l H. exact (telescoping N Fth l H). Qed.

Theorem sign_parity : forall (K : Type) (N : Num K),
  field_theory (n0 N) (n1 N) (nadd N) (nmul N) (nsub N) (nopp N) (ndiv N) (fun x => ndiv N (n1 N) x) (@eq K) ->
  forall l : list (rfact (K := K)),
  prodK N (fun x => sgnK N (rsgn x)) l = sgnK N (fold_right xorb false (map rsgn l)).
Proof. intros K N Fth l. exact (prod_sgn N Fth l). Qed.

Theorem impedance_chain : forall (K : Type) (N : Num K),
  field_theory (n0 N) (n1 N) (nadd N) (nmul N) (nsub N) (nopp N) (ndiv N) (fun x => ndiv N (n1 N) x) (@eq K) ->
  forall (l : list (rfact (K := K))) x, chained (x :: l) ->
  nmul N (prodK N rzout (x :: l)) (rzin x) = nmul N (prodK N rzin (x :: l)) (rzout (last l x)).
Proof. intros K N Fth l x H. exact (chain_z N Fth l x H). Qed.

(* (3) *)
Theorem reverse_gamma_is_inverse : forall vn vp th, 0 < vn -> 0 < vp -> cos th <> 0 ->
  1 - vn / vp * (vn / vp) * sin th * sin th <> 0 ->
  rev_gamma_of NumR vn vp th = / gamma_of NumR vp vn th.
Proof. exact rev_gamma_inv. Qed.

Theorem reverse_virtual_distance_is_scaled : forall r1 (xs : list (R * R)),
  Forall (fun gr => fst gr <> 0) xs ->
  virtual_distance NumR (rev (r1 :: map snd xs)) (map Rinv (rev (map fst xs)))
  = P_of xs * virtual_distance NumR (r1 :: map snd xs) (map fst xs).
Proof. exact reverse_virtual_distance. Qed.

(* (4) *)
Theorem gammas_telescope : forall l x, Forall gpos (x :: l) -> gchained (x :: l) ->
  gprod gamma_beta (x :: l) * gvout (last l x) * (gprod gcin (x :: l) * gprod gcin (x :: l))
  = gvin x * (gprod gcout (x :: l) * gprod gcout (x :: l)).
Proof. exact gammas_product. Qed.

(* (5) *)
Theorem qratio : forall D TRp TRr vd vd' Pg A lam c0 cl rho_f rho_s f X s,
  0 < vd -> 0 < c0 -> 0 < cl -> 0 < rho_f -> 0 < rho_s -> 0 < f -> 0 < X ->
  s * s = 1 ->
  vd' = Pg * vd ->
  Pg = (c0 / cl) * (X * X) ->
  TRp * X * (rho_s * cl) = s * TRr * (rho_f * c0) ->
  lam = cl / f ->
  let Q := D * TRp * (1 / sqrt vd) * A in
  let Q' := D * TRr * (1 / sqrt vd') * A * sqrt lam in
  Q * (cl * cl) * s = (rho_f * c0 * sqrt (c0 * f) / rho_s) * Q'.
Proof. exact qratio_combination. Qed.

(* (5') the whole chain instantiated on the two direct paths (one interface), from the
   (sin, cos) layer of the interface model: legs r1 (couplant) and r2 (block), any D, A, f *)
Theorem qratio_direct_path_L : forall sf cf sl cl st ct rho_f rho_s v_f v_l v_t,
  0 < cf -> 0 < cl -> 0 < ct -> 0 < rho_f -> 0 < rho_s -> 0 < v_f -> 0 < v_l -> 0 < v_t ->
  sl * v_t = st * v_l ->
  fluid_solid_n_sc NumR sf cf sl cl st ct rho_f rho_s v_f v_l v_t <> 0 ->
  forall r1 r2 D A f, 0 < r1 -> 0 < r2 -> 0 < f ->
  let FS := fluid_solid_sc NumR sf cf sl cl st ct rho_f rho_s v_f v_l v_t in
  let LF := solid_l_fluid_sc NumR sf cf sl cl st ct rho_f rho_s v_f v_l v_t in
  let g := v_f * (cl * cl) / (v_l * (cf * cf)) in
  let Q  := D * (snd3 FS * ((rho_f * v_f) / (rho_s * v_l))) * (1 / sqrt (r1 + r2 / g)) * A in
  let Q' := D * (thd3 LF * ((rho_s * v_l) / (rho_f * v_f))) * (1 / sqrt (r2 + r1 / (/ g))) * A * sqrt (v_l / f) in
  Q * (v_l * v_l) * 1 = (rho_f * v_f * sqrt (v_f * f) / rho_s) * Q'.
Proof. intros; apply qratio_direct_L; assumption. Qed.

Theorem qratio_direct_path_T : forall sf cf sl cl st ct rho_f rho_s v_f v_l v_t,
  0 < cf -> 0 < cl -> 0 < ct -> 0 < rho_f -> 0 < rho_s -> 0 < v_f -> 0 < v_l -> 0 < v_t ->
  sl * v_t = st * v_l ->
  fluid_solid_n_sc NumR sf cf sl cl st ct rho_f rho_s v_f v_l v_t <> 0 ->
  forall r1 r2 D A f, 0 < r1 -> 0 < r2 -> 0 < f ->
  let FS := fluid_solid_sc NumR sf cf sl cl st ct rho_f rho_s v_f v_l v_t in
  let TF := solid_t_fluid_sc NumR sf cf sl cl st ct rho_f rho_s v_f v_l v_t in
  let g := v_f * (ct * ct) / (v_t * (cf * cf)) in
  let Q  := D * (thd3 FS * ((rho_f * v_f) / (rho_s * v_t))) * (1 / sqrt (r1 + r2 / g)) * A in
  let Q' := D * (thd3 TF * ((rho_s * v_t) / (rho_f * v_f))) * (1 / sqrt (r2 + r1 / (/ g))) * A * sqrt (v_t / f) in
  Q * (v_t * v_t) * (-1) = (rho_f * v_f * sqrt (v_f * f) / rho_s) * Q'.
Proof. intros; apply qratio_direct_T; assumption. Qed.

(* (5'') THE GENERAL THEOREM: any number of interior interfaces (so every skip and double-skip
   path, any mode word), any leg lengths, directivity D, attenuation A and frequency f.
   x :: l lists the interior interfaces in path order, each with its forward / reverse
   displacement coefficients F, G, the cosines of its incidence and outgoing angles and the
   velocity and density of its incoming and outgoing legs.  Hypotheses: positivity, consecutive
   interfaces share a leg, and at every interface the displacement Stokes relation
   `ifr_ratio_ok` — which is exactly what displacement_ratio_front_L/T and
   displacement_ratio_refl_LT/TL (and reflexivity for LL, TT) establish.  The beamspread
   factors are the MODEL's `virtual_distance` of the forward and of the reversed ray. *)
Theorem qratio_any_path : forall x l r1 rs D A f,
  Forall ifr_pos (x :: l) -> ifr_chained (x :: l) -> Forall ifr_ratio_ok (x :: l) ->
  length rs = length (x :: l) -> 0 < r1 -> all_pos rs -> 0 < f ->
  let gs := map ifr_gamma (x :: l) in
  let vlast := fvout (last l x) in let rholast := frout (last l x) in
  let vd := virtual_distance NumR (r1 :: rs) gs in
  let vd' := virtual_distance NumR (rev (r1 :: rs)) (map Rinv (rev gs)) in
  let Q := D * rprod fF (x :: l) * (1 / sqrt vd) * A in
  let Q' := D * rprod fG (x :: l) * (1 / sqrt vd') * A * sqrt (vlast / f) in
  Q * (vlast * vlast) * rprod ifr_sign (x :: l)
  = (frin x * fvin x * sqrt (fvin x * f) / rholast) * Q'.
Proof. exact qratio_general. Qed.

(* (5p) THE RECORDS BUILT FROM THE INTERFACE MODEL (Proofs/ReciprocityPaths.v).
   A `wall` holds (sin, cos) of the fluid, L and T angles at one wall (the arguments of the _sc
   layer of Model/Interface.v); `wall_ok` = positive cosines (every wave sub-critical), Snell
   between the L and T angles (sl v_t = st v_l) and N <> 0 (implied by non-negative sines:
   wall_ok_from_signs).  `front_ifr m a` / `refl_ifr m1 m2 a` are the records of (5''): F and G
   are the displacement-unit factors of transmission_reflection_for_path and
   reverse_transmission_reflection_for_path (spelled out in interface_records). *)
Theorem interface_records : forall rho_f rho_s v_f v_l v_t (a : wall),
  let FS := fluid_solid_sc NumR (wsf a) (wcf a) (wsl a) (wcl a) (wst a) (wct a) rho_f rho_s v_f v_l v_t in
  let LF := solid_l_fluid_sc NumR (wsf a) (wcf a) (wsl a) (wcl a) (wst a) (wct a) rho_f rho_s v_f v_l v_t in
  let TF := solid_t_fluid_sc NumR (wsf a) (wcf a) (wsl a) (wcl a) (wst a) (wct a) rho_f rho_s v_f v_l v_t in
  front_ifr rho_f rho_s v_f v_l v_t ModeL a
    = mkIfr (snd3 FS * ((rho_f * v_f) / (rho_s * v_l))) (thd3 LF * ((rho_s * v_l) / (rho_f * v_f)))
            (wcf a) (wcl a) v_f v_l rho_f rho_s false /\
  front_ifr rho_f rho_s v_f v_l v_t ModeT a
    = mkIfr (thd3 FS * ((rho_f * v_f) / (rho_s * v_t))) (thd3 TF * ((rho_s * v_t) / (rho_f * v_f)))
            (wcf a) (wct a) v_f v_t rho_f rho_s true /\
  refl_ifr rho_f rho_s v_f v_l v_t ModeL ModeL a
    = mkIfr (fst3 LF * (v_l / v_l)) (fst3 LF * (v_l / v_l)) (wcl a) (wcl a) v_l v_l rho_s rho_s false /\
  refl_ifr rho_f rho_s v_f v_l v_t ModeL ModeT a
    = mkIfr (snd3 LF * (v_l / v_t)) (fst3 TF * (v_t / v_l)) (wcl a) (wct a) v_l v_t rho_s rho_s true /\
  refl_ifr rho_f rho_s v_f v_l v_t ModeT ModeL a
    = mkIfr (fst3 TF * (v_t / v_l)) (snd3 LF * (v_l / v_t)) (wct a) (wcl a) v_t v_l rho_s rho_s true /\
  refl_ifr rho_f rho_s v_f v_l v_t ModeT ModeT a
    = mkIfr (snd3 TF * (v_t / v_t)) (snd3 TF * (v_t / v_t)) (wct a) (wct a) v_t v_t rho_s rho_s false.
Proof. exact records_unfold. Qed.

Theorem wall_ok_from_signs : forall rho_f rho_s v_f v_l v_t,
  0 < rho_f -> 0 < rho_s -> 0 < v_f -> 0 < v_l -> 0 < v_t ->
  forall a : wall, 0 < wcf a -> 0 < wcl a -> 0 < wct a -> 0 <= wsl a -> 0 <= wst a ->
  wsl a * v_t = wst a * v_l -> wall_ok rho_f rho_s v_f v_l v_t a.
Proof. exact wall_ok_of_signs. Qed.

(* relation (1) and positivity for the record of the front-wall transmission into m = L or T *)
Theorem displacement_record_front : forall rho_f rho_s v_f v_l v_t,
  0 < rho_f -> 0 < rho_s -> 0 < v_f -> 0 < v_l -> 0 < v_t ->
  forall (m : wmode) (a : wall), wall_ok rho_f rho_s v_f v_l v_t a ->
  ifr_ratio_ok (front_ifr rho_f rho_s v_f v_l v_t m a) /\ ifr_pos (front_ifr rho_f rho_s v_f v_l v_t m a).
Proof. intros; split; [apply front_ratio_ok | apply front_pos]; assumption. Qed.

(* ... and for the record of a reflection m1 -> m2 (LL, LT, TL, TT) against the couplant *)
Theorem displacement_record_refl : forall rho_f rho_s v_f v_l v_t,
  0 < rho_s -> 0 < v_l -> 0 < v_t ->
  forall (m1 m2 : wmode) (a : wall), wall_ok rho_f rho_s v_f v_l v_t a ->
  ifr_ratio_ok (refl_ifr rho_f rho_s v_f v_l v_t m1 m2 a) /\ ifr_pos (refl_ifr rho_f rho_s v_f v_l v_t m1 m2 a).
Proof. intros; split; [apply refl_ratio_ok | apply refl_pos]; assumption. Qed.

(* the four skip paths (front wall angles ..0, reflecting wall angles ..1; legs r1 couplant,
   r2, r3 block), end to end from the (sin, cos) layer, in the style of (5') *)
Theorem qratio_skip_path_LL :
  forall rho_f rho_s v_f v_l v_t, 0 < rho_f -> 0 < rho_s -> 0 < v_f -> 0 < v_l -> 0 < v_t ->
  forall sf0 cf0 sl0 cl0 st0 ct0 sf1 cf1 sl1 cl1 st1 ct1,
  0 < cf0 -> 0 < cl0 -> 0 < ct0 -> sl0 * v_t = st0 * v_l ->
  fluid_solid_n_sc NumR sf0 cf0 sl0 cl0 st0 ct0 rho_f rho_s v_f v_l v_t <> 0 ->
  0 < cf1 -> 0 < cl1 -> 0 < ct1 -> sl1 * v_t = st1 * v_l ->
  fluid_solid_n_sc NumR sf1 cf1 sl1 cl1 st1 ct1 rho_f rho_s v_f v_l v_t <> 0 ->
  forall r1 r2 r3 D A f, 0 < r1 -> 0 < r2 -> 0 < r3 -> 0 < f ->
  let FS0 := fluid_solid_sc NumR sf0 cf0 sl0 cl0 st0 ct0 rho_f rho_s v_f v_l v_t in
  let LF0 := solid_l_fluid_sc NumR sf0 cf0 sl0 cl0 st0 ct0 rho_f rho_s v_f v_l v_t in
  let TF0 := solid_t_fluid_sc NumR sf0 cf0 sl0 cl0 st0 ct0 rho_f rho_s v_f v_l v_t in
  let LF1 := solid_l_fluid_sc NumR sf1 cf1 sl1 cl1 st1 ct1 rho_f rho_s v_f v_l v_t in
  let TF1 := solid_t_fluid_sc NumR sf1 cf1 sl1 cl1 st1 ct1 rho_f rho_s v_f v_l v_t in
  let g1 := v_f * (cl0 * cl0) / (v_l * (cf0 * cf0)) in
  let g2 := v_l * (cl1 * cl1) / (v_l * (cl1 * cl1)) in
  let Q  := D * ((snd3 FS0 * ((rho_f * v_f) / (rho_s * v_l))) * (fst3 LF1 * (v_l / v_l)))
            * (1 / sqrt (r1 + r2 / g1 + r3 / (g1 * g2))) * A in
  let Q' := D * ((thd3 LF0 * ((rho_s * v_l) / (rho_f * v_f))) * (fst3 LF1 * (v_l / v_l)))
            * (1 / sqrt (r3 + r2 / (/ g2) + r1 / (/ g2 * / g1))) * A * sqrt (v_l / f) in
  Q * (v_l * v_l) * 1 = (rho_f * v_f * sqrt (v_f * f) / rho_s) * Q'.
Proof. intros; apply qratio_skip_LL; assumption. Qed.

Theorem qratio_skip_path_LT :
  forall rho_f rho_s v_f v_l v_t, 0 < rho_f -> 0 < rho_s -> 0 < v_f -> 0 < v_l -> 0 < v_t ->
  forall sf0 cf0 sl0 cl0 st0 ct0 sf1 cf1 sl1 cl1 st1 ct1,
  0 < cf0 -> 0 < cl0 -> 0 < ct0 -> sl0 * v_t = st0 * v_l ->
  fluid_solid_n_sc NumR sf0 cf0 sl0 cl0 st0 ct0 rho_f rho_s v_f v_l v_t <> 0 ->
  0 < cf1 -> 0 < cl1 -> 0 < ct1 -> sl1 * v_t = st1 * v_l ->
  fluid_solid_n_sc NumR sf1 cf1 sl1 cl1 st1 ct1 rho_f rho_s v_f v_l v_t <> 0 ->
  forall r1 r2 r3 D A f, 0 < r1 -> 0 < r2 -> 0 < r3 -> 0 < f ->
  let FS0 := fluid_solid_sc NumR sf0 cf0 sl0 cl0 st0 ct0 rho_f rho_s v_f v_l v_t in
  let LF0 := solid_l_fluid_sc NumR sf0 cf0 sl0 cl0 st0 ct0 rho_f rho_s v_f v_l v_t in
  let TF0 := solid_t_fluid_sc NumR sf0 cf0 sl0 cl0 st0 ct0 rho_f rho_s v_f v_l v_t in
  let LF1 := solid_l_fluid_sc NumR sf1 cf1 sl1 cl1 st1 ct1 rho_f rho_s v_f v_l v_t in
  let TF1 := solid_t_fluid_sc NumR sf1 cf1 sl1 cl1 st1 ct1 rho_f rho_s v_f v_l v_t in
  let g1 := v_f * (cl0 * cl0) / (v_l * (cf0 * cf0)) in
  let g2 := v_l * (ct1 * ct1) / (v_t * (cl1 * cl1)) in
  let Q  := D * ((snd3 FS0 * ((rho_f * v_f) / (rho_s * v_l))) * (snd3 LF1 * (v_l / v_t)))
            * (1 / sqrt (r1 + r2 / g1 + r3 / (g1 * g2))) * A in
  let Q' := D * ((thd3 LF0 * ((rho_s * v_l) / (rho_f * v_f))) * (fst3 TF1 * (v_t / v_l)))
            * (1 / sqrt (r3 + r2 / (/ g2) + r1 / (/ g2 * / g1))) * A * sqrt (v_t / f) in
  Q * (v_t * v_t) * (-1) = (rho_f * v_f * sqrt (v_f * f) / rho_s) * Q'.
Proof. intros; apply qratio_skip_LT; assumption. Qed.

Theorem qratio_skip_path_TL :
  forall rho_f rho_s v_f v_l v_t, 0 < rho_f -> 0 < rho_s -> 0 < v_f -> 0 < v_l -> 0 < v_t ->
  forall sf0 cf0 sl0 cl0 st0 ct0 sf1 cf1 sl1 cl1 st1 ct1,
  0 < cf0 -> 0 < cl0 -> 0 < ct0 -> sl0 * v_t = st0 * v_l ->
  fluid_solid_n_sc NumR sf0 cf0 sl0 cl0 st0 ct0 rho_f rho_s v_f v_l v_t <> 0 ->
  0 < cf1 -> 0 < cl1 -> 0 < ct1 -> sl1 * v_t = st1 * v_l ->
  fluid_solid_n_sc NumR sf1 cf1 sl1 cl1 st1 ct1 rho_f rho_s v_f v_l v_t <> 0 ->
  forall r1 r2 r3 D A f, 0 < r1 -> 0 < r2 -> 0 < r3 -> 0 < f ->
  let FS0 := fluid_solid_sc NumR sf0 cf0 sl0 cl0 st0 ct0 rho_f rho_s v_f v_l v_t in
  let LF0 := solid_l_fluid_sc NumR sf0 cf0 sl0 cl0 st0 ct0 rho_f rho_s v_f v_l v_t in
  let TF0 := solid_t_fluid_sc NumR sf0 cf0 sl0 cl0 st0 ct0 rho_f rho_s v_f v_l v_t in
  let LF1 := solid_l_fluid_sc NumR sf1 cf1 sl1 cl1 st1 ct1 rho_f rho_s v_f v_l v_t in
  let TF1 := solid_t_fluid_sc NumR sf1 cf1 sl1 cl1 st1 ct1 rho_f rho_s v_f v_l v_t in
  let g1 := v_f * (ct0 * ct0) / (v_t * (cf0 * cf0)) in
  let g2 := v_t * (cl1 * cl1) / (v_l * (ct1 * ct1)) in
  let Q  := D * ((thd3 FS0 * ((rho_f * v_f) / (rho_s * v_t))) * (fst3 TF1 * (v_t / v_l)))
            * (1 / sqrt (r1 + r2 / g1 + r3 / (g1 * g2))) * A in
  let Q' := D * ((thd3 TF0 * ((rho_s * v_t) / (rho_f * v_f))) * (snd3 LF1 * (v_l / v_t)))
            * (1 / sqrt (r3 + r2 / (/ g2) + r1 / (/ g2 * / g1))) * A * sqrt (v_l / f) in
  Q * (v_l * v_l) * 1 = (rho_f * v_f * sqrt (v_f * f) / rho_s) * Q'.
Proof. intros; apply qratio_skip_TL; assumption. Qed.

Theorem qratio_skip_path_TT :
  forall rho_f rho_s v_f v_l v_t, 0 < rho_f -> 0 < rho_s -> 0 < v_f -> 0 < v_l -> 0 < v_t ->
  forall sf0 cf0 sl0 cl0 st0 ct0 sf1 cf1 sl1 cl1 st1 ct1,
  0 < cf0 -> 0 < cl0 -> 0 < ct0 -> sl0 * v_t = st0 * v_l ->
  fluid_solid_n_sc NumR sf0 cf0 sl0 cl0 st0 ct0 rho_f rho_s v_f v_l v_t <> 0 ->
  0 < cf1 -> 0 < cl1 -> 0 < ct1 -> sl1 * v_t = st1 * v_l ->
  fluid_solid_n_sc NumR sf1 cf1 sl1 cl1 st1 ct1 rho_f rho_s v_f v_l v_t <> 0 ->
  forall r1 r2 r3 D A f, 0 < r1 -> 0 < r2 -> 0 < r3 -> 0 < f ->
  let FS0 := fluid_solid_sc NumR sf0 cf0 sl0 cl0 st0 ct0 rho_f rho_s v_f v_l v_t in
  let LF0 := solid_l_fluid_sc NumR sf0 cf0 sl0 cl0 st0 ct0 rho_f rho_s v_f v_l v_t in
  let TF0 := solid_t_fluid_sc NumR sf0 cf0 sl0 cl0 st0 ct0 rho_f rho_s v_f v_l v_t in
  let LF1 := solid_l_fluid_sc NumR sf1 cf1 sl1 cl1 st1 ct1 rho_f rho_s v_f v_l v_t in
  let TF1 := solid_t_fluid_sc NumR sf1 cf1 sl1 cl1 st1 ct1 rho_f rho_s v_f v_l v_t in
  let g1 := v_f * (ct0 * ct0) / (v_t * (cf0 * cf0)) in
  let g2 := v_t * (ct1 * ct1) / (v_t * (ct1 * ct1)) in
  let Q  := D * ((thd3 FS0 * ((rho_f * v_f) / (rho_s * v_t))) * (snd3 TF1 * (v_t / v_t)))
            * (1 / sqrt (r1 + r2 / g1 + r3 / (g1 * g2))) * A in
  let Q' := D * ((thd3 TF0 * ((rho_s * v_t) / (rho_f * v_f))) * (snd3 TF1 * (v_t / v_t)))
            * (1 / sqrt (r3 + r2 / (/ g2) + r1 / (/ g2 * / g1))) * A * sqrt (v_t / f) in
  Q * (v_t * v_t) * (-1) = (rho_f * v_f * sqrt (v_f * f) / rho_s) * Q'.
Proof. intros; apply qratio_skip_TT; assumption. Qed.

(* every immersion path: m0 = mode of the first leg in the block, a0 = front wall,
   l = [(m1, a1); ...; (mk, ak)] = outgoing mode and wall of each reflection (the incident mode of
   a reflection is the outgoing mode of the previous interface: the mode word m0 m1 ... mk of arim's
   path names); path_ifrs m0 a0 l = front_ifr m0 a0 :: refl_ifr m0 m1 a1 :: refl_ifr m1 m2 a2 :: ...
   This is qratio_any_path with its hypotheses ifr_pos / ifr_chained / ifr_ratio_ok DISCHARGED and
   sigma computed: +1 if the last leg is L, -1 if it is T. *)
Theorem qratio_immersion_path : forall rho_f rho_s v_f v_l v_t,
  0 < rho_f -> 0 < rho_s -> 0 < v_f -> 0 < v_l -> 0 < v_t ->
  forall (m0 : wmode) (a0 : wall) (l : list (wmode * wall)) r1 rs D A f,
  Forall (wall_ok rho_f rho_s v_f v_l v_t) (a0 :: map snd l) ->
  length rs = S (length l) -> 0 < r1 -> all_pos rs -> 0 < f ->
  let L := path_ifrs rho_f rho_s v_f v_l v_t m0 a0 l in
  let gs := map ifr_gamma L in
  let c := vel_of v_l v_t (last_mode m0 l) in
  let vd := virtual_distance NumR (r1 :: rs) gs in
  let vd' := virtual_distance NumR (rev (r1 :: rs)) (map Rinv (rev gs)) in
  let Q := D * rprod fF L * (1 / sqrt vd) * A in
  let Q' := D * rprod fG L * (1 / sqrt vd') * A * sqrt (c / f) in
  Q * (c * c) * mode_sign (last_mode m0 l) = (rho_f * v_f * sqrt (v_f * f) / rho_s) * Q'.
Proof. exact qratio_immersion. Qed.

(* ---- the ANGLE layer: what the model computes from the conventional incidence angles ----
   path_ifaces ... m0 th0 [(m1, th1); ...] = the interior interfaces as Model.Weights reads them:
     mkIface FluidSolid true  fluid solid fluid ModeL m0 th0            (front wall, transmission)
     mkIface SolidFluid false solid solid fluid m_{k-1} m_k th_k        (reflection against the couplant)
   path_vels = [v_f; v(m0); v(m1); ...], path_thetas = [th0; th1; ...]  (spelled out in
   path_objects); subcritical v_in th = 0 <= th < pi/2 and the Snell sines of the fluid, L and T
   waves are < 1; model_ifrs = the records of qratio_immersion_path at the walls
   (sin, cos)(th, snell_angles th ..). *)
Theorem path_objects : forall rho_f rho_s v_f v_l v_t vtf m0 th0 m1 th1 l,
  let fluid := mkMaterial rho_f v_f vtf in
  let solid := mkMaterial rho_s v_l v_t in
  path_ifaces rho_f rho_s v_f v_l v_t vtf m0 th0 []
    = [mkIface FluidSolid true fluid solid fluid ModeL m0 th0] /\
  path_ifaces rho_f rho_s v_f v_l v_t vtf m0 th0 ((m1, th1) :: l)
    = mkIface FluidSolid true fluid solid fluid ModeL m0 th0
      :: mkIface SolidFluid false solid solid fluid m0 m1 th1
      :: tl (path_ifaces rho_f rho_s v_f v_l v_t vtf m1 th1 l) /\
  path_vels v_f v_l v_t m0 ((m1, th1) :: l) = v_f :: vel_of v_l v_t m0 :: tl (path_vels v_f v_l v_t m1 l) /\
  path_thetas th0 ((m1, th1) :: l) = th0 :: path_thetas th1 l /\
  (subcritical v_f v_l v_t v_f th0 <->
     0 <= th0 < PI / 2 /\ v_f / v_f * sin th0 < 1 /\ v_l / v_f * sin th0 < 1 /\ v_t / v_f * sin th0 < 1) /\
  (refl_sub v_f v_l v_t m0 ((m1, th1) :: l) <->
     (0 <= th1 < PI / 2 /\ v_f / vel_of v_l v_t m0 * sin th1 < 1 /\ v_l / vel_of v_l v_t m0 * sin th1 < 1
      /\ v_t / vel_of v_l v_t m0 * sin th1 < 1) /\ refl_sub v_f v_l v_t m1 l).
Proof. exact path_objects_unfold. Qed.

(* the two products of the model are the products of the records' F and G: no factor raises, and
   the angle reverse_transmission_reflection_for_path recomputes by snell_angles at each interface
   gives back the forward wall (this is the passage angle layer -> (sin, cos) layer) *)
Theorem model_transrefl_products : forall rho_f rho_s v_f v_l v_t, 0 < v_f -> 0 < v_l -> 0 < v_t ->
  forall vtf (m0 : wmode) th0 (l : list (wmode * R)),
  subcritical v_f v_l v_t v_f th0 -> refl_sub v_f v_l v_t m0 l ->
  transrefl_for_path NumR Displacement (path_ifaces rho_f rho_s v_f v_l v_t vtf m0 th0 l)
    = Some (Some (rprod fF (model_ifrs rho_f rho_s v_f v_l v_t m0 th0 l))) /\
  reverse_transrefl_for_path NumR Displacement (path_ifaces rho_f rho_s v_f v_l v_t vtf m0 th0 l)
    = Some (Some (rprod fG (model_ifrs rho_f rho_s v_f v_l v_t m0 th0 l))).
Proof. intros; split; [apply transrefl_is_product | apply reverse_transrefl_is_product; assumption]. Qed.

(* the gammas of beamspread_2d_for_path are the records' gammas (Snell), those of
   reverse_beamspread_2d_for_path their inverses in reverse order *)
Theorem model_gammas : forall rho_f rho_s v_f v_l v_t, 0 < v_f -> 0 < v_l -> 0 < v_t ->
  forall (m0 : wmode) th0 (l : list (wmode * R)),
  subcritical v_f v_l v_t v_f th0 -> refl_sub v_f v_l v_t m0 l ->
  gamma_list NumR (path_vels v_f v_l v_t m0 l) (path_thetas th0 l)
    = map ifr_gamma (model_ifrs rho_f rho_s v_f v_l v_t m0 th0 l) /\
  rev_gamma_list NumR (rev (path_vels v_f v_l v_t m0 l)) (rev (path_thetas th0 l))
    = map Rinv (rev (map ifr_gamma (model_ifrs rho_f rho_s v_f v_l v_t m0 th0 l))).
Proof. intros; split; [apply gamma_list_is_records | apply rev_gamma_list_is_records]; assumption. Qed.

(* THE END-TO-END THEOREM on the model's own functions (real dtype): every immersion path (any
   mode word, any number of reflections), real sub-critical incidence angles, any leg lengths,
   directivity D, attenuation A, frequency f.  Remaining hypotheses: positivity of the material
   constants and legs, sub-criticality of every wave at every wall. *)
Theorem qratio_model_path : forall rho_f rho_s v_f v_l v_t,
  0 < rho_f -> 0 < rho_s -> 0 < v_f -> 0 < v_l -> 0 < v_t ->
  forall vtf (m0 : wmode) th0 (l : list (wmode * R)) r1 rs D A f,
  subcritical v_f v_l v_t v_f th0 -> refl_sub v_f v_l v_t m0 l ->
  length rs = S (length l) -> 0 < r1 -> all_pos rs -> 0 < f ->
  let ifs := path_ifaces rho_f rho_s v_f v_l v_t vtf m0 th0 l in
  let vel := path_vels v_f v_l v_t m0 l in
  let ths := path_thetas th0 l in
  let c := vel_of v_l v_t (last_mode m0 l) in
  exists TR TR' : R,
    transrefl_for_path NumR Displacement ifs = Some (Some TR) /\
    reverse_transrefl_for_path NumR Displacement ifs = Some (Some TR') /\
    (D * TR * beamspread NumR vel (r1 :: rs) ths * A) * (c * c) * mode_sign (last_mode m0 l)
    = (rho_f * v_f * sqrt (v_f * f) / rho_s)
      * (D * TR' * reverse_beamspread NumR vel (r1 :: rs) ths * A * sqrt (c / f)).
Proof. exact qratio_model. Qed.

(* ... and on the default dtype (force_complex=True: complex numbers as pairs; iface_C embeds the
   real materials and angles with imaginary part 0), for the model's tx_weight / rx_weight with
   transrefl and beamspread on and directivity / attenuation each on or off: the two weights are
   real and satisfy the identity *)
Theorem qratio_model_path_complex : forall rho_f rho_s v_f v_l v_t,
  0 < rho_f -> 0 < rho_s -> 0 < v_f -> 0 < v_l -> 0 < v_t ->
  forall vtf (m0 : wmode) th0 (l : list (wmode * R)) r1 rs dirv att f (use_dir use_att : bool),
  subcritical v_f v_l v_t v_f th0 -> refl_sub v_f v_l v_t m0 l ->
  length rs = S (length l) -> 0 < r1 -> all_pos rs -> 0 < f ->
  let ifs := map iface_C (path_ifaces rho_f rho_s v_f v_l v_t vtf m0 th0 l) in
  let vel := path_vels v_f v_l v_t m0 l in
  let ths := path_thetas th0 l in
  let c := vel_of v_l v_t (last_mode m0 l) in
  exists (TR TR' : R * R) (Q Q' : R),
    transrefl_for_path (NumC NumR) Displacement ifs = Some (Some TR) /\
    reverse_transrefl_for_path (NumC NumR) Displacement ifs = Some (Some TR') /\
    tx_weight NumR use_dir true true use_att dirv TR (beamspread NumR vel (r1 :: rs) ths) att = (Q, 0) /\
    rx_weight NumR use_dir true true use_att dirv TR' (reverse_beamspread NumR vel (r1 :: rs) ths) att (c / f) = (Q', 0) /\
    Q * (c * c) * mode_sign (last_mode m0 l) = (rho_f * v_f * sqrt (v_f * f) / rho_s) * Q'.
Proof. exact qratio_model_complex. Qed.

(* (6) *)
Theorem view_reciprocity : forall kappa cx cy sx sy QiX Q'iX QjY Q'jY Sxy Syx,
  cx <> 0 -> cy <> 0 -> sx * sx = 1 -> sy * sy = 1 ->
  QiX * (cx * cx) * sx = kappa * Q'iX ->
  QjY * (cy * cy) * sy = kappa * Q'jY ->
  sx * Sxy / (cx * cx) = sy * Syx / (cy * cy) ->
  Sxy * QiX * Q'jY = Syx * QjY * Q'iX.
Proof. exact view_reciprocity_R. Qed.

(* non-vacuity of (5''): two interfaces with concrete numbers satisfying every hypothesis *)
Example qratio_any_path_premises :
  let x := mkIfr 2 16 1 1 1 2 1 4 false in
  let y := mkIfr 3 (- (9 / 2)) 1 1 2 3 4 4 true in
  Forall ifr_pos [x; y] /\ ifr_chained [x; y] /\ Forall ifr_ratio_ok [x; y].
Proof.
  cbv zeta. split; [|split].
  - repeat constructor; simpl; lra.
  - simpl. repeat split; reflexivity.
  - repeat constructor; unfold ifr_ratio_ok, ifr_sign; simpl; lra.
Qed.

(* non-vacuity of (5): one interface, normal incidence water -> steel (X = 1, s = 1) *)
Example qratio_premises_satisfiable :
  exists TRp TRr Pg : R, Pg = (1480 / 5900) * (1 * 1) /\ TRp * 1 * (7800 * 5900) = 1 * TRr * (1000 * 1480) /\ TRp <> 0.
Proof. exists 1, (7800 * 5900 / (1000 * 1480)), (1480 / 5900). split; [ring|]. split; [field | lra]. Qed.

(* non-vacuity of qratio_model_path(_complex): the double-skip path LTL, every incidence angle
   pi/6, v_f = 1, v_l = 3/2, v_t = 1 is sub-critical at every wall *)
Example model_path_premises_satisfiable :
  subcritical 1 (3 / 2) 1 1 (PI / 6)
  /\ refl_sub 1 (3 / 2) 1 ModeL [(ModeT, PI / 6); (ModeL, PI / 6)].
Proof. exact subcritical_example. Qed.
