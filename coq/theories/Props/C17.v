(* Props/C17.v — Coordinate changes are exact isometries; grids and distances are
   as specified.  Statements only; proofs are in Proofs/Vec3Proofs.v and
   Proofs/Geometry{,Grid,Angle}Proofs.v.  All statements are about the real-number
   instance NumR of Model/Geometry.v (exact arithmetic; rounding is outside, see the
   harness for the binary64 correspondence).

   Vocabulary (Model/Vec3.v): a matrix is a triple of rows; `orthonormal B` means
   B.B^T = I and B^T.B = I; `proper_rotation R` means orthonormal and det R = 1;
   `vdist` is the Euclidean distance.
   Not covered by any theorem: numpy's broadcasting / memory layout of point arrays
   (the model is per point and mapped over lists), numpy.linalg.solve (an oracle). *)
From Coq Require Import List Reals ZArith Bool Lra.
From Arim Require Import Base.Num Base.NumR Model.Vec3 Model.Geometry Proofs.Vec3Proofs
  Proofs.GeometryProofs Proofs.GeometryGridProofs Proofs.GeometryAngleProofs.
Import ListNotations.
Local Open Scope R_scope.

(* ---- frame changes ---------------------------------------------------------- *)
(* to_gcs and from_gcs are mutually inverse (both orders) for every orthonormal
   frame and every origin *)
Theorem to_from_gcs_inverse : forall B o p, orthonormal NumR B ->
  from_gcs NumR B o (to_gcs NumR B o p) = p /\ to_gcs NumR B o (from_gcs NumR B o p) = p.
Proof. intros B o p [Hr Hc]. split; [exact (from_to_gcs_R B o p Hr) | exact (to_from_gcs_R B o p Hc)]. Qed.

(* ... and both preserve every distance *)
Theorem from_gcs_isometry : forall B o p q, orthonormal NumR B ->
  vdist NumR (from_gcs NumR B o p) (from_gcs NumR B o q) = vdist NumR p q
  /\ vdist NumR (to_gcs NumR B o p) (to_gcs NumR B o q) = vdist NumR p q.
Proof. intros B o p q [Hr Hc]. split; [exact (from_gcs_dist_R B o p q Hc) | exact (to_gcs_dist_R B o p q Hr)]. Qed.

(* whole arrays through a single frame *)
Theorem to_from_gcs_inverse_array : forall B o ps, orthonormal NumR B ->
  from_gcs_all NumR B o (to_gcs_all NumR B o ps) = ps /\ to_gcs_all NumR B o (from_gcs_all NumR B o ps) = ps.
Proof. exact from_to_gcs_all_R. Qed.

(* whole arrays with one frame (basis, origin) per point: l lists (basis, origin, point) *)
Theorem to_from_gcs_inverse_per_point : forall l : list (mat3 R * vec3 R * vec3 R),
  Forall (fun f => orthonormal NumR (frame_of f)) l ->
  from_gcs_each NumR (map (fun f => with_point f (to_gcs NumR (fst (fst f)) (snd (fst f)) (snd f))) l) = map snd l
  /\ to_gcs_each NumR (map (fun f => with_point f (from_gcs NumR (fst (fst f)) (snd (fst f)) (snd f))) l) = map snd l.
Proof. exact from_to_gcs_each_R. Qed.

(* broadcasting one frame to every point is the per-point conversion with equal frames
   (every numeric instance, floats included) *)
Theorem single_frame_is_broadcast : forall (T : Type) (N : Num T) (B : mat3 T) (o : vec3 T) (cs : list (vec3 T)),
  to_gcs_each N (map (fun c => (B, o, c)) cs) = to_gcs_all N B o cs /\
  from_gcs_each N (map (fun c => (B, o, c)) cs) = from_gcs_all N B o cs.
Proof. exact @each_of_broadcast. Qed.

(* it is enough to check that the rows (the local axes) are orthonormal *)
Theorem orthonormal_rows_suffice : forall B, rows_orthonormal NumR B -> orthonormal NumR B.
Proof. exact orthonormal_of_rows. Qed.

(* ... i.e. that the three local axes are unit vectors orthogonal to each other *)
Theorem orthonormal_rows_meaning : forall a b c : vec3 R,
  rows_orthonormal NumR (a, b, c) <->
  vdot NumR a a = 1 /\ vdot NumR b b = 1 /\ vdot NumR c c = 1 /\
  vdot NumR a b = 0 /\ vdot NumR a c = 0 /\ vdot NumR b c = 0.
Proof. exact rows_orthonormal_iff. Qed.

(* the table of pairwise distances of two point arrays is unchanged by from_gcs / to_gcs *)
Theorem frame_change_preserves_distance_table : forall B o ps qs, orthonormal NumR B ->
  distance_table NumR (from_gcs_all NumR B o ps) (from_gcs_all NumR B o qs) = distance_table NumR ps qs
  /\ distance_table NumR (to_gcs_all NumR B o ps) (to_gcs_all NumR B o qs) = distance_table NumR ps qs.
Proof. exact distance_table_from_gcs. Qed.

(* CoordinateSystem.convert_from_gcs / convert_to_gcs are the frame changes of the
   frame whose axes are (i_hat, j_hat, i_hat x j_hat), a direct orthonormal frame
   whenever i_hat, j_hat are orthogonal unit vectors *)
Theorem coordinate_system_is_frame_change : forall o i j p,
  cs_convert_from_gcs NumR o i j p = from_gcs NumR (cs_axes NumR i j) o p /\
  cs_convert_to_gcs NumR o i j p = to_gcs NumR (cs_axes NumR i j) o p /\
  (vdot NumR i i = 1 -> vdot NumR j j = 1 -> vdot NumR i j = 0 -> proper_rotation NumR (cs_axes NumR i j)).
Proof.
  intros o i j p. split; [exact (cs_convert_from_is_from_gcs o i j p)|].
  split; [exact (cs_convert_to_is_to_gcs o i j p) | exact (cs_axes_proper i j)].
Qed.

(* rotate (about a centre or about the origin) preserves distances; the centre is fixed *)
Theorem rotate_isometry : forall R ce p q, orthonormal NumR R ->
  vdist NumR (rotate NumR R ce p) (rotate NumR R ce q) = vdist NumR p q.
Proof. intros R ce p q [_ Hc]. exact (rotate_dist_R R ce p q Hc). Qed.

Theorem rotate_fixes_centre : forall R ce, rotate NumR R (Some ce) ce = ce.
Proof. exact rotate_centre_fixed_R. Qed.

(* ---- rotation matrices -------------------------------------------------------- *)
(* each elementary matrix and yaw-pitch-roll satisfy R R^T = R^T R = I, det R = 1,
   for any (cos, sin) pairs on the unit circle ... *)
Theorem rotation_proper : forall cy sy cp sp cr sr,
  cy * cy + sy * sy = 1 -> cp * cp + sp * sp = 1 -> cr * cr + sr * sr = 1 ->
  proper_rotation NumR (rot_x_cs NumR cr sr) /\ proper_rotation NumR (rot_y_cs NumR cp sp) /\
  proper_rotation NumR (rot_z_cs NumR cy sy) /\ proper_rotation NumR (rot_ypr_cs NumR cy sy cp sp cr sr).
Proof.
  intros cy sy cp sp cr sr Hy Hp Hr.
  split; [exact (rot_x_proper cr sr Hr)|]. split; [exact (rot_y_proper cp sp Hp)|].
  split; [exact (rot_z_proper cy sy Hy) | exact (rot_ypr_proper cy sy cp sp cr sr Hy Hp Hr)].
Qed.

(* ... in particular for every angle *)
Theorem rotation_proper_angles : forall yaw pitch roll,
  proper_rotation NumR (rotation_matrix_x NumR roll) /\ proper_rotation NumR (rotation_matrix_y NumR pitch) /\
  proper_rotation NumR (rotation_matrix_z NumR yaw) /\ proper_rotation NumR (rotation_matrix_ypr NumR yaw pitch roll).
Proof.
  intros yaw pitch roll. split; [exact (rotation_matrix_x_proper roll)|]. split; [exact (rotation_matrix_y_proper pitch)|].
  split; [exact (rotation_matrix_z_proper yaw) | exact (rotation_matrix_ypr_proper yaw pitch roll)].
Qed.

(* orientation (sign of sin): x-rotation sends y to (0,c,s), y-rotation sends z to
   (s,0,c), z-rotation sends x to (c,s,0) *)
Theorem rotation_orientation : forall c s,
  mvec NumR (rot_x_cs NumR c s) (0, 1, 0) = (0, c, s) /\
  mvec NumR (rot_y_cs NumR c s) (0, 0, 1) = (s, 0, c) /\
  mvec NumR (rot_z_cs NumR c s) (1, 0, 0) = (c, s, 0).
Proof. intros c s. split; [exact (rot_x_action c s)|]. split; [exact (rot_y_action c s) | exact (rot_z_action c s)]. Qed.

(* ---- direct isometries ----------------------------------------------------------- *)
(* 2-D: for A <> B and |AB| = |A'B'| the returned (M, P) is a proper rotation of the
   plane (M = [[c,-s],[s,c]], c^2+s^2 = 1) with M A + P = A' and M B + P = B' *)
Theorem isometry2d_maps : forall A B Ap Bp : vec2 R,
  let AB := v2sub NumR B A in let ApBp := v2sub NumR Bp Ap in
  0 < fst AB * fst AB + snd AB * snd AB ->
  fst AB * fst AB + snd AB * snd AB = fst ApBp * fst ApBp + snd ApBp * snd ApBp ->
  exists c s P, direct_isometry_2d NumR A B Ap Bp = Some (rot2_cs NumR c s, P) /\
    c * c + s * s = 1 /\
    v2add NumR (m2vec NumR (rot2_cs NumR c s) A) P = Ap /\
    v2add NumR (m2vec NumR (rot2_cs NumR c s) B) P = Bp.
Proof. exact isometry2d_R. Qed.

(* whatever the input (also when the lengths agree only up to numpy.isclose), a returned
   (M, P) is a proper plane rotation with M B + P = B' *)
Theorem isometry2d_result_is_rotation : forall (A B Ap Bp : vec2 R) M P,
  direct_isometry_2d NumR A B Ap Bp = Some (M, P) ->
  exists c s, M = rot2_cs NumR c s /\ c * c + s * s = 1 /\ v2add NumR (m2vec NumR M B) P = Bp.
Proof. exact isometry2d_result_R. Qed.

(* 3-D: numpy.linalg.solve is an oracle `solve` with A.(solve A b) = b for invertible
   A.  For orthogonal unit (i, j) and (u, v) the returned (M, P) is a proper rotation
   sending i, j, i x j to u, v, u x v and the point A to B; M is the closed form
   [u v w] [i j k]^T *)
Theorem isometry3d_maps : forall solve : mat3 R -> mat3 R -> mat3 R,
  (forall a b, mdet NumR a <> 0 -> mmul NumR a (solve a b) = b) ->
  forall A i j B u v : vec3 R,
  vdot NumR i i = 1 -> vdot NumR j j = 1 -> vdot NumR i j = 0 ->
  vdot NumR u u = 1 -> vdot NumR v v = 1 -> vdot NumR u v = 0 ->
  exists M P, direct_isometry_3d NumR solve A i j B u v = Some (M, P) /\
    proper_rotation NumR M /\
    mvec NumR M i = u /\ mvec NumR M j = v /\ mvec NumR M (vcross NumR i j) = vcross NumR u v /\
    vadd NumR (mvec NumR M A) P = B /\
    M = mmul NumR (mtrans (u, v, vcross NumR u v)) (i, j, vcross NumR i j).
Proof. exact isometry3d_R. Qed.

(* the oracle's specification is satisfiable (Cramer's rule, the instance executed by
   the correspondence harness) *)
Theorem solve_oracle_realizable : forall a b, mdet NumR a <> 0 -> mmul NumR a (solve_cramer NumR a b) = b.
Proof. exact solve_cramer_spec. Qed.

(* ---- spherical coordinates --------------------------------------------------------- *)
(* At the origin the code evaluates arccos(0/0): NaN in binary64, whereas Coq's total
   real division would give acos 0.  The statements about theta and about the inverse
   map are therefore restricted to r > 0 (every point but the origin); r >= 0 and the
   range of phi = arctan2(y, x) hold everywhere. *)
Theorem spherical_ranges : forall p : vec3 R,
  let '(r, theta, phi) := spherical_coordinates NumR p in
  0 <= r /\ - PI <= phi <= PI /\ (0 < r -> 0 <= theta <= PI).
Proof.
  intros p. pose proof (spherical_ranges_R p) as H. destruct (spherical_coordinates NumR p) as [[r theta] phi].
  destruct H as (H1 & H2 & H3). split; [exact H1|]. split; [exact H3 | intros _; exact H2].
Qed.

(* r = 0 only at the origin *)
Theorem spherical_r_zero_iff_origin : forall p : vec3 R,
  let '(r, theta, phi) := spherical_coordinates NumR p in r = 0 <-> p = (0, 0, 0).
Proof. exact spherical_r_zero_R. Qed.

Theorem spherical_inverse_z : forall p : vec3 R,
  let '(r, theta, phi) := spherical_coordinates NumR p in 0 < r -> r * cos theta = vz p.
Proof. exact spherical_inverse_z_R. Qed.

Theorem spherical_inverse_xy : forall p : vec3 R,
  let '(r, theta, phi) := spherical_coordinates NumR p in
  0 < r -> r * sin theta * cos phi = vx p /\ r * sin theta * sin phi = vy p.
Proof.
  intros p. pose proof (spherical_inverse_xy_R p) as H. destruct (spherical_coordinates NumR p) as [[r theta] phi].
  intros _. exact H.
Qed.

(* ---- distance table ------------------------------------------------------------------ *)
Theorem distance_table_spec : forall (ps qs : list (vec3 R)) i j,
  (i < length ps)%nat -> (j < length qs)%nat ->
  let p := nth i ps (0, 0, 0) in let q := nth j qs (0, 0, 0) in
  nth j (nth i (distance_table NumR ps qs) []) 0
  = sqrt ((vx p - vx q) * (vx p - vx q) + (vy p - vy q) * (vy p - vy q) + (vz p - vz q) * (vz p - vz q)).
Proof. intros ps qs i j Hi Hj. cbv zeta. rewrite (distance_table_nth ps qs i j Hi Hj). apply vdist_formula. Qed.

Theorem distance_table_shape : forall ps qs : list (vec3 R),
  length (distance_table NumR ps qs) = length ps /\
  Forall (fun row => length row = length qs) (distance_table NumR ps qs).
Proof. exact distance_table_dims. Qed.

(* ---- grids ------------------------------------------------------------------------------ *)
(* the number of points of an axis is an integer nearest to L/d + 1 (L = |max - min|) *)
Theorem grid_count : forall lo hi d, 0 < d ->
  Rabs (IZR (grid_numpoints NumR lo hi d) - (Rabs (hi - lo) / d + 1)) <= / 2.
Proof. exact grid_numpoints_nearest. Qed.

(* a non-degenerate axis whose pixel size does not exceed its length has N >= 2 points,
   starts at min, ends at max ... *)
Theorem grid_contains_bounds : forall lo hi d, lo <> hi -> 0 < d -> d <= Rabs (hi - lo) ->
  let n := grid_numpoints NumR lo hi d in
  (2 <= n)%Z /\ exists xs, grid_axis NumR lo hi d = Some xs /\ length xs = Z.to_nat n /\
    nth 0 xs 0 = lo /\ nth (Z.to_nat n - 1) xs 0 = hi.
Proof.
  intros lo hi d Hne Hd HL. destruct (grid_axis_regular lo hi d Hne Hd HL) as (Hn & xs & H1 & H2 & _ & H4 & H5).
  split; [exact Hn|]. exists xs. repeat split; assumption.
Qed.

(* ... and is evenly spaced: point i is min + i (max - min)/(N - 1) *)
Theorem grid_even_spacing : forall lo hi d, lo <> hi -> 0 < d -> d <= Rabs (hi - lo) ->
  let n := grid_numpoints NumR lo hi d in
  exists xs, grid_axis NumR lo hi d = Some xs /\
    forall i, (i < Z.to_nat n)%nat -> nth i xs 0 = lo + INR i * ((hi - lo) / IZR (n - 1)).
Proof.
  intros lo hi d Hne Hd HL. destruct (grid_axis_regular lo hi d Hne Hd HL) as (_ & xs & H1 & _ & H3 & _).
  exists xs. split; assumption.
Qed.

Theorem grid_degenerate_axis : forall lo d, grid_axis NumR lo lo d = Some [lo].
Proof. exact grid_axis_degenerate. Qed.

(* x-major (C) order: the flat index of grid point (ix, iy, iz) is (ix ny + iy) nz + iz
   (any element type: also true of the float instances) *)
Theorem grid_order : forall (T : Type) (xs ys zs : list T) ix iy iz (d : T),
  (ix < length xs)%nat -> (iy < length ys)%nat -> (iz < length zs)%nat ->
  nth ((ix * length ys + iy) * length zs + iz) (flatten_c (meshgrid_ij xs ys zs)) (d, d, d)
  = (nth ix xs d, nth iy ys d, nth iz zs d)
  /\ nth iz (nth iy (nth ix (meshgrid_ij xs ys zs) []) []) (d, d, d) = (nth ix xs d, nth iy ys d, nth iz zs d)
  /\ length (flatten_c (meshgrid_ij xs ys zs)) = (length xs * length ys * length zs)%nat.
Proof.
  intros T xs ys zs ix iy iz d Hx Hy Hz. split; [exact (flatten_meshgrid_nth xs ys zs ix iy iz d Hx Hy Hz)|].
  split; [exact (meshgrid_nth xs ys zs ix iy iz d Hx Hy Hz) | exact (flatten_meshgrid_length xs ys zs)].
Qed.

(* the whole Grid is the 'ij' meshgrid of its three axis vectors and to_1d_points is its
   x-major flattening, for every numeric instance (floats included); it raises iff an
   axis raises *)
Theorem grid_is_meshgrid_of_axes : forall (T : Type) (N : Num T) xmin xmax ymin ymax zmin zmax dx dy dz g,
  grid N xmin xmax ymin ymax zmin zmax dx dy dz = Some g ->
  grid_axis N xmin xmax dx = Some (g_xvect g) /\ grid_axis N ymin ymax dy = Some (g_yvect g) /\
  grid_axis N zmin zmax dz = Some (g_zvect g) /\
  g_coords g = meshgrid_ij (g_xvect g) (g_yvect g) (g_zvect g) /\
  grid_to_1d_points g = flatten_c (meshgrid_ij (g_xvect g) (g_yvect g) (g_zvect g)).
Proof. exact @grid_structure. Qed.

Theorem grid_raises_iff_axis_raises : forall (T : Type) (N : Num T) xmin xmax ymin ymax zmin zmax dx dy dz,
  grid N xmin xmax ymin ymax zmin zmax dx dy dz = None <->
  grid_axis N xmin xmax dx = None \/ grid_axis N ymin ymax dy = None \/ grid_axis N zmin zmax dz = None.
Proof. exact @grid_none_iff. Qed.

(* grid_centred_at_point is the Grid of the box centre -+ size/2 with steps size/(n-1);
   it raises for a negative size or a zero pixel size *)
Theorem grid_centred_is_grid : forall cx cy cz sx sy sz px, 0 <= sx -> 0 <= sy -> 0 <= sz -> px <> 0 ->
  grid_centred_at_point NumR cx cy cz sx sy sz px =
  grid NumR (cx - sx / 2) (cx + sx / 2) (cy - sy / 2) (cy + sy / 2) (cz - sz / 2) (cz + sz / 2)
       (centred_step NumR sx (centred_numpoints NumR sx px))
       (centred_step NumR sy (centred_numpoints NumR sy px))
       (centred_step NumR sz (centred_numpoints NumR sz px)).
Proof. exact grid_centred_unfold. Qed.

Theorem grid_centred_rejects_bad_input : forall cx cy cz sx sy sz px, sx < 0 \/ sy < 0 \/ sz < 0 \/ px = 0 ->
  grid_centred_at_point NumR cx cy cz sx sy sz px = None.
Proof. exact grid_centred_rejects. Qed.

(* grid_centred_at_point, one axis of positive size s: the number of points n is odd,
   >= 3, at least s/pixel + 1 (so the actual spacing s/(n-1) does not exceed the
   requested pixel size), the axis is evenly spaced from c - s/2 and its middle point
   is exactly the centre *)
Theorem grid_centred_odd_and_centre : forall c s p, 0 < s -> 0 < p ->
  let n := centred_numpoints NumR s p in
  (Z.odd n = true /\ (3 <= n)%Z /\ s / p + 1 <= IZR n < s / p + 3) /\
  exists xs, grid_axis NumR (c - s / 2) (c + s / 2) (centred_step NumR s n) = Some xs /\
    length xs = Z.to_nat n /\
    (forall i, (i < Z.to_nat n)%nat -> nth i xs 0 = (c - s / 2) + INR i * (s / IZR (n - 1))) /\
    nth (Z.to_nat ((n - 1) / 2)) xs 0 = c.
Proof. intros c s p Hs Hp. split; [exact (centred_numpoints_R s p Hs Hp) | exact (centred_axis_R c s p Hs Hp)]. Qed.

(* an axis of size 0 is the single point c *)
Theorem grid_centred_degenerate : forall c p,
  grid_axis NumR (c - 0 / 2) (c + 0 / 2) (centred_step NumR 0 (centred_numpoints NumR 0 p)) = Some [c - 0 / 2]
  /\ c - 0 / 2 = c.
Proof. exact centred_axis_degenerate. Qed.

(* ---- box selector ---------------------------------------------------------------------------- *)
(* for every one of the 64 subsets of supplied bounds (None = not supplied): the mask is
   true exactly when every supplied bound holds, inclusively *)
Theorem rectbox_spec : forall (xmin xmax ymin ymax zmin zmax : option R) (p : vec3 R),
  in_rectbox NumR xmin xmax ymin ymax zmin zmax p = true <->
  (forall b, xmin = Some b -> b <= vx p) /\ (forall b, xmax = Some b -> vx p <= b) /\
  (forall b, ymin = Some b -> b <= vy p) /\ (forall b, ymax = Some b -> vy p <= b) /\
  (forall b, zmin = Some b -> b <= vz p) /\ (forall b, zmax = Some b -> vz p <= b).
Proof. exact in_rectbox_spec. Qed.

Theorem rectbox_pointwise : forall xmin xmax ymin ymax zmin zmax (ps : list (vec3 R)) i, (i < length ps)%nat ->
  nth i (points_in_rectbox NumR xmin xmax ymin ymax zmin zmax ps) false
  = in_rectbox NumR xmin xmax ymin ymax zmin zmax (nth i ps (0, 0, 0)).
Proof. exact points_in_rectbox_nth. Qed.

(* ---- non-vacuity -------------------------------------------------------------------------------- *)
(* a yaw-pitch-roll matrix with Pythagorean (cos, sin) pairs is a proper rotation *)
Example ypr_example_is_proper :
  proper_rotation NumR (rot_ypr_cs NumR (3 / 5) (4 / 5) (5 / 13) (12 / 13) (8 / 17) (15 / 17)).
Proof. apply rot_ypr_proper; lra. Qed.

(* an orthonormal frame that is NOT a proper rotation (a reflection) is accepted by the
   frame-change theorems *)
Example reflection_is_orthonormal : orthonormal NumR ((0, 1, 0), (1, 0, 0), (0, 0, 1)) /\
  mdet NumR ((0, 1, 0), (1, 0, 0), (0, 0, 1)) = -1.
Proof.
  split; [apply orthonormal_of_rows; v3_start; v3_split; ring | v3_start; ring].
Qed.

(* [0, 1] with pixel 1/4 has 5 points; the half-way case (1.5 + 1)/1 = 2.5 rounds to the
   even integer 2 (Python's round), not 3 *)
Example grid_count_example : grid_numpoints NumR 0 1 (/ 4) = 5%Z /\ grid_numpoints NumR 0 (3 / 2) 1 = 2%Z.
Proof. split; [exact grid_numpoints_example | exact grid_numpoints_half_even]. Qed.

(* the hypotheses of isometry3d_maps are satisfiable: the canonical frames *)
Example isometry3d_hypotheses_satisfiable :
  vdot NumR (1, 0, 0) (1, 0, 0) = 1 /\ vdot NumR (0, 1, 0) (0, 1, 0) = 1 /\ vdot NumR (1, 0, 0) (0, 1, 0) = 0.
Proof. v3_start. repeat split; ring. Qed.

(* ================================================================================================ *)
(* The glue around the per-point kernels (Model/GeometryGlue.v; proofs in Proofs/GeometryGlueProofs.v *)
(* — every element type / numeric instance, axiom-free — and Proofs/GeometryGlueRealProofs.v — NumR). *)
(*                                                                                                    *)
(* Vocabulary: an n-d array is `mkNd shape data` (flat data in C order), `nd_wf` its invariant        *)
(* length data = product of the shape; `ravel` / `unravel` translate between a full multi-index and   *)
(* the flat position; `nd_get a idx` is a[idx]; a Points object is an n-d array of triples; a raise   *)
(* of the library is `inl <exception kind>`; an argument passed through numpy.asarray is              *)
(* (shape, flat data).                                                                                *)
(* ================================================================================================ *)
From Coq Require Import QArith Permutation.
From Flocq Require Import Core.Raux.
From Arim Require Import Base.NumQ Model.GeometryGlue Proofs.GeometryGlueProofs Proofs.GeometryGlueRealProofs.
From Arim Require Model.Blocks.
Local Close Scope Q_scope.
Local Open Scope nat_scope.

(* ---- point arrays of any shape --------------------------------------------------------------------- *)
(* multi-indices and flat C-order positions are in bijection, for EVERY shape (sizes 0 and 1 included) *)
Theorem ndarray_index_bijection : forall shape : list nat,
  (forall k, k < size shape -> in_bounds shape (unravel shape k) = true /\ ravel shape (unravel shape k) = k) /\
  (forall idx, in_bounds shape idx = true -> ravel shape idx < size shape /\ unravel shape (ravel shape idx) = idx).
Proof.
  intros shape. split.
  - intros k H. split; [exact (unravel_in_bounds shape k H) | exact (ravel_unravel shape k H)].
  - intros idx H. split; [exact (ravel_lt shape idx H) | exact (unravel_ravel shape idx H)].
Qed.

(* Points.__iter__ / Points.enumerate (numpy.ndindex): the k-th item is the multi-index unravel k
   with the k-th point of the flat data — the right-most index varies the quickest *)
Theorem points_iteration_order : forall (T : Type) (P : points T), nd_wf P ->
  ndindex (nd_shape P) = map (unravel (nd_shape P)) (seq 0 (size (nd_shape P))) /\
  map fst (points_enumerate P) = ndindex (nd_shape P) /\
  map snd (points_enumerate P) = map Some (nd_data P).
Proof.
  intros T P W. split; [exact (ndindex_unravel (nd_shape P))|]. destruct (points_enumerate_spec P W) as [H1 H2].
  split; [rewrite H1; symmetry; exact (ndindex_unravel (nd_shape P)) | exact H2].
Qed.

(* Points.__init__: the last dimension must be 3 (ValueError), a 0-d array has none (IndexError);
   shape / ndim / size are those of coords without its last axis; coords gives the object back *)
Theorem points_init_shape_check : forall (T : Type) (ashape : list nat) (flat : list T),
  match points_init ashape flat with
  | inr P => exists s, ashape = s ++ [3] /\ P = mkNd s (group3 flat)
  | inl IndexError => ashape = []
  | inl ValueError => exists s n, ashape = s ++ [n] /\ n <> 3
  | inl _ => False
  end.
Proof. exact @points_init_spec. Qed.

Theorem points_shape_size : forall (T : Type) (P : points T),
  points_init (points_coords_shape P) (points_coords_flat P) = inr P /\
  points_size P = size (nd_shape P) /\ points_ndim P = length (nd_shape P).
Proof. intros T P. split; [exact (points_init_coords P) | exact (points_size_spec P)]. Qed.

(* Points.reshape (an int, a tuple, one negative entry = inferred dimension): a success keeps the
   points and their C order and only changes the shape, to one with the same number of points and
   as many dimensions as asked; every failure is a ValueError *)
Theorem points_reshape_keeps_points : forall (T : Type) (P : points T) (a : shape_arg), nd_wf P ->
  match points_reshape P a with
  | inr Q => nd_data Q = nd_data P /\ size (nd_shape Q) = size (nd_shape P) /\ nd_wf Q /\
             length (nd_shape Q) = length (shape_of_arg a)
  | inl e => e = ValueError
  end.
Proof. exact @points_reshape_spec. Qed.

(* to_1d_points / reshape round trip for ANY shape: to_1d_points is the flat data with shape
   (numpoints,); every shape with the same number of points is accepted, reshaping back returns
   the original object; and the same point sits at the indices that have the same flat position *)
Theorem points_reshape_round_trip : forall (T : Type) (P : points T) (s : list nat),
  points_to_1d P = inr (mkNd [size (nd_shape P)] (nd_data P)) /\
  (size s = size (nd_shape P) ->
   points_reshape P (RsTuple (map Z.of_nat s)) = inr (mkNd s (nd_data P)) /\
   points_reshape (mkNd s (nd_data P)) (RsTuple (map Z.of_nat (nd_shape P))) = inr P /\
   forall idx idx', in_bounds (nd_shape P) idx = true -> in_bounds s idx' = true ->
     ravel (nd_shape P) idx = ravel s idx' -> nd_get P idx = nd_get (mkNd s (nd_data P)) idx').
Proof. exact @points_reshape_round_trip_full. Qed.

(* Points.translate with one direction per point, Points.rotate, Points.norm2: same shape, the
   entry at every multi-index is the per-point result (every numeric instance) *)
Theorem points_translate_per_point : forall (T : Type) (N : Num T) (P : points T) dflat idx p d,
  nd_shape P <> [] -> nd_get P idx = Some p -> nth_error (group3 dflat) (ravel (nd_shape P) idx) = Some d ->
  exists Q, points_translate N P (points_coords_shape P) dflat = inr Q /\ nd_shape Q = nd_shape P /\
            nd_get Q idx = Some (vadd N p d).
Proof. exact @points_translate_each. Qed.

Theorem points_methods_pointwise : forall (T : Type) (N : Num T) (P : points T) R ce a b c idx,
  points_translate N P [3] [a; b; c] = inr (nd_map (fun p => vadd N p (a, b, c)) P) /\
  (nd_shape (points_rotate N P R ce) = nd_shape P /\
   nd_get (points_rotate N P R ce) idx = option_map (rotate N R ce) (nd_get P idx)) /\
  (nd_shape (points_norm2 N P) = nd_shape P /\
   nd_get (points_norm2 N P) idx = option_map (norm2_v N) (nd_get P idx)).
Proof.
  intros T N P R ce a b c idx. split; [exact (points_translate_one N P a b c)|].
  split; [exact (points_rotate_get N P R ce idx) | exact (points_norm2_get N P idx)].
Qed.

(* ---- box selector on arrays of any shape ------------------------------------------------------------- *)
(* the function AS WRITTEN (out = ones, the list valid_ones in the order xmin, ymin, zmin, xmax, ymax,
   zmax, the loop of logical_and) equals the per-point selector of Model/Geometry.v applied entry by
   entry, for every numeric instance (binary64 included) and every one of the 64 subsets of bounds;
   it raises (ValueError) exactly when the three shapes differ *)
Theorem rectbox_loop_is_pointwise : forall (T : Type) (N : Num T) (x y z : nd T) xmin xmax ymin ymax zmin zmax,
  (nd_wf x -> nd_wf y -> nd_wf z -> nd_shape y = nd_shape x -> nd_shape z = nd_shape x ->
   rectbox_free N x y z xmin xmax ymin ymax zmin zmax
   = inr (mkNd (nd_shape x) (map (in_rectbox N xmin xmax ymin ymax zmin zmax)
                                 (zip3v (nd_data x) (nd_data y) (nd_data z))))) /\
  ((nd_shape x <> nd_shape y \/ nd_shape y <> nd_shape z) <->
   rectbox_free N x y z xmin xmax ymin ymax zmin zmax = inl ValueError).
Proof.
  intros T N x y z xmin xmax ymin ymax zmin zmax. split.
  - exact (rectbox_free_pointwise N x y z xmin xmax ymin ymax zmin zmax).
  - exact (rectbox_free_shape_error N x y z xmin xmax ymin ymax zmin zmax).
Qed.

(* the Points method never raises and is the per-point selector mapped over the object *)
Theorem rectbox_points_is_pointwise : forall (T : Type) (N : Num T) (P : points T) xmin xmax ymin ymax zmin zmax,
  nd_wf P -> rectbox_points N P xmin xmax ymin ymax zmin zmax = inr (nd_map (in_rectbox N xmin xmax ymin ymax zmin zmax) P).
Proof. exact @rectbox_points_pointwise. Qed.

(* Grid.points_in_rectbox (the inherited method on the (numx, numy, numz) object): the mask is the
   outer product of three per-axis masks, each computed from ITS axis vector and ITS two bounds *)
Theorem rectbox_grid_is_separable : forall (T : Type) (N : Num T) xmin xmax ymin ymax zmin zmax dx dy dz g bxmin bxmax bymin bymax bzmin bzmax,
  grid_init N xmin xmax ymin ymax zmin zmax (PxSeq [dx; dy; dz]) = inr g ->
  rectbox_grid N g bxmin bxmax bymin bymax bzmin bzmax
  = inr (mkNd [length (go_xvect g); length (go_yvect g); length (go_zvect g)]
           (flatten_c (map (fun mx => map (fun my => map (fun mz => mx && my && mz)
                                                        (axis_mask N bzmin bzmax (go_zvect g)))
                                         (axis_mask N bymin bymax (go_yvect g)))
                           (axis_mask N bxmin bxmax (go_xvect g))))).
Proof.
  intros T N xmin xmax ymin ymax zmin zmax dx dy dz g b1 b2 b3 b4 b5 b6 H.
  destruct (grid_init_structure N _ _ _ _ _ _ _ _ _ g H) as (_ & _ & _ & Hp & _).
  exact (rectbox_grid_separable N g b1 b2 b3 b4 b5 b6 Hp).
Qed.

Local Open Scope R_scope.

(* over the reals, entry by entry and for every shape: the mask has the shape of the input and is true
   at a multi-index exactly when every SUPPLIED bound holds (inclusively) for the point there *)
Theorem rectbox_points_any_shape : forall (P : points R) xmin xmax ymin ymax zmin zmax, nd_wf P ->
  exists M, rectbox_points NumR P xmin xmax ymin ymax zmin zmax = inr M /\ nd_shape M = nd_shape P /\ nd_wf M /\
    forall idx, in_bounds (nd_shape P) idx = true ->
      exists p b, nd_get P idx = Some p /\ nd_get M idx = Some b /\
        (b = true <->
         (forall v, xmin = Some v -> v <= vx p) /\ (forall v, xmax = Some v -> vx p <= v) /\
         (forall v, ymin = Some v -> v <= vy p) /\ (forall v, ymax = Some v -> vy p <= v) /\
         (forall v, zmin = Some v -> v <= vz p) /\ (forall v, zmax = Some v -> vz p <= v)).
Proof. exact rectbox_points_entry_R. Qed.

Theorem rectbox_free_any_shape : forall (x y z : nd R) xmin xmax ymin ymax zmin zmax,
  nd_wf x -> nd_wf y -> nd_wf z -> nd_shape y = nd_shape x -> nd_shape z = nd_shape x ->
  exists M, rectbox_free NumR x y z xmin xmax ymin ymax zmin zmax = inr M /\ nd_shape M = nd_shape x /\
    forall idx, in_bounds (nd_shape x) idx = true ->
      exists a b c m, nd_get x idx = Some a /\ nd_get y idx = Some b /\ nd_get z idx = Some c /\
        nd_get M idx = Some m /\
        (m = true <->
         (forall v, xmin = Some v -> v <= a) /\ (forall v, xmax = Some v -> a <= v) /\
         (forall v, ymin = Some v -> v <= b) /\ (forall v, ymax = Some v -> b <= v) /\
         (forall v, zmin = Some v -> v <= c) /\ (forall v, zmax = Some v -> c <= v)).
Proof. exact rectbox_free_entry_R. Qed.

(* ---- Grid.__init__ as a whole ---------------------------------------------------------------------------- *)
(* pixel_size: one number is the same size on the three axes, a sequence of three gives one size per
   axis in the order x, y, z, a sequence of any other length is a ValueError (every numeric instance) *)
Theorem grid_pixel_size_unpacking : forall (T : Type) (N : Num T) xmin xmax ymin ymax zmin zmax,
  (forall d, grid_init N xmin xmax ymin ymax zmin zmax (PxScalar d)
             = grid_init N xmin xmax ymin ymax zmin zmax (PxSeq [d; d; d])) /\
  (forall l, length l <> 3%nat -> grid_init N xmin xmax ymin ymax zmin zmax (PxSeq l) = inl ValueError).
Proof.
  intros T N xmin xmax ymin ymax zmin zmax. split.
  - intros d. exact (grid_init_scalar N xmin xmax ymin ymax zmin zmax d).
  - intros l H. exact (grid_init_bad_length N xmin xmax ymin ymax zmin zmax l H).
Qed.

(* the object: each axis vector comes from ITS OWN bounds and pixel size, the point array has shape
   (numx, numy, numz), is well formed, is the x-major flattening of the 'ij' meshgrid and is the grid
   of Model/Geometry.v (so every earlier grid theorem applies to it); every numeric instance *)
Theorem grid_object_structure : forall (T : Type) (N : Num T) xmin xmax ymin ymax zmin zmax dx dy dz g,
  grid_init N xmin xmax ymin ymax zmin zmax (PxSeq [dx; dy; dz]) = inr g ->
  grid_axis_err N xmin xmax dx = inr (go_xvect g) /\
  grid_axis_err N ymin ymax dy = inr (go_yvect g) /\
  grid_axis_err N zmin zmax dz = inr (go_zvect g) /\
  go_points g = mkNd [length (go_xvect g); length (go_yvect g); length (go_zvect g)]
                     (flatten_c (meshgrid_ij (go_xvect g) (go_yvect g) (go_zvect g))) /\
  nd_wf (go_points g) /\
  grid N xmin xmax ymin ymax zmin zmax dx dy dz
  = Some (mkGrid (go_xvect g) (go_yvect g) (go_zvect g) (meshgrid_ij (go_xvect g) (go_yvect g) (go_zvect g))).
Proof. exact @grid_init_structure. Qed.

(* it raises exactly when an axis raises, with the exception of the FIRST failing axis (x, y, z):
   ZeroDivisionError for a zero pixel size on a non-degenerate axis, ValueError for a negative number
   of points; the axis model of Model/Geometry.v is this one with the exception kind forgotten *)
Theorem grid_error_is_first_failing_axis : forall (T : Type) (N : Num T) xmin xmax ymin ymax zmin zmax dx dy dz e,
  (grid_init N xmin xmax ymin ymax zmin zmax (PxSeq [dx; dy; dz]) = inl e <->
   grid_axis_err N xmin xmax dx = inl e \/
   ((exists v, grid_axis_err N xmin xmax dx = inr v) /\
    (grid_axis_err N ymin ymax dy = inl e \/
     ((exists v, grid_axis_err N ymin ymax dy = inr v) /\ grid_axis_err N zmin zmax dz = inl e)))) /\
  (forall lo hi d, grid_axis_err N lo hi d = inl e ->
     neqb N lo hi = false /\
     ((e = ZeroDivisionError /\ neqb N d (n0 N) = true) \/
      (e = ValueError /\ neqb N d (n0 N) = false /\ (grid_numpoints N lo hi d < 0)%Z))) /\
  (forall lo hi d, grid_axis N lo hi d = match grid_axis_err N lo hi d with inr v => Some v | inl _ => None end).
Proof.
  intros T N xmin xmax ymin ymax zmin zmax dx dy dz e. split; [exact (grid_init_error N _ _ _ _ _ _ _ _ _ e)|].
  split; [intros lo hi d; exact (grid_axis_err_kinds N lo hi d e) | intros lo hi d; exact (grid_axis_err_option N lo hi d)].
Qed.

(* THE WHOLE OBJECT over the reals, for every one of the 8 combinations of degenerate / non-degenerate
   axes and per-axis pixel sizes (each axis: min = max, or 0 < pixel <= |max - min|): it is built; the
   count of each axis is 1 or the integer nearest to L/d + 1 of ITS bounds and ITS pixel size; the point
   at (ix, iy, iz) is (x_ix, y_iy, z_iz) with x_i = xmin + i (xmax - xmin)/(numx - 1) (xmin on a degenerate
   axis); the axis vectors start and end exactly on the bounds; it warns exactly for decreasing axes *)
Theorem grid_all_degenerate_combinations : forall xmin xmax ymin ymax zmin zmax dx dy dz,
  axis_okR xmin xmax dx -> axis_okR ymin ymax dy -> axis_okR zmin zmax dz ->
  exists g, grid_init NumR xmin xmax ymin ymax zmin zmax (PxSeq [dx; dy; dz]) = inr g /\
    nd_shape (go_points g) = [axis_count xmin xmax dx; axis_count ymin ymax dy; axis_count zmin zmax dz] /\
    nd_wf (go_points g) /\
    (go_numx g = axis_count xmin xmax dx /\ go_numy g = axis_count ymin ymax dy /\
     go_numz g = axis_count zmin zmax dz) /\
    (forall ix iy iz, (ix < axis_count xmin xmax dx)%nat -> (iy < axis_count ymin ymax dy)%nat ->
                      (iz < axis_count zmin zmax dz)%nat ->
       nd_get (go_points g) [ix; iy; iz]
       = Some (axis_coord xmin xmax dx ix, axis_coord ymin ymax dy iy, axis_coord zmin zmax dz iz)) /\
    (vect_min (go_xvect g) = inr xmin /\ vect_max (go_xvect g) = inr xmax /\
     vect_min (go_yvect g) = inr ymin /\ vect_max (go_yvect g) = inr ymax /\
     vect_min (go_zvect g) = inr zmin /\ vect_max (go_zvect g) = inr zmax) /\
    go_warnings g = (if Rlt_bool xmax xmin then [AxX] else []) ++ (if Rlt_bool ymax ymin then [AxY] else [])
                    ++ (if Rlt_bool zmax zmin then [AxZ] else []).
Proof. exact grid_init_R. Qed.

(* resample(new_pixel_size) is Grid(the same six bounds, new_pixel_size).
   REPAIR (was: grid_resample g px = grid_init ... px): resample hands the bounds to the constructor as
   numpy scalars, so a zero pixel size on a non-degenerate axis raises OverflowError (round(inf)) where the
   constructor called with Python floats raises ZeroDivisionError; the statement now passes the error kind
   through np_zero_err (ZeroDivisionError -> OverflowError, every other kind unchanged).  The old equation
   holds exactly when the constructor does not answer ZeroDivisionError: see the two theorems below. *)
Theorem grid_resample_same_bounds : forall xmin xmax ymin ymax zmin zmax dx dy dz g px,
  axis_okR xmin xmax dx -> axis_okR ymin ymax dy -> axis_okR zmin zmax dz ->
  grid_init NumR xmin xmax ymin ymax zmin zmax (PxSeq [dx; dy; dz]) = inr g ->
  grid_resample NumR g px = match grid_init NumR xmin xmax ymin ymax zmin zmax px with
                            | inl e => inl (np_zero_err e)
                            | inr r => inr r
                            end.
Proof. exact grid_resample_R. Qed.

Theorem grid_resample_accepted : forall xmin xmax ymin ymax zmin zmax dx dy dz g px r,
  axis_okR xmin xmax dx -> axis_okR ymin ymax dy -> axis_okR zmin zmax dz ->
  grid_init NumR xmin xmax ymin ymax zmin zmax (PxSeq [dx; dy; dz]) = inr g ->
  grid_init NumR xmin xmax ymin ymax zmin zmax px = inr r -> grid_resample NumR g px = inr r.
Proof. exact grid_resample_ok_R. Qed.

Theorem grid_resample_zero_pixel_overflow : forall xmin xmax ymin ymax zmin zmax dx dy dz g px,
  axis_okR xmin xmax dx -> axis_okR ymin ymax dy -> axis_okR zmin zmax dz ->
  grid_init NumR xmin xmax ymin ymax zmin zmax (PxSeq [dx; dy; dz]) = inr g ->
  grid_init NumR xmin xmax ymin ymax zmin zmax px = inl ZeroDivisionError ->
  grid_resample NumR g px = inl OverflowError.
Proof. exact grid_resample_zero_R. Qed.

(* to_oriented_points: the flattened grid and one identity orientation per point (any instance) *)
Theorem grid_to_oriented_points_is_flat_identity : forall (T : Type) (N : Num T) (g : grid_obj),
  grid_to_oriented_points N g
  = inr (mkNd [size (nd_shape (go_points g))] (nd_data (go_points g)),
         mkNd [size (nd_shape (go_points g))] (repeat (mid3 N) (size (nd_shape (go_points g))))).
Proof. exact @grid_to_oriented_points_spec. Qed.

(* grid_centred_at_point: AssertionError for a negative size, ZeroDivisionError for a zero pixel size,
   otherwise Grid(centre -+ size/2, (dx, dy, dz)) with dx = size_x/(numpoints_x - 1) (size_x itself when
   numpoints_x = 1) — each step handed to ITS axis *)
Theorem grid_centred_error_branches : forall cx cy cz sx sy sz px,
  (sx < 0 \/ sy < 0 \/ sz < 0 -> grid_centred_obj NumR cx cy cz sx sy sz px = inl AssertionError) /\
  (0 <= sx -> 0 <= sy -> 0 <= sz -> px = 0 -> grid_centred_obj NumR cx cy cz sx sy sz px = inl ZeroDivisionError) /\
  (0 <= sx -> 0 <= sy -> 0 <= sz -> px <> 0 ->
   grid_centred_obj NumR cx cy cz sx sy sz px
   = grid_init NumR (cx - sx / 2) (cx + sx / 2) (cy - sy / 2) (cy + sy / 2) (cz - sz / 2) (cz + sz / 2)
       (PxSeq [centred_step NumR sx (centred_numpoints NumR sx px);
               centred_step NumR sy (centred_numpoints NumR sy px);
               centred_step NumR sz (centred_numpoints NumR sz px)])).
Proof. exact grid_centred_obj_cases. Qed.

(* the whole centred grid for every combination of zero and positive sizes: it is built, every axis
   has an odd number of points (1 for a zero size) and the point in the middle of the three axes is
   EXACTLY the requested centre *)
Theorem grid_centred_all_combinations : forall cx cy cz sx sy sz px, 0 <= sx -> 0 <= sy -> 0 <= sz -> 0 < px ->
  exists g, grid_centred_obj NumR cx cy cz sx sy sz px = inr g /\
    nd_shape (go_points g) = [centred_count sx px; centred_count sy px; centred_count sz px] /\
    nd_wf (go_points g) /\
    nd_get (go_points g) [centred_mid sx px; centred_mid sy px; centred_mid sz px] = Some (cx, cy, cz) /\
    Z.odd (Z.of_nat (centred_count sx px)) = true /\ Z.odd (Z.of_nat (centred_count sy px)) = true /\
    Z.odd (Z.of_nat (centred_count sz px)) = true.
Proof. exact grid_centred_obj_R. Qed.

(* ---- CoordinateSystem: the setters as a state machine ------------------------------------------------------ *)
(* the constructor succeeds exactly when the three arguments have shape (3,) and i_hat, j_hat pass
   np.isclose(norm2, 1.0); it then holds exactly the given vectors; every failure is a ValueError; it
   is the three assignments origin, i_hat, j_hat in this order (every numeric instance) *)
Theorem cs_constructor_spec : forall (T : Type) (N : Num T) (o i j : arr T),
  (forall c, cs_new N o i j = inr c <->
     as_vec3 o = inr (c_origin c) /\ as_vec3 i = inr (c_i c) /\ as_vec3 j = inr (c_j c) /\ cs_ok N c) /\
  (forall e, cs_new N o i j = inl e -> e = ValueError) /\
  (forall c0, cs_new N o i j = match cs_assign N c0 (SetOrigin o) with
                              | inl e => inl e
                              | inr c1 => match cs_assign N c1 (SetI i) with
                                          | inl e => inl e
                                          | inr c2 => cs_assign N c2 (SetJ j)
                                          end
                              end).
Proof.
  intros T N o i j. split; [intros c; exact (cs_new_spec N o i j c)|].
  split; [intros e; exact (cs_new_err N o i j e) | intros c0; exact (cs_new_is_three_assignments N o i j c0)].
Qed.

(* one assignment: refused (always a ValueError) => the three slots are unchanged; accepted => only
   its own slot changes and holds the assigned value; the verdict depends on the value only *)
Theorem cs_assignment_effect : forall (T : Type) (N : Num T) (c : cstate) (o : cs_op),
  match cs_assign N c o with
  | inl e => e = ValueError /\ cs_step N c o = c /\ accepts N o = Some e
  | inr c' =>
      cs_step N c o = c' /\ accepts N o = None /\
      match o with
      | SetOrigin a => as_vec3 a = inr (c_origin c') /\ c_i c' = c_i c /\ c_j c' = c_j c
      | SetI a => as_vec3 a = inr (c_i c') /\ unit_ok N (c_i c') = true /\ c_origin c' = c_origin c /\ c_j c' = c_j c
      | SetJ a => as_vec3 a = inr (c_j c') /\ unit_ok N (c_j c') = true /\ c_origin c' = c_origin c /\ c_i c' = c_i c
      end
  end.
Proof. exact @cs_assignment_effect_full. Qed.

(* ANY history of assignments on one object, accepted and refused in any order and number: each slot
   holds the LAST value accepted for it (the initial one if none), both stored vectors still pass the
   unit-norm check, k_hat and basis_matrix are those of the current slots, and the list of verdicts is
   a function of the assigned values only *)
Theorem cs_history_last_accepted : forall (T : Type) (N : Num T) (c : cstate) (ops : list cs_op),
  c_origin (cs_run N c ops) = last (accepted_origin ops) (c_origin c) /\
  c_i (cs_run N c ops) = last (accepted_i N ops) (c_i c) /\
  c_j (cs_run N c ops) = last (accepted_j N ops) (c_j c) /\
  c_k_hat N (cs_run N c ops) = vcross N (last (accepted_i N ops) (c_i c)) (last (accepted_j N ops) (c_j c)) /\
  c_basis_matrix N (cs_run N c ops)
  = mtrans (last (accepted_i N ops) (c_i c), last (accepted_j N ops) (c_j c),
            vcross N (last (accepted_i N ops) (c_i c)) (last (accepted_j N ops) (c_j c))) /\
  (cs_ok N c -> cs_ok N (cs_run N c ops)) /\
  cs_trace N c ops = map (accepts N) ops.
Proof. exact @cs_history_full. Qed.

(* copy() and translate(v) of an object whose vectors pass the check always succeed: the same vectors,
   the origin moved by v, for v of shape (3,) and — numpy broadcasting of origin + v — for a scalar or a
   (1,) array added to the three coordinates; every other shape of v is a ValueError (every instance) *)
Theorem cs_copy_translate_accepted : forall (T : Type) (N : Num T) (c : cstate), cs_ok N c ->
  c_copy N c = inr c /\
  (forall v d, translate_vector v = inr d -> c_translate N c v = inr (mkCst (vadd N (c_origin c) d) (c_i c) (c_j c))) /\
  (forall d : vec3 T, translate_vector (arr_of_vec3 d) = inr d) /\
  (forall a : T, translate_vector ([], [a]) = inr (a, a, a) /\ translate_vector ([1%nat], [a]) = inr (a, a, a)) /\
  (forall (v : arr T) e, translate_vector v = inl e -> c_translate N c v = inl ValueError).
Proof.
  intros T N c H. split; [exact (c_copy_ok N c H)|].
  split; [intros v d E; exact (c_translate_vec N c v d H E)|].
  split; [exact translate_vector_of_vec3|]. split; [intros a; split; reflexivity|].
  intros v e E. exact (c_translate_bad_shape N c v e E).
Qed.

(* rotate(M, centre) of an exactly orthonormal frame by an orthonormal matrix: accepted, the origin is
   rotated about the centre, the axes are M i_hat and M j_hat, the frame is again exactly orthonormal *)
Theorem cs_rotate_keeps_frame : forall (c : cstate) (M : mat3 R) ce, cols_orthonormal NumR M -> frame_exact c ->
  c_rotate NumR c M ce = inr (mkCst (rotate NumR M ce (c_origin c)) (mvec NumR M (c_i c)) (mvec NumR M (c_j c)))
  /\ frame_exact (mkCst (rotate NumR M ce (c_origin c)) (mvec NumR M (c_i c)) (mvec NumR M (c_j c))).
Proof. exact c_rotate_R. Qed.

(* EVERY REACHABLE STATE: start from any exactly orthonormal object (e.g. GCS) and apply any history of
   calls among: an assignment of the origin (accepted or not), any REFUSED assignment of i_hat / j_hat,
   translate, rotate by an orthonormal matrix about any centre, copy — each replacing the object when
   it succeeds.  The frame stays exactly orthonormal, and in that state convert_from_gcs and
   convert_to_gcs are inverse of each other on point arrays of any shape and preserve every distance *)
Theorem cs_reachable_states_convert_exactly : forall (c : cstate) (ks : list cs_call) (P Q : points R),
  frame_exact c -> Forall call_rigid ks ->
  let c' := cs_calls NumR c ks in
  frame_exact c' /\
  c_convert_from_gcs NumR c' (c_convert_to_gcs NumR c' P) = P /\
  c_convert_to_gcs NumR c' (c_convert_from_gcs NumR c' P) = P /\
  distance_table NumR (nd_data (c_convert_from_gcs NumR c' P)) (nd_data (c_convert_from_gcs NumR c' Q))
    = distance_table NumR (nd_data P) (nd_data Q) /\
  distance_table NumR (nd_data (c_convert_to_gcs NumR c' P)) (nd_data (c_convert_to_gcs NumR c' Q))
    = distance_table NumR (nd_data P) (nd_data Q).
Proof.
  intros c ks P Q Hc Hks c'. pose proof (cs_calls_exact c ks Hc Hks) as He.
  split; [exact He | exact (cs_conversions_R c' P Q He)].
Qed.

(* OBSERVATION (behaviour of the library, outside the property's premise "orthonormal frame"): the
   setters check the norm of each vector and never their orthogonality.  CoordinateSystem(O, i, i) is
   accepted; its k_hat is the null vector and its two conversions are not inverse of each other.  This
   is why an accepted assignment of i_hat / j_hat is excluded from the histories of the theorem above *)
Theorem cs_setters_do_not_check_orthogonality :
  exists c, cs_new NumR (arr_of_vec3 (0, 0, 0)) (arr_of_vec3 (1, 0, 0)) (arr_of_vec3 (1, 0, 0)) = inr c /\
            c_k_hat NumR c = (0, 0, 0) /\
            c_convert_to_gcs NumR c (c_convert_from_gcs NumR c (mkNd [] [(0, 1, 0)])) <> mkNd [] [(0, 1, 0)].
Proof. exact cs_no_orthogonality_check. Qed.

(* convert_from_gcs_pairwise on a point array of any shape with at least one dimension and a 1-d array of
   origins: three arrays of shape pshape ++ oshape whose entry at ip ++ io is the coordinate of the
   converted point P[ip] minus the coordinate of origins[io] (every numeric instance).
   REPAIR (was: origins and points of ANY shapes): the library computes
   x[..., newaxis] - origins.x[newaxis, ...], an outer difference only on this domain (0-d origins with
   points (2,) give shape (2, 1); origins (2, 1) with points (2,) are broadcast to (1, 2, 1); 0-d points
   with origins (1,) give (1, 1)).  The model now answers NotModelled outside the domain, the statement
   gained the hypothesis pairwise_modelled P O = true and speaks about the `inr` result. *)
Theorem pairwise_any_shape : forall (T : Type) (N : Num T) (c : cstate) (P O : points T) ip io p o,
  pairwise_modelled P O = true ->
  nd_wf O -> nd_get P ip = Some p -> nd_get O io = Some o ->
  let q := cs_convert_from_gcs N (c_origin c) (c_i c) (c_j c) p in
  exists X Y Z, c_convert_from_gcs_pairwise N c P O = inr (X, Y, Z) /\
  nd_shape X = (nd_shape P ++ nd_shape O)%list /\ nd_shape Y = (nd_shape P ++ nd_shape O)%list /\
  nd_shape Z = (nd_shape P ++ nd_shape O)%list /\
  nd_get X (ip ++ io) = Some (nsub N (vx q) (vx o)) /\
  nd_get Y (ip ++ io) = Some (nsub N (vy q) (vy o)) /\
  nd_get Z (ip ++ io) = Some (nsub N (vz q) (vz o)).
Proof. exact @pairwise_get. Qed.

(* the domain is: origins 1-d, points with at least one dimension; outside it the model answers the
   marker NotModelled (which is no exception: the library returns broadcast arrays there) *)
Theorem pairwise_domain : forall (T : Type) (N : Num T) (c : cstate) (P O : points T),
  (pairwise_modelled P O = true <-> length (nd_shape O) = 1%nat /\ length (nd_shape P) <> 0%nat) /\
  (pairwise_modelled P O = false -> c_convert_from_gcs_pairwise N c P O = inl NotModelled).
Proof. intros T N c P O. split; [apply pairwise_modelled_spec | apply pairwise_outside]. Qed.

(* ... and what the triple means for an orthonormal frame: the coordinates of the point in the frame
   with the same axes whose origin is the GCS position of origins[io]; its norm is the distance
   between the point and that origin.
   REPAIR: the old statement was about the triple (vx q - vx o, ...) alone and did not mention the
   function; it is now stated ON the result of c_convert_from_gcs_pairwise, with the same domain
   hypothesis as above (the old equation is the conjunction of the last two lines with the entries of
   pairwise_any_shape) *)
Theorem pairwise_is_frame_at_origin : forall (c : cstate) (P O : points R) ip io (p o : vec3 R), frame_exact c ->
  pairwise_modelled P O = true -> nd_wf O -> nd_get P ip = Some p -> nd_get O io = Some o ->
  exists X Y Z x y z, c_convert_from_gcs_pairwise NumR c P O = inr (X, Y, Z) /\
    nd_get X (ip ++ io) = Some x /\ nd_get Y (ip ++ io) = Some y /\ nd_get Z (ip ++ io) = Some z /\
    (x, y, z) = cs_convert_from_gcs NumR (cs_convert_to_gcs NumR (c_origin c) (c_i c) (c_j c) o) (c_i c) (c_j c) p /\
    sqrt (x * x + y * y + z * z) = vdist NumR p (cs_convert_to_gcs NumR (c_origin c) (c_i c) (c_j c) o).
Proof. exact pairwise_meaning_fun_R. Qed.

(* ---- distance_pairwise on Points objects ---------------------------------------------------------------------- *)
(* the PUBLIC function on two 1-d Points objects, composed with the blockwise theorem of C13: for every
   block size >= 1, thread count >= 1, order of execution of the blocks, with or without a preallocated
   `out=` of the right shape WHATEVER IT CONTAINED, the result is the distance table of Model/Geometry.v
   (to which distance_table_spec and frame_change_preserves_distance_table apply); every instance *)
Theorem distance_pairwise_points_is_distance_table : forall (T : Type) (N : Num T) (P1 P2 : points T) n1 n2 out
    block_size numthreads (sched : list Blocks.dist_views -> list Blocks.dist_views),
  nd_shape P1 = [n1] -> nd_shape P2 = [n2] -> out_fits P1 P2 out ->
  (1 <= block_size)%Z -> (1 <= numthreads)%Z -> (forall l, Permutation l (sched l)) ->
  distance_pairwise_points N P1 P2 out block_size numthreads sched
  = inr (distance_table N (nd_data P1) (nd_data P2)).
Proof. exact @distance_pairwise_points_table. Qed.

(* its shape checks: anything but two 1-d point arrays is an InvalidDimension; the coordinate views of
   a Points object always agree, so the only InvalidShape left is a wrongly shaped `out=` *)
Theorem distance_pairwise_points_shape_checks : forall (T : Type) (N : Num T) (P1 P2 : points T) out block_size numthreads sched,
  ((length (nd_shape P1) <> 1 \/ length (nd_shape P2) <> 1)%nat ->
   distance_pairwise_points N P1 P2 out block_size numthreads sched = inl InvalidDimension) /\
  (forall n1 n2 r c content, nd_shape P1 = [n1] -> nd_shape P2 = [n2] ->
     (r, c) <> (length (nd_data P1), length (nd_data P2)) ->
     distance_pairwise_points N P1 P2 (Some (r, c, content)) block_size numthreads sched = inl InvalidShape).
Proof.
  intros T N P1 P2 out bs nt sched. split.
  - exact (distance_pairwise_points_dimension N P1 P2 out bs nt sched).
  - intros n1 n2 r c content S1 S2 Hne. exact (distance_pairwise_points_out_shape N P1 P2 n1 n2 r c content bs nt sched S1 S2 Hne).
Qed.

(* a set of points against itself (the same object twice, or an equal copy): symmetric, zero diagonal *)
Theorem distance_table_self_symmetric_zero_diagonal : forall (ps : list (vec3 R)) i j,
  (i < length ps)%nat -> (j < length ps)%nat ->
  nth j (nth i (distance_table NumR ps ps) []) 0 = nth i (nth j (distance_table NumR ps ps) []) 0 /\
  nth i (nth i (distance_table NumR ps ps) []) 0 = 0.
Proof. exact distance_table_self_R. Qed.

(* ---- closest_point, rigid motions of point arrays ----------------------------------------------------------------- *)
(* Points.closest_point on an array of any shape: the FLAT C-order index of a point at minimal
   distance, the first one in case of ties; ValueError (numpy.argmin) on an empty array *)
Theorem closest_point_is_first_nearest : forall (P : points R) x y z,
  (forall k, closest_point NumR P x y z = inr k ->
     (k < length (nd_data P))%nat /\
     (forall j, (j < length (nd_data P))%nat ->
        vdist NumR (nth k (nd_data P) (0, 0, 0)) (x, y, z) <= vdist NumR (nth j (nd_data P) (0, 0, 0)) (x, y, z)) /\
     (forall j, (j < k)%nat ->
        vdist NumR (nth k (nd_data P) (0, 0, 0)) (x, y, z) < vdist NumR (nth j (nd_data P) (0, 0, 0)) (x, y, z))) /\
  (nd_data P = [] -> closest_point NumR P x y z = inl ValueError).
Proof.
  intros P x y z. split; [intros k H; exact (closest_point_spec_R P x y z k H) | exact (closest_point_empty P x y z)].
Qed.

(* Points.rotate by an orthonormal matrix about any centre and Points.translate by one direction keep
   the shape and the whole pairwise distance table, for point arrays of any shape *)
Theorem points_rigid_motions_any_shape : forall (P Q : points R) (M : mat3 R) ce a b c, orthonormal NumR M ->
  (nd_shape (points_rotate NumR P M ce) = nd_shape P /\
   distance_table NumR (nd_data (points_rotate NumR P M ce)) (nd_data (points_rotate NumR Q M ce))
   = distance_table NumR (nd_data P) (nd_data Q)) /\
  exists P' Q', points_translate NumR P [3%nat] [a; b; c] = inr P' /\
                points_translate NumR Q [3%nat] [a; b; c] = inr Q' /\ nd_shape P' = nd_shape P /\
                distance_table NumR (nd_data P') (nd_data Q') = distance_table NumR (nd_data P) (nd_data Q).
Proof. exact points_rigid_motions_R. Qed.

(* ---- Points.allclose / are_points_close ------------------------------------------------------------------------------- *)
(* on two point arrays of the same shape: true exactly when every pair of corresponding points is
   close (|a - b| <= atol + rtol |b| on the three coordinates); a different NUMBER of dimensions:
   False; the same number of dimensions but shapes numpy cannot broadcast: a ValueError (not False);
   every numeric instance *)
Theorem points_allclose_spec : forall (T : Type) (N : Num T) (P Q : points T) atol rtol,
  (nd_wf P -> nd_wf Q -> nd_shape Q = nd_shape P ->
   points_allclose N P Q atol rtol
   = inr (forallb (fun pq => vclose N atol rtol (fst pq) (snd pq)) (combine (nd_data P) (nd_data Q)))) /\
  (length (nd_shape P) <> length (nd_shape Q) -> points_allclose N P Q atol rtol = inr false) /\
  (length (nd_shape P) = length (nd_shape Q) -> bcast_shape (nd_shape P) (nd_shape Q) = None ->
   points_allclose N P Q atol rtol = inl ValueError).
Proof.
  intros T N P Q atol rtol. split; [exact (points_allclose_same_shape N P Q atol rtol)|].
  split; [exact (points_allclose_ndim N P Q atol rtol) | exact (points_allclose_unbroadcastable N P Q atol rtol)].
Qed.

(* OBSERVATION (the docstring says "True if and only if the two sets of points have the same shape and
   coordinates close"): only the number of dimensions is compared and numpy broadcasts — a (1,) array
   holding one point is "close" to a (2,) array holding that point twice.  The statement
   "allclose = true -> same shape" is refuted *)
Theorem points_allclose_same_shape_refuted :
  exists P Q : points R, nd_wf P /\ nd_wf Q /\ nd_shape P <> nd_shape Q /\ points_allclose NumR P Q 1 0 = inr true.
Proof. exact points_allclose_broadcasts_R. Qed.

(* ---- non-vacuity of the hypotheses above, and the glue executed ------------------------------------------------------ *)
(* one non-degenerate, one degenerate and one coarse axis satisfy the hypothesis of
   grid_all_degenerate_combinations *)
Example grid_axes_hypotheses_satisfiable : axis_okR 0 1 (/ 4) /\ axis_okR 2 2 7 /\ axis_okR 3 0 (3 / 2).
Proof.
  split; [right; rewrite Rminus_0_r, Rabs_R1; lra|]. split; [left; reflexivity|].
  right. replace (0 - 3) with (- (3)) by ring. rewrite Rabs_Ropp, Rabs_right by lra. lra.
Qed.

(* GCS is exactly orthonormal, and a history with a translation, a quarter turn about a centre, a copy,
   an assignment of the origin and a refused assignment of i_hat satisfies the hypothesis of
   cs_reachable_states_convert_exactly *)
Example cs_history_hypotheses_satisfiable :
  frame_exact (mkCst (0, 0, 0) (1, 0, 0) (0, 1, 0)) /\
  Forall call_rigid [CTranslate (arr_of_vec3 (1, 2, 3)); CRotate ((0, -1, 0), (1, 0, 0), (0, 0, 1)) (Some (1, 0, 0)); CCopy;
                     CAssign (SetOrigin (arr_of_vec3 (5, 6, 7))); CAssign (SetI ([2%nat], [1; 2]))].
Proof.
  split; [exact gcs_frame_exact|].
  apply Forall_cons; [exact I|]. apply Forall_cons; [cbn [call_rigid]; v3_start; v3_split; ring|].
  apply Forall_cons; [exact I|]. apply Forall_cons; [exact I|]. apply Forall_cons; [|apply Forall_nil].
  cbn. discriminate.
Qed.

(* the glue computes (exact rationals, vm_compute); every value below is the answer of the real library
   on the same input (notes/prover_C17_TIE.md) *)
Local Open Scope Q_scope.
Example glue_runs_on_rationals :
  let qs := map inject_Z in
  let P : points Q := mkNd [2; 2]%nat (group3 (qs [0; 1; 2; 3; 4; 5; 6; 7; 8; 9; 10; 11]%Z)) in
  let a3 (p q r : Q) : arr Q := ([3%nat], [p; q; r]) in
  let cs1 := mkCst (1, 1, 1)%Q (0, 1, 0)%Q (0, 0, 1)%Q in
  let Rz : mat3 Q := ((0, -1, 0), (1, 0, 0), (0, 0, 1))%Q in
  (* Points: init, iteration order, reshape *)
  (match points_init [2; 4; 3]%nat (qs (map Z.of_nat (seq 0 24))) with inr p => Some (nd_shape p) | _ => None end,
   points_init [3; 2]%nat (qs [0; 1; 2; 3; 4; 5]%Z), points_init []%nat [1%Q])
  = (Some [2; 4]%nat, inl ValueError, inl IndexError) /\
  map fst (points_enumerate P) = [[0; 0]; [0; 1]; [1; 0]; [1; 1]]%nat /\
  points_to_1d P = inr (mkNd [4%nat] (nd_data P)) /\
  (match points_reshape P (RsTuple [-1; 1]%Z) with inr p => Some (nd_shape p) | _ => None end,
   match points_reshape P (RsTuple [-1; -1]%Z) with inl e => Some e | _ => None end,
   match points_reshape P (RsInt 3) with inl e => Some e | _ => None end)
  = (Some [4; 1]%nat, Some ValueError, Some ValueError) /\
  (* box selector on 2-d arrays, on a Points object, on a Grid *)
  rectbox_free NumQ (mkNd [2; 3]%nat (qs [0; 1; 2; 3; 4; 5]%Z)) (mkNd [2; 3]%nat (qs [5; 4; 3; 2; 1; 0]%Z))
               (mkNd [2; 3]%nat (qs [1; 1; 1; 2; 2; 2]%Z)) (Some 1%Q) None None (Some 4%Q) None (Some 1%Q)
  = inr (mkNd [2; 3]%nat [false; true; true; false; false; false]) /\
  rectbox_points NumQ P (Some 3%Q) None None None None (Some 8%Q) = inr (mkNd [2; 2]%nat [false; true; true; false]) /\
  (* Grid(0, 1, 0, 2, 5, 5, (0.5, 1, 0.25)), its box mask, resample(0.5), a reversed grid, error kinds *)
  (match grid_init NumQ 0 1 0 2 5 5 (PxSeq [1 # 2; 1; 1 # 4])%Q with
   | inr g => Some (nd_shape (go_points g), go_xvect g, go_yvect g, go_zvect g, go_warnings g,
                    nd_get (go_points g) [2; 1; 0]%nat,
                    option_map (@nd_data bool) (match rectbox_grid NumQ g (Some (1 # 2)%Q) None None (Some 1%Q) None None with
                                                | inr m => Some m | inl _ => None end),
                    match grid_resample NumQ g (PxScalar (1 # 2)%Q) with
                    | inr r => Some (nd_shape (go_points r), go_yvect r) | inl _ => None end,
                    (* resample with a zero pixel size: OverflowError on a non-degenerate axis, accepted on the degenerate one *)
                    match grid_resample NumQ g (PxScalar 0%Q) with inl e => Some e | inr _ => None end,
                    match grid_resample NumQ g (PxSeq [1; 1; 0]%Q) with inl e => Some e | inr _ => None end)
   | inl _ => None end)
  = Some ([3; 3; 1]%nat, [0; 1 # 2; 1]%Q, [0; 1; 2]%Q, [5%Q], [], Some (1, 1, 5)%Q,
          Some [false; false; false; true; true; false; true; true; false],
          Some ([3; 5; 1]%nat, [0; 1 # 2; 1; 3 # 2; 2]%Q), Some OverflowError, None) /\
  (match grid_init NumQ 1 0 0 0 3 2 (PxScalar (1 # 2)%Q) with
   | inr g => Some (nd_shape (go_points g), go_xvect g, go_zvect g, go_warnings g) | inl _ => None end)
  = Some ([3; 1; 3]%nat, [1; 1 # 2; 0]%Q, [3; 5 # 2; 2]%Q, [AxX; AxZ]) /\
  (match grid_init NumQ 0 1 0 2 5 5 (PxSeq [1 # 2; 1])%Q with inl e => Some e | _ => None end,
   match grid_init NumQ 0 1 0 2 5 5 (PxSeq [1 # 2; 0; 1])%Q with inl e => Some e | _ => None end,
   match grid_init NumQ 0 1 0 2 5 5 (PxSeq [1 # 2; 1; 0])%Q with inr g => Some (nd_shape (go_points g)) | _ => None end,
   match grid_init NumQ 0 1 0 0 0 0 (PxScalar (-2)%Q) with inr g => Some (nd_shape (go_points g)) | _ => None end,
   match grid_init NumQ 0 1 0 0 0 0 (PxScalar (-2 # 5)%Q) with inl e => Some e | _ => None end)
  = (Some ValueError, Some ZeroDivisionError, Some [3; 3; 1]%nat, Some [0; 1; 1]%nat, Some ValueError) /\
  (* grid_centred_at_point(0, 0, 0, 1, 0, 2, 0.5) and its error branches *)
  (match grid_centred_obj NumQ 0 0 0 1 0 2 (1 # 2) with
   | inr g => Some (nd_shape (go_points g), go_xvect g, go_zvect g, nd_get (go_points g) [1; 0; 2]%nat) | inl _ => None end)
  = Some ([3; 1; 5]%nat, [-1 # 2; 0; 1 # 2]%Q, [-1; -1 # 2; 0; 1 # 2; 1]%Q, Some (0, 0, 0)%Q) /\
  (match grid_centred_obj NumQ 0 0 0 1 (-1) 2 (1 # 2) with inl e => Some e | _ => None end,
   match grid_centred_obj NumQ 0 0 0 1 0 2 0 with inl e => Some e | _ => None end)
  = (Some AssertionError, Some ZeroDivisionError) /\
  (* CoordinateSystem: a history of eight assignments, five of them refused; constructor; methods *)
  (let hist := [SetI (a3 2 0 0)%Q; SetI ([1; 3]%nat, [1; 0; 0]%Q); SetJ (a3 (3 # 5) (4 # 5) 0)%Q;
                SetOrigin ([2%nat], [1; 2]%Q); SetOrigin (a3 5 6 7)%Q; SetI (a3 0 0 1)%Q;
                SetJ (a3 0 0 (11 # 10))%Q; SetJ ([], [1%Q])] in
   (cs_trace NumQ cs1 hist, cs_run NumQ cs1 hist, c_k_hat NumQ (cs_run NumQ cs1 hist)))
  = ([Some ValueError; Some ValueError; None; Some ValueError; None; None; Some ValueError; Some ValueError],
     mkCst (5, 6, 7)%Q (0, 0, 1)%Q (3 # 5, 4 # 5, 0)%Q, (-4 # 5, 3 # 5, 0)%Q) /\
  (cs_new NumQ (a3 1 1 1)%Q (a3 0 2 0)%Q (a3 0 0 1)%Q, cs_new NumQ (a3 1 1 1)%Q (a3 0 1 0)%Q (a3 0 0 1)%Q,
   c_rotate NumQ cs1 Rz (Some (1, 0, 0)%Q), c_translate NumQ cs1 (a3 1 2 3)%Q, c_copy NumQ cs1,
   c_translate NumQ cs1 ([], [1]), c_translate NumQ cs1 ([1%nat], [2]), c_translate NumQ cs1 ([1; 3]%nat, [1; 2; 3]),
   c_isclose NumQ cs1 (mkCst (1 + (1 # 1000000000), 1, 1)%Q (0, 1, 0)%Q (0, 0, 1)%Q) (atol_default NumQ) 0%Q)
  = (inl ValueError, inr cs1, inr (mkCst (0, 0, 1)%Q (-1, 0, 0)%Q (0, 0, 1)%Q),
     inr (mkCst (2, 3, 4)%Q (0, 1, 0)%Q (0, 0, 1)%Q), inr cs1,
     inr (mkCst (2, 2, 2)%Q (0, 1, 0)%Q (0, 0, 1)%Q), inr (mkCst (3, 3, 3)%Q (0, 1, 0)%Q (0, 0, 1)%Q), inl ValueError, true) /\
  (* convert_from_gcs_pairwise: points of shape (2, 1) against origins of shape (3,) *)
  (match c_convert_from_gcs_pairwise NumQ cs1 (mkNd [2; 1]%nat [(1, 2, 3); (4, 5, 6)]%Q)
                       (mkNd [3%nat] [(1, 0, 0); (0, 1, 0); (0, 0, 1)]%Q) with
   | inr (X, Y, Z) => inr (nd_shape X, nd_data X, nd_data Y, nd_data Z) | inl e => inl e end)
  = inr ([2; 1; 3]%nat, [0; 1; 1; 3; 4; 4]%Q, [2; 1; 2; 5; 4; 5]%Q, [0; 0; -1; 3; 3; 2]%Q) /\
  (* ... outside the modelled domain (0-d origins; 2-d origins; 0-d points): the marker *)
  (c_convert_from_gcs_pairwise NumQ cs1 (mkNd [2%nat] [(1, 2, 3); (4, 5, 6)]%Q) (mkNd [] [(1, 0, 0)]%Q),
   c_convert_from_gcs_pairwise NumQ cs1 (mkNd [2%nat] [(1, 2, 3); (4, 5, 6)]%Q) (mkNd [2; 1]%nat [(1, 0, 0); (0, 1, 0)]%Q),
   c_convert_from_gcs_pairwise NumQ cs1 (mkNd [] [(1, 2, 3)]%Q) (mkNd [1%nat] [(1, 0, 0)]%Q))
  = (inl NotModelled, inl NotModelled, inl NotModelled) /\
  (* allclose: (1,) against (2,) broadcasts, (2,) against (3,) raises, 1-d against 2-d is False *)
  (let p1 : points Q := mkNd [1%nat] [(1, 2, 3)] in
   let p2 : points Q := mkNd [2%nat] [(1, 2, 3); (1, 2, 3)] in
   let p3 : points Q := mkNd [3%nat] [(1, 2, 3); (1, 2, 3); (1, 2, 3)] in
   (points_allclose NumQ p1 p2 (atol_default NumQ) 0, points_allclose NumQ p2 p1 (atol_default NumQ) 0,
    points_allclose NumQ p2 p3 (atol_default NumQ) 0, points_allclose NumQ p1 (mkNd [] [(1, 2, 3)]) (atol_default NumQ) 0,
    points_allclose NumQ p2 (mkNd [2%nat] [(1, 2, 3); (1 + (1 # 200000000), 2, 3)]) (atol_default NumQ) 0,
    points_allclose NumQ p2 (mkNd [2%nat] [(1, 2, 3); (1 + (1 # 50000000), 2, 3)]) (atol_default NumQ) 0,
    points_allclose NumQ (mkNd [2; 1]%nat [(1, 2, 3); (4, 5, 6)]) (mkNd [1; 2]%nat [(1, 2, 3); (4, 5, 6)]) (atol_default NumQ) 0,
    points_allclose NumQ (mkNd [2; 1]%nat [(1, 2, 3); (1, 2, 3)]) (mkNd [1; 2]%nat [(1, 2, 3); (1, 2, 3)]) (atol_default NumQ) 0))
  = (inr true, inr true, inl ValueError, inr false, inr true, inr false, inr false, inr true) /\
  (* closest_point (a tie: the first), distance_pairwise with a prefilled out=, its dimension check *)
  (closest_point NumQ (mkNd [2; 2]%nat [(3, 0, 0); (0, 2, 0); (0, 0, 2); (1, 1, 1)]%Q) 0 0 0,
   closest_point NumQ (mkNd [3%nat] [(0, 2, 0); (0, 0, 2); (2, 0, 0)]%Q) 0 0 0) = (inr 3%nat, inr 0%nat) /\
  (let A : points Q := mkNd [2%nat] [(0, 0, 0); (3, 4, 0)]%Q in
   let B : points Q := mkNd [3%nat] [(0, 0, 0); (3, 4, 12); (3, 0, 0)]%Q in
   (distance_pairwise_points NumQ A B None 6 1 (fun l => l),
    distance_pairwise_points NumQ A B (Some (2%nat, 3%nat, [[99; 99; 99]; [99; 99; 99]]%Q)) 1 2 (@rev _),
    distance_pairwise_points NumQ P B None 6 1 (fun l => l),
    distance_pairwise_points NumQ A B (Some (3%nat, 2%nat, [])) 6 1 (fun l => l)))
  = (inr [[0; 13; 3]; [5; 12; 4]]%Q, inr [[0; 13; 3]; [5; 12; 4]]%Q, inl InvalidDimension, inl InvalidShape).
Proof. vm_compute. repeat split. Qed.
Local Close Scope Q_scope.
