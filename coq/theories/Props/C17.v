(* Props/C17.v — Coordinate changes are exact isometries; grids and distances are
   as specified.  Statements only; proofs are in Proofs/Vec3Proofs.v and
   Proofs/Geometry{,Grid,Angle}Proofs.v.  All statements are about the real-number
   instance NumR of Model/Geometry.v (exact arithmetic; rounding is outside, see the
   harness for the binary64 correspondence).

   Vocabulary (Model/Vec3.v): a matrix is a triple of rows; `orthonormal B` means
   B.B^T = I and B^T.B = I; `proper_rotation R` means orthonormal and det R = 1;
   `vdist` is the Euclidean distance.
   Not covered by any theorem: numpy's broadcasting / memory layout of point arrays
   (the model is per point and mapped over lists), numpy.linalg.solve (an oracle). *)
From Coq Require Import List Reals ZArith Bool Lra.
From Arim Require Import Base.Num Base.NumR Model.Vec3 Model.Geometry Proofs.Vec3Proofs
  Proofs.GeometryProofs Proofs.GeometryGridProofs Proofs.GeometryAngleProofs.
Import ListNotations.
Local Open Scope R_scope.

(* ---- frame changes ---------------------------------------------------------- *)
(* to_gcs and from_gcs are mutually inverse (both orders) for every orthonormal
   frame and every origin *)
Theorem to_from_gcs_inverse : forall B o p, orthonormal NumR B ->
  from_gcs NumR B o (to_gcs NumR B o p) = p /\ to_gcs NumR B o (from_gcs NumR B o p) = p.
Proof. intros B o p [Hr Hc]. split; [exact (from_to_gcs_R B o p Hr) | exact (to_from_gcs_R B o p Hc)]. Qed.

(* ... and both preserve every distance *)
Theorem from_gcs_isometry : forall B o p q, orthonormal NumR B ->
  vdist NumR (from_gcs NumR B o p) (from_gcs NumR B o q) = vdist NumR p q
  /\ vdist NumR (to_gcs NumR B o p) (to_gcs NumR B o q) = vdist NumR p q.
Proof. intros B o p q [Hr Hc]. split; [exact (from_gcs_dist_R B o p q Hc) | exact (to_gcs_dist_R B o p q Hr)]. Qed.

(* whole arrays through a single frame *)
Theorem to_from_gcs_inverse_array : forall B o ps, orthonormal NumR B ->
  from_gcs_all NumR B o (to_gcs_all NumR B o ps) = ps /\ to_gcs_all NumR B o (from_gcs_all NumR B o ps) = ps.
Proof. exact from_to_gcs_all_R. Qed.

(* whole arrays with one frame (basis, origin) per point: l lists (basis, origin, point) *)
Theorem to_from_gcs_inverse_per_point : forall l : list (mat3 R * vec3 R * vec3 R),
  Forall (fun f => orthonormal NumR (frame_of f)) l ->
  from_gcs_each NumR (map (fun f => with_point f (to_gcs NumR (fst (fst f)) (snd (fst f)) (snd f))) l) = map snd l
  /\ to_gcs_each NumR (map (fun f => with_point f (from_gcs NumR (fst (fst f)) (snd (fst f)) (snd f))) l) = map snd l.
Proof. exact from_to_gcs_each_R. Qed.

(* broadcasting one frame to every point is the per-point conversion with equal frames
   (every numeric instance, floats included) *)
Theorem single_frame_is_broadcast : forall (T : Type) (N : Num T) (B : mat3 T) (o : vec3 T) (cs : list (vec3 T)),
  to_gcs_each N (map (fun c => (B, o, c)) cs) = to_gcs_all N B o cs /\
  from_gcs_each N (map (fun c => (B, o, c)) cs) = from_gcs_all N B o cs.
Proof. exact @each_of_broadcast. Qed.

(* it is enough to check that the rows (the local axes) are orthonormal *)
Theorem orthonormal_rows_suffice : forall B, rows_orthonormal NumR B -> orthonormal NumR B.
Proof. exact orthonormal_of_rows. Qed.

(* ... i.e. that the three local axes are unit vectors orthogonal to each other *)
Theorem orthonormal_rows_meaning : forall a b c : vec3 R,
  rows_orthonormal NumR (a, b, c) <->
  vdot NumR a a = 1 /\ vdot NumR b b = 1 /\ vdot NumR c c = 1 /\
  vdot NumR a b = 0 /\ vdot NumR a c = 0 /\ vdot NumR b c = 0.
Proof. exact rows_orthonormal_iff. Qed.

(* the table of pairwise distances of two point arrays is unchanged by from_gcs / to_gcs *)
Theorem frame_change_preserves_distance_table : forall B o ps qs, orthonormal NumR B ->
  distance_table NumR (from_gcs_all NumR B o ps) (from_gcs_all NumR B o qs) = distance_table NumR ps qs
  /\ distance_table NumR (to_gcs_all NumR B o ps) (to_gcs_all NumR B o qs) = distance_table NumR ps qs.
Proof. exact distance_table_from_gcs. Qed.

(* CoordinateSystem.convert_from_gcs / convert_to_gcs are the frame changes of the
   frame whose axes are (i_hat, j_hat, i_hat x j_hat), a direct orthonormal frame
   whenever i_hat, j_hat are orthogonal unit vectors *)
Theorem coordinate_system_is_frame_change : forall o i j p,
  cs_convert_from_gcs NumR o i j p = from_gcs NumR (cs_axes NumR i j) o p /\
  cs_convert_to_gcs NumR o i j p = to_gcs NumR (cs_axes NumR i j) o p /\
  (vdot NumR i i = 1 -> vdot NumR j j = 1 -> vdot NumR i j = 0 -> proper_rotation NumR (cs_axes NumR i j)).
Proof.
  intros o i j p. split; [exact (cs_convert_from_is_from_gcs o i j p)|].
  split; [exact (cs_convert_to_is_to_gcs o i j p) | exact (cs_axes_proper i j)].
Qed.

(* rotate (about a centre or about the origin) preserves distances; the centre is fixed *)
Theorem rotate_isometry : forall R ce p q, orthonormal NumR R ->
  vdist NumR (rotate NumR R ce p) (rotate NumR R ce q) = vdist NumR p q.
Proof. intros R ce p q [_ Hc]. exact (rotate_dist_R R ce p q Hc). Qed.

Theorem rotate_fixes_centre : forall R ce, rotate NumR R (Some ce) ce = ce.
Proof. exact rotate_centre_fixed_R. Qed.

(* ---- rotation matrices -------------------------------------------------------- *)
(* each elementary matrix and yaw-pitch-roll satisfy R R^T = R^T R = I, det R = 1,
   for any (cos, sin) pairs on the unit circle ... *)
Theorem rotation_proper : forall cy sy cp sp cr sr,
  cy * cy + sy * sy = 1 -> cp * cp + sp * sp = 1 -> cr * cr + sr * sr = 1 ->
  proper_rotation NumR (rot_x_cs NumR cr sr) /\ proper_rotation NumR (rot_y_cs NumR cp sp) /\
  proper_rotation NumR (rot_z_cs NumR cy sy) /\ proper_rotation NumR (rot_ypr_cs NumR cy sy cp sp cr sr).
Proof.
  intros cy sy cp sp cr sr Hy Hp Hr.
  split; [exact (rot_x_proper cr sr Hr)|]. split; [exact (rot_y_proper cp sp Hp)|].
  split; [exact (rot_z_proper cy sy Hy) | exact (rot_ypr_proper cy sy cp sp cr sr Hy Hp Hr)].
Qed.

(* ... in particular for every angle *)
Theorem rotation_proper_angles : forall yaw pitch roll,
  proper_rotation NumR (rotation_matrix_x NumR roll) /\ proper_rotation NumR (rotation_matrix_y NumR pitch) /\
  proper_rotation NumR (rotation_matrix_z NumR yaw) /\ proper_rotation NumR (rotation_matrix_ypr NumR yaw pitch roll).
Proof.
  intros yaw pitch roll. split; [exact (rotation_matrix_x_proper roll)|]. split; [exact (rotation_matrix_y_proper pitch)|].
  split; [exact (rotation_matrix_z_proper yaw) | exact (rotation_matrix_ypr_proper yaw pitch roll)].
Qed.

(* orientation (sign of sin): x-rotation sends y to (0,c,s), y-rotation sends z to
   (s,0,c), z-rotation sends x to (c,s,0) *)
Theorem rotation_orientation : forall c s,
  mvec NumR (rot_x_cs NumR c s) (0, 1, 0) = (0, c, s) /\
  mvec NumR (rot_y_cs NumR c s) (0, 0, 1) = (s, 0, c) /\
  mvec NumR (rot_z_cs NumR c s) (1, 0, 0) = (c, s, 0).
Proof. intros c s. split; [exact (rot_x_action c s)|]. split; [exact (rot_y_action c s) | exact (rot_z_action c s)]. Qed.

(* ---- direct isometries ----------------------------------------------------------- *)
(* 2-D: for A <> B and |AB| = |A'B'| the returned (M, P) is a proper rotation of the
   plane (M = [[c,-s],[s,c]], c^2+s^2 = 1) with M A + P = A' and M B + P = B' *)
Theorem isometry2d_maps : forall A B Ap Bp : vec2 R,
  let AB := v2sub NumR B A in let ApBp := v2sub NumR Bp Ap in
  0 < fst AB * fst AB + snd AB * snd AB ->
  fst AB * fst AB + snd AB * snd AB = fst ApBp * fst ApBp + snd ApBp * snd ApBp ->
  exists c s P, direct_isometry_2d NumR A B Ap Bp = Some (rot2_cs NumR c s, P) /\
    c * c + s * s = 1 /\
    v2add NumR (m2vec NumR (rot2_cs NumR c s) A) P = Ap /\
    v2add NumR (m2vec NumR (rot2_cs NumR c s) B) P = Bp.
Proof. exact isometry2d_R. Qed.

(* whatever the input (also when the lengths agree only up to numpy.isclose), a returned
   (M, P) is a proper plane rotation with M B + P = B' *)
Theorem isometry2d_result_is_rotation : forall (A B Ap Bp : vec2 R) M P,
  direct_isometry_2d NumR A B Ap Bp = Some (M, P) ->
  exists c s, M = rot2_cs NumR c s /\ c * c + s * s = 1 /\ v2add NumR (m2vec NumR M B) P = Bp.
Proof. exact isometry2d_result_R. Qed.

(* 3-D: numpy.linalg.solve is an oracle `solve` with A.(solve A b) = b for invertible
   A.  For orthogonal unit (i, j) and (u, v) the returned (M, P) is a proper rotation
   sending i, j, i x j to u, v, u x v and the point A to B; M is the closed form
   [u v w] [i j k]^T *)
Theorem isometry3d_maps : forall solve : mat3 R -> mat3 R -> mat3 R,
  (forall a b, mdet NumR a <> 0 -> mmul NumR a (solve a b) = b) ->
  forall A i j B u v : vec3 R,
  vdot NumR i i = 1 -> vdot NumR j j = 1 -> vdot NumR i j = 0 ->
  vdot NumR u u = 1 -> vdot NumR v v = 1 -> vdot NumR u v = 0 ->
  exists M P, direct_isometry_3d NumR solve A i j B u v = Some (M, P) /\
    proper_rotation NumR M /\
    mvec NumR M i = u /\ mvec NumR M j = v /\ mvec NumR M (vcross NumR i j) = vcross NumR u v /\
    vadd NumR (mvec NumR M A) P = B /\
    M = mmul NumR (mtrans (u, v, vcross NumR u v)) (i, j, vcross NumR i j).
Proof. exact isometry3d_R. Qed.

(* the oracle's specification is satisfiable (Cramer's rule, the instance executed by
   the correspondence harness) *)
Theorem solve_oracle_realizable : forall a b, mdet NumR a <> 0 -> mmul NumR a (solve_cramer NumR a b) = b.
Proof. exact solve_cramer_spec. Qed.

(* ---- spherical coordinates --------------------------------------------------------- *)
(* At the origin the code evaluates arccos(0/0): NaN in binary64, whereas Coq's total
   real division would give acos 0.  The statements about theta and about the inverse
   map are therefore restricted to r > 0 (every point but the origin); r >= 0 and the
   range of phi = arctan2(y, x) hold everywhere. *)
Theorem spherical_ranges : forall p : vec3 R,
  let '(r, theta, phi) := spherical_coordinates NumR p in
  0 <= r /\ - PI <= phi <= PI /\ (0 < r -> 0 <= theta <= PI).
Proof.
  intros p. pose proof (spherical_ranges_R p) as H. destruct (spherical_coordinates NumR p) as [[r theta] phi].
  destruct H as (H1 & H2 & H3). split; [exact H1|]. split; [exact H3 | intros _; exact H2].
Qed.

(* r = 0 only at the origin *)
Theorem spherical_r_zero_iff_origin : forall p : vec3 R,
  let '(r, theta, phi) := spherical_coordinates NumR p in r = 0 <-> p = (0, 0, 0).
Proof. exact spherical_r_zero_R. Qed.

Theorem spherical_inverse_z : forall p : vec3 R,
  let '(r, theta, phi) := spherical_coordinates NumR p in 0 < r -> r * cos theta = vz p.
Proof. exact spherical_inverse_z_R. Qed.

Theorem spherical_inverse_xy : forall p : vec3 R,
  let '(r, theta, phi) := spherical_coordinates NumR p in
  0 < r -> r * sin theta * cos phi = vx p /\ r * sin theta * sin phi = vy p.
Proof.
  intros p. pose proof (spherical_inverse_xy_R p) as H. destruct (spherical_coordinates NumR p) as [[r theta] phi].
  intros _. exact H.
Qed.

(* ---- distance table ------------------------------------------------------------------ *)
Theorem distance_table_spec : forall (ps qs : list (vec3 R)) i j,
  (i < length ps)%nat -> (j < length qs)%nat ->
  let p := nth i ps (0, 0, 0) in let q := nth j qs (0, 0, 0) in
  nth j (nth i (distance_table NumR ps qs) []) 0
  = sqrt ((vx p - vx q) * (vx p - vx q) + (vy p - vy q) * (vy p - vy q) + (vz p - vz q) * (vz p - vz q)).
Proof. intros ps qs i j Hi Hj. cbv zeta. rewrite (distance_table_nth ps qs i j Hi Hj). apply vdist_formula. Qed.

Theorem distance_table_shape : forall ps qs : list (vec3 R),
  length (distance_table NumR ps qs) = length ps /\
  Forall (fun row => length row = length qs) (distance_table NumR ps qs).
Proof. exact distance_table_dims. Qed.

(* ---- grids ------------------------------------------------------------------------------ *)
(* the number of points of an axis is an integer nearest to L/d + 1 (L = |max - min|) *)
Theorem grid_count : forall lo hi d, 0 < d ->
  Rabs (IZR (grid_numpoints NumR lo hi d) - (Rabs (hi - lo) / d + 1)) <= / 2.
Proof. exact grid_numpoints_nearest. Qed.

(* a non-degenerate axis whose pixel size does not exceed its length has N >= 2 points,
   starts at min, ends at max ... *)
Theorem grid_contains_bounds : forall lo hi d, lo <> hi -> 0 < d -> d <= Rabs (hi - lo) ->
  let n := grid_numpoints NumR lo hi d in
  (2 <= n)%Z /\ exists xs, grid_axis NumR lo hi d = Some xs /\ length xs = Z.to_nat n /\
    nth 0 xs 0 = lo /\ nth (Z.to_nat n - 1) xs 0 = hi.
Proof.
  intros lo hi d Hne Hd HL. destruct (grid_axis_regular lo hi d Hne Hd HL) as (Hn & xs & H1 & H2 & _ & H4 & H5).
  split; [exact Hn|]. exists xs. repeat split; assumption.
Qed.

(* ... and is evenly spaced: point i is min + i (max - min)/(N - 1) *)
Theorem grid_even_spacing : forall lo hi d, lo <> hi -> 0 < d -> d <= Rabs (hi - lo) ->
  let n := grid_numpoints NumR lo hi d in
  exists xs, grid_axis NumR lo hi d = Some xs /\
    forall i, (i < Z.to_nat n)%nat -> nth i xs 0 = lo + INR i * ((hi - lo) / IZR (n - 1)).
Proof.
  intros lo hi d Hne Hd HL. destruct (grid_axis_regular lo hi d Hne Hd HL) as (_ & xs & H1 & _ & H3 & _).
  exists xs. split; assumption.
Qed.

Theorem grid_degenerate_axis : forall lo d, grid_axis NumR lo lo d = Some [lo].
Proof. exact grid_axis_degenerate. Qed.

(* x-major (C) order: the flat index of grid point (ix, iy, iz) is (ix ny + iy) nz + iz
   (any element type: also true of the float instances) *)
Theorem grid_order : forall (T : Type) (xs ys zs : list T) ix iy iz (d : T),
  (ix < length xs)%nat -> (iy < length ys)%nat -> (iz < length zs)%nat ->
  nth ((ix * length ys + iy) * length zs + iz) (flatten_c (meshgrid_ij xs ys zs)) (d, d, d)
  = (nth ix xs d, nth iy ys d, nth iz zs d)
  /\ nth iz (nth iy (nth ix (meshgrid_ij xs ys zs) []) []) (d, d, d) = (nth ix xs d, nth iy ys d, nth iz zs d)
  /\ length (flatten_c (meshgrid_ij xs ys zs)) = (length xs * length ys * length zs)%nat.
Proof.
  intros T xs ys zs ix iy iz d Hx Hy Hz. split; [exact (flatten_meshgrid_nth xs ys zs ix iy iz d Hx Hy Hz)|].
  split; [exact (meshgrid_nth xs ys zs ix iy iz d Hx Hy Hz) | exact (flatten_meshgrid_length xs ys zs)].
Qed.

(* the whole Grid is the 'ij' meshgrid of its three axis vectors and to_1d_points is its
   x-major flattening, for every numeric instance (floats included); it raises iff an
   axis raises *)
Theorem grid_is_meshgrid_of_axes : forall (T : Type) (N : Num T) xmin xmax ymin ymax zmin zmax dx dy dz g,
  grid N xmin xmax ymin ymax zmin zmax dx dy dz = Some g ->
  grid_axis N xmin xmax dx = Some (g_xvect g) /\ grid_axis N ymin ymax dy = Some (g_yvect g) /\
  grid_axis N zmin zmax dz = Some (g_zvect g) /\
  g_coords g = meshgrid_ij (g_xvect g) (g_yvect g) (g_zvect g) /\
  grid_to_1d_points g = flatten_c (meshgrid_ij (g_xvect g) (g_yvect g) (g_zvect g)).
Proof. exact @grid_structure. Qed.

Theorem grid_raises_iff_axis_raises : forall (T : Type) (N : Num T) xmin xmax ymin ymax zmin zmax dx dy dz,
  grid N xmin xmax ymin ymax zmin zmax dx dy dz = None <->
  grid_axis N xmin xmax dx = None \/ grid_axis N ymin ymax dy = None \/ grid_axis N zmin zmax dz = None.
Proof. exact @grid_none_iff. Qed.

(* grid_centred_at_point is the Grid of the box centre -+ size/2 with steps size/(n-1);
   it raises for a negative size or a zero pixel size *)
Theorem grid_centred_is_grid : forall cx cy cz sx sy sz px, 0 <= sx -> 0 <= sy -> 0 <= sz -> px <> 0 ->
  grid_centred_at_point NumR cx cy cz sx sy sz px =
  grid NumR (cx - sx / 2) (cx + sx / 2) (cy - sy / 2) (cy + sy / 2) (cz - sz / 2) (cz + sz / 2)
       (centred_step NumR sx (centred_numpoints NumR sx px))
       (centred_step NumR sy (centred_numpoints NumR sy px))
       (centred_step NumR sz (centred_numpoints NumR sz px)).
Proof. exact grid_centred_unfold. Qed.

Theorem grid_centred_rejects_bad_input : forall cx cy cz sx sy sz px, sx < 0 \/ sy < 0 \/ sz < 0 \/ px = 0 ->
  grid_centred_at_point NumR cx cy cz sx sy sz px = None.
Proof. exact grid_centred_rejects. Qed.

(* grid_centred_at_point, one axis of positive size s: the number of points n is odd,
   >= 3, at least s/pixel + 1 (so the actual spacing s/(n-1) does not exceed the
   requested pixel size), the axis is evenly spaced from c - s/2 and its middle point
   is exactly the centre *)
Theorem grid_centred_odd_and_centre : forall c s p, 0 < s -> 0 < p ->
  let n := centred_numpoints NumR s p in
  (Z.odd n = true /\ (3 <= n)%Z /\ s / p + 1 <= IZR n < s / p + 3) /\
  exists xs, grid_axis NumR (c - s / 2) (c + s / 2) (centred_step NumR s n) = Some xs /\
    length xs = Z.to_nat n /\
    (forall i, (i < Z.to_nat n)%nat -> nth i xs 0 = (c - s / 2) + INR i * (s / IZR (n - 1))) /\
    nth (Z.to_nat ((n - 1) / 2)) xs 0 = c.
Proof. intros c s p Hs Hp. split; [exact (centred_numpoints_R s p Hs Hp) | exact (centred_axis_R c s p Hs Hp)]. Qed.

(* an axis of size 0 is the single point c *)
Theorem grid_centred_degenerate : forall c p,
  grid_axis NumR (c - 0 / 2) (c + 0 / 2) (centred_step NumR 0 (centred_numpoints NumR 0 p)) = Some [c - 0 / 2]
  /\ c - 0 / 2 = c.
Proof. exact centred_axis_degenerate. Qed.

(* ---- box selector ---------------------------------------------------------------------------- *)
(* for every one of the 64 subsets of supplied bounds (None = not supplied): the mask is
   true exactly when every supplied bound holds, inclusively *)
Theorem rectbox_spec : forall (xmin xmax ymin ymax zmin zmax : option R) (p : vec3 R),
  in_rectbox NumR xmin xmax ymin ymax zmin zmax p = true <->
  (forall b, xmin = Some b -> b <= vx p) /\ (forall b, xmax = Some b -> vx p <= b) /\
  (forall b, ymin = Some b -> b <= vy p) /\ (forall b, ymax = Some b -> vy p <= b) /\
  (forall b, zmin = Some b -> b <= vz p) /\ (forall b, zmax = Some b -> vz p <= b).
Proof. exact in_rectbox_spec. Qed.

Theorem rectbox_pointwise : forall xmin xmax ymin ymax zmin zmax (ps : list (vec3 R)) i, (i < length ps)%nat ->
  nth i (points_in_rectbox NumR xmin xmax ymin ymax zmin zmax ps) false
  = in_rectbox NumR xmin xmax ymin ymax zmin zmax (nth i ps (0, 0, 0)).
Proof. exact points_in_rectbox_nth. Qed.

(* ---- non-vacuity -------------------------------------------------------------------------------- *)
(* a yaw-pitch-roll matrix with Pythagorean (cos, sin) pairs is a proper rotation *)
Example ypr_example_is_proper :
  proper_rotation NumR (rot_ypr_cs NumR (3 / 5) (4 / 5) (5 / 13) (12 / 13) (8 / 17) (15 / 17)).
Proof. apply rot_ypr_proper; lra. Qed.

(* an orthonormal frame that is NOT a proper rotation (a reflection) is accepted by the
   frame-change theorems *)
Example reflection_is_orthonormal : orthonormal NumR ((0, 1, 0), (1, 0, 0), (0, 0, 1)) /\
  mdet NumR ((0, 1, 0), (1, 0, 0), (0, 0, 1)) = -1.
Proof.
  split; [apply orthonormal_of_rows; v3_start; v3_split; ring | v3_start; ring].
Qed.

(* [0, 1] with pixel 1/4 has 5 points; the half-way case (1.5 + 1)/1 = 2.5 rounds to the
   even integer 2 (Python's round), not 3 *)
Example grid_count_example : grid_numpoints NumR 0 1 (/ 4) = 5%Z /\ grid_numpoints NumR 0 (3 / 2) 1 = 2%Z.
Proof. split; [exact grid_numpoints_example | exact grid_numpoints_half_even]. Qed.

(* the hypotheses of isometry3d_maps are satisfiable: the canonical frames *)
Example isometry3d_hypotheses_satisfiable :
  vdot NumR (1, 0, 0) (1, 0, 0) = 1 /\ vdot NumR (0, 1, 0) (0, 1, 0) = 1 /\ vdot NumR (1, 0, 0) (0, 1, 0) = 0.
Proof. v3_start. repeat split; ring. Qed.
