(* Props/C14.v — Ray-geometry caching is transparent for every sequence of queries.
   Only statements; every proof is `exact <lemma>` (lemmas in Proofs/CacheProofs.v).

   Model (Model/Cache.v): `run ifs use_cache ops` executes a history `ops`
   (Query m raw is_final | ClearInter | ClearAll | Pre [queries] (a precompute()
   block) | Client c (beamspread / reverse beamspread / transmission-reflection /
   reverse) | Mutate i (in-place write into the object answered at trace position i))
   on a RayGeometry with interfaces `ifs` (any number; per interface the two
   normal-side flags None/True/False) and returns the chronological trace of
   entries (answer handle, observation, state after) and the final state.
   `spec ifs m raw` is the closed-form answer (array contents as a symbolic term,
   read-only; None; IndexError; ValueError) that depends on the RESOLVED index only;
   `spec_run` lifts it to histories without any state.

   The model describes /repo as it is now (after fix 37f2364: the inc_* methods test
   the resolved index against 0).  Hence the unconditional statements hold and the
   obsolete `cache_transparent_refuted` of DESIGN §5 is not stated.  All raw-vs-resolved
   index uses of the source (interface_idx - 1, interface_idx + 1,
   self.interfaces[interface_idx], rays.indices[interface_idx]) are modelled with the raw
   index and Python indexing; the theorems show that no asymmetry remains.

   Not covered by these theorems (sampled by harness/prop_C14.py): that numpy's
   writeable flag makes in-place writes fail; numeric contents of the arrays; a caller
   deliberately resetting flags.writeable. *)
From Coq Require Import ZArith List Bool.
From Arim Require Import Model.Cache Proofs.CacheProofs.
Import ListNotations.
Open Scope Z_scope.

(* cache_inv: in every reachable state (after the history and after each of its steps,
   for a Cache as for a NoCache object) every cached value is a READ-ONLY object whose
   contents are the fresh answer for its key (or None exactly when the fresh answer is
   None), keys are resolved indices in [0, n), and (Cache) finals ⊆ keys. *)
Theorem cache_inv : forall ifs uc ops,
  state_ok ifs uc (snd (run ifs uc ops)) /\
  Forall (fun e => state_ok ifs uc (e_state e)) (fst (run ifs uc ops)).
Proof. exact cache_inv_all. Qed.

(* cache_transparent: for EVERY history the observations (array contents + writeable
   flag, None, error kind, client results, outcome of write attempts) are those
   computed statelessly from the closed-form answers — with a cache or without. *)
Theorem cache_transparent : forall ifs uc ops,
  map e_obs (fst (run ifs uc ops)) = spec_run ifs ops.
Proof. exact transparent_all. Qed.

(* ... and the closed form IS the answer of a fresh use_cache=False object *)
Theorem spec_is_fresh_uncached_answer : forall ifs m raw is_final,
  map e_obs (fst (run ifs false [Query m raw is_final])) = [spec ifs m raw].
Proof. exact fresh_uncached_is_spec. Qed.

(* same history on a cached and on an uncached object: same observations *)
Theorem cached_equals_uncached : forall ifs ops,
  map e_obs (fst (run ifs true ops)) = map e_obs (fst (run ifs false ops)).
Proof. exact cached_equals_uncached_all. Qed.

(* neg_index_interchangeable: rewriting every query index to its non-negative spelling
   changes NOTHING: same trace (answers, object identities, observations, intermediate
   states) and same final state; pointwise: idx and idx + n give the same call result
   from every state and the same fresh answer, for -n <= idx < 0. *)
Theorem neg_index_interchangeable : forall ifs uc ops,
  run ifs uc (map (norm_op ifs) ops) = run ifs uc ops.
Proof. exact neg_index_runs. Qed.

Theorem neg_index_same_call : forall ifs uc m raw is_final s,
  - numif ifs <= raw < 0 ->
  call ifs uc m raw is_final s = call ifs uc m (raw + numif ifs) is_final s /\
  spec ifs m raw = spec ifs m (raw + numif ifs).
Proof. exact neg_index_call. Qed.

(* every array handed out by any step of any history is read-only *)
Theorem answers_readonly : forall ifs uc ops e t w,
  In e (fst (run ifs uc ops)) -> e_obs e = OVal t w -> w = false.
Proof. exact answers_readonly_all. Qed.

(* mutate_fails: after any history, an in-place write into any object that a query has
   answered raises and leaves the whole state (cache, finals, heap) unchanged *)
Theorem mutate_fails : forall ifs uc ops i e h,
  nth_error (fst (run ifs uc ops)) i = Some e -> e_ans e = AVal h ->
  step ifs uc (fst (run ifs uc ops)) (snd (run ifs uc ops)) (Mutate i)
  = ([mk_entry (AErr EReadOnly) (snd (run ifs uc ops))], snd (run ifs uc ops)).
Proof. exact mutate_fails_all. Qed.

(* clear_keeps_finals: clear_intermediate_results keeps exactly the final entries,
   with their values, and touches neither the finals nor any array *)
Theorem clear_keeps_finals : forall s k,
  s_finals (clear_inter s) = s_finals s /\ s_heap (clear_inter s) = s_heap s /\
  (mem_key k (s_finals s) = true -> lookup k (s_cache (clear_inter s)) = lookup k (s_cache s)) /\
  (mem_key k (s_finals s) = false -> lookup k (s_cache (clear_inter s)) = None).
Proof. exact clear_keeps_finals_all. Qed.

(* ---- non-vacuity ---- *)
(* ex_ifs (Model/Cache.v): 3 interfaces with (inc, out) normal-side flags
   (None, True), (False, None), (True, None) *)
(* the history of former finding F5 now answers None twice (cached or not) *)
Example f5_history_now_consistent :
  map e_obs (fst (run ex_ifs true [Query MIncLegSize 0 true; Query MIncLegSize (-3) true]))
  = [ONone; ONone] /\
  map e_obs (fst (run ex_ifs false [Query MIncLegSize (-3) true])) = [ONone].
Proof. vm_compute. split; reflexivity. Qed.

(* values, aliasing, errors, a refused write, a clear and a client in one history *)
Example mixed_history :
  map (fun e => (answer_code (e_ans e), match e_ans e with AVal h => Z.of_nat h | _ => -1 end))
      (fst (run ex_ifs true
              [Query MIncAngle 1 true; Query MIncLegPolar (-2) false; Query MConvInc 1 true;
               Query MConvOut 1 true; Query MLegPoints 3 true; Mutate 0; ClearInter;
               Client 0; Query MConvInc 0 true]))
  = [(1, 5); (1, 5); (1, 6); (3, -1); (2, -1); (5, -1); (4, -1); (7, -1); (0, -1)].
Proof. vm_compute. reflexivity. Qed.

Example mixed_history_keys :
  map (fun k => (meth_code (fst k), snd k))
      (keys_of (snd (run ex_ifs true
              [Query MIncAngle 1 true; Query MSignedInc 1 false; ClearInter; Query MConvInc 2 true])))
  = [(9, 2); (5, 2); (4, 2); (3, 2); (1, 2); (0, 2); (0, 1); (7, 1)].
Proof. vm_compute. reflexivity. Qed.

(* a client result in closed form: beamspread on 3 interfaces *)
Example beamspread_client :
  spec_client ex_ifs 0 =
  OClient [TPiMinus (t_polar (t_inc_cart 1));
           TIadd (TNormDiff (pts 0) (pts 1)) (TNormDiff (pts 1) (pts 2))].
Proof. vm_compute. reflexivity. Qed.

(* ====================================================================== *)
(* Extension: the call graph as data, the bookkeeping of helpers.Cache /    *)
(* NoCache, the literal dictionary keys, from_path and several objects.    *)
(* Model/CacheGraph.v, Proofs/CacheGraphProofs.v.  All axiom-free.          *)
(*                                                                          *)
(* `icall` is ONE interpreter of the table `shape_of` (which cached methods *)
(* a method calls, in source order, with which index, where it returns None *)
(* or raises) whose wrapper also performs Cache.__getitem__ / __setitem__ / *)
(* NoCache.__setitem__ (hits, misses, counter, ignored, the reassignment    *)
(* warning); `irun` runs histories with it.  `kcall` / `krun`               *)
(* evaluate the same table on LISTS OF KEYS only (no arrays, no heap).      *)
(* ====================================================================== *)
From Coq Require Import String.
From Arim Require Import Model.CacheGraph Proofs.CacheGraphProofs.

(* the literal dictionary keys f"{name}:{idx}" identify (method, index): two different
   methods, or two different indices, never share a key; the 17 names are distinct *)
Theorem cache_key_strings_injective : forall k k', key_string k = key_string k' -> k = k'.
Proof. exact key_string_inj. Qed.

Theorem cache_method_names_distinct : NoDup (map meth_name all_meths).
Proof. exact meth_names_nodup. Qed.

(* the table-driven interpreter IS the machine of Model/Cache.v once the bookkeeping is
   forgotten — for every one of the 17 methods, every index, every state; hence every
   theorem above (cache_inv, cache_transparent, ...) speaks about it too *)
Theorem graph_interpreter_refines_call : forall ifs uc m raw f x,
  erase (icall ifs uc m raw f x) = call ifs uc m raw f (fst x).
Proof. exact icall_refines_call. Qed.

Theorem instrumented_run_refines_run : forall ifs uc ops,
  (fst (irun ifs uc ops), fst (snd (irun ifs uc ops))) = run ifs uc ops.
Proof. exact irun_refines_run. Qed.

(* the call graph is acyclic (a callee has strictly smaller rank), stays inside the path
   (valid index -> valid callee indices: the `idx - 1` / `idx + 1` uses are guarded by the
   first / last tests) and no callee ever raises *)
Theorem call_graph_acyclic_in_range : forall ifs m a d,
  In d (callees ifs m a) ->
  (rank (fst d) < rank m)%nat /\ (0 <= a < numif ifs -> 0 <= snd d < numif ifs) /\
  raises ifs (fst d) (snd d) = false.
Proof. exact callees_acyclic_in_range. Qed.

(* cached evaluation = pure recursive evaluation of the call graph.
   After ANY history, a further query (any method, any index spelling, final or not) changes
   (cached keys in dictionary order, final keys, hits/misses/ignored/counter/warnings)
   exactly as `kquery` says, and raises exactly when `kquery` says so ... *)
Theorem query_is_graph_evaluation : forall ifs uc ops m raw f,
  let x := snd (irun ifs uc ops) in
  let p := icall ifs uc m raw f x in
  abs (snd p) = snd (kquery ifs uc m raw f (krun ifs uc ops)) /\
  is_err (fst p) = fst (kquery ifs uc m raw f (krun ifs uc ops)).
Proof. exact CacheGraphProofs.query_is_graph_evaluation. Qed.

(* ... and so, for every history (queries, both clears, precompute blocks, the four model
   clients, write attempts), the keys of _cache IN DICTIONARY ORDER (most recent first),
   _final_keys and the counters are those of the pure fold `krun` *)
Theorem history_is_graph_fold : forall ifs uc ops,
  keys_of (snd (run ifs uc ops)) = k_keys (krun ifs uc ops) /\
  s_finals (snd (run ifs uc ops)) = k_finals (krun ifs uc ops) /\
  snd (snd (irun ifs uc ops)) = k_stats (krun ifs uc ops).
Proof. exact CacheGraphProofs.history_is_graph_fold. Qed.

(* "Cache never reassigns" (DESIGN §9.6: was only checked at run time): in no history is
   `self._cache[key] = res` executed for a key that is already present, so the warning
   "Reassigning a cached value" of Cache.__setitem__ is never emitted *)
Theorem cache_never_reassigns : forall ifs uc ops, st_warn (snd (snd (irun ifs uc ops))) = 0.
Proof. exact never_reassigns. Qed.

(* at most one entry per (method, interface): never more than 17 * numinterfaces entries *)
Theorem cache_entries_bounded : forall ifs uc ops,
  NoDup (keys_of (snd (run ifs uc ops))) /\
  (List.length (s_cache (snd (run ifs uc ops))) <= 17 * List.length ifs)%nat /\
  Forall (fun k => In (fst k) all_meths /\ 0 <= snd k < numif ifs) (keys_of (snd (run ifs uc ops))).
Proof. exact entries_bounded. Qed.

(* a use_cache=False object never holds an entry, whatever the history *)
Theorem nocache_retains_nothing : forall ifs ops, s_cache (snd (run ifs false ops)) = [].
Proof. exact CacheGraphProofs.nocache_retains_nothing. Qed.

(* the counters: hits = size of `counter`; every stored entry (Cache) / every ignored store
   (NoCache) was a miss; NoCache never hits; Cache never ignores and never warns in precompute *)
Theorem cache_counters_consistent : forall ifs uc ops,
  let y := krun ifs uc ops in
  let st := snd (snd (irun ifs uc ops)) in
  st_hits st = Z.of_nat (List.length (st_counter st)) /\
  (if uc then Z.of_nat (List.length (k_keys y)) else st_ignored st) <= st_misses st /\
  (uc = false -> st_hits st = 0 /\ st_counter st = []) /\
  (uc = true -> st_ignored st = 0 /\ st_prewarn st = 0).
Proof. exact counters_consistent. Qed.

(* every value is computed at most once per query: the misses of one query are exactly the
   entries it adds (Cache) / the stores it ignores (NoCache), plus one if its body raises *)
Theorem query_miss_accounting : forall ifs uc m a (y : list key * stats),
  let y1 := kcall ifs uc 5 (m, a) y in
  (if uc then Z.of_nat (List.length (fst y1)) - Z.of_nat (List.length (fst y))
   else st_ignored (snd y1) - st_ignored (snd y))
  + (if uc && mem_key (m, a) (fst y) then 0 else if raises ifs m a then 1 else 0)
  = st_misses (snd y1) - st_misses (snd y).
Proof. exact miss_accounting. Qed.

(* precompute() warns exactly once per block on a use_cache=False object, never otherwise *)
Theorem precompute_warning_count : forall ifs uc ops,
  st_prewarn (snd (snd (irun ifs uc ops))) = if uc then 0 else count_pre ops.
Proof. exact precompute_warnings. Qed.

(* clear_all_results brings the object back to the state of a new one: keys and finals
   after `ops; clear_all_results(); ops'` are those after `ops'` alone *)
Theorem clear_all_results_is_fresh : forall ifs uc ops ops',
  keys_of (snd (run ifs uc (ops ++ ClearAll :: ops'))) = keys_of (snd (run ifs uc ops')) /\
  s_finals (snd (run ifs uc (ops ++ ClearAll :: ops'))) = s_finals (snd (run ifs uc ops')).
Proof. exact clear_all_is_fresh. Qed.

(* key normalisation for EVERY decorated method: a successful query leaves its answer under
   (method, RESOLVED index) — whatever the spelling of the index — and in the finals if final *)
Theorem query_cached_under_resolved_key : forall ifs m raw f s v s',
  call ifs true m raw f s = (Ok v, s') ->
  exists a, resolved ifs raw = Some a /\ lookup (m, a) (s_cache s') = Some v /\
            (f = true -> mem_key (m, a) (s_finals s') = true).
Proof. exact query_stores. Qed.

(* idempotence: asking again (same interface in any spelling, final or not) returns THE SAME
   object and changes nothing but the promotion to final *)
Theorem repeated_query_same_object : forall ifs m raw raw' f f' s v s',
  call ifs true m raw f s = (Ok v, s') -> resolved ifs raw' = resolved ifs raw ->
  exists a, resolved ifs raw = Some a /\
            call ifs true m raw' f' s' = (Ok v, if f' then add_final (m, a) s' else s').
Proof. exact query_twice. Qed.

(* a final answer survives clear_intermediate_results: the same object afterwards *)
Theorem final_answer_survives_clear : forall ifs m raw raw' f' s v s',
  call ifs true m raw true s = (Ok v, s') -> resolved ifs raw' = resolved ifs raw ->
  exists a, resolved ifs raw = Some a /\
            call ifs true m raw' f' (clear_inter s')
            = (Ok v, if f' then add_final (m, a) (clear_inter s') else clear_inter s').
Proof. exact final_survives_clear. Qed.

(* from_path raises ValueError without rays (no object is created) and otherwise makes a NEW
   object with an empty cache and no finals *)
Theorem from_path_fresh_or_error : forall uc w ifs,
  from_path false uc = Err EValue /\ from_path true uc = Ok (uc, empty_state) /\
  w_objs (wstep ifs w (WNew false uc)) = w_objs w /\
  w_objs (wstep ifs w (WNew true uc)) =
    w_objs w ++ [{| r_uc := uc; r_cache := []; r_finals := []; r_trace := []; r_hist := [] |}].
Proof. exact from_path_spec. Qed.

(* no shared state: any number of RayGeometry objects built from the same path (each with or
   without cache) and used in ANY interleaving, their arrays living in one heap: every object
   answers exactly the stateless closed form of ITS OWN history, and its keys and finals are
   the pure fold of its own history *)
Theorem objects_are_independent : forall ifs ops j ob,
  nth_error (w_objs (wrun ifs ops)) j = Some ob ->
  map e_obs (r_trace ob) = spec_run ifs (r_hist ob) /\
  map fst (r_cache ob) = k_keys (krun ifs (r_uc ob) (r_hist ob)) /\
  r_finals ob = k_finals (krun ifs (r_uc ob) (r_hist ob)).
Proof. exact objects_independent. Qed.

(* ---- non-vacuity and replayable values (see notes/prover_C14_TIE.md) ---- *)
(* the call graph of a 3-interface path at the interior interface, and at the two ends *)
Example callees_table_interior :
  map (fun m => map (fun d => (meth_code (fst d), snd d)) (callees ex_ifs m 1)) all_meths
  = [ []; []; [(0, 0); (0, 1)]; [(0, 0); (0, 1); (1, 1)]; [(3, 1)]; [(3, 1); (4, 1)]; [(3, 1)];
      [(5, 1)]; [(6, 1); (5, 1)]; [(5, 1)];
      [(0, 1); (0, 2); (1, 1)]; [(10, 1)]; [(10, 1); (11, 1)]; [(10, 1)]; [(12, 1)];
      [(13, 1); (12, 1)]; [] ].
Proof. vm_compute. reflexivity. Qed.

Example callees_table_ends :
  map (fun m => map (fun d => (meth_code (fst d), snd d)) (callees ex_ifs m 0)) all_meths
  = [ []; []; []; []; [(3, 0)]; [(3, 0)]; [(3, 0)]; [(5, 0)]; [(6, 0)]; [];
      [(0, 0); (0, 1); (1, 0)]; [(10, 0)]; [(10, 0); (11, 0)]; [(10, 0)]; [(12, 0)];
      [(13, 0); (12, 0)]; [(12, 0)] ] /\
  map (fun m => List.length (callees ex_ifs m 2)) all_meths
  = [0; 0; 2; 3; 1; 2; 1; 1; 2; 1; 0; 1; 1; 1; 1; 1; 0]%nat.
Proof. vm_compute. split; reflexivity. Qed.

Example call_graph_acyclic_nonvacuous :
  In (MIncLegRadius, 1) (callees ex_ifs MIncLegPolar 1) /\ rank MIncLegRadius = 2%nat /\ rank MIncLegPolar = 3%nat.
Proof. vm_compute. intuition. Qed.

(* one final query on a new cached object: dictionary in insertion order, counters *)
Example signed_inc_angle_footprint :
  let y := krun ex_ifs true [Query MSignedInc 1 true] in
  map key_string (rev (k_keys y))
  = ["leg_points:0"; "leg_points:1"; "orientations_of_legs_points:1"; "inc_leg_cartesian:1";
     "inc_leg_azimuth:1"; "inc_leg_radius:1"; "inc_leg_polar:1"; "signed_inc_angle:1"]%string /\
  map key_string (k_finals y) = ["signed_inc_angle:1"]%string /\
  (st_hits (k_stats y), st_misses (k_stats y), st_ignored (k_stats y)) = (2, 8, 0) /\
  map key_string (st_counter (k_stats y)) = ["inc_leg_cartesian:1"; "inc_leg_cartesian:1"]%string.
Proof. vm_compute. repeat split; reflexivity. Qed.

(* the same query without cache evaluates the whole call TREE: 16 misses, 16 ignored stores *)
Example signed_inc_angle_uncached :
  let y := krun ex_ifs false [Query MSignedInc 1 true] in
  (k_keys y, map key_string (k_finals y),
   (st_hits (k_stats y), st_misses (k_stats y), st_ignored (k_stats y)))
  = ([], ["signed_inc_angle:1"]%string, (0, 16, 16)).
Proof. vm_compute. reflexivity. Qed.

(* a longer history with an error, a clear, a client and a precompute block that raises:
   the instrumented machine and the pure fold agree (instance of history_is_graph_fold) *)
(* ex_history (Model/CacheGraph.v): inc_angle(1); signed_inc_angle(-2, is_final=False);
   clear_intermediate_results(); conventional_inc_angle(2); conventional_out_angle(1) [raises];
   beamspread; with precompute(): out_angle(0); leg_points(7) [raises]; inc_leg_polar(-2, False) *)
Example ex_history_counters :
  (let st := snd (snd (irun ex_ifs true ex_history)) in
   (st_hits st, st_misses st, st_ignored st, st_warn st, st_prewarn st)) = (14, 30, 0, 0, 0) /\
  (let st := snd (snd (irun ex_ifs false ex_history)) in
   (st_hits st, st_misses st, st_ignored st, st_warn st, st_prewarn st)) = (0, 77, 76, 0, 1) /\
  List.length (keys_of (snd (run ex_ifs true ex_history))) = 21%nat /\
  map key_string (s_finals (snd (run ex_ifs true ex_history)))
  = ["out_angle:0"; "inc_leg_size:2"; "inc_leg_size:1"; "conventional_inc_angle:1";
     "conventional_inc_angle:2"; "inc_angle:1"]%string.
Proof. vm_compute. repeat split; reflexivity. Qed.

(* hypotheses of the three theorems about repeated queries are satisfiable *)
Example repeated_query_nonvacuous :
  exists v s', call ex_ifs true MIncAngle (-2) true empty_state = (Ok v, s') /\
               resolved ex_ifs 1 = resolved ex_ifs (-2) /\
               call ex_ifs true MIncAngle 1 false (clear_inter s') = (Ok v, clear_inter s').
Proof. eexists. eexists. vm_compute. repeat split; reflexivity. Qed.

(* two cached objects and one uncached object from the same path, interleaved; a failed
   from_path in between *)
(* ex_world: Model/CacheGraph.v *)
Example ex_world_objects :
  let w := wrun ex_ifs ex_world in
  map (fun ob => (r_uc ob, List.length (r_cache ob), map key_string (r_finals ob), List.length (r_hist ob)))
      (w_objs w)
  = [(true, 1%nat, ["inc_angle:1"]%string, 3%nat);
     (true, 12%nat, ["inc_angle:1"]%string, 2%nat);
     (false, 0%nat, ["inc_leg_size:2"; "inc_leg_size:1"; "conventional_inc_angle:1"; "inc_angle:1"]%string, 2%nat)] /\
  w_errors w = [EValue].
Proof. vm_compute. split; reflexivity. Qed.

(* what clear_intermediate_results removes: it keeps exactly the cached keys that are final;
   after a precompute() block that did not raise, every cached key is final *)
Theorem clear_keeps_exactly_final_keys : forall s k,
  In k (keys_of (clear_inter s)) <-> In k (keys_of s) /\ In k (s_finals s).
Proof. exact clear_inter_keys. Qed.

Theorem precompute_leaves_only_finals : forall ifs uc qs s k,
  Forall (fun e => is_error (e_ans e) = false) (fst (run_pre ifs uc qs s)) ->
  In k (keys_of (snd (run_pre ifs uc qs s))) -> In k (s_finals (snd (run_pre ifs uc qs s))).
Proof. exact precompute_leaves_finals. Qed.

Example precompute_leaves_only_finals_nonvacuous :
  let p := run_pre ex_ifs true [(MIncAngle, 1, true); (MSignedInc, 1, false)] empty_state in
  forallb (fun e => negb (is_error (e_ans e))) (fst p) = true /\
  map key_string (keys_of (snd p)) = ["inc_angle:1"]%string.
Proof. vm_compute. split; reflexivity. Qed.
