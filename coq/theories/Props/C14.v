(* Props/C14.v — Ray-geometry caching is transparent for every sequence of queries.
   Only statements; every proof is `exact <lemma>` (lemmas in Proofs/CacheProofs.v).

   Model (Model/Cache.v): `run ifs use_cache ops` executes a history `ops`
   (Query m raw is_final | ClearInter | ClearAll | Pre [queries] (a precompute()
   block) | Client c (beamspread / reverse beamspread / transmission-reflection /
   reverse) | Mutate i (in-place write into the object answered at trace position i))
   on a RayGeometry with interfaces `ifs` (any number; per interface the two
   normal-side flags None/True/False) and returns the chronological trace of
   entries (answer handle, observation, state after) and the final state.
   `spec ifs m raw` is the closed-form answer (array contents as a symbolic term,
   read-only; None; IndexError; ValueError) that depends on the RESOLVED index only;
   `spec_run` lifts it to histories without any state.

   The model describes /repo as it is now (after fix 37f2364: the inc_* methods test
   the resolved index against 0).  Hence the unconditional statements hold and the
   obsolete `cache_transparent_refuted` of DESIGN §5 is not stated.  All raw-vs-resolved
   index uses of the source (interface_idx - 1, interface_idx + 1,
   self.interfaces[interface_idx], rays.indices[interface_idx]) are modelled with the raw
   index and Python indexing; the theorems show that no asymmetry remains.

   Not covered by these theorems (sampled by harness/prop_C14.py): that numpy's
   writeable flag makes in-place writes fail; numeric contents of the arrays; a caller
   deliberately resetting flags.writeable. *)
From Coq Require Import ZArith List Bool.
From Arim Require Import Model.Cache Proofs.CacheProofs.
Import ListNotations.
Open Scope Z_scope.

(* cache_inv: in every reachable state (after the history and after each of its steps,
   for a Cache as for a NoCache object) every cached value is a READ-ONLY object whose
   contents are the fresh answer for its key (or None exactly when the fresh answer is
   None), keys are resolved indices in [0, n), and (Cache) finals ⊆ keys. *)
Theorem cache_inv : forall ifs uc ops,
  state_ok ifs uc (snd (run ifs uc ops)) /\
  Forall (fun e => state_ok ifs uc (e_state e)) (fst (run ifs uc ops)).
Proof. exact cache_inv_all. Qed.

(* cache_transparent: for EVERY history the observations (array contents + writeable
   flag, None, error kind, client results, outcome of write attempts) are those
   computed statelessly from the closed-form answers — with a cache or without. *)
Theorem cache_transparent : forall ifs uc ops,
  map e_obs (fst (run ifs uc ops)) = spec_run ifs ops.
Proof. exact transparent_all. Qed.

(* ... and the closed form IS the answer of a fresh use_cache=False object *)
Theorem spec_is_fresh_uncached_answer : forall ifs m raw is_final,
  map e_obs (fst (run ifs false [Query m raw is_final])) = [spec ifs m raw].
Proof. exact fresh_uncached_is_spec. Qed.

(* same history on a cached and on an uncached object: same observations *)
Theorem cached_equals_uncached : forall ifs ops,
  map e_obs (fst (run ifs true ops)) = map e_obs (fst (run ifs false ops)).
Proof. exact cached_equals_uncached_all. Qed.

(* neg_index_interchangeable: rewriting every query index to its non-negative spelling
   changes NOTHING: same trace (answers, object identities, observations, intermediate
   states) and same final state; pointwise: idx and idx + n give the same call result
   from every state and the same fresh answer, for -n <= idx < 0. *)
Theorem neg_index_interchangeable : forall ifs uc ops,
  run ifs uc (map (norm_op ifs) ops) = run ifs uc ops.
Proof. exact neg_index_runs. Qed.

Theorem neg_index_same_call : forall ifs uc m raw is_final s,
  - numif ifs <= raw < 0 ->
  call ifs uc m raw is_final s = call ifs uc m (raw + numif ifs) is_final s /\
  spec ifs m raw = spec ifs m (raw + numif ifs).
Proof. exact neg_index_call. Qed.

(* every array handed out by any step of any history is read-only *)
Theorem answers_readonly : forall ifs uc ops e t w,
  In e (fst (run ifs uc ops)) -> e_obs e = OVal t w -> w = false.
Proof. exact answers_readonly_all. Qed.

(* mutate_fails: after any history, an in-place write into any object that a query has
   answered raises and leaves the whole state (cache, finals, heap) unchanged *)
Theorem mutate_fails : forall ifs uc ops i e h,
  nth_error (fst (run ifs uc ops)) i = Some e -> e_ans e = AVal h ->
  step ifs uc (fst (run ifs uc ops)) (snd (run ifs uc ops)) (Mutate i)
  = ([mk_entry (AErr EReadOnly) (snd (run ifs uc ops))], snd (run ifs uc ops)).
Proof. exact mutate_fails_all. Qed.

(* clear_keeps_finals: clear_intermediate_results keeps exactly the final entries,
   with their values, and touches neither the finals nor any array *)
Theorem clear_keeps_finals : forall s k,
  s_finals (clear_inter s) = s_finals s /\ s_heap (clear_inter s) = s_heap s /\
  (mem_key k (s_finals s) = true -> lookup k (s_cache (clear_inter s)) = lookup k (s_cache s)) /\
  (mem_key k (s_finals s) = false -> lookup k (s_cache (clear_inter s)) = None).
Proof. exact clear_keeps_finals_all. Qed.

(* ---- non-vacuity ---- *)
(* ex_ifs (Model/Cache.v): 3 interfaces with (inc, out) normal-side flags
   (None, True), (False, None), (True, None) *)
(* the history of former finding F5 now answers None twice (cached or not) *)
Example f5_history_now_consistent :
  map e_obs (fst (run ex_ifs true [Query MIncLegSize 0 true; Query MIncLegSize (-3) true]))
  = [ONone; ONone] /\
  map e_obs (fst (run ex_ifs false [Query MIncLegSize (-3) true])) = [ONone].
Proof. vm_compute. split; reflexivity. Qed.

(* values, aliasing, errors, a refused write, a clear and a client in one history *)
Example mixed_history :
  map (fun e => (answer_code (e_ans e), match e_ans e with AVal h => Z.of_nat h | _ => -1 end))
      (fst (run ex_ifs true
              [Query MIncAngle 1 true; Query MIncLegPolar (-2) false; Query MConvInc 1 true;
               Query MConvOut 1 true; Query MLegPoints 3 true; Mutate 0; ClearInter;
               Client 0; Query MConvInc 0 true]))
  = [(1, 5); (1, 5); (1, 6); (3, -1); (2, -1); (5, -1); (4, -1); (7, -1); (0, -1)].
Proof. vm_compute. reflexivity. Qed.

Example mixed_history_keys :
  map (fun k => (meth_code (fst k), snd k))
      (keys_of (snd (run ex_ifs true
              [Query MIncAngle 1 true; Query MSignedInc 1 false; ClearInter; Query MConvInc 2 true])))
  = [(9, 2); (5, 2); (4, 2); (3, 2); (1, 2); (0, 2); (0, 1); (7, 1)].
Proof. vm_compute. reflexivity. Qed.

(* a client result in closed form: beamspread on 3 interfaces *)
Example beamspread_client :
  spec_client ex_ifs 0 =
  OClient [TPiMinus (t_polar (t_inc_cart 1));
           TIadd (TNormDiff (pts 0) (pts 1)) (TNormDiff (pts 1) (pts 2))].
Proof. vm_compute. reflexivity. Qed.
