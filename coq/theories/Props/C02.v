(* Props/C02.v — Delay-and-sum image equals its mathematical definition.
   Statements only; proofs are in Proofs/DasProofs.v and Proofs/RobustProofs.v.

   Model: Model/Das.v (the numba kernels reachable from arim.im.das.delay_and_sum,
   FocalLaw.weigh_timetraces, the two dispatch levels) and Model/Robust.v
   (geomed, huber_m_estimate, the robust kernels).  Numeric statements are about
   the real-number instance NumR (exact arithmetic); sample values live in any
   module `Data R D` satisfying `DataLaws` — the real (D = R) and the
   complex-as-pairs (D = R*R) instances do (first two theorems).

   The specification (Model/Das.v, `das_spec`):
     image(point) = (1/N) * sum_k term_k,   l_k = (tau_tx + tau_rx - t0) / dt
     term_k = w_k * (Atx * Arx) * interp(x_k, l_k)   if l_k is in the window of the scheme
            = fill                                   otherwise     (bare fill value)
   with raw timetraces x_k and weights w_k (1 when no weights are given); windows:
     nearest  0 <= round(l) < n      (round half to even)
     linear   0 <= l < n - 1
     lanczos  0 <= l < n             (periodic index i mod n, as the code does)

   What is NOT covered by these theorems (sampled by harness/prop_C02.py):
   binary64/binary32 rounding, numba fastmath, numpy dtype promotion, the
   Frame/FocalLaw glue, convergence of the geomed / Huber iterations. *)
From Coq Require Import List Reals ZArith Bool Permutation QArith.
From Flocq Require Import Core.Raux Core.Round_NE Core.Generic_fmt.
From Arim Require Import Base.Num Base.NumR Base.NumQ Model.Das Model.Robust Proofs.DasProofs Proofs.RobustProofs.
Import ListNotations.
Local Open Scope R_scope.

Theorem data_real_laws : DataLaws (DataReal NumR).
Proof. exact DataReal_laws. Qed.

Theorem data_complex_laws : DataLaws (DataCplx NumR).
Proof. exact DataCplx_laws. Qed.

(* ---- every mean kernel equals the definition, for all frames (any list of
   timetraces, any tx/rx indices), tables, weights, fill value, any N ---------
   `weights_ok` = no weights, or as many weights as timetraces (numpy raises
   otherwise: the model returns None). *)
Theorem das_nearest_spec : forall D (V : Data R D), DataLaws V ->
  forall ns dt t0 fill w rows ss,
  das_noamp NumR V Nearest ns dt t0 fill w rows ss =
  if weights_ok w ss then Some (das_spec NumR V Nearest false ns dt t0 fill w rows ss) else None.
Proof. intros D V L ns dt t0 fill w rows ss. exact (das_noamp_spec_gen V L Nearest ns dt t0 fill w rows ss). Qed.

(* unconditional since the math.floor repair: a lookup in (t0 - dt, t0) is filled *)
Theorem das_linear_spec : forall D (V : Data R D), DataLaws V ->
  forall ns dt t0 fill w rows ss,
  das_noamp NumR V Linear ns dt t0 fill w rows ss =
  if weights_ok w ss then Some (das_spec NumR V Linear false ns dt t0 fill w rows ss) else None.
Proof. intros D V L ns dt t0 fill w rows ss. exact (das_noamp_spec_gen V L Linear ns dt t0 fill w rows ss). Qed.

Theorem das_lanczos_spec : forall D (V : Data R D), DataLaws V ->
  forall a ns dt t0 fill w rows ss,
  das_noamp NumR V (Lanczos a) ns dt t0 fill w rows ss =
  if weights_ok w ss then Some (das_spec NumR V (Lanczos a) false ns dt t0 fill w rows ss) else None.
Proof. intros D V L a ns dt t0 fill w rows ss. exact (das_noamp_spec_gen V L (Lanczos a) ns dt t0 fill w rows ss). Qed.

Theorem das_amp_nearest_spec : forall D (V : Data R D), DataLaws V ->
  forall ns dt t0 fill w rows ss,
  das_amp NumR V Nearest ns dt t0 fill w rows ss =
  if weights_ok w ss then Some (das_spec NumR V Nearest true ns dt t0 fill w rows ss) else None.
Proof. intros D V L ns dt t0 fill w rows ss. exact (das_amp_spec_gen V L Nearest ns dt t0 fill w rows ss). Qed.

Theorem das_amp_linear_spec : forall D (V : Data R D), DataLaws V ->
  forall ns dt t0 fill w rows ss,
  das_amp NumR V Linear ns dt t0 fill w rows ss =
  if weights_ok w ss then Some (das_spec NumR V Linear true ns dt t0 fill w rows ss) else None.
Proof. intros D V L ns dt t0 fill w rows ss. exact (das_amp_spec_gen V L Linear ns dt t0 fill w rows ss). Qed.

(* amplitudes identically one give the same image as no amplitudes
   (the amp kernels divide by dt, the noamp kernels multiply by 1/dt) *)
Theorem das_unit_amp : forall D (V : Data R D), DataLaws V ->
  forall sc ns dt t0 fill w rows ss,
  unit_amps V rows ss -> (forall a, sc <> Lanczos a) ->
  das_amp NumR V sc ns dt t0 fill w rows ss = das_noamp NumR V sc ns dt t0 fill w rows ss.
Proof. intros D V L sc ns dt t0 fill w rows ss. exact (das_unit_amp_gen V L sc ns dt t0 fill w rows ss). Qed.

(* l + f*(r - l)  (amp kernel)  =  (1 - f)*l + f*r  (noamp kernel) *)
Theorem das_linear_two_forms : forall D (V : Data R D), DataLaws V ->
  forall f a b, dadd V a (dscale V f (dsub V b a)) = dadd V (dscale V (1 - f) a) (dscale V f b).
Proof. intros D V L f a b. exact (linear_two_forms V L f a b). Qed.

(* at an integer position the linear scheme returns the sample; between two
   samples, the chord *)
Theorem das_linear_nodes : forall D (V : Data R D), DataLaws V ->
  forall ns x i, interp NumR V Linear ns x (IZR i) = sample V x i.
Proof. intros D V L ns x i. exact (interp_linear_node V L ns x i). Qed.

Theorem das_linear_between : forall D (V : Data R D), DataLaws V ->
  forall ns x i f, 0 <= f < 1 ->
  interp NumR V Linear ns x (IZR i + f)
  = dadd V (dscale V (1 - f) (sample V x i)) (dscale V f (sample V x (i + 1)%Z)).
Proof. intros D V L ns x i f. exact (interp_linear_between V ns x i f). Qed.

(* Lanczos (a >= 1) at an integer position returns the sample (periodic index):
   all the other taps sit on zeros of sinc *)
Theorem das_lanczos_nodes : forall D (V : Data R D), DataLaws V ->
  forall a ns x i, (1 <= a)%Z ->
  interp NumR V (Lanczos a) ns x (IZR i) = sample V x (i mod ns)%Z.
Proof. intros D V L a ns x i. exact (interp_lanczos_node V L a ns x i). Qed.

(* the image does not depend on the order of the timetraces (weights reordered along) *)
Theorem das_permutation : forall D (V : Data R D), DataLaws V ->
  forall sc ns dt t0 fill w w' rows ss ss',
  weights_ok w ss = true -> weights_ok w' ss' = true ->
  Permutation (combine ss (eff_weights NumR w (length ss))) (combine ss' (eff_weights NumR w' (length ss'))) ->
  das_noamp NumR V sc ns dt t0 fill w rows ss = das_noamp NumR V sc ns dt t0 fill w' rows ss'.
Proof. intros D V L sc ns dt t0 fill w w' rows ss ss'. exact (das_noamp_perm V L sc ns dt t0 fill w w' rows ss ss'). Qed.

Theorem das_amp_permutation : forall D (V : Data R D), DataLaws V ->
  forall sc ns dt t0 fill w w' rows ss ss',
  weights_ok w ss = true -> weights_ok w' ss' = true ->
  Permutation (combine ss (eff_weights NumR w (length ss))) (combine ss' (eff_weights NumR w' (length ss'))) ->
  das_amp NumR V sc ns dt t0 fill w rows ss = das_amp NumR V sc ns dt t0 fill w' rows ss'.
Proof. intros D V L sc ns dt t0 fill w w' rows ss ss'. exact (das_amp_perm V L sc ns dt t0 fill w w' rows ss ss'). Qed.

Theorem das_permutation_unweighted : forall D (V : Data R D), DataLaws V ->
  forall sc ns dt t0 fill rows ss ss', Permutation ss ss' ->
  das_noamp NumR V sc ns dt t0 fill None rows ss = das_noamp NumR V sc ns dt t0 fill None rows ss'.
Proof.
  intros D V L sc ns dt t0 fill rows ss ss' HP.
  exact (das_noamp_perm V L sc ns dt t0 fill None None rows ss ss' eq_refl eq_refl (perm_noweights ss ss' HP)).
Qed.

(* linearity in the data: every interpolation scheme is linear in the timetrace
   (reading c*x + y gives c * (reading x) + (reading y)) ... *)
Theorem das_interp_linear_in_data : forall D (V : Data R D), DataLaws V ->
  forall sc ns c x y l, length x = length y ->
  interp NumR V sc ns (lincomb V c x y) l
  = dadd V (dscale V c (interp NumR V sc ns x l)) (interp NumR V sc ns y l).
Proof. intros D V L sc ns c x y l. exact (interp_lincomb V L sc ns c x y l). Qed.

(* ... hence with fill = 0 the image of the frame c*X + Y (same tx/rx, same
   number of samples, timetrace by timetrace) is c * image(X) + image(Y), for
   every scheme, with or without amplitudes and weights *)
Theorem das_linear_in_data : forall D (V : Data R D), DataLaws V ->
  forall sc b ns dt t0 w c rows ssx ssy,
  Forall2 same_shape ssx ssy ->
  das_spec NumR V sc b ns dt t0 (dzero V) w rows (frame_lincomb V c ssx ssy)
  = map (fun r => dadd V (dscale V c (das_spec_point NumR V sc b ns dt t0 (dzero V) w ssx r))
                         (das_spec_point NumR V sc b ns dt t0 (dzero V) w ssy r)) rows.
Proof. intros D V L sc b ns dt t0 w c rows ssx ssy. exact (das_spec_lincomb V L sc b ns dt t0 w c rows ssx ssy). Qed.

(* ---- windows: the tests written in the kernels are the windows of the spec - *)
Theorem nearest_window : forall ns i,
  out_idx ns i = negb ((0 <=? i)%Z && (i <? ns)%Z).
Proof. exact out_idx_window. Qed.

Theorem linear_window_floor : forall ns l,
  ((Zfloor l <? 0)%Z || (Zfloor l + 1 >=? ns)%Z) = negb (Rle_bool 0 l && Rlt_bool l (IZR (ns - 1))).
Proof. exact linear_window. Qed.

Theorem lanczos_window_test : forall ns l,
  out_pos NumR ns l = negb (Rle_bool 0 l && Rlt_bool l (IZR ns)).
Proof. exact lanczos_out_window. Qed.

(* ---- dispatch: over the whole finite request domain (3 amplitude kinds x 16
   spellings of `interpolation` x 16 spellings of `aggregation` x 3 dtype classes)
   a canonical request is served by exactly the kernel the documentation names
   or raises; no request is ever served by a kernel of another scheme *)
Theorem dispatch_total : forall am i a d, In i all_interp -> In a all_aggr ->
  dispatch_ok (am, i, a, d) = true.
Proof. exact dispatch_total_lemma. Qed.

Theorem dispatch_accepted_count : length accepted_canonical = 18%nat.
Proof. exact accepted_count. Qed.

(* ---- robust aggregations: the vector handed to geomed / huber_m_estimate is
   exactly the vector of delayed samples of the mean kernel (same indexing, same
   bare fill value) — for every numeric instance, floats included *)
Theorem das_median_samples : forall T D (N : Num T) (V : Data T D) ns invdt t0 fill r ss,
  median_nearest_samples N V ns invdt t0 fill r ss = map (term_noamp_nearest N V ns invdt t0 fill r) ss
  /\ forall a, median_lanczos_samples N V a ns invdt t0 fill r ss = map (term_noamp_lanczos N V a ns invdt t0 fill r) ss.
Proof.
  intros T D N V ns invdt t0 fill r ss.
  exact (conj (median_nearest_samples_eq N V ns invdt t0 fill r ss)
              (fun a => median_lanczos_samples_eq N V a ns invdt t0 fill r ss)).
Qed.

Theorem das_huber_samples : forall T D (N : Num T) (V : Data T D) a ns invdt t0 fill r ss,
  huber_lanczos_samples N V a ns invdt t0 fill r ss = map (term_noamp_lanczos N V a ns invdt t0 fill r) ss.
Proof. intros T D N V a ns invdt t0 fill r ss. exact (huber_lanczos_samples_eq N V a ns invdt t0 fill r ss). Qed.

Theorem das_mean_of_samples : forall T D (N : Num T) (V : Data T D) (term : scan D -> D) ss,
  accumulate N V term ss = ddiv V (dsum_left V (map term ss)) (nofZ N (Z.of_nat (length ss))).
Proof. intros T D N V term ss. exact (accumulate_of_samples N V term ss). Qed.

(* ... and over the reals: median / Huber image = geomed / Huber location of the
   spec's summands  w_k * interp(x_k, l_k)  or  fill *)
Theorem das_median_nearest_is_geomed : forall xtol c rho ns dt t0 fill w rows ss,
  das_robust NumR Median Nearest xtol c rho ns dt t0 fill w rows ss =
  if weights_ok w ss
  then Some (map (fun r => res_point (geomed NumR (spec_samples Nearest ns dt t0 fill w ss r) xtol 200 c rho)) rows)
  else None.
Proof. exact das_median_nearest_spec. Qed.

Theorem das_median_lanczos_is_geomed : forall a xtol c rho ns dt t0 fill w rows ss,
  das_robust NumR Median (Lanczos a) xtol c rho ns dt t0 fill w rows ss =
  if weights_ok w ss
  then Some (map (fun r => res_point (geomed NumR (spec_samples (Lanczos a) ns dt t0 fill w ss r) xtol 200 c rho)) rows)
  else None.
Proof. exact das_median_lanczos_spec. Qed.

Theorem das_huber_lanczos_is_huber : forall a tau xtol c rho ns dt t0 fill w rows ss,
  das_robust NumR (Huber tau) (Lanczos a) xtol c rho ns dt t0 fill w rows ss =
  if weights_ok w ss
  then Some (map (fun r => res_point (huber_m_estimate NumR (spec_samples (Lanczos a) ns dt t0 fill w ss r) tau xtol 600)) rows)
  else None.
Proof. exact das_huber_lanczos_spec. Qed.

(* a fixed point of _huber_iter solves Huber's estimating equation
   sum_i psi_tau(z - d_i) = 0,  psi_tau(v) = v * min(1, tau/|v|) *)
Theorem huber_fixed_point : forall data tau z,
  fst (fst (huber_sums NumR data tau z)) <> 0 ->
  huber_iter NumR data tau z = z ->
  huber_psi_sum NumR data tau z = (0, 0).
Proof. exact huber_fixed_point_R. Qed.

(* geomed: (a11, a12, a22) returned by _gradf_and_inv_hessf is the inverse of the
   accumulated Hessian and the direction used is the Newton direction -H^-1 g *)
Theorem geomed_newton_step : forall data z,
  let '(gx, gy, h11, h12, h22) := grad_hess NumR data z in
  let '(gx', gy', i11, i12, i22) := gradf_and_inv_hessf NumR data z in
  h11 * h22 - h12 * h12 <> 0 ->
  gx' = gx /\ gy' = gy /\
  h11 * i11 + h12 * i12 = 1 /\ h11 * i12 + h12 * i22 = 0 /\
  h12 * i11 + h22 * i12 = 0 /\ h12 * i12 + h22 * i22 = 1 /\
  (let px := - i11 * gx - i12 * gy in let py := - i12 * gx - i22 * gy in
   h11 * px + h12 * py = - gx /\ h12 * px + h22 * py = - gy).
Proof. exact geomed_newton_step_R. Qed.

(* the accumulated (gx, gy) is the gradient sum_i (z - d_i)/|z - d_i| *)
Theorem geomed_gradient : forall data z,
  let '(gx, gy, _, _, _) := grad_hess NumR data z in (gx, gy) = geomed_grad NumR data z.
Proof. exact grad_hess_is_gradient. Qed.

(* FULL statement wanted: geomed returns (within xtol) the minimiser of
   z |-> sum_i |z - d_i|.  Proved part: a zero of the gradient at a point distinct
   from the data is a global minimiser (convexity).  Missing: convergence of the
   Newton iteration with backtracking to such a zero (the harness checks the
   first-order condition on the implementation's outputs instead). *)
Theorem geomed_stationary_is_min_partial : forall data z,
  Forall (fun d => dist NumR z d <> 0) data ->
  geomed_grad NumR data z = (0, 0) ->
  forall y, sumdist data z <= sumdist data y.
Proof. exact geomed_stationary_is_min_R. Qed.

Theorem geomed_objective : forall data z, geomed_f NumR data z = sumdist data z.
Proof. exact geomed_f_sumdist. Qed.

(* ---- non-vacuity: the model computes (exact rationals).  One timetrace
   x = [10; 20; 40; 80], dt = 1, t0 = 0, fill = -7, lookups at
   -1/2 (filled since the repair; the old int() gave 3/2*10 - 1/2*20 = 5),
   0, 1/2, 5/2, 3 (right edge: filled) *)
Local Open Scope Q_scope.
Example linear_quarter_positions :
  das_noamp NumQ (DataReal NumQ) Linear 4 1 0 (-7 # 1) None
    (map (fun l => mkRow [l] [0] [] []) [(-1) # 2; 0; 1 # 2; 5 # 2; 3])
    [mkScan 0 0 [10; 20; 40; 80]]
  = Some [(-7) # 1; 10 # 1; 15 # 1; 60 # 1; (-7) # 1].
Proof. vm_compute. reflexivity. Qed.

(* nearest: round half to even: 1/2 -> sample 0, 3/2 -> sample 2, 5/2 -> sample 2, 7/2 -> out *)
Example nearest_half_even :
  das_noamp NumQ (DataReal NumQ) Nearest 4 1 0 (-7 # 1) None
    (map (fun l => mkRow [l] [0] [] []) [(-1) # 2; 1 # 2; 3 # 2; 5 # 2; 7 # 2; (-3) # 4])
    [mkScan 0 0 [10; 20; 40; 80]]
  = Some [10 # 1; 10 # 1; 40 # 1; 40 # 1; (-7) # 1; (-7) # 1].
Proof. vm_compute. reflexivity. Qed.

(* weights, amplitudes, tx/rx indirection and the division by numtimetraces *)
Example amp_weighted_two_traces :
  das_amp NumQ (DataReal NumQ) Nearest 2 1 0 0 (Some [2; 3])
    [mkRow [0; 1] [0; 5] [1 # 2; 4] [1; 10]]
    [mkScan 0 0 [1; 100]; mkScan 1 0 [7; 1000]]
  = Some [12001 # 2].   (* ((1/2 * 1) * (2*1) + (4 * 1) * (3*1000)) / 2 *)
Proof. vm_compute. reflexivity. Qed.

(* ==========================================================================
   PROVER ROUND — the glue around the kernels (Model/DasGlue.v; notes/prover_C02_TIE.md).

   `plan c`     : a call of das.delay_and_sum described by shapes / dtypes / contiguity / option
                  spellings / result=  ->  the FIRST exception in evaluation order (which assertion, which
                  class), or "kernel k runs, the returned array has dtype d and is (not) the caller's
                  object", or PUndefined (nothing is checked and the kernel would read out of bounds).
   `das_call`   : the same call with its data: plan, the broadcast weights, the kernels of Model/Das.v and
                  Model/Robust.v, and the writes `result[point] = ...` into a fresh or a given array.
   Statements about plan / das_call for an arbitrary numeric instance use no algebraic law (true of floats
   too) and are axiom-free; the statements over NumR use the standard real-number axioms. *)
From Coq Require Import Ascii String.
From Coq Require Import List.
From Arim Require Import Model.DasGlue Proofs.DasGlueProofs Proofs.DasGlueRealProofs.
Local Close Scope Q_scope.
Local Open Scope R_scope.

(* ---- dtype inference ------------------------------------------------------------------------ *)
(* np.result_type does not depend on the order of its arguments *)
Theorem glue_result_type_order_irrelevant : forall l l', Permutation l l' -> result_type l = result_type l'.
Proof. exact result_type_perm. Qed.

(* das._infer_datatypes in closed form: dtype_data is complex iff the (weighted) timetraces, the amplitudes or
   `result` are, double iff one of them is; the lookup times only enter dtype_float (which nothing reads) *)
Theorem glue_infer_datatypes_closed_form : forall wt ltx lrx amp res,
  infer_datatypes wt ltx lrx amp res =
  Some (promote ltx lrx, amp,
        mk_dtype (is_cplx wt || odt is_cplx amp || odt is_cplx res) (is_dbl wt || odt is_dbl amp || odt is_dbl res)).
Proof. exact infer_datatypes_spec. Qed.

(* fresh result: np.full((numpoints,), 0, dtype) with dtype = promotion of timetraces, weights, amplitudes *)
Theorem glue_fresh_result_dtype : forall X Y (c : call_desc X Y) k out given,
  plan c = PRun k out given -> c_result c = None ->
  given = false
  /\ result_type ([fr_tt_dtype (c_frame c)]
                  ++ (match f_w (c_focal c) with Some (_, wd) => [wd] | None => [] end)
                  ++ (match amp_dtype (c_focal c) with Some a => [a] | None => [] end)) = Some out.
Proof. intros X Y. exact plan_fresh_result_dtype. Qed.

(* result= given: that very object is returned (its own dtype, no promotion) and it had shape (numpoints,) *)
Theorem glue_given_result_is_returned : forall X Y (c : call_desc X Y) k out given s d,
  plan c = PRun k out given -> c_result c = Some (s, d) ->
  given = true /\ out = d /\ s = [a_rows (f_ltx (c_focal c))].
Proof. intros X Y. exact plan_given_result. Qed.

(* a call that returns a REAL array had real timetraces, real weights, real amplitudes and a real fillvalue
   (otherwise numba refuses to store the complex accumulator: TypingError) *)
Theorem glue_real_output_needs_real_inputs : forall X Y (c : call_desc X Y) k out given,
  plan c = PRun k out given -> is_cplx out = false ->
  is_robust k = false
  /\ is_cplx (weighted_dtype (c_frame c) (c_focal c)) = false
  /\ odt is_cplx (amp_dtype (c_focal c)) = false /\ c_fill_cplx c = false.
Proof. intros X Y. exact plan_real_output. Qed.

(* median / Huber run only on complex128 weighted timetraces, without amplitudes, into a complex array *)
Theorem glue_robust_requires_complex128 : forall X Y (c : call_desc X Y) k out given,
  plan c = PRun k out given -> is_robust k = true ->
  weighted_dtype (c_frame c) (c_focal c) = C128 /\ f_amp (c_focal c) = FNone /\ is_cplx out = true.
Proof. intros X Y. exact plan_robust_requires_c128. Qed.

(* The guard `dtype_data != np.complex_` of the robust aggregations is computed from the promotion of the
   weighted timetraces AND `result`.  FULL statement wanted: "a median / Huber request on timetraces that are
   not complex128 raises NotImplementedTyping".  It is FALSE of the code when the caller passes a complex128
   `result`: the guard lets the call through and the kernel fails inside numba (observed: SystemError).
   Replayed on the library (notes/prover_C02_TIE.md, finding G1). *)
Theorem glue_robust_guard_with_result_refuted :
  exists c : call_desc unit unit,
    weighted_dtype (c_frame c) (c_focal c) <> C128 /\ c_aggr c = PStr "median"%string
    /\ plan c = PRaise EKernelRuntime.
Proof. exact guard_leak_witness. Qed.

(* ... characterisation of that outcome, and the guard is exact when the result is fresh *)
Theorem glue_kernel_runtime_characterised : forall X Y (c : call_desc X Y),
  plan c = PRaise EKernelRuntime ->
  exists wt k, weigh_desc (c_frame c) (c_focal c) = inr (wt, fr_numtimetraces (c_frame c))
               /\ is_robust k = true /\ wt <> C128 /\ dtype_data c wt = C128
               /\ f_amp (c_focal c) = FNone.
Proof. intros X Y. exact plan_kernel_runtime_inv. Qed.

Theorem glue_robust_guard_exact_when_fresh : forall X Y (c : call_desc X Y),
  c_result c = None -> plan c <> PRaise EKernelRuntime.
Proof. intros X Y. exact plan_guard_exact_when_fresh. Qed.

(* ---- which exception comes first --------------------------------------------------------------- *)
Theorem glue_other_amplitudes_first : forall X Y (c : call_desc X Y),
  f_amp (c_focal c) = FOther -> plan c = PRaise ENotImpl.
Proof. intros X Y. exact plan_other_amplitudes. Qed.

Theorem glue_shape_assertion_first : forall X Y (c : call_desc X Y) s,
  f_amp (c_focal c) <> FOther ->
  check_shapes (c_frame c) (c_focal c) = Some s -> plan c = PRaise (EAssert s).
Proof. intros X Y. exact plan_assert_first. Qed.

Theorem glue_broadcast_before_options : forall X Y (c : call_desc X Y) e,
  f_amp (c_focal c) <> FOther ->
  check_shapes (c_frame c) (c_focal c) = None ->
  weigh_desc (c_frame c) (c_focal c) = inl e -> plan c = PRaise e.
Proof. intros X Y. exact plan_weigh_error. Qed.

Theorem glue_noamp_result_shape_before_options : forall X Y (c : call_desc X Y) wt wrows,
  f_amp (c_focal c) = FNone -> prefix_ok c wt wrows -> result_shape_ok c = false ->
  plan c = PRaise (EAssert SResultShape).
Proof. intros X Y. exact plan_noamp_result_shape_first. Qed.

Theorem glue_amp_aggregation_before_result_shape : forall X Y (c : call_desc X Y) wt wrows atx arx,
  f_amp (c_focal c) = FTxRx atx arx -> prefix_ok c wt wrows ->
  plan c = match c_aggr c with
           | PStr s => if (aggr_code (lower s) =? 0)%Z then plan c else PRaise ENotImpl
           | _ => PRaise EAttribute
           end.
Proof. intros X Y. exact plan_amp_aggregation_first. Qed.

Theorem glue_amp_result_shape_before_interpolation : forall X Y (c : call_desc X Y) wt wrows atx arx s,
  f_amp (c_focal c) = FTxRx atx arx -> prefix_ok c wt wrows ->
  c_aggr c = PStr s -> lower s = "mean"%string -> result_shape_ok c = false ->
  plan c = PRaise (EAssert SResultShape).
Proof. intros X Y. exact plan_amp_result_shape_before_interpolation. Qed.

(* once the shapes are fine the outcome is the decision table of Model/Das.v (dispatch_total above) on the
   lowered names and on the class of dtype_data, followed by the typing / run of the chosen kernel *)
Theorem glue_plan_refines_dispatch : forall X Y (c : call_desc X Y) wt wrows i a,
  prefix_ok c wt wrows -> result_shape_ok c = true ->
  to_interp_arg (c_interp c) = Some i -> to_aggr_arg (c_aggr c) = Some a ->
  plan c = match dispatch (amp_kind_of (c_focal c)) i a (class_of (dtype_data c wt)) with
           | Raise e => PRaise (err_of_class e)
           | Call k => run_kernel k wt (amp_dtype (c_focal c)) (c_fill_cplx c) wrows (fr_numtimetraces (c_frame c))
                                  (out_dtype c (dtype_data c wt)) (result_given c)
           end.
Proof. intros X Y. exact plan_refines_dispatch. Qed.

(* everything a successful call guarantees *)
Theorem glue_plan_success_inversion : forall X Y (c : call_desc X Y) k out given,
  plan c = PRun k out given ->
  check_shapes (c_frame c) (c_focal c) = None
  /\ exists wt i a,
       weigh_desc (c_frame c) (c_focal c) = inr (wt, fr_numtimetraces (c_frame c))
       /\ result_shape_ok c = true /\ given = result_given c
       /\ out = out_dtype c (dtype_data c wt)
       /\ to_interp_arg (c_interp c) = Some i /\ to_aggr_arg (c_aggr c) = Some a
       /\ dispatch (amp_kind_of (c_focal c)) i a (class_of (dtype_data c wt)) = Call k
       /\ (if is_robust k then is_cplx out = true /\ (is_cplx wt = true \/ c_fill_cplx c = false) /\ wt = C128
           else is_cplx out = true \/ value_cplx c wt = false).
Proof. intros X Y. exact plan_run_inv. Qed.

(* the kernel that runs is the one of the requested names; tuple arities are those of its signature *)
Theorem glue_kernel_matches_request : forall am i a d k, dispatch am i a d = Call k ->
  iname i = kernel_interp k /\ aname a = kernel_aggr k
  /\ (is_amp_kernel k = true <-> am = AmpTxRx)
  /\ (kernel_interp k = 2%Z -> inargs i = 1%Z)
  /\ (k = KHuberLanczos -> anargs a = 1%Z).
Proof. exact dispatch_call_inv. Qed.

(* ---- the constructors and _check_shapes ----------------------------------------------------------- *)
Theorem glue_txrx_dtype_checked_first : forall tx rx force,
  r_dtype tx <> r_dtype rx -> txrx_init tx rx force = inl TDtype.
Proof. exact txrx_dtype_first. Qed.

Theorem glue_txrx_constructed : forall tx rx force a b, txrx_init tx rx force = inr (a, b) ->
  a_dtype a = a_dtype b /\ r_shape tx = [a_rows a; a_cols a] /\ r_shape rx = [a_rows b; a_cols b]
  /\ (force = true -> a_contig a = true /\ a_contig b = true).
Proof. exact txrx_init_inv. Qed.

Theorem glue_focal_law_constructed : forall ltx lrx amp w force fd,
  focal_law_init ltx lrx amp w force = inr fd ->
  a_rows (f_ltx fd) = a_rows (f_lrx fd)
  /\ r_shape ltx = [a_rows (f_ltx fd); a_cols (f_ltx fd)]
  /\ r_shape lrx = [a_rows (f_lrx fd); a_cols (f_lrx fd)]
  /\ a_dtype (f_ltx fd) = r_dtype ltx /\ a_dtype (f_lrx fd) = r_dtype lrx
  /\ (force = true -> a_contig (f_ltx fd) = true /\ a_contig (f_lrx fd) = true)
  /\ amp_matches amp fd
  /\ (f_w fd = None <-> w = None)
  /\ (forall m d, f_w fd = Some (m, d) -> f_numtimetraces fd = Some m).
Proof. exact focal_law_init_inv. Qed.

(* FocalLaw.numtimetraces raises AttributeError exactly without weights and without per-timetrace amplitudes *)
Theorem glue_numtimetraces_unknown_iff : forall ltx lrx amp w force fd,
  focal_law_init ltx lrx amp w force = inr fd ->
  (numtimetraces fd = None <-> w = None /\ forall s, amp <> AArr s).
Proof. exact numtimetraces_unknown_iff. Qed.

(* on objects out of the constructors (force_c_order = True) and a frame out of Frame.__init__, every assertion
   of _check_shapes but the contiguity of frame.timetraces is redundant *)
Theorem glue_check_shapes_after_constructors : forall ltx lrx amp w fd n ns d contig,
  focal_law_init ltx lrx amp w true = inr fd ->
  (forall atx arx, amp = ATxRx atx arx -> a_contig atx = true /\ a_contig arx = true) ->
  check_shapes (frame_built n ns d contig) fd = if contig then None else Some STtContig.
Proof. exact check_shapes_after_ctors. Qed.

(* ---- timetrace weights: timetraces * w[:, np.newaxis] ---------------------------------------------- *)
Theorem glue_weights_broadcast_rule : forall n m,
  weighted_rows n (Some m) =
  if ((m =? n) || (m =? 1))%nat then BRows n else if (n =? 1)%nat then BRows m else BValueError.
Proof. exact weighted_rows_spec. Qed.

(* the weights das_call applies (one per timetrace, or the single value repeated) always fit the frame *)
Theorem glue_effective_weights_fit : forall T (N : Num T) D' (V' : Data T D') w (ss : list (scan D')),
  exists wss, weigh_timetraces V' (effective_weights N w (length ss)) ss = Some wss /\ length wss = length ss.
Proof. intros T N D' V'. exact (effective_weights_ok N V'). Qed.

(* ---- `result`: filled by one write per point, in any order ------------------------------------------ *)
Theorem glue_prange_any_order : forall A (order : list nat) (pix : nat -> A) prev n,
  length prev = n -> (forall j, (j < n)%nat -> In j order) ->
  write_pixels order pix prev = map pix (seq 0 n).
Proof. exact @write_pixels_any_order. Qed.

Theorem glue_result_filled : forall A (d : A) prev img, length prev = length img -> store d prev img = img.
Proof. exact @store_full. Qed.

(* ---- the call with its data (any numeric instance) --------------------------------------------------- *)
(* normal form: the plan, the unchecked index condition, then one pixel per row of the focal law *)
Theorem glue_call_normal_form : forall T D (N : Num T) (V : Data T D) view2
    k xtol c rho ns dt t0 fill interp aggr w rows ss result,
  das_call N V view2 k xtol c rho ns dt t0 fill interp aggr w rows ss result =
  match plan (describe k ns interp aggr w rows ss result) with
  | PRaise e => ORaise e
  | PUndefined u => OUndefined u
  | PRun kn out given =>
      if negb (indices_ok (is_amp_kernel kn) rows ss) then OUndefined UIndex
      else kernel_out N V view2 kn out given (first_arg 0%Z interp) (first_arg (n0 N) aggr) xtol c rho ns dt t0 fill w rows ss
  end.
Proof. intros T D N V view2. exact (das_call_nf N V view2). Qed.

(* the previous content of a given `result` is irrelevant (the kernels fill, they never accumulate) *)
Theorem glue_call_result_content_irrelevant : forall T D (N : Num T) (V : Data T D) view2
    k xtol c rho ns dt t0 fill interp aggr w rows ss prev prev',
  length prev = length prev' ->
  das_call N V view2 k xtol c rho ns dt t0 fill interp aggr w rows ss (Some prev)
  = das_call N V view2 k xtol c rho ns dt t0 fill interp aggr w rows ss (Some prev').
Proof. intros T D N V view2. exact (das_call_result_content_irrelevant N V view2). Qed.

Theorem glue_call_given_filled : forall T D (N : Num T) (V : Data T D) view2
    k xtol c rho ns dt t0 fill interp aggr w rows ss prev out g img,
  das_call N V view2 k xtol c rho ns dt t0 fill interp aggr w rows ss (Some prev) = OMean out g img ->
  g = true /\ out = k_res_dtype k /\ length img = length prev /\ length prev = length rows.
Proof. intros T D N V view2. exact (das_call_given_filled N V view2). Qed.

(* a given and a fresh result hold the same image *)
Theorem glue_call_given_equals_fresh : forall T D (N : Num T) (V : Data T D) view2
    k xtol c rho ns dt t0 fill interp aggr w rows ss prev out g img out' g' img',
  das_call N V view2 k xtol c rho ns dt t0 fill interp aggr w rows ss (Some prev) = OMean out g img ->
  das_call N V view2 k xtol c rho ns dt t0 fill interp aggr w rows ss None = OMean out' g' img' ->
  img = img' /\ g = true /\ g' = false.
Proof. intros T D N V view2. exact (das_call_given_equals_fresh N V view2). Qed.

(* block-wise imaging, for every kernel (mean, median, Huber) and every outcome *)
Theorem glue_call_blockwise : forall T D (N : Num T) (V : Data T D) view2
    k xtol c rho ns dt t0 fill interp aggr w rows1 rows2 ss,
  das_call N V view2 k xtol c rho ns dt t0 fill interp aggr w (rows1 ++ rows2) ss None
  = out_app (das_call N V view2 k xtol c rho ns dt t0 fill interp aggr w rows1 ss None)
            (das_call N V view2 k xtol c rho ns dt t0 fill interp aggr w rows2 ss None).
Proof. intros T D N V view2. exact (das_call_blockwise N V view2). Qed.

(* a pixel depends on its own rows of the focal law only *)
Theorem glue_call_pixel_independent : forall T D (N : Num T) (V : Data T D) view2
    k xtol c rho ns dt t0 fill interp aggr w rows rows' ss out g img out' g' img' p q,
  das_call N V view2 k xtol c rho ns dt t0 fill interp aggr w rows ss None = OMean out g img ->
  das_call N V view2 k xtol c rho ns dt t0 fill interp aggr w rows' ss None = OMean out' g' img' ->
  nth_error rows p = nth_error rows' q ->
  nth_error img p = nth_error img' q.
Proof. intros T D N V view2. exact (das_call_pixel_independent N V view2). Qed.

(* a returned mean image is the output of the kernel of Model/Das.v named by the request, on the broadcast weights *)
Theorem glue_call_mean_is_kernel : forall T D (N : Num T) (V : Data T D) view2
    k xtol c rho ns dt t0 fill interp aggr w rows ss result out g img,
  das_call N V view2 k xtol c rho ns dt t0 fill interp aggr w rows ss result = OMean out g img ->
  mean_image N V k (scheme_of interp) ns dt t0 fill w rows ss = Some img
  /\ (k_amp k = AmpTxRx -> forall a, scheme_of interp <> Lanczos a)
  /\ k_amp k <> AmpOther.
Proof. intros T D N V view2. exact (das_call_mean_is_kernel N V view2). Qed.

(* the spelling of the option names is irrelevant (str.lower()): e.g. upper-casing them *)
Theorem glue_call_case_insensitive : forall T D (N : Num T) (V : Data T D) view2
    k xtol c rho ns dt t0 fill interp aggr w rows ss result,
  das_call N V view2 k xtol c rho ns dt t0 fill (map_name upper interp) (map_name upper aggr) w rows ss result
  = das_call N V view2 k xtol c rho ns dt t0 fill interp aggr w rows ss result.
Proof.
  intros T D N V view2 k xtol c rho ns dt t0 fill interp aggr w rows ss result.
  exact (das_call_case_insensitive N V view2 k xtol c rho ns dt t0 fill interp aggr w rows ss result upper lower_upper).
Qed.

(* the dtype of the lookup-time tables is irrelevant to the outcome *)
Theorem glue_call_lookup_dtype_irrelevant : forall T D (N : Num T) (V : Data T D) view2
    k d1 d2 xtol c rho ns dt t0 fill interp aggr w rows ss result,
  das_call N V view2 (set_lt k d1 d2) xtol c rho ns dt t0 fill interp aggr w rows ss result
  = das_call N V view2 k xtol c rho ns dt t0 fill interp aggr w rows ss result.
Proof. intros T D N V view2. exact (das_call_lookup_dtype_irrelevant N V view2). Qed.

(* ---- objects: aliasing of weigh_timetraces, what a call writes, histories of calls --------------------- *)
Theorem glue_weigh_no_weights_same_object : forall T D (V : Data T D) (h : heap D) tt a h',
  weigh_obj V h None tt = Some (a, h') -> a = tt /\ h' = h.
Proof. intros T D V. exact (weigh_obj_no_weights V). Qed.

Theorem glue_weigh_weights_new_object : forall T D (V : Data T D) (h : heap D) ws tt a h',
  wf_heap h -> weigh_obj V h (Some ws) tt = Some (a, h') ->
  exists rows, h_at h tt = Some (Arr2 rows) /\ length ws = length rows
               /\ a = h_next h /\ a <> tt /\ wf_heap h' /\ h_next h' = S (h_next h)
               /\ h_at h' a = Some (Arr2 (scale_rows V rows ws))
               /\ forall b, b <> a -> h_at h' b = h_at h b.
Proof. intros T D V. exact (weigh_obj_weights V). Qed.

(* one call: every object that existed and is not the caller's `result` is untouched — frame.timetraces in
   particular, aliased by weigh_timetraces or not — and the returned array holds the image of its content *)
Theorem glue_call_touches_result_only : forall T D (N : Num T) (V : Data T D)
    sc ns dt t0 fill w frows tx rx tt res (h : heap D) r h' rows,
  wf_heap h -> h_at h tt = Some (Arr2 rows) ->
  length tx = length rows -> length rx = length rows ->
  call_obj N V sc ns dt t0 fill w frows tx rx tt res h = Some (r, h') ->
  wf_heap h' /\ r <> tt /\ (h_next h <= h_next h')%nat
  /\ (forall b, b <> r -> (b < h_next h)%nat -> h_at h' b = h_at h b)
  /\ (match res with Some r0 => r = r0 | None => (h_next h <= r)%nat end)
  /\ exists img, das_noamp N V sc ns dt t0 fill w frows (scans_of tx rx rows) = Some img
                 /\ h_at h' r = Some (Arr1 img).
Proof. intros T D N V. exact (call_obj_spec N V). Qed.

(* histories: whatever call came before on the same frame (weights or not, fresh or given result, any
   options), a later call images the frame's original content *)
Theorem glue_call_history_independent : forall T D (N : Num T) (V : Data T D)
    sc1 ns1 dt1 t01 fill1 w1 frows1 res1 sc ns dt t0 fill w frows res tx rx tt (h : heap D) r1 h1 r h' rows,
  wf_heap h -> h_at h tt = Some (Arr2 rows) ->
  length tx = length rows -> length rx = length rows ->
  call_obj N V sc1 ns1 dt1 t01 fill1 w1 frows1 tx rx tt res1 h = Some (r1, h1) ->
  call_obj N V sc ns dt t0 fill w frows tx rx tt res h1 = Some (r, h') ->
  h_at h' tt = Some (Arr2 rows)
  /\ exists img, das_noamp N V sc ns dt t0 fill w frows (scans_of tx rx rows) = Some img
                 /\ h_at h' r = Some (Arr1 img).
Proof. intros T D N V. exact (call_obj_history N V). Qed.

(* ---- over the reals ------------------------------------------------------------------------------- *)
(* END TO END: whenever das.delay_and_sum returns a mean image — whatever the spelling of the options, the
   dtypes, the broadcasting of the weights, a fresh or a given result — it is das_spec *)
Theorem glue_call_mean_is_spec : forall D (V : Data R D), DataLaws V -> forall view2
    k xtol c rho ns dt t0 fill interp aggr w rows ss result out g img,
  das_call NumR V view2 k xtol c rho ns dt t0 fill interp aggr w rows ss result = OMean out g img ->
  img = das_spec NumR V (scheme_of interp) (with_amp_of k) ns dt t0 fill
                 (effective_weights NumR w (length ss)) rows ss.
Proof. intros D V L view2. exact (das_call_mean_is_spec V L view2). Qed.

(* geomed and huber_m_estimate do not depend on the order of the data ... *)
Theorem glue_geomed_order_irrelevant : forall data data' xtol maxiter c rho, Permutation data data' ->
  geomed NumR data xtol maxiter c rho = geomed NumR data' xtol maxiter c rho.
Proof. exact geomed_perm. Qed.

Theorem glue_huber_order_irrelevant : forall data data' tau xtol maxiter, Permutation data data' ->
  huber_m_estimate NumR data tau xtol maxiter = huber_m_estimate NumR data' tau xtol maxiter.
Proof. exact huber_perm. Qed.

(* ... hence the whole outcome of a call (exception, mean / median / Huber image, dtype) is invariant under a
   reordering of the timetraces, the weights reordered along (das_permutation covered the mean kernels) *)
Theorem glue_call_permutation : forall D (V : Data R D), DataLaws V -> forall view2
    k xtol c rho ns dt t0 fill interp aggr w w' rows ss ss' result,
  Permutation (combine ss (applied_weights w (length ss))) (combine ss' (applied_weights w' (length ss'))) ->
  option_map (@length R) w = option_map (@length R) w' ->
  das_call NumR V view2 k xtol c rho ns dt t0 fill interp aggr w rows ss result
  = das_call NumR V view2 k xtol c rho ns dt t0 fill interp aggr w' rows ss' result.
Proof. intros D V L view2. exact (das_call_permutation V L view2). Qed.

Theorem glue_applied_weights : forall w n,
  applied_weights w n = match w with
                        | None => repeat 1 n
                        | Some ws => if (length ws =? n)%nat then ws else repeat (hd 0 ws) n
                        end.
Proof. exact applied_weights_closed. Qed.

(* normalisation (the division by numtimetraces).  Every lookup outside the window: the pixel is the bare
   fill value, with or without amplitudes and weights ... *)
Theorem das_spec_all_outside : forall D (V : Data R D), DataLaws V -> forall sc b ns dt t0 fill w ss r,
  ss <> [] -> weights_ok w ss = true ->
  (forall s, In s ss -> in_window NumR sc ns (position NumR dt t0 r s) = false) ->
  das_spec_point NumR V sc b ns dt t0 fill w ss r = fill.
Proof. intros D V L. exact (das_spec_point_all_outside V L). Qed.

(* ... constant timetraces read inside the window (nearest / linear, no weights, no amplitudes): the constant *)
Theorem das_spec_dc_gain : forall D (V : Data R D), DataLaws V -> forall sc ns dt t0 fill ss r (c : D),
  ss <> [] -> (forall a, sc <> Lanczos a) ->
  (forall s, In s ss -> s_x s = repeat c (Z.to_nat ns) /\ in_window NumR sc ns (position NumR dt t0 r s) = true) ->
  das_spec_point NumR V sc false ns dt t0 fill None ss r = c.
Proof. intros D V L. exact (das_spec_point_dc_gain V L). Qed.

(* ... and the same through the dispatcher *)
Theorem glue_call_all_outside : forall D (V : Data R D), DataLaws V -> forall view2
    k xtol c rho ns dt t0 fill interp aggr w rows ss result out g img,
  das_call NumR V view2 k xtol c rho ns dt t0 fill interp aggr w rows ss result = OMean out g img ->
  ss <> [] ->
  (forall r s, In r rows -> In s ss -> in_window NumR (scheme_of interp) ns (position NumR dt t0 r s) = false) ->
  img = map (fun _ => fill) rows.
Proof. intros D V L view2. exact (das_call_all_outside V L view2). Qed.

Theorem glue_call_dc_gain : forall D (V : Data R D), DataLaws V -> forall view2
    k xtol c rho ns dt t0 fill interp aggr rows ss result out g img (v : D),
  das_call NumR V view2 k xtol c rho ns dt t0 fill interp aggr None rows ss result = OMean out g img ->
  ss <> [] -> k_amp k = AmpNone -> (forall a, scheme_of interp <> Lanczos a) ->
  (forall r s, In r rows -> In s ss ->
     s_x s = repeat v (Z.to_nat ns) /\ in_window NumR (scheme_of interp) ns (position NumR dt t0 r s) = true) ->
  img = map (fun _ => v) rows.
Proof. intros D V L view2. exact (das_call_dc_gain V L view2). Qed.

(* ==========================================================================
   non-vacuity of the prover-round theorems, and the replayable values of notes/prover_C02_TIE.md *)
From Coq Require Import Lra.
(* descriptors *)
Definition ex_focal (amp : amp_desc) (w : option (nat * dtype)) : focal_desc :=
  mkFocalD (mkArr2d 3 2 F64 true) (mkArr2d 3 2 F32 true) amp w (option_map fst w).
Definition ex_desc tt ttc amp w fillc (i a : pyopt unit) res : call_desc unit unit :=
  mkCall (frame_built 2 8 tt ttc) (ex_focal amp w) fillc i a res.
Definition ex_txrx d := FTxRx (mkArr2d 3 2 d true) (mkArr2d 3 2 d true).

Example glue_ex_result_type : result_type [F32; C64; F64] = Some C128 /\ result_type [F64; F32; C64] = Some C128
                         /\ result_type [F32; F32] = Some F32 /\ result_type [] = None.
Proof. repeat split. Qed.

(* fresh result: complex64 timetraces with float64 weights -> complex128; float32 everywhere stays float32 *)
Example glue_ex_plan_fresh :
  plan (ex_desc C64 true FNone (Some (2%nat, F64)) false (PStr "Linear") (PTup "MEAN" []) None) = PRun KNoampLinear C128 false
  /\ plan (ex_desc F32 true (ex_txrx F32) (Some (1%nat, F32)) false (PStr "nearest") (PStr "mean") None) = PRun KAmpNearest F32 false.
Proof. split; reflexivity. Qed.

Example glue_ex_plan_given :
  plan (ex_desc C128 true FNone None true (PTup "lanczos" [tt]) (PStr "mean") (Some ([3%nat], C64))) = PRun KNoampLanczos C64 true.
Proof. reflexivity. Qed.

Example glue_ex_plan_real :
  plan (ex_desc F32 true FNone (Some (2%nat, F64)) false (PStr "nearest") (PStr "mean") (Some ([3%nat], F32))) = PRun KNoampNearest F32 true
  /\ plan (ex_desc F64 true FNone None true (PStr "nearest") (PStr "mean") None) = PRaise ETyping.
Proof. split; reflexivity. Qed.

Example glue_ex_plan_robust :
  plan (ex_desc C64 true FNone (Some (2%nat, F64)) false (PTup "lanczos" [tt]) (PTup "Huber" [tt]) None) = PRun KHuberLanczos C128 false
  /\ plan (ex_desc C64 true FNone None false (PTup "lanczos" [tt]) (PTup "Huber" [tt]) None) = PRaise ENotImplTyping.
Proof. split; reflexivity. Qed.

(* error order: everything wrong at once *)
Example glue_ex_error_order :
  let bad_res := Some ([5%nat], F64) in
  (* ndarray amplitudes: NotImplementedError before any check *)
  plan (ex_desc F64 false FOther (Some (7%nat, F64)) false PEmpty PEmpty bad_res) = PRaise ENotImpl
  (* non-contiguous timetraces before the broadcast error, the result shape and the options *)
  /\ plan (ex_desc F64 false FNone (Some (7%nat, F64)) false PEmpty PEmpty bad_res) = PRaise (EAssert STtContig)
  /\ plan (ex_desc F64 true FNone (Some (7%nat, F64)) false PEmpty PEmpty bad_res) = PRaise EBroadcast
  (* no amplitudes: result.shape before the options *)
  /\ plan (ex_desc F64 true FNone None false PEmpty (PStr "foo") bad_res) = PRaise (EAssert SResultShape)
  /\ plan (ex_desc F64 true FNone None false PEmpty (PStr "foo") None) = PRaise EIndex
  /\ plan (ex_desc F64 true FNone None false (PStr "linear") (PStr "foo") None) = PRaise EUnbound
  (* amplitudes: aggregation, then result.shape, then interpolation *)
  /\ plan (ex_desc F64 true (ex_txrx F64) None false (PStr "foo") (PStr "median") bad_res) = PRaise ENotImpl
  /\ plan (ex_desc F64 true (ex_txrx F64) None false (PStr "foo") (PTup "mean" []) bad_res) = PRaise EAttribute
  /\ plan (ex_desc F64 true (ex_txrx F64) None false (PStr "foo") (PStr "Mean") bad_res) = PRaise (EAssert SResultShape)
  /\ plan (ex_desc F64 true (ex_txrx F64) None false (PStr "foo") (PStr "Mean") None) = PRaise EValueInterp.
Proof. repeat split. Qed.

Example glue_ex_prefix_ok :
  prefix_ok (ex_desc F64 true FNone (Some (1%nat, C64)) false (PStr "nearest") (PStr "mean") (Some ([5%nat], F64))) C128 2
  /\ prefix_ok (ex_desc F64 true (ex_txrx F32) None false (PStr "nearest") (PStr "mean") None) F64 2.
Proof. split; split; reflexivity. Qed.

(* constructors *)
Example glue_ex_ctors :
  txrx_init (mkRaw [3; 2]%nat F64 false) (mkRaw [3; 2]%nat C128 true) true = inl TDtype
  /\ txrx_init (mkRaw [3]%nat F64 true) (mkRaw [3; 2]%nat F64 true) true = inl TNdim
  /\ txrx_init (mkRaw [3; 2]%nat F64 false) (mkRaw [3; 4]%nat F64 true) true
     = inr (mkArr2d 3 2 F64 true, mkArr2d 3 4 F64 true)
  /\ focal_law_init (mkRaw [3; 2]%nat F64 false) (mkRaw [3; 4]%nat F32 true)
                    (ATxRx (mkArr2d 3 2 F64 true) (mkArr2d 3 4 F64 true)) (Some ([], F64)) true
     = inr (mkFocalD (mkArr2d 3 2 F64 true) (mkArr2d 3 4 F32 true)
                     (FTxRx (mkArr2d 3 2 F64 true) (mkArr2d 3 4 F64 true)) (Some (1%nat, F64)) (Some 1%nat))
  /\ focal_law_init (mkRaw [3]%nat F64 true) (mkRaw [4; 4]%nat F32 true) ANone None true = inl LNdim
  /\ focal_law_init (mkRaw [3; 2]%nat F64 true) (mkRaw [4; 4]%nat F32 true) ANone (Some ([2; 2]%nat, F64)) true = inl LRows
  /\ focal_law_init (mkRaw [3; 2]%nat F64 true) (mkRaw [3; 4]%nat F32 true) ANone (Some ([2; 2]%nat, F64)) true = inl LWeightsNdim
  /\ focal_law_init (mkRaw [3; 2]%nat F64 true) (mkRaw [3; 4]%nat F32 true)
                    (ATxRx (mkArr2d 3 2 F64 true) (mkArr2d 3 2 F64 true)) None true = inl LAmpRx
  /\ option_map numtimetraces
       (match focal_law_init (mkRaw [3; 2]%nat F64 true) (mkRaw [3; 4]%nat F32 true) ANone None true with
        | inr f => Some f | inl _ => None end) = Some None
  /\ option_map numtimetraces
       (match focal_law_init (mkRaw [3; 2]%nat F64 true) (mkRaw [3; 4]%nat F32 true) (AArr [3; 2]%nat) None true with
        | inr f => Some f | inl _ => None end) = Some (Some 2%nat).
Proof. repeat split. Qed.

(* the writes: any order, repetitions allowed, previous content irrelevant *)
Example glue_ex_prange : write_pixels [2; 0; 1; 2]%nat (fun p => (10 * p)%nat) [7; 7; 7]%nat = [0; 10; 20]%nat
                    /\ store 0%nat [7; 7; 7]%nat [1; 2; 3]%nat = [1; 2; 3]%nat.
Proof. repeat split. Qed.

(* ---- the call with its data, exact rationals (replayed on the library: notes/prover_C02_replay.py) ---- *)
Local Open Scope Q_scope.
Definition ex_k (amp : amp_kind) : ctl := mkCtl F64 true F64 F64 true F64 amp F64 false F64.
Definition ex_ss : list (scan Q) :=
  [mkScan 0 0 [10; 20; 40; 80]; mkScan 0 1 [1; 2; 3; 4]; mkScan 1 1 [100; 200; 300; 400]; mkScan 1 0 [5; 6; 7; 8]].
Definition ex_rows (atx arx : list Q) : list (prow Q Q) :=
  map (fun l => mkRow [l; 0] [0; 1 # 2] atx arx) [(-1) # 2; 0; 1 # 2; 5 # 2].
Definition ex_call k fill i a w rows ss res :=
  das_call NumQ (DataReal NumQ) (fun x => (x, 0)) k (1 # 1000) (1 # 10) (1 # 2) 4 1 0 fill i a w rows ss res.

Example glue_ex_nearest_mean :
  ex_call (ex_k AmpNone) (-7 # 1) (PStr "nearest") (PStr "mean") None (ex_rows [] []) ex_ss None
  = OMean F64 false [29; 29; 117 # 4; 149 # 4].
Proof. vm_compute. reflexivity. Qed.

Example glue_ex_linear_broadcast_given :
  ex_call (ex_k AmpNone) (-7 # 1) (PStr "LINEAR") (PTup "Mean" []) (Some [2]) (ex_rows [] []) ex_ss (Some [9; 9; 9; 9])
  = OMean F64 true [305 # 4; 333 # 4; 86; 423 # 4].
Proof. vm_compute. reflexivity. Qed.

Example glue_ex_amplitudes_weights :
  ex_call (ex_k AmpTxRx) 0 (PStr "nearest") (PStr "mean") (Some [1; 2; 3; 4]) (ex_rows [1 # 2; 4] [1; 10]) ex_ss None
  = OMean F64 false [12095 # 4; 12095 # 4; 12105 # 4; 3035].
Proof. vm_compute. reflexivity. Qed.

Example glue_ex_blockwise :
  ex_call (ex_k AmpNone) (-7 # 1) (PStr "linear") (PStr "mean") None (ex_rows [] []) ex_ss None
  = OMean F64 false [149 # 4; 333 # 8; 43; 52]
  /\ ex_call (ex_k AmpNone) (-7 # 1) (PStr "linear") (PStr "mean") None (firstn 2 (ex_rows [] [])) ex_ss None
     = OMean F64 false [149 # 4; 333 # 8]
  /\ ex_call (ex_k AmpNone) (-7 # 1) (PStr "linear") (PStr "mean") None (skipn 2 (ex_rows [] [])) ex_ss None
     = OMean F64 false [43; 52].
Proof. repeat split; vm_compute; reflexivity. Qed.

(* outcomes that are not images *)
Example glue_ex_outcomes :
  (* a tx index that is not a column of the tables: nothing checks it *)
  ex_call (ex_k AmpNone) 0 (PStr "nearest") (PStr "mean") None (ex_rows [] []) (mkScan 2 0 [1; 2; 3; 4] :: ex_ss) None
  = OUndefined UIndex
  (* one timetrace and two weights: the product has two rows, tx and rx one entry *)
  /\ ex_call (ex_k AmpNone) 0 (PStr "nearest") (PStr "mean") (Some [1; 2]) (ex_rows [] []) (firstn 1 ex_ss) None
     = OUndefined UShapeDrift
  /\ ex_call (ex_k AmpNone) 0 (PStr "nearest") (PStr "mean") (Some [1; 2; 3]) (ex_rows [] []) ex_ss None
     = ORaise EBroadcast
  /\ ex_call (ex_k AmpNone) 0 (PStr "nearest") (PStr "mean") None (ex_rows [] []) ex_ss (Some [9; 9; 9])
     = ORaise (EAssert SResultShape)
  /\ ex_call (ex_k AmpNone) 0 (PStr "nearest") (PStr "median") None (ex_rows [] []) ex_ss None
     = ORaise ENotImplTyping
  /\ ex_call (ex_k AmpOther) 0 (PStr "nearest") (PStr "mean") None (ex_rows [] []) ex_ss None
     = ORaise ENotImpl.
Proof. repeat split; vm_compute; reflexivity. Qed.

(* a robust kernel through the dispatcher: complex128 data (pairs), the median of three delayed samples *)
Definition exc_ss : list (scan (Q * Q)) :=
  [mkScan 0 0 [(0, 0); (4, 0)]; mkScan 0 1 [(0, 0); (0, 4)]; mkScan 1 1 [(0, 0); (0, 0)]].
Example glue_ex_median_runs :
  match das_call NumQ (DataCplx NumQ) (fun z => z) (mkCtl C128 true F64 F64 true F64 AmpNone F64 false F64)
                 (1 # 1000) (1 # 10) (1 # 2) 2 1 0 (0, 0) (PStr "Nearest") (PStr "Median") None
                 [mkRow [1; 1] [0; 0] [] []] exc_ss None with
  | ORobust C128 false [_] => true
  | _ => false
  end = true.
Proof. vm_compute. reflexivity. Qed.

(* objects *)
Definition ex_heap : heap Q := mkHeap 2 (fun a => match a with
                                                   | O => Some (Arr2 [[10; 20; 40; 80]; [1; 2; 3; 4]])
                                                   | S O => Some (Arr1 [9; 9])
                                                   | _ => None end).
Definition ex_frows : list (prow Q Q) := [mkRow [0; 1] [0; 2] [] []; mkRow [1 # 2; 0] [0; 0] [] []].
Example glue_ex_objects :
  (* no weights, fresh result: one allocation (address 2), the frame untouched *)
  (match call_obj NumQ (DataReal NumQ) Nearest 4 1 0 (-7 # 1) None ex_frows [0; 1]%nat [0; 1]%nat 0 None ex_heap with
   | Some (r, h) => Some (r, h_next h, h_at h r, h_at h 0%nat)
   | None => None end)
  = Some (2%nat, 3%nat, Some (Arr1 [7; 11 # 2]), Some (Arr2 [[10; 20; 40; 80]; [1; 2; 3; 4]]))
  (* weights, the caller's result at address 1: the weighted copy at address 2, the image written at 1 *)
  /\ (match call_obj NumQ (DataReal NumQ) Nearest 4 1 0 (-7 # 1) (Some [2; 3]) ex_frows [0; 1]%nat [0; 1]%nat 0 (Some 1%nat) ex_heap with
      | Some (r, h) => Some (r, h_next h, h_at h r, h_at h 2%nat, h_at h 0%nat)
      | None => None end)
     = Some (1%nat, 3%nat, Some (Arr1 [16; 23 # 2]), Some (Arr2 [[20; 40; 80; 160]; [3; 6; 9; 12]]),
             Some (Arr2 [[10; 20; 40; 80]; [1; 2; 3; 4]])).
Proof. split; vm_compute; reflexivity. Qed.
Local Close Scope Q_scope.

(* ---- over the reals ---------------------------------------------------------------------------- *)
Definition exr_k : ctl := mkCtl F64 true F64 F64 true F64 AmpNone F64 false F64.
Definition exr_ss : list (scan R) := [mkScan 0 0 [3; 3]; mkScan 0 0 [3; 3]].
(* a call over the reals that returns a mean image (the hypothesis of the end-to-end theorems) *)
Example glue_ex_real_call_returns :
  exists img, das_call NumR (DataReal NumR) (fun x => (x, 0)) exr_k 1 1 1 2 1 0 (-7) (PStr "Linear") (PStr "mean") None
                       [mkRow [1 / 2] [0] [] []] exr_ss None = OMean F64 false img.
Proof.
  eexists. rewrite das_call_nf.
  replace (plan _) with (PRun KNoampLinear F64 false) by reflexivity.
  replace (indices_ok _ _ _) with true by reflexivity.
  reflexivity.
Qed.

(* in-window / out-of-window hypotheses are satisfiable: position 1/2 and position 10 of a 2-sample timetrace *)
Example glue_ex_windows :
  in_window NumR Linear 2 (position NumR 1 0 (mkRow [1 / 2] [0] ([] : list R) []) (mkScan 0 0 [3; 3])) = true
  /\ in_window NumR Linear 2 (position NumR 1 0 (mkRow [5] [5] ([] : list R) []) (mkScan 0 0 [3; 3])) = false.
Proof.
  unfold in_window, position, lookup_time, getT. cbn [r_lt_tx r_lt_rx s_tx s_rx nth]. numr. change (IZR (2 - 1)) with 1. split.
  - rewrite Rle_bool_true by lra. rewrite Rlt_bool_true by lra. reflexivity.
  - rewrite Rle_bool_true by lra. rewrite Rlt_bool_false by lra. reflexivity.
Qed.

Example glue_ex_reordering :
  Permutation (combine [mkScan 0 0 [1; 2]; mkScan 0 1 [3; 4]] (applied_weights (Some [2; 5]) 2))
              (combine [mkScan 0 1 [3; 4]; mkScan 0 0 [1; 2]] (applied_weights (Some [5; 2]) 2))
  /\ Permutation (combine [mkScan 0 0 [1; 2]; mkScan 0 1 [3; 4]] (applied_weights (Some [7]) 2))
                 (combine [mkScan 0 1 [3; 4]; mkScan 0 0 [1; 2]] (applied_weights (Some [7]) 2)).
Proof. rewrite !applied_weights_closed. cbn. split; apply perm_swap. Qed.
