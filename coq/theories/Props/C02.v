(* Props/C02.v — Delay-and-sum image equals its mathematical definition.
   Statements only; proofs are in Proofs/DasProofs.v and Proofs/RobustProofs.v.

   Model: Model/Das.v (the numba kernels reachable from arim.im.das.delay_and_sum,
   FocalLaw.weigh_timetraces, the two dispatch levels) and Model/Robust.v
   (geomed, huber_m_estimate, the robust kernels).  Numeric statements are about
   the real-number instance NumR (exact arithmetic); sample values live in any
   module `Data R D` satisfying `DataLaws` — the real (D = R) and the
   complex-as-pairs (D = R*R) instances do (first two theorems).

   The specification (Model/Das.v, `das_spec`):
     image(point) = (1/N) * sum_k term_k,   l_k = (tau_tx + tau_rx - t0) / dt
     term_k = w_k * (Atx * Arx) * interp(x_k, l_k)   if l_k is in the window of the scheme
            = fill                                   otherwise     (bare fill value)
   with raw timetraces x_k and weights w_k (1 when no weights are given); windows:
     nearest  0 <= round(l) < n      (round half to even)
     linear   0 <= l < n - 1
     lanczos  0 <= l < n             (periodic index i mod n, as the code does)

   What is NOT covered by these theorems (sampled by harness/prop_C02.py):
   binary64/binary32 rounding, numba fastmath, numpy dtype promotion, the
   Frame/FocalLaw glue, convergence of the geomed / Huber iterations. *)
From Coq Require Import List Reals ZArith Bool Permutation QArith.
From Flocq Require Import Core.Raux Core.Round_NE Core.Generic_fmt.
From Arim Require Import Base.Num Base.NumR Base.NumQ Model.Das Model.Robust Proofs.DasProofs Proofs.RobustProofs.
Import ListNotations.
Local Open Scope R_scope.

Theorem data_real_laws : DataLaws (DataReal NumR).
Proof. exact DataReal_laws. Qed.

Theorem data_complex_laws : DataLaws (DataCplx NumR).
Proof. exact DataCplx_laws. Qed.

(* ---- every mean kernel equals the definition, for all frames (any list of
   timetraces, any tx/rx indices), tables, weights, fill value, any N ---------
   `weights_ok` = no weights, or as many weights as timetraces (numpy raises
   otherwise: the model returns None). *)
Theorem das_nearest_spec : forall D (V : Data R D), DataLaws V ->
  forall ns dt t0 fill w rows ss,
  das_noamp NumR V Nearest ns dt t0 fill w rows ss =
  if weights_ok w ss then Some (das_spec NumR V Nearest false ns dt t0 fill w rows ss) else None.
Proof. intros D V L ns dt t0 fill w rows ss. exact (das_noamp_spec_gen V L Nearest ns dt t0 fill w rows ss). Qed.

(* unconditional since the math.floor repair: a lookup in (t0 - dt, t0) is filled *)
Theorem das_linear_spec : forall D (V : Data R D), DataLaws V ->
  forall ns dt t0 fill w rows ss,
  das_noamp NumR V Linear ns dt t0 fill w rows ss =
  if weights_ok w ss then Some (das_spec NumR V Linear false ns dt t0 fill w rows ss) else None.
Proof. intros D V L ns dt t0 fill w rows ss. exact (das_noamp_spec_gen V L Linear ns dt t0 fill w rows ss). Qed.

Theorem das_lanczos_spec : forall D (V : Data R D), DataLaws V ->
  forall a ns dt t0 fill w rows ss,
  das_noamp NumR V (Lanczos a) ns dt t0 fill w rows ss =
  if weights_ok w ss then Some (das_spec NumR V (Lanczos a) false ns dt t0 fill w rows ss) else None.
Proof. intros D V L a ns dt t0 fill w rows ss. exact (das_noamp_spec_gen V L (Lanczos a) ns dt t0 fill w rows ss). Qed.

Theorem das_amp_nearest_spec : forall D (V : Data R D), DataLaws V ->
  forall ns dt t0 fill w rows ss,
  das_amp NumR V Nearest ns dt t0 fill w rows ss =
  if weights_ok w ss then Some (das_spec NumR V Nearest true ns dt t0 fill w rows ss) else None.
Proof. intros D V L ns dt t0 fill w rows ss. exact (das_amp_spec_gen V L Nearest ns dt t0 fill w rows ss). Qed.

Theorem das_amp_linear_spec : forall D (V : Data R D), DataLaws V ->
  forall ns dt t0 fill w rows ss,
  das_amp NumR V Linear ns dt t0 fill w rows ss =
  if weights_ok w ss then Some (das_spec NumR V Linear true ns dt t0 fill w rows ss) else None.
Proof. intros D V L ns dt t0 fill w rows ss. exact (das_amp_spec_gen V L Linear ns dt t0 fill w rows ss). Qed.

(* amplitudes identically one give the same image as no amplitudes
   (the amp kernels divide by dt, the noamp kernels multiply by 1/dt) *)
Theorem das_unit_amp : forall D (V : Data R D), DataLaws V ->
  forall sc ns dt t0 fill w rows ss,
  unit_amps V rows ss -> (forall a, sc <> Lanczos a) ->
  das_amp NumR V sc ns dt t0 fill w rows ss = das_noamp NumR V sc ns dt t0 fill w rows ss.
Proof. intros D V L sc ns dt t0 fill w rows ss. exact (das_unit_amp_gen V L sc ns dt t0 fill w rows ss). Qed.

(* l + f*(r - l)  (amp kernel)  =  (1 - f)*l + f*r  (noamp kernel) *)
Theorem das_linear_two_forms : forall D (V : Data R D), DataLaws V ->
  forall f a b, dadd V a (dscale V f (dsub V b a)) = dadd V (dscale V (1 - f) a) (dscale V f b).
Proof. intros D V L f a b. exact (linear_two_forms V L f a b). Qed.

(* at an integer position the linear scheme returns the sample; between two
   samples, the chord *)
Theorem das_linear_nodes : forall D (V : Data R D), DataLaws V ->
  forall ns x i, interp NumR V Linear ns x (IZR i) = sample V x i.
Proof. intros D V L ns x i. exact (interp_linear_node V L ns x i). Qed.

Theorem das_linear_between : forall D (V : Data R D), DataLaws V ->
  forall ns x i f, 0 <= f < 1 ->
  interp NumR V Linear ns x (IZR i + f)
  = dadd V (dscale V (1 - f) (sample V x i)) (dscale V f (sample V x (i + 1)%Z)).
Proof. intros D V L ns x i f. exact (interp_linear_between V ns x i f). Qed.

(* Lanczos (a >= 1) at an integer position returns the sample (periodic index):
   all the other taps sit on zeros of sinc *)
Theorem das_lanczos_nodes : forall D (V : Data R D), DataLaws V ->
  forall a ns x i, (1 <= a)%Z ->
  interp NumR V (Lanczos a) ns x (IZR i) = sample V x (i mod ns)%Z.
Proof. intros D V L a ns x i. exact (interp_lanczos_node V L a ns x i). Qed.

(* the image does not depend on the order of the timetraces (weights reordered along) *)
Theorem das_permutation : forall D (V : Data R D), DataLaws V ->
  forall sc ns dt t0 fill w w' rows ss ss',
  weights_ok w ss = true -> weights_ok w' ss' = true ->
  Permutation (combine ss (eff_weights NumR w (length ss))) (combine ss' (eff_weights NumR w' (length ss'))) ->
  das_noamp NumR V sc ns dt t0 fill w rows ss = das_noamp NumR V sc ns dt t0 fill w' rows ss'.
Proof. intros D V L sc ns dt t0 fill w w' rows ss ss'. exact (das_noamp_perm V L sc ns dt t0 fill w w' rows ss ss'). Qed.

Theorem das_amp_permutation : forall D (V : Data R D), DataLaws V ->
  forall sc ns dt t0 fill w w' rows ss ss',
  weights_ok w ss = true -> weights_ok w' ss' = true ->
  Permutation (combine ss (eff_weights NumR w (length ss))) (combine ss' (eff_weights NumR w' (length ss'))) ->
  das_amp NumR V sc ns dt t0 fill w rows ss = das_amp NumR V sc ns dt t0 fill w' rows ss'.
Proof. intros D V L sc ns dt t0 fill w w' rows ss ss'. exact (das_amp_perm V L sc ns dt t0 fill w w' rows ss ss'). Qed.

Theorem das_permutation_unweighted : forall D (V : Data R D), DataLaws V ->
  forall sc ns dt t0 fill rows ss ss', Permutation ss ss' ->
  das_noamp NumR V sc ns dt t0 fill None rows ss = das_noamp NumR V sc ns dt t0 fill None rows ss'.
Proof.
  intros D V L sc ns dt t0 fill rows ss ss' HP.
  exact (das_noamp_perm V L sc ns dt t0 fill None None rows ss ss' eq_refl eq_refl (perm_noweights ss ss' HP)).
Qed.

(* linearity in the data: every interpolation scheme is linear in the timetrace
   (reading c*x + y gives c * (reading x) + (reading y)) ... *)
Theorem das_interp_linear_in_data : forall D (V : Data R D), DataLaws V ->
  forall sc ns c x y l, length x = length y ->
  interp NumR V sc ns (lincomb V c x y) l
  = dadd V (dscale V c (interp NumR V sc ns x l)) (interp NumR V sc ns y l).
Proof. intros D V L sc ns c x y l. exact (interp_lincomb V L sc ns c x y l). Qed.

(* ... hence with fill = 0 the image of the frame c*X + Y (same tx/rx, same
   number of samples, timetrace by timetrace) is c * image(X) + image(Y), for
   every scheme, with or without amplitudes and weights *)
Theorem das_linear_in_data : forall D (V : Data R D), DataLaws V ->
  forall sc b ns dt t0 w c rows ssx ssy,
  Forall2 same_shape ssx ssy ->
  das_spec NumR V sc b ns dt t0 (dzero V) w rows (frame_lincomb V c ssx ssy)
  = map (fun r => dadd V (dscale V c (das_spec_point NumR V sc b ns dt t0 (dzero V) w ssx r))
                         (das_spec_point NumR V sc b ns dt t0 (dzero V) w ssy r)) rows.
Proof. intros D V L sc b ns dt t0 w c rows ssx ssy. exact (das_spec_lincomb V L sc b ns dt t0 w c rows ssx ssy). Qed.

(* ---- windows: the tests written in the kernels are the windows of the spec - *)
Theorem nearest_window : forall ns i,
  out_idx ns i = negb ((0 <=? i)%Z && (i <? ns)%Z).
Proof. exact out_idx_window. Qed.

Theorem linear_window_floor : forall ns l,
  ((Zfloor l <? 0)%Z || (Zfloor l + 1 >=? ns)%Z) = negb (Rle_bool 0 l && Rlt_bool l (IZR (ns - 1))).
Proof. exact linear_window. Qed.

Theorem lanczos_window_test : forall ns l,
  out_pos NumR ns l = negb (Rle_bool 0 l && Rlt_bool l (IZR ns)).
Proof. exact lanczos_out_window. Qed.

(* ---- dispatch: over the whole finite request domain (3 amplitude kinds x 16
   spellings of `interpolation` x 16 spellings of `aggregation` x 3 dtype classes)
   a canonical request is served by exactly the kernel the documentation names
   or raises; no request is ever served by a kernel of another scheme *)
Theorem dispatch_total : forall am i a d, In i all_interp -> In a all_aggr ->
  dispatch_ok (am, i, a, d) = true.
Proof. exact dispatch_total_lemma. Qed.

Theorem dispatch_accepted_count : length accepted_canonical = 18%nat.
Proof. exact accepted_count. Qed.

(* ---- robust aggregations: the vector handed to geomed / huber_m_estimate is
   exactly the vector of delayed samples of the mean kernel (same indexing, same
   bare fill value) — for every numeric instance, floats included *)
Theorem das_median_samples : forall T D (N : Num T) (V : Data T D) ns invdt t0 fill r ss,
  median_nearest_samples N V ns invdt t0 fill r ss = map (term_noamp_nearest N V ns invdt t0 fill r) ss
  /\ forall a, median_lanczos_samples N V a ns invdt t0 fill r ss = map (term_noamp_lanczos N V a ns invdt t0 fill r) ss.
Proof.
  intros T D N V ns invdt t0 fill r ss.
  exact (conj (median_nearest_samples_eq N V ns invdt t0 fill r ss)
              (fun a => median_lanczos_samples_eq N V a ns invdt t0 fill r ss)).
Qed.

Theorem das_huber_samples : forall T D (N : Num T) (V : Data T D) a ns invdt t0 fill r ss,
  huber_lanczos_samples N V a ns invdt t0 fill r ss = map (term_noamp_lanczos N V a ns invdt t0 fill r) ss.
Proof. intros T D N V a ns invdt t0 fill r ss. exact (huber_lanczos_samples_eq N V a ns invdt t0 fill r ss). Qed.

Theorem das_mean_of_samples : forall T D (N : Num T) (V : Data T D) (term : scan D -> D) ss,
  accumulate N V term ss = ddiv V (dsum_left V (map term ss)) (nofZ N (Z.of_nat (length ss))).
Proof. intros T D N V term ss. exact (accumulate_of_samples N V term ss). Qed.

(* ... and over the reals: median / Huber image = geomed / Huber location of the
   spec's summands  w_k * interp(x_k, l_k)  or  fill *)
Theorem das_median_nearest_is_geomed : forall xtol c rho ns dt t0 fill w rows ss,
  das_robust NumR Median Nearest xtol c rho ns dt t0 fill w rows ss =
  if weights_ok w ss
  then Some (map (fun r => res_point (geomed NumR (spec_samples Nearest ns dt t0 fill w ss r) xtol 200 c rho)) rows)
  else None.
Proof. exact das_median_nearest_spec. Qed.

Theorem das_median_lanczos_is_geomed : forall a xtol c rho ns dt t0 fill w rows ss,
  das_robust NumR Median (Lanczos a) xtol c rho ns dt t0 fill w rows ss =
  if weights_ok w ss
  then Some (map (fun r => res_point (geomed NumR (spec_samples (Lanczos a) ns dt t0 fill w ss r) xtol 200 c rho)) rows)
  else None.
Proof. exact das_median_lanczos_spec. Qed.

Theorem das_huber_lanczos_is_huber : forall a tau xtol c rho ns dt t0 fill w rows ss,
  das_robust NumR (Huber tau) (Lanczos a) xtol c rho ns dt t0 fill w rows ss =
  if weights_ok w ss
  then Some (map (fun r => res_point (huber_m_estimate NumR (spec_samples (Lanczos a) ns dt t0 fill w ss r) tau xtol 600)) rows)
  else None.
Proof. exact das_huber_lanczos_spec. Qed.

(* a fixed point of _huber_iter solves Huber's estimating equation
   sum_i psi_tau(z - d_i) = 0,  psi_tau(v) = v * min(1, tau/|v|) *)
Theorem huber_fixed_point : forall data tau z,
  fst (fst (huber_sums NumR data tau z)) <> 0 ->
  huber_iter NumR data tau z = z ->
  huber_psi_sum NumR data tau z = (0, 0).
Proof. exact huber_fixed_point_R. Qed.

(* geomed: (a11, a12, a22) returned by _gradf_and_inv_hessf is the inverse of the
   accumulated Hessian and the direction used is the Newton direction -H^-1 g *)
Theorem geomed_newton_step : forall data z,
  let '(gx, gy, h11, h12, h22) := grad_hess NumR data z in
  let '(gx', gy', i11, i12, i22) := gradf_and_inv_hessf NumR data z in
  h11 * h22 - h12 * h12 <> 0 ->
  gx' = gx /\ gy' = gy /\
  h11 * i11 + h12 * i12 = 1 /\ h11 * i12 + h12 * i22 = 0 /\
  h12 * i11 + h22 * i12 = 0 /\ h12 * i12 + h22 * i22 = 1 /\
  (let px := - i11 * gx - i12 * gy in let py := - i12 * gx - i22 * gy in
   h11 * px + h12 * py = - gx /\ h12 * px + h22 * py = - gy).
Proof. exact geomed_newton_step_R. Qed.

(* the accumulated (gx, gy) is the gradient sum_i (z - d_i)/|z - d_i| *)
Theorem geomed_gradient : forall data z,
  let '(gx, gy, _, _, _) := grad_hess NumR data z in (gx, gy) = geomed_grad NumR data z.
Proof. exact grad_hess_is_gradient. Qed.

(* FULL statement wanted: geomed returns (within xtol) the minimiser of
   z |-> sum_i |z - d_i|.  Proved part: a zero of the gradient at a point distinct
   from the data is a global minimiser (convexity).  Missing: convergence of the
   Newton iteration with backtracking to such a zero (the harness checks the
   first-order condition on the implementation's outputs instead). *)
Theorem geomed_stationary_is_min_partial : forall data z,
  Forall (fun d => dist NumR z d <> 0) data ->
  geomed_grad NumR data z = (0, 0) ->
  forall y, sumdist data z <= sumdist data y.
Proof. exact geomed_stationary_is_min_R. Qed.

Theorem geomed_objective : forall data z, geomed_f NumR data z = sumdist data z.
Proof. exact geomed_f_sumdist. Qed.

(* ---- non-vacuity: the model computes (exact rationals).  One timetrace
   x = [10; 20; 40; 80], dt = 1, t0 = 0, fill = -7, lookups at
   -1/2 (filled since the repair; the old int() gave 3/2*10 - 1/2*20 = 5),
   0, 1/2, 5/2, 3 (right edge: filled) *)
Local Open Scope Q_scope.
Example linear_quarter_positions :
  das_noamp NumQ (DataReal NumQ) Linear 4 1 0 (-7 # 1) None
    (map (fun l => mkRow [l] [0] [] []) [(-1) # 2; 0; 1 # 2; 5 # 2; 3])
    [mkScan 0 0 [10; 20; 40; 80]]
  = Some [(-7) # 1; 10 # 1; 15 # 1; 60 # 1; (-7) # 1].
Proof. vm_compute. reflexivity. Qed.

(* nearest: round half to even: 1/2 -> sample 0, 3/2 -> sample 2, 5/2 -> sample 2, 7/2 -> out *)
Example nearest_half_even :
  das_noamp NumQ (DataReal NumQ) Nearest 4 1 0 (-7 # 1) None
    (map (fun l => mkRow [l] [0] [] []) [(-1) # 2; 1 # 2; 3 # 2; 5 # 2; 7 # 2; (-3) # 4])
    [mkScan 0 0 [10; 20; 40; 80]]
  = Some [10 # 1; 10 # 1; 40 # 1; 40 # 1; (-7) # 1; (-7) # 1].
Proof. vm_compute. reflexivity. Qed.

(* weights, amplitudes, tx/rx indirection and the division by numtimetraces *)
Example amp_weighted_two_traces :
  das_amp NumQ (DataReal NumQ) Nearest 2 1 0 0 (Some [2; 3])
    [mkRow [0; 1] [0; 5] [1 # 2; 4] [1; 10]]
    [mkScan 0 0 [1; 100]; mkScan 1 0 [7; 1000]]
  = Some [12001 # 2].   (* ((1/2 * 1) * (2*1) + (4 * 1) * (3*1000)) / 2 *)
Proof. vm_compute. reflexivity. Qed.
