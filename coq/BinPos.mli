open BinNums
open Datatypes

module Pos :
 sig
  val succ : positive -> positive

  val of_succ_nat : nat -> positive
 end
