open BinNums
open BinPos
open Datatypes

module Z :
 sig
  val of_nat : nat -> coq_Z
 end
