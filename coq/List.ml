open Datatypes

(** val rev : 'a1 list -> 'a1 list **)

let rec rev = function
| [] -> []
| x :: l' -> app (rev l') (x :: [])

(** val fold_left : ('a1 -> 'a2 -> 'a1) -> 'a2 list -> 'a1 -> 'a1 **)

let rec fold_left f l a0 =
  match l with
  | [] -> a0
  | b :: t -> fold_left f t (f a0 b)

(** val combine : 'a1 list -> 'a2 list -> ('a1 * 'a2) list **)

let rec combine l l' =
  match l with
  | [] -> []
  | x :: tl ->
    (match l' with
     | [] -> []
     | y :: tl' -> (x, y) :: (combine tl tl'))

(** val firstn : nat -> 'a1 list -> 'a1 list **)

let rec firstn n l =
  match n with
  | O -> []
  | S n0 -> (match l with
             | [] -> []
             | a :: l0 -> a :: (firstn n0 l0))

(** val seq : nat -> nat -> nat list **)

let rec seq start = function
| O -> []
| S len0 -> start :: (seq (S start) len0)
