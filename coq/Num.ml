open BinInt
open BinNums
open Datatypes
open List

type 't coq_Num = { n0 : 't; n1 : 't; nadd : ('t -> 't -> 't);
                    nsub : ('t -> 't -> 't); nmul : ('t -> 't -> 't);
                    ndiv : ('t -> 't -> 't); nopp : ('t -> 't);
                    nsqrt : ('t -> 't); nsin : ('t -> 't); ncos : ('t -> 't);
                    nasin : ('t -> 't); nacos : ('t -> 't);
                    natan2 : ('t -> 't -> 't); nexp : ('t -> 't);
                    nln : ('t -> 't); npi : 't; nltb : ('t -> 't -> bool);
                    nleb : ('t -> 't -> bool); neqb : ('t -> 't -> bool);
                    nofZ : (coq_Z -> 't); nfloor : ('t -> coq_Z);
                    ntrunc : ('t -> coq_Z); nround : ('t -> coq_Z) }

(** val n0 : 'a1 coq_Num -> 'a1 **)

let n0 n =
  n.n0

(** val n1 : 'a1 coq_Num -> 'a1 **)

let n1 n =
  n.n1

(** val nadd : 'a1 coq_Num -> 'a1 -> 'a1 -> 'a1 **)

let nadd n =
  n.nadd

(** val nsub : 'a1 coq_Num -> 'a1 -> 'a1 -> 'a1 **)

let nsub n =
  n.nsub

(** val nmul : 'a1 coq_Num -> 'a1 -> 'a1 -> 'a1 **)

let nmul n =
  n.nmul

(** val ndiv : 'a1 coq_Num -> 'a1 -> 'a1 -> 'a1 **)

let ndiv n =
  n.ndiv

(** val nopp : 'a1 coq_Num -> 'a1 -> 'a1 **)

let nopp n =
  n.nopp

(** val nsqrt : 'a1 coq_Num -> 'a1 -> 'a1 **)

let nsqrt n =
  n.nsqrt

(** val nsin : 'a1 coq_Num -> 'a1 -> 'a1 **)

let nsin n =
  n.nsin

(** val ncos : 'a1 coq_Num -> 'a1 -> 'a1 **)

let ncos n =
  n.ncos

(** val nasin : 'a1 coq_Num -> 'a1 -> 'a1 **)

let nasin n =
  n.nasin

(** val nacos : 'a1 coq_Num -> 'a1 -> 'a1 **)

let nacos n =
  n.nacos

(** val natan2 : 'a1 coq_Num -> 'a1 -> 'a1 -> 'a1 **)

let natan2 n =
  n.natan2

(** val nexp : 'a1 coq_Num -> 'a1 -> 'a1 **)

let nexp n =
  n.nexp

(** val nln : 'a1 coq_Num -> 'a1 -> 'a1 **)

let nln n =
  n.nln

(** val npi : 'a1 coq_Num -> 'a1 **)

let npi n =
  n.npi

(** val nltb : 'a1 coq_Num -> 'a1 -> 'a1 -> bool **)

let nltb n =
  n.nltb

(** val nleb : 'a1 coq_Num -> 'a1 -> 'a1 -> bool **)

let nleb n =
  n.nleb

(** val neqb : 'a1 coq_Num -> 'a1 -> 'a1 -> bool **)

let neqb n =
  n.neqb

(** val nofZ : 'a1 coq_Num -> coq_Z -> 'a1 **)

let nofZ n =
  n.nofZ

(** val nfloor : 'a1 coq_Num -> 'a1 -> coq_Z **)

let nfloor n =
  n.nfloor

(** val ntrunc : 'a1 coq_Num -> 'a1 -> coq_Z **)

let ntrunc n =
  n.ntrunc

(** val nround : 'a1 coq_Num -> 'a1 -> coq_Z **)

let nround n =
  n.nround

(** val nsum : 'a1 coq_Num -> 'a1 list -> 'a1 **)

let nsum n l =
  fold_left n.nadd l n.n0

(** val nprod : 'a1 coq_Num -> 'a1 list -> 'a1 **)

let nprod n l =
  fold_left n.nmul l n.n1

(** val nsq : 'a1 coq_Num -> 'a1 -> 'a1 **)

let nsq n x =
  n.nmul x x

(** val nofnat : 'a1 coq_Num -> nat -> 'a1 **)

let nofnat n n2 =
  n.nofZ (Z.of_nat n2)

(** val nmax : 'a1 coq_Num -> 'a1 -> 'a1 -> 'a1 **)

let nmax n a b =
  if n.nltb a b then b else a

(** val nmin : 'a1 coq_Num -> 'a1 -> 'a1 -> 'a1 **)

let nmin n a b =
  if n.nltb b a then b else a

(** val nabs : 'a1 coq_Num -> 'a1 -> 'a1 **)

let nabs n a =
  if n.nltb a n.n0 then n.nopp a else a
