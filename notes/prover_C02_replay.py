"""Replay of the tie of Model/DasGlue.v (C02 prover round) against the real library.

  PYTHONPATH=/repo/src /venv/bin/python /verif/notes/prover_C02_replay.py [out.json]

Part 1 (plan): a list of calls of arim.im.das.delay_and_sum described by dtypes / shapes / contiguity /
option spellings / result=; for each the library's outcome is written in the vocabulary of the model
(`plan_obs (plan c)`: ORaiseO err | ORunO dtype given) next to the Coq term of the descriptor, and
/verif/notes/prover_C02_tie.v is (re)generated: one `Example ... vm_compute` per case, so that
`coqc` decides the agreement.
Part 2 (values): the das_call examples of the note (exact rationals) compared with the library's floats.
Nothing here runs a call whose model outcome is PUndefined (out-of-bounds reads).
"""
import json
import sys
import traceback
import warnings
from fractions import Fraction

import numpy
import numpy as np

numpy.complex_ = numpy.complex128
numpy.float_ = numpy.float64
warnings.simplefilter("ignore")
import arim.im.das as das  # noqa: E402
import arim.im.tfm as tfm  # noqa: E402
from arim.core import Frame, Probe, Time  # noqa: E402

DT = {"F32": np.float32, "F64": np.float64, "C64": np.complex64, "C128": np.complex128}
NAME = {np.dtype(v).name: k for k, v in DT.items()}

ASSERT_LINES = {
    ("das.py", 58): "SAmpTxShape", ("das.py", 59): "SAmpRxShape", ("das.py", 60): "SAmpTxContig",
    ("das.py", 61): "SAmpRxContig", ("das.py", 63): "SFrameTxShape", ("das.py", 64): "SFrameRxShape",
    ("das.py", 66): "SLtxContig", ("das.py", 67): "SLrxContig", ("das.py", 68): "STtContig",
    ("das.py", 69): "STxContig", ("das.py", 70): "SRxContig", ("tfm.py", 296): "STtNdim",
    ("das.py", 118): "SResultShape", ("das.py", 404): "SResultShape",
    ("das.py", 426): "SInterpArgs", ("das.py", 429): "SInterpArgs", ("das.py", 432): "SInterpArgs",
    ("das.py", 440): "SInterpArgs", ("das.py", 443): "SInterpArgs", ("das.py", 451): "SInterpArgs",
}


def classify(e):
    tb = [(t.filename.split("/")[-1], t.lineno) for t in traceback.extract_tb(e.__traceback__) if "/arim/" in t.filename]
    loc = tb[-1] if tb else None
    n = type(e).__name__
    if n == "AssertionError":
        return "EAssert " + ASSERT_LINES[loc]
    if n == "ValueError":
        return "EBroadcast" if loc[0] == "tfm.py" else "EValueInterp"
    return {"NotImplementedError": "ENotImpl", "NotImplementedTyping": "ENotImplTyping",
            "AttributeError": "EAttribute", "IndexError": "EIndex", "UnboundLocalError": "EUnbound",
            "TypeError": "EArgCount", "TypingError": "ETyping", "SystemError": "EKernelRuntime"}[n]


def build(case):
    n, ns, npt = case.get("n", 2), case.get("ns", 8), case.get("npt", 3)
    pairs = [(0, 0), (0, 1), (1, 1), (1, 0)][:n]
    tt = (np.arange(n * ns).reshape(n, ns) % 7 + 1).astype(DT[case["tt"]])
    if case["tt"] in ("C64", "C128"):
        tt = tt + 1j * tt[:, ::-1]
    if case.get("tt_order", "C") == "F":
        tt = np.asfortranarray(tt)
    frame = Frame(np.ascontiguousarray(tt), Time(0.0, 1.0, ns), [p[0] for p in pairs], [p[1] for p in pairs],
                  Probe(np.zeros((2, 3)), 1e6), None)
    frame.timetraces = tt
    ltx = (np.arange(npt * 2).reshape(npt, 2) * 0.5).astype(DT[case["lt"][0]])
    lrx = (np.arange(npt * 2).reshape(npt, 2) * 0.25).astype(DT[case["lt"][1]])
    amp = None
    if case["amp"] == "ndarray":
        amp = np.ones((npt, 2))
    elif case["amp"] is not None:
        amp = tfm.TxRxAmplitudes(np.ones((npt, 2), DT[case["amp"]]), np.ones((npt, 2), DT[case["amp"]]))
    w = None
    if case["w"] is not None:
        w = (np.arange(case["w"][1]) + 1).astype(DT[case["w"][0]])
    fl = tfm.FocalLaw(ltx, lrx, amp, w)
    if case.get("lt_order", "C") == "F":
        fl.lookup_times_tx = np.asfortranarray(fl.lookup_times_tx)
    res = None
    if case["result"] is not None:
        res = np.full(tuple(case["result"][0]), 7, dtype=DT[case["result"][1]])
    return frame, fl, res


def pyopt(o):
    return tuple(o) if isinstance(o, list) else o


def run_case(case):
    frame, fl, res = build(case)
    fill = 1j if case["fill"] == "complex" else -7.0
    try:
        r = das.delay_and_sum(frame, fl, fillvalue=fill, interpolation=pyopt(case["interp"]),
                              aggregation=pyopt(case["aggr"]), result=res)
        return "ORunO %s %s" % (NAME[r.dtype.name], "true" if r is res else "false")
    except BaseException as e:  # noqa: BLE001
        return "ORaiseO (%s)" % classify(e)


def coq_opt(o):
    if isinstance(o, str):
        return 'PStr "%s"' % o
    if len(o) == 0:
        return "PEmpty"
    return 'PTup "%s" [%s]' % (o[0], "; ".join("tt" for _ in o[1:]))


def coq_case(case):
    n, ns, npt = case.get("n", 2), case.get("ns", 8), case.get("npt", 3)
    ttc = "false" if case.get("tt_order", "C") == "F" else "true"
    ltc = "false" if case.get("lt_order", "C") == "F" else "true"
    if case["amp"] is None:
        amp = "FNone"
    elif case["amp"] == "ndarray":
        amp = "FOther"
    else:
        amp = "(FTxRx (mkArr2d %d 2 %s true) (mkArr2d %d 2 %s true))" % (npt, case["amp"], npt, case["amp"])
    w = "None" if case["w"] is None else "(Some (%d%%nat, %s))" % (case["w"][1], case["w"][0])
    wn = "None" if case["w"] is None else "(Some %d%%nat)" % case["w"][1]
    res = "None" if case["result"] is None else "(Some ([%s], %s))" % (
        "; ".join("%d%%nat" % s for s in case["result"][0]), case["result"][1])
    return ("(mkCall (frame_built %d %d %s %s) "
            "(mkFocalD (mkArr2d %d 2 %s %s) (mkArr2d %d 2 %s true) %s %s %s) %s (%s) (%s) %s)" % (
                n, ns, case["tt"], ttc, npt, case["lt"][0], ltc, npt, case["lt"][1], amp, w, wn,
                "true" if case["fill"] == "complex" else "false",
                coq_opt(case["interp"]), coq_opt(case["aggr"]), res))


def base(**kw):
    c = dict(tt="F64", lt=["F64", "F64"], w=None, amp=None, fill="real", interp="nearest", aggr="mean", result=None)
    c.update(kw)
    return c


def cases():
    out = []
    names = ["F32", "F64", "C64", "C128"]
    # (a) dtype / typing family on the two nearest mean kernels (deterministic sample of the 1000 combinations)
    k = 0
    for tt in names:
        for w in [None] + names:
            for amp in [None] + names:
                for res in [None] + names:
                    for fill in ("real", "complex"):
                        for lt in (["F64", "F64"], ["F32", "F64"]):
                            k += 1
                            if (k * 2654435761) % 2 ** 32 < 2 ** 32 // 45:
                                out.append(base(tt=tt, w=None if w is None else [w, 2], amp=amp, fill=fill, lt=lt,
                                                result=None if res is None else [[3], res]))
    # (b) the robust aggregations: every timetrace dtype x result dtype
    for tt in names:
        for res in [None] + names:
            for aggr, interp in (("median", "nearest"), ("median", ["lanczos", 2]), (["huber", 1.5], ["lanczos", 2])):
                out.append(base(tt=tt, aggr=aggr, interp=interp, result=None if res is None else [[3], res]))
    out.append(base(tt="C64", w=["F64", 2], aggr="median"))
    out.append(base(tt="C128", w=["F32", 2], aggr="median"))
    out.append(base(tt="F64", aggr="median", fill="complex", result=[[3], "C128"]))
    out.append(base(tt="C128", aggr="median", fill="complex"))
    # (c) spelling, arity, order of the errors
    A = "F64"
    out += [
        base(interp="NeArEsT", aggr="MEAN"), base(interp=["LancZos", 3], aggr=["Mean"]),
        base(interp="LINEAR"), base(interp=["linear"]), base(interp=[]), base(aggr=[]), base(interp=""),
        base(interp="lanczos"), base(interp=["nearest", 1]), base(aggr=["mean", 1]), base(aggr="foo"),
        base(interp="foo"), base(aggr="median", interp="foo"), base(tt="C128", aggr="median", interp="linear"),
        base(tt="C128", aggr="huber", interp=["lanczos", 2]), base(tt="C128", aggr=["huber", 1.5], interp="nearest"),
        base(tt="C128", aggr=["median", 1], interp="nearest"),
        base(result=[[5], "F64"]), base(result=[[3, 1], "F64"]), base(result=[[5], "F64"], interp="foo"),
        base(result=[[5], "F64"], aggr="foo"), base(result=[[5], "F64"], interp=[]),
        base(amp=A, interp="LINEAR", aggr="Mean"), base(amp=A, interp=["linear"]), base(amp=A, aggr=["mean"]),
        base(amp=A, aggr=[]), base(amp=A, interp=[]), base(amp=A, interp="lanczos"), base(amp=A, aggr="Median"),
        base(amp=A, result=[[5], "F64"], aggr="median"), base(amp=A, result=[[5], "F64"], aggr=["mean"]),
        base(amp=A, result=[[5], "F64"], interp="foo"), base(amp=A, result=[[5], "F64"]),
        base(amp="ndarray"), base(amp="ndarray", tt_order="F", result=[[5], "F64"], interp=[]),
        base(tt_order="F"), base(lt_order="F"), base(lt_order="F", tt_order="F"), base(amp=A, tt_order="F", aggr="median"),
        base(w=["F64", 3], aggr="foo"), base(w=["F64", 3], amp=A, aggr="median"), base(w=["F64", 1]),
        base(w=["F64", 0]), base(w=["F64", 1], n=1), base(w=["C128", 2]), base(w=["C128", 2], result=[[3], "F64"]),
        base(tt_order="F", w=["F64", 3]),
        base(tt="F32"), base(tt="F32", lt=["F32", "F32"], w=["F32", 2], amp="F32"), base(tt="F32", w=["F64", 2]),
        base(tt="F32", amp="C64"), base(tt="F32", result=[[3], "F64"]), base(tt="F64", result=[[3], "F32"]),
    ]
    return out


# ---- part 2: values (the das_call examples of the note; rationals from `Eval vm_compute`) --------------
def values():
    ok = True
    ns = 4
    tt = np.array([[10.0, 20, 40, 80], [1, 2, 3, 4], [100, 200, 300, 400], [5, 6, 7, 8]])
    pairs = [(0, 0), (0, 1), (1, 1), (1, 0)]
    frame = Frame(tt, Time(0.0, 1.0, ns), [p[0] for p in pairs], [p[1] for p in pairs], Probe(np.zeros((2, 3)), 1e6), None)
    ltx = np.array([[-0.5, 0.0], [0.0, 0.0], [0.5, 0.0], [2.5, 0.0]])
    lrx = np.array([[0.0, 0.5]] * 4)
    F = Fraction

    def check(label, got, want):
        nonlocal ok
        got = [F(x) for x in np.asarray(got, dtype=float)]
        good = got == want
        ok &= good
        print("values", label, "OK" if good else "MISMATCH %s vs %s" % (got, want))

    fl = tfm.FocalLaw(ltx, lrx)
    check("V1 nearest/mean", das.delay_and_sum(frame, fl, fillvalue=-7.0), [F(29), F(29), F(117, 4), F(149, 4)])
    prev = np.full(4, 9.0)
    fl = tfm.FocalLaw(ltx, lrx, None, np.array([2.0]))
    r = das.delay_and_sum(frame, fl, fillvalue=-7.0, interpolation="LINEAR", aggregation=("Mean",), result=prev)
    check("V2 linear, one weight broadcast, result given", r, [F(305, 4), F(333, 4), F(86), F(423, 4)])
    print("values V2 same object:", r is prev)
    amp = tfm.TxRxAmplitudes(np.array([[0.5, 4.0]] * 4), np.array([[1.0, 10.0]] * 4))
    fl = tfm.FocalLaw(ltx, lrx, amp, np.array([1.0, 2.0, 3.0, 4.0]))
    check("V3 amplitudes + weights, nearest", das.delay_and_sum(frame, fl, fillvalue=0.0), [F(12095, 4), F(12095, 4), F(12105, 4), F(3035)])
    # block-wise: rows [0,1] and [2,3] separately
    fl_a = tfm.FocalLaw(ltx[:2], lrx[:2]); fl_b = tfm.FocalLaw(ltx[2:], lrx[2:])
    whole = das.delay_and_sum(frame, tfm.FocalLaw(ltx, lrx), fillvalue=-7.0, interpolation="linear")
    parts = np.concatenate([das.delay_and_sum(frame, fl_a, fillvalue=-7.0, interpolation="linear"),
                            das.delay_and_sum(frame, fl_b, fillvalue=-7.0, interpolation="linear")])
    print("values V4 block-wise:", "OK" if np.array_equal(whole, parts) else "MISMATCH")
    ok &= bool(np.array_equal(whole, parts))
    # weigh_timetraces identity and the frame after calls with and without weights
    f0 = tfm.FocalLaw(ltx, lrx); f1 = tfm.FocalLaw(ltx, lrx, None, np.array([1.0, 2.0, 3.0, 4.0]))
    before = frame.timetraces.copy()
    a1 = f0.weigh_timetraces(frame.timetraces) is frame.timetraces
    a2 = f1.weigh_timetraces(frame.timetraces) is frame.timetraces
    das.delay_and_sum(frame, f1); x = das.delay_and_sum(frame, f0, fillvalue=-7.0)
    print("values V5 alias without weights:", a1, " with weights:", a2, " frame untouched:", np.array_equal(before, frame.timetraces))
    check("V5 call after a weighted call", x, [F(29), F(29), F(117, 4), F(149, 4)])
    ok &= a1 and not a2 and bool(np.array_equal(before, frame.timetraces))
    # all lookups outside the window -> fill; constant timetraces -> the constant
    far = tfm.FocalLaw(ltx + 100.0, lrx)
    check("V6 all outside", das.delay_and_sum(frame, far, fillvalue=-7.0, interpolation="linear"), [F(-7)] * 4)
    cframe = Frame(np.full((4, 4), 3.25), Time(0.0, 1.0, ns), frame.tx, frame.rx, frame.probe, None)
    inside = tfm.FocalLaw(np.array([[0.25, 0.5], [1.0, 1.5]]), np.array([[0.0, 0.5], [1.0, 0.25]]))
    check("V7 dc gain", das.delay_and_sum(cframe, inside, fillvalue=-7.0, interpolation="linear"), [F(13, 4)] * 2)
    return ok


if __name__ == "__main__":
    cs = cases()
    recs = []
    for i, c in enumerate(cs):
        o = run_case(c)
        recs.append(dict(case=c, outcome=o, coq=coq_case(c)))
        print(i, json.dumps(c), "->", o, flush=True)
    with open(sys.argv[1] if len(sys.argv) > 1 else "/verif/notes/prover_C02_replay.json", "w") as f:
        json.dump(recs, f, indent=0)
    with open("/verif/notes/prover_C02_tie.v", "w") as f:
        f.write("(* generated by notes/prover_C02_replay.py: the library's outcome of each call, decided against\n"
                "   Model/DasGlue.plan by vm_compute.  cd /verif/coq && coqc -Q theories Arim ../notes/prover_C02_tie.v *)\n"
                "From Coq Require Import Ascii String.\nFrom Coq Require Import List ZArith Bool.\n"
                "From Arim Require Import Base.Num Model.Das Model.DasGlue.\nImport ListNotations.\nOpen Scope string_scope.\n"
                "Inductive obs := ORaiseO (e : err) | OUndefO | ORunO (d : dtype) (given : bool).\n"
                "Definition plan_obs (p : plan_out) : obs :=\n"
                "  match p with PRaise e => ORaiseO e | PUndefined _ => OUndefO | PRun _ d g => ORunO d g end.\n")
        for i, r in enumerate(recs):
            f.write("Example tie_%d : plan_obs (@plan unit unit %s) = %s.\nProof. vm_compute. reflexivity. Qed.\n"
                    % (i, r["coq"], r["outcome"]))
    print(len(recs), "plan cases written")
    print("VALUES", "ALL OK" if values() else "MISMATCH")
