"""Replay of the tie examples of notes/prover_C08_TIE.md (Model/AmplitudesGlue.v against the real library).

  cd /verif && PYTHONPATH=/repo/src /venv/bin/python notes/prover_C08_replay.py

Phase 1 writes /tmp/prover_C08_tie/tie.v (one `Eval vm_compute` per case, exact rationals) and runs coqc on it.
Phase 2 runs the real library on the same inputs and compares outcome by outcome (values exactly: all inputs are
dyadic and the scattering a polynomial; exception kinds exactly).  Cases on which the model answers EUnmodelled are
NOT run on the library (the real matrix class reads out of bounds there: it can crash the interpreter).
Phase 3 replays ray_weights_for_views on a normal-incidence water/steel set-up against the values of
`ray_weights_full_example` (Props/C08.v)."""
import sys, itertools, subprocess, re
from fractions import Fraction as Fr
import numpy, numpy as np
numpy.complex_=numpy.complex128; numpy.float_=numpy.float64
import warnings; warnings.filterwarnings("ignore")
import arim, arim.model as m

class P:
    def __init__(s,n): s.n=n
    def __repr__(s): return "P%d"%s.n
class V:
    def __init__(s,tx,rx,key): s.tx_path=tx; s.rx_path=rx; s.key=key
    def scat_key(s): return s.key

def ekind(e):
    return {'IndexError':'EIndex','ValueError':'EValue','KeyError':'EKey','AssertionError':'EAssertion','TypeError':'EType'}[type(e).__name__]

# ---------- Coq literal helpers
def cZ(z): return "(%d)%%Z"%z
def coptZ(z): return "None" if z is None else "(Some %s)"%cZ(z)
def clist(l): return "["+"; ".join(l)+"]"
def csel(sel):
    if not isinstance(sel, tuple): sel=(sel,)
    out=[]
    for it in sel:
        if it is Ellipsis: out.append("GDots")
        elif it is None: out.append("GNone")
        elif isinstance(it, slice): out.append("GSlice %s %s %s"%(coptZ(it.start),coptZ(it.stop),coptZ(it.step)))
        elif isinstance(it,(int,np.integer)) and not isinstance(it,(bool,np.bool_)): out.append("GInt %s"%cZ(int(it)))
        elif isinstance(it,(list,np.ndarray)):
            a=np.asarray(it)
            if a.dtype==bool: out.append("GMask "+clist(["true" if b else "false" for b in a.tolist()]))
            else: out.append("GList "+clist([cZ(int(z)) for z in a.tolist()]))
        else: raise ValueError(it)
    return clist(out)

def fmt_c(z):
    z=complex(z); a=Fr(z.real); b=Fr(z.imag)
    return "(%d/%d,%d/%d)"%(a.numerator,a.denominator,b.numerator,b.denominator)
def fmt_arr(r):
    r=np.asarray(r)
    if r.ndim==1: return "A1["+" ".join(fmt_c(z) for z in r)+"]"
    if r.ndim==2: return "A2["+" | ".join(" ".join(fmt_c(z) for z in row) for row in r)+"]"
    return "ND%d"%r.ndim

lines_py=[]; coq=[]
def case(name, coqexpr, pyval):
    coq.append((name,coqexpr)); lines_py.append((name,pyval))
class L:
    def __init__(s,f): s.f=f

# ---------- 1. slices
for n in [0,1,5]:
    for a,b,s in [(None,None,None),(1,None,None),(None,None,-1),(-2,None,None),(None,-1,2),(4,0,-2),(7,-9,-1),(-9,9,3),(2,2,None),(0,5,0),(3,1,1),(None,2,-1)]:
        try: py="GOk "+str(list(range(n))[a:b:s]).replace(",",";")
        except ValueError: py="GRaise EValue"
        case("slice n=%d %s"%(n,(a,b,s)), "show_zl (slice_indices %d %s %s %s)"%(n,coptZ(a),coptZ(b),coptZ(s)), py)
# ---------- 2. guard / expand on n=3
n=3
sels=[0,-1,-3,3,-4,slice(None),slice(1,None),slice(None,None,-1),slice(0,3,0),Ellipsis,(0,),(slice(0,2),Ellipsis),(Ellipsis,),(0,1),(slice(0,2),0),
      (Ellipsis,slice(0,2)),None,(None,),(None,0),(0,None),[0,2],[0,3],[True,False,True],[True,False],(),(Ellipsis,Ellipsis),[],(slice(None),None),([0,1],),(0,Ellipsis),(Ellipsis,0),(Ellipsis,5),(None,None,0),(None,slice(0,0,0)),(Ellipsis,[1,1])]
for sel in sels:
    try: py="GOk %d"%np.empty(n)[sel if not isinstance(sel,list) else np.array(sel, dtype=(bool if sel and isinstance(sel[0],bool) else int))].ndim
    except Exception as e: py="GRaise "+ekind(e)
    case("guard %r"%(sel,), "show_n (guard_ndim 3 %s)"%csel(sel), py)

# ---------- 3. the amplitude objects
ne,ng=2,3
pa,pb=P(0),P(1)
Qa=np.array([[1+2j,3-1j,0.5],[-2+1j,3j,5+0.25j]])
Qb=np.array([[2,1+1j,-1+2j],[1.5-1j,4,-2j]])
Ta=np.array([[.25,.5,.75],[-.25,-.5,-.75]])
Tb=np.array([[.125,.375,.625],[-.125,-.375,-.625]])
rw=m.RayWeights({pa:Qa},{pb:Qb},None,None,{pa:Ta,pb:Tb})
S=lambda x,y:(1+2*x+3*y)+1j*x*y
Mc=np.full((2,2),2+1j)
tx=np.array([0,1,1,-1]); rx=np.array([1,0,-1,0])
v=V(pa,pb,'LL')
def getit(scat,sel,tx=tx,rx=rx,rw=rw,v=v,key='LL'):
    try:
        o=m.model_amplitudes_factory(tx,rx,v,rw,{key:scat},0.125)
    except Exception as e: return "FACTORY "+ekind(e)
    try:
        s=sel
        if isinstance(sel,list): s=np.array(sel, dtype=(bool if sel and isinstance(sel[0],bool) else int))
        if isinstance(sel,tuple): s=tuple(np.array(x,dtype=int) if isinstance(x,list) else x for x in sel)
        return "GOk "+fmt_arr(o[s])
    except Exception as e: return "GRaise "+ekind(e)
def dt_of(a):
    k=a.dtype.kind
    if k=='f': return "DtFloat"
    if k=='b': return "DtBool"
    if k=='u': return "DtUInt64" if a.dtype.itemsize==8 else "DtUInt"
    return "DtInt"
def cidx(a): return "(mkIdx %s %s)"%(dt_of(a), clist([cZ(int(z)) for z in a.astype(int).tolist()]))
for sel in sels:
    case("fn %r"%(sel,), "show_arr (gi_fn %s %s %s)"%(cidx(tx),cidx(rx),csel(sel)), L(lambda sel=sel: getit(S,sel)))
    case("mat %r"%(sel,), "show_arr (gi_mat %s %s %s)"%(cidx(tx),cidx(rx),csel(sel)), L(lambda sel=sel: getit(Mc,sel)))
# index dtypes / lengths
for t,r in [(tx.astype(np.int8),rx.astype(np.uint16)),(tx.astype(float),rx),(tx,rx.astype(float)),(np.abs(tx).astype(np.uint64),np.abs(rx).astype(np.uint64)),
            (np.array([True,False,True,True]),np.array([False,False,True,False])),(tx,np.array([1])),(tx,np.array([-2])),(np.array([1]),rx),(tx,np.array([0,1])),(tx,np.array([0,5,0,0])),(np.array([0,2,0,0]),rx),
            (np.array([],dtype=int),np.array([],dtype=int)),(np.array([],dtype=int),np.array([1]))]:
    for sel in [0,slice(0,2),slice(0,0),(Ellipsis,0),3]:
        case("fn idx %s %s %r"%(t.tolist(),r.tolist(),sel), "show_arr (gi_fn %s %s %s)"%(cidx(t),cidx(r),csel(sel)), L(lambda sel=sel,t=t,r=r: getit(S,sel,tx=t,rx=r)))
        case("mat idx %s %s %r"%(t.tolist(),r.tolist(),sel), "show_arr (gi_mat %s %s %s)"%(cidx(t),cidx(r),csel(sel)), L(lambda sel=sel,t=t,r=r: getit(Mc,sel,tx=t,rx=r)))
# matrices of other shapes
case("mat 2x3", "show_arr (gi_matM [[c21;c21;c21];[c21;c21;c21]] %s %s %s)"%(cidx(tx),cidx(rx),csel(0)), getit(np.full((2,3),2+1j),0))
case("mat 1x1", "show_arr (gi_matM [[c21]] %s %s %s)"%(cidx(tx),cidx(rx),csel(0)), getit(np.full((1,1),2+1j),0))
# factory outcomes
def fac(rw_,v_,scat):
    try:
        o=m.model_amplitudes_factory(tx,rx,v_,rw_,scat,0.125); return "GOk (%d,%d,%d)"%(o.shape[0],o.shape[1],o.numelements)
    except Exception as e: return "GRaise "+ekind(e)
case("factory ok","show_fac (fac rw0 vw sc_fn)", fac(rw,v,{'LL':S}))
case("factory ok mat","show_fac (fac rw0 vw sc_mat)", fac(rw,v,{'LL':Mc}))
case("factory nokey","show_fac (fac rw0 vw [((ModeL,ModeT), ScatFn S)])", fac(rw,v,{'LT':S}))
case("factory reversed view","show_fac (fac rw0 (mkView 1 0 (ModeL,ModeL)) sc_fn)", fac(rw,V(pb,pa,'LL'),{'LL':S}))
case("factory no angles","show_fac (fac (mkRW [(0%nat,Qtx)] [(1%nat,Qrx)] None None [(0%nat,Ttx)]) vw sc_fn)", fac(m.RayWeights({pa:Qa},{pb:Qb},None,None,{pa:Ta}),v,{'LL':S}))
case("factory shape","show_fac (fac (mkRW [(0%nat,Qtx)] [(1%nat,map (firstn 2) Qrx)] None None [(0%nat,Ttx);(1%nat,Trx)]) vw sc_fn)", fac(m.RayWeights({pa:Qa},{pb:Qb[:,:2]},None,None,{pa:Ta,pb:Tb}),v,{'LL':S}))
case("factory shape+nokey","show_fac (fac (mkRW [(0%nat,Qtx)] [(1%nat,map (firstn 2) Qrx)] None None [(0%nat,Ttx);(1%nat,Trx)]) vw [])", fac(m.RayWeights({pa:Qa},{pb:Qb[:,:2]},None,None,{pa:Ta,pb:Tb}),v,{}))

hdr = r'''
From Coq Require Import List ZArith Bool Arith QArith String.
From Arim Require Import Base.Num Base.NumQ Model.Interface Model.Weights Model.Amplitudes Model.Pipeline Model.AmplitudesGlue.
Import ListNotations.
Local Open Scope Q_scope.
Definition cq (x y : Q) : Q * Q := (x, y).
Definition Qtx := [[cq 1 2; cq 3 (-1); cq (1#2) 0]; [cq (-2) 1; cq 0 3; cq 5 (1#4)]].
Definition Qrx := [[cq 2 0; cq 1 1; cq (-1) 2]; [cq (3#2) (-1); cq 4 0; cq 0 (-2)]].
Definition Ttx := [[1#4; 1#2; 3#4]; [-(1#4); -(1#2); -(3#4)]].
Definition Trx := [[1#8; 3#8; 5#8]; [-(1#8); -(3#8); -(5#8)]].
Definition S (x y : Q) : Q * Q := (1 + 2 * x + 3 * y, x * y).
Definition c21 := cq 2 1.
Definition rw0 := mkRW [(0%nat, Qtx)] [(1%nat, Qrx)] None None [(0%nat, Ttx); (1%nat, Trx)].
Definition vw := mkView 0 1 (ModeL, ModeL).
Definition sc_fn := [((ModeL, ModeL), ScatFn S)].
Definition sc_mat := [((ModeL, ModeL), ScatMat [[c21;c21];[c21;c21]])].
Definition fac rw v sc := model_amplitudes_factory (mkIdx DtInt [0;1;1;-1]%Z) (mkIdx DtInt [1;0;-1;0]%Z) v rw sc (1#8).
Definition show_fac (r : gres (ma_object (T:=Q))) := match r with GOk o => GOk (mo_shape o, ma_numelements (mo_amp o)) | GRaise e => GRaise e end.
Definition qp (q : Q) := let r := Qred q in (Qnum r, Zpos (Qden r)).
Definition show_arr (r : gres (arr (Q*Q))) := match r with
  | GOk (A1 r) => GOk (A1 (map (fun z => (qp (fst z), qp (snd z))) r))
  | GOk (A2 m) => GOk (A2 (map (map (fun z => (qp (fst z), qp (snd z)))) m))
  | GRaise e => GRaise e end.
Definition show_zl (r : gres (list Z)) := r.
Definition show_n (r : gres nat) := r.
Definition gi_gen sc tx rx sel := match model_amplitudes_factory tx rx vw rw0 sc (1#8) with GOk o => mo_getitem NumQ 0 o sel | GRaise e => GRaise e end.
Definition gi_fn := gi_gen sc_fn.
Definition gi_mat := gi_gen sc_mat.
Definition gi_matM M := gi_gen [((ModeL, ModeL), ScatMat M)].
'''
import os
os.makedirs("/tmp/prover_C08_tie",exist_ok=True)
with open("/tmp/prover_C08_tie/tie.v","w") as f:
    f.write(hdr)
    for name,e in coq:
        f.write("Eval vm_compute in (%s).\n"%e)

out=subprocess.run("cd /verif/coq && timeout 600 coqc -Q theories Arim /tmp/prover_C08_tie/tie.v",shell=True,capture_output=True,text=True)
txt=out.stdout+out.stderr
chunks=re.split(r"\n\s+: gres[^\n]*\n", "\n"+txt)
chunks=[c for c in chunks if c.strip()]
assert len(chunks)==len(coq),(len(chunks),len(coq),txt[-2000:])
def norm_coq(c):
    c=" ".join(c.split()); c=c[c.index("=")+1:].strip()
    if c.startswith("GRaise"): return c
    c=c.replace("%Z","").replace("%nat","")
    c=re.sub(r"\((-\d+)\)", r"\1", c)
    # complex entries ((a, b), (c, d)) -> (a/b,c/d)
    c=re.sub(r"\((-?\d+), (\d+), \((-?\d+), (\d+)\)\)", r"(\1/\2,\3/\4)", c)
    if "A1" in c:
        inner=c[c.index("[")+1:c.rindex("]")]; return "GOk A1["+" ".join(x.strip() for x in inner.split(";") if x.strip())+"]"
    if "A2" in c:
        inner=c[c.index("[")+1:c.rindex("]")].strip()
        rows=re.findall(r"\[([^\[\]]*)\]", inner)
        return "GOk A2["+" | ".join(" ".join(x.strip() for x in r.split(";") if x.strip()) for r in rows)+"]"
    c=c.replace("(","").replace(")","")
    return " ".join(c.split())
bad=0; unm=0
for (name,e),(n2,py),c in zip(coq,lines_py,chunks):
    cq=norm_coq(c)
    if cq=="GRaise EUnmodelled":
        unm+=1; print("UNMODELLED (real call skipped):",name); continue
    if isinstance(py,L): py=py.f()
    py=py.replace("[ ","[").replace("; ",";")
    cq2=cq.replace("; ",";").replace(", ",",")
    py2=py.replace(", ",",")
    if py2.startswith("GOk (") : py2="GOk "+py2[5:-1]
    cq2=cq2.replace("[ | ]","[|]").replace("[| ]","[|]"); py2=py2.replace("[| ]","[|]").replace("[ | ]","[|]")
    if cq2!=py2:
        bad+=1; print("MISMATCH",name,"\n   coq:",cq2,"\n   py :",py2)
print(len(coq),"cases,",unm,"unmodelled,",bad,"mismatches")

# ---------- phase 3: ray_weights_for_views_full on real Path objects
import arim.models.block_in_immersion as bim, arim.ray
water=arim.Material(longitudinal_vel=1500.,density=1000.,state_of_matter="liquid")
steel=arim.Material(longitudinal_vel=6000.,transverse_vel=3000.,density=8000.,state_of_matter="solid",
    longitudinal_att=arim.material_attenuation_factory("constant",0.0))
def op(pts,name):
    p=arim.Points(np.array(pts,float),name); return arim.geometry.OrientedPoints(p, arim.geometry.default_orientations(p))
def setup(trace=True):
    probe=op([[0,0,-1.]], "Probe"); fw=op([[0,0,0.]],"Frontwall"); bw=op([[0,0,2.]],"Backwall"); sc=op([[0,0,.75]],"Scat")
    interfaces=bim.make_interfaces(water,probe,fw,bw,sc)
    paths=bim.make_paths(steel,water,interfaces,max_number_of_reflection=0)
    views=bim.make_views_from_paths(paths)
    if trace: arim.ray.ray_tracing_for_paths(list(paths.values()))
    return paths,views
paths,views=setup()
bad3=0
def check(name,cond):
    global bad3
    if not cond: bad3+=1; print("MISMATCH phase 3:",name)
def near(x,y): return abs(complex(x)-complex(y))<1e-12
L=paths['L']; T=paths['T']
rwd=bim.ray_weights_for_views({'L-L':views['L-L']},24000.,1e-3,save_debug=True)
check("tx weight 1/33", near(rwd.tx_ray_weights_dict[L][0,0],1/33)); check("rx weight 32/33", near(rwd.rx_ray_weights_dict[L][0,0],32/33))
d=rwd.tx_ray_weights_debug_dict[L]; check("tx factors", near(d['directivity'][0,0],1) and near(d['transrefl'][0,0],2/33) and near(d['beamspread'][0,0],.5) and near(d['attenuation'][0,0],1))
d=rwd.rx_ray_weights_debug_dict[L]; check("rx factors", near(d['directivity'][0,0],1) and near(d['transrefl'][0,0],64/33) and near(d['beamspread'][0,0],1) and near(d['attenuation'][0,0],1))
check("keys L-L", list(rwd.tx_ray_weights_dict)==[L] and list(rwd.rx_ray_weights_dict)==[L] and list(rwd.scattering_angles_dict)==[L])
rw0=bim.ray_weights_for_views({'L-L':views['L-L']},24000.,1e-3)
check("no debug", rw0.tx_ray_weights_debug_dict is None and rw0.rx_ray_weights_debug_dict is None and np.array_equal(rw0.tx_ray_weights_dict[L],rwd.tx_ray_weights_dict[L]))
one=bim.ray_weights_for_views({'L-T':views['L-T']},24000.,1e-3,save_debug=True)
check("single view L-T", set(one.tx_ray_weights_dict)=={L} and set(one.rx_ray_weights_dict)=={T} and set(one.scattering_angles_dict)=={L,T}
      and set(one.tx_ray_weights_debug_dict)=={L} and set(one.rx_ray_weights_debug_dict)=={T})
both=bim.ray_weights_for_views({'L-T':views['L-T'],'T-L':views['T-L']},24000.,1e-3)
check("subset", np.array_equal(both.tx_ray_weights_dict[L],one.tx_ray_weights_dict[L]) and np.array_equal(both.rx_ray_weights_dict[T],one.rx_ray_weights_dict[T]))
def kind(f):
    try: f(); return "ok"
    except Exception as e: return type(e).__name__
check("missing width", kind(lambda: bim.ray_weights_for_views({'L-L':views['L-L']},24000.))=="ValueError")
check("no views", kind(lambda: bim.ray_weights_for_views({},24000.))=="ok")
a_=bim.ray_weights_for_views({'L-L':views['L-L']},24000.,None,use_directivity=False); b_=bim.ray_weights_for_views({'L-L':views['L-L']},24000.,7.,use_directivity=False)
check("width unused", np.array_equal(a_.tx_ray_weights_dict[L],b_.tx_ray_weights_dict[L]) and np.array_equal(a_.rx_ray_weights_dict[L],b_.rx_ray_weights_dict[L]))
p2,v2=setup(trace=False)
check("untraced", kind(lambda: bim.ray_weights_for_views({'L-L':v2['L-L']},24000.,1e-3))=="ValueError")
check("untraced + missing width", kind(lambda: bim.ray_weights_for_views({'L-L':v2['L-L']},24000.))=="ValueError")
txi=np.array([0,-1]); rxi=np.array([0,0])
check("factory reciprocal view KeyError", kind(lambda: m.model_amplitudes_factory(txi,rxi,views['T-L'],one,{'TL':S}))=="KeyError")
check("factory own view ok", kind(lambda: m.model_amplitudes_factory(txi,rxi,views['L-T'],one,{'LT':S})[0])=="ok")
print("phase 3:",bad3,"mismatches")
