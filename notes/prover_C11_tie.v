(* Evaluation file of the C11 prover tie note: compile with
   cd /verif/.work && coqc -Q /verif/coq/theories Arim prover_C11_tie.v *)
From Coq Require Import ZArith QArith List Bool.
From Arim Require Import Base.Num Base.NumQ Model.Signal Model.Synthesis.
Import ListNotations.
Local Open Scope Q_scope.

(* exact inverse FFT for n in {1, 2, 4}: the roots of unity are 1, i, -1, -i *)
Definition root4 (m : Z) : Q * Q :=
  match (m mod 4)%Z with 0%Z => (1, 0) | 1%Z => (0, 1) | 2%Z => (-1, 0) | _ => (0, -1) end.
Definition ifft_q (X : nat -> Q * Q) (n : nat) (j : Z) : Q * Q :=
  let s := fold_left (fun acc k => cadd NumQ acc (cmul NumQ (X k) (root4 ((4 / Z.of_nat n) * j * Z.of_nat k))))
                     (seq 0 n) (c0 NumQ) in
  cscale NumQ (1 / inject_Z (Z.of_nat n)) s.

(* 1 = the entry was written by the pulse (including its two end samples, whose value is +-0.0),
   0 = zero padding *)
Definition mask (l : list (Q * Q)) : list Z :=
  map (fun z => if Qeq_bool (fst z) 0 && Qeq_bool (snd z) 0 then 0%Z else 1%Z) l.
Definition tb_view (r : tb_error + list (Q * Q)) :=
  match r with inl e => inl e | inr l => inr (Z.of_nat (length l), mask l) end.
Definition tb2_view (r : tb2_error + toneburst2 (T:=Q)) :=
  match r with
  | inl e => inl e
  | inr t => inr (tb2_start t, tb2_step t, Z.of_nat (length (tb2_samples t)), tb2_t0 t, mask (tb2_samples t))
  end.

(* ---- E1 make_toneburst: error kinds, lengths, support --------------------------------- *)
Eval vm_compute in map (fun a : Q * Q * Q * option Z => let '(c, f, dt, ns) := a in tb_view (make_toneburst NumQ c f dt ns false false))
  [ (5, 5, 0, None); (5, -1, 0, None); (0, -1, 1, None); (0, 1, 1, Some 0%Z); (1, 1, 1, Some 0%Z);
    (3, 1, 1, Some 2%Z); (3, 1, 1 # 2, Some 9%Z); (3, 1, 1 # 2, None); (5, 5, 1 # 25, Some 30%Z) ].
Eval vm_compute in tb_view (make_toneburst NumQ 3 1 (1 # 2) (Some 9%Z) true false).
Eval vm_compute in tb_view (make_toneburst NumQ 3 1 (1 # 2) (Some 9%Z) true true).
(* one-sample pulses (cycles/f/dt <= 1) have exact values *)
Eval vm_compute in make_toneburst NumQ 1 1 1 (Some 4%Z) true false.
Eval vm_compute in make_toneburst NumQ 1 2 1 (Some 3%Z) false true.

(* ---- E2 make_toneburst2 -------------------------------------------------------------------- *)
Eval vm_compute in tb2_view (make_toneburst2 NumQ next_fast_len 5 5 (1 # 25) 2 1 false true).
Eval vm_compute in tb2_view (make_toneburst2 NumQ next_fast_len 5 5 (1 # 25) 1 1 false true).
Eval vm_compute in tb2_view (make_toneburst2 NumQ next_fast_len 3 1 (1 # 2) 0 0 false true).
Eval vm_compute in tb2_view (make_toneburst2 NumQ next_fast_len 3 1 (1 # 2) 0 0 true false).
Eval vm_compute in tb2_view (make_toneburst2 NumQ next_fast_len 3 1 (1 # 2) (-2) 3 false true).
Eval vm_compute in map (fun a : Z * Z => tb2_view (make_toneburst2 NumQ next_fast_len 3 1 (1 # 2) (fst a) (snd a) false true))
  [(-1, 0); (0, -1); (-1, 3)]%Z.
Eval vm_compute in tb2_view (make_toneburst2 NumQ next_fast_len 3 1 0 2 1 false true).
Eval vm_compute in make_toneburst2 NumQ next_fast_len 1 1 1 2 1 false true.

(* ---- E3 next_fast_len ------------------------------------------------------------------------ *)
Eval vm_compute in map next_fast_len [-1; 0; 1; 7; 11; 13; 17; 75; 100; 121; 127; 405; 481; 1001]%Z.

(* ---- E4 the weight table ------------------------------------------------------------------------ *)
Eval vm_compute in map (fun a : Z * Z => hilbert_table (fst a) (Z.to_nat (snd a)))
  [(8, 5); (7, 4); (8, 4); (7, 3); (4, 5); (1, 1); (2, 1); (2, 2); (5, 0); (24, 12); (0, 3)]%Z.

(* ---- E5 rfft_to_hilbert, exact (n = 4, 2, 1) ----------------------------------------------------- *)
Definition show2 (r : h_error + (list nat * (list nat -> Q * Q))) :=
  match r with
  | inl e => inl e
  | inr (sh, out) => inr (sh, map (fun i => map (fun j => out [i; j]) (seq 0 (nth 1 sh O))) (seq 0 (nth 0 sh O)))
  end.
Definition xa (idx : list nat) : Q * Q :=      (* xa[i][k] = (i + 1) * (k + 1) + 1j * (i - k) *)
  let i := inject_Z (Z.of_nat (nth 0 idx O)) in let k := inject_Z (Z.of_nat (nth 1 idx O)) in
  ((i + 1) * (k + 1), i - k).
Eval vm_compute in show2 (rfft_to_hilbert NumQ ifft_q [2; 3]%nat xa 4 (-1)).
Eval vm_compute in show2 (rfft_to_hilbert NumQ ifft_q [2; 3]%nat xa 4 1).
Eval vm_compute in show2 (rfft_to_hilbert NumQ ifft_q [3; 2]%nat xa 4 0).
Eval vm_compute in show2 (rfft_to_hilbert NumQ ifft_q [3; 2]%nat xa 4 (-2)).
Eval vm_compute in show2 (rfft_to_hilbert NumQ ifft_q [2; 3]%nat xa 2 (-1)).   (* truncation to 2 bins *)
Eval vm_compute in show2 (rfft_to_hilbert NumQ ifft_q [2; 3]%nat xa 1 0).
Eval vm_compute in map (fun a : list nat * Z * Z => let '(sh, n, ax) := a in show2 (rfft_to_hilbert NumQ ifft_q sh xa n ax))
  [ ([], 4%Z, (-1)%Z); ([2; 3]%nat, 4%Z, 2%Z); ([2; 3]%nat, 4%Z, (-3)%Z); ([2; 2]%nat, 4%Z, (-1)%Z);
    ([2; 0]%nat, 4%Z, (-1)%Z); ([2; 3]%nat, 0%Z, (-1)%Z); ([2; 3]%nat, 4%Z, 0%Z) ].

(* ---- E6 timeshift_spectra (zero delays: exact) ---------------------------------------------------- *)
Definition Hs (s t k : nat) : Q * Q := (inject_Z (Z.of_nat (10 * s + t)), inject_Z (Z.of_nat k)).
Definition show_ts (r : option (nat -> nat -> nat -> Q * Q)) (nf : nat) :=
  match r with None => None | Some sh => Some (map (fun k => sh 1%nat 2%nat k) (seq 0 nf)) end.
Eval vm_compute in show_ts (timeshift_spectra NumQ 1 Hs (fun _ _ => 0) [0; 1; 2]) 3.
Eval vm_compute in show_ts (timeshift_spectra NumQ 3 Hs (fun _ _ => 0) [0; 1; 2]) 3.
Eval vm_compute in show_ts (timeshift_spectra NumQ 2 Hs (fun _ _ => 0) [0; 1; 2]) 3.

(* ---- E7 transfer_func_to_timetraces ------------------------------------------------------------------ *)
(* toneburst x = [0, 1, 1/2, 0] (n = 4, t0_idx = 1), toneburst_f = rfft(x) = [3/2, -1/2 - 1j, -1/2],
   dt = 1/4, toneburst_freq = rfftfreq(4, 1/4) = [0, 1, 2]; window Time(1/2, 1/4, 12) *)
Definition tfq : list (Q * Q) := [(3 # 2, 0); (- (1 # 2), - (1)); (- (1 # 2), 0)].
Definition frq : list Q := [0; 1; 2].
Definition ttime := mkTime (T:=Q) (1 # 2) (1 # 4) 12.
Definition btime := mkTime (T:=Q) (- (1 # 4)) (1 # 4) 4.
Definition H3 (s t k : nat) : Q * Q :=
  match s, t with O, O => (2, 0) | O, _ => (0, 1) | _, O => (1, 1) | _, _ => (-1, 0) end.
Definition kk (s t : nat) : Z := match s, t with O, O => 3 | O, _ => 5 | _, O => 4 | _, _ => 5 end%Z.
Definition d3 (s t : nat) : Q := (1 # 2) + inject_Z (kk s t) * (1 # 4).
Definition show_tt (r : tf_error + (nat * Z * (nat -> Z -> Q * Q))) :=
  match r with
  | inl e => inl e
  | inr (nt, len, out) => inr (nt, len, map (fun t => map (fun j => out t (Z.of_nat j)) (seq 0 (Z.to_nat len))) (seq 0 nt))
  end.
Definition run Hin din tt tb fr tf t0 given := show_tt (transfer_func_to_timetraces NumQ ifft_q Hin din tt tb fr tf t0 given).
(* two scatterers x two timetraces *)
Eval vm_compute in run (TF3 2 2 1 H3) (D2 2 2 d3) ttime btime frq tfq 1 None.
(* 2-D input = first scatterer only *)
Eval vm_compute in run (TF2 2 1 (H3 0%nat)) (D1 2 (d3 0%nat)) ttime btime frq tfq 1 None.
(* multi-frequency transfer function H[t][k] = (t + 1) * (1 + k) *)
Eval vm_compute in run (TF2 2 3 (fun t k => (inject_Z (Z.of_nat ((t + 1) * (1 + k))), 0))) (D1 2 (d3 0%nat)) ttime btime frq tfq 1 None.
(* accumulation on given timetraces (all ones) *)
Eval vm_compute in run (TF2 2 1 (H3 0%nat)) (D1 2 (d3 0%nat)) ttime btime frq tfq 1 (Some (fun _ _ => (1, 0))).
(* error branches *)
Eval vm_compute in map (fun a : tf_input (T:=Q) * delays_input (T:=Q) => run (fst a) (snd a) ttime btime frq tfq 1 None)
  [ (TFother, D1 2 (d3 0%nat)); (TF3 2 2 1 H3, D1 2 (d3 0%nat)); (TF2 2 1 (H3 0%nat), D2 2 2 d3);
    (TF2 2 1 (H3 0%nat), D2 1 2 d3); (TF2 2 1 (H3 0%nat), D1 3 (d3 0%nat)); (TF2 2 2 (H3 0%nat), D1 2 (d3 0%nat));
    (TF2 2 1 (H3 0%nat), D1 2 (fun t => 1 # 4)); (TF2 2 1 (H3 0%nat), D1 2 (fun t => 1 # 2)); (TF2 2 1 (H3 0%nat), D1 2 (fun t => 3)) ].
Eval vm_compute in run (TF2 2 1 (H3 0%nat)) (D1 2 (d3 0%nat)) ttime (mkTime (- (1 # 4)) (1 # 8) 4) frq tfq 1 None.
Eval vm_compute in run (TF2 2 1 (H3 0%nat)) (D1 2 (d3 0%nat)) ttime btime frq [(3 # 2, 0); (1, 0)] 1 None.
Eval vm_compute in run (TF2 2 1 (H3 0%nat)) (D1 2 (d3 0%nat)) ttime btime [0; 1] [(3 # 2, 0); (1, 0)] 1 None.
Eval vm_compute in run (TF2 2 1 (H3 0%nat)) (D1 2 (d3 0%nat)) ttime (mkTime (- (1 # 4)) (1 # 4) 0) frq tfq 1 None.
