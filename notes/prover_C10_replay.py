import numpy as np, warnings
np.complex_=np.complex128; np.float_=np.float64
warnings.filterwarnings("ignore")
import arim, arim.scat as scat
from fractions import Fraction as Fr
pi=np.pi
print("E1", np.argsort([3.,1.,2.,1.],kind='mergesort'), np.argsort([5.,4,4,3,5],kind='mergesort'))
print("E2", [int(np.searchsorted([1.,2,3],v)) for v in (2,2.5,0,7)], [int(np.array(a).clip(lo,hi)) for a,lo,hi in ((0,1,2),(3,1,2),(5,1,0))])
F=scat.ScatFromData.freq_interp_matrices
def i1(kw, f, xs=[3.,1.,2.], ys=[30.,10.,25.]):
    M={'LL':np.array(ys).reshape(-1,1,1)*np.ones((len(ys),1,1))}
    try: return float(F(np.array(xs), f, M, **kw)['LL'][0,0])
    except Exception as e: return type(e).__name__+": "+str(e)[:45]
d=dict(bounds_error=False, fill_value='extrapolate')
print("E3a",[i1(d,f) for f in (2.5,0,4,1,2,3,1.5)])
print("E3b",[i1(dict(fill_value=(7.,9.)),f) for f in (4,.5,1,3)])
print("E3c",[i1(dict(bounds_error=False,fill_value=(7.,9.)),f) for f in (4,.5,1,3)])
print("E3d",[i1(dict(bounds_error=True,fill_value=0.),f) for f in (4,.5,2)])
print("E3e",i1(dict(bounds_error=True,fill_value='extrapolate'),2))
def Mk(k): return np.array([[100*(k+1)+10*j+i+k*k*(j+1) for i in range(2)] for j in range(2)],float)
D1={'LL':np.array([Mk(0),Mk(1),Mk(2)]),'TT':np.array([Mk(2),Mk(1),Mk(0)])}
def show(kw,fr,f,D):
    try:
        r=F(np.array(fr),f,D,**kw); return {k:(r[k].ravel().tolist() if k in r else None) for k in ('LL','LT','TL','TT')}
    except Exception as e: return type(e).__name__+": "+str(e)[:45]
print("E4a",show(d,[3.,1,2],2.5,D1)); print("E4b",show(d,[3.,1,2],1,D1)); print("E4c",show(d,[3.,1,2],6,D1))
print("E4d",show(dict(fill_value=0.),[3.,1,2],6,D1)); print("E4e",show(dict(fill_value=0.),[3.,1,2],6,{}))
with warnings.catch_warnings(record=True) as w:
    warnings.simplefilter("always")
    print("E4f",show(dict(bounds_error=True,fill_value='extrapolate'),[5.],9,{'LT':np.array([Mk(1)])}), "warned", len(w)>0)
with warnings.catch_warnings(record=True) as w:
    warnings.simplefilter("always")
    F(np.array([5.]),5,{'LT':np.array([Mk(1)])}); print("E4f' warned", len(w)>0)
print("E4g",show(d,[],9,{'LT':np.array([Mk(1)])}))
obj=scat.ScatFromData.from_dict([3.,1,2],D1)
th=scat.make_angles(2); dth=pi
def call(a,b,f): 
    r=obj(np.array([a]),np.array([b]),f); return {k:(float(r[k][0]) if k in r else None) for k in ('LL','LT','TL','TT')}
print("E5a",call(th[1],th[0],2.5)); print("E5b",call(th[1]+0.5*pi/1*1 ,th[0]+0.25*pi,2.5))
print("E5c",call(th[0]-2*pi+0.25*pi, th[1]+4*pi, 0.))
def init(fs, **sh):
    try:
        o=scat.ScatFromData(np.zeros(fs) if fs!=() else np.float64(1.), **{('scat_matrix_'+k):np.zeros(s) for k,s in sh.items()}); return (o.numfreq,o.numangles)
    except Exception as e: return type(e).__name__+": "+str(e)
print("E6",init((2,),LL=(2,4,4),TT=(2,4,4)), init((),LT=(1,4,4)), init((2,),LL=(2,4,4),TT=(2,5,5)), init((3,),LL=(2,4,4)), init((2,),LL=(2,4,5)), init((2,),LL=(4,4)), init((2,)), init((1,2),LL=(2,4,4)))
class S1(scat.Scattering2d):
    def __call__(self, inc, out, f, to_compute=scat.SCAT_KEYS):
        r={'LL':inc+f, 'LT':out+1j*f*inc}
        if 'TL' in to_compute: r['TL']=np.full(inc.shape, f+1j*f)
        return r
def showm(S,fs,n,tc):
    try:
        r=S.as_multi_freq_matrices(fs,n,tc)
        if r is None: return None
        return {k:(str(v.dtype), (v/1).reshape(len(fs),-1).tolist()) for k,v in r.items()}
    except Exception as e: return type(e).__name__+": "+str(e)
# P=1 in the model stands for pi: divide angles by pi for comparison
def norm(r):
    if not isinstance(r,dict): return r
    return r
print("E7a",showm(S1(),[5*pi,7*pi,6*pi],2,['LL','LT']))
print("E7b",showm(S1(),[5.,7.],2,['LL','TT'])); print("E7c",showm(S1(),[],2,['LL','TT']))
class S2(scat.Scattering2d):
    def __call__(self, inc, out, f, to_compute=scat.SCAT_KEYS):
        return {k:(np.full(inc.shape,float(f)) if f==5 else np.full(inc.shape,f+1j*(f+1))) for k in to_compute}
print("E7d",showm(S2(),[5.,7.],2,['LL'])); print("E7e",showm(S2(),[7.,5.],2,['LL']))
a,b=scat.make_angles_grid(4); print("E8",[a[0,0]/pi,a[0,1]/pi,a[2,1]/pi,a[1,3]/pi],[b[0,0]/pi,b[0,1]/pi,b[2,1]/pi,b[1,3]/pi])
M=np.array([[10*j+i for i in range(3)] for j in range(3)],float); X=np.array([[i-j for i in range(3)] for j in range(3)],float)
for k in (1,-4,-6):
    r=scat.rotate_matrices({'LL':M,'x':X}, k*2*pi/3); print("E9",k,{kk:np.round(v.real,9).tolist() for kk,v in r.items()}, list(r.keys()))
mat=arim.Material(6300.,3120.,2700.,'solid')
for kind,args,kw in (("SDH",(5e-4,),{}),("Crack_Centre",(),dict(crack_length=2e-3)),("crack_TIP",(),{}),("Point",(),{}),("Sphere",(),{}),("sdh ",(),{})):
    try:
        o=scat.scat_factory(kind,mat,*args,**kw); print("E10",kind,type(o).__name__,o._scat_kwargs)
    except Exception as e: print("E10",kind,type(e).__name__,e)
