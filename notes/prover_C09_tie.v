(* prover C09 — executable examples of Model/ScatGlue.v (vm_compute), replayed by prover_C09_replay.py *)
From Coq Require Import ZArith QArith List Bool String.
From Arim Require Import Base.Num Base.NumQ Model.Scat Model.ScatMatrix Model.ScatGlue.
Import ListNotations.
Close Scope Q_scope.
Local Open Scope string_scope.

(* NumQ with npi := the binary64 value of pi as an exact rational (for maxn and the angle grid) *)
Definition piQ : Q := (884279719003555 # 281474976710656)%Q.
Definition NumQpi : Num Q := {|
  n0 := n0 NumQ; n1 := n1 NumQ; nadd := nadd NumQ; nsub := nsub NumQ; nmul := nmul NumQ; ndiv := ndiv NumQ;
  nopp := nopp NumQ; nsqrt := nsqrt NumQ; nsin := nsin NumQ; ncos := ncos NumQ; nasin := nasin NumQ;
  nacos := nacos NumQ; natan2 := natan2 NumQ; nexp := nexp NumQ; nln := nln NumQ; npi := piQ;
  nltb := nltb NumQ; nleb := nleb NumQ; neqb := neqb NumQ; nofZ := nofZ NumQ;
  nfloor := nfloor NumQ; ntrunc := ntrunc NumQ; nround := nround NumQ |}.

Definition vec (l : list Q) : nd Q := nd_vector 0%Q l.
Definition mat2 (rows : list (list Q)) : nd Q :=
  mkNd [List.length rows; List.length (hd [] rows)] (fun idx => nth (nth 1 idx 0%nat) (nth (nth 0 idx 0%nat) rows []) 0%Q).
Definition zeros (s : list nat) : nd Q := nd_full s 0%Q.
Arguments zeros s%nat_scope.

(* E1 broadcasting *)
Eval vm_compute in (bshape [3;1] [2], bshape [2;1;4] [3;1], bshape [3] [2], bshape [] [5], bshape [1] [1],
                    bshape [2;3] [2;1], bshape [2;3] [3;2])%nat.
Eval vm_compute in (bidx [3;1] [2;1], bidx [2] [2;1], bidx [] [2;1], bidx [3;1] [1;2;0], bidx [1;4] [1;2;3])%nat.

(* E2 sdh_2d_scat on arrays: outcome, keys, shapes *)
Definition h0 : Z -> Q -> Q * Q := fun _ _ => (0, 0)%Q.
Definition summary {V} (r : scat_err + dict (nd V)) : scat_err + list (string * list nat) :=
  match r with inl e => inl e | inr D => inr (map (fun kv => (fst kv, nd_shape (snd kv))) D) end.
Definition sdh (inc out : nd Q) (f : Q) (mt : Z) (tc : list string) :=
  summary (sdh_2d_scat_nd NumQpi h0 h0 inc out f (1 # 2000)%Q 6300%Q 3120%Q mt 4%Z tc).
Arguments sdh inc out f%Q_scope mt%Z_scope tc.
Eval vm_compute in sdh (zeros [2]) (zeros [3]) 2000000 10 ["XX"].            (* EBroadcast (before the keys) *)
Eval vm_compute in sdh (zeros [2]) (zeros [3;1]) 2000000 10 ["LL"; "XX"].    (* EToCompute *)
Eval vm_compute in sdh (zeros [2]) (zeros [3;1]) (-2000000) (-3) ["LL"].     (* EEmptyModes *)
Eval vm_compute in sdh (zeros [2]) (zeros [3;1]) (-2000000) (-3) ["XX"].     (* EToCompute first *)
Eval vm_compute in sdh (zeros [2]) (zeros [3;1]) 2000000 (-3) ["TT"; "LL"].  (* LL, TT of shape (3, 2) *)
Eval vm_compute in sdh (nd_scalar 0%Q) (nd_scalar 1%Q) 2000000 10 scat_keys. (* 0-d *)
Eval vm_compute in sdh (zeros [4]) (nd_scalar 1%Q) 2000000 10 [].            (* empty dict *)
(* maxn *)
Definition mx (f r vL vT : Q) (mt tf : Z) := sdh_maxn NumQpi f r vL vT mt tf.
Arguments mx (f r vL vT)%Q_scope (mt tf)%Z_scope.
Eval vm_compute in (mx 2000000 (1 # 2000) 6300 3120 10 4, mx 5000000 (1 # 2000) 6300 3120 10 4,
                    mx 5000000 (1 # 1000) 6300 3120 10 4, mx 5000000 (1 # 1000) 6300 3120 50 4,
                    mx 5000000 (1 # 1000) 3000 6000 10 3, mx (-2000000) (1 # 2000) 6300 3120 (-3) 4).

(* E3 crack_2d_scat on arrays with kernels that return (incident angle, scattered angle) *)
Definition Kpair : crack_kernels (T:=Q) :=
  mkKern (fun a b => (a, b)) (fun a b => (a + 100, b)%Q) (fun a b => (a + 200, b)%Q) (fun a b => (a + 300, b)%Q).
Definition entries {V} (r : scat_err + dict (nd V)) (k : string) (idxs : list (list nat)) : scat_err + option (list nat * list V) :=
  match r with
  | inl e => inl e
  | inr D => inr (match lookup k D with Some a => Some (nd_shape a, map (nd_at a) idxs) | None => None end)
  end.
Definition inc22 := mat2 [[0; 1]; [2; 3]]%Q.
Definition out22 := mat2 [[10; 11]; [12; 13]]%Q.
Definition all22 : list (list nat) := [[0;0]; [0;1]; [1;0]; [1;1]]%nat.
Eval vm_compute in entries (crack_2d_scat_nd NumQ Kpair inc22 out22 false scat_keys) "LL" all22.
Eval vm_compute in entries (crack_2d_scat_nd NumQ Kpair inc22 out22 true scat_keys) "LL" all22.
Eval vm_compute in entries (crack_2d_scat_nd NumQ Kpair inc22 out22 false ["LT"]) "LL" all22.   (* filled *)
Eval vm_compute in entries (crack_2d_scat_nd NumQ Kpair inc22 out22 false ["LT"]) "TL" all22.   (* zeros *)
Eval vm_compute in entries (crack_2d_scat_nd NumQ Kpair (vec [0; 1; 2]%Q) (nd_scalar 7%Q) true scat_keys) "TT" [[0];[1];[2]]%nat.
Eval vm_compute in entries (crack_2d_scat_nd NumQ Kpair (mat2 [[0]; [1]]%Q) (vec [5; 6; 7]%Q) false scat_keys) "LT" [[0;0];[0;2];[1;0];[1;2]]%nat.
Eval vm_compute in entries (crack_2d_scat_nd NumQ Kpair (mat2 [[0]; [1]]%Q) (vec [5; 6; 7]%Q) true scat_keys) "LT" [[0;0];[0;2];[1;0];[1;2]]%nat.
Eval vm_compute in entries (crack_2d_scat_nd NumQ Kpair (nd_scalar 1%Q) (nd_scalar 2%Q) true scat_keys) "TL" [[]].
Eval vm_compute in summary (crack_2d_scat_nd NumQ Kpair (zeros [2;2;2]) (nd_scalar 0%Q) false ["XX"]).   (* EToCompute *)
Eval vm_compute in summary (crack_2d_scat_nd NumQ Kpair (zeros [2;2;2]) (nd_scalar 0%Q) false scat_keys). (* ENotImplemented *)
Eval vm_compute in summary (crack_2d_scat_nd NumQ Kpair (zeros [1;1;2]) (nd_scalar 0%Q) false scat_keys). (* ENotImplemented *)
Eval vm_compute in summary (crack_2d_scat_nd NumQ Kpair (zeros [2]) (zeros [3]) false scat_keys).         (* EBroadcast *)
Eval vm_compute in summary (crack_2d_scat_nd NumQ Kpair (zeros [2]) (zeros [3]) false ["XX"]).            (* EToCompute *)
Eval vm_compute in summary (crack_2d_scat_nd NumQ Kpair (zeros [3]) (zeros [2;1]) false ["LL"]).          (* four keys (2, 3) *)

(* E4 point source *)
Eval vm_compute in entries (point_scat_nd NumQ 6300%Q 3120%Q (zeros [2]) (zeros [3;1]) ["XX"; "LT"]) "LT" [[2;1]]%nat.
Eval vm_compute in summary (point_scat_nd NumQ 6300%Q 3120%Q (zeros [2]) (zeros [3;1]) ["XX"; "LT"]).
Eval vm_compute in summary (point_scat_nd NumQ 6300%Q 3120%Q (zeros [2]) (zeros [3]) scat_keys).
Eval vm_compute in entries (point_scat_nd NumQ 6300%Q 3120%Q (nd_scalar 0%Q) (nd_scalar 0%Q) scat_keys) "TL" [[]].

(* E5 partial functions: frequency binding.  Object: the point source, value type Q *)
Definition pobj : scat_obj Q Q := point_obj_call NumQ 6300%Q 3120%Q.
Definition call_kind {V} (r : scat_err + nd V) : scat_err + list nat := match r with inl e => inl e | inr a => inr (nd_shape a) end.
Eval vm_compute in
  (call_kind (partial_one_scat_key pobj "LT" (Some 5%Q) (Args2 (zeros [2]) (zeros [2]) None)),
   call_kind (partial_one_scat_key pobj "LT" (Some 5%Q) (Args2 (zeros [2]) (zeros [2]) (Some 6%Q))),
   call_kind (partial_one_scat_key pobj "LT" (Some 5%Q) (Args3 (zeros [2]) (zeros [2]) 6%Q None)),
   call_kind (partial_one_scat_key pobj "LT" None (Args2 (zeros [2]) (zeros [2]) None)),
   call_kind (partial_one_scat_key pobj "LT" None (Args3 (zeros [2]) (zeros [2]) 6%Q None)),
   call_kind (partial_one_scat_key pobj "LT" None (Args3 (zeros [2]) (zeros [2]) 6%Q (Some 6%Q))),
   call_kind (partial_one_scat_key pobj "XX" None (Args3 (zeros [2]) (zeros [2]) 6%Q None))).

(* E6 grids (pi = the binary64 pi) *)
Eval vm_compute in (let g := make_angles_grid NumQpi 4 in
  (nd_shape (fst g), map (nd_at (fst g)) [[0;0];[0;1];[2;1];[1;3]]%nat, map (nd_at (snd g)) [[0;0];[0;1];[2;1];[1;3]]%nat)).

(* E7 the flag of CrackCentreScat over a history *)
Definition Kf : Q -> crack_kernels (T:=Q) := fun _ => Kpair.
Fixpoint flags (flag : bool) (ops : list (crack_op (T:=Q))) : list (bool * bool) :=
  match ops with
  | [] => []
  | op :: r => let '(res, fl) := crack_step NumQpi Kf flag op in (res_ok res, fl) :: flags fl r
  end.
Definition call22 := OpCall inc22 out22 1%Q scat_keys.
Eval vm_compute in flags false [OpSingle 1%Q 3 scat_keys; call22; OpSingle 1%Q 3 ["XX"]; call22; OpCall inc22 out22 1%Q ["XX"];
                                OpMulti [1%Q; 2%Q] 2 ["LL"]; call22; OpMulti [1%Q] 2 ["XX"]; call22; OpMulti [] 2 ["XX"]; call22].
(* the plain call of the history above, before and after the failed request: entry [1, 0] of LL *)
Eval vm_compute in (entries (crack_obj_call NumQpi Kf false inc22 out22 1%Q scat_keys) "LL" [[1;0]]%nat,
                    entries (crack_obj_call NumQpi Kf true inc22 out22 1%Q scat_keys) "LL" [[1;0]]%nat).

(* E8 multi-frequency *)
Definition msummary {V} (r : scat_err + option (dict (nd V))) :=
  match r with inl e => inl e | inr None => inr None | inr (Some D) => inr (Some (map (fun kv => (fst kv, nd_shape (snd kv))) D)) end.
Eval vm_compute in msummary (as_multi_freq_matrices NumQpi 0%Q pobj [] 2 ["XX"]).
Eval vm_compute in msummary (as_multi_freq_matrices NumQpi 0%Q pobj [1%Q] 2 ["XX"]).
Eval vm_compute in msummary (as_multi_freq_matrices NumQpi 0%Q pobj [1%Q; 2%Q; 3%Q] 2 ["TL"; "LL"]).
Eval vm_compute in msummary (as_multi_freq_matrices NumQpi (0, 0)%Q (crack_obj_call NumQpi Kf true) [1%Q; 2%Q] 3 ["LT"]).
Eval vm_compute in msummary (as_multi_freq_matrices NumQpi (0, 0)%Q (sdh_obj_call NumQpi h0 h0 (mkSdhKw (1 # 2000)%Q 6300%Q 3120%Q 10%Z 4%Z)) [1%Q] 3 ["XX"]).

(* E9 integer-typed angles *)
Eval vm_compute in (sdh_phi_typed NumQpi (AInt 3%Z) (AInt 5%Z), sdh_phi_typed NumQpi (AInt 3%Z) (AFloat (11 # 2)%Q),
                    sdh_phi NumQpi 3%Q 5%Q, Qred (2 + piQ)%Q).
