# prover C09 — replay of .work/prover_C09_tie.v against the real library
# run: PYTHONPATH=/repo/src /venv/bin/python /verif/.work/prover_C09_replay.py
import numpy as np, warnings, math
np.complex_ = np.complex128; np.float_ = np.float64
warnings.filterwarnings("ignore")
import arim, arim.scat as scat
vL, vT, rho = 6300., 3120., 2700.
ok = True
def check(name, cond, info=""):
    global ok
    print(("ok   " if cond else "FAIL ") + name, info)
    ok = ok and cond
def kind(f):
    try:
        return ("ok", f())
    except Exception as e:
        return (type(e).__name__, str(e)[:50])

# E1 broadcasting
def bshape(a, b):
    try: return list(np.broadcast_shapes(tuple(a), tuple(b)))
    except ValueError: return None
check("E1 bshape", [bshape(*p) for p in (([3,1],[2]), ([2,1,4],[3,1]), ([3],[2]), ([],[5]), ([1],[1]), ([2,3],[2,1]), ([2,3],[3,2]))]
      == [[3,2],[2,3,4],None,[5],[1],[2,3],None])
def bidx(s, idx):
    # which element of an array of shape s is read at index idx of the broadcast
    a = np.arange(int(np.prod(s))).reshape(s) if s else np.array(7)
    full = tuple(max(i + 1, 1) for i in idx)
    full = np.broadcast_shapes(full, tuple(s))
    v = np.broadcast_to(a, full)[tuple(idx)]
    return list(np.argwhere(a == v)[0]) if s else []
check("E1 bidx", [bidx(*p) for p in (([3,1],[2,1]), ([2],[2,1]), ([],[2,1]), ([3,1],[1,2,0]), ([1,4],[1,2,3]))]
      == [[2,0],[1],[],[2,0],[0,3]])

# E2 sdh outcomes
z = np.zeros
def sdh(inc, out, f, mt, tc):
    return kind(lambda: {k: v.shape for k, v in scat.sdh_2d_scat(inc, out, f, 0.5e-3, vL, vT, min_terms=mt, term_factor=4, to_compute=tc).items()})
r = sdh(z(2), z(3), 2e6, 10, ["XX"]);            check("E2 EBroadcast", r[0] == "ValueError" and "broadcast" in r[1], r)
r = sdh(z(2), z((3,1)), 2e6, 10, ["LL","XX"]);   check("E2 EToCompute", r[0] == "ValueError" and "to_compute" in r[1], r)
r = sdh(z(2), z((3,1)), -2e6, -3, ["LL"]);       check("E2 EEmptyModes", r[0] == "IndexError", r)
r = sdh(z(2), z((3,1)), -2e6, -3, ["XX"]);       check("E2 EToCompute before EEmptyModes", r[0] == "ValueError" and "to_compute" in r[1], r)
r = sdh(z(2), z((3,1)), 2e6, -3, ["TT","LL"]);   check("E2 keys/shape", r == ("ok", {"LL": (3,2), "TT": (3,2)}), r)
r = sdh(0., 1., 2e6, 10, scat.SCAT_KEYS);        check("E2 0-d", r[0] == "ok" and set(r[1]) == {"LL","LT","TL","TT"} and all(s == () for s in r[1].values()), r)
r = sdh(z(4), 1., 2e6, 10, []);                  check("E2 empty dict", r == ("ok", {}), r)
# maxn observed through the orders passed to hankel1
rec = []
orig = scat.hankel1
def spy(n, x):
    rec.append(int(np.max(n))); return orig(n, x)
scat.hankel1 = spy
def maxn(f, r, vl, vt, mt, tf):
    rec.clear()
    try: scat.sdh_2d_scat(0., 0., f, r, vl, vt, min_terms=mt, term_factor=tf)
    except IndexError: return "IndexError"
    return max(rec)
got = [maxn(2e6, .5e-3, vL, vT, 10, 4), maxn(5e6, .5e-3, vL, vT, 10, 4), maxn(5e6, 1e-3, vL, vT, 10, 4),
       maxn(5e6, 1e-3, vL, vT, 50, 4), maxn(5e6, 1e-3, 3000., 6000., 10, 3), maxn(-2e6, .5e-3, vL, vT, -3, 4)]
scat.hankel1 = orig
check("E2 maxn", got == [10, 21, 41, 50, 32, "IndexError"], got)   # model: 10 21 41 50 32 -3 (-3 < 0: EEmptyModes)

# E3 crack: entry idx of key k = scalar call at the pair of angles the model names
f, L = 2e6, 2e-3
def crack(inc, out, safe, tc=scat.SCAT_KEYS):
    return scat.crack_2d_scat(inc, out, f, L, vL, vT, rho, assume_safe_for_opt=safe, to_compute=tc)
def scal(a, b, k):
    return complex(crack(a, b, False)[k])
def close(x, y): return abs(x - y) <= 1e-12 * max(1.0, abs(y))
inc22 = np.array([[0.,1.],[2.,3.]]); out22 = np.array([[10.,11.],[12.,13.]])
idx22 = [(0,0),(0,1),(1,0),(1,1)]
def cmp_entries(name, arr, pairs, k, idxs):
    good = all(close(arr[i], scal(a, b, k)) for i, (a, b) in zip(idxs, pairs))
    check(name, good and True, [complex(arr[i]) for i in idxs][:2])
cmp_entries("E3 general 2x2 LL", crack(inc22, out22, False)["LL"], [(0,10),(1,11),(2,12),(3,13)], "LL", idx22)
cmp_entries("E3 optimised 2x2 LL (first-row incident angles)", crack(inc22, out22, True)["LL"], [(0,10),(1,11),(0,12),(1,13)], "LL", idx22)
g = crack(inc22, out22, False)["LL"]; o = crack(inc22, out22, True)["LL"]
check("E3 optimised differs from general on row 1", not close(o[1,0], g[1,0]) and close(o[0,0], g[0,0]))
r = crack(inc22, out22, False, ["LT"])
cmp_entries("E3 to_compute=[LT]: LL filled", r["LL"], [(0,10),(1,11),(2,12),(3,13)], "LL", idx22)
check("E3 to_compute=[LT]: TL zeros, four keys", set(r) == {"LL","LT","TL","TT"} and not r["TL"].any() and not r["TT"].any() and r["TL"].shape == (2,2))
r = crack(np.array([0.,1.,2.]), 7., True)["TT"]
check("E3 vector/scalar shape", r.shape == (3,)); cmp_entries("E3 vector/scalar optimised TT", r, [(0,7),(1,7),(2,7)], "TT", [(0,),(1,),(2,)])
ic = np.array([[0.],[1.]]); oc = np.array([5.,6.,7.])
cmp_entries("E3 column/row general LT", crack(ic, oc, False)["LT"], [(0,5),(0,7),(1,5),(1,7)], "LT", [(0,0),(0,2),(1,0),(1,2)])
cmp_entries("E3 column/row optimised LT", crack(ic, oc, True)["LT"], [(0,5),(0,7),(0,5),(0,7)], "LT", [(0,0),(0,2),(1,0),(1,2)])
r = crack(1., 2., True)["TL"]; check("E3 scalars shape ()", r.shape == () and close(complex(r), scal(1., 2., "TL")))
r = kind(lambda: crack(z((2,2,2)), 0., False, ["XX"]));   check("E3 EToCompute before ndim", r[0] == "ValueError" and "to_compute" in r[1], r)
r = kind(lambda: crack(z((2,2,2)), 0., False));           check("E3 ENotImplemented", r[0] == "NotImplementedError", r)
r = kind(lambda: crack(z((1,1,2)), 0., False));           check("E3 ENotImplemented (1,1,2)", r[0] == "NotImplementedError", r)
r = kind(lambda: crack(z(2), z(3), False));               check("E3 EBroadcast", r[0] == "ValueError" and "broadcast" in r[1], r)
r = kind(lambda: crack(z(2), z(3), False, ["XX"]));       check("E3 EToCompute before shapes", r[0] == "ValueError" and "to_compute" in r[1], r)
r = crack(z(3), z((2,1)), False, ["LL"]);                 check("E3 four keys (2,3)", {k: v.shape for k, v in r.items()} == {k: (2,3) for k in ("LL","LT","TL","TT")})

# E4 point source
p = scat.PointSourceScat(vL, vT)
r = p(z(2), z((3,1)), 1e6, to_compute=["XX","LT"])
check("E4 invalid key ignored", list(r) == ["LT"] and r["LT"].shape == (3,2) and r["LT"][2,1] == 6300/3120 == 105/52, r["LT"][2,1])
r = kind(lambda: p(z(2), z(3), 1e6)); check("E4 EBroadcast", r[0] == "ValueError", r)
r = p(0, 0, 1e6)["TL"]; check("E4 TL", r.shape == () and float(r) == -3120/6300, float(r))

# E5 partial functions
fa = p.as_angles_funcs(5.)["LT"]; ff = p.as_freq_angles_funcs()["LT"]
res = [kind(lambda: fa(z(2), z(2)).shape), kind(lambda: fa(z(2), z(2), frequency=6.).shape), kind(lambda: fa(z(2), z(2), 6.).shape),
       kind(lambda: ff(z(2), z(2)).shape), kind(lambda: ff(z(2), z(2), 6.).shape), kind(lambda: ff(z(2), z(2), 6., frequency=6.).shape)]
check("E5 binding", [r[0] for r in res] == ["ok","ok","TypeError","TypeError","ok","TypeError"] and res[0][1] == (2,), [r[0] for r in res])
r = kind(lambda: scat._partial_one_scat_key(p, "XX")(z(2), z(2), 6.)); check("E5 KeyError", r[0] == "KeyError", r)

# E6 grid
gi, go = scat.make_angles_grid(4); pi = np.pi
check("E6 grid", gi.shape == (4,4) and np.allclose([gi[0,0], gi[0,1], gi[2,1], gi[1,3]], [-pi, -pi/2, -pi/2, pi/2], rtol=0, atol=1e-15)
      and np.allclose([go[0,0], go[0,1], go[2,1], go[1,3]], [-pi, -pi, 0, -pi/2], rtol=0, atol=1e-15))

# E7 the flag over a history
c = scat.CrackCentreScat(L, vL, vT, rho)
hist = []
def step(fn):
    r = kind(fn); hist.append((r[0] == "ok", c._in_matrix_calculation)); return r
call = lambda tc=scat.SCAT_KEYS: c(inc22, out22, 1e6, tc)
step(lambda: c.as_single_freq_matrices(1e6, 3)); r_before = step(call)
step(lambda: c.as_single_freq_matrices(1e6, 3, ["XX"])); r_after = step(call); step(lambda: call(["XX"]))
step(lambda: c.as_multi_freq_matrices([1e6, 2e6], 2, ["LL"])); step(call)
step(lambda: c.as_multi_freq_matrices([1e6], 2, ["XX"])); step(call)
r_none = step(lambda: c.as_multi_freq_matrices([], 2, ["XX"])); step(call)
model = [(True,False),(True,False),(False,True),(True,True),(False,True),(True,False),(True,False),(False,True),(True,True),(True,False),(True,False)]
check("E7 flags over the history", hist == model, hist)
check("E7 empty frequencies -> None", r_none == ("ok", None))
fresh = scat.CrackCentreScat(L, vL, vT, rho)
s212 = complex(scat.crack_2d_scat(2., 12., 1e6, L, vL, vT, rho)["LL"]); s012 = complex(scat.crack_2d_scat(0., 12., 1e6, L, vL, vT, rho)["LL"])
check("E7 plain call before the failed request: LL[1,0] = S(2, 12)", close(r_before[1]["LL"][1,0], s212))
check("E7 plain call AFTER the failed request: LL[1,0] = S(0, 12)  <-- FINDING", close(r_after[1]["LL"][1,0], s012) and not close(s012, s212),
      (complex(r_after[1]["LL"][1,0]), s212))

# E8 multi-frequency
check("E8 None", p.as_multi_freq_matrices([], 2, ["XX"]) is None)
r = kind(lambda: p.as_multi_freq_matrices([1.], 2, ["XX"])); check("E8 KeyError", r[0] == "KeyError", r)
r = p.as_multi_freq_matrices([1., 2., 3.], 2, ["TL", "LL"]); check("E8 shapes", {k: v.shape for k, v in r.items()} == {"TL": (3,2,2), "LL": (3,2,2)})
r = c.as_multi_freq_matrices([1e6, 2e6], 3, ["LT"]); check("E8 crack only requested keys", {k: v.shape for k, v in r.items()} == {"LT": (2,3,3)})
s = scat.SdhScat(.5e-3, vL, vT)
r = kind(lambda: s.as_multi_freq_matrices([1.], 3, ["XX"])); check("E8 sdh EToCompute", r[0] == "ValueError" and "to_compute" in r[1], r)
# multi = stack of singles, single[j, i] = S(theta_i, theta_j)
m = s.as_multi_freq_matrices([1e6, 3e6], 5); th = scat.make_angles(5)
check("E8 sdh multi[k, j, i] = S(theta_i, theta_j; f_k)",
      all(close(m[k][kf, j, i], complex(scat.sdh_2d_scat(th[i], th[j], fq, .5e-3, vL, vT)[k]))
          for k in ("LL","LT","TL","TT") for kf, fq in enumerate((1e6, 3e6)) for j in range(5) for i in range(5)))
m = c.as_single_freq_matrices(2e6, 5)
check("E8 crack single[j, i] = S(theta_i, theta_j) (optimised driver on the grid)",
      all(close(m[k][j, i], scal(th[i], th[j], k)) for k in ("LL","LT","TL","TT") for j in range(5) for i in range(5)))
# circulant SDH matrix, mirror symmetry of the crack
m = s.as_single_freq_matrices(2e6, 6)
check("sdh matrix circulant", all(abs(m[k][(j+2) % 6, (i+2) % 6] - m[k][j, i]) < 1e-12 for k in m for j in range(6) for i in range(6)))
a, b = 0.3, -1.1
r1 = scat.crack_2d_scat(a, b, f, L, vL, vT, rho); r2 = scat.crack_2d_scat(-a, -b, f, L, vL, vT, rho)
check("crack mirror", all(abs(r2[k] - sg * r1[k]) < 1e-9 * abs(r1[k]) for k, sg in (("LL",1),("TT",1),("LT",-1),("TL",-1))),
      [abs(r2[k] - sg * r1[k]) / abs(r1[k]) for k, sg in (("LL",1),("TT",1),("LT",-1),("TL",-1))])
r1 = s(a, b, f); r2 = s(-a, -b, f)
check("sdh parity", all(abs(r2[k] - sg * r1[k]) < 1e-12 for k, sg in (("LL",1),("TT",1),("LT",-1),("TL",-1))))
# E9 integer angles
check("E9 int angles", all(np.array_equal(s(3, 5, f)[k], s(3., 5., f)[k]) and np.array_equal(s(np.array([3]), 5.5, f)[k], s(np.array([3.]), 5.5, f)[k]) for k in ("LL","LT")))
print("ALL OK" if ok else "SOME FAILED")
