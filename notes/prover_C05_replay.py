"""Replay of the vm_compute examples of coq/theories/Proofs/RayGeomGlueExamples.v (E1-E11)
against the real library.  Run: PYTHONPATH=/repo/src /venv/bin/python notes/prover_C05_replay.py"""
import warnings
import numpy, numpy as np
warnings.filterwarnings("ignore")
numpy.complex_ = numpy.complex128; numpy.float_ = numpy.float64
import arim.ray as ray, arim.geometry as g, arim.core as c

PI = np.pi
ok = []
def check(name, cond):
    ok.append((name, bool(cond)))
    if not cond: print("MISMATCH:", name)

def kind(f):
    try:
        r = f()
        return "None" if r is None else "val"
    except Exception as e:
        return type(e).__name__

I3 = np.eye(3); J3 = np.diag([1., -1., -1.])
P0 = g.Points(np.array([[0., 0, 0], [3, 0, 0]]), "P0")
P1 = g.Points(np.array([[0., 0, 4], [3, 0, 4], [6, 0, 4]]), "P1")
P2 = g.Points(np.array([[0., 0, 8], [3, 0, 8]]), "P2")
def mk(flags1=(True, False)):
    i0 = c.Interface(P0, g.Points(I3), are_normals_on_out_rays_side=True)
    i1 = c.Interface(P1, g.Points(np.array([I3, J3, I3])), are_normals_on_inc_rays_side=True, are_normals_on_out_rays_side=False)
    i1.are_normals_on_inc_rays_side, i1.are_normals_on_out_rays_side = flags1
    i2 = c.Interface(P2, g.Points(I3), are_normals_on_inc_rays_side=False)
    return [i0, i1, i2]
ifs3 = mk()

# E1
check("E1 broadcast", ifs3[0].orientations.coords.shape == (2, 3, 3) and np.array_equal(ifs3[0].orientations.coords, np.array([I3, I3])))
check("E1 ValueError", kind(lambda: c.Interface(P1, g.Points(np.array([I3, J3])))) == "ValueError")
check("E1 Assert inc=1", kind(lambda: c.Interface(P1, g.Points(I3), are_normals_on_inc_rays_side=1)) == "AssertionError")
check("E1 Assert out=0", kind(lambda: c.Interface(P1, g.Points(I3), are_normals_on_out_rays_side=0)) == "AssertionError")

# E2
fp = ray.FermatPath((P0, 1.0, P1, 1.0, P2))
interior16 = np.array([[[0, -2], [1, -1]]], dtype=np.int16)
times = np.zeros((2, 2))
R3 = ray.Rays(times, interior16, fp)
R3F = ray.Rays(times, interior16, fp, order="F")
check("E2 C buffer", R3.indices.flags.c_contiguous and list(R3.indices.ravel(order="K")) == [0, 0, 1, 1, 0, -2, 1, -1, 0, 1, 0, 1])
check("E2 F buffer", R3F.indices.flags.f_contiguous and not R3F.indices.flags.c_contiguous
      and list(R3F.indices.ravel(order="K")) == [0, 0, 0, 1, 1, 0, 0, -2, 1, 1, -1, 1])
cols = {(0, 0): [0, 0, 0], (0, 1): [0, -2, 1], (1, 0): [1, 1, 0], (1, 1): [1, -1, 1]}
for (i, j), col in cols.items():
    check(f"E2 column {i}{j}", list(R3.indices[:, i, j]) == col and list(R3F.indices[:, i, j]) == col)
check("E2 dtype kept", R3.indices.dtype == np.int16)

# E3
A = "AssertionError"
check("E3 uint16", kind(lambda: ray.Rays(times, np.array([[[0, 1], [1, 2]]], dtype=np.uint16), fp)) == A)
check("E3 int times", kind(lambda: ray.Rays(np.zeros((2, 2), dtype=np.int64), interior16, fp)) == A)
check("E3 times shape", kind(lambda: ray.Rays(np.zeros((2, 3)), interior16, fp)) == A)
check("E3 two sets", kind(lambda: ray.Rays(times, interior16, ray.FermatPath((P0, 1.0, P2)))) == A)
check("E3 first set of 3", kind(lambda: ray.Rays(times, interior16, ray.FermatPath((P1, 1.0, P1, 1.0, P2)))) == A)
check("E3 times ndim", kind(lambda: ray.Rays(np.zeros(4), interior16, fp)) == A)
check("E3 interior ndim", kind(lambda: ray.Rays(times, np.zeros((2, 2), dtype=np.int16), fp)) == A)

# E4
check("E4 built", kind(lambda: ray.RayGeometry(ifs3, R3)) == "val")
P1copy = g.Points(P1.coords.copy(), "P1")
i1c = c.Interface(P1copy, g.Points(np.array([I3, J3, I3])), are_normals_on_inc_rays_side=True, are_normals_on_out_rays_side=False)
check("E4 identity", kind(lambda: ray.RayGeometry([ifs3[0], i1c, ifs3[2]], R3)) == A)
check("E4 length", kind(lambda: ray.RayGeometry([ifs3[0], ifs3[2]], R3)) == A)
class FakePath: pass
p = FakePath(); p.interfaces = ifs3; p.rays = None
check("E4 from_path None", kind(lambda: ray.RayGeometry.from_path(p)) == "ValueError")
p.rays = R3
check("E4 from_path", kind(lambda: ray.RayGeometry.from_path(p)) == "val")

METHODS = ["leg_points", "orientations_of_legs_points", "inc_leg_size", "inc_leg_cartesian", "inc_leg_radius",
           "inc_leg_polar", "inc_leg_azimuth", "inc_angle", "signed_inc_angle", "conventional_inc_angle",
           "out_leg_cartesian", "out_leg_radius", "out_leg_polar", "out_leg_azimuth", "out_angle",
           "signed_out_angle", "conventional_out_angle"]
def geom(ifs, interior, order=None, use_cache=False):
    interior = np.asarray(interior, dtype=np.int16)
    r = ray.Rays(np.zeros(interior.shape[1:]), interior, ray.FermatPath((ifs[0].points, 1.0, ifs[1].points, 1.0, ifs[2].points)), order=order)
    return ray.RayGeometry(ifs, r, use_cache=use_cache)
def ans(rg, meth, idx, i, j):
    try:
        r = getattr(rg, meth)(idx)
    except Exception as e:
        return type(e).__name__
    if r is None: return None
    if isinstance(r, g.Points): r = r.coords
    return np.asarray(r)[i, j]
def all17(rg, idx, i, j): return [ans(rg, m, idx, i, j) for m in METHODS]
def same(a, b):
    if isinstance(a, str) or isinstance(b, str) or a is None or b is None: return a is b or a == b
    return np.array_equal(np.asarray(a), np.asarray(b))
def same17(x, y): return all(same(a, b) for a, b in zip(x, y))

# E5: ray (0, 0), interface 1
for order in (None, "F"):
    rg = geom(ifs3, [[[0, -2], [1, -1]]], order)
    exp = [[0, 0, 4], I3, 4, [0, 0, -4], 4, PI, 0, PI, PI, PI, [0, 0, 4], 4, 0, 0, 0, 0, PI]
    check(f"E5 {order}", same17(all17(rg, 1, 0, 0), exp))

# E6: ray (0, 1) = column [0, -2, 1]
rg = geom(ifs3, [[[0, -2], [1, -1]]])
check("E6 leg_points", same(ans(rg, "leg_points", 1, 0, 1), [3, 0, 4]) and same(ans(rg, "leg_points", -2, 0, 1), [3, 0, 4]))
check("E6 frame", same(ans(rg, "orientations_of_legs_points", 1, 0, 1), J3))
check("E6 size", ans(rg, "inc_leg_size", 1, 0, 1) == 5 and ans(rg, "inc_leg_radius", -2, 0, 1) == 5)
check("E6 inc cartesian", same(ans(rg, "inc_leg_cartesian", 1, 0, 1), [-3, 0, 4]))
check("E6 out cartesian", same(ans(rg, "out_leg_cartesian", 1, 0, 1), [0, 0, -4]))
check("E6 out polar", ans(rg, "out_leg_polar", 1, 0, 1) == PI and ans(rg, "conventional_out_angle", 1, 0, 1) == 0)
check("E6 interface 2", ans(rg, "inc_leg_size", 2, 0, 1) == 4 and ans(rg, "inc_leg_polar", 2, 0, 1) == PI
      and ans(rg, "conventional_inc_angle", 2, 0, 1) == 0 and ans(rg, "conventional_inc_angle", -1, 0, 1) == 0)
rg_b = geom(ifs3, [[[0, 1], [1, -1]]])
for idx in [-3, -2, -1, 0, 1, 2, 3, -4]:
    check(f"E6 respelled idx={idx}", same17(all17(rg_b, idx, 0, 1), all17(rg, idx, 0, 1)))

# E7
check("E7 None first", ans(rg, "inc_leg_size", 0, 0, 1) is None and ans(rg, "inc_leg_size", -3, 0, 1) is None)
ifs_u = mk((None, None)); rg_u = geom(ifs_u, [[[0, -2], [1, -1]]]); rg_u3 = geom(ifs_u, [[[0, 3], [1, -1]]])
check("E7 None before flag", ans(rg_u, "conventional_inc_angle", 0, 0, 1) is None)
check("E7 None last", ans(rg, "out_leg_cartesian", 2, 0, 1) is None and ans(rg, "conventional_out_angle", -1, 0, 1) is None)
check("E7 IndexError interface", ans(rg, "inc_leg_size", 3, 0, 1) == "IndexError" and ans(rg, "leg_points", -4, 0, 1) == "IndexError")
rg3 = geom(ifs3, [[[0, 3], [1, -1]]]); rgm4 = geom(ifs3, [[[0, -4], [1, -1]]]); rgm3 = geom(ifs3, [[[0, -3], [1, -1]]])
check("E7 IndexError point", ans(rg3, "leg_points", 1, 0, 1) == "IndexError" and ans(rgm4, "leg_points", 1, 0, 1) == "IndexError")
check("E7 -3 ok", same(ans(rgm3, "leg_points", 1, 0, 1), [0, 0, 4]))
check("E7 IndexError size", ans(rg3, "inc_leg_size", 2, 0, 1) == "IndexError" and ans(rg3, "inc_leg_size", 0, 0, 1) is None)
check("E7 ValueError", ans(rg_u, "conventional_inc_angle", 1, 0, 1) == "ValueError")
check("E7 ValueError before IndexError", ans(rg_u3, "conventional_out_angle", 1, 0, 1) == "ValueError" and ans(rg_u3, "inc_angle", 1, 0, 1) == "IndexError")

# E8
ifs_i = mk((1, 0)); rg_i = geom(ifs_i, [[[0, -2], [1, -1]]])
check("E8 int flags", ans(rg_i, "conventional_out_angle", 1, 0, 1) == 0 and ans(rg_i, "conventional_inc_angle", 1, 0, 0) == PI
      and same17(all17(rg_i, 1, 0, 0), all17(rg, 1, 0, 0)))

# E9
Q0 = g.Points(np.zeros((200, 3))); Q1 = g.Points(np.zeros((1, 3)))
fq = ray.FermatPath((Q0, 1.0, Q1))
r8 = ray.Rays(np.zeros((200, 1)), np.zeros((0, 200, 1), dtype=np.int8), fq)
r16 = ray.Rays(np.zeros((200, 1)), np.zeros((0, 200, 1), dtype=np.int16), fq)
check("E9 int8 wraps", list(r8.indices[:, 128, 0]) == [-128, 0] and list(r16.indices[:, 128, 0]) == [128, 0])
Q0b = g.Points(np.arange(600.).reshape(200, 3))
r8b = ray.Rays(np.zeros((200, 1)), np.zeros((0, 200, 1), dtype=np.int8), ray.FermatPath((Q0b, 1.0, Q1)))
rg8 = ray.RayGeometry([c.Interface(Q0b, g.Points(I3)), c.Interface(Q1, g.Points(I3))], r8b)
check("E9 point 72 read", np.array_equal(rg8.leg_points(0).coords[128, 0], Q0b.coords[72]))

# E10
rr = R3.reverse()
check("E10 points", rr.fermat_path.points == (P2, P1, P0))
check("E10 F buffer", rr.indices.flags.f_contiguous and not rr.indices.flags.c_contiguous
      and list(rr.indices.ravel(order="K")) == [0, 0, 0, 1, -2, 0, 0, 1, 1, 1, -1, 1])
for (j, i), col in {(0, 0): [0, 0, 0], (1, 0): [1, -2, 0], (0, 1): [0, 1, 1], (1, 1): [1, -1, 1]}.items():
    check(f"E10 column {j}{i}", list(rr.indices[:, j, i]) == col)
check("E10 order c", R3.reverse(order="c").indices.flags.c_contiguous and not R3.reverse(order="c").indices.flags.f_contiguous)
rf = R3.to_fortran_order()
check("E10 to_fortran", rf.indices.flags.f_contiguous and not rf.indices.flags.c_contiguous
      and list(rf.indices.ravel(order="K")) == [0, 0, 0, 1, 1, 0, 0, -2, 1, 1, -1, 1])

# E11
P0b = g.Points(P0.coords[[1]]); P2b = g.Points(P2.coords[[1, 0]])
f0b = c.Interface(P0b, g.Points(ifs3[0].orientations.coords[[1]]), are_normals_on_out_rays_side=True)
flb = c.Interface(P2b, g.Points(ifs3[2].orientations.coords[[1, 0]]), are_normals_on_inc_rays_side=False)
check("E11 picked", np.array_equal(P2b.coords, [[3, 0, 8], [0, 0, 8]]))
rg_block = geom([f0b, ifs3[1], flb], np.array([[[0, -2], [1, -1]]])[:, [1]][:, :, [1, 0]])
check("E11 block column", list(rg_block.rays.indices[:, 0, 0]) == [0, -1, 0])
for idx in [-3, -2, -1, 0, 1, 2]:
    check(f"E11 idx={idx}", same17(all17(rg_block, idx, 0, 0), all17(rg, idx, 1, 1)))
check("E11 values", ans(rg, "inc_leg_size", 1, 1, 1) == 5 and ans(rg, "inc_leg_size", 2, 1, 1) == 5
      and same(ans(rg, "inc_leg_cartesian", 2, 1, 1), [3, 0, -4]))

bad = [n for n, v in ok if not v]
print(f"{len(ok) - len(bad)}/{len(ok)} replayed examples agree with the library")
if bad: print("disagreements:", bad)
