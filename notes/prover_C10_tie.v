From Coq Require Import ZArith QArith String List.
From Arim Require Import Base.Num Base.NumQ Model.ScatMatrix Model.ScatData.
Import ListNotations.
Local Open Scope Q_scope.
Definition kwd : i1kwargs (T:=Q) := arim_default_kwargs.
Definition q (z : Z) : Q := inject_Z z.
(* E1 argsort *)
Eval vm_compute in argsort NumQ [3;1;2;1].
Eval vm_compute in argsort NumQ [5;4;4;3;5].
(* E2 searchsorted / clip / pyget *)
Eval vm_compute in (searchsorted NumQ [1;2;3] 2, searchsorted NumQ [1;2;3] (5#2), searchsorted NumQ [1;2;3] 0, searchsorted NumQ [1;2;3] 7).
Eval vm_compute in (clip 0 1 2, clip 3 1 2, clip 5 1 0, pyget 0%Z [10;20;30]%Z (-1), pyget 0%Z [10;20;30]%Z 1).
(* E3 interp1d *)
Definition xs := [3;1;2]. Definition ys := [30;10;25].
Eval vm_compute in map (interp1d NumQ kwd xs ys) [5#2; 0; 4; 1; 2; 3; 3#2].
Eval vm_compute in map (interp1d NumQ (mk_kw None (FillPair 7 9)) xs ys) [4; 1#2; 1; 3].
Eval vm_compute in map (interp1d NumQ (mk_kw (Some false) (FillPair 7 9)) xs ys) [4; 1#2; 1; 3].
Eval vm_compute in map (interp1d NumQ (mk_kw (Some true) (FillBoth 0)) xs ys) [4; 1#2; 2].
Eval vm_compute in interp1d NumQ (mk_kw (Some true) Extrapolate) xs ys 2.
Eval vm_compute in interp1d_plan NumQ kwd xs (5#2).
Eval vm_compute in interp1d_plan NumQ kwd [4;8] 5.
(* E4 freq_interp_matrices: matrices M_k[j,i] = 100*(k+1) + 10*j + i + (k*k)*(j+1), n = 2 *)
Definition Mk (k : Z) : mat (T:=Q) := fun j i => q (100*(k+1) + 10*j + i + k*k*(j+1)).
Definition D1 : sdict (list (mat (T:=Q))) := fun k => match k with LL => Some [Mk 0; Mk 1; Mk 2] | TT => Some [Mk 2; Mk 1; Mk 0] | _ => None end.
Definition show (r : ferr + sdict (mat (T:=Q))) :=
  match r with inl e => inl e | inr d => inr (map (fun k => option_map (fun M : mat => [M 0 0; M 0 1; M 1 0; M 1 1]%Z) (d k)) SCAT_KEYS) end.
Eval vm_compute in show (freq_interp_matrices NumQ kwd [3;1;2] (5#2) D1).
Eval vm_compute in show (freq_interp_matrices NumQ kwd [3;1;2] 1 D1).
Eval vm_compute in show (freq_interp_matrices NumQ kwd [3;1;2] 6 D1).
Eval vm_compute in show (freq_interp_matrices NumQ (mk_kw None (FillBoth 0)) [3;1;2] 6 D1).
Eval vm_compute in show (freq_interp_matrices NumQ (mk_kw None (FillBoth 0)) [3;1;2] 6 (fun _ => None)).
Definition D2 : sdict (list (mat (T:=Q))) := fun k => match k with LT => Some [Mk 1] | _ => None end.
Eval vm_compute in (show (freq_interp_matrices NumQ (mk_kw (Some true) Extrapolate) [5] 9 D2), freq_interp_warns NumQ [5] 9, freq_interp_warns NumQ [5] 5).
Eval vm_compute in show (freq_interp_matrices NumQ kwd [] 9 D2).
(* E5 call at grid nodes and at a cell centre, P = 1 stands for pi: angles -P + k*2P/n *)
Definition showc (r : ferr + sdict Q) := match r with inl e => inl e | inr d => inr (map d SCAT_KEYS) end.
Eval vm_compute in showc (scat_from_data_call NumQ 1 2 kwd [3;1;2] D1 (angle NumQ 1 2 1) (angle NumQ 1 2 0) (5#2)).
Eval vm_compute in showc (scat_from_data_call NumQ 1 2 kwd [3;1;2] D1 (angle NumQ 1 2 1 + (1#2)) (angle NumQ 1 2 0 + (1#4)) (5#2)).
Eval vm_compute in showc (scat_from_data_call NumQ 1 2 kwd [3;1;2] D1 (angle NumQ 1 2 0 - 2 + (1#4)) (angle NumQ 1 2 1 + 4) 0).
(* E6 sfd_init *)
Eval vm_compute in sfd_init [2%nat] (fun k => match k with LL | TT => Some [2; 4; 4]%nat | _ => None end).
Eval vm_compute in sfd_init [] (fun k => match k with LT => Some [1; 4; 4]%nat | _ => None end).
Eval vm_compute in sfd_init [2%nat] (fun k => match k with LL => Some [2; 4; 4]%nat | TT => Some [2; 5; 5]%nat | _ => None end).
Eval vm_compute in sfd_init [3%nat] (fun k => match k with LL => Some [2; 4; 4]%nat | _ => None end).
Eval vm_compute in sfd_init [2%nat] (fun k => match k with LL => Some [2; 4; 5]%nat | _ => None end).
Eval vm_compute in sfd_init [2%nat] (fun k => match k with LL => Some [4; 4]%nat | _ => None end).
Eval vm_compute in sfd_init [2%nat] (fun _ => None).
Eval vm_compute in sfd_init [1; 2]%nat (fun k => match k with LL => Some [2; 4; 4]%nat | _ => None end).
(* E7 as_multi: scatterer returning LL float = inc + f, LT complex = (out, f*inc), TL only if requested, never TT *)
Definition S1 : scat_call (T:=Q) := fun inc out f tc k =>
  match k with
  | LL => Some (F64, fun j i => (inc j i + f, 0))
  | LT => Some (C128, fun j i => (out j i, f * inc j i))
  | TL => if existsb (skey_eqb TL) tc then Some (C128, fun j i => (f, f)) else None
  | TT => None end.
Definition showm (r : multi_err + option (sdict (dtype * arr3 (T:=Q)))) :=
  match r with inl e => inl e | inr None => inr None
  | inr (Some o) => inr (Some (map (fun k => option_map (fun da : dtype * arr3 => (fst da, map (fun kk => [snd da kk 0 0; snd da kk 0 1; snd da kk 1 0; snd da kk 1 1]%Z) [0;1;2]%nat)) (o k)) SCAT_KEYS)) end.
Eval vm_compute in showm (as_multi_freq_matrices NumQ S1 1 [5;7;6] 2 [LL;LT]).
Eval vm_compute in showm (as_multi_freq_matrices NumQ S1 1 [5;7] 2 [LL;TT]).
Eval vm_compute in showm (as_multi_freq_matrices NumQ S1 1 [] 2 [LL;TT]).
(* dtype from the FIRST frequency: a scatterer that is float at f=5 and complex elsewhere *)
Definition S2 : scat_call (T:=Q) := fun inc out f tc k =>
  if Qeq_bool f 5 then Some (F64, fun j i => (f, 0)) else Some (C128, fun j i => (f, f + 1)).
Eval vm_compute in showm (as_multi_freq_matrices NumQ S2 1 [5;7] 2 [LL]).
Eval vm_compute in showm (as_multi_freq_matrices NumQ S2 1 [7;5] 2 [LL]).
(* E8 grid *)
Eval vm_compute in (let '(a, b) := make_angles_grid NumQ 1 4 in ([a 0 0; a 0 1; a 2 1; a 1 3]%Z, [b 0 0; b 0 1; b 2 1; b 1 3]%Z)).
(* E9 rotate_matrices_steps, n = 3, M[j,i] = 10 j + i *)
Definition showr (l : list (string * (Z -> Z -> Z))) := map (fun kv => (fst kv, map (fun j => map (snd kv j) [0;1;2]%Z) [0;1;2]%Z)) l.
Eval vm_compute in showr (rotate_matrices_steps 3 1 [("LL"%string, fun j i => 10*j+i); ("x"%string, fun j i => i - j)]%Z).
Eval vm_compute in showr (rotate_matrices_steps 3 (-4) [("LL"%string, fun j i => 10*j+i)]%Z).
Eval vm_compute in showr (rotate_matrices_steps 3 (-6) [("LL"%string, fun j i => 10*j+i)]%Z).
(* E10 factory *)
Local Open Scope string_scope.
Eval vm_compute in scat_factory "SDH" (mk_material 6300 3120 2700)%Z [5%Z] [].
Eval vm_compute in scat_factory "Crack_Centre" (mk_material 6300 3120 2700)%Z [] [("crack_length", 2%Z)].
Eval vm_compute in scat_factory "crack_TIP" (mk_material 6300 3120 2700)%Z [] [].
Eval vm_compute in scat_factory "Point" (mk_material 6300 3120 2700)%Z [] [].
Eval vm_compute in scat_factory "FILE" (mk_material 6300 3120 2700)%Z [1%Z] [].
Eval vm_compute in scat_factory "Sphere" (mk_material 6300 3120 2700)%Z [] [].
Eval vm_compute in scat_factory "sdh " (mk_material 6300 3120 2700)%Z [] [].
