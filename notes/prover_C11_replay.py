# Replay of the examples of prover_C11_TIE.md against the real library.
# PYTHONPATH=/repo/src /venv/bin/python /verif/.work/prover_C11_replay.py
import numpy, numpy as np, warnings
numpy.complex_ = numpy.complex128; numpy.float_ = numpy.float64
warnings.filterwarnings("ignore")
import arim, arim.model as m, arim.signal as s, arim.core as c
import scipy.fftpack
from fractions import Fraction as F
bad = []
def check(name, got, want):
    ok = got == want
    print(("ok   " if ok else "FAIL ") + name, "" if ok else f"\n   got  {got}\n   want {want}")
    if not ok: bad.append(name)
def err(f, *a, **k):
    try:
        return ("ok", f(*a, **k))
    except BaseException as e:
        return (type(e).__name__, str(e))
def support(a, M, h, wrap):
    # entries written by the pulse: non-zero, or one of the two end samples of the Hann window (+-0.0)
    n = len(a); idx = [(k + h) % n if wrap else k for k in range(n)]
    return [1 if (a[k] != 0 or idx[k] in (0, M - 1) and idx[k] < M) else 0 for k in range(n)]

# E1 make_toneburst
E1 = [((5, 5, 0.0, None), "negative time step"), ((5, -1, 0.0, None), "negative time step"), ((0, -1, 1.0, None), "negative centre frequency"),
      ((0, 1, 1.0, 0), "negative number of cycles"), ((1, 1, 1.0, 0), "negative number of time samples"), ((3, 1, 1.0, 2), "time vector is too short for this pulse")]
for (cy, f, dt, ns), msg in E1:
    check(f"E1 error {cy, f, dt, ns}", err(m.make_toneburst, cy, f, dt, num_samples=ns), ("ValueError", msg))
a = m.make_toneburst(3, 1, 0.5, num_samples=9); check("E1 (3,1,1/2,9)", (len(a), support(a, 7, 3, False)), (9, [1]*7 + [0, 0]))
a = m.make_toneburst(3, 1, 0.5); check("E1 (3,1,1/2,None)", (len(a), support(a, 7, 3, False)), (7, [1]*7))
a = m.make_toneburst(5, 5, 1/25, num_samples=30); check("E1 (5,5,1/25,30)", (len(a), support(a, 25, 12, False)), (30, [1]*25 + [0]*5))
for an in (False, True):
    a = m.make_toneburst(3, 1, 0.5, num_samples=9, wrap=True, analytical=an)
    check(f"E1 wrap analytical={an}", (len(a), support(a, 7, 3, True)), (9, [1, 1, 1, 1, 0, 0, 1, 1, 1]))
check("E1 one-sample wrap", list(m.make_toneburst(1, 1, 1.0, num_samples=4, wrap=True)), [1, 0, 0, 0])
check("E1 one-sample analytic", list(m.make_toneburst(1, 2, 1.0, num_samples=3, analytical=True)), [1 + 0j, 0, 0])

# E2 make_toneburst2
def tb2(cy, f, dt, nb, na, an=False, fast=True, M=None):
    t, a, t0 = m.make_toneburst2(cy, f, dt, num_before=nb, num_after=na, analytical=an, use_fast_len=fast)
    lo = nb * M
    if lo < 0: lo += len(a)
    sup = [1 if lo <= k < lo + M else 0 for k in range(len(a))]
    assert all((a[k] != 0) <= bool(sup[k]) for k in range(len(a))) and a[t0 if t0 >= 0 else t0 + len(a)] != 0 or t0 < 0
    nz = np.nonzero(a)[0]
    assert nz.min() == lo + 1 and nz.max() == lo + M - 2 if M > 2 else True
    return (F(float(t.start)).limit_denominator(1000), F(float(t.step)).limit_denominator(1000), len(a), len(t), t0, sup)
check("E2 defaults 5,5,1/25", tb2(5, 5, 1/25, 2, 1, M=25), (F(-62, 25), F(1, 25), 100, 100, 62, [0]*50 + [1]*25 + [0]*25))
check("E2 1,1 odd length 75", tb2(5, 5, 1/25, 1, 1, M=25), (F(-37, 25), F(1, 25), 75, 75, 37, [0]*25 + [1]*25 + [0]*25))
check("E2 0,0 fast", tb2(3, 1, 0.5, 0, 0, M=7), (F(-3, 2), F(1, 2), 8, 8, 3, [1]*7 + [0]))
check("E2 0,0 analytic no fast", tb2(3, 1, 0.5, 0, 0, an=True, fast=False, M=7), (F(-3, 2), F(1, 2), 7, 7, 3, [1]*7))
check("E2 -2,3", tb2(3, 1, 0.5, -2, 3, M=7), (F(11, 2), F(1, 2), 15, 15, -11, [0] + [1]*7 + [0]*7))
for nb, na in [(-1, 0), (0, -1), (-1, 3)]:
    r = err(m.make_toneburst2, 3, 1, 0.5, num_before=nb, num_after=na)
    check(f"E2 broadcast error {nb, na}", (r[0], "could not broadcast" in r[1]), ("ValueError", True))
check("E2 dt=0", err(m.make_toneburst2, 3, 1, 0.0), ("ValueError", "negative time step"))
t, a, t0 = m.make_toneburst2(1, 1, 1.0, num_before=2, num_after=1)
check("E2 one-sample pulse", (t.start, t.step, list(a), t0), (-2.0, 1.0, [0, 0, 1, 0], 2))

# E3 next_fast_len
want = [None, 0, 1, 8, 12, 15, 18, 75, 100, 125, 128, 405, 486, 1024]
got = [ (scipy.fftpack.next_fast_len(t) if t >= 0 else None) for t in [-1, 0, 1, 7, 11, 13, 17, 75, 100, 121, 127, 405, 481, 1001]]
check("E3 next_fast_len", got, want); check("E3 negative", err(scipy.fftpack.next_fast_len, -1)[0], "ValueError")

# E4 weight table, recovered from rfft_to_hilbert column by column (ifft is linear)
def table(n, numfreq):
    rows = []
    try:
        for k in range(numfreq):
            e = np.zeros(numfreq, complex); e[k] = 1
            y = s.rfft_to_hilbert(e, n)
            # y = ifft(h*e, n): h[k] = sum_j y[j] exp(-2 pi i j k / n) when k < n
            rows.append(int(round((np.fft.fft(y)[k]).real)) if k < n else 0)
        if numfreq == 0: s.rfft_to_hilbert(np.zeros(0, complex), n)
        return rows
    except IndexError:
        return None
E4 = {(8, 5): [1, 2, 2, 2, 1], (7, 4): [1, 2, 2, 2], (8, 4): None, (7, 3): [1, 2, 2], (4, 5): [1, 2, 1, 0, 0], (1, 1): [1],
      (2, 1): None, (2, 2): [1, 1], (5, 0): None, (24, 12): None}
for (n, nf), w in E4.items():
    check(f"E4 table n={n} numfreq={nf}", table(n, nf), w)

# E5 rfft_to_hilbert n-d
def xa(shape):
    i, k = np.indices(shape); return (i + 1) * (k + 1) + 1j * (i - k)
def cq(a): return [[(F(float(z.real)).limit_denominator(64), F(float(z.imag)).limit_denominator(64)) for z in row] for row in a]
w1 = [[(2, -1), (0, F(3, 2)), (0, 0), (-1, F(-1, 2))], [(4, 0), (-1, F(5, 2)), (0, 0), (-1, F(-3, 2))]]
for ax in (-1, 1):
    r = s.rfft_to_hilbert(xa((2, 3)), 4, axis=ax); check(f"E5 (2,3) n=4 axis={ax}", (r.shape, cq(r)), ((2, 4), w1))
w2 = [[(2, 1), (4, 0)], [(-1, F(1, 2)), (-1, F(3, 2))], [(0, 0), (0, 0)], [(0, F(-3, 2)), (-1, F(-5, 2))]]
for ax in (0, -2):
    r = s.rfft_to_hilbert(xa((3, 2)), 4, axis=ax); check(f"E5 (3,2) n=4 axis={ax}", (r.shape, cq(r)), ((4, 2), w2))
r = s.rfft_to_hilbert(xa((2, 3)), 2); check("E5 truncation n=2", (r.shape, cq(r)), ((2, 2), [[(F(3, 2), F(-1, 2)), (F(-1, 2), F(1, 2))], [(3, F(1, 2)), (-1, F(1, 2))]]))
r = s.rfft_to_hilbert(xa((2, 3)), 1, axis=0); check("E5 n=1 axis=0", (r.shape, cq(r)), ((1, 3), [[(1, 0), (2, -1), (3, -2)]]))
E5e = [((), 4, -1, "IndexError"), ((2, 3), 4, 2, "IndexError"), ((2, 3), 4, -3, "IndexError"), ((2, 2), 4, -1, "IndexError"),
       ((2, 0), 4, -1, "IndexError"), ((2, 3), 0, -1, "ValueError"), ((2, 3), 4, 0, "IndexError")]
for sh, n, ax, kind in E5e:
    x = xa(sh) if sh else np.array(1 + 0j)
    check(f"E5 error shape={sh} n={n} axis={ax}", err(s.rfft_to_hilbert, x, n, ax)[0], kind)

# E6 timeshift_spectra with zero delays
Hs = np.array([[[10 * s_ + t + 1j * k for k in range(3)] for t in range(3)] for s_ in range(2)])
fr = np.array([0., 1., 2.])
check("E6 single", list(s.timeshift_spectra(Hs[..., :1], np.zeros((2, 3)), fr)[1, 2]), [12, 12, 12])
check("E6 multi", list(s.timeshift_spectra(Hs, np.zeros((2, 3)), fr)[1, 2]), [12, 12 + 1j, 12 + 2j])
check("E6 mismatch", err(s.timeshift_spectra, Hs[..., :2], np.zeros((2, 3)), fr)[0], "ValueError")

# E7 transfer_func_to_timetraces
x = np.array([0, 1, 0.5, 0]); tf = np.fft.rfft(x); frq = np.fft.rfftfreq(4, 0.25)
check("E7 spectrum", ([complex(z) for z in tf], list(frq)), ([1.5, -0.5 - 1j, -0.5], [0, 1, 2]))
ttime = c.Time(0.5, 0.25, 12); btime = c.Time(-0.25, 0.25, 4)
H3 = np.array([[[2], [1j]], [[1 + 1j], [-1]]], complex); kk = np.array([[3, 5], [4, 5]]); d3 = 0.5 + kk * 0.25
def run(H, d, tt=ttime, tb=btime, fr=frq, tf=tf, t0=1, given=None):
    r = err(m.transfer_func_to_timetraces, H, d, tt, tb, fr, tf, t0, given)
    return r[0] if r[0] != "ok" else (r[1].shape, cq(r[1]))
Z = (0, 0)
w = [[Z, Z, (0, -1), (F(5, 2), -1), (F(9, 4), F(7, 4)), (0, F(3, 2)), (F(-1, 4), F(1, 4)), Z, Z, Z, Z, Z],
     [Z, Z, Z, Z, (F(1, 2), F(1, 2)), (F(-3, 4), F(5, 4)), (-1, 0), (F(-1, 4), F(-1, 4)), Z, Z, Z, Z]]
check("E7 two scatterers", run(H3, d3), ((2, 12), w))
w0 = [[Z, Z, (0, -1), (2, F(-1, 2)), (1, 1), (0, F(1, 2)), Z, Z, Z, Z, Z, Z],
      [Z, Z, Z, Z, (F(1, 2), 0), (F(1, 4), 1), (F(-1, 2), F(1, 2)), (F(-1, 4), 0), Z, Z, Z, Z]]
check("E7 2-D input", run(H3[0], d3[0]), ((2, 12), w0))
check("E7 2-D H, (1,2) delays", run(H3[0], d3[:1]), ((2, 12), w0))
Hm = np.array([[(t + 1) * (1 + k) for k in range(3)] for t in range(2)], complex)
wm = [[Z, Z, (F(-1, 2), -1), (F(7, 4), F(-1, 2)), (F(1, 2), 1), (F(-1, 4), F(1, 2)), Z, Z, Z, Z, Z, Z],
      [Z, Z, Z, Z, (-1, -2), (F(7, 2), -1), (1, 2), (F(-1, 2), 1), Z, Z, Z, Z]]
check("E7 multi-frequency", run(Hm, d3[0]), ((2, 12), wm))
given = np.ones((2, 12), complex); r = m.transfer_func_to_timetraces(H3[0], d3[0], ttime, btime, frq, tf, 1, given)
check("E7 accumulates in place", (r is given, cq(r)), (True, [[(a + 1, b) for a, b in row] for row in w0]))
check("E7 1-D H", run(H3[0, :, 0], d3[0]), "ValueError")
check("E7 3-D H, 1-D delays", run(H3, d3[0]), "AssertionError")
check("E7 2-D H, (2,2) delays", run(H3[0], d3), "AssertionError")
check("E7 3 delays", run(H3[0], np.array([1., 1., 1.])), "AssertionError")
check("E7 two frequencies", run(np.ones((2, 2), complex), d3[0]), "ValueError")
check("E7 delay before origin", run(H3[0], np.array([0.25, 0.25])), "AssertionError")
check("E7 step mismatch", run(H3[0], d3[0], tb=c.Time(-0.25, 0.125, 4)), "NotImplementedError")
check("E7 toneburst_f too short", run(H3[0], d3[0], tf=np.array([1.5, 1])), "ValueError")
check("E7 2 bins for n=4", run(H3[0], d3[0], fr=np.array([0., 1.]), tf=np.array([1.5, 1])), "IndexError")
# outside the window: the model answers TfOutside (outside the domain of the property).  The library
# (numba prange): SystemError when the offending row is row 0, otherwise the echo is silently dropped.
r = run(H3[0], np.array([0.5, 0.5])); check("E7 outside, row 0 (slice start -1): SystemError", r, "SystemError")
r = run(H3[0], np.array([3., 3.])); check("E7 outside, row 0 (beyond the end): SystemError", r, "SystemError")
r = run(H3[0], np.array([1.25, 3.0])); check("E7 outside, row 1: echo dropped silently", r, ((2, 12), [w0[0], [Z]*12]))
print("FAILED:" if bad else "all replayed examples agree", bad)
