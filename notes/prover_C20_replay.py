# replay of the Examples of Props/C20.v (second part) on the real library
import numpy as np, warnings, scipy.io as sio, logging
warnings.filterwarnings("ignore"); logging.disable(logging.CRITICAL)
np.complex_ = np.complex128; np.float_ = np.float64
import arim, arim.io.native as native, arim.core as core, arim.geometry as geometry, arim.io.brain as brain
F = lambda n: n / 8.0
ERR = {"KeyError": "EKey", "TypeError": "EType", "AttributeError": "EAttr", "ValueError": "EValue",
       "NotImplementedError": "ENotImplemented", "FileNotFoundError": "ELoad"}
def run(f, *a, **k):
    try: return ("Ok", f(*a, **k))
    except Exception as e: return ("Err", ERR.get(type(e).__name__, type(e).__name__))
# --- recording shims: which calls reach the constructors
rec = []
def shim(mod, name):
    orig = getattr(mod, name)
    def w(*a, **k):
        rec.append((name, a, dict(k))); return orig(*a, **k)
    setattr(mod, name, w); return orig
shim(core, "Material"); shim(geometry, "points_1d_wall_z"); shim(geometry, "Grid")
shim(core, "material_attenuation_factory")
for nm in ("set_reference_element", "translate_to_point_O", "rotate", "translate"):
    orig = getattr(core.Probe, nm)
    def mk(nm, orig):
        def w(self, *a, **k):
            rec.append((nm, tuple(np.round(np.asarray(x, dtype=float), 9).tolist() if not isinstance(x, str) else x for x in a))); return orig(self, *a, **k)
        return w
    setattr(core.Probe, nm, mk(nm, orig))
def show(tag, r):
    print(tag, r[0], r[1] if r[0] == "Err" else type(r[1]).__name__)
    for c in rec: print("     call", c)
    rec.clear()
print("== material")
show("m1", run(native.material_from_conf, {"longitudinal_vel": F(50400), "transverse_att": F(24), "longitudinal_att": None, "metadata": None}))
show("m2", run(native.material_from_conf, {"longitudinal_vel": F(8), "zzz": 1}))
show("m3", run(native.material_from_conf, {"transverse_vel": F(8)}))
show("m4", run(native.material_from_conf, {"longitudinal_vel": F(8), "transverse_att": 3}))
show("m5", run(native.material_from_conf, {"longitudinal_vel": F(8), "transverse_att": {"value": F(24)}}))
show("m6", run(native.material_from_conf, 5))
print("== exam")
W = {"xmin": F(0), "xmax": F(8), "z": F(16), "numpoints": 3}
W2 = {"numpoints": 5, "z": F(40), "y": F(4), "xmax": F(24), "xmin": F(-8)}
M = {"longitudinal_vel": F(8)}
r = run(native.examination_object_from_conf, {"frontwall": W, "backwall": W2, "couplant_material": M, "block_material": {"longitudinal_vel": F(16), "transverse_vel": F(8)}})
o = r[1]; show("e1", r)
print("     block vl,vt", o.block_material.longitudinal_vel, o.block_material.transverse_vel, "couplant vl", o.couplant_material.longitudinal_vel,
      "front", o.frontwall.points.name, o.frontwall.points.x.tolist(), o.frontwall.points.z[0], "back", o.backwall.points.name, o.backwall.points.x.tolist(), o.backwall.points.y[0], o.backwall.points.z[0])
r = run(native.examination_object_from_conf, {"block_material": M, "frontwall": None, "under_material": None, "backwall": W})
o = r[1]; show("e2", r); print("     front", o.frontwall, "under", o.under_material, "back", o.backwall.points.name)
show("e3", run(native.examination_object_from_conf, {"frontwall": W}))
show("e4", run(native.examination_object_from_conf, {"block_material": M, "frontwall": None, "backwall": W, "couplant_material": M}))
show("e5", run(native.examination_object_from_conf, {"block_material": M, "frontwall": 5}))
show("e6", run(native.examination_object_from_conf, {"block_material": M, "frontwall": dict(W, name="x")}))
show("e7", run(native.examination_object_from_conf, {"block_material": M, "frontwall": {"xmin": F(0)}}))
show("e8", run(native.examination_object_from_conf, {"block_material": 5}))
print("== probe")
PR = {"frequency": F(8000000), "numx": 3, "pitch_x": F(8), "numy": 1, "pitch_y": F(8)}
show("p1", run(native.probe_from_conf, {"probe": PR, "probe_location": {"standoff": F(-16), "angle_deg": F(0), "ref_element": 0}}, True))
show("p2", run(native.probe_from_conf, {"probe": PR}, True))
show("p3", run(native.probe_from_conf, {"probe": PR}, False))
show("p4", run(native.probe_from_conf, {"probe": PR, "probe_location": "abc"}, True))
show("p5", run(native.probe_from_conf, {"probe": PR, "probe_location": "xx standoff"}, True))
show("p6", run(native.probe_from_conf, {"probe": PR, "probe_location": 5}, True))
show("p7", run(native.probe_from_conf, {"probe": PR, "probe_key": "ima_50_MHz_128_1d"}, False))
show("p8", run(native.probe_from_conf, {"probe_key": "ima_50_MHz_128_1d", "probe_location": {"ref_element": "mean"}}, True))
show("p9", run(native.probe_from_conf, {"probe": {"numx": 1}, "probe_location": {}}, True))
show("p10", run(native.probe_from_conf, {"probe_location": {}}, True))
print("== grid")
G = {"xmin": F(0), "xmax": F(16), "zmin": F(0), "zmax": F(32)}
r = run(native.grid_from_conf, {"grid": dict(G, ymax=F(48), pixel_size=[F(8), F(24), F(16)])}); show("g1", r)
g = r[1]; print("     x", g.xvect.tolist(), "y", g.yvect.tolist(), "z", g.zvect.tolist())
show("g2", run(native.grid_from_conf, {"grid": dict(G, pixel_size=F(8))}))
show("g3", run(native.grid_from_conf, {"grid": dict(G, pixel_size=[F(8), F(24)])}))
show("g4", run(native.grid_from_conf, {"grid": 5}))
show("g5", run(native.grid_from_conf, {"grid": {"xmin": F(0)}}))
show("g6", run(native.grid_from_conf, {"grid": dict(G, foo=1, pixel_size=F(8))}))
show("g7", run(native.grid_from_conf, {}))
print("== frame")
import os; os.makedirs("/tmp/agent_C20p", exist_ok=True)
p = "/tmp/agent_C20p/a.mat"
xc = np.arange(2) * 1.0
arr = {"centre_freq": 5e6, "el_xc": xc, "el_yc": xc * 0, "el_zc": xc * 0, "el_x1": xc - 0.25, "el_x2": xc + 0.5, "el_y1": xc * 0 - 4, "el_y2": xc * 0 + 2, "el_z1": xc * 0, "el_z2": xc * 0}
def write(N, S, tx, rx, time):
    td = np.arange(N * S, dtype=float).reshape(N, S).T
    sio.savemat(p, {"exp_data": {"array": arr, "tx": np.array(tx, float), "rx": np.array(rx, float), "time_data": td, "time": np.array(time, float).reshape(-1, 1), "ph_velocity": 6300.0}})
write(4, 3, [1, 1, 2, 2], [1, 2, 1, 2], [5, 5.5, 6])
def fshow(tag, conf, *a):
    r = run(native.frame_from_conf, conf, *a); rec.clear()
    if r[0] == "Err": print(tag, r); return
    f = r[1]; print(tag, "Ok start", f.time.start, "step", f.time.step, "n", len(f.time), "probe n", f.probe.numelements, type(f.examination_object).__name__)
fr = {"datafile": p, "instrument_delay": F(16), "dataset_name": "zz"}
fshow("f1", {"frame": fr, "probe": PR, "probe_location": {}, "block_material": M}, True, True)
fshow("f2", {"block_material": M, "probe_location": {}, "probe": PR, "frame": fr}, True, True)
fshow("f3", {"frame": {"datafile": p, "instrument_delay": None}}, False, False)
fshow("f4", {"frame": {"datafile": p}}, True, False)
fshow("f5", {"frame": {"datafile": p}}, False, True)
fshow("f6", {"frame": {"datafile": "/nonexistent.mat"}}, False, False)
fshow("f7", {"frame": {"dataset_name": "zz", "dataset_item": "a"}}, False, False)
fshow("f8", {"frame": {"dataset_item": "a"}}, False, False)
fshow("f9", {"frame": "a datafile b"}, False, False)
fshow("f10", {}, False, False)
print("== brain")
def bshow(tag):
    try:
        f = brain.load_expdata(p)
        print(tag, "Some", f.timetraces.tolist(), (f.time.start, f.time.step, len(f.time)), f.tx.tolist(), f.rx.tolist(), "loc", f.probe.locations.coords.tolist(), "dim", f.probe.dimensions.coords.tolist(), f.probe.frequency)
    except Exception as e:
        print(tag, "None", type(e).__name__, str(e)[:60])
bshow("b1")
write(4, 3, [1, 1, 2, 1], [1, 2, 1, 2], [5, 5.5, 6]); bshow("b2 dup")
write(4, 3, [1, 1, 2], [1, 2, 1], [5, 5.5, 6]); bshow("b3 short")
write(4, 3, [1, 1, 2, 2], [1, 2, 1, 2], [3, 2, 1]); bshow("b4 decreasing")
write(4, 3, [1, 1, 2, 2], [1, 2, 1, 2], [3, 2, 1, 0]); bshow("b5 time len")
write(1, 3, [1], [1], [5, 5.5, 6]); bshow("b6 N=1")
print(run(core.Time.from_vect, np.array([3., 2., 1.])), core.Time.from_vect(np.array([3., 3., 3.])).step)
