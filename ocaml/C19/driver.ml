(* ocaml/C19/driver.ml — extracted registration model on floats (libm asin/sin/cos).
   Probe block P  :=  n  x0 y0 z0 .. (3n hex floats)  dead_0 .. dead_{n-1} (0/1)
   Frame block F  :=  m  tx_0..tx_{m-1}  rx_0..rx_{m-1}
   MV  pcs(9 hex floats: origin i_hat j_hat)  P  F  k  d_0..d_{k-1}
        -> "E code"  |  "OK z_o theta  3n locations  9 pcs"
   FP  start step num c tmin tmax  P  F  rows (m*num hex floats, row major)     (tmin/tmax: hex or none)
        -> "E code"  |  "OK z_o theta  3n locations  9 pcs  m times"
   FIT k x_0..x_{k-1} d_0..d_{k-1}   -> p1 p0   (closed-form least squares) *)
open Numf
let z = z_of_int
let zi = int_of_z

let rec triples = function
  | a :: b :: c :: t -> ((a, b), c) :: triples t
  | [] -> []
  | _ -> failwith "triples"

let rec chunks k = function
  | [] -> []
  | l -> take k l :: chunks k (drop k l)

let opt s = if s = "none" then None else Some (fl s)

let v3s ((a, b), c) = [hex a; hex b; hex c]

let parse_probe toks =
  match toks with
  | n :: rest ->
      let n = int_of_string n in
      let locs = triples (Stdlib.List.map fl (take (3 * n) rest)) in
      let rest = drop (3 * n) rest in
      let dead = Stdlib.List.map (fun s -> s = "1") (take n rest) in
      (locs, dead, drop n rest)
  | [] -> failwith "probe"

let parse_frame toks =
  match toks with
  | m :: rest ->
      let m = int_of_string m in
      let tx = Stdlib.List.map (fun s -> z (int_of_string s)) (take m rest) in
      let rest = drop m rest in
      let rx = Stdlib.List.map (fun s -> z (int_of_string s)) (take m rest) in
      (m, tx, rx, drop m rest)
  | [] -> failwith "frame"

let show_move (r : float Registration.move_result) =
  let ((o, i), j) = r.Registration.mr_pcs in
  [hex r.Registration.mr_z_o; hex r.Registration.mr_theta]
  @ Stdlib.List.concat_map v3s r.Registration.mr_locs
  @ v3s o @ v3s i @ v3s j

let () =
  iter_lines (fun line ->
    match tokens line with
    | "MV" :: rest ->
        let pcs = Stdlib.List.map fl (take 9 rest) in
        let cs = (match triples pcs with [o; i; j] -> ((o, i), j) | _ -> failwith "pcs") in
        let (locs, dead, rest) = parse_probe (drop 9 rest) in
        let (_, tx, rx, rest) = parse_frame rest in
        let k = int_of_string (Stdlib.List.hd rest) in
        let ds = Stdlib.List.map fl (take k (Stdlib.List.tl rest)) in
        (match Registration.move_probe numf (Registration.fit_line numf) cs tx rx dead locs ds with
         | Datatypes.Coq_inl e -> Printf.printf "E %d\n" (zi (Registration.reg_error_code e))
         | Datatypes.Coq_inr r -> print_endline (String.concat " " ("OK" :: show_move r)))
    | "FP" :: start :: step :: num :: c :: tmin :: tmax :: rest ->
        let num = int_of_string num in
        let (locs, dead, rest) = parse_probe rest in
        let (m, tx, rx, rest) = parse_frame rest in
        let rows = chunks num (Stdlib.List.map fl (take (m * num) rest)) in
        (match Registration.find_probe_loc numf (Registration.fit_line numf) (fl start) (fl step) (z num) rows
                 tx rx dead locs (fl c) (opt tmin) (opt tmax) with
         | Datatypes.Coq_inl e -> Printf.printf "E %d\n" (zi (Registration.reg_error_code e))
         | Datatypes.Coq_inr (r, times) ->
             print_endline (String.concat " " ("OK" :: show_move r @ Stdlib.List.map hex times)))
    | "FIT" :: k :: rest ->
        let k = int_of_string k in
        let xs = Stdlib.List.map fl (take k rest) in
        let ds = Stdlib.List.map fl (take k (drop k rest)) in
        let (p1, p0) = Registration.fit_line numf xs ds in
        print_endline (hex p1 ^ " " ^ hex p0)
    | _ -> failwith ("bad line: " ^ line))
