(* ocaml/C19/driver.ml — extracted registration model on floats (libm asin/sin/cos).
   Probe block P  :=  n  x0 y0 z0 .. (3n hex floats)  dead_0 .. dead_{n-1} (0/1)
   Frame block F  :=  m  tx_0..tx_{m-1}  rx_0..rx_{m-1}
   MV  pcs(9 hex floats: origin i_hat j_hat)  P  F  k  d_0..d_{k-1}
        -> "E code"  |  "OK z_o theta  3n locations  9 pcs"
   FP  start step num c tmin tmax  P  F  rows (m*num hex floats, row major)     (tmin/tmax: hex or none)
        -> "E code"  |  "OK z_o theta  3n locations  9 pcs  m times"
   FIT k x_0..x_{k-1} d_0..d_{k-1}   -> p1 p0   (closed-form least squares) *)
open Numf
let z = z_of_int
let zi = int_of_z

(* parsing over an array of tokens with a cursor (frames can carry 10^5..10^6 numbers:
   no deep recursion on the token list) *)
let toks : string array ref = ref [||]
let pos = ref 0
let next () = let t = !toks.(!pos) in incr pos; t
let next_fl () = fl (next ())
let next_int () = int_of_string (next ())
let list_init n f = Array.to_list (Array.init n f)   (* Array.init evaluates f in index order *)
let next_v3 () = let a = next_fl () in let b = next_fl () in let c = next_fl () in ((a, b), c)
let opt s = if s = "none" then None else Some (fl s)
let v3s ((a, b), c) = [hex a; hex b; hex c]

let parse_probe () =
  let n = next_int () in
  let locs = list_init n (fun _ -> next_v3 ()) in
  let dead = list_init n (fun _ -> next () = "1") in
  (locs, dead)

let parse_frame () =
  let m = next_int () in
  let tx = list_init m (fun _ -> z (next_int ())) in
  let rx = list_init m (fun _ -> z (next_int ())) in
  (m, tx, rx)

let show_move (r : float Registration.move_result) =
  let ((o, i), j) = r.Registration.mr_pcs in
  [hex r.Registration.mr_z_o; hex r.Registration.mr_theta]
  @ Stdlib.List.concat_map v3s r.Registration.mr_locs
  @ v3s o @ v3s i @ v3s j

let () =
  iter_lines (fun line ->
    toks := Array.of_list (tokens line);
    pos := 0;
    match next () with
    | "MV" ->
        let o = next_v3 () in let i = next_v3 () in let j = next_v3 () in
        let cs = ((o, i), j) in
        let (locs, dead) = parse_probe () in
        let (_, tx, rx) = parse_frame () in
        let k = next_int () in
        let ds = list_init k (fun _ -> next_fl ()) in
        (match Registration.move_probe numf (Registration.fit_line numf) cs tx rx dead locs ds with
         | Datatypes.Coq_inl e -> Printf.printf "E %d\n" (zi (Registration.reg_error_code e))
         | Datatypes.Coq_inr r -> print_endline (String.concat " " ("OK" :: show_move r)))
    | "FP" ->
        let start = next_fl () in let step = next_fl () in let num = next_int () in let c = next_fl () in
        let tmin = opt (next ()) in let tmax = opt (next ()) in
        let (locs, dead) = parse_probe () in
        let (m, tx, rx) = parse_frame () in
        let rows = list_init m (fun _ -> list_init num (fun _ -> next_fl ())) in
        (match Registration.find_probe_loc numf (Registration.fit_line numf) start step (z num) rows
                 tx rx dead locs c tmin tmax with
         | Datatypes.Coq_inl e -> Printf.printf "E %d\n" (zi (Registration.reg_error_code e))
         | Datatypes.Coq_inr (r, times) ->
             print_endline (String.concat " " ("OK" :: show_move r @ Stdlib.List.map hex times)))
    | "FIT" ->
        let k = next_int () in
        let xs = list_init k (fun _ -> next_fl ()) in
        let ds = list_init k (fun _ -> next_fl ()) in
        let (p1, p0) = Registration.fit_line numf xs ds in
        print_endline (hex p1 ^ " " ^ hex p0)
    | _ -> failwith ("bad line: " ^ String.sub line 0 (min 40 (String.length line))))
