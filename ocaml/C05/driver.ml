(* ocaml/C05/driver.ml — extracted ray-geometry model (Model/RayGeom.v) on floats.

   One geometry per line:
     G|R nif  { npts inc out  (x y z  b00 b01 b02 b10 .. b22) * npts } * nif
         n m d  (d*n*m interior indices, C order)   v_1 .. v_(nif-1)
   inc/out = T | F | N (normal-side flags).  `R`: the model first reverses the path
   (RayGeom.path_reverse) and the rays (RayGeom.rays_reverse_interior) and answers for
   the reversed objects (then the ray table has shape (m, n)).
   Answer (one line): for method = 0..18, for idx = -nif-1 .. nif, for i, for j:
     a value (1, 3 or 9 hex floats), or N (None), I (IndexError), V (ValueError),
     X (the ray column itself is not defined);
   then for i, for j: legs_time (hex float or X).
   Methods: 0 leg_points 1 orientations_of_legs_points 2 inc_leg_size 3 inc_leg_cartesian
     4 inc_leg_radius 5 inc_leg_polar 6 inc_leg_azimuth 7 inc_angle 8 signed_inc_angle
     9 conventional_inc_angle 10 out_leg_cartesian 11 out_leg_radius 12 out_leg_polar
     13 out_leg_azimuth 14 out_angle 15 signed_out_angle 16 conventional_out_angle
     17 signed_margin of inc_leg_azimuth 18 signed_margin of out_leg_azimuth *)
open Numf
open RayGeom

let z = z_of_int
let nat = nat_of_int

let flag = function "T" -> Some true | "F" -> Some false | "N" -> None | s -> failwith ("flag " ^ s)

let v3s ((x, y), zz) = [hex x; hex y; hex zz]
let m3s ((a, b), c) = v3s a @ v3s b @ v3s c

let show conv = function
  | Val a -> conv a
  | NoLeg -> ["N"]
  | IndexErr -> ["I"]
  | ValueErr -> ["V"]

let sc x = [hex x]

let () =
  iter_lines (fun line ->
    match tokens line with
    | kind :: nif :: rest ->
        let nif = int_of_string nif in
        let rest = ref rest in
        let next () = match !rest with [] -> failwith "short line" | x :: t -> rest := t; x in
        let nf () = fl (next ()) in
        let v3 () = let x = nf () in let y = nf () in let zz = nf () in ((x, y), zz) in
        let ifs = Stdlib.List.init nif (fun _ ->
          let npts = int_of_string (next ()) in
          let inc = flag (next ()) in
          let out = flag (next ()) in
          let pts = ref [] and ori = ref [] in
          for _ = 1 to npts do
            let p = v3 () in
            let r0 = v3 () in let r1 = v3 () in let r2 = v3 () in
            pts := p :: !pts; ori := ((r0, r1), r2) :: !ori
          done;
          { if_points = Stdlib.List.rev !pts; if_orient = Stdlib.List.rev !ori; if_inc = inc; if_out = out }) in
        let n = int_of_string (next ()) in
        let m = int_of_string (next ()) in
        let d = int_of_string (next ()) in
        let interior = Stdlib.List.init d (fun _ ->
          Stdlib.List.init n (fun _ -> Stdlib.List.init m (fun _ -> nat (int_of_string (next ()))))) in
        let vels = Stdlib.List.init (nif - 1) (fun _ -> nf ()) in
        let ifs, interior, n, m, vels =
          if kind = "R" then (path_reverse ifs, rays_reverse_interior (nat m) interior, m, n, Stdlib.List.rev vels)
          else if kind = "G" then (ifs, interior, n, m, vels)
          else failwith ("bad line kind " ^ kind) in
        let indices = make_indices (nat n) (nat m) interior in
        let col = Array.init n (fun i -> Array.init m (fun j -> ray_column indices (nat i) (nat j))) in
        let buf = Buffer.create 65536 in
        let emit l = Stdlib.List.iter (fun s -> Buffer.add_string buf s; Buffer.add_char buf ' ') l in
        let meth k ray idx : string list =
          let idx = z idx in
          match k with
          | 0 -> show v3s (leg_points ifs ray idx)
          | 1 -> show m3s (orientations_of_legs_points ifs ray idx)
          | 2 -> show sc (inc_leg_size numf ifs ray idx)
          | 3 -> show v3s (inc_leg_cartesian numf ifs ray idx)
          | 4 -> show sc (inc_leg_radius numf ifs ray idx)
          | 5 -> show sc (inc_leg_polar numf ifs ray idx)
          | 6 -> show sc (inc_leg_azimuth numf ifs ray idx)
          | 7 -> show sc (inc_angle numf ifs ray idx)
          | 8 -> show sc (signed_inc_angle numf ifs ray idx)
          | 9 -> show sc (conventional_inc_angle numf ifs ray idx)
          | 10 -> show v3s (out_leg_cartesian numf ifs ray idx)
          | 11 -> show sc (out_leg_radius numf ifs ray idx)
          | 12 -> show sc (out_leg_polar numf ifs ray idx)
          | 13 -> show sc (out_leg_azimuth numf ifs ray idx)
          | 14 -> show sc (out_angle numf ifs ray idx)
          | 15 -> show sc (signed_out_angle numf ifs ray idx)
          | 16 -> show sc (conventional_out_angle numf ifs ray idx)
          | 17 -> show sc (rmap (signed_margin numf) (inc_leg_azimuth numf ifs ray idx))
          | 18 -> show sc (rmap (signed_margin numf) (out_leg_azimuth numf ifs ray idx))
          | _ -> failwith "method" in
        for k = 0 to 18 do
          for idx = - nif - 1 to nif do
            for i = 0 to n - 1 do
              for j = 0 to m - 1 do
                match col.(i).(j) with
                | None -> emit ["X"]
                | Some ray -> emit (meth k ray idx)
              done
            done
          done
        done;
        for i = 0 to n - 1 do
          for j = 0 to m - 1 do
            match col.(i).(j) with
            | None -> emit ["X"]
            | Some ray ->
                (match legs_time numf ifs ray vels with Some t -> emit [hex t] | None -> emit ["X"])
          done
        done;
        print_endline (Buffer.contents buf)
    | _ -> failwith ("bad line: " ^ line))
