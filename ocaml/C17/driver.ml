(* ocaml/C17/driver.ml — runs the extracted geometry model (Model/Geometry.v) on
   float inputs.  One request per line: a command word followed by hex floats;
   the answer is one line of hex floats (or "none" for a modelled exception).
     to_gcs   B(9) o(3) c(3)            -> 3        from_gcs B(9) o(3) p(3) -> 3
     rotate   R(9) flag centre(3) c(3)  -> 3        (flag 0: centre=None)
     cs_from  o(3) i(3) j(3) p(3)       -> 3        cs_to    o i j c        -> 3
     cs_valid i(3) j(3)                 -> 0|1
     sph      x y z                     -> r theta phi
     rotx|roty|rotz th                  -> 9        ypr yaw pitch roll      -> 9
     iso2d    A(2) B(2) Ap(2) Bp(2)     -> none | M(4) P(2)
     iso3d    A i j B u v (18)          -> none | M(9) P(3)     (solve = Cramer)
     dist     p(3) q(3)                 -> 1
     gridaxis lo hi d                   -> none | n v_0 .. v_{n-1}
     centred  cx cy cz sx sy sz pixel   -> none | nx ny nz xvect yvect zvect
     rectbox  f(6 flags) b(6) p(3)      -> 0|1     (order xmin xmax ymin ymax zmin zmax) *)
open Numf

let v3 = function [a; b; c] -> ((a, b), c) | _ -> failwith "v3"
let m3 l = ((v3 (take 3 l), v3 (take 3 (drop 3 l))), v3 (take 3 (drop 6 l)))
let out_v3 ((a, b), c) = [a; b; c]
let out_m3 ((r0, r1), r2) = out_v3 r0 @ out_v3 r1 @ out_v3 r2
let show l = String.concat " " (Stdlib.List.map hex l)
let n = numf
let fint k = float_of_int k

let () =
  iter_lines (fun line ->
    match tokens line with
    | [] -> ()
    | cmd :: rest ->
        let xs = Stdlib.List.map fl rest in
        let sub i k = take k (drop i xs) in
        let ans =
          match cmd with
          | "to_gcs" -> show (out_v3 (Geometry.to_gcs n (m3 (sub 0 9)) (v3 (sub 9 3)) (v3 (sub 12 3))))
          | "from_gcs" -> show (out_v3 (Geometry.from_gcs n (m3 (sub 0 9)) (v3 (sub 9 3)) (v3 (sub 12 3))))
          | "rotate" ->
              let centre = if Stdlib.List.nth xs 9 = 0. then None else Some (v3 (sub 10 3)) in
              show (out_v3 (Geometry.rotate n (m3 (sub 0 9)) centre (v3 (sub 13 3))))
          | "cs_from" ->
              show (out_v3 (Geometry.cs_convert_from_gcs n (v3 (sub 0 3)) (v3 (sub 3 3)) (v3 (sub 6 3)) (v3 (sub 9 3))))
          | "cs_to" ->
              show (out_v3 (Geometry.cs_convert_to_gcs n (v3 (sub 0 3)) (v3 (sub 3 3)) (v3 (sub 6 3)) (v3 (sub 9 3))))
          | "cs_valid" -> if Geometry.cs_valid n (v3 (sub 0 3)) (v3 (sub 3 3)) then "1" else "0"
          | "sph" ->
              let ((r, th), ph) = Geometry.spherical_coordinates n (v3 xs) in show [r; th; ph]
          | "rotx" -> show (out_m3 (Geometry.rotation_matrix_x n (Stdlib.List.hd xs)))
          | "roty" -> show (out_m3 (Geometry.rotation_matrix_y n (Stdlib.List.hd xs)))
          | "rotz" -> show (out_m3 (Geometry.rotation_matrix_z n (Stdlib.List.hd xs)))
          | "ypr" ->
              (match xs with
               | [y; p; r] -> show (out_m3 (Geometry.rotation_matrix_ypr n y p r))
               | _ -> failwith "ypr")
          | "iso2d" ->
              (match xs with
               | [a0; a1; b0; b1; c0; c1; d0; d1] ->
                   (match Geometry.direct_isometry_2d n (a0, a1) (b0, b1) (c0, c1) (d0, d1) with
                    | None -> "none"
                    | Some (((m00, m01), (m10, m11)), (p0, p1)) -> show [m00; m01; m10; m11; p0; p1])
               | _ -> failwith "iso2d")
          | "iso3d" ->
              (match Geometry.direct_isometry_3d n (Geometry.solve_cramer n) (v3 (sub 0 3)) (v3 (sub 3 3))
                       (v3 (sub 6 3)) (v3 (sub 9 3)) (v3 (sub 12 3)) (v3 (sub 15 3)) with
               | None -> "none"
               | Some (m, p) -> show (out_m3 m @ out_v3 p))
          | "dist" -> show [Vec3.vdist n (v3 (sub 0 3)) (v3 (sub 3 3))]
          | "gridaxis" ->
              (match xs with
               | [lo; hi; d] ->
                   (match Geometry.grid_axis n lo hi d with
                    | None -> "none"
                    | Some l -> show (fint (Stdlib.List.length l) :: l))
               | _ -> failwith "gridaxis")
          | "centred" ->
              (match xs with
               | [cx; cy; cz; sx; sy; sz; px] ->
                   (match Geometry.grid_centred_at_point n cx cy cz sx sy sz px with
                    | None -> "none"
                    | Some g ->
                        let xv = g.Geometry.g_xvect and yv = g.Geometry.g_yvect and zv = g.Geometry.g_zvect in
                        show ([fint (Stdlib.List.length xv); fint (Stdlib.List.length yv);
                               fint (Stdlib.List.length zv)] @ xv @ yv @ zv))
               | _ -> failwith "centred")
          | "rectbox" ->
              let b k = if Stdlib.List.nth xs k = 0. then None else Some (Stdlib.List.nth xs (6 + k)) in
              if Geometry.in_rectbox n (b 0) (b 1) (b 2) (b 3) (b 4) (b 5) (v3 (sub 12 3)) then "1" else "0"
          | _ -> failwith ("unknown command " ^ cmd)
        in
        print_endline ans)
