(* ocaml/C15/driver.ml — runs the extracted Model.Frame.chain_check_flat.
   input line : the flat encoding of one chain case (decimal integers, see Model/Frame.v:
                state, nops, ops, nobs, observations)
   output line: 1 if the trace of the model equals the observed states, else 0 *)
open Numf
let () =
  iter_lines (fun line ->
    let zs = Stdlib.List.map (fun s -> z_of_int (int_of_string s)) (tokens line) in
    print_endline (if Frame.chain_check_flat zs then "1" else "0"))
