(* ocaml/C09/driver.ml — extracted scattering-function model (Model/Scat.v) on floats.
   Hand-written, trusted: line protocol, oracle tables, realisation of the `solve` oracle.

   S f r vL vT min_terms term_factor nH  <H1a H2a H1b H2b: each nH complex, orders -1..nH-2>  q  inc_1 out_1 ..
        -> maxn  then per query: LL LT TL TT (re im each)
   C vL vT rho f L npw N <ax: N complex> <az: N complex> <Ainv_x: N*N complex> <Ainv_z: N*N complex>
     mode(G|O) R Cn <inc: R*Cn> <out: R*Cn>
        -> N_model h x_0 resid  then per entry (row-major): LL LT TL TT (re im each)
        `solve` oracle = multiplication by the supplied inverse; resid = max over all solved
        systems of |A_model (solve b) - b|_inf / |b|_inf with A_model = galerkin_matrix N a.
   G N <a: N complex>  -> galerkin_matrix N a, row-major, re im
   B k_1 k_2 ..        -> basis_function
   P vL vT             -> point_LL point_LT point_TL point_TT *)
open Numf
let z = z_of_int
let zi = int_of_z

let cplx_array (l : string list) (n : int) : (float * float) array =
  let a = Array.of_list (Stdlib.List.map fl (take (2 * n) l)) in
  Array.init n (fun k -> (a.(2 * k), a.(2 * k + 1)))

let hex2 (a, b) = hex a ^ " " ^ hex b
let four ((ll, lt), (tl, tt)) = String.concat " " [hex2 ll; hex2 lt; hex2 tl; hex2 tt]
let cabs (a, b) = Float.hypot a b

let () =
  iter_lines (fun line ->
    match tokens line with
    | "S" :: f :: r :: vl :: vt :: mint :: tfac :: nh :: rest ->
        let f = fl f and r = fl r and vl = fl vl and vt = fl vt in
        let nh = int_of_string nh in
        let tab k = cplx_array (drop (2 * nh * k) rest) nh in
        let h1a = tab 0 and h2a = tab 1 and h1b = tab 2 and h2b = tab 3 in
        let rest = drop (8 * nh) rest in
        let q = int_of_string (Stdlib.List.hd rest) in
        let qs = Array.of_list (Stdlib.List.map fl (take (2 * q) (Stdlib.List.tl rest))) in
        let orc (t : (float * float) array) = fun n ->
          let k = zi n + 1 in
          if k < 0 || k >= nh then failwith "hankel table too short" else t.(k) in
        let maxn = zi (Scat.sdh_maxn numf f r vl vt (z (int_of_string mint)) (z (int_of_string tfac))) in
        if maxn + 2 > nh then print_endline (string_of_int maxn)
        else begin
          let res = Stdlib.List.init q (fun t ->
            four (Scat.sdh_four numf (orc h1a) (orc h2a) (orc h1b) (orc h2b) f r vl vt (nat_of_int maxn)
                    qs.(2 * t) qs.(2 * t + 1))) in
          print_endline (String.concat " " (string_of_int maxn :: res))
        end
    | "C" :: vl :: vt :: rho :: f :: len :: npw :: n :: rest ->
        let vl = fl vl and vt = fl vt and rho = fl rho and f = fl f and len = fl len in
        let npw = int_of_string npw and n = int_of_string n in
        let ax = cplx_array rest n in
        let az = cplx_array (drop (2 * n) rest) n in
        let aix = cplx_array (drop (4 * n) rest) (n * n) in
        let aiz = cplx_array (drop (4 * n + 2 * n * n) rest) (n * n) in
        let rest = drop (4 * n + 4 * n * n) rest in
        let mode, rows, cols, rest = match rest with
          | m :: r :: c :: rest -> m, int_of_string r, int_of_string c, rest | _ -> failwith "C: header" in
        let inc = Array.of_list (Stdlib.List.map fl (take (rows * cols) rest)) in
        let out = Array.of_list (Stdlib.List.map fl (take (rows * cols) (drop (rows * cols) rest))) in
        let nm = zi (Scat.crack_num_nodes numf len vl f (z npw)) in
        let h = Scat.crack_h_nodes numf len (z nm) in
        let xs = Array.init (max nm 1) (fun m -> Scat.crack_x_nodes numf len (z nm) (z m)) in
        if nm <> n then print_endline (Printf.sprintf "%d %s %s nan" nm (hex h) (hex xs.(0)))
        else begin
          let resid = ref 0. in
          let cadd = Scat.cadd numf and cmul = Scat.cmul numf and csub = Scat.csub numf in
          let mk_solve (a : (float * float) array) (ainv : (float * float) array) =
            let am = Array.init (n * n) (fun k -> Scat.galerkin_matrix (z n) (fun i -> a.(zi i)) (z (k / n)) (z (k mod n))) in
            fun (b : BinNums.coq_Z -> float * float) ->
              let bv = Array.init n (fun j -> b (z j)) in
              let xv = Array.init n (fun i ->
                let s = ref (0., 0.) in
                for j = 0 to n - 1 do s := cadd !s (cmul ainv.(i * n + j) bv.(j)) done; !s) in
              let bmax = Array.fold_left (fun m v -> Float.max m (cabs v)) 0. bv in
              for i = 0 to n - 1 do
                let s = ref (0., 0.) in
                for j = 0 to n - 1 do s := cadd !s (cmul am.(i * n + j) xv.(j)) done;
                let e = cabs (csub !s bv.(i)) /. (if bmax > 0. then bmax else 1.) in
                if e > !resid || Float.is_nan e then resid := e
              done;
              fun i -> xv.(zi i) in
          let solve_x = mk_solve ax aix and solve_z = mk_solve az aiz in
          let prm = { Scat.cp_vL = vl; cp_vT = vt; cp_density = rho; cp_frequency = f; cp_nn = nat_of_int n;
                      cp_h = h; cp_x = (fun m -> xs.(zi m)); cp_solve_x = solve_x; cp_solve_z = solve_z } in
          let kern = Scat.crack_four numf prm in
          (* drivers: the model's index plumbing applied to each of the four components *)
          let incf i j = inc.(zi i * cols + zi j) and outf i j = out.(zi i * cols + zi j) in
          let cache = Hashtbl.create 64 in
          let kern_c a b = match Hashtbl.find_opt cache (a, b) with
            | Some v -> v | None -> let v = kern a b in Hashtbl.add cache (a, b) v; v in
          let comp sel = fun a b -> sel (kern_c a b) in
          let drv = if mode = "O" then Scat.driver_optimised else Scat.driver_general in
          let res = Stdlib.List.init (rows * cols) (fun k ->
            let i = z (k / cols) and j = z (k mod cols) in
            let g sel = drv (comp sel) incf outf i j in
            four ((g (fun ((a, _), _) -> a), g (fun ((_, a), _) -> a)),
                  (g (fun (_, (a, _)) -> a), g (fun (_, (_, a)) -> a)))) in
          print_endline (String.concat " " (string_of_int nm :: hex h :: hex xs.(0) :: hex !resid :: res))
        end
    | "G" :: n :: rest ->
        let n = int_of_string n in
        let a = cplx_array rest n in
        let res = Stdlib.List.init (n * n) (fun k ->
          hex2 (Scat.galerkin_matrix (z n) (fun i -> a.(zi i)) (z (k / n)) (z (k mod n)))) in
        print_endline (String.concat " " res)
    | "B" :: ks ->
        print_endline (String.concat " " (Stdlib.List.map (fun k -> hex (Scat.basis_function numf (fl k))) ks))
    | "P" :: vl :: vt :: [] ->
        let vl = fl vl and vt = fl vt in
        print_endline (String.concat " " [hex (Scat.point_LL numf 0. 0.); hex (Scat.point_LT numf vl vt 0. 0.);
                                          hex (Scat.point_TL numf vl vt 0. 0.); hex (Scat.point_TT numf 0. 0.)])
    | _ -> failwith ("bad line: " ^ line))
