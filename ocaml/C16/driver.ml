(* ocaml/C16/driver.ml — extracted probe-motion model (Model/Probe.v) on floats.
   Hand-written, trusted: parsing, printing; every computation is extracted code.

   input line:
     <probe> <ori> <nops> <op>*
       <probe> ::= M numx pitch_x numy pitch_y        make_matrix_probe
                 | G n x y z ...                      Probe(locations) with pcs = GCS
       <ori>   ::= N | O x y z | E n x y z ...        orientations argument
       <op>    ::= R r00 .. r22 <centre>              rotate(matrix, centre)
                 | Y yaw pitch roll <centre>          rotate(rotation_matrix_ypr(..), centre)
                 | T x y z | F | O | Z                translate / flip / to_point_O / reset
                 | S first|last|mean|<int>            set_reference_element
       <centre>::= N | C x y z
   output line: states after 0, 1, .. operations separated by ';'
     state ::= E                                      (the operation raised; history ends)
             | P <locs 3n> <oris 3n>? <origin i j k 12> <locs_pcs 3n>
                 (X | <oris_pcs 3n>)? <oriented 9n>   (X: orientations_pcs raises)
   floats are hex both ways. *)
open Numf
open Probe

let v3 a b c = ((fl a, fl b), fl c)
let pv ((x, y), z) = [hex x; hex y; hex z]
let pm ((a, b), c) = pv a @ pv b @ pv c
let cat = Stdlib.List.concat_map

let rec vecs n rest acc =
  if n = 0 then (Stdlib.List.rev acc, rest)
  else match rest with
    | a :: b :: c :: t -> vecs (n - 1) t (v3 a b c :: acc)
    | _ -> failwith "vecs"

let centre = function
  | "N" :: t -> (None, t)
  | "C" :: a :: b :: c :: t -> (Some (v3 a b c), t)
  | _ -> failwith "centre"

let rec ops n rest acc =
  if n = 0 then (Stdlib.List.rev acc, rest)
  else match rest with
    | "R" :: a :: b :: c :: d :: e :: f :: g :: h :: i :: t ->
        let (ce, t) = centre t in
        ops (n - 1) t (OpRotate (((v3 a b c, v3 d e f), v3 g h i), ce) :: acc)
    | "Y" :: y :: p :: r :: t ->
        let (ce, t) = centre t in
        ops (n - 1) t (OpRotate (rotation_matrix_ypr numf (fl y) (fl p) (fl r), ce) :: acc)
    | "T" :: a :: b :: c :: t -> ops (n - 1) t (OpTranslate (v3 a b c) :: acc)
    | "F" :: t -> ops (n - 1) t (OpFlip :: acc)
    | "O" :: t -> ops (n - 1) t (OpToO :: acc)
    | "Z" :: t -> ops (n - 1) t (OpReset :: acc)
    | "S" :: r :: t ->
        let r = match r with
          | "first" -> RefFirst | "last" -> RefLast | "mean" -> RefMean
          | k -> RefIdx (z_of_int (int_of_string k)) in
        ops (n - 1) t (OpSetRef r :: acc)
    | _ -> failwith "op"

let state (p : float probe) : string =
  let toks =
    cat pv p.p_locs
    @ (match p.p_oris with None -> [] | Some os -> cat pv os)
    @ pv p.p_pcs.cs_o @ pv p.p_pcs.cs_i @ pv p.p_pcs.cs_j @ pv (cs_k numf p.p_pcs)
    @ cat pv (locations_pcs numf p)
    @ (match orientations_pcs numf p with
       | None -> ["X"]
       | Some None -> []
       | Some (Some os) -> cat pv os)
    @ cat (fun (_, m) -> pm m) (p_oriented numf p) in
  String.concat " " ("P" :: toks)

let () =
  iter_lines (fun line ->
    let toks = tokens line in
    let (p0builder, rest) = match toks with
      | "M" :: nx :: px :: ny :: py :: t ->
          ((fun oa -> make_matrix_probe numf (z_of_int (int_of_string nx)) (fl px)
                        (z_of_int (int_of_string ny)) (fl py) oa), t)
      | "G" :: n :: t ->
          let (locs, t) = vecs (int_of_string n) t [] in
          ((fun oa -> match init_oris (nat_of_int (Stdlib.List.length locs)) oa with
                      | None -> None
                      | Some os -> Some { p_locs = locs; p_oris = os; p_pcs = gcs numf }), t)
      | _ -> failwith ("bad probe: " ^ line) in
    let (oa, rest) = match rest with
      | "N" :: t -> (OriNone, t)
      | "O" :: a :: b :: c :: t -> (OriOne (v3 a b c), t)
      | "E" :: n :: t -> let (l, t) = vecs (int_of_string n) t [] in (OriEach l, t)
      | _ -> failwith ("bad orientations: " ^ line) in
    let (ol, rest) = match rest with
      | n :: t -> ops (int_of_string n) t []
      | _ -> failwith ("bad ops: " ^ line) in
    if rest <> [] then failwith ("trailing tokens: " ^ line);
    match p0builder oa with
    | None -> print_endline "E"
    | Some p0 ->
        let tr = trace_ops numf ol p0 in
        print_endline (String.concat " ; "
          (Stdlib.List.map (function None -> "E" | Some p -> state p) tr)))
