(* ocaml/C06/driver.ml — runs the extracted beamspread model on float inputs.
   input line : n v_0..v_{n-1} r_1..r_n th_1..th_{n-1}      (hex floats, n = number of legs)
   output line: beamspread reverse_beamspread virtual_distance tube_amplitude   (hex floats) *)
open Numf
let () =
  iter_lines (fun line ->
    match tokens line with
    | n :: rest ->
        let n = int_of_string n in
        let xs = Stdlib.List.map fl rest in
        let vel = take n xs in
        let legs = take n (drop n xs) in
        let thetas = take (n - 1) (drop (2 * n) xs) in
        let b = Beamspread.beamspread numf vel legs thetas in
        let rb = Beamspread.reverse_beamspread numf vel legs thetas in
        let vd = Beamspread.virtual_distance numf legs (Beamspread.gamma_list numf vel thetas) in
        let ta = Beamspread.tube_amplitude numf vel legs thetas in
        print_endline (String.concat " " [hex b; hex rb; hex vd; hex ta])
    | [] -> ())
