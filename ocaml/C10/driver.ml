(* ocaml/C10/driver.ml — extracted scattering-matrix model on floats (P = pi).
   I n k m_00 m_01 .. m_{n-1,n-1} q inc_1 out_1 .. inc_q out_q
        -> q values: interp of the matrix SHIFTED by k grid steps (k = 0: plain)
   A n  -> angle_0 .. angle_{n-1}
   L f0 f1 v0 v1 f -> lerp *)
open Numf
let z = z_of_int
let zi = int_of_z
let () =
  iter_lines (fun line ->
    match tokens line with
    | "I" :: n :: k :: rest ->
        let n = int_of_string n and k = int_of_string k in
        let m = Array.of_list (Stdlib.List.map fl (take (n * n) rest)) in
        let rest = drop (n * n) rest in
        let q = int_of_string (Stdlib.List.hd rest) in
        let qs = Array.of_list (Stdlib.List.map fl (take (2 * q) (Stdlib.List.tl rest))) in
        let mf = fun j i -> m.(zi j * n + zi i) in
        let mf = if k = 0 then mf else ScatMatrix.shift_matrix (z n) (z k) mf in
        let res = Stdlib.List.init q (fun t ->
          hex (ScatMatrix.interp numf Float.pi (z n) mf qs.(2 * t) qs.(2 * t + 1))) in
        print_endline (String.concat " " res)
    | "A" :: n :: [] ->
        let n = int_of_string n in
        print_endline (String.concat " " (Stdlib.List.init n (fun k -> hex (ScatMatrix.angle numf Float.pi (z n) (z k)))))
    | "L" :: f0 :: f1 :: v0 :: v1 :: f :: [] ->
        print_endline (hex (ScatMatrix.lerp numf (fl f0) (fl f1) (fl v0) (fl v1) (fl f)))
    | _ -> failwith ("bad line: " ^ line))
