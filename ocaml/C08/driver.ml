(* ocaml/C08/driver.ml — extracted amplitude-assembly model on floats (complex = pairs, P = pi).

   W ud ut ub ua width|none freq rho_f c_f rho_s v_l v_t theta0 lastmode(L|T) n
     n x [kind(0 fluid_solid|1 solid_fluid) trans(1|0) mprev(f|s) mnext(f|s) against(f|s) modeprev modenext theta]
     (n+1) leg lengths, (n+1) velocities, (n+1) attenuation laws: none | c:<x> | p:<c0>,<c1>,...
       -> tx: w.re w.im d t.re t.im b a   rx: w.re w.im d t.re t.im b a      ("raise" for a raising call)
   A|S kind(F|M|Z) ne ng ntt nG scat_angle tx(ntt) rx(ntt) G(nG)
     Qtx Qrx (ne*ng complex, row-major over (element, grid)) Ttx Trx (ne*ng reals)
     F: p0 p1 p2 p3 q0 q1 q2    S(x,y) = (p0 + p1 x + p2 y + p3 x y) + i (q0 + q1 x + q2 y)
     M: n then n*n complex entries (row j = scattered angle, column i = incident angle)
     Z: as F but the SPEC (Amplitudes.spec_amp) is evaluated instead of the class
     A -> "ok" then nG*ntt complex values row-major, or "raise"
     S (after the S-spec: block_size, ntt timetrace weights; G ignored)
       -> uniform (ng complex) then model-assisted (ng reals), each possibly "raise"
   T law freq -> attenuation coefficient (law as in W) *)
open Numf

let z = z_of_int
let cre x = (fl x, 0.)

let parse_law s =
  if s = "none" then None
  else
    let body = String.sub s 2 (String.length s - 2) in
    if s.[0] = 'c' then Some (Amplitudes.AttConstant (fl body))
    else Some (Amplitudes.AttPolynomial
                 (if body = "" then [] else Stdlib.List.map fl (String.split_on_char ',' body)))

let show_w = function
  | None -> "raise"
  | Some ((wr, wi), (((d, (tr, ti)), b), a)) ->
      String.concat " " (Stdlib.List.map hex [wr; wi; d; tr; ti; b; a])

let () =
  iter_lines (fun line ->
    let toks = Array.of_list (tokens line) in
    let pos = ref 1 in
    let next () = let t = toks.(!pos) in incr pos; t in
    let nfl () = fl (next ()) in
    let nint () = int_of_string (next ()) in
    let nlist n f = Stdlib.List.init n (fun _ -> f ()) in
    let ncplx () = let re = nfl () in let im = nfl () in (re, im) in
    let nmat r c f = Stdlib.List.init r (fun _ -> nlist c f) in
    match toks.(0) with
    | "W" ->
        let sw = nlist 4 (fun () -> next () = "1") in
        let (ud, ut, ub, ua) = match sw with [a; b; c; d] -> (a, b, c, d) | _ -> assert false in
        let width = (let s = next () in if s = "none" then None else Some (fl s)) in
        let freq = nfl () in
        let rf = next () in let cf = next () in let rs = next () in let vl = next () in let vt = next () in
        let fluid = { Interface.m_rho = cre rf; m_vl = cre cf; m_vt = (Float.nan, 0.) } in
        let solid = { Interface.m_rho = cre rs; m_vl = cre vl; m_vt = cre vt } in
        let mat s = if s = "f" then fluid else solid in
        let mode s = if s = "L" then Interface.ModeL else Interface.ModeT in
        let theta0 = nfl () in
        let lastmode = mode (next ()) in
        let n = nint () in
        let ifaces = nlist n (fun () ->
          let kind = next () in let tr = next () in let mp = next () in let mn = next () in
          let ag = next () in let mdp = next () in let mdn = next () in let th = nfl () in
          { Weights.i_kind = (if kind = "0" then Interface.FluidSolid else Interface.SolidFluid);
            i_trans = (tr = "1"); i_mprev = mat mp; i_mnext = mat mn; i_against = mat ag;
            i_modeprev = mode mdp; i_modenext = mode mdn; i_theta = (th, 0.) }) in
        let legs = nlist (n + 1) nfl in
        let vels = nlist (n + 1) nfl in
        let atts = nlist (n + 1) (fun () -> parse_law (next ())) in
        let r = { Amplitudes.r_theta_out0 = theta0; r_ifaces = ifaces; r_vels = vels; r_legs = legs;
                  r_atts = atts; r_lastmode = lastmode } in
        let tx = Amplitudes.tx_ray_weights numf ud ut ub ua width freq fluid r in
        let rx = Amplitudes.rx_ray_weights numf ud ut ub ua width freq fluid solid r in
        print_endline (show_w tx ^ " | " ^ show_w rx)
    | "T" ->
        let law = parse_law (next ()) in
        let freq = nfl () in
        (match law with
         | None -> print_endline "none"
         | Some l -> (match Amplitudes.att_eval numf l freq with
                      | None -> print_endline "raise"
                      | Some v -> print_endline (hex v)))
    | ("A" | "S") as cmd ->
        let kind = next () in
        let ne = nint () in let ng = nint () in let ntt = nint () in let nG = nint () in
        let a = nfl () in
        let tx = nlist ntt (fun () -> z (nint ())) in
        let rx = nlist ntt (fun () -> z (nint ())) in
        let g = nlist nG (fun () -> z (nint ())) in
        let qtx = nmat ne ng ncplx in let qrx = nmat ne ng ncplx in
        let ttx = nmat ne ng nfl in let trx = nmat ne ng nfl in
        let poly () =
          let p0 = nfl () in let p1 = nfl () in let p2 = nfl () in let p3 = nfl () in
          let q0 = nfl () in let q1 = nfl () in let q2 = nfl () in
          fun x y -> (((p0 +. p1 *. x) +. p2 *. y) +. (p3 *. x) *. y, (q0 +. q1 *. x) +. q2 *. y) in
        let getitem =
          match kind with
          | "F" ->
              let s = poly () in
              (match Amplitudes.factory tx rx (nat_of_int ne) (nat_of_int ng) qtx qrx ttx trx a with
               | None -> (fun _ -> None)
               | Some o -> Amplitudes.getitem_fn numf s o)
          | "Z" ->
              let s = poly () in
              (fun g -> Amplitudes.spec_amp numf s a (nat_of_int ne) (nat_of_int ng) qtx qrx ttx trx tx rx g)
          | "M" ->
              let n = nint () in
              let m = nmat n n ncplx in
              (match Amplitudes.factory tx rx (nat_of_int ne) (nat_of_int ng) qtx qrx ttx trx a with
               | None -> (fun _ -> None)
               | Some o -> Amplitudes.getitem_mat numf Float.pi m o)
          | _ -> failwith "kind" in
        if cmd = "A" then
          (match getitem g with
           | None -> print_endline "raise"
           | Some p ->
               print_endline ("ok " ^ String.concat " " (Stdlib.List.concat_map (fun row ->
                 Stdlib.List.concat_map (fun (re, im) -> [hex re; hex im]) row) p)))
        else begin
          let bs = nint () in
          let w = nlist ntt nfl in
          let u = Amplitudes.sensitivity_uniform_tfm numf getitem (nat_of_int ng) (nat_of_int ntt) w (nat_of_int bs) in
          let m = Amplitudes.sensitivity_model_assisted_tfm numf getitem (nat_of_int ng) (nat_of_int ntt) w (nat_of_int bs) in
          let su = match u with None -> "raise"
                              | Some l -> String.concat " " (Stdlib.List.concat_map (fun (re, im) -> [hex re; hex im]) l) in
          let sm = match m with None -> "raise" | Some l -> String.concat " " (Stdlib.List.map hex l) in
          print_endline (su ^ " | " ^ sm)
        end
    | _ -> failwith ("bad line: " ^ line))
