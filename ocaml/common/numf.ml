(* ocaml/common/numf.ml — hand-written, trusted: the binary64 instance of the
   extracted Num record, built from OCaml's native floats (SSE2, round to nearest
   even, no FMA contraction) and the C library's libm; conversions between
   OCaml int and the extracted inductive Z / positive / nat. *)
open BinNums

let rec pos_of_int n =
  if n = 1 then Coq_xH
  else if n land 1 = 0 then Coq_xO (pos_of_int (n lsr 1))
  else Coq_xI (pos_of_int (n lsr 1))

let z_of_int n =
  if n = 0 then Z0 else if n > 0 then Zpos (pos_of_int n) else Zneg (pos_of_int (- n))

let rec int_of_pos = function
  | Coq_xH -> 1
  | Coq_xO p -> 2 * int_of_pos p
  | Coq_xI p -> 2 * int_of_pos p + 1

let int_of_z = function Z0 -> 0 | Zpos p -> int_of_pos p | Zneg p -> - (int_of_pos p)

let rec nat_of_int n = if n <= 0 then Datatypes.O else Datatypes.S (nat_of_int (n - 1))
let rec int_of_nat = function Datatypes.O -> 0 | Datatypes.S n -> 1 + int_of_nat n

(* round half to even (Python 3 round, numba round) *)
let round_half_even (x : float) : float =
  let f = Float.floor x in
  let d = x -. f in
  if d < 0.5 then f else if d > 0.5 then f +. 1.
  else if Float.rem f 2. = 0. then f else f +. 1.

let numf : float Num.coq_Num = {
  Num.n0 = 0.; n1 = 1.;
  nadd = ( +. ); nsub = ( -. ); nmul = ( *. ); ndiv = ( /. ); nopp = (fun x -> -. x);
  nsqrt = Float.sqrt; nsin = Float.sin; ncos = Float.cos; nasin = Float.asin; nacos = Float.acos;
  natan2 = (fun y x -> Float.atan2 y x); nexp = Float.exp; nln = Float.log; npi = Float.pi;
  nltb = (fun (a : float) b -> a < b); nleb = (fun (a : float) b -> a <= b);
  neqb = (fun (a : float) b -> a = b);
  nofZ = (fun z -> float_of_int (int_of_z z));
  nfloor = (fun x -> z_of_int (int_of_float (Float.floor x)));
  ntrunc = (fun x -> z_of_int (int_of_float (Float.trunc x)));
  nround = (fun x -> z_of_int (int_of_float (round_half_even x)));
}

(* ---- line protocol helpers ------------------------------------------------ *)
let tokens (line : string) : string list =
  Stdlib.List.filter (fun s -> s <> "") (String.split_on_char ' ' (String.trim line))

let fl (s : string) : float = float_of_string s      (* accepts hex floats and nan/inf *)
let hex (x : float) : string = Printf.sprintf "%h" x

let rec take n l = if n <= 0 then [] else match l with [] -> failwith "take" | x :: t -> x :: take (n - 1) t
let rec drop n l = if n <= 0 then l else match l with [] -> failwith "drop" | _ :: t -> drop (n - 1) t

let iter_lines (f : string -> unit) : unit =
  try
    while true do
      let line = input_line stdin in
      if String.trim line <> "" then f line
    done
  with End_of_file -> ()
