(* ocaml/C11/driver.ml — extracted signal model on floats (libm cos).
   TB cycles f dt ns wrap          -> pulse_len args_ok s_0 .. s_{ns-1}        (ns = none => ns := pulse_len)
   TB2 cycles f dt nb na           -> pulse_len t0_idx min_len time_start time_at_t0 value_at_t0
   HW n numfreq                    -> w_0 .. w_{n-1}   then scipy weights w'_0 .. w'_{n-1}
   DS d dt                         -> q rem *)
open Numf
let z = z_of_int
let zi = int_of_z
let () =
  iter_lines (fun line ->
    match tokens line with
    | "TB" :: c :: f :: dt :: ns :: wrap :: [] ->
        let c = fl c and f = fl f and dt = fl dt and nso = (if ns = "none" then None else Some (int_of_string ns)) and wrap = (wrap = "1") in
        let m = zi (Signal.pulse_len numf c f dt) in
        let ok = Signal.toneburst_args_ok numf c f dt (match nso with None -> None | Some n -> Some (z n)) in
        let ns' = (match nso with None -> m | Some n -> n) in
        let buf = Buffer.create 1024 in
        Buffer.add_string buf (Printf.sprintf "%d %d" m (if ok then 1 else 0));
        if ok then
          for k = 0 to ns' - 1 do
            let v = if wrap then Signal.toneburst_wrapped_at numf c f dt (z ns') (z k)
                    else Signal.toneburst_at numf c f dt (z ns') (z k) in
            Buffer.add_char buf ' '; Buffer.add_string buf (hex v)
          done;
        print_endline (Buffer.contents buf)
    | "TB2" :: c :: f :: dt :: nb :: na :: [] ->
        let c = fl c and f = fl f and dt = fl dt and nb = int_of_string nb and na = int_of_string na in
        let m = zi (Signal.pulse_len numf c f dt) in
        let t0 = Signal.toneburst2_t0_idx numf c f dt (z nb) in
        let ml = zi (Signal.toneburst2_min_len numf c f dt (z nb) (z na)) in
        let st = Signal.toneburst2_time_start numf c f dt (z nb) in
        let tat = Signal.time_sample numf st dt t0 in
        let v = Signal.toneburst2_at numf c f dt (z nb) t0 in
        print_endline (Printf.sprintf "%d %d %d %s %s %s" m (zi t0) ml (hex st) (hex tat) (hex v))
    | "HW" :: n :: nf :: [] ->
        let n = int_of_string n and nf = int_of_string nf in
        let a = Stdlib.List.init n (fun k -> string_of_int (zi (Signal.hilbert_weight (z n) (z nf) (z k)))) in
        let b = Stdlib.List.init n (fun k -> string_of_int (zi (Signal.scipy_hilbert_weight (z n) (z k)))) in
        print_endline (String.concat " " (a @ b))
    | "DS" :: d :: dt :: [] ->
        let d = fl d and dt = fl dt in
        print_endline (Printf.sprintf "%d %s" (zi (Signal.delay_idx numf d dt)) (hex (Signal.delay_rem numf d dt)))
    | _ -> failwith ("bad line: " ^ line))
