(* ocaml/C02/driver.ml — runs the extracted delay-and-sum model (complex-as-pairs
   instance over OCaml floats + libm) on one frame / focal law / request per line.

   input line (integers in decimal, floats in hex):
     mode kernel a usew ns N P nel  dt t0 fill_re fill_im tau
     w[N]
     N x (tx rx  x[ns] as re im pairs)
     P x (ltx[nel] lrx[nel]  atx[nel] as pairs  arx[nel] as pairs)
     P x (impl_re impl_im)            the implementation's image (used by the robust predicate)
   mode 0: the kernel model; mode 1: das_spec (mean kernels only).
   kernel: 0 amp nearest, 1 amp linear, 2 noamp nearest, 3 noamp linear, 4 noamp lanczos,
           5 median nearest, 6 median lanczos, 7 huber lanczos.
   output line: for each pixel  re im  (mean kernels)
                or  re im pred resid collinear onsample (robust kernels; onsample = 1 when the model's value is a delayed sample; collinear = 1 when the delayed samples have rank <= 1; pred = norm of the first-order optimality
                                     residual evaluated AT THE IMPLEMENTATION'S value on the model's
                                     delayed samples (see below); re = "maxiter"/"noalpha" for an error value)
                or the single token  none  (the model rejects the request). *)
open Numf

let () =
  iter_lines (fun line ->
    let toks = ref (tokens line) in
    let next () = match !toks with t :: r -> toks := r; t | [] -> failwith "short line" in
    let ni () = int_of_string (next ()) in
    let nf () = fl (next ()) in
    let mode = ni () in let kernel = ni () in let a = ni () in let usew = ni () in
    let ns = ni () in let n = ni () in let p = ni () in let nel = ni () in
    let dt = nf () in let t0 = nf () in let fre = nf () in let fim = nf () in let tau = nf () in
    let rec rep k f = if k <= 0 then [] else let v = f () in v :: rep (k - 1) f in
    let pair () = let re = nf () in let im = nf () in (re, im) in
    let w = rep n nf in
    let scans = rep n (fun () ->
      let tx = ni () in let rx = ni () in
      let x = rep ns pair in
      { Das.s_tx = nat_of_int tx; s_rx = nat_of_int rx; s_x = x }) in
    let rows = rep p (fun () ->
      let ltx = rep nel nf in let lrx = rep nel nf in
      let atx = rep nel pair in let arx = rep nel pair in
      { Das.r_lt_tx = ltx; r_lt_rx = lrx; r_a_tx = atx; r_a_rx = arx }) in
    let impl = rep p pair in
    let v = Das.coq_DataCplx numf in
    let wopt = if usew = 1 then Some w else None in
    let nsz = z_of_int ns in
    let fill = (fre, fim) in
    let sc = match kernel with
      | 0 | 2 | 5 -> Das.Nearest
      | 1 | 3 -> Das.Linear
      | _ -> Das.Lanczos (z_of_int a) in
    let show_mean = function
      | None -> print_endline "none"
      | Some img ->
          print_endline (String.concat " " (Stdlib.List.map (fun (re, im) -> hex re ^ " " ^ hex im) img)) in
    if mode = 1 then
      show_mean (Some (Das.das_spec numf v sc (kernel < 2) nsz dt t0 fill wopt rows scans))
    else if kernel < 2 then show_mean (Das.das_amp numf v sc nsz dt t0 fill wopt rows scans)
    else if kernel < 5 then show_mean (Das.das_noamp numf v sc nsz dt t0 fill wopt rows scans)
    else begin
      let ag = if kernel = 7 then Robust.Huber tau else Robust.Median in
      match Robust.das_robust numf ag sc 1e-9 1e-4 0.5 nsz dt t0 fill wopt rows scans with
      | None -> print_endline "none"
      | Some img ->
          (* the delayed samples, recomputed on the weighted timetraces the way the kernel sees them *)
          let wss = match Das.weigh_timetraces v wopt scans with Some s -> s | None -> scans in
          let invdt = 1.0 /. dt in
          let outs = Stdlib.List.map2 (fun (res, row) (ire, iim) ->
            let samples =
              if kernel = 5 then Das.median_nearest_samples numf v nsz invdt t0 fill row wss
              else Das.median_lanczos_samples numf v (z_of_int a) nsz invdt t0 fill row wss in
            (* first-order optimality at the implementation's value z:
               Huber: |sum_i psi_tau(z - d_i)|;
               median: with F the samples farther than eps from z and c the number of the others,
               z minimises sum_i |z - d_i| iff |sum_F (z - d_i)/|z - d_i|| <= c  (= 0 when c = 0) *)
            let pred =
              if kernel = 7 then
                let (gx, gy) = Robust.huber_psi_sum numf samples tau (ire, iim) in
                (let r = hex (Float.sqrt (gx *. gx +. gy *. gy)) in r ^ " " ^ r)
              else begin
                let maxabs = Stdlib.List.fold_left (fun m (x, y) -> Float.max m (Float.max (Float.abs x) (Float.abs y))) 1e-300 samples in
                let eps = 1e-6 *. maxabs in
                let d (x, y) = Float.sqrt ((ire -. x) *. (ire -. x) +. (iim -. y) *. (iim -. y)) in
                let far = Stdlib.List.filter (fun s -> d s > eps) samples in
                let c = float_of_int (Stdlib.List.length samples - Stdlib.List.length far) in
                let (gx, gy) = Robust.geomed_grad numf far (ire, iim) in
                let g = Float.sqrt (gx *. gx +. gy *. gy) in
                let resid = if Float.is_nan g then g else Float.max 0.0 (g -. c) in
                (* decisive predicate: how much the objective sum_i |z - d_i| (extracted geomed_f) decreases
                   from the implementation's value z along the steepest-descent direction, over steps
                   maxabs * 10^-k; 0 at a minimiser (convexity: theorem geomed_stationary_is_min_partial) *)
                let f0 = Robust.geomed_f numf samples (ire, iim) in
                let best = ref f0 in
                if g > 0.0 then
                  for k = 0 to 12 do
                    let t = maxabs *. (10.0 ** (-. float_of_int k)) in
                    let fz = Robust.geomed_f numf samples (ire -. t *. gx /. g, iim -. t *. gy /. g) in
                    if fz < !best then best := fz
                  done;
                let improvement = if Float.is_nan f0 then f0 else f0 -. !best in
                hex improvement ^ " " ^ hex resid
              end in
            (* are the delayed samples collinear (rank <= 1)?  then the Hessian of geomed is singular *)
            let collinear =
              match samples with
              | [] -> true
              | (x0, y0) :: _ ->
                  let far2 (x, y) = (x -. x0) *. (x -. x0) +. (y -. y0) *. (y -. y0) in
                  let (dx, dy) = Stdlib.List.fold_left (fun (bx, by) (x, y) ->
                    if far2 (x, y) > bx *. bx +. by *. by then (x -. x0, y -. y0) else (bx, by)) (0.0, 0.0) samples in
                  let dn = Float.sqrt (dx *. dx +. dy *. dy) in
                  let scale = Stdlib.List.fold_left (fun m (x, y) -> Float.max m (Float.max (Float.abs x) (Float.abs y))) 1e-300 samples in
                  Stdlib.List.for_all (fun (x, y) -> Float.abs ((x -. x0) *. dy -. (y -. y0) *. dx) <= 1e-9 *. scale *. dn) samples in
            (* does the MODEL's result sit on a delayed sample (the geometric median is a data point)? *)
            let near =
              match res with
              | Robust.ROk (re, im) ->
                  let scale = Stdlib.List.fold_left (fun m (x, y) -> Float.max m (Float.max (Float.abs x) (Float.abs y))) 1e-300 samples in
                  Stdlib.List.exists (fun (x, y) -> Float.sqrt ((re -. x) *. (re -. x) +. (im -. y) *. (im -. y)) <= 1e-6 *. scale) samples
              | _ -> false in
            let cflag = (if collinear then " 1" else " 0") ^ (if near then " 1" else " 0") in
            match res with
            | Robust.ROk (re, im) -> hex re ^ " " ^ hex im ^ " " ^ pred ^ cflag
            | Robust.RMaxIter -> "maxiter 0x0p+0 " ^ pred ^ cflag
            | Robust.RNoAlpha -> "noalpha 0x0p+0 " ^ pred ^ cflag)
            (Stdlib.List.combine img rows) impl in
          print_endline (String.concat " " outs)
    end)
