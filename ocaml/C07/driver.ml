(* ocaml/C07/driver.ml — extracted path-level products on floats (complex = pairs).
   input : P rho_f c_f rho_s v_l v_t n  then n interface records
             kind(0 fluid_solid,1 solid_fluid) trans(1/0) mprev(f|s) mnext(f|s) against(f|s) modeprev(L|T) modenext(L|T) theta
           then nlegs = n+1 leg lengths, nlegs velocities, nlegs attenuation coefficients ("none" or float)
   output: for unit in (stress, displacement): fwd.re fwd.im rev.re rev.im | beamspread reverse_beamspread attenuation
           a product that raises is printed as "raise raise" *)
open Numf
let c = Interface.coq_NumC numf
let () =
  iter_lines (fun line ->
    match tokens line with
    | "P" :: rf :: cf :: rs :: vl :: vt :: n :: rest ->
        let cre x = (fl x, 0.) in
        let fluid = { Interface.m_rho = cre rf; m_vl = cre cf; m_vt = (Float.nan, 0.) } in
        let solid = { Interface.m_rho = cre rs; m_vl = cre vl; m_vt = cre vt } in
        let mat s = if s = "f" then fluid else solid in
        let mode s = if s = "L" then Interface.ModeL else Interface.ModeT in
        let n = int_of_string n in
        let rec ifaces k rest acc =
          if k = 0 then (Stdlib.List.rev acc, rest) else
          match rest with
          | kind :: tr :: mp :: mn :: ag :: mdp :: mdn :: th :: rest' ->
              let x = { Weights.i_kind = (if kind = "0" then Interface.FluidSolid else Interface.SolidFluid);
                        i_trans = (tr = "1"); i_mprev = mat mp; i_mnext = mat mn; i_against = mat ag;
                        i_modeprev = mode mdp; i_modenext = mode mdn; i_theta = (fl th, 0.) } in
              ifaces (k - 1) rest' (x :: acc)
          | _ -> failwith "iface" in
        let (l, rest) = ifaces n rest [] in
        let nl = n + 1 in
        let legs = Stdlib.List.map fl (take nl rest) in
        let vels = Stdlib.List.map fl (take nl (drop nl rest)) in
        let atts = Stdlib.List.map (fun s -> if s = "none" then None else Some (fl s)) (take nl (drop (2 * nl) rest)) in
        let thetas = Stdlib.List.map (fun x -> fst x.Weights.i_theta) l in
        let show = function
          | Some (Some (re, im)) -> hex re ^ " " ^ hex im
          | Some None -> "none none"
          | None -> "raise raise" in
        let parts = Stdlib.List.concat_map (fun u ->
            [show (Weights.transrefl_for_path c u l); show (Weights.reverse_transrefl_for_path c u l)])
            [Interface.Stress; Interface.Displacement] in
        let b = Beamspread.beamspread numf vels legs thetas in
        let rb = Beamspread.reverse_beamspread numf vels legs thetas in
        let a = Beamspread.attenuation numf atts legs in
        print_endline (String.concat " " (parts @ [hex b; hex rb; hex a]))
    | _ -> failwith ("bad line: " ^ line))
