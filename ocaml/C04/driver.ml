(* ocaml/C04/driver.ml — runs the extracted interface model (Model/Interface.v) on
   float inputs; hand-written, trusted.

   Every line:  <cmd> <dtype> <args...>      dtype = R (K = float, instance numf)
                                                    | C (K = float*float, instance NumC numf)
   A value of K is ONE hex float token for R and TWO tokens (re im) for C (material
   constants included: the harness writes them as (x, 0)).  Outputs likewise.
     asin   D s                                  -> nasin s            (numpy arcsin)
     snell  D alpha c_inc c_refr                 -> snell_angles
     n      D a_f a_l a_t rho_f rho_s v_f v_l v_t -> fluid_solid_n_ang
     fs|sl|st   D a_f a_l a_t rho_f rho_s v_f v_l v_t -> the 3 coefficients (angles given)
     fsc|slc|stc D sf cf sl cl st ct rho_f rho_s v_f v_l v_t -> the 3 coefficients, _sc layer
     fsa|sla|sta D alpha rho_f rho_s v_f v_l v_t -> the 3 coefficients (Snell on the fly)
     tr|rf  D kind mode_inc mode_out unit alpha  rho1 vl1 vt1  rho2 vl2 vt2
            kind = fs|sf, modes = L|T, unit = s|d; material 1 = incident,
            material 2 = out / against          -> "some <x>" or "none" *)
open Numf

let run (type k) (n : k Num.coq_Num) (width : int) (rd : string list -> k) (wr : k -> string)
    (cmd : string) (args : string list) : string =
  let rec chunks l = match l with [] -> [] | _ -> take width l :: chunks (drop width l) in
  let wr3 ((a, b), c) = String.concat " " [wr a; wr b; wr c] in
  let kind_of = function "fs" -> Interface.FluidSolid | "sf" -> Interface.SolidFluid | s -> failwith ("kind " ^ s) in
  let mode_of = function "L" -> Interface.ModeL | "T" -> Interface.ModeT | s -> failwith ("mode " ^ s) in
  let unit_of = function "s" -> Interface.Stress | "d" -> Interface.Displacement | s -> failwith ("unit " ^ s) in
  let wro = function None -> "none" | Some x -> "some " ^ wr x in
  match cmd with
  | "asin" -> (match chunks args with [s] -> wr (n.Num.nasin (rd s)) | _ -> failwith "asin")
  | "snell" ->
      (match Stdlib.List.map rd (chunks args) with
       | [a; c1; c2] -> wr (Interface.snell_angles n a c1 c2) | _ -> failwith "snell")
  | "n" | "fs" | "sl" | "st" ->
      (match Stdlib.List.map rd (chunks args) with
       | [af; al; at; rf; rs; vf; vl; vt] ->
           (match cmd with
            | "n" -> wr (Interface.fluid_solid_n_ang n af al at rf rs vf vl vt)
            | "fs" -> wr3 (Interface.fluid_solid_ang n af al at rf rs vf vl vt)
            | "sl" -> wr3 (Interface.solid_l_fluid_ang n af al at rf rs vf vl vt)
            | _ -> wr3 (Interface.solid_t_fluid_ang n af al at rf rs vf vl vt))
       | _ -> failwith cmd)
  | "fsc" | "slc" | "stc" ->
      (match Stdlib.List.map rd (chunks args) with
       | [sf; cf; sl; cl; st; ct; rf; rs; vf; vl; vt] ->
           (match cmd with
            | "fsc" -> wr3 (Interface.fluid_solid_sc n sf cf sl cl st ct rf rs vf vl vt)
            | "slc" -> wr3 (Interface.solid_l_fluid_sc n sf cf sl cl st ct rf rs vf vl vt)
            | _ -> wr3 (Interface.solid_t_fluid_sc n sf cf sl cl st ct rf rs vf vl vt))
       | _ -> failwith cmd)
  | "fsa" | "sla" | "sta" ->
      (match Stdlib.List.map rd (chunks args) with
       | [a; rf; rs; vf; vl; vt] ->
           (match cmd with
            | "fsa" -> wr3 (Interface.fluid_solid_auto n a rf rs vf vl vt)
            | "sla" -> wr3 (Interface.solid_l_fluid_auto n a rf rs vf vl vt)
            | _ -> wr3 (Interface.solid_t_fluid_auto n a rf rs vf vl vt))
       | _ -> failwith cmd)
  | "tr" | "rf" ->
      (match args with
       | kind :: mi :: mo :: u :: rest ->
           (match Stdlib.List.map rd (chunks rest) with
            | [a; r1; l1; t1; r2; l2; t2] ->
                let m1 = { Interface.m_rho = r1; m_vl = l1; m_vt = t1 } in
                let m2 = { Interface.m_rho = r2; m_vl = l2; m_vt = t2 } in
                let f = if cmd = "tr" then Interface.transmission_at_interface else Interface.reflection_at_interface in
                wro (f n (kind_of kind) m1 m2 (mode_of mi) (mode_of mo) a (unit_of u))
            | _ -> failwith cmd)
       | _ -> failwith cmd)
  | _ -> failwith ("unknown command " ^ cmd)

let () =
  let numc = Interface.coq_NumC numf in
  iter_lines (fun line ->
    match tokens line with
    | cmd :: "R" :: args ->
        print_endline (run numf 1 (function [x] -> fl x | _ -> failwith "R value") hex cmd args)
    | cmd :: "C" :: args ->
        print_endline (run numc 2 (function [x; y] -> (fl x, fl y) | _ -> failwith "C value")
                         (fun (x, y) -> hex x ^ " " ^ hex y) cmd args)
    | _ -> failwith ("bad line: " ^ line))
