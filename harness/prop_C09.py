"""C09 — Scattering functions satisfy reciprocity and their geometric symmetries.

Proof side : Props/C09.v.  Side-drilled hole: for every number of modal terms and ARBITRARY
             Hankel values, the model of sdh_2d_scat depends on out-inc only, S_LL/S_TT are
             symmetric, v_T^2 S_LT(a,b) = -v_L^2 S_TL(b,a), 2pi-periodic.  Crack centre: the
             matrices assembled from the mirrored table are symmetric Toeplitz; symmetric A +
             exact solve => u^T A^-1 v symmetric (any size); hence the same four facts for the
             model of crack_2d_scat_kernel (quadrature values arbitrary, solver exact).  Point
             source.  to_compute: value of a requested key = value of the full computation.
Tie        : the extracted model (OCaml floats + libm) against scat_factory objects:
             * sdh: Hankel oracle values from the very scipy functions arim.scat imported
               (tolerance 1e-11 of max|S|) - pins the modal-sum structure;
             * crack_centre: quadrature oracle = first column of arim's own A_x/A_z, solver
               oracle = multiplication by numpy's inverse; general and optimised drivers
               (1e-8); the residual |A_model solve(b) - b| of the oracle realisation is measured;
             * key sets / error branch of the three scatterers against the model evaluated by
               vm_compute inside coqc; basis_function; point source.
Spec on impl: the four symmetry residuals (LL/TT exchange, LT/TL reciprocity, 2pi-periodicity
             in each angle, dependence on the difference for the hole) evaluated directly on the
             objects for every scatterer kind and angle-array shape; every non-empty subset of
             keys (and as_angles_funcs / as_freq_angles_funcs) against the full computation;
             A_x, A_z exactly symmetric Toeplitz; optimised == general on matrices.
"""
import itertools
import json
import math
import os

import numpy as np

from common import Check, close, cZ, clist, cstr, copt
import arimgen
from arimgen import fhex, unhex

chk = Check("C09", design_ref="DESIGN.md §5 C09")
chk.proofs(extra_trusted=[
    "extraction: ExtrOcamlBasic only (Extract/C09.v); ocaml/common/numf.ml and ocaml/C09/driver.ml hand-written, trusted "
    "(the driver realises the `solve` oracle as multiplication by the inverse supplied by numpy and reports the residual of the hypothesis)",
    "oracles: scipy.special hankel1/hankel2 (arbitrary values in the theorems), scipy.integrate.quad (the table a_0..a_{N-1}: arbitrary values), "
    "numpy.linalg.solve (hypothesis exact_solve)",
    "glue modelled by its exact-arithmetic meaning: numpy promotion real*complex, numba complex evaluation of basis_function on real-valued "
    "complex arguments, ** (5/2) as exp(5/2 ln x), Smith's complex division as the textbook quotient",
])
arim = chk.import_arim()
import arim.scat as scat
import arim._scat_crack as sc

drv = arimgen.Driver(chk.ocaml_driver("C09"))
rng = chk.rng
Q = chk.tier == "quick"
KEYS = ("LL", "LT", "TL", "TT")
SUBSETS = [c for r in range(1, 5) for c in itertools.combinations(KEYS, r)]

TOL_MODEL = {"sdh": 1e-11, "point": 1e-15, "crack": 1e-8}
# residual tolerances relative to max|S| (DESIGN §5 C09)
TOL_SPEC = {
    "sdh": dict(sym=1e-11, recip=1e-11, periodic=1e-10, difference=1e-10),
    "point": dict(sym=1e-15, recip=1e-14, periodic=1e-15, difference=1e-15),
    # crack periodicity: basis_function's closed form 105/k^7 (k(k^2-15)cos k - (6k^2-15)sin k) cancels to ~k^7/105 of
    # its terms just above the series switch |k| = 0.1, so a last-bit change of sin(phi) (phi vs phi + 2 pi m) moves it by up to
    # ~1e-6 relative; both b(phi_in) and c(phi_out) carry that factor.  Measured on the unchanged tree: max 3.4e-7 over
    # 12000 angle pairs (DESIGN: 1.3e-7).  All other crack residuals are ~1e-15.
    "crack": dict(sym=1e-8, recip=1e-8, periodic=2e-6),
}
evaluations = 0
nontrivial = set()
samples = []
worst = {}          # measured maxima of every residual, per kind


def note(kind, name, val):
    k = f"{kind}:{name}"
    if not (val <= worst.get(k, -1.0)):
        worst[k] = float(val)


def hexarr(a):
    return [float(x).hex() for x in np.asarray(a, float).ravel()]


def cl(a):
    return " ".join(f"{fhex(v.real)} {fhex(v.imag)}" for v in np.asarray(a, complex).ravel())


def parse4(tokens, q):
    v = np.array([unhex(x) for x in tokens]).reshape(q, 4, 2)
    return v[..., 0] + 1j * v[..., 1]


def stack4(res, shape):
    return np.stack([np.broadcast_to(np.asarray(res[k]), shape).ravel() for k in KEYS], axis=1)


# ---------------------------------------------------------------------------
# generators
# ---------------------------------------------------------------------------
def random_material():
    vl = float(rng.uniform(3000.0, 7000.0))
    vt = float(vl * rng.uniform(0.40, 0.68))         # v_T < v_L / sqrt(2)
    rho = float(rng.uniform(2000.0, 9000.0))
    return arim.Material(longitudinal_vel=vl, transverse_vel=vt, density=rho, state_of_matter="solid"), vl, vt, rho


def angle_arrays(max_ndim=3, small=False):
    """a list of (name, inc, out) of broadcastable angle arrays, inside and outside [-pi, pi)"""
    span = 3 * 2 * np.pi
    n, m = (int(rng.integers(2, 5)), int(rng.integers(2, 5))) if small else (int(rng.integers(3, 8)), int(rng.integers(2, 7)))
    fams = []
    fams.append(("vec-vec", rng.uniform(-span, span, n), rng.uniform(-span, span, n)))
    fams.append(("col-row", rng.uniform(-np.pi, np.pi, (n, 1)), rng.uniform(-span, span, (1, m))))
    fams.append(("scalar-vec", float(rng.uniform(-span, span)), rng.uniform(-span, span, m)))
    fams.append(("vec-scalar", rng.uniform(-span, span, m), float(rng.uniform(-span, span))))
    fams.append(("col-one", rng.uniform(-span, span, (n, 1)), rng.uniform(-span, span, (1, 1))))
    fams.append(("mat-row", rng.uniform(-span, span, (n, m)), rng.uniform(-span, span, m)))
    special = np.array([0.0, np.pi, -np.pi, np.pi / 2, -np.pi / 2, np.nextafter(np.pi, 0), 2 * np.pi, -3 * np.pi,
                        np.pi / 4, 1e-9, 5 * np.pi / 2])
    pick = rng.choice(special, size=min(len(special), 5 if small else 8), replace=False)
    fams.append(("special-grid", pick[:, None], pick[None, :]))
    fams.append(("scalar-scalar", float(rng.uniform(-span, span)), float(rng.uniform(-span, span))))
    # memory layouts: Fortran-ordered and transposed (non-C-contiguous) 2-D arrays are the same angles
    fams.append(("mat-mat-F", np.asfortranarray(rng.uniform(-span, span, (n, m))), np.asfortranarray(rng.uniform(-span, span, (n, m)))))
    g_ = rng.uniform(-np.pi, np.pi, n)
    tile = np.tile(g_, (n, 1))
    fams.append(("grid-and-transpose", tile, tile.T))
    if max_ndim >= 3:
        fams.append(("3d", rng.uniform(-span, span, (2, 1, m)), rng.uniform(-span, span, (1, n, 1))))
    return fams


# ---------------------------------------------------------------------------
# spec predicates on the implementation
# ---------------------------------------------------------------------------
def spec_residuals(kind, fn, inc, out, vl, vt):
    """fn(inc, out) -> dict of the four arrays.  Returns ({name: residual / max|S|}, scale)."""
    inc = np.asarray(inc, float)
    out = np.asarray(out, float)
    shape = np.broadcast(inc, out).shape
    r = fn(inc, out)
    rs = fn(out, inc)                                  # exchanged angles
    scale = max(max(float(np.max(np.abs(r[k]))) for k in KEYS), 1e-300)
    res = {}
    res["sym_LL"] = float(np.max(np.abs(r["LL"] - rs["LL"]))) / scale
    res["sym_TT"] = float(np.max(np.abs(r["TT"] - rs["TT"]))) / scale
    res["recip_LT_TL"] = float(np.max(np.abs(vt * vt * r["LT"] + vl * vl * rs["TL"]))) / (scale * vl * vl)
    res["recip_TL_LT"] = float(np.max(np.abs(vt * vt * rs["LT"] + vl * vl * r["TL"]))) / (scale * vl * vl)
    kk = int(rng.integers(-3, 4)) or 1
    ll = int(rng.integers(-3, 4)) or -2
    rp = fn(inc + 2 * np.pi * kk, out + 2 * np.pi * ll)
    rp1 = fn(inc + 2 * np.pi * kk, out)
    res["periodic"] = max(float(np.max(np.abs(rp[k] - r[k]))) for k in KEYS) / scale
    res["periodic_inc_only"] = max(float(np.max(np.abs(rp1[k] - r[k]))) for k in KEYS) / scale
    if kind in ("sdh", "point"):
        d = float(rng.uniform(-4.0, 4.0))
        rd = fn(inc + d, out + d)
        res["difference"] = max(float(np.max(np.abs(rd[k] - r[k]))) for k in KEYS) / scale
    for k in KEYS:
        if np.asarray(r[k]).shape != shape:
            res["shape_" + k] = float("inf")
    return res, scale, r, dict(k=kk, l=ll)


def tol_of(kind, name):
    t = TOL_SPEC[kind]
    if name.startswith("sym"):
        return t["sym"]
    if name.startswith("recip"):
        return t["recip"]
    if name.startswith("periodic"):
        return t["periodic"]
    if name.startswith("difference"):
        return t["difference"]
    return 0.0


def check_spec(kind, label, fn, inc, out, vl, vt, params):
    """evaluate the symmetry residuals on the implementation; returns (all_ok, result dict of the call)"""
    global evaluations
    res, scale, r, shifts = spec_residuals(kind, fn, inc, out, vl, vt)
    evaluations += 6 * 4 * int(np.broadcast(np.asarray(inc), np.asarray(out)).size)
    ok = True
    for name, val in res.items():
        note(kind, name, val)
        if not (val <= tol_of(kind, name)):
            ok = False
            chk.violation(f"{kind}:{name}", f"{kind} scatterer: symmetry '{name}' fails on the implementation "
                          f"(residual {val:.3e} of max|S|, tolerance {tol_of(kind, name):.1e}) [{label}]",
                          dict(params, predicate=name, residual=val, tolerance=tol_of(kind, name), periods=shifts,
                               inc_theta=hexarr(inc), out_theta=hexarr(out),
                               inc_shape=list(np.shape(inc)), out_shape=list(np.shape(out))),
                          failing_input_found=True)
    return ok, r, scale


def check_subsets(kind, label, obj, inc, out, f, full, scale, params, subsets):
    """every subset of keys (as set / list / tuple / frozenset) against the full computation"""
    global evaluations
    ok = True
    shape = np.broadcast(np.asarray(inc), np.asarray(out)).shape
    for sub in subsets:
        cont = [set, list, tuple, frozenset][int(rng.integers(0, 4))]
        got = obj(inc, out, f, to_compute=cont(sub))
        evaluations += len(sub)
        chk.count(subset_size=len(sub))
        keyset_ok = set(got) == set(sub) if kind != "crack" else set(got) >= set(sub)
        if not keyset_ok:
            ok = False
            chk.violation(f"{kind}:subset-keys", f"{kind}: keys returned for to_compute={sorted(sub)} are {sorted(got)} [{label}]",
                          dict(params, to_compute=sorted(sub), returned=sorted(got)), failing_input_found=True)
            continue
        for k in sub:
            gk = np.asarray(got[k])
            if gk.shape != shape or not (np.max(np.abs(gk - full[k]), initial=0.0) <= 1e-13 * scale):
                ok = False
                chk.violation(f"{kind}:subset-eq-full",
                              f"{kind}: value of key {k} requested within {sorted(sub)} differs from the full computation [{label}]",
                              dict(params, key=k, to_compute=sorted(sub), inc_theta=hexarr(inc), out_theta=hexarr(out),
                                   inc_shape=list(np.shape(inc)), out_shape=list(np.shape(out)),
                                   max_abs_diff=float(np.max(np.abs(gk - full[k]))) if gk.shape == shape else None),
                              failing_input_found=True)
    return ok


def check_funcs(kind, label, obj, inc, out, f, full, scale, params):
    """as_freq_angles_funcs / as_angles_funcs: one function per key (_partial_one_scat_key)"""
    global evaluations
    f1 = obj.as_freq_angles_funcs()
    f2 = obj.as_angles_funcs(f)
    ok = True
    for k in KEYS:
        for nm, v in (("as_freq_angles_funcs", f1[k](inc, out, f)), ("as_angles_funcs", f2[k](inc, out))):
            evaluations += 1
            if not (np.max(np.abs(np.asarray(v) - full[k]), initial=0.0) <= 1e-13 * scale):
                ok = False
                chk.violation(f"{kind}:{nm}", f"{kind}: {nm}()['{k}'] differs from the full computation [{label}]",
                              dict(params, key=k, inc_theta=hexarr(inc), out_theta=hexarr(out)), failing_input_found=True)
    return ok


def check_invalid(kind, obj, f):
    """ValueError for a key outside the four (hole and crack); the point source does not validate"""
    bad = {"LL", "XX"}
    try:
        got = obj(np.array([0.1]), np.array([0.2]), f, to_compute=bad)
        return ("returned", sorted(got))
    except ValueError:
        return ("ValueError", None)
    except Exception as e:       # noqa
        return (type(e).__name__, None)


# ---------------------------------------------------------------------------
# 0. corpus (explicit regression inputs, replayed first)
# ---------------------------------------------------------------------------
corpus_dir = os.path.join("/verif", "corpus", "C09")
corpus = []
if os.path.isdir(corpus_dir):
    for fn_ in sorted(os.listdir(corpus_dir)):
        if fn_.endswith(".json"):
            corpus += json.load(open(os.path.join(corpus_dir, fn_)))["cases"]


# ---------------------------------------------------------------------------
# 1. side-drilled hole
# ---------------------------------------------------------------------------
def sdh_model(vl, vt, f, radius, min_terms, term_factor, inc, out):
    """extracted modal sums with Hankel oracle values from the functions arim.scat itself uses"""
    alpha = 2 * np.pi * f / vl * radius
    beta = 2 * np.pi * f / vt * radius
    maxn = max([int(min_terms), math.ceil(term_factor * alpha), math.ceil(term_factor * beta)])
    margin = min(abs(term_factor * x - round(term_factor * x)) for x in (alpha, beta))
    nh = maxn + 4
    orders = np.arange(-1, nh - 1)
    tabs = [scat.hankel1(orders, alpha), scat.hankel2(orders, alpha), scat.hankel1(orders, beta), scat.hankel2(orders, beta)]
    b = np.broadcast(np.asarray(inc, float), np.asarray(out, float))
    ii, oo = np.broadcast_arrays(np.asarray(inc, float), np.asarray(out, float))
    line = (f"S {fhex(f)} {fhex(radius)} {fhex(vl)} {fhex(vt)} {int(min_terms)} {int(term_factor)} {nh} "
            + " ".join(cl(t) for t in tabs) + f" {b.size} "
            + " ".join(f"{fhex(a)} {fhex(c)}" for a, c in zip(ii.ravel(), oo.ravel())))
    o = drv.run([line])[0].split()
    mm = int(o[0])
    if len(o) == 1:
        return mm, maxn, margin, None
    return mm, maxn, margin, parse4(o[1:], b.size)


def run_sdh(vl, vt, rho, f, radius, min_terms, term_factor, fams, label, all_subsets):
    global evaluations
    mat = arim.Material(longitudinal_vel=vl, transverse_vel=vt, density=rho, state_of_matter="solid")
    kw = {}
    if (min_terms, term_factor) != (10, 4):
        kw = dict(min_terms=min_terms, term_factor=term_factor)
    obj = scat.scat_factory("sdh", mat, radius=radius, **kw)
    params = dict(kind="sdh", vl=vl.hex(), vt=vt.hex(), frequency=f.hex(), radius=radius.hex(),
                  min_terms=min_terms, term_factor=term_factor)
    fn = lambda a, b: obj(a, b, f)
    for name, inc, out in fams:
        chk.count(kind="sdh", shape=name)
        ok, full, scale = check_spec("sdh", f"{label}/{name}", fn, inc, out, vl, vt, params)
        shape = np.broadcast(np.asarray(inc), np.asarray(out)).shape
        if scale > 1e-200 and np.all(np.isfinite(stack4(full, shape))):
            nontrivial.add(("sdh", params["vl"], params["frequency"], params["radius"], min_terms, term_factor, name))
        # model
        mm, maxn, margin, mod = sdh_model(vl, vt, f, radius, min_terms, term_factor, inc, out)
        if margin < 1e-9:
            chk.count(ambiguous="sdh maxn on a ceil boundary (excluded)")
            continue
        if mm != maxn or mod is None:
            chk.violation("sdh:maxn", "number of modal terms of the model differs from max(min_terms, ceil(tf alpha), ceil(tf beta))",
                          dict(params, model_maxn=mm, formula_maxn=maxn), failing_input_found=False)
            continue
        impl = stack4(full, shape)
        evaluations += impl.size
        err = float(np.max(np.abs(impl - mod))) / scale if np.all(np.isfinite(impl)) else (0.0 if np.array_equal(np.isnan(impl), np.isnan(mod)) else float("inf"))
        note("sdh", "model", err)
        if not (err <= TOL_MODEL["sdh"]):
            t = int(np.argmax(np.abs(impl - mod).max(axis=1)))
            chk.violation("sdh:model", f"sdh_2d_scat differs from the modal-sum model by {err:.3e} of max|S| [{label}/{name}]",
                          dict(params, maxn=maxn, inc_theta=hexarr(inc), out_theta=hexarr(out), inc_shape=list(np.shape(inc)),
                               out_shape=list(np.shape(out)), flat_index=t, impl=impl[t], model=mod[t],
                               correspondence="Model.Scat.sdh_four (extracted) with scipy Hankel values vs arim.scat.sdh_2d_scat"),
                          failing_input_found=not ok)
        subs = SUBSETS if all_subsets else [SUBSETS[i] for i in rng.choice(len(SUBSETS), 4, replace=False)]
        check_subsets("sdh", f"{label}/{name}", obj, inc, out, f, full, scale, params, subs)
        if name in ("vec-vec", "col-row"):
            check_funcs("sdh", f"{label}/{name}", obj, inc, out, f, full, scale, params)
    # matrices: entry [j, i] = S(inc_i, out_j) (layout is C10's business; here: same values as a direct call)
    nang = int(rng.integers(2, 9))
    mats = obj.as_single_freq_matrices(f, nang)
    ig, og = scat.make_angles_grid(nang)
    direct = obj(ig, og, f)
    for k in KEYS:
        if not np.array_equal(mats[k], direct[k]):
            chk.violation("sdh:matrices", "as_single_freq_matrices differs from the direct call on the grid", dict(params, key=k, numangles=nang))
    return obj


n_sdh = 40 if Q else 120
for case in [c for c in corpus if c["kind"] == "sdh"]:
    fams = [(f"corpus{i}", np.array(a["inc"], float).reshape(a.get("inc_shape", [-1])),
             np.array(a["out"], float).reshape(a.get("out_shape", [-1]))) for i, a in enumerate(case["angles"])]
    run_sdh(float(case["vl"]), float(case["vt"]), 2700.0, float(case["frequency"]), float(case["radius"]),
            int(case.get("min_terms", 10)), int(case.get("term_factor", 4)), fams, "corpus:" + case["name"], True)
    chk.count(source="corpus")
sdh_invalid = None
for it in range(n_sdh):
    mat, vl, vt, rho = random_material()
    radius = float(rng.uniform(0.05e-3, 1.5e-3))
    # beta = 2 pi f r / v_T kept below ~25 (100 modal terms); a few very small ones (maxn = min_terms)
    beta_target = float(rng.uniform(0.05, 25.0)) if it % 4 else float(rng.uniform(0.01, 1.0))
    f = beta_target * vt / (2 * np.pi * radius)
    if it % 3 == 0:
        min_terms, term_factor = int(rng.integers(0, 30)), int(rng.integers(1, 7))
    else:
        min_terms, term_factor = 10, 4
    obj = run_sdh(vl, vt, rho, float(f), radius, min_terms, term_factor, angle_arrays(3, small=Q), f"sdh{it}", all_subsets=(it < 3 or not Q))
    chk.count(source="random", sdh_terms=("default" if (min_terms, term_factor) == (10, 4) else "custom"))
    if sdh_invalid is None:
        sdh_invalid = check_invalid("sdh", obj, float(f))
samples.append({"sdh": {"last": dict(vl=vl, vt=vt, f=float(f), radius=radius, min_terms=min_terms, term_factor=term_factor)}})

# ---------------------------------------------------------------------------
# 2. point source
# ---------------------------------------------------------------------------
point_invalid = None
for it in range(3 if Q else 12):
    mat, vl, vt, rho = random_material()
    obj = scat.scat_factory("point", mat)
    params = dict(kind="point", vl=vl.hex(), vt=vt.hex())
    mod = [unhex(x) for x in drv.run([f"P {fhex(vl)} {fhex(vt)}"])[0].split()]
    f = float(rng.uniform(1e6, 10e6))
    for name, inc, out in angle_arrays(3, small=True):
        chk.count(kind="point", shape=name)
        ok, full, scale = check_spec("point", f"point{it}/{name}", lambda a, b: obj(a, b, f), inc, out, vl, vt, params)
        shape = np.broadcast(np.asarray(inc), np.asarray(out)).shape
        nontrivial.add(("point", params["vl"], params["vt"], name))
        for k, mv in zip(KEYS, mod):
            evaluations += 1
            if not np.all(np.asarray(full[k]) == mv):
                chk.violation("point:model", "PointSourceScat differs from the model constants",
                              dict(params, key=k, model=mv, impl=np.asarray(full[k]).ravel()[:3]), failing_input_found=not ok)
        check_subsets("point", f"point{it}/{name}", obj, inc, out, f, full, scale, params, SUBSETS)
    if point_invalid is None:
        point_invalid = check_invalid("point", obj, f)

# ---------------------------------------------------------------------------
# 3. crack centre
# ---------------------------------------------------------------------------
def crack_oracles(vl, vt, f, length, npw):
    """the matrices exactly as crack_2d_scat builds them"""
    lambda_L = vl / f
    xi2 = 2 * np.pi * f / vt
    xi = vt / vl
    num_nodes = int(np.ceil(length / lambda_L * npw))
    p = 0.113_340_798_6
    h_nodes = length / (num_nodes + 2 * p)
    A_x = sc.A_x(xi, xi2, h_nodes, num_nodes)
    A_z = sc.A_z(xi, xi2, h_nodes, num_nodes)
    margin = abs(length / lambda_L * npw - round(length / lambda_L * npw))
    return num_nodes, h_nodes, A_x, A_z, margin


def crack_model(vl, vt, rho, f, length, npw, N, A_x, A_z, mode, inc2, out2):
    line = (f"C {fhex(vl)} {fhex(vt)} {fhex(rho)} {fhex(f)} {fhex(length)} {npw} {N} {cl(A_x[:, 0])} {cl(A_z[:, 0])} "
            f"{cl(np.linalg.inv(A_x))} {cl(np.linalg.inv(A_z))} {mode} {inc2.shape[0]} {inc2.shape[1]} "
            + " ".join(fhex(v) for v in inc2.ravel()) + " " + " ".join(fhex(v) for v in out2.ravel()))
    o = drv.run([line], timeout=1200)[0].split()
    nm, h, x0, resid = int(o[0]), unhex(o[1]), unhex(o[2]), unhex(o[3])
    if len(o) == 4:
        return nm, h, x0, resid, None
    return nm, h, x0, resid, parse4(o[4:], inc2.size)


def run_crack(vl, vt, rho, f, length, npw, fams, label, all_subsets):
    global evaluations
    mat = arim.Material(longitudinal_vel=vl, transverse_vel=vt, density=rho, state_of_matter="solid")
    kw = {} if npw == 20 else dict(nodes_per_wavelength=npw)
    obj = scat.scat_factory("crack_centre", mat, crack_length=length, **kw)
    params = dict(kind="crack_centre", vl=vl.hex(), vt=vt.hex(), density=rho.hex(), frequency=f.hex(),
                  crack_length=length.hex(), nodes_per_wavelength=npw)
    N, h_nodes, A_x, A_z, margin = crack_oracles(vl, vt, f, length, npw)
    params["num_nodes"] = N
    chk.count(kind="crack", num_nodes=("1" if N == 1 else "2-10" if N <= 10 else "11-40" if N <= 40 else ">40"))
    # A_x, A_z: symmetric Toeplitz matrices of their first column (exactly)
    idx = np.abs(np.arange(N)[:, None] - np.arange(N)[None, :])
    mod_A = [unhex(x) for x in drv.run([f"G {N} {cl(A_x[:, 0])}"])[0].split()]
    mod_A = (np.array(mod_A[0::2]) + 1j * np.array(mod_A[1::2])).reshape(N, N)
    for nm, A in (("A_x", A_x), ("A_z", A_z)):
        evaluations += N * N
        sym = np.array_equal(A, A.T)
        toe = np.array_equal(A, A[:, 0][idx])
        if not (sym and toe):
            chk.violation(f"crack:{nm}", f"{nm} is not the symmetric Toeplitz matrix of its quadrature table (symmetric={sym}, toeplitz={toe})",
                          dict(params, matrix=nm), failing_input_found=True)
    if not np.array_equal(mod_A, A_x):
        chk.violation("crack:assembly", "A_x differs from the model's assembly (mirrored table + m_ind) of its own first column",
                      dict(params), failing_input_found=not np.array_equal(A_x, A_x.T))
    fn = lambda a, b: obj(a, b, f)
    for name, inc, out in fams:
        chk.count(kind="crack", shape=name)
        ok, full, scale = check_spec("crack", f"{label}/{name}", fn, inc, out, vl, vt, params)
        shape = np.broadcast(np.asarray(inc), np.asarray(out)).shape
        if scale > 1e-200:
            nontrivial.add(("crack", params["vl"], params["frequency"], params["crack_length"], npw, name))
        if margin < 1e-9:
            chk.count(ambiguous="crack num_nodes on a ceil boundary (excluded)")
            continue
        inc2, out2 = np.broadcast_arrays(np.atleast_2d(np.asarray(inc, float)), np.atleast_2d(np.asarray(out, float)))
        nm, h, x0, resid, mod = crack_model(vl, vt, rho, f, length, npw, N, A_x, A_z, "G", inc2, out2)
        if nm != N or mod is None or not close(h, h_nodes, 1e-15):
            chk.violation("crack:mesh", "mesh of the model (num_nodes, h_nodes) differs from crack_2d_scat's",
                          dict(params, model_num_nodes=nm, model_h=h, h_nodes=h_nodes), failing_input_found=False)
            continue
        note("crack", "oracle_solve_residual", resid)
        impl = stack4(full, shape)
        evaluations += impl.size
        err = float(np.max(np.abs(impl - mod))) / scale
        note("crack", "model", err)
        if not (resid <= 1e-10):
            chk.violation("crack:oracle", f"the realisation of the solve oracle is not exact enough (residual {resid:.2e})", dict(params), failing_input_found=False)
        if not (err <= TOL_MODEL["crack"]):
            t = int(np.argmax(np.abs(impl - mod).max(axis=1)))
            chk.violation("crack:model", f"crack_2d_scat (general kernel) differs from the model by {err:.3e} of max|S| [{label}/{name}]",
                          dict(params, inc_theta=hexarr(inc), out_theta=hexarr(out), inc_shape=list(np.shape(inc)), out_shape=list(np.shape(out)),
                               flat_index=t, impl=impl[t], model=mod[t],
                               correspondence="Model.Scat.crack_four + driver_general (extracted) vs arim.scat.crack_2d_scat"),
                          failing_input_found=not ok)
        subs = SUBSETS if all_subsets else [SUBSETS[i] for i in rng.choice(len(SUBSETS), 4, replace=False)]
        check_subsets("crack", f"{label}/{name}", obj, inc, out, f, full, scale, params, subs)
        if name == "vec-vec":
            check_funcs("crack", f"{label}/{name}", obj, inc, out, f, full, scale, params)
    # optimised kernel: (a) matrices through the object; (b) direct call with column-constant incident angles
    nang = int(rng.integers(2, 7))
    ig, og = scat.make_angles_grid(nang)
    mats = obj.as_single_freq_matrices(f, nang)
    if obj._in_matrix_calculation:
        chk.violation("crack:flag", "_in_matrix_calculation left set after as_single_freq_matrices", dict(params))
    direct = obj(ig, og, f)
    sc_ = max(float(np.max(np.abs(direct[k]))) for k in KEYS)
    for k in KEYS:
        evaluations += nang * nang
        d = float(np.max(np.abs(mats[k] - direct[k]))) / sc_
        note("crack", "optimised_vs_general", d)
        if not (d <= 1e-12):
            chk.violation("crack:optimised", f"optimised kernel (matrix calculation) differs from the general kernel on key {k} by {d:.2e}",
                          dict(params, key=k, numangles=nang), failing_input_found=True)
    mm = obj.as_multi_freq_matrices([f], nang, to_compute={"LT", "TT"})
    for k in ("LT", "TT"):
        if not (np.max(np.abs(mm[k][0] - direct[k])) <= 1e-12 * sc_):
            chk.violation("crack:optimised-subset", f"as_multi_freq_matrices(to_compute={{LT,TT}})['{k}'] differs from the general kernel", dict(params, key=k))
    rows, cols = int(rng.integers(1, 5)), int(rng.integers(1, 6))
    incv = rng.uniform(-7, 7, cols)
    inc2 = np.tile(incv, (rows, 1))
    out2 = rng.uniform(-7, 7, (rows, cols))
    opt = scat.crack_2d_scat(inc2, out2, f, length, vl, vt, rho, nodes_per_wavelength=npw, assume_safe_for_opt=True)
    if margin >= 1e-9:
        nm, h, x0, resid, mod = crack_model(vl, vt, rho, f, length, npw, N, A_x, A_z, "O", inc2, out2)
        impl = stack4(opt, inc2.shape)
        evaluations += impl.size
        sc2 = float(np.max(np.abs(impl)))
        err = float(np.max(np.abs(impl - mod))) / sc2
        note("crack", "model_optimised", err)
        if not (err <= TOL_MODEL["crack"]):
            gen = stack4(scat.crack_2d_scat(inc2, out2, f, length, vl, vt, rho, nodes_per_wavelength=npw), inc2.shape)
            chk.violation("crack:model-optimised", f"crack_2d_scat (optimised driver) differs from the model by {err:.3e} of max|S| [{label}]",
                          dict(params, inc_theta=hexarr(inc2), out_theta=hexarr(out2), shape=list(inc2.shape),
                               correspondence="Model.Scat.driver_optimised (extracted) vs crack_2d_scat(assume_safe_for_opt=True)"),
                          failing_input_found=bool(np.max(np.abs(gen - impl)) > 1e-12 * sc2))
    return obj, N


n_crack = 30 if Q else 90
crack_invalid = None
crack_sizes = []
for case in [c for c in corpus if c["kind"] == "crack_centre"]:
    fams = [(f"corpus{i}", np.array(a["inc"], float).reshape(a.get("inc_shape", [-1])),
             np.array(a["out"], float).reshape(a.get("out_shape", [-1]))) for i, a in enumerate(case["angles"])]
    run_crack(float(case["vl"]), float(case["vt"]), float(case["density"]), float(case["frequency"]), float(case["crack_length"]),
              int(case.get("nodes_per_wavelength", 20)), fams, "corpus:" + case["name"], False)
    chk.count(source="corpus")
for it in range(n_crack):
    mat, vl, vt, rho = random_material()
    f = float(rng.uniform(0.5e6, 6e6))
    if it % 3 == 0:
        npw = int(rng.integers(6, 31))
    else:
        npw = 20
    # crack length in wavelengths: 0.02 (one node) .. 3.5
    rel = float(rng.uniform(0.02, 0.3)) if it % 4 == 1 else float(rng.uniform(0.3, 3.5 if not Q else 2.5))
    length = rel * vl / f
    fams = angle_arrays(2, small=True)
    obj, N = run_crack(vl, vt, rho, f, float(length), npw, fams, f"crack{it}", all_subsets=(it < 2 or not Q))
    crack_sizes.append(N)
    chk.count(source="random")
    if crack_invalid is None:
        crack_invalid = check_invalid("crack", obj, f)
        # more than two dimensions are rejected, not silently mis-shaped
        try:
            r3 = obj(np.zeros((2, 1, 2)), np.zeros((1, 3, 1)), f)
            chk.count(crack_3d="returned")
            if any(np.asarray(v).shape != (2, 3, 2) for v in r3.values()):
                chk.violation("crack:3d", "crack_centre returns arrays of the wrong shape for 3-D angle arrays", dict(kind="crack_centre"))
        except NotImplementedError:
            chk.count(crack_3d="NotImplementedError")
samples.append({"crack": {"num_nodes": crack_sizes}})

# ---------------------------------------------------------------------------
# 4. basis_function (series / closed-form switch at |k| = 0.1)
# ---------------------------------------------------------------------------
ks = [0.0, 0.1, -0.1, np.nextafter(0.1, 1), np.nextafter(0.1, 0), -np.nextafter(0.1, 1), 0.05, 1e-8, 0.5, 1.0, -2.0, 10.0, 50.0]
ks += list(rng.uniform(-0.3, 0.3, 20)) + list(rng.uniform(-30, 30, 20))
mod = [unhex(x) for x in drv.run(["B " + " ".join(fhex(k) for k in ks)])[0].split()]
for k, mv in zip(ks, mod):
    iv = float(sc.basis_function(float(k)))
    evaluations += 1
    tol = 1e-6 if 0.1 < abs(k) < 0.3 else 1e-11          # cancellation just above the switch
    note("crack", "basis_function" + ("_near_switch" if tol > 1e-9 else ""), abs(iv - mv))
    if not abs(iv - mv) <= tol:
        chk.violation("crack:basis_function", "basis_function differs from the model", dict(k=float(k).hex(), impl=iv, model=mv),
                      failing_input_found=bool(abs(iv - float(sc.basis_function(-float(k)))) > tol))

# ---------------------------------------------------------------------------
# 5. key sets and error branch against the model evaluated inside coqc (vm_compute)
# ---------------------------------------------------------------------------
gate_cases, gate_meta = [], []
mat, vl, vt, rho = random_material()
objs = {0: scat.scat_factory("sdh", mat, radius=0.4e-3), 1: scat.scat_factory("point", mat),
        2: scat.scat_factory("crack_centre", mat, crack_length=0.3 * vl / 2e6)}
tcs = [list(s) for s in SUBSETS] + [[], ["TT", "LL", "TT"], ["LL", "XX"], ["ll"], ["TL", ""], ["LT", "TL", "LLL"]]
for kind, obj in objs.items():
    for tc in tcs:
        try:
            got = obj(np.array([0.3, 1.0]), np.array([-0.4, 2.5]), 2e6, to_compute=list(tc))
            if kind == 2:
                obs = [k for k in KEYS if k in got and np.any(got[k] != 0)]     # filled arrays
                if set(got) != set(KEYS):
                    chk.violation("crack:keys", "crack_2d_scat does not return the four arrays", dict(to_compute=tc, returned=sorted(got)))
            else:
                obs = [k for k in KEYS if k in got]
                if set(got) - set(KEYS):
                    chk.violation("gating:keys", "unknown key returned", dict(kind=kind, to_compute=tc, returned=sorted(got)))
        except ValueError:
            obs = None
        evaluations += 1
        gate_cases.append(f"({cZ(kind)}, {clist(tc, cstr)}, {copt(obs, lambda l: clist(l, cstr))})")
        gate_meta.append((kind, tc, obs))
imports = """From Coq Require Import ZArith List Bool String PrimFloat.
From Arim Require Import Base.Num Base.NumF Base.ListX Model.Scat.
Definition zc : float * float := (zero, zero).
Definition prm : crack_params := mkCrack one one one one 0%nat one (fun _ => one) (fun b => b) (fun b => b).
Definition nonzero (z : float * float) : bool := negb (PrimFloat.eqb (fst z) zero && PrimFloat.eqb (snd z) zero).
Definition model (kind : Z) (tc : list string) : option (list string) :=
  if (kind =? 0)%Z then option_map (map fst) (sdh_2d_scat NumF (fun _ => zc) (fun _ => zc) (fun _ => zc) (fun _ => zc) one one one one 0%Z 0%Z tc one one)
  else if (kind =? 1)%Z then Some (map fst (point_scat NumF one one tc one one))
  else option_map (fun d => map fst (filter (fun kv => nonzero (snd kv)) d)) (crack_2d_scat NumF prm tc one one).
Definition check (c : Z * list string * option (list string)) : bool :=
  match c with (kind, tc, obs) => option_eqb (list_eqb String.eqb) (model kind tc) obs end."""
bad = chk.coq_failing("gating", imports, "Z * list string * option (list string)", gate_cases, "check")
for i in bad:
    kind, tc, obs = gate_meta[i]
    chk.violation("gating:model", f"keys returned / filled for to_compute={tc} differ from the model (kind {['sdh', 'point', 'crack'][kind]}: observed {obs})",
                  dict(kind=["sdh", "point", "crack_centre"][kind], to_compute=tc, observed=obs,
                       correspondence="Model.Scat.sdh_2d_scat / point_scat / crack_2d_scat key structure (vm_compute)"),
                  failing_input_found=False)
for nm, got, want in (("sdh", sdh_invalid, "ValueError"), ("crack", crack_invalid, "ValueError"), ("point", point_invalid, "returned")):
    if got is not None and got[0] != want:
        chk.violation(f"{nm}:invalid-key", f"{nm}: to_compute with an unknown key gives {got[0]} (model: {want})", dict(kind=nm, outcome=got))

# ---- angle dtype: integer-typed angles (Python ints, int arrays) are the same angles ---------------------
# ---- history: one scatterer OBJECT asked first for a subset of keys, then for everything ---------------
def _mk(kind):
    vl, vt, rho = 6300.0, 3100.0, 2700.0
    if kind == "point":
        return scat.PointSourceScat(vl, vt)
    if kind == "sdh":
        return scat.SdhScat(0.5e-3, vl, vt)
    return scat.CrackCentreScat(1.0e-3, vl, vt, rho)


def _same(a, b, scale, tol=1e-12):
    return a.shape == b.shape and bool(np.all(np.abs(a - b) <= tol * max(scale, 1e-300)))


for kind in ("point", "sdh", "crack"):
    f_ = 2.0e6
    obj = _mk(kind)
    for inc_i, out_i in ((np.array([0, 1, -2, 3]), np.array([1, 0, 3, -3])), (0, np.array([0, 1, 2])), (np.array([2, -1]), 1)):
        ref = obj(np.asarray(inc_i, float), np.asarray(out_i, float), f_)
        got = obj(inc_i, out_i, f_)
        evaluations += 4
        nontrivial.add(("int-angles", kind, str(inc_i)))
        sc_ = max(float(np.max(np.abs(v))) for v in ref.values())
        for k in ref:
            if not _same(np.asarray(got[k], complex), np.asarray(ref[k], complex), sc_):
                chk.violation(f"{kind}:angle-dtype", f"{kind}: integer-typed angles give S_{k} different from the same angles as floats",
                              dict(kind=kind, key=k, inc_theta=np.asarray(inc_i).tolist(), out_theta=np.asarray(out_i).tolist(),
                                   got=np.asarray(got[k]), expected=np.asarray(ref[k])), failing_input_found=True)
    nang = 6
    for first in ({"LL"}, {"TT"}, {"LT"}, {"TL", "TT"}):
        o1, o2 = _mk(kind), _mk(kind)
        o1.as_single_freq_matrices(f_, nang, to_compute=first)          # history: subset first ...
        o1(np.array([0.3, 1.0]), np.array([-0.4, 2.5]), f_, to_compute=first)
        h_full = o1.as_single_freq_matrices(f_, nang)                    # ... then everything, same object
        h_call = o1(np.array([0.3, 1.0]), np.array([-0.4, 2.5]), f_)
        f_full = o2.as_single_freq_matrices(f_, nang)                    # fresh object
        f_call = o2(np.array([0.3, 1.0]), np.array([-0.4, 2.5]), f_)
        # ... and 2-D angle arrays whose incident angle varies along the FIRST axis, asked after the matrix requests,
        # against an object that never computed a matrix (asked before o3 exists: two live objects of one class)
        inc2_, out2_ = np.array([[0.3], [1.0], [-2.0]]), np.array([[-0.4, 2.5]])
        o3 = _mk(kind)
        h_2d = o1(inc2_, out2_, f_)
        f_2d = o3(inc2_, out2_, f_)
        for k in ("LL", "LT", "TL", "TT"):
            if not _same(np.asarray(h_2d[k]), np.asarray(f_2d[k]), max(float(np.max(np.abs(np.asarray(f_2d[k])))), 1e-300)):
                chk.violation(f"{kind}:matrix-then-call", f"{kind}: S_{k} on a column of incident angles against a row of scattered "
                              "angles, asked after matrix requests on the same object, differs from a fresh object",
                              dict(kind=kind, key=k, numangles=nang, frequency=f_, after_history=np.asarray(h_2d[k]), fresh=np.asarray(f_2d[k])),
                              failing_input_found=True)
        evaluations += 8
        nontrivial.add(("history", kind, tuple(sorted(first))))
        sc_ = max(float(np.max(np.abs(v))) for v in f_full.values())
        for k in ("LL", "LT", "TL", "TT"):
            if not (_same(np.asarray(h_full[k]), np.asarray(f_full[k]), sc_) and _same(np.asarray(h_call[k]), np.asarray(f_call[k]), sc_)):
                chk.violation(f"{kind}:subset-history",
                              f"{kind}: S_{k} asked after an earlier request for {sorted(first)} on the same object differs from a fresh object",
                              dict(kind=kind, key=k, first_request=sorted(first), numangles=nang, frequency=f_,
                                   after_history=np.asarray(h_full[k]), fresh=np.asarray(f_full[k])), failing_input_found=True)

# ---- history: a caller edits, in place, the angle grids it obtained from make_angles_grid (to evaluate the functions on
#      shifted angles); the matrices asked afterwards are still S[j, i] = S(theta_i, theta_j) on the documented grid
for kind in ("point", "sdh", "crack"):
    f_ = 2.0e6
    for nang in (6, 9):
        theta_ = np.linspace(-np.pi, np.pi, nang, endpoint=False)
        ig_, og_ = scat.make_angles_grid(nang)
        try:
            ig_ += 0.37
            og_ -= 0.21
        except ValueError:
            # a fresh grid is an ordinary writable array (np.meshgrid copies); a read-only one is an array that was handed out
            # before and that an earlier holder (the library's own matrix code included) has since frozen
            chk.violation(f"{kind}:grid-caller-edit:shared", f"make_angles_grid({nang}) returns a read-only array: the caller cannot shift its own "
                          "copy of the grid (fresh grids are writable; this one is shared with an earlier request)",
                          dict(numangles=nang, history="earlier matrix requests with the same numangles; then make_angles_grid(n)[0] += 0.37"),
                          failing_input_found=True)
            continue
        o_ = _mk(kind)
        shifted_ = o_(ig_, og_, f_)                                   # the caller's own use of the edited grids
        mats_ = o_.as_single_freq_matrices(f_, nang)
        multi_ = o_.as_multi_freq_matrices(np.array([f_, 1.5 * f_]), nang)
        want_ = _mk(kind)(theta_[np.newaxis, :] + 0 * theta_[:, np.newaxis], theta_[:, np.newaxis] + 0 * theta_[np.newaxis, :], f_)
        evaluations += 4
        nontrivial.add(("grid-caller-edit", kind, nang))
        sc_ = max(float(np.max(np.abs(v))) for v in want_.values())
        for k in ("LL", "LT", "TL", "TT"):
            if not (_same(np.asarray(mats_[k]), np.asarray(want_[k]), sc_, 1e-10) and _same(np.asarray(multi_[k][0]), np.asarray(want_[k]), sc_, 1e-10)):
                chk.violation(f"{kind}:grid-caller-edit",
                              f"{kind}: after a caller edited in place the arrays returned by make_angles_grid({nang}), the matrix S_{k} "
                              "is no longer S[j, i] = S(theta_i, theta_j) on the documented grid",
                              dict(kind=kind, key=k, numangles=nang, frequency=f_, caller_shift=[0.37, -0.21],
                                   got=np.asarray(mats_[k]), expected=np.asarray(want_[k])), failing_input_found=True)
        g2_ = scat.make_angles_grid(nang)
        if not (np.array_equal(g2_[0], np.broadcast_to(theta_[np.newaxis, :], (nang, nang))) and np.array_equal(g2_[1], np.broadcast_to(theta_[:, np.newaxis], (nang, nang)))):
            chk.violation(f"{kind}:grid-caller-edit:grid", f"make_angles_grid({nang}) after a caller edited an earlier result is not the documented grid",
                          dict(numangles=nang, got_inc=np.asarray(g2_[0]), got_out=np.asarray(g2_[1])), failing_input_found=True)

# ---- history: a matrix request that RAISES (an unknown key caught by the caller), then ordinary calls on 2-D angle arrays on
#      the same object: they answer as a fresh object does (and so keep the symmetries of the statement)
for kind in ("crack", "sdh", "point"):
    f_ = 2.0e6
    for how_ in ("single", "multi"):
        o_ = _mk(kind)
        outcome_ = "returned"
        try:
            if how_ == "single":
                o_.as_single_freq_matrices(f_, 3, ["XX"])
            else:
                o_.as_multi_freq_matrices(np.array([f_]), 3, ["LL", "XX"])
        except Exception as e_:      # noqa: BLE001
            outcome_ = type(e_).__name__
        inc2_, out2_ = np.array([[0.0, 1.0], [2.0, 3.0]]), np.array([[10.0, 11.0], [12.0, 13.0]])
        got_ = o_(inc2_, out2_, f_)
        ref_ = _mk(kind)(inc2_, out2_, f_)
        evaluations += 2
        nontrivial.add(("failed-matrix-request", kind, how_))
        chk.count(history_failed_matrix_request=f"{kind}: {outcome_}")
        sc_ = max(float(np.max(np.abs(v))) for v in ref_.values())
        for k in ("LL", "LT", "TL", "TT"):
            if not _same(np.asarray(got_[k]), np.asarray(ref_[k]), sc_, 1e-10):
                chk.violation(f"{kind}:after-failed-matrix-request",
                              f"{kind}: S_{k} on a 2-D angle array, asked after a matrix request that raised {outcome_} on the same object, "
                              "differs from a fresh object (entry [1,0] is evaluated at the incident angle of row 0)",
                              dict(kind=kind, key=k, frequency=f_, history=[f"as_{how_}_freq_matrices(..., to_compute with the unknown key 'XX') -> {outcome_}",
                                                                            "obj(inc, out, f)"],
                                   inc_theta=inc2_, out_theta=out2_, after_history=np.asarray(got_[k]), fresh=np.asarray(ref_[k])), failing_input_found=True)
                break

# ---- image-sized angle sets (every pixel x every element): the value for an angle pair does not depend on how many other
#      pairs are evaluated in the same call nor on its position in the array (whole array vs the same pairs in small batches,
#      reversed, and one by one at the end of the array)
for kind in ("sdh", "point"):
    for shape_ in ((1100, 64), (4700, 64)) if Q else ((1100, 64), (4700, 64), (2051, 129), (16385, 33)):
        f_ = 2.0e6
        o_ = _mk(kind)
        inc_b = rng.uniform(-np.pi, np.pi, shape_)
        out_b = rng.uniform(-np.pi, np.pi, shape_)
        big = o_(inc_b, out_b, f_)
        evaluations += 3
        nontrivial.add(("image-sized", kind, shape_))
        chk.count(image_sized_angle_set=f"{kind} {shape_[0]}x{shape_[1]}")
        rows_ = np.unique(np.concatenate([np.arange(0, 3), rng.integers(0, shape_[0], 5), np.arange(shape_[0] - 40, shape_[0])]))
        small = _mk(kind)(inc_b[rows_], out_b[rows_], f_)
        rev = _mk(kind)(inc_b[::-1].copy(), out_b[::-1].copy(), f_)
        last1 = _mk(kind)(inc_b[-1, -1], out_b[-1, -1], f_)
        sc_ = max(float(np.max(np.abs(v))) for v in small.values())
        for k in ("LL", "LT", "TL", "TT"):
            okk = _same(np.asarray(big[k])[rows_], np.asarray(small[k]), sc_, 1e-11) and _same(np.asarray(big[k]), np.asarray(rev[k])[::-1], sc_, 1e-11) \
                and abs(complex(np.asarray(big[k])[-1, -1]) - complex(np.asarray(last1[k]))) <= 1e-11 * sc_
            if not okk:
                d_ = np.abs(np.asarray(big[k])[rows_] - np.asarray(small[k])).max(axis=1)
                chk.violation(f"{kind}:image-sized", f"{kind}: S_{k} of an angle pair evaluated inside a {shape_[0]}x{shape_[1]} array differs from the same pair "
                              "evaluated in a small batch / in the reversed array / alone",
                              dict(kind=kind, key=k, shape=list(shape_), frequency=f_, rows_compared=rows_, max_abs_difference_per_row=d_,
                                   last_entry_in_big_call=complex(np.asarray(big[k])[-1, -1]), last_entry_alone=complex(np.asarray(last1[k])),
                                   angles="rng.uniform(-pi, pi), regenerated by seed and tier"), failing_input_found=True)
                break

chk.cov["measured_max_residuals"] = {k: worst[k] for k in sorted(worst)}
# ---- the glue model of the public functions (Model files added later, see manifest text) tied to the library on every run:
#      inputs generated here, the library run on them, the model evaluated on the same inputs by vm_compute inside coqc
import ties.tie_C09 as _tie_glue  # noqa: E402
_tie_n = _tie_glue.run(chk, arim, rng, Q)
chk.cov["glue_model_tie_comparisons"] = int(_tie_n or 0)

chk.finish(
    evaluations=evaluations,
    distinct_nontrivial=len(nontrivial),
    rule=("one non-trivial case = one (scatterer kind, material/frequency/size/terms, angle-array family) with finite non-zero "
          "output; per case: 6 evaluations of the four functions for the residuals, model comparison on every angle pair, "
          "4 or 15 key subsets; plus Galerkin matrices, optimised-vs-general matrices, basis_function samples, "
          f"{len(gate_cases)} to_compute lists decided against the Coq model"),
    samples=samples,
    extra={"tolerances": {"model": TOL_MODEL, "spec": TOL_SPEC}, "exhaustive": False,
           "subsets": "all 15 non-empty subsets of LL/LT/TL/TT on every kind (all on the first scatterers of each kind in the quick tier, 4 random ones afterwards)"},
    assumptions=["Hankel functions, quadrature and the linear solve are oracles: the theorems hold for arbitrary Hankel/quadrature values and an exact solver",
                 "crack: partial - exact reciprocity of the discrete Galerkin system is proved; its numerical realisation is measured (residuals above)",
                 "theorems are exact-arithmetic statements about Model/Scat.v; the model is tied to arim by the differential comparison only"],
)
