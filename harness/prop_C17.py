"""C17 — Coordinate changes are exact isometries; grids and distances are as specified.

Proof side : Props/C17.v (over the reals: to_gcs/from_gcs mutually inverse and distance
             preserving for orthonormal frames, single or per point; rotation matrices and
             the 2-D/3-D isometries are proper and map the defining frame to the target
             frame; spherical ranges/inverse; distance table = Euclidean distance; grid
             count/bounds/spacing/degenerate axis/flattening order/centred grid; box
             selector = conjunction of the supplied inclusive bounds).
Tie        : the functions of arim.geometry (and the Points / CoordinateSystem / Grid
             methods wrapping them) against Model/Geometry.v
             * class E (bit exact): the model evaluated by vm_compute on binary64
               (NumF) inside coqc AND the extracted OCaml model, for to_gcs / from_gcs /
               rotate / CoordinateSystem on dyadic inputs, distance tables, grids
               (every float: the model performs the same IEEE operations in the same
               order), centred grids, flattening order, box selector (all 64 subsets);
             * class T (1e-11): rotation matrices, isometries, spherical coordinates
               (libm / LAPACK) and frame changes on random floats (einsum may reassociate)
               against the extracted OCaml model.
Search     : the spec predicates (round-trip residuals, distances preserved, R R^T = I,
             det = 1, frames mapped, ranges, brute-force distances, bounds contained, even
             spacing, nearest count, x-major order, brute-force box) are evaluated on the
             implementation's outputs; a failing predicate gives failing_input_found.
"""
import itertools
import math

import numpy as np

from common import Check, close, cfloat, clist, cpair, cbool, copt, cZ
import arimgen
from arimgen import fhex, unhex

chk = Check("C17", design_ref="DESIGN.md §5 C17")
chk.proofs(extra_trusted=[
    "extraction: ExtrOcamlBasic only (Extract/C17.v); ocaml/common/numf.ml (float record from OCaml floats + libm) and "
    "ocaml/C17/driver.ml are hand-written and trusted; cross-checked every run against vm_compute (NumF) on the class-E cases",
    "oracle: numpy.linalg.solve is a Section parameter specified by A.(solve A b) = b (instantiated by Cramer's rule for execution)",
    "modelled, not verified: numpy glue (broadcasting of point arrays of any shape and of per-point frames, dtype promotion, "
    "meshgrid/stack/reshape memory order) is exercised by the generators only; numpy.linspace's denormal-step branch is not modelled",
])
arim = chk.import_arim()
from arim import geometry as g  # noqa: E402

drv = arimgen.Driver(chk.ocaml_driver("C17"))
rng = chk.rng
# second tie: geometry.norm2 / rotation_matrix_x,y,z / spherical coordinates are re-translated from the current
# source and checked convertible with the model; a broken tie deepens the correspondence run (thorough sizes)
_ties = chk.translation_tie()
Q = chk.tier == "quick" and all(v == "ok" for v in _ties.values())
TOL = 1e-11
evaluations = 0
nontrivial = set()
samples = []

IMPORTS = """From Coq Require Import ZArith List Bool PrimFloat.
From Arim Require Import Base.Num Base.NumF Model.Vec3 Model.Geometry.
Definition feq := PrimFloat.eqb.
Definition v3eq (a b : vec3 float) : bool := feq (vx a) (vx b) && feq (vy a) (vy b) && feq (vz a) (vz b).
Fixpoint leq {A} (e : A -> A -> bool) (l1 l2 : list A) : bool :=
  match l1, l2 with nil, nil => true | x :: l1, y :: l2 => e x y && leq e l1 l2 | _, _ => false end.
Definition oeq {A} (e : A -> A -> bool) (x y : option A) : bool :=
  match x, y with None, None => true | Some a, Some b => e a b | _, _ => false end.
"""


def cv3(v):
    return cpair(*(cfloat(x) for x in v))


def cm3(m):
    return cpair(*(cv3(r) for r in np.asarray(m)))


def flist(a):
    return [float(x) for x in np.asarray(a, dtype=float).ravel()]


def hexs(a):
    return " ".join(fhex(x) for x in flist(a))


def vclose(a, b, tol=TOL, scale=None):
    a, b = flist(a), flist(b)
    if len(a) != len(b):
        return False
    sc = scale if scale is not None else max([1e-300] + [abs(x) for x in a + b])
    return all((math.isnan(x) and math.isnan(y)) or abs(x - y) <= tol * sc for x, y in zip(a, b))


def vequal(a, b):
    a, b = flist(a), flist(b)
    return len(a) == len(b) and all(x == y for x, y in zip(a, b))


# ---------------------------------------------------------------------------
# generators
# ---------------------------------------------------------------------------
def dyadic(shape=(), bits=3, span=8):
    """k * 2^-bits with |k| <= span * 2^bits"""
    return rng.integers(-span * 2 ** bits, span * 2 ** bits + 1, size=shape).astype(float) / 2 ** bits


def signed_perm():
    p = rng.permutation(3)
    m = np.zeros((3, 3))
    for r in range(3):
        m[r, p[r]] = rng.choice([-1.0, 1.0])
    return m


def random_orthonormal(direct=None):
    a = rng.normal(size=(3, 3))
    q, r = np.linalg.qr(a)
    q = q * np.sign(np.diag(r))
    if direct is True and np.linalg.det(q) < 0:
        q[2] = -q[2]
    if direct is False and np.linalg.det(q) > 0:
        q[2] = -q[2]
    return q


SHAPES = [(), (1,), (3,), (7,), (2, 3), (4, 1), (1, 5), (2, 2, 2)]


# ---------------------------------------------------------------------------
# 1. to_gcs / from_gcs / rotate / CoordinateSystem
# ---------------------------------------------------------------------------
gcs_lines, gcs_meta = [], []      # driver requests with the implementation's answers
gcs_coq, rot_coq, cs_coq = [], [], []


def add_gcs_case(kind, B, o, c, impl_to, impl_from, exact, tag):
    """one point: frame (B, o), input c, implementation's to_gcs(c) and from_gcs(c)"""
    # tolerance scale of class T: magnitude of the terms that are summed (a nearly singular random basis may cancel)
    scale = float(np.max(np.abs(B))) * (float(np.max(np.abs(c))) + float(np.max(np.abs(o)))) + float(np.max(np.abs(o))) + 1e-300
    gcs_lines.append("to_gcs " + hexs(B) + " " + hexs(o) + " " + hexs(c))
    gcs_meta.append(dict(fn="to_gcs", kind=kind, B=B.tolist(), o=flist(o), c=flist(c), impl=flist(impl_to), exact=exact, tag=tag, scale=scale))
    gcs_lines.append("from_gcs " + hexs(B) + " " + hexs(o) + " " + hexs(c))
    gcs_meta.append(dict(fn="from_gcs", kind=kind, B=B.tolist(), o=flist(o), c=flist(c), impl=flist(impl_from), exact=exact, tag=tag, scale=scale))
    if exact:
        gcs_coq.append((cpair(cpair(cm3(B), cv3(o), cv3(c)), cpair(cv3(impl_to), cv3(impl_from))), gcs_meta[-1]))


def spec_gcs(B, o, coords, to_, from_, what, replay):
    """spec predicates on the implementation's outputs for orthonormal frames:
    round trips and preservation of distances (frames broadcast against coords)."""
    global evaluations
    back1 = g.from_gcs(to_, B, o)
    back2 = g.to_gcs(from_, B, o)
    sc = max(1.0, float(np.max(np.abs(coords))) if coords.size else 1.0, float(np.max(np.abs(o))))
    ok = True
    if not np.allclose(back1, coords, rtol=0, atol=1e-11 * sc):
        chk.violation("gcs-roundtrip:" + what, f"from_gcs(to_gcs(x)) != x ({what})",
                      dict(replay, predicate="from_gcs(to_gcs(x)) = x", residual=float(np.max(np.abs(back1 - coords)))), True)
        ok = False
    if not np.allclose(back2, coords, rtol=0, atol=1e-11 * sc):
        chk.violation("gcs-roundtrip2:" + what, f"to_gcs(from_gcs(x)) != x ({what})",
                      dict(replay, predicate="to_gcs(from_gcs(x)) = x", residual=float(np.max(np.abs(back2 - coords)))), True)
        ok = False
    evaluations += 2
    return ok


nframes = 25 if Q else 800
for it in range(nframes):
    for shape in SHAPES:
        exact = bool(rng.integers(0, 2))
        per_point = bool(rng.integers(0, 2)) and shape != ()
        orth = bool(rng.random() < 0.7)
        fshape = shape if per_point else ()
        nfr = int(np.prod(fshape, dtype=int))
        if exact:
            mats = [signed_perm() if orth else dyadic((3, 3), bits=1, span=2) for _ in range(nfr)]
            origins = dyadic(fshape + (3,))
            coords = dyadic(shape + (3,))
        else:
            mats = [random_orthonormal() if orth else rng.normal(size=(3, 3)) for _ in range(nfr)]
            origins = rng.normal(size=fshape + (3,)) * 10.0 ** rng.integers(-3, 3)
            coords = rng.normal(size=shape + (3,)) * 10.0 ** rng.integers(-3, 3)
        bases = np.array(mats).reshape(fshape + (3, 3))
        # a single basis may come with per-point origins, too
        if not per_point and shape != () and rng.random() < 0.3:
            origins = (dyadic(shape + (3,)) if exact else rng.normal(size=shape + (3,)))
        use_points = bool(rng.integers(0, 2))
        layout = int(rng.integers(0, 3))
        if layout == 1:            # Fortran-ordered input
            coords = np.asfortranarray(coords)
        elif layout == 2:          # strided view of a larger array
            big = np.zeros(shape + (6,))
            big[..., ::2] = coords
            coords = big[..., ::2]
        chk.count(gcs_layout=["C", "F", "strided"][layout])
        if use_points:
            P = g.Points(coords.copy(order="K") if layout == 0 else coords, "pts")
            to_ = P.to_gcs(bases, origins).coords
            from_ = P.from_gcs(bases, origins).coords
        else:
            to_ = g.to_gcs(coords, bases, origins)
            from_ = g.from_gcs(coords, bases, origins)
        replay = dict(shape=shape, per_point=per_point, bases=bases, origins=origins, coords=coords,
                      api="Points" if use_points else "function")
        if to_.shape != coords.shape or from_.shape != coords.shape:
            chk.violation("gcs-shape", "to_gcs/from_gcs changed the shape of the point array", replay, True)
            continue
        chk.count(gcs_shape=str(shape), gcs_frames="per-point" if per_point else "single",
                  gcs_class="E" if exact else "T", gcs_orthonormal=orth)
        bb = np.broadcast_to(bases, shape + (3, 3)).reshape(-1, 3, 3)
        oo = np.broadcast_to(origins, shape + (3,)).reshape(-1, 3)
        cc = coords.reshape(-1, 3)
        tt = to_.reshape(-1, 3)
        ff = from_.reshape(-1, 3)
        for k in range(cc.shape[0]):
            add_gcs_case("gcs", bb[k], oo[k], cc[k], tt[k], ff[k], exact, (it, shape, k))
            nontrivial.add(("gcs", it, shape, k))
        if orth:
            spec_gcs(bases, origins, coords, to_, from_, "per-point frames" if per_point else "single frame", replay)
            if not per_point and origins.shape == (3,) and cc.shape[0] >= 2:
                # distances between the points of the array are preserved
                d0 = np.linalg.norm(cc[:, None, :] - cc[None, :, :], axis=-1)
                for nm, arr in (("to_gcs", tt), ("from_gcs", ff)):
                    d1 = np.linalg.norm(arr[:, None, :] - arr[None, :, :], axis=-1)
                    evaluations += 1
                    if not np.allclose(d0, d1, rtol=1e-11, atol=1e-11 * max(1.0, float(np.max(np.abs(cc))))):
                        chk.violation("gcs-isometry:" + nm, f"{nm} does not preserve distances for an orthonormal frame",
                                      dict(replay, predicate="|f(p) - f(q)| = |p - q|"), True)

# rotate (with / without centre, single / per-point matrices)
rot_lines, rot_meta = [], []
for it in range(nframes):
    shape = SHAPES[int(rng.integers(0, len(SHAPES)))]
    exact = bool(rng.integers(0, 2))
    per_point = bool(rng.integers(0, 2)) and shape != ()
    fshape = shape if per_point else ()
    nfr = int(np.prod(fshape, dtype=int))
    with_centre = bool(rng.integers(0, 2))
    if exact:
        mats = [signed_perm() if rng.random() < 0.5 else dyadic((3, 3), bits=1, span=2) for _ in range(nfr)]
        coords = dyadic(shape + (3,))
        centre = dyadic((3,)) if with_centre else None
    else:
        mats = [random_orthonormal(True) for _ in range(nfr)]
        coords = rng.normal(size=shape + (3,))
        centre = rng.normal(size=(3,)) if with_centre else None
    R = np.array(mats).reshape(fshape + (3, 3))
    use_points = bool(rng.integers(0, 2))
    out = g.Points(coords.copy()).rotate(R, centre).coords if use_points else g.rotate(coords.copy(), R, centre)
    chk.count(rotate=("centre" if with_centre else "no-centre") + ("/per-point" if per_point else "/single"))
    RR = np.broadcast_to(R, shape + (3, 3)).reshape(-1, 3, 3)
    cc, oo = coords.reshape(-1, 3), out.reshape(-1, 3)
    ce = np.zeros(3) if centre is None else centre
    for k in range(cc.shape[0]):
        rot_lines.append("rotate " + hexs(RR[k]) + (" 0x1p0 " if with_centre else " 0x0p0 ") + hexs(ce) + " " + hexs(cc[k]))
        m = dict(fn="rotate", R=RR[k].tolist(), centre=None if centre is None else flist(centre), c=flist(cc[k]),
                 impl=flist(oo[k]), exact=exact)
        rot_meta.append(m)
        if exact:
            rot_coq.append((cpair(cpair(cm3(RR[k]), copt(centre, cv3), cv3(cc[k])), cv3(oo[k])), m))
        nontrivial.add(("rotate", it, k))
    if not exact:
        # spec: the centre is fixed, distances to the centre are preserved
        evaluations += 1
        dist_in = np.linalg.norm(cc - ce, axis=-1)
        dist_out = np.linalg.norm(oo - ce, axis=-1)
        if not np.allclose(dist_in, dist_out, rtol=1e-11, atol=1e-12):
            chk.violation("rotate-isometry", "rotate does not preserve the distance to the centre",
                          dict(R=R, centre=centre, coords=coords, out=out, predicate="|R(x-c)| = |x-c|"), True)
        if with_centre:
            fixed = g.rotate(np.asarray(centre), RR[0], centre)
            if not np.allclose(fixed, centre, rtol=0, atol=1e-12):
                chk.violation("rotate-centre", "the centre of a rotation is not invariant",
                              dict(R=RR[0], centre=centre, out=fixed, predicate="rotate(centre) = centre"), True)

# CoordinateSystem.convert_from_gcs / convert_to_gcs / basis_matrix
cs_lines, cs_meta = [], []
for it in range(nframes):
    exact = bool(rng.integers(0, 2))
    if exact:
        m = signed_perm()
        origin = dyadic((3,))
    else:
        m = random_orthonormal()
        origin = rng.normal(size=3) * 10.0 ** rng.integers(-2, 2)
    i_hat, j_hat = m[0].copy(), m[1].copy()
    cs = g.CoordinateSystem(origin, i_hat, j_hat)
    # stage 1 is a HISTORY on the same CoordinateSystem object: after it has been used, its vectors / origin
    # are re-assigned through the public setters and it is used again -> it must behave as a fresh one
    for stage in (0, 1):
        if stage == 1:
            if rng.random() < 0.4:
                break
            what_ = int(rng.integers(0, 3))
            k_old = np.cross(i_hat, j_hat)
            if what_ == 0:        # roll about i_hat: only j_hat is re-assigned
                j_hat = k_old.copy() if exact else np.cos(0.7) * j_hat + np.sin(0.7) * k_old
                j_hat = j_hat / np.linalg.norm(j_hat) if not exact else j_hat
                cs.j_hat = j_hat
            elif what_ == 1:      # new frame: both vectors
                m = signed_perm() if exact else random_orthonormal()
                i_hat, j_hat = m[0].copy(), m[1].copy()
                if rng.random() < 0.5:
                    cs.j_hat = j_hat
                    cs.i_hat = i_hat
                else:
                    cs.i_hat = i_hat
                    cs.j_hat = j_hat
            else:                 # origin only
                origin = dyadic((3,)) if exact else rng.normal(size=3)
                cs.origin = origin
            chk.count(cs_history=['j_hat re-assigned', 'i_hat and j_hat re-assigned', 'origin re-assigned'][what_])
            if rng.random() < 0.5:
                # ... and REFUSED assignments in between (a non-unit vector, a vector with two components): each raises and leaves
                # the frame as it was
                for attr_, bad_ in (("i_hat", 1.5 * np.asarray(i_hat)), ("j_hat", np.array([0.0, 1.0])), ("origin", np.array([1.0, 2.0])),
                                    ("j_hat", 0.25 * np.asarray(j_hat))):
                    try:
                        setattr(cs, attr_, bad_)
                        refused_ = False
                    except Exception:      # noqa: BLE001
                        refused_ = True
                    chk.count(cs_refused_assignment=f"{attr_}: {'raised' if refused_ else 'accepted'}")
                    if not refused_:
                        setattr(cs, attr_, {"i_hat": i_hat, "j_hat": j_hat, "origin": origin}[attr_])    # accepted: put the valid value back
                if not (np.array_equal(np.asarray(cs.i_hat), i_hat) and np.array_equal(np.asarray(cs.j_hat), j_hat) and np.array_equal(np.asarray(cs.origin), origin)):
                    chk.violation("cs-refused-assignment", "after assignments that were refused (raised) the coordinate system no longer holds its vectors",
                                  dict(origin=origin, i_hat=i_hat, j_hat=j_hat, now_origin=np.asarray(cs.origin), now_i_hat=np.asarray(cs.i_hat),
                                       now_j_hat=np.asarray(cs.j_hat), history="cs.i_hat = 1.5 * i_hat (raises); cs.j_hat = [0, 1] (raises); cs.origin = [1, 2] (raises); ..."), True)
                    break
        shape = SHAPES[int(rng.integers(0, len(SHAPES)))]
        coords = dyadic(shape + (3,)) if exact else rng.normal(size=shape + (3,))
        # points whose coordinates are whole numbers may be stored in an integer array (np.arange(...).reshape(...)): same points
        if exact and rng.random() < 0.35:
            coords = np.round(coords)
        int_pts = exact and bool(np.array_equal(coords, np.round(coords))) and rng.random() < 0.8
        mk_ = (lambda c_: g.Points(c_.astype(np.int64))) if int_pts else (lambda c_: g.Points(c_.copy()))
        chk.count(cs_points_dtype="int64" if int_pts else "float64")
        fr = np.asarray(cs.convert_from_gcs(mk_(coords)).coords, float)
        to = np.asarray(cs.convert_to_gcs(mk_(coords)).coords, float)
        bm = cs.basis_matrix
        k_hat = np.cross(i_hat, j_hat)
        evaluations += 3
        if not (np.array_equal(bm[:, 0], i_hat) and np.array_equal(bm[:, 1], j_hat) and np.allclose(bm[:, 2], k_hat, atol=1e-15)):
            chk.violation("cs-basis-matrix", "basis_matrix does not store i_hat, j_hat, k_hat in columns",
                          dict(stage=stage, origin=origin, i_hat=i_hat, j_hat=j_hat, basis_matrix=bm, predicate="columns = (i, j, i x j)"), True)
        back = cs.convert_from_gcs(g.Points(to)).coords
        sc = max(1.0, float(np.max(np.abs(origin))))
        if not np.allclose(back, coords, rtol=0, atol=1e-11 * sc):
            chk.violation("cs-roundtrip", "convert_from_gcs(convert_to_gcs(x)) != x",
                          dict(stage=stage, origin=origin, i_hat=i_hat, j_hat=j_hat, coords=coords, predicate="round trip"), True)
        back = cs.convert_to_gcs(g.Points(fr)).coords
        if not np.allclose(back, coords, rtol=0, atol=1e-11 * sc):
            chk.violation("cs-roundtrip2", "convert_to_gcs(convert_from_gcs(x)) != x",
                          dict(stage=stage, origin=origin, i_hat=i_hat, j_hat=j_hat, coords=coords, predicate="round trip"), True)
        chk.count(cs="E" if exact else "T")
        for c, a, b in zip(coords.reshape(-1, 3), fr.reshape(-1, 3), to.reshape(-1, 3)):
            for fn, out in (("cs_from", a), ("cs_to", b)):
                cs_lines.append(fn + " " + hexs(origin) + " " + hexs(i_hat) + " " + hexs(j_hat) + " " + hexs(c))
                cs_meta.append(dict(fn=fn, origin=flist(origin), i_hat=flist(i_hat), j_hat=flist(j_hat), c=flist(c), impl=flist(out), exact=exact))
            if exact:
                cs_coq.append((cpair(cpair(cv3(origin), cv3(i_hat), cv3(j_hat), cv3(c)), cpair(cv3(a), cv3(b))), cs_meta[-1]))
            nontrivial.add(("cs", it, stage, tuple(flist(c))))
# the setters reject non-unit vectors
for it in range(10 if Q else 60):
    v = rng.normal(size=3)
    v = v / np.linalg.norm(v) * float(rng.choice([1.0, 1.0 + 5e-6, 1.0 + 5e-5, 0.5, 2.0, 1.0 - 2e-5, 1.0 - 1e-6]))
    w = random_orthonormal()[0]
    try:
        g.CoordinateSystem(np.zeros(3), v, w)
        ok = True
    except ValueError:
        ok = False
    cs_lines.append("cs_valid " + hexs(v) + " " + hexs(w))
    cs_meta.append(dict(fn="cs_valid", i_hat=flist(v), j_hat=flist(w), impl=[1.0 if ok else 0.0], exact=True))
    chk.count(cs_valid=ok)


def run_driver(lines, meta, key):
    """compare the extracted model with the implementation, line by line"""
    global evaluations
    outs = drv.run(lines) if lines else []
    nbad = 0
    for m, o in zip(meta, outs):
        evaluations += 1
        mod = None if o.strip() == "none" else [unhex(x) for x in o.split()]
        m["model"] = mod
        impl = m["impl"]
        if mod is None or impl is None:
            ok = mod is None and impl is None
        elif m.get("exact"):
            ok = vequal(impl, mod)
        else:
            ok = vclose(impl, mod, m.get("tol", TOL), m.get("scale"))
        if not ok:
            nbad += 1
            chk.violation(f"{key}:{m['fn']}", f"arim.geometry {m['fn']} differs from the model "
                          f"({'exact' if m.get('exact') else 'tolerance'} comparison)",
                          dict(m, correspondence=f"Model.Geometry (extracted) vs arim.geometry.{m['fn']}"),
                          failing_input_found=bool(m.get("spec_failed", False)))
    return nbad


run_driver(gcs_lines, gcs_meta, "gcs")
run_driver(rot_lines, rot_meta, "rotate")
run_driver(cs_lines, cs_meta, "cs")


def run_coq(name, case_type, cases, check_expr, key, what):
    """class E inside coqc: cases = [(literal, meta)]"""
    global evaluations
    if not cases:
        return
    bad = chk.coq_failing(name, IMPORTS, case_type, [c for c, _ in cases], check_expr)
    evaluations += len(cases)
    for i in bad[:5]:
        chk.violation(f"{key}:coq", f"{what}: implementation differs bit-for-bit from the model evaluated by vm_compute (NumF)",
                      dict(cases[i][1], correspondence=f"Model.Geometry on NumF (vm_compute) vs arim.geometry, {what}"),
                      failing_input_found=bool(cases[i][1].get("spec_failed", False)))


cap = 300 if Q else 3000
run_coq("gcs", "(mat3 float * vec3 float * vec3 float) * (vec3 float * vec3 float)", gcs_coq[:cap],
        "fun c => let '(B, o, p) := fst c in v3eq (to_gcs NumF B o p) (fst (snd c)) && v3eq (from_gcs NumF B o p) (snd (snd c))",
        "gcs", "to_gcs/from_gcs on dyadic inputs")
run_coq("rotate", "(mat3 float * option (vec3 float) * vec3 float) * vec3 float", rot_coq[:cap],
        "fun c => let '(R, ce, p) := fst c in v3eq (rotate NumF R ce p) (snd c)", "rotate", "rotate on dyadic inputs")
run_coq("cs", "(vec3 float * vec3 float * vec3 float * vec3 float) * (vec3 float * vec3 float)", cs_coq[:cap],
        "fun c => let '(o, i, j, p) := fst c in v3eq (cs_convert_from_gcs NumF o i j p) (fst (snd c)) && "
        "v3eq (cs_convert_to_gcs NumF o i j p) (snd (snd c))", "cs", "CoordinateSystem.convert_* on dyadic inputs")

samples.append({k: gcs_meta[0][k] for k in ("fn", "B", "o", "c", "impl", "model")} if gcs_meta else {})


# ---------------------------------------------------------------------------
# 2. rotation matrices (class T; spec: R R^T = I, det = 1)
# ---------------------------------------------------------------------------
def spec_proper(M, what, replay, n=3):
    global evaluations
    evaluations += 1
    M = np.asarray(M, dtype=float)
    ok = (M.shape == (n, n) and np.allclose(M @ M.T, np.eye(n), rtol=0, atol=1e-12)
          and np.allclose(M.T @ M, np.eye(n), rtol=0, atol=1e-12) and abs(np.linalg.det(M) - 1.0) <= 1e-12)
    if not ok:
        chk.violation("proper:" + what, f"{what}: the returned matrix is not a proper rotation",
                      dict(replay, matrix=M, predicate="M M^T = I and det M = 1"), True)
    return ok


SPECIAL_ANGLES = [0.0, math.pi / 2, -math.pi / 2, math.pi, -math.pi, math.pi / 4, 2 * math.pi, 1e-9, -1e-9, 3.0, 100.0]
rm_lines, rm_meta = [], []
angles = SPECIAL_ANGLES + [float(a) for a in rng.uniform(-2 * math.pi, 2 * math.pi, size=40 if Q else 2000)]
for th in angles:
    for fn, cmd in ((g.rotation_matrix_x, "rotx"), (g.rotation_matrix_y, "roty"), (g.rotation_matrix_z, "rotz")):
        M = fn(th)
        sf = not spec_proper(M, cmd, dict(angle=th))
        rm_lines.append(f"{cmd} {fhex(th)}")
        rm_meta.append(dict(fn=cmd, angle=th, impl=flist(M), scale=1.0, spec_failed=sf))
        nontrivial.add((cmd, th))
    chk.count(rotation="elementary")
for k in range(len(SPECIAL_ANGLES) + (40 if Q else 2000)):
    if k < len(SPECIAL_ANGLES):
        y, p_, r = SPECIAL_ANGLES[k], SPECIAL_ANGLES[(k + 3) % len(SPECIAL_ANGLES)], SPECIAL_ANGLES[(k + 5) % len(SPECIAL_ANGLES)]
    else:
        y, p_, r = (float(a) for a in rng.uniform(-math.pi, math.pi, size=3))
    M = g.rotation_matrix_ypr(y, p_, r)
    sf = not spec_proper(M, "ypr", dict(yaw=y, pitch=p_, roll=r))
    rm_lines.append(f"ypr {fhex(y)} {fhex(p_)} {fhex(r)}")
    rm_meta.append(dict(fn="ypr", yaw=y, pitch=p_, roll=r, impl=flist(M), scale=1.0, spec_failed=sf))
    nontrivial.add(("ypr", y, p_, r))
    chk.count(rotation="ypr")
run_driver(rm_lines, rm_meta, "rotmat")
# class E inside coqc: the elementary matrices as functions of the (cos, sin) pair numpy computes for the angle
rotcs_coq = []
for th in angles[:120 if Q else 1000]:
    c_, s_ = float(np.cos(th)), float(np.sin(th))
    mats = [g.rotation_matrix_x(th), g.rotation_matrix_y(th), g.rotation_matrix_z(th)]
    rotcs_coq.append((cpair(cpair(cfloat(c_), cfloat(s_)), cpair(*(cm3(M_) for M_ in mats))),
                      dict(fn="rotation_matrix_x/y/z", angle=th, cos=c_, sin=s_, impl=[flist(M_) for M_ in mats])))
run_coq("rotcs", "(float * float) * (mat3 float * mat3 float * mat3 float)", rotcs_coq,
        "fun c => let '(co, si) := fst c in let '(mx, my, mz) := snd c in "
        "let meq := fun (a b : mat3 float) => v3eq (mrow0 a) (mrow0 b) && v3eq (mrow1 a) (mrow1 b) && v3eq (mrow2 a) (mrow2 b) in "
        "meq (rot_x_cs NumF co si) mx && meq (rot_y_cs NumF co si) my && meq (rot_z_cs NumF co si) mz",
        "rotmat", "rotation_matrix_x/y/z as functions of (cos, sin)")
samples.append({k: rm_meta[-1][k] for k in ("fn", "yaw", "pitch", "roll", "impl", "model")})

# HISTORY: a matrix returned by a constructor is the caller's own; editing it in place (mirroring an axis, zeroing tiny
# entries) must not change what the constructor returns next time for the same angles
for it in range(6 if Q else 40):
    ang = [float(x) for x in rng.uniform(-np.pi, np.pi, 3)]
    for nm_, mk_ in (("rotation_matrix_ypr", lambda: g.rotation_matrix_ypr(*ang)), ("rotation_matrix_x", lambda: g.rotation_matrix_x(ang[0])),
                     ("rotation_matrix_y", lambda: g.rotation_matrix_y(ang[1])), ("rotation_matrix_z", lambda: g.rotation_matrix_z(ang[2]))):
        first = mk_()
        pristine = np.array(first, copy=True)
        try:
            first[...] = first * np.array([1.0, 1.0, -1.0])[None, :] + 7.0
        except ValueError:
            pass                       # a read-only result is fine too
        again = np.asarray(mk_())
        evaluations += 1
        chk.count(constructor_history=nm_)
        if not np.array_equal(again, pristine):
            chk.violation("rotation:history", f"{nm_} returns a different matrix after the caller edited in place the matrix it had "
                          "been given by an earlier call with the same angles",
                          dict(function=nm_, angles=ang, first_call=pristine, second_call=again, predicate="R(angles) is a function of the angles"), True)

# ---------------------------------------------------------------------------
# 3. direct_isometry_2d / direct_isometry_3d (class T + spec)
# ---------------------------------------------------------------------------
iso_lines, iso_meta = [], []
for it in range(40 if Q else 1200):
    kind = it % 8
    A = rng.normal(size=2) * 10.0 ** rng.integers(-2, 2)
    L = float(10.0 ** rng.uniform(-2, 2))
    a1 = float(rng.uniform(-math.pi, math.pi))
    a2 = float(rng.uniform(-math.pi, math.pi))
    if kind == 1:      # AB along an axis, seam of atan2
        a1 = float(rng.choice([0.0, math.pi, math.pi / 2, -math.pi / 2]))
    if kind == 2:
        a2 = float(rng.choice([0.0, math.pi, math.pi / 2, -math.pi / 2]))
    B = A + L * np.array([math.cos(a1), math.sin(a1)])
    Ap = rng.normal(size=2) * 10.0 ** rng.integers(-2, 2)
    # 7: malformed, the assertion fails; 6: lengths differ inside the isclose tolerance (accepted)
    L2 = L * ([0.5, 2.0, 1.001, 1.0 + 2e-5][(it // 8) % 4] if kind == 7 else (1.0 + 5e-6) if kind == 6 else 1.0)
    Bp = Ap + L2 * np.array([math.cos(a2), math.sin(a2)])
    if kind == 3:      # exactly representable right angle
        A, B, Ap, Bp = np.array([1.0, 2.0]), np.array([4.0, 6.0]), np.array([-1.0, 0.5]), np.array([-5.0, 3.5])
    if kind == 4 and (it // 8) % 2 == 0:      # exact half turn: A'B' = -AB (a segment flipped end to end), dyadic coordinates
        A, d_ = dyadic((2,)), dyadic((2,))
        d_ = d_ if np.any(d_ != 0) else np.array([1.0, 0.5])
        B, Ap = A + d_, dyadic((2,))
        Bp = Ap - d_
        L = L2 = float(np.linalg.norm(d_))
    replay = dict(A=A, B=B, Ap=Ap, Bp=Bp)
    try:
        M, P = g.direct_isometry_2d(A, B, Ap, Bp)
        impl = flist(M) + flist(P)
    except AssertionError:
        impl = None
    sf = False
    if impl is not None:
        evaluations += 1
        sc = max(1.0, float(np.max(np.abs([A, B, Ap, Bp]))))
        sf = not spec_proper(M, "direct_isometry_2d", replay, n=2)
        lenok = abs(np.linalg.norm(B - A) - np.linalg.norm(Bp - Ap)) <= 1e-13 * sc
        if not np.allclose(M @ B + P, Bp, rtol=0, atol=1e-11 * sc) or (lenok and not np.allclose(M @ A + P, Ap, rtol=0, atol=1e-11 * sc)):
            sf = True
            chk.violation("iso2d-maps", "direct_isometry_2d does not send A, B to A', B'",
                          dict(replay, M=M, P=P, predicate="M A + P = A' and M B + P = B'"), True)
    elif impl is None and kind != 7:
        sf = True
        chk.violation("iso2d-rejects", "direct_isometry_2d rejects a valid input", replay, True)
    if impl is not None and kind == 7:
        sf = True
        chk.violation("iso2d-accepts", "direct_isometry_2d accepts |AB| != |A'B'| (beyond numpy.isclose)",
                      dict(replay, predicate="AssertionError unless isclose(|AB|, |A'B'|)"), True)
    chk.count(iso2d="rejected" if impl is None else "ok")
    iso_lines.append("iso2d " + hexs(A) + " " + hexs(B) + " " + hexs(Ap) + " " + hexs(Bp))
    iso_meta.append(dict(fn="direct_isometry_2d", A=flist(A), B=flist(B), Ap=flist(Ap), Bp=flist(Bp), impl=impl,
                         scale=max(1.0, float(np.max(np.abs([A, B, Ap, Bp])))), spec_failed=sf))
    nontrivial.add(("iso2d", it))

for it in range(48 if Q else 1152):
    kind = it % 8
    F = signed_perm() if kind == 1 else random_orthonormal()
    G = signed_perm() if kind == 2 else random_orthonormal()
    A = rng.normal(size=3) * 10.0 ** rng.integers(-2, 2)
    B = rng.normal(size=3) * 10.0 ** rng.integers(-2, 2)
    i_hat, j_hat, u_hat, v_hat = F[0].copy(), F[1].copy(), G[0].copy(), G[1].copy()
    strict = True
    if kind in (6, 7):      # 7: malformed (not unit / not orthogonal) => AssertionError; 6: inside the isclose tolerance => accepted
        which = (it // 8) % 6
        fac = (1.0 + 5e-6) if kind == 6 else [1.01, 0.5, 1.0 + 2e-5][(it // 48) % 3]
        mix = 5e-9 if kind == 6 else [0.1, 1e-3, 2e-8][(it // 48) % 3]
        strict = False
        if which == 0:
            u_hat = u_hat * fac
        elif which == 1:
            v_hat = v_hat * fac
        elif which == 2:
            i_hat = i_hat * fac
        elif which == 3:
            j_hat = j_hat * fac
        elif which == 4:
            j_hat = (j_hat + mix * i_hat) / np.linalg.norm(j_hat + mix * i_hat)
        else:
            v_hat = (v_hat + mix * u_hat) / np.linalg.norm(v_hat + mix * u_hat)
    replay = dict(A=A, i_hat=i_hat, j_hat=j_hat, B=B, u_hat=u_hat, v_hat=v_hat)
    try:
        M, P = g.direct_isometry_3d(A, i_hat, j_hat, B, u_hat, v_hat)
        impl = flist(M) + flist(P)
    except AssertionError:
        impl = None
    sf = False
    if impl is not None and strict:
        evaluations += 1
        sc = max(1.0, float(np.max(np.abs(A))), float(np.max(np.abs(B))))
        sf = not spec_proper(M, "direct_isometry_3d", replay)
        good = (np.allclose(M @ i_hat, u_hat, rtol=0, atol=1e-11) and np.allclose(M @ j_hat, v_hat, rtol=0, atol=1e-11)
                and np.allclose(M @ np.cross(i_hat, j_hat), np.cross(u_hat, v_hat), rtol=0, atol=1e-11)
                and np.allclose(M @ A + P, B, rtol=0, atol=1e-11 * sc))
        if not good:
            sf = True
            chk.violation("iso3d-maps", "direct_isometry_3d does not send the frame (A, i, j, i^j) to (B, u, v, u^v)",
                          dict(replay, M=M, P=P, predicate="M i = u, M j = v, M (i x j) = u x v, M A + P = B"), True)
    elif impl is None and kind != 7:
        sf = True
        chk.violation("iso3d-rejects", "direct_isometry_3d rejects a valid input", replay, True)
    if impl is not None and kind == 7:
        sf = True
        chk.violation("iso3d-accepts", "direct_isometry_3d accepts vectors that are not orthogonal unit vectors (beyond numpy.isclose)",
                      dict(replay, predicate="AssertionError unless |i|,|j|,|u|,|v| isclose 1 and i.j, u.v allclose 0"), True)
    chk.count(iso3d="rejected" if impl is None else ("ok" if strict else "accepted-within-tolerance"))
    iso_lines.append("iso3d " + " ".join(hexs(x) for x in (A, i_hat, j_hat, B, u_hat, v_hat)))
    iso_meta.append(dict(fn="direct_isometry_3d", impl=impl, spec_failed=sf,
                         scale=max(1.0, float(np.max(np.abs(A))), float(np.max(np.abs(B)))), **{k: flist(v) for k, v in replay.items()}))
    nontrivial.add(("iso3d", it))
run_driver(iso_lines, iso_meta, "isometry")

# ---------------------------------------------------------------------------
# 4. spherical coordinates (class T + spec: ranges and inverse)
# ---------------------------------------------------------------------------
sph_lines, sph_meta = [], []
sph_pts = [np.array(p, dtype=float) for p in itertools.product([-1.0, 0.0, 2.0], repeat=3) if any(p)]
sph_pts += [np.array([0.0, 0.0, 3.0]), np.array([0.0, 0.0, -3.0]), np.array([-1.0, 0.0, 0.0]), np.array([-1.0, -0.0, 0.0]),
            np.array([-1.0, 1e-300, 0.0]), np.array([-1.0, -1e-300, 0.0]), np.array([1e-200, 0.0, 1.0])]
sph_pts += [rng.normal(size=3) * 10.0 ** rng.integers(-3, 4) for _ in range(60 if Q else 5000)]
for shape in [(), (4,), (2, 3)]:
    n = int(np.prod(shape, dtype=int))
    for rep in range(3 if Q else 20):
        coords = rng.normal(size=shape + (3,))
        P = g.Points(coords)
        out = P.spherical_coordinates()
        if np.shape(out.r) != shape or np.shape(out.theta) != shape or np.shape(out.phi) != shape:
            chk.violation("spherical-shape", "spherical_coordinates changed the shape", dict(coords=coords), True)
        sph_pts += list(coords.reshape(-1, 3))
for pt in sph_pts:
    x, y, z = (np.array(float(v)) for v in pt)
    use_points = bool(rng.integers(0, 2))
    if use_points:
        out = g.Points(np.array(pt, dtype=float)).spherical_coordinates()
    elif rng.integers(0, 2):
        out = g.spherical_coordinates(x, y, z)
    else:       # the three component functions, r supplied
        r_ = g.spherical_coordinates_r(x, y, z)
        out = g.spherical_coordinates(x, y, z, r=r_)
        out2 = (r_, g.spherical_coordinates_theta(z, r_), g.spherical_coordinates_phi(x, y))
        if not all(np.array_equal(a, b, equal_nan=True) for a, b in zip(out, out2)):
            chk.violation("spherical-components", "spherical_coordinates differs from its component functions",
                          dict(point=pt, predicate="spherical_coordinates = (r, theta(z, r), phi(x, y))"), True)
    r, th, ph = float(out.r), float(out.theta), float(out.phi)
    evaluations += 1
    sc = float(np.max(np.abs(pt)))
    sf = False
    if not (r >= 0 and 0 <= th <= math.pi and -math.pi <= ph <= math.pi):
        sf = True
        chk.violation("spherical-ranges", "spherical coordinates out of range", dict(point=pt, r=r, theta=th, phi=ph,
                      predicate="r >= 0, 0 <= theta <= pi, -pi <= phi <= pi"), True)
    back = np.array([r * math.sin(th) * math.cos(ph), r * math.sin(th) * math.sin(ph), r * math.cos(th)])
    if not np.allclose(back, pt, rtol=0, atol=1e-11 * sc):
        sf = True
        chk.violation("spherical-inverse", "spherical coordinates do not invert back to the Cartesian ones",
                      dict(point=pt, r=r, theta=th, phi=ph, back=back, predicate="(r sin th cos ph, r sin th sin ph, r cos th) = (x, y, z)"), True)
    sph_lines.append("sph " + hexs(pt))
    sph_meta.append(dict(fn="spherical_coordinates", point=flist(pt), impl=[r, th, ph], spec_failed=sf))
    nontrivial.add(("sph",) + tuple(flist(pt)))
    chk.count(spherical="axis/pole" if (pt[0] == 0 and pt[1] == 0) else "generic")
# the origin: the code evaluates arccos(0/0) = nan (the theorems require r > 0); recorded, and reported only if
# known_findings.txt carries the key (the property text quantifies over all points)
o_ = g.Points(np.zeros((2, 3))).spherical_coordinates()
origin_theta_nan = bool(np.isnan(o_.theta).all())
chk.count(spherical_origin="theta=nan (0/0)" if origin_theta_nan else f"theta={float(o_.theta[0])}")
if not (float(o_.r[0]) == 0.0 and float(o_.phi[0]) == 0.0):
    chk.violation("spherical-origin", "spherical coordinates of the origin: r or phi is not 0",
                  dict(point=[0.0, 0.0, 0.0], r=o_.r, phi=o_.phi, predicate="r = 0, phi = atan2(0, 0) = 0"), True)
if origin_theta_nan and "spherical-origin-theta-nan" in chk.known:
    chk.violation("spherical-origin-theta-nan", "spherical_coordinates(0, 0, 0) returns theta = nan", dict(point=[0.0, 0.0, 0.0]), True)
outs = drv.run(sph_lines)
for m, o in zip(sph_meta, outs):
    evaluations += 1
    mr, mt, mp = (unhex(v) for v in o.split())
    m["model"] = [mr, mt, mp]
    r, th, ph = m["impl"]
    # r at 1e-11 relative; phi at 1e-11 modulo 2 pi (+pi and -pi are the same direction);
    # theta = acos(z/r) at 1e-11 plus the amplification of a 2-ulp difference of z/r (1/sin theta, poles)
    dphi = abs(ph - mp)
    dphi = min(dphi, abs(dphi - 2 * math.pi))
    tol_th = 1e-11 + 4.5e-16 / max(math.sin(th), math.sin(mt), 1e-9)
    ok = close(r, mr, TOL) and dphi <= 1e-11 and (abs(th - mt) <= tol_th or (math.isnan(th) and math.isnan(mt)))
    if not ok:
        chk.violation("spherical:corr", "spherical_coordinates differs from the model",
                      dict(m, correspondence="Model.Geometry.spherical_coordinates (extracted) vs arim.geometry.spherical_coordinates"),
                      failing_input_found=bool(m["spec_failed"]))
samples.append({k: sph_meta[-1][k] for k in ("fn", "point", "impl", "model")})

# ---------------------------------------------------------------------------
# 5. distance tables (class E in coqc and in OCaml; spec: brute force)
# ---------------------------------------------------------------------------
QUADS = [(1, 2, 2), (2, 3, 6), (1, 4, 8), (4, 4, 7), (2, 6, 9), (6, 6, 7), (3, 4, 12), (2, 10, 11), (0, 3, 4), (0, 0, 5)]
dist_coq = []
dist_lines, dist_meta = [], []
for it in range(12 if Q else 300):
    kind = it % 3
    n1, n2 = int(rng.integers(1, 6)), int(rng.integers(1, 6))
    if kind == 0:     # Pythagorean: every distance is an integer multiple of a power of two
        base = dyadic((3,))
        scale = float(2.0 ** rng.integers(-3, 3))
        p1 = np.array([base for _ in range(n1)])
        p2 = np.array([base + scale * np.array(rng.permutation(QUADS[int(rng.integers(0, len(QUADS)))])) * rng.choice([-1, 1], size=3)
                       for _ in range(n2)])
    elif kind == 1:   # small dyadic coordinates: the sum of squares is exact, sqrt correctly rounded on both sides
        p1, p2 = dyadic((n1, 3)), dyadic((n2, 3))
    else:             # random floats: same IEEE operations in the same order
        p1, p2 = rng.normal(size=(n1, 3)), rng.normal(size=(n2, 3))
    P1, P2 = g.Points(p1), g.Points(p2)
    via = int(rng.integers(0, 2))
    if via == 0:
        D = g.distance_pairwise(P1, P2, block_size=int(rng.choice([6, 12, 600])), numthreads=int(rng.integers(1, 4)))
    else:
        D = np.zeros((n1, n2))
        g._distance_pairwise(P1.x, P1.y, P1.z, P2.x, P2.y, P2.z, D)
    # the caller's own table (out=), C-ordered, Fortran-ordered or a strided view: it is the table that must be
    # filled, with the same values
    lay = (it // 3) % 3
    Do = [np.full((n1, n2), -1.0), np.full((n1, n2), -1.0, order="F"), np.full((n1, 2 * n2), -1.0)[:, ::2]][lay]
    ret = g.distance_pairwise(P1, P2, out=Do, block_size=int(rng.choice([6, 12, 600])))
    if not np.array_equal(Do, D) or (ret is not None and not np.array_equal(np.asarray(ret), D)):
        chk.violation("distance-out", "distance_pairwise(out=table) does not fill the table it was given with the distances",
                      dict(points1=p1, points2=p2, table_after_call=Do, returned=np.asarray(ret), without_out=D,
                           layout=["C", "F", "strided"][lay], predicate="out[i,j] = |p1[i] - p2[j]|"), True)
    chk.count(distance_out_layout=["C", "F", "strided"][lay])
    brute = np.sqrt(((p1[:, None, :] - p2[None, :, :]) ** 2).sum(axis=-1))
    evaluations += n1 * n2
    sf = not np.allclose(D, brute, rtol=1e-13, atol=0) or D.shape != (n1, n2)
    if kind == 0 and not np.array_equal(D, brute):
        sf = True
    if sf:
        chk.violation("distance-spec", "distance table differs from the Euclidean distance of the pairs",
                      dict(points1=p1, points2=p2, table=D, brute_force=brute, predicate="D[i,j] = |p1[i] - p2[j]|"), True)
    chk.count(distance=["pythagorean", "dyadic", "random"][kind] + ["/pairwise", "/kernel"][via])
    meta = dict(fn="distance_pairwise", points1=p1.tolist(), points2=p2.tolist(), impl=D.tolist(), spec_failed=sf)
    dist_coq.append((cpair(cpair(clist([cv3(p) for p in p1]), clist([cv3(p) for p in p2])),
                           clist([clist([cfloat(v) for v in row]) for row in D])), meta))
    for i in range(n1):
        for j in range(n2):
            dist_lines.append("dist " + hexs(p1[i]) + " " + hexs(p2[j]))
            dist_meta.append(dict(fn="_distance_pairwise", p=flist(p1[i]), q=flist(p2[j]), impl=[float(D[i, j])], exact=True, spec_failed=sf))
            nontrivial.add(("dist",) + tuple(flist(p1[i])) + tuple(flist(p2[j])))
run_driver(dist_lines, dist_meta, "distance")
run_coq("dist", "(list (vec3 float) * list (vec3 float)) * list (list float)", dist_coq,
        "fun c => leq (leq feq) (distance_table NumF (fst (fst c)) (snd (fst c))) (snd c)", "distance", "distance table")
# a set against ITSELF (the same Points object twice, or an equal copy), more points than one block of the default block
# size holds, into the caller's re-used table (stale values, NaN): every entry is the distance of its pair
for it in range(6 if Q else 40):
    n_ = int(rng.choice([3, 85, 90, 170, 200, int(rng.integers(86, 400))]))
    pp = rng.normal(size=(n_, 3))
    Pa = g.Points(pp)
    Pb = Pa if it % 3 != 2 else g.Points(pp.copy())
    fillv = [np.nan, -1.0, 7.5][it % 3]
    Do = np.full((n_, n_), fillv)
    kw_ = {} if it % 2 == 0 else {"block_size": int(rng.choice([7, 50, 1000]))}
    ret = g.distance_pairwise(Pa, Pb, out=Do, **kw_)
    brute = np.sqrt(((pp[:, None, :] - pp[None, :, :]) ** 2).sum(axis=-1))
    fresh = g.distance_pairwise(Pa, Pb, **kw_)
    evaluations += n_ * n_
    chk.count(distance_self=("same object" if Pb is Pa else "equal copy") + f", table prefilled with {fillv}")
    nontrivial.add(("dist-self", it, n_))
    if not (np.allclose(Do, brute, rtol=1e-13, atol=1e-15) and np.allclose(fresh, brute, rtol=1e-13, atol=1e-15) and (ret is None or np.array_equal(np.asarray(ret), Do))):
        bad_ = np.argwhere(~np.isclose(Do, brute, rtol=1e-13, atol=1e-15))
        chk.violation("distance-self", f"distance table of a set of {n_} points against itself ({'same object' if Pb is Pa else 'equal copy'}, table prefilled with {fillv}) "
                      "differs from the Euclidean distance of the pairs",
                      dict(points=pp, kwargs=kw_, prefilled_with=fillv, first_wrong_entries=bad_[:5], got=[float(Do[tuple(b)]) for b in bad_[:5]],
                           expected=[float(brute[tuple(b)]) for b in bad_[:5]], predicate="out[i,j] = |p[i] - p[j]|"), True)
        break
# coordinates in unusual storage (big-endian, half / extended precision): either refused (an exception) or the right table, never
# a table that silently holds something else
for dt_ in (">f8", np.float16, np.longdouble, np.float32):
    pp_ = np.round(rng.normal(size=(5, 3)) * 4) / 4
    qq_ = np.round(rng.normal(size=(4, 3)) * 4) / 4
    try:
        D_ = np.asarray(g.distance_pairwise(g.Points(pp_.astype(dt_)), g.Points(qq_.astype(dt_))), float)
        err_ = None
    except Exception as e_:      # noqa: BLE001
        D_, err_ = None, type(e_).__name__
    evaluations += 1
    chk.count(distance_unusual_storage=f"{np.dtype(dt_).str}: {'raises ' + err_ if err_ else 'table'}")
    brute_ = np.sqrt(((pp_[:, None, :] - qq_[None, :, :]) ** 2).sum(axis=-1))
    if err_ is None and not (D_.shape == brute_.shape and np.allclose(D_, brute_, rtol=1e-3 if np.dtype(dt_).itemsize == 2 else 1e-6, atol=0)):
        chk.violation("distance-unusual-storage", f"distance_pairwise on coordinates stored as {np.dtype(dt_).str} returns, without an error, a table that is not "
                      "the distances of the pairs", dict(points1=pp_, points2=qq_, dtype=np.dtype(dt_).str, table=D_, brute_force=brute_), True)
try:
    g.distance_pairwise(g.Points(np.zeros((2, 2, 3))), g.Points(np.zeros((2, 3))))
    chk.violation("distance-dim", "distance_pairwise accepts a 2-D point array", {}, True)
except arim.exceptions.InvalidDimension:
    chk.count(distance="InvalidDimension")

# ---------------------------------------------------------------------------
# 6. grids (class E on every float: same IEEE operations; spec predicates)
# ---------------------------------------------------------------------------
def grid_axis_impl(lo, hi, d, axis):
    """the axis vector built by arim.Grid for (lo, hi, d) on the given axis; None on exception"""
    args = [0.0] * 6
    args[2 * axis], args[2 * axis + 1] = lo, hi
    px = [1.0, 1.0, 1.0]
    px[axis] = d
    if axis == 1:       # numpy scalars instead of Python floats (0-division gives inf, round(inf) raises OverflowError)
        args = [np.float64(a) for a in args]
        px = [np.float64(a) for a in px]
    try:
        import warnings
        with warnings.catch_warnings():
            warnings.simplefilter("ignore")
            gr = g.Grid(*args, tuple(px))
    except (ZeroDivisionError, ValueError, OverflowError):
        return None
    return [gr.xvect, gr.yvect, gr.zvect][axis]


def spec_axis(lo, hi, d, v, replay):
    """grid_count / contains_bounds / even_spacing / degenerate on the implementation's axis"""
    L = abs(hi - lo)
    if lo == hi:
        ok = len(v) == 1 and v[0] == lo
        what = "a degenerate axis is the single point min"
    elif d > 0 and d <= L:
        N = len(v)
        ok = N >= 2 and v[0] == lo and v[-1] == hi
        what = "the axis contains both bounds"
        if ok:
            ok = abs(N - (L / d + 1)) <= 0.5 + 1e-9 * (L / d + 1)
            what = "N is the integer nearest to L/d + 1"
        if ok:
            step = (hi - lo) / (N - 1)
            ok = bool(np.allclose(np.diff(v), step, rtol=1e-9, atol=1e-12 * max(abs(lo), abs(hi))))
            what = "the axis is evenly spaced"
    else:
        return True
    if not ok:
        chk.violation("grid-spec", f"Grid axis: {what} fails", dict(replay, axis_vector=v, predicate=what), True)
    return ok


axis_cases = []
# corpus first (hand-picked boundary cases, see corpus/C17/*.json)
import glob, json, os
for cf in sorted(glob.glob(os.path.join(os.path.dirname(os.path.abspath(__file__)), "..", "corpus", "C17", "*.json"))):
    for lo, hi, d, fam in json.load(open(cf)).get("grid_axis", []):
        axis_cases.append((float(lo), float(hi), float(d), "corpus"))
# half-way cases of the rounding: (L + d)/d = k + 1/2 exactly, dyadic
for k in range(1, 40 if Q else 200):
    for d in (1.0, 0.5, 0.25, 2.0, 0.125):
        L = (k - 0.5) * d
        lo = float(dyadic(()))
        axis_cases.append((lo, lo + L, d, "half-way"))
        axis_cases.append((lo + L, lo, d, "half-way-reversed"))
# exact multiples, one ulp around them, pixel larger than the axis, tiny axis, degenerate, bad pixel sizes
for k in range(1, 12):
    for d in (0.1, 0.3, 1e-3, 0.7e-3, 1.0, 3.0):
        axis_cases.append((0.0, k * d, d, "multiple"))
        axis_cases.append((0.0, float(np.nextafter(k * d, np.inf)), d, "multiple+ulp"))
        axis_cases.append((-k * d, 0.0, d, "multiple"))
for lo, hi, d in [(0.0, 1.0, 2.0), (0.0, 1.0, 1.0), (0.0, 1.0, 3.0), (0.0, 1.0, 0.75), (0.0, 1.0, 1.9999), (0.0, 1.0, 2.0001),
                  (0.0, 1e-9, 1.0), (5.0, 5.0, 1.0), (5.0, 5.0, 0.0), (-0.0, 0.0, 1.0), (0.0, 1.0, 0.0), (0.0, 1.0, -0.25),
                  (0.0, 1.0, -4.0), (0.0, 1.0, -1.0), (0.0, 0.25, -0.5), (1.0, 0.0, 0.25), (0.0, 1.0, 1e-4)]:
    axis_cases.append((lo, hi, d, "boundary"))
# thin axes far from the origin: extent ~1e-6..1e-5 of the coordinate, pixel a fraction of the extent
for lo, rel in ((0.25, 8e-6), (40.0, 7.5e-6), (1000.0, 5e-6), (-3.5, 4e-6), (1.0, 1e-6), (1e3, 2e-9)):
    for npx in (3, 4, 10):
        L = abs(lo) * rel
        axis_cases.append((lo, lo + L, L / npx, "thin-far-from-origin"))
        axis_cases.append((lo + L, lo, L / npx, "thin-far-from-origin"))
for _ in range(150 if Q else 8000):
    lo = float(rng.normal() * 10.0 ** rng.integers(-3, 2))
    L = float(10.0 ** rng.uniform(-3, 1))
    d = float(L * 10.0 ** rng.uniform(-2.2, 0.5))
    axis_cases.append((lo, lo + L, d, "random"))

axis_coq, axis_lines, axis_meta = [], [], []
for n_, (lo, hi, d, fam) in enumerate(axis_cases):
    axis = n_ % 3
    v = grid_axis_impl(lo, hi, d, axis)
    chk.count(grid_axis=fam, grid_axis_outcome="exception" if v is None else ("degenerate" if lo == hi else f"N={'1' if len(v) == 1 else '0' if len(v) == 0 else '>=2'}"))
    sf = False
    if v is not None:
        evaluations += 1
        sf = not spec_axis(lo, hi, d, np.asarray(v, dtype=float), dict(min=lo, max=hi, pixel=d, axis="xyz"[axis]))
    meta = dict(fn="Grid axis", min=lo, max=hi, pixel=d, axis="xyz"[axis], family=fam,
                impl=None if v is None else [float(len(v))] + flist(v), exact=True, spec_failed=sf)
    axis_lines.append(f"gridaxis {fhex(lo)} {fhex(hi)} {fhex(d)}")
    axis_meta.append(meta)
    axis_coq.append((cpair(cpair(cfloat(lo), cfloat(hi), cfloat(d)), copt(v, lambda v_: clist([cfloat(t) for t in v_]))), meta))
    nontrivial.add(("axis", lo, hi, d))
run_driver(axis_lines, axis_meta, "grid-axis")
# in coqc: all structured families + a sample of the random ones (long axes are slow to type-check)
sel = [c for c in axis_coq if c[1]["family"] != "random" and (c[1]["impl"] is None or len(c[1]["impl"]) <= 120)]
sel += [c for c in axis_coq if c[1]["family"] == "random" and (c[1]["impl"] is None or len(c[1]["impl"]) <= 60)][:100 if Q else 1500]
run_coq("gridaxis", "(float * float * float) * option (list float)", sel,
        "fun c => let '(lo, hi, d) := fst c in oeq (leq feq) (grid_axis NumF lo hi d) (snd c)", "grid-axis", "Grid axis vector")

# whole grids: xvect/yvect/zvect, coords[ix,iy,iz], to_1d_points order, to_oriented_points
grid_coq = []
for it in range(25 if Q else 500):
    ext = []
    for ax in range(3):
        lo = float(dyadic(())) if it % 2 == 0 else float(rng.normal())
        deg = rng.random() < 0.25
        npts = int(rng.integers(2, 6))
        d = float(2.0 ** rng.integers(-3, 1)) if it % 2 == 0 else float(10.0 ** rng.uniform(-1.5, 0))
        L = 0.0 if deg else d * (npts - 1) + (float(rng.choice([0.0, 0.25, 0.5])) * d)
        ext += [lo, lo + L]
    scalar_px = bool(rng.integers(0, 2))
    px = [float(2.0 ** rng.integers(-3, 1)) if it % 2 == 0 else float(10.0 ** rng.uniform(-1.2, 0)) for _ in range(3)]
    if scalar_px:
        px = [px[0]] * 3
    gr = g.Grid(*ext, px[0] if scalar_px else tuple(px))
    nx, ny, nz = gr.numx, gr.numy, gr.numz
    replay = dict(extents=ext, pixel_size=px, scalar_pixel=scalar_px)
    evaluations += 4
    sf = False
    # spec: meshgrid 'ij' and x-major flattening
    X, Y, Z = np.meshgrid(gr.xvect, gr.yvect, gr.zvect, indexing="ij")
    if gr.shape != (nx, ny, nz) or not (np.array_equal(gr.x, X) and np.array_equal(gr.y, Y) and np.array_equal(gr.z, Z)):
        sf = True
        chk.violation("grid-coords", "Grid coords[ix,iy,iz] != (xvect[ix], yvect[iy], zvect[iz])", dict(replay, predicate="meshgrid ij"), True)
        continue
    flat = gr.to_1d_points()
    ok = flat.shape == (nx * ny * nz,)
    if ok:
        for ix, iy, iz in itertools.product(range(nx), range(ny), range(nz)):
            if not np.array_equal(flat.coords[(ix * ny + iy) * nz + iz], [gr.xvect[ix], gr.yvect[iy], gr.zvect[iz]]):
                ok = False
    if not ok:
        sf = True
        chk.violation("grid-order", "to_1d_points does not enumerate the grid in x-major order",
                      dict(replay, predicate="flat[(ix*ny+iy)*nz+iz] = (x[ix], y[iy], z[iz])"), True)
    op = gr.to_oriented_points()
    if not (np.array_equal(op.points.coords, flat.coords) and op.orientations.shape == (nx * ny * nz, 3)
            and np.array_equal(op.orientations.coords, np.broadcast_to(np.eye(3), (nx * ny * nz, 3, 3)))):
        sf = True
        chk.violation("grid-oriented", "to_oriented_points is not the flattened grid with the default orientation", replay, True)
    for ax, (v, lo, hi, d) in enumerate(zip((gr.xvect, gr.yvect, gr.zvect), ext[0::2], ext[1::2], px)):
        if not spec_axis(lo, hi, d, np.asarray(v), dict(replay, axis="xyz"[ax])):
            sf = True
    chk.count(grid_shape=f"{min(nx, 2)}{min(ny, 2)}{min(nz, 2)}", grid_pixel="scalar" if scalar_px else "per-axis")
    meta = dict(fn="Grid", impl_shape=[nx, ny, nz], spec_failed=sf, **replay)
    lit_in = cpair(cpair(cfloat(ext[0]), cfloat(ext[1]), cfloat(px[0])), cpair(cfloat(ext[2]), cfloat(ext[3]), cfloat(px[1])),
                   cpair(cfloat(ext[4]), cfloat(ext[5]), cfloat(px[2])))
    lit_out = cpair(clist([cfloat(t) for t in gr.xvect]), clist([cfloat(t) for t in gr.yvect]), clist([cfloat(t) for t in gr.zvect]),
                    clist([cv3(p) for p in flat.coords]),
                    clist([clist([clist([cv3(gr.coords[ix, iy, iz]) for iz in range(nz)]) for iy in range(ny)]) for ix in range(nx)]))
    grid_coq.append((cpair(lit_in, lit_out), meta))
    nontrivial.add(("grid", it))
run_coq("grid", "((float * float * float) * (float * float * float) * (float * float * float)) * "
        "(list float * list float * list float * list (vec3 float) * list (list (list (vec3 float))))", grid_coq,
        "fun c => let '(ax, ay, az) := fst c in let '(xs, ys, zs, flat, nested) := snd c in "
        "match grid NumF (fst (fst ax)) (snd (fst ax)) (fst (fst ay)) (snd (fst ay)) (fst (fst az)) (snd (fst az)) (snd ax) (snd ay) (snd az) with "
        "| Some gr => leq feq (g_xvect gr) xs && leq feq (g_yvect gr) ys && leq feq (g_zvect gr) zs && "
        "leq v3eq (grid_to_1d_points gr) flat && leq (leq (leq v3eq)) (g_coords gr) nested | None => false end",
        "grid", "Grid vectors, coords and to_1d_points order")

# Points of any shape: to_1d_points / reshape / iteration are in C order (right-most index quickest), from_xyz stacks last
for shape in SHAPES:
    coords = rng.normal(size=shape + (3,))
    P = g.Points.from_xyz(coords[..., 0].copy(), coords[..., 1].copy(), coords[..., 2].copy(), "p")
    evaluations += 1
    n = int(np.prod(shape, dtype=int))
    flat = P.to_1d_points()
    idxs = list(np.ndindex(shape))
    ok = (P.shape == shape and P.size == n and P.numpoints == n and P.ndim == len(shape) and np.array_equal(P.coords, coords)
          and flat.shape == (n,) and all(np.array_equal(flat.coords[k], coords[idx]) for k, idx in enumerate(idxs))
          and [i for i, _ in P.enumerate()] == idxs and all(np.array_equal(a, coords[idx]) for a, idx in zip(P, idxs))
          and np.array_equal(P.x, coords[..., 0]) and np.array_equal(P.y, coords[..., 1]) and np.array_equal(P.z, coords[..., 2]))
    if ok and len(shape) == 2:
        ok = all(np.array_equal(flat.coords[i * shape[1] + j], coords[i, j]) for i in range(shape[0]) for j in range(shape[1]))
    if not ok:
        chk.violation("points-order", "Points: shape / to_1d_points / iteration order is not the documented C order",
                      dict(shape=shape, coords=coords, predicate="flat[k] = coords[ndindex k]"), True)
    chk.count(points_shape=str(shape))
try:
    g.Points(np.zeros((4, 2)))
    chk.violation("points-last-dim", "Points accepts coords whose last dimension is not 3", {}, True)
except ValueError:
    chk.count(points="ValueError on last dimension != 3")

# grid_centred_at_point
cen_lines, cen_meta, cen_coq = [], [], []
cen_cases = []
for s_, p_ in [(1.0, 0.25), (1.0, 0.5), (1.0, 1.0), (1.0, 2.0), (1.0, 0.3), (0.0, 0.25), (2.0, 0.5), (3.0, 1.0), (2.5, 1.0),
               (1.0, 1.0 / 3), (0.75, 0.25), (1.25, 0.25), (1e-3, 0.3e-3), (20e-3, 1e-3), (1.0, 0.0), (-1.0, 0.5)]:
    cen_cases.append((float(dyadic(())), s_, p_))
for _ in range(40 if Q else 2000):
    cen_cases.append((float(rng.normal()), float(10.0 ** rng.uniform(-3, 0.5)) * float(rng.random() > 0.1), float(10.0 ** rng.uniform(-3, 0))))
for n_, (c, s_, p_) in enumerate(cen_cases):
    centre = [float(dyadic(())), float(dyadic(())), float(dyadic(()))]
    sizes = [0.0, 0.0, 0.0]
    ax = n_ % 3
    centre[ax] = c
    sizes[ax] = s_
    sizes[(ax + 1) % 3] = float(rng.choice([0.0, 0.5, s_ if s_ > 0 else 0.0]))
    meta = dict(fn="grid_centred_at_point", centre=centre, sizes=sizes, pixel=p_, exact=True)
    try:
        import warnings
        with warnings.catch_warnings():
            warnings.simplefilter("ignore")
            gr = g.Grid.grid_centred_at_point(*centre, *sizes, p_)
        vects = [gr.xvect, gr.yvect, gr.zvect]
        impl = [float(len(v)) for v in vects] + flist(np.concatenate(vects))
    except (AssertionError, ZeroDivisionError, ValueError, OverflowError):
        gr, impl = None, None
    sf = False
    if gr is not None:
        evaluations += 1
        for a_, v in enumerate(vects):
            N = len(v)
            good = N % 2 == 1 and abs(v[(N - 1) // 2] - centre[a_]) <= 1e-12 * max(1.0, abs(centre[a_]))
            if sizes[a_] > 0:
                good = good and N >= 3 and N >= sizes[a_] / p_ + 1 - 1e-9 and N < sizes[a_] / p_ + 3 + 1e-9
                good = good and abs(v[0] - (centre[a_] - sizes[a_] / 2)) <= 1e-12 * max(1.0, abs(centre[a_])) \
                    and abs(v[-1] - (centre[a_] + sizes[a_] / 2)) <= 1e-12 * max(1.0, abs(centre[a_]))
                good = good and bool(np.allclose(np.diff(v), sizes[a_] / (N - 1), rtol=1e-9, atol=1e-13))
            else:
                good = good and N == 1
            if not good:
                sf = True
                chk.violation("grid-centred-spec", "grid_centred_at_point: odd number of points, centre contained, size spanned fails",
                              dict(meta, axis="xyz"[a_], axis_vector=v, predicate="N odd, v[(N-1)/2] = centre, v[0], v[-1] = centre -+ size/2"), True)
    meta.update(impl=impl, spec_failed=sf)
    chk.count(grid_centred="exception" if gr is None else ("degenerate-axis" if s_ == 0 else "regular"))
    cen_lines.append("centred " + hexs(centre) + " " + hexs(sizes) + " " + fhex(p_))
    cen_meta.append(meta)
    if gr is None or sum(len(v) for v in vects) <= 80:
        cen_coq.append((cpair(cpair(*(cfloat(t) for t in centre + sizes + [p_])),
                              copt(gr, lambda gr_: cpair(*(clist([cfloat(t) for t in v]) for v in (gr_.xvect, gr_.yvect, gr_.zvect))))), meta))
    nontrivial.add(("centred", c, s_, p_))
run_driver(cen_lines, cen_meta, "grid-centred")
run_coq("centred", "(float * float * float * float * float * float * float) * option (list float * list float * list float)",
        cen_coq[:150 if Q else 1500],
        "fun c => let '(cx, cy, cz, sx, sy, sz, px) := fst c in "
        "match grid_centred_at_point NumF cx cy cz sx sy sz px, snd c with "
        "| Some gr, Some (xs, ys, zs) => leq feq (g_xvect gr) xs && leq feq (g_yvect gr) ys && leq feq (g_zvect gr) zs "
        "| None, None => true | _, _ => false end", "grid-centred", "grid_centred_at_point axis vectors")

# ---------------------------------------------------------------------------
# 7. points_in_rectbox: all 64 subsets of bounds (class E, booleans; spec: brute force)
# ---------------------------------------------------------------------------
box_coq = []
nbox = 0
for mask in range(64):
    for rep in range(1 if Q else 8):
        lo = dyadic((3,), bits=2, span=2)
        hi = lo + np.abs(dyadic((3,), bits=2, span=2))
        bounds = [lo[0], hi[0], lo[1], hi[1], lo[2], hi[2]]       # xmin xmax ymin ymax zmin zmax
        supplied = [bounds[k] if (mask >> k) & 1 else None for k in range(6)]
        shape = [(), (9,), (3, 4)][(mask + rep) % 3]
        # points on, just inside and just outside every bound
        cand = []
        for ax in range(3):
            cand.append([lo[ax], hi[ax], float(np.nextafter(lo[ax], -np.inf)), float(np.nextafter(hi[ax], np.inf)),
                         float(np.nextafter(lo[ax], np.inf)), float(np.nextafter(hi[ax], -np.inf)), (lo[ax] + hi[ax]) / 2, lo[ax] - 1.0, hi[ax] + 1.0])
        n = int(np.prod(shape, dtype=int))
        pts = np.array([[cand[ax][int(rng.integers(0, 9))] for ax in range(3)] for _ in range(n)]).reshape(shape + (3,))
        P = g.Points(pts)
        kw = dict(zip(("xmin", "xmax", "ymin", "ymax", "zmin", "zmax"), supplied))
        if rng.integers(0, 2):
            out = P.points_in_rectbox(**{k: v for k, v in kw.items() if v is not None})
        else:
            out = g.points_in_rectbox(P.x, P.y, P.z, **kw)
        brute = np.ones(shape, dtype=bool)
        for k, b in enumerate(supplied):
            if b is not None:
                comp = pts[..., k // 2]
                brute &= (b <= comp) if k % 2 == 0 else (comp <= b)
        evaluations += n
        nbox += n
        sf = np.shape(out) != shape or out.dtype != bool or not np.array_equal(out, brute)
        if sf:
            chk.violation("rectbox-spec", "points_in_rectbox differs from the conjunction of the supplied inclusive bounds",
                          dict(bounds=kw, points=pts, mask=out, brute_force=brute, predicate="mask = AND of supplied inclusive bounds"), True)
        chk.count(rectbox_bounds_supplied=bin(mask).count("1"))
        meta = dict(fn="points_in_rectbox", bounds=kw, points=pts.tolist(), impl=np.asarray(out).tolist(), spec_failed=bool(sf))
        box_coq.append((cpair(cpair(*(copt(b, cfloat) for b in supplied)), clist([cv3(p) for p in pts.reshape(-1, 3)]),
                              clist([cbool(b) for b in np.asarray(out).reshape(-1)])), meta))
        nontrivial.add(("box", mask, rep))
# ... and on Grid objects (structured point sets) with bounds that are exactly grid lines, the grid's own ends included
for it in range(12 if Q else 100):
    dx_ = float(2.0 ** rng.integers(-3, 1))
    x0_, z0_ = float(rng.integers(-4, 4)) * dx_, float(rng.integers(0, 4)) * dx_
    nx_, nz_ = int(rng.integers(1, 7)), int(rng.integers(1, 7))
    threed = it % 4 == 3
    ny_ = int(rng.integers(2, 4)) if threed else 1
    G_ = g.Grid(x0_, x0_ + (nx_ - 1) * dx_, 0.0, (ny_ - 1) * dx_, z0_, z0_ + (nz_ - 1) * dx_, dx_)
    vec_ = {"x": np.asarray(G_.xvect, float), "y": np.asarray(G_.yvect, float), "z": np.asarray(G_.zvect, float)}
    kw = {}
    for ax in "xyz":
        for side in ("min", "max"):
            r_ = rng.random()
            if r_ < 0.45:
                kw[ax + side] = float(vec_[ax][int(rng.integers(0, len(vec_[ax])))])      # exactly a grid line
            elif r_ < 0.6:
                kw[ax + side] = float(vec_[ax][int(rng.integers(0, len(vec_[ax])))] + (0.5 if side == "max" else -0.5) * dx_ * rng.choice([-1, 1]))
    out = G_.points_in_rectbox(**kw)
    brute = np.ones(G_.shape, dtype=bool)
    for k_, b_ in kw.items():
        comp = {"x": G_.x, "y": G_.y, "z": G_.z}[k_[0]]
        brute &= (b_ <= comp) if k_.endswith("min") else (comp <= b_)
    evaluations += int(np.prod(G_.shape))
    chk.count(rectbox_on_grid="3-D grid" if threed else "2-D grid")
    nontrivial.add(("box-grid", it))
    if np.shape(out) != G_.shape or not np.array_equal(np.asarray(out, bool), brute):
        chk.violation("rectbox-grid", "Grid.points_in_rectbox differs from the conjunction of the supplied inclusive bounds",
                      dict(grid=dict(xmin=x0_, xmax=x0_ + (nx_ - 1) * dx_, ymin=0.0, ymax=(ny_ - 1) * dx_, zmin=z0_, zmax=z0_ + (nz_ - 1) * dx_, pixel_size=dx_),
                           bounds=kw, mask=np.asarray(out), brute_force=brute, predicate="mask = AND of supplied inclusive bounds"), True)
        break
run_coq("rectbox", "(option float * option float * option float * option float * option float * option float) * list (vec3 float) * list bool",
        box_coq,
        "fun c => let '(b, ps, out) := c in let '(x0, x1, y0, y1, z0, z1) := b in "
        "leq Bool.eqb (points_in_rectbox NumF x0 x1 y0 y1 z0 z1 ps) out", "rectbox", "points_in_rectbox mask")
try:
    g.points_in_rectbox(np.zeros(3), np.zeros(3), np.zeros(4), xmin=0.0)
    chk.violation("rectbox-shape", "points_in_rectbox accepts arrays of different shapes", {}, True)
except ValueError:
    chk.count(rectbox="ValueError on shape mismatch")
samples.append(dict(fn="points_in_rectbox", bounds=box_coq[37][1]["bounds"], points=box_coq[37][1]["points"][:2] if isinstance(box_coq[37][1]["points"], list) else None,
                    impl=box_coq[37][1]["impl"]))

# ---------------------------------------------------------------------------
# ---- the glue model of the public functions (Model files added later, see manifest text) tied to the library on every run:
#      inputs generated here, the library run on them, the model evaluated on the same inputs by vm_compute inside coqc
import ties.tie_C17 as _tie_glue  # noqa: E402
_tie_n = _tie_glue.run(chk, arim, rng, Q)
chk.cov["glue_model_tie_comparisons"] = int(_tie_n or 0)

chk.finish(
    evaluations=evaluations,
    distinct_nontrivial=len(nontrivial),
    rule=("one case = one point through one frame change / rotation / coordinate system (arrays of shapes (), (n,), (n,m), (n,m,k), "
          "single or per-point frames, flattened), one rotation matrix, one isometry, one spherical conversion, one distance-table "
          "entry, one grid axis / grid / centred grid, one (subset of bounds, point) of the box selector; non-trivial = distinct "
          "generated input (measured as a set of input keys)"),
    samples=samples,
    extra={"tolerance_class_T": TOL, "spherical_origin_theta_is_nan": origin_theta_nan},
    assumptions=["rounding: theorems hold in exact arithmetic; class E compares binary64 results bit for bit, class T at 1e-11"],
)
