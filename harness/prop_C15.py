"""C15 — Frame bookkeeping never mis-attributes a timetrace to an element pair.

Proof side : Props/C15.v (fmc/hmc enumerate the ordered/unordered pairs exactly once;
             infer_capture_method recognises exactly the permutations of FMC/HMC;
             default weights; expand = sorted union with the recorded payload; subframe by
             elements keeps exactly the timetraces with both elements retained and
             E[new] = old; the attribution invariant is preserved by every chain).
Tie        : real arim.Frame / arim.Probe objects.  Every element carries a distinct
             integer label written into its location, orientation, dimension (shape and
             dead flag carry label mod 3 / mod 2); every timetrace's samples are
             p*[1,2,3] with p = scale*(label(tx)*1024 + label(rx)) of the elements it was
             recorded with.  Chains of 1..6 operations (subframe, subframe_from_probe_
             elements with and without sub-probe, expand_frame_assuming_reciprocity,
             apply_filter) with every numpy index kind (slices of every step sign, boolean
             masks, permuted / negative / repeated / out-of-range integer lists); after every
             step tx, rx, payload labels and probe labels are compared exactly (class E) with
             Model.Frame: every chain through the extracted model (ocaml/C15/driver.ml) and
             through vm_compute inside coqc (all chains in the quick tier, 3000 in the
             thorough tier; both must agree), and the spec predicates (brute-force
             definitions) are evaluated directly on the implementation's output.
             Streams: corpus/C15/*.json (hand-written boundary chains) first, then
             single-operation chains exhaustive on small sizes (every duplicate-free element
             list, every mask for n <= 4/5, every slice), then random chains.
             Separately: fmc, hmc, infer_capture_method, default_timetrace_weights,
             Frame.__init__ duplicate check, get_timetrace, is_complete, capture_method.
"""
import itertools
import sys

import numpy as np

from common import Check, cZ, clist, cpair, cbool, copt

chk = Check("C15", design_ref="DESIGN.md §5 C15")
chk.proofs(extra_trusted=[
    "harness/prop_C15.py: numpy index expressions (slices, masks) are normalised to arange(n)[idx] before they reach "
    "the model; integer lists are passed raw (negative values resolved by Model.Frame.resolve_index)",
    "ExtrOcamlBasic extraction of Model.Frame.chain_check_flat + ocaml/C15/driver.ml (integer line protocol, Numf.z_of_int); "
    "cross-checked on every run against vm_compute in coqc (all chains in the quick tier, 3000 in the thorough tier)",
    "modelled, not verified: numpy fancy indexing / np.isin / set and dict semantics of CPython (exercised by the tie)",
    "apply_filter is proved for row-wise filters only (premise of chain_attribution); the harness uses scalar multiples",
])
arim = chk.import_arim()
import arim.ut as ut  # noqa: E402
from arim import core, geometry as g  # noqa: E402

rng = chk.rng
Q = chk.tier == "quick"
evaluations = 0
nontrivial = set()
samples = []
B = 1024  # payload code = label(tx) * B + label(rx)

IMPORTS = "From Coq Require Import Arith List ZArith Bool.\nFrom Arim Require Import Model.Frame."
import time as _time
_t0 = [_time.time()]
LAPS = {}


def lap(name):
    now = _time.time()
    LAPS[name] = round(now - _t0[0], 1)
    _t0[0] = now


def ri(lo, hi):
    return int(rng.integers(lo, hi))


def cZp(p):
    return cpair(cZ(p[0]), cZ(p[1]))


def cZ3(e):
    return cpair(cZ(e[0]), cZ(e[1]), cZ(e[2]))


def cstate(s):
    if s is None:
        return "None"
    return "(Some " + cpair(clist(s[0], cZ), clist(s[1], cZ3)) + ")"


# ---------------------------------------------------------------------------
# (1) fmc / hmc
# ---------------------------------------------------------------------------
enum_cases = []
ns = list(range(0, 33)) + ([] if Q else [40, 64, 100])
for n in ns:
    for kind, fn in (("fmc", ut.fmc), ("hmc", ut.hmc)):
        arg = n if rng.random() < 0.7 else (np.int64(n) if rng.random() < 0.5 else float(n))
        tx, rx = fn(arg)
        tx = [int(x) for x in tx]
        rx = [int(x) for x in rx]
        pairs = list(zip(tx, rx))
        # spec predicate, brute force
        if kind == "fmc":
            want = {(i, j) for i in range(n) for j in range(n)}
        else:
            want = {(i, j) for i in range(n) for j in range(i, n)}
        ok = len(pairs) == len(want) and set(pairs) == want and len(tx) == len(rx)
        if not ok:
            chk.violation(f"{kind}:spec", f"ut.{kind}({n}) does not enumerate every pair exactly once",
                          {"n": n, "tx": tx, "rx": rx}, failing_input_found=True)
        enum_cases.append((kind, n, pairs))
        # HISTORY: the arrays returned to one caller are that caller's own (e.g. shifted in place to one-based indices for
        # an export); the next call with the same n must enumerate the pairs afresh
        if n <= 12:
            a_, b_ = fn(n)
            try:
                a_ += 1
                b_[...] = 0
            except (TypeError, ValueError):
                pass                       # read-only or immutable results are fine too
            tx2, rx2 = fn(n)
            if [int(x) for x in tx2] != tx or [int(x) for x in rx2] != rx:
                chk.violation(f"{kind}:history", f"ut.{kind}({n}) returns a different enumeration after the caller modified in place "
                              "the arrays returned by an earlier call", {"n": n, "first": [tx, rx],
                                                                          "second": [[int(x) for x in tx2], [int(x) for x in rx2]]}, True)
        evaluations += 1
        nontrivial.add((kind, n))
        chk.count(enum=kind)
fails = chk.coq_failing(
    "cases_enum", IMPORTS, "bool * Z * list (Z * Z)",
    [cpair(cbool(k == "fmc"), cZ(n), clist(p, cZp)) for (k, n, p) in enum_cases],
    "fun c : bool * Z * list (Z * Z) => let '(isf, n, got) := c in list_eqb zpair_eqb (if isf then fmc_z n else hmc_z n) got")
for k in fails[:5]:
    kind, n, pairs = enum_cases[k]
    chk.violation(f"{kind}:model", f"ut.{kind}({n}) differs from Model.Frame.{kind} (order of the pairs)",
                  {"correspondence": f"Model.Frame.{kind}", "n": n, "impl_pairs": pairs}, failing_input_found=False)
samples.append({"hmc(3)": [list(p) for p in enum_cases[7][2]]})


# ---------------------------------------------------------------------------
# (2) infer_capture_method / default_timetrace_weights on lists of pairs
# ---------------------------------------------------------------------------
def gen_pairs():
    """a list of (tx, rx) and a tag describing how it was made"""
    u = rng.random()
    n = ri(1, 9) if u < 0.82 else ri(9, 17) if u < 0.96 else ri(17, 41)     # the last: more elements than sqrt(256)
    r = rng.random()
    f = list(zip(*[[int(x) for x in a] for a in ut.fmc(n)]))
    h = list(zip(*[[int(x) for x in a] for a in ut.hmc(n)]))
    if r < 0.14:
        l, tag = f, "fmc"
    elif r < 0.28:
        l, tag = h, "hmc"
    elif r < 0.40:
        l, tag = [(b, a) for a, b in h], "hmc-mirrored"
    elif r < 0.50:
        l, tag = [(b, a) if rng.random() < 0.5 else (a, b) for a, b in h], "hmc-mixed-orientation"
    elif r < 0.62:
        base = [f, h, [(b, a) for a, b in h]][ri(0, 3)]
        l = list(base)
        if l:
            del l[ri(0, len(l))]
        tag = "missing-one"
    elif r < 0.72:
        base = [f, h, [(b, a) for a, b in h]][ri(0, 3)]
        l = list(base)
        if len(l) >= 2:
            i, j = rng.choice(len(l), size=2, replace=False)
            l[int(i)] = l[int(j)]
        tag = "one-replaced-by-duplicate"
    elif r < 0.80:
        base = [f, h][ri(0, 2)]
        l = list(base) + [base[ri(0, len(base))]]
        tag = "one-extra-duplicate"
    elif r < 0.88:
        # right count, one pair replaced by a foreign one
        l = list(h)
        k = ri(0, len(l))
        a, b = l[k]
        l[k] = (b, a) if a != b else (a, (a + 1) % max(n, 2))
        tag = "one-foreign"
    else:
        m = ri(1, n * n + 1)
        idx = rng.choice(n * n, size=m, replace=False)
        l = [f[int(i)] for i in idx]
        tag = "random-subset"
    l = list(l)
    if rng.random() < 0.8 and len(l) > 1:
        perm = rng.permutation(len(l))
        l = [l[int(i)] for i in perm]
        tag += "+permuted"
    return n, l, tag


def brute_infer(l):
    """definition: the multiset of pairs is a permutation of HMC (either orientation) / FMC of
    numelements = max index + 1"""
    n = max(max(a for a, _ in l), max(b for _, b in l)) + 1
    h = sorted((i, j) for i in range(n) for j in range(i, n))
    f = sorted((i, j) for i in range(n) for j in range(n))
    s = sorted(l)
    if s == h or s == sorted((b, a) for a, b in h):
        return "hmc"
    if s == f:
        return "fmc"
    return "unsupported"


pair_cases = []
N_PAIR = 600 if Q else 8000
for _ in range(N_PAIR):
    n, l, tag = gen_pairs()
    if not l:
        continue
    tx = [a for a, _ in l]
    rx = [b for _, b in l]
    idt = "list"
    if rng.random() < 0.6:
        # element indices as stored by acquisition files: any integer dtype that can hold them
        fits = [d for d in (np.int8, np.uint8, np.int16, np.uint16, np.int32, np.uint32, np.int64) if n - 1 <= np.iinfo(d).max]
        d_ = fits[ri(0, len(fits))] if rng.random() < 0.7 else np.int64
        atx, arx = np.array(tx, dtype=d_), np.array(rx, dtype=d_)
        idt = np.dtype(d_).name
    else:
        atx, arx = tx, rx
    chk.count(index_dtype=idt)
    got = ut.infer_capture_method(atx, arx)
    w = ut.default_timetrace_weights(atx, arx)
    wl = [float(x) for x in w]
    want = brute_infer(l)
    if got != want:
        chk.violation("infer:spec", f"infer_capture_method returns {got!r}, the pairs are {want!r} ({tag})",
                      {"tx": tx, "rx": rx, "index_dtype": idt, "got": got, "want": want}, failing_input_found=True)
    ws = set(l)
    wwant = [1.0 if (b, a) in ws else 2.0 for a, b in l]
    if wl != wwant:
        chk.violation("weights:spec", "default_timetrace_weights: weight is not 1 iff the reciprocal pair is present",
                      {"tx": tx, "rx": rx, "index_dtype": idt, "got": wl, "want": wwant}, failing_input_found=True)
    if "hmc" in tag and tag.split("+")[0] in ("hmc", "hmc-mirrored") and sum(wl) != n * n:
        chk.violation("weights:hmc-sum", "default weights of an HMC do not sum to n^2",
                      {"tx": tx, "rx": rx, "got": wl}, failing_input_found=True)
    code = {"hmc": 2, "fmc": 1, "unsupported": 0}.get(got, -7)
    if n <= 16:       # (larger lists are decided by the specification above; the model is run on the others)
        pair_cases.append((l, code, [int(x) if float(x).is_integer() else -99 for x in wl], tag))
    evaluations += 1
    nontrivial.add(("pairs", tuple(l)))
    chk.count(pairs_kind=tag.split("+")[0], infer=got)
# empty input: np.max raises
try:
    ut.infer_capture_method([], [])
    chk.violation("infer:empty", "infer_capture_method([], []) does not raise", {"tx": [], "rx": []}, False)
except ValueError:
    pass
pair_cases.append(([], -1, [], "empty"))
fails = chk.coq_failing(
    "cases_pairs", IMPORTS, "list (Z * Z) * Z * list Z",
    [cpair(clist(l, cZp), cZ(code), clist(w, cZ)) for (l, code, w, _) in pair_cases],
    "fun c : list (Z * Z) * Z * list Z => let '(l, code, w) := c in (infer_z l =? code)%Z && list_eqb Z.eqb (weights_z l) w")
for k in fails[:5]:
    l, code, w, tag = pair_cases[k]
    chk.violation("pairs:model", f"infer_capture_method / default_timetrace_weights differ from the model ({tag})",
                  {"correspondence": "Model.Frame.infer_capture_method / default_timetrace_weights",
                   "pairs": l, "impl_infer_code": code, "impl_weights": w}, failing_input_found=False)
# the length check of default_timetrace_weights
for (a, b) in ((3, 2), (0, 1), (4, 4)):
    try:
        ut.default_timetrace_weights(list(range(a)), list(range(b)))
        raised = False
    except ValueError:
        raised = True
    if raised != (a != b):
        chk.violation("weights:len", "default_timetrace_weights length check", {"len_tx": a, "len_rx": b}, True)


lap("enum_pairs")
# ---------------------------------------------------------------------------
# (3) frames, probes, chains
# ---------------------------------------------------------------------------
TIME = arim.Time(0.0, 1.0, 3)
SHAPES = [core.ElementShape.ellipse, core.ElementShape.rectangular, core.ElementShape.other]


def make_probe(labels, variant):
    lab = np.asarray(labels, float)
    n = len(labels)
    loc = g.Points(np.stack([lab, 2 * lab + 1, -lab], axis=1).reshape(n, 3))
    kw = {}
    if variant & 1:
        kw["orientations"] = g.Points(np.stack([lab, -lab, np.full(n, 7.0)], axis=1).reshape(n, 3))
    if variant & 2:
        kw["dimensions"] = g.Points(np.stack([lab + 0.5, np.ones(n), lab], axis=1).reshape(n, 3))
    if variant & 4:
        kw["shapes"] = [SHAPES[int(x) % 3] for x in labels]
    if variant & 8:
        kw["dead_elements"] = [bool(int(x) % 2) for x in labels]
    if variant & 16:
        # a probe that has been positioned: its own coordinate system (PCS) differs from the global one
        # (rotated basis, displaced origin); the element locations handed to Probe stay the global ones
        kw["pcs"] = g.CoordinateSystem(origin=(3.0, -2.0, 5.0), i_hat=(0.0, 1.0, 0.0), j_hat=(0.0, 0.0, 1.0))
    return core.Probe(loc, 1e6, **kw)


def probe_labels(pr, dead, where, replay):
    """decode the element labels; every per-element attribute must tell the same story"""
    c = pr.locations.coords.reshape(-1, 3)
    lab = [int(x) for x in c[:, 0]]
    ok = (np.array_equal(c[:, 1], 2 * c[:, 0] + 1) and np.array_equal(c[:, 2], -c[:, 0])
          and pr.numelements == len(lab))
    if pr.orientations is not None:
        o = pr.orientations.coords.reshape(-1, 3)
        ok = ok and o.shape[0] == len(lab) and np.array_equal(o[:, 0], c[:, 0]) and np.array_equal(o[:, 1], -c[:, 0])
    if pr.dimensions is not None:
        d = pr.dimensions.coords.reshape(-1, 3)
        ok = ok and d.shape[0] == len(lab) and np.array_equal(d[:, 0], c[:, 0] + 0.5) and np.array_equal(d[:, 2], c[:, 0])
    if pr.shapes is not None:
        ok = ok and len(pr.shapes) == len(lab) and all(pr.shapes[i] == SHAPES[lab[i] % 3] for i in range(len(lab)))
    ok = ok and len(pr.dead_elements) == len(lab)
    if ok and dead:
        ok = all(bool(pr.dead_elements[i]) == bool(lab[i] % 2) for i in range(len(lab)))
    if not ok:
        chk.violation("probe:attributes", f"per-element attributes of the probe disagree after {where}",
                      dict(replay, locations=c.tolist()), failing_input_found=True)
    return lab


def frame_rows(fr, where, replay):
    """(tx, rx, p) per timetrace; the three samples of a row must be p*[1,2,3]"""
    tt = np.asarray(fr.timetraces)
    tx = [int(x) for x in fr.tx]
    rx = [int(x) for x in fr.rx]
    if tt.shape[0]:
        col = tt[:, 0]
        ok = np.array_equal(tt[:, 1], 2 * col) and np.array_equal(tt[:, 2], 3 * col) and np.all(np.imag(col) == 0)
    else:
        ok = True
        col = np.zeros(0)
    ok = ok and tt.shape == (len(tx), 3) and len(tx) == len(rx) == fr.numtimetraces
    pv = [float(np.real(x)) for x in col]
    if not ok or any(not x.is_integer() for x in pv):
        chk.violation("frame:rows", f"samples of a timetrace are not one recorded row after {where}",
                      dict(replay, timetraces=np.real(tt).tolist()), failing_input_found=True)
        pv = [float(int(x)) for x in pv]
    return list(zip(tx, rx, [int(x) for x in pv]))


def gen_frame_pairs(n):
    if n > 12:
        m = ri(20, 90)
        l = list(dict.fromkeys((ri(0, n), ri(0, n)) for _ in range(m)))
        l += [(b, a) for (a, b) in l[:ri(0, len(l))] if (b, a) not in l]
        return l, "large-sparse"
    f = [(i, j) for i in range(n) for j in range(n)]
    h = [(i, j) for i in range(n) for j in range(i, n)]
    r = rng.random()
    if r < 0.2:
        l, tag = f, "fmc"
    elif r < 0.4:
        l, tag = h, "hmc"
    elif r < 0.5:
        l, tag = [(b, a) for a, b in h], "hmc-mirrored"
    elif r < 0.6:
        l, tag = [(b, a) if rng.random() < 0.5 else (a, b) for a, b in h], "hmc-mixed"
    else:
        m = ri(0, n * n + 1) if rng.random() < 0.3 else ri(max(1, n), n * n + 1)
        idx = rng.choice(n * n, size=m, replace=False)
        l, tag = [f[int(i)] for i in idx], "subset"
    l = list(l)
    if rng.random() < 0.6 and len(l) > 1:
        perm = rng.permutation(len(l))
        l = [l[int(i)] for i in perm]
        tag += "+permuted"
    return l, tag


def gen_index(n, allow_bad=True):
    """a numpy index on an axis of length n.  Returns (index object, kind, model list, raw)
    model list: integers handed to the model (raw integer list, or arange(n)[idx])."""
    r = rng.random()
    if r < 0.25:
        def ends():
            x = rng.random()
            if x < 0.55:
                return None
            return ri(-n - 2, n + 3)
        step = [None, 1, -1, 2, -2, 3, -3][ri(0, 7)]
        idx = slice(ends(), ends(), step)
        return idx, "slice" + ("-neg" if (step or 1) < 0 else "-pos"), [int(x) for x in np.arange(n)[idx]]
    if r < 0.45:
        p = [0.5, 0.8, 0.9, 0.7, 0.2, 1.0, 0.0][int(rng.choice(7, p=[.2, .25, .2, .2, .05, .05, .05]))]
        mask = rng.random(n) < p
        idx = mask if rng.random() < 0.7 else [bool(x) for x in mask]
        if n == 0 and not isinstance(idx, np.ndarray):
            idx = mask
        return idx, "mask", [int(x) for x in np.arange(n)[mask]]
    # integer lists
    if n == 0:
        return [], "intlist-empty", []
    m = ri(0, n + 1) if rng.random() < 0.15 else ri(max(1, (2 * n) // 3), n + 1)
    l = [int(x) for x in rng.choice(n, size=m, replace=False)]
    kind = "intlist"
    if rng.random() < 0.5:
        l = [x - n if rng.random() < 0.5 else x for x in l]
        kind = "intlist-negative"
    bad = rng.random()
    if allow_bad and bad < 0.05 and l:
        l.insert(ri(0, len(l) + 1), l[ri(0, len(l))] if rng.random() < 0.5 else (l[ri(0, len(l))] + n) % n)
        kind = "intlist-repeated"
    elif allow_bad and bad < 0.09:
        l.insert(ri(0, len(l) + 1), [n, n + 3, -n - 1, -n - 4][ri(0, 4)])
        kind = "intlist-out-of-range"
    if sorted(x % n for x in l if -n <= x < n) == l and kind == "intlist" and len(l) > 1 and rng.random() < 0.5:
        l = l[::-1]
    if not l:
        idx = [] if rng.random() < 0.5 else np.array([], dtype=int)
    else:
        idx = l if rng.random() < 0.5 else np.array(l, dtype=[np.int64, np.int32, np.intp][ri(0, 3)])
    return idx, kind, list(l)


def describe_index(idx):
    if isinstance(idx, slice):
        return {"slice": [idx.start, idx.stop, idx.step]}
    if isinstance(idx, np.ndarray):
        return {"array": idx.tolist(), "dtype": str(idx.dtype)}
    return {"list": list(idx)}




chain_cases = []      # (labels, rows, zops, observed states, replay)
op_hist = {}
N_CHAINS = 3000 if Q else 100000
n_steps = 0
n_err_steps = 0
def one_chain(ci, ctx, plan=None):
    global n_steps, n_err_steps, evaluations
    n = [1, 2, 3, 4, 5, 6, 7, 8, 10, 12][int(rng.choice(10, p=[.04, .1, .14, .16, .16, .14, .1, .08, .05, .03]))]
    if rng.random() < 0.012:
        n = [33, 64, 130, 260][ri(0, 4)]      # beyond int8 / the usual array sizes
    if plan:
        n = plan["n"]
    labels = [int(x) for x in rng.choice(np.arange(1, 900), size=n, replace=False)]
    variant = ri(0, 32)
    pr0 = make_probe(labels, variant)
    pr0_dead = bool(variant & 8)
    pairs, ftag = gen_frame_pairs(n)
    if plan:
        pairs, ftag = list(plan["pairs"]), "systematic"
    dtype = [np.float64, np.float64, np.complex128, np.float32, np.int64][ri(0, 5)]
    p0 = [labels[a] * B + labels[b] for a, b in pairs]
    tt = (np.array(p0, dtype=np.float64).reshape(-1, 1) * np.array([1.0, 2.0, 3.0])).astype(dtype).reshape(len(pairs), 3)
    txa = np.array([a for a, _ in pairs], dtype=[np.int64, np.int32, np.uint16][ri(0, 3)])
    rxa = np.array([b for _, b in pairs], dtype=txa.dtype)
    fr = core.Frame(tt, TIME, txa, rxa, pr0, None)
    recorded = {labels[a] * B + labels[b] for a, b in pairs}   # the physical pairs that were recorded
    nops = ri(1, 7)
    if plan:
        nops = len(plan["ops"])
    zops, fops, obs, opdesc = [], [], [], []
    replay = {"labels": labels, "pairs": pairs, "probe_variant": variant, "dtype": np.dtype(dtype).name, "ops": opdesc}
    ctx["replay"] = replay
    state_lab = labels
    state_rows = [(a, b, p) for (a, b), p in zip(pairs, p0)]
    scale = 1
    expanded = False
    cur = fr
    for k in range(nops):
        r = rng.random()
        forced = plan["ops"][k] if plan else None
        if forced:
            r = {"subframe": 0.0, "elements": 0.5, "expand": 0.8, "filter": 0.95}[forced[0]]
        in_lab, in_rows = state_lab, state_rows
        in_snapshot = (cur.tx.copy(), cur.rx.copy(), np.array(cur.timetraces, copy=True))
        if r < 0.27:
            idx, kind, ml = forced[1:4] if forced else gen_index(len(in_rows))
            if ml is None:
                ml = [int(x) for x in np.arange(len(in_rows))[idx]]
            opname = "subframe"
            zop = f"ZSubframe {clist(ml, cZ)}"
            fop = [0, len(ml)] + ml
            opdesc.append({"op": opname, "index": describe_index(idx)})
            call = lambda: cur.subframe(idx)
        elif r < 0.72:
            idx, kind, ml = forced[1:4] if forced else gen_index(len(in_lab))
            if ml is None:
                ml = [int(x) for x in np.arange(len(in_lab))[idx]]
            mk = forced[4] if forced else bool(rng.random() < 0.6)
            opname = "elements-subprobe" if mk else "elements"
            zop = f"ZElements {clist(ml, cZ)} {cbool(mk)}"
            fop = [1, int(mk), len(ml)] + ml
            opdesc.append({"op": opname, "index": describe_index(idx), "make_subprobe": mk})
            call = (lambda: cur.subframe_from_probe_elements(idx, make_subprobe=mk)) if rng.random() < 0.8 or not mk \
                else (lambda: cur.subframe_from_probe_elements(idx))
        elif r < 0.87:
            opname, kind, idx, ml = "expand", "-", None, None
            zop = "ZExpand"
            fop = [2]
            opdesc.append({"op": opname})
            call = lambda: cur.expand_frame_assuming_reciprocity()
        else:
            cands = [2, -1] if cur.timetraces.dtype == np.float32 else [2, -1, 3]
            c = forced[1] if forced else cands[ri(0, len(cands))]
            opname, kind, idx, ml = "filter", f"x{c}", None, None
            zop = f"ZFilter {cZ(c)}"
            fop = [3, c]
            opdesc.append({"op": opname, "factor": c})
            call = lambda: cur.apply_filter(lambda x: x * x.dtype.type(c))
        try:
            new = call()
            err = None
        except Exception as e:  # IndexError / ValueError are modelled; anything else is reported below
            new, err = None, type(e).__name__
        zops.append(zop)
        fops.append(fop)
        n_steps += 1
        evaluations += 1
        chk.count(op=opname, index_kind=kind)
        op_hist[opname] = op_hist.get(opname, 0) + 1
        # the input frame must not have been modified
        if not (np.array_equal(in_snapshot[0], cur.tx) and np.array_equal(in_snapshot[1], cur.rx)
                and np.array_equal(in_snapshot[2], cur.timetraces)):
            chk.violation("chain:input-modified", f"{opname} modified the frame it was called on", dict(replay, step=k), True)
        # spec: an error is expected exactly for an out-of-range index (IndexError) or a repeated
        # timetrace index (ValueError: duplicate timetraces)
        expected = None
        if ml is not None:
            axis = len(in_rows) if opname == "subframe" else len(in_lab)
            if any(not (-axis <= x < axis) for x in ml):
                expected = "IndexError"
            elif opname == "subframe" and axis and len({x % axis for x in ml}) < len(ml):
                expected = "ValueError"
        if err != expected:
            chk.violation(f"chain:{opname}:raises",
                          f"{opname} raises {err} on a valid input" if err else
                          f"{opname} accepts an input that must raise {expected}",
                          dict(replay, step=k, error=err, expected=expected), failing_input_found=True)
        if err is not None:
            n_err_steps += 1
            obs.append(None)
            chk.count(step_result=err)
            break
        where = f"step {k} ({opname})"
        out_lab = probe_labels(new.probe, pr0_dead, where, dict(replay, step=k))
        out_rows = frame_rows(new, where, dict(replay, step=k))
        obs.append((out_lab, out_rows))
        chk.count(step_result="ok")
        # ---- spec predicates, evaluated on the implementation's output -------------
        viol = None
        if opname == "subframe":
            sel = [x % len(in_rows) for x in ml] if in_rows else []
            if out_rows != [in_rows[i] for i in sel] or out_lab != in_lab:
                viol = "subframe does not keep exactly the selected timetraces with their (tx, rx, data)"
        elif opname.startswith("elements"):
            E = [x % len(in_lab) for x in ml] if in_lab else []
            keep = [(a, b, p) for (a, b, p) in in_rows if a in E and b in E]
            phys_in = [(in_lab[a], in_lab[b], p) for (a, b, p) in keep]
            try:
                phys_out = [(out_lab[a], out_lab[b], p) for (a, b, p) in out_rows]
            except IndexError:
                phys_out = None
            if phys_out != phys_in:
                viol = ("subframe_from_probe_elements does not keep exactly the timetraces whose both elements are "
                        "retained, attached to elements at the same physical locations")
            elif opname == "elements-subprobe" and out_lab != [in_lab[e] for e in E]:
                viol = "sub-probe elements are not the retained elements in the order of the index"
            elif opname == "elements-subprobe" and any(E[a] != a0 or E[b] != b0 for (a, b, _), (a0, b0, _) in zip(out_rows, keep)):
                viol = "E[new index] != old index"
            elif opname == "elements" and (out_lab != in_lab or out_rows != keep):
                viol = "without sub-probe the element indices / probe must be unchanged"
        elif opname == "expand":
            d = {(a, b): p for (a, b, p) in in_rows}
            union = sorted(set(d) | {(b, a) for (a, b) in d})
            if set(d) == {(b, a) for (a, b) in d}:
                want_rows = in_rows
            else:
                want_rows = [(a, b, d[(a, b)] if (a, b) in d else d[(b, a)]) for (a, b) in union]
            if out_rows != want_rows or out_lab != in_lab:
                viol = "expand is not the sorted union of pairs and mirrors carrying the recorded pair's data"
            if not new.is_complete_assuming_reciprocity():
                viol = "expanded frame is not complete assuming reciprocity"
            again = new.expand_frame_assuming_reciprocity()
            if frame_rows(again, where, replay) != out_rows:
                viol = "expand is not idempotent"
            expanded = True
        else:
            scale *= c
            if out_rows != [(a, b, c * p) for (a, b, p) in in_rows] or out_lab != in_lab:
                viol = "apply_filter changed tx/rx or mixed rows"
        # the attribution invariant itself
        for (a, b, p) in out_rows:
            q, rem = divmod(p, scale)
            okrow = rem == 0 and q in recorded and 0 <= a < len(out_lab) and 0 <= b < len(out_lab)
            if okrow:
                direct = q == out_lab[a] * B + out_lab[b]
                mirror = q == out_lab[b] * B + out_lab[a]
                okrow = direct or (expanded and mirror)
            if not okrow and viol is None:
                viol = (f"timetrace labelled ({a},{b}) carries data recorded between other physical elements "
                        f"(code {p}/{scale})")
        if viol:
            chk.violation(f"chain:{opname}:spec", viol,
                          dict(replay, step=k, in_state=[in_lab, in_rows], out_state=[out_lab, out_rows]),
                          failing_input_found=True)
        # cheap extra observers on some steps
        if rng.random() < 0.15 and out_rows:
            a, b, p = out_rows[ri(0, len(out_rows))]
            try:
                gt = int(np.real(new.get_timetrace(a, b)[0]))
            except IndexError:
                gt = None
            if gt != p:
                chk.violation("get_timetrace:spec", "get_timetrace returns another row", dict(replay, step=k, tx=a, rx=b), True)
        state_lab, state_rows = out_lab, out_rows
        cur = new
        nontrivial.add((opname, kind, len(in_lab), len(in_rows), len(out_rows)))
    chain_cases.append((labels, [(a, b, p) for (a, b), p in zip(pairs, p0)], zops, obs, replay, fops))
    chk.count(chain_len=len(zops), numelements=n, frame_kind=ftag.split("+")[0])


def systematic_plans():
    """boundary families, exhaustive on small sizes (single-operation chains)"""
    def frames(n):
        f = [(i, j) for i in range(n) for j in range(n)]
        h = [(i, j) for i in range(n) for j in range(i, n)]
        return [f, h, [(b, a) for a, b in h], [(a, b) for (a, b) in f if (2 * a + b) % 3 != 0][::-1]]

    def all_slices(n, steps):
        ends = [None] + list(range(-n - 1, n + 2))
        for a in ends:
            for b in ends:
                for st in steps:
                    sl = slice(a, b, st)
                    yield sl, "slice" + ("-neg" if (st or 1) < 0 else "-pos"), [int(x) for x in np.arange(n)[sl]]

    nmax = 4 if Q else 5
    for n in range(1, nmax + 1):
        for fi, pairs in enumerate(frames(n)):
            # every duplicate-free ordered list of elements, as an integer list
            for k in range(0, n + 1):
                for E in itertools.permutations(range(n), k):
                    for mk in (True, False):
                        E2 = [e - n if (e + k + fi) % 3 == 0 else e for e in E]      # some written negatively
                        idx = list(E2) if (k + fi) % 2 else np.array(E2, dtype=int)
                        yield {"n": n, "pairs": pairs, "ops": [("elements", idx, "intlist-systematic", list(E2), mk)]}
            # every boolean mask
            for bits in itertools.product([False, True], repeat=n):
                for mk in (True, False):
                    m = np.array(bits, dtype=bool)
                    yield {"n": n, "pairs": pairs,
                           "ops": [("elements", m, "mask-systematic", [int(x) for x in np.arange(n)[m]], mk)]}
    # every slice (all signs of the step) on the elements of a 4-element probe ...
    for n in ([4] if Q else [3, 4, 5]):
        f = [(i, j) for i in range(n) for j in range(n)]
        for j, (sl, kind, ml) in enumerate(all_slices(n, [None, 1, -1, 2, -2, 3, -3])):
            yield {"n": n, "pairs": f, "ops": [("elements", sl, kind + "-systematic", ml, j % 2 == 0)]}
    # ... and on the timetraces of a 4- / 6-row frame
    for n, steps in ([(2, [1, -1, -2])] if Q else [(2, [None, 1, -1, 2, -2, 3, -3]), (3, [1, -1, 2, -3])]):
        f = [(i, j) for i in range(n) for j in range(n)] if n == 2 else [(i, j) for i in range(n) for j in range(i, n)]
        for sl, kind, ml in all_slices(len(f), steps):
            yield {"n": n, "pairs": f, "ops": [("subframe", sl, kind + "-systematic", ml)]}


def guarded_chain(ci, plan=None):
    ctx = {}
    try:
        one_chain(ci, ctx, plan)
    except Exception as e:  # the harness could not even observe the result
        import traceback
        chk.violation('chain:exception', f'unexpected {type(e).__name__} while running / observing a chain: {e}',
                      dict(ctx.get('replay', {}), traceback=traceback.format_exc()[-1500:]), failing_input_found=True)


def corpus_plans():
    import glob
    import json
    import os
    for path in sorted(glob.glob(os.path.join("/verif/corpus/C15", "*.json"))):
        for ch in json.load(open(path))["chains"]:
            ops = []
            axis = ch["n"]
            for o in ch["ops"]:
                if o["op"] in ("expand",):
                    ops.append(("expand",))
                elif o["op"] == "filter":
                    ops.append(("filter", int(o["c"])))
                else:
                    if "slice" in o:
                        idx, kind, ml = slice(*o["slice"]), "corpus-slice", None
                    elif "mask" in o:
                        idx, kind, ml = np.array(o["mask"], dtype=bool), "corpus-mask", None
                    else:
                        idx, kind, ml = [int(x) for x in o["list"]], "corpus-intlist", [int(x) for x in o["list"]]
                    ops.append((o["op"], idx, kind, ml) + ((bool(o["mk"]),) if o["op"] == "elements" else ()))
            yield {"n": ch["n"], "pairs": [tuple(p) for p in ch["pairs"]], "ops": ops}


n_corpus = 0
for plan in corpus_plans():
    guarded_chain(-2, plan)
    n_corpus += 1

n_systematic = 0
for plan in systematic_plans():
    guarded_chain(-1, plan)
    n_systematic += 1
lap("chains_systematic_python")

for ci in range(N_CHAINS):
    guarded_chain(ci)

lap("chains_python")


def flat_state(lab, rows):
    out = [len(lab)] + list(lab) + [len(rows)]
    for (a, b, p) in rows:
        out += [a, b, p]
    return out


def flat_case(lab, rows, fops, obs):
    out = flat_state(lab, rows) + [len(fops)]
    for fop in fops:
        out += fop
    out.append(len(obs))
    for o in obs:
        out += [0] if o is None else [1] + flat_state(o[0], o[1])
    return "[" + "; ".join(str(int(x)) for x in out) + "]"


# one flat list of integers per chain, decoded by Model.Frame.chain_check_flat.
# (a) every chain through the extracted model (OCaml driver: volume);
# (b) the same check by vm_compute inside coqc (kernel evaluation of the very same term) on
#     every chain in the quick tier, on a shard of 3000 chains + every chain the driver
#     rejects in the thorough tier.  (a) and (b) must agree.
import arimgen  # noqa: E402
flat = [flat_case(lab, rows, fops, obs) for (lab, rows, _, obs, _, fops) in chain_cases]
drv = arimgen.Driver(chk.ocaml_driver("C15"))
outs = drv.run([f[1:-1].replace(";", "") for f in flat], timeout=1500)
fails_drv = [k for k, o in enumerate(outs) if o.strip() != "1"]
lap("chains_ocaml")
in_coq = list(range(len(flat))) if Q else sorted(set(range(min(3000, len(flat)))) | set(fails_drv[:50]))
fails_coq = [in_coq[i] for i in chk.coq_failing(
    "cases_chain", IMPORTS + "\nLocal Open Scope Z_scope.", "list Z",
    [flat[k] for k in in_coq], "chain_check_flat", shard=250, jobs=8)]
if sorted(set(fails_drv) & set(in_coq)) != sorted(fails_coq):
    chk.violation("chain:driver-vs-coqc", "the extracted OCaml model and vm_compute disagree on chain cases",
                  {"correspondence": "Extract/C15.v + ocaml/C15/driver.ml vs coqc", "driver_fails": fails_drv[:20],
                   "coqc_fails": fails_coq[:20]}, failing_input_found=False)
fails = sorted(set(fails_drv) | set(fails_coq))
chk.cov["model_cases_evaluated_by_extracted_driver"] = len(flat)
for k in fails[:5]:
    lab, rows, zops, obs, replay, _ = chain_cases[k]
    try:
        diag = chk.coq_values("diag_chain", IMPORTS, [
            f"trace_z {clist(zops)} ({clist(lab, cZ)}, zframe_in {clist(rows, cZ3)})"])[-1500:]
    except Exception as e:  # diagnostics only
        diag = repr(e)
    chk.violation("chain:model", "a chain of frame operations differs from Model.Frame (tx / rx / payload / probe labels)",
                  dict(replay, correspondence="Model.Frame.trace_z (step / run)", impl_states=obs, zops=zops, model=diag),
                  failing_input_found=False)
lap("chains_coq")
if chain_cases:
    c = chain_cases[min(5, len(chain_cases) - 1)]
    samples.append({"chain": {"labels": c[0], "ops": c[4]["ops"], "final_state": c[3][-1] if c[3] else None}})


# ---------------------------------------------------------------------------
# (4) constructor duplicate check, get_timetrace, is_complete, capture_method
# ---------------------------------------------------------------------------
misc_cases = []
N_MISC = 400 if Q else 5000
# frames that DECLARE their capture method in the metadata (as acquisition files do): frames derived from them must be
# recognised for what they hold, not for what their parent declared
for n in (2, 3, 4):
    labels = list(range(1, n + 1))
    pr = make_probe(labels, 0)
    for declared, (ptx, prx) in (("hmc", ut.hmc(n)), ("fmc", ut.fmc(n))):
        ptx, prx = np.asarray(ptx), np.asarray(prx)
        tt = np.arange(len(ptx) * 3, dtype=float).reshape(len(ptx), 3)
        for meta_val in (declared, core.CaptureMethod[declared]):
            fr0 = core.Frame(tt, TIME, ptx, prx, pr, None, metadata={"capture_method": meta_val})
            derived = [("expand_frame_assuming_reciprocity", fr0.expand_frame_assuming_reciprocity()),
                       ("subframe(tx <= rx)", fr0.subframe(np.nonzero(ptx <= prx)[0])),
                       ("subframe(all but the first)", fr0.subframe(np.arange(1, len(ptx)))),
                       ("subframe_from_probe_elements(all but the last)", fr0.subframe_from_probe_elements(np.arange(n - 1), make_subprobe=False))]
            for opn, d_ in derived:
                if len(d_.tx) == 0:
                    continue
                want_ = ut.infer_capture_method(np.asarray(d_.tx), np.asarray(d_.rx))
                got_ = d_.capture_method.name if hasattr(d_.capture_method, "name") else str(d_.capture_method)
                evaluations += 1
                chk.count(declared_capture_method=declared)
                if got_ != want_:
                    chk.violation("capture_method:derived", f"a frame declared '{declared}' in its metadata, after {opn}, reports capture method "
                                  f"{got_!r} although it holds a {want_!r} set of pairs",
                                  {"n": n, "declared": declared, "operation": opn, "tx": np.asarray(d_.tx), "rx": np.asarray(d_.rx),
                                   "reported": got_, "actual": want_}, True)
for _ in range(N_MISC):
    n = ri(1, 7)
    labels = list(range(1, n + 1))
    pr = make_probe(labels, 0)
    m = ri(0, 2 * n + 3)
    l = [(ri(0, n), ri(0, n)) for _ in range(m)]
    if rng.random() < 0.6:
        l = list(dict.fromkeys(l))
    rows = [(a, b, 100 + i) for i, (a, b) in enumerate(l)]
    tt = np.array([[p, 2 * p, 3 * p] for (_, _, p) in rows], float).reshape(len(rows), 3)
    txa = np.array([a for a, _ in l], int)
    rxa = np.array([b for _, b in l], int)
    try:
        fr = core.Frame(tt, TIME, txa, rxa, pr, None)
        ok = True
    except ValueError:
        ok = False
    if ok != (len(set(l)) == len(l)):
        chk.violation("init:dup", "Frame.__init__ duplicate check", {"tx": txa, "rx": rxa, "accepted": ok}, True)
    if not ok:
        # build it anyway (attributes are plain arrays) to exercise get_timetrace on duplicates
        u = list(dict.fromkeys(l))
        fr = core.Frame(tt[:len(u)], TIME, np.array([a for a, _ in u], int), np.array([b for _, b in u], int), pr, None)
        fr.timetraces, fr.tx, fr.rx = tt, txa, rxa
    t, r = (ri(0, n), ri(0, n)) if rng.random() < 0.4 or not l else l[ri(0, len(l))]
    try:
        got = int(fr.get_timetrace(t, r)[0])
    except IndexError:
        got = None
    cnt = l.count((t, r))
    if (got is None) != (cnt != 1) or (got is not None and got != rows[l.index((t, r))][2]):
        chk.violation("get_timetrace:spec", "get_timetrace must return the unique row of the pair or raise",
                      {"tx": txa, "rx": rxa, "ask": [t, r], "got": got}, True)
    comp = bool(fr.is_complete_assuming_reciprocity())
    if comp != (set(l) == {(b, a) for a, b in l}):
        chk.violation("is_complete:spec", "is_complete_assuming_reciprocity", {"tx": txa, "rx": rxa, "got": comp}, True)
    if l:
        cm = fr.capture_method.name
        if cm != ut.infer_capture_method(txa, rxa):
            chk.violation("capture_method", "Frame.capture_method differs from infer_capture_method", {"tx": txa, "rx": rxa}, True)
    misc_cases.append((rows, ok, t, r, got, comp))
    evaluations += 1
    nontrivial.add(("misc", tuple(l), t, r))
    chk.count(misc="dup" if not ok else "nodup")
fails = chk.coq_failing(
    "cases_misc", IMPORTS, "list zentry * bool * Z * Z * option Z * bool",
    [cpair(clist(rows, cZ3), cbool(ok), cZ(t), cZ(r), copt(got, cZ), cbool(comp)) for (rows, ok, t, r, got, comp) in misc_cases],
    "fun c : list zentry * bool * Z * Z * option Z * bool => let '(f, ok, t, r, got, comp) := c in Bool.eqb (mk_frame_ok_z f) ok && "
    "option_eqb Z.eqb (get_timetrace_z f t r) got && Bool.eqb (is_complete_z f) comp")
for k in fails[:5]:
    rows, ok, t, r, got, comp = misc_cases[k]
    chk.violation("misc:model", "duplicate check / get_timetrace / is_complete differ from the model",
                  {"correspondence": "Model.Frame.mk_frame / get_timetrace / is_complete", "rows": rows,
                   "impl": {"accepted": ok, "ask": [t, r], "got": got, "complete": comp}}, failing_input_found=False)

# ---- large arrays (more elements than an 8-bit index can number) with transmitters and receivers stored in DIFFERENT
#      integer types (a few transmitters as uint8, all receivers as int64), sub-apertures by mask / slice / reversed slice:
#      every kept timetrace keeps its samples and its two PHYSICAL elements; also under a small NumPy print threshold (global
#      print state) with two different index arrays on the same probe
for t_ in range(4 if Q else 30):
    ne_ = int(rng.choice([300, 520, 1100])) if t_ % 2 == 0 else int(rng.integers(20, 60))
    probe_ = arim.Probe.make_matrix_probe(ne_, 0.25e-3, 1, np.nan, 5e6)
    ntt_ = 40
    tx_ = rng.integers(0, min(ne_, 250), ntt_)
    rx_ = rng.integers(0, ne_, ntt_)
    _, uniq_ = np.unique(np.stack([tx_, rx_]), axis=1, return_index=True)
    tx_, rx_ = tx_[np.sort(uniq_)], rx_[np.sort(uniq_)]
    tt_ = rng.standard_normal((len(tx_), 6))
    frame_ = arim.Frame(tt_.copy(), arim.Time(0.0, 1e-7, 6), tx_.astype(np.uint8), rx_.astype(np.int64), probe_, None)
    drop_a, drop_b = int(rng.integers(1, ne_ - 1)), int(rng.integers(1, ne_ - 1))
    idxs_ = []
    for drop_ in (drop_a, drop_b):
        m_ = np.ones(ne_, bool)
        m_[drop_] = False
        idxs_.append(("mask without element %d" % drop_, m_, np.flatnonzero(m_)))
    idxs_.append(("reversed slice", slice(None, None, -1), np.arange(ne_)[::-1]))
    import contextlib as _ctx
    with (np.printoptions(threshold=5) if t_ % 2 == 1 else _ctx.nullcontext()):
        subs_ = [(nm_, frame_.subframe_from_probe_elements(ix_), E_) for nm_, ix_, E_ in idxs_]
    evaluations += len(subs_)
    chk.count(large_array_subaperture=f"{ne_} elements, tx uint8 / rx int64" + (", print threshold 5" if t_ % 2 == 1 else ""))
    for nm_, sf_, E_ in subs_:
        keep_ = np.isin(tx_, E_) & np.isin(rx_, E_)
        ok_ = sf_.numtimetraces == int(keep_.sum()) and sf_.probe.numelements == len(E_)
        if ok_:
            new_tx, new_rx = np.asarray(sf_.tx).astype(np.int64), np.asarray(sf_.rx).astype(np.int64)
            ok_ = bool(np.all((new_tx >= 0) & (new_tx < len(E_)) & (new_rx >= 0) & (new_rx < len(E_)))) \
                and np.array_equal(E_[new_tx], tx_[keep_]) and np.array_equal(E_[new_rx], rx_[keep_]) \
                and np.array_equal(np.asarray(sf_.timetraces), tt_[keep_]) \
                and np.array_equal(np.asarray(sf_.probe.locations.coords), np.asarray(probe_.locations.coords)[E_])
        if not ok_:
            chk.violation("large-array-subaperture", f"subframe_from_probe_elements ({nm_}) on a {ne_}-element array with tx stored as uint8 and rx as int64: "
                          "a kept timetrace does not keep its samples and its two physical elements",
                          dict(numelements=ne_, index=nm_, tx=tx_, rx=rx_, new_tx=np.asarray(sf_.tx), new_rx=np.asarray(sf_.rx),
                               print_threshold=5 if t_ % 2 == 1 else "default"), failing_input_found=True)
            break

# ---- the glue model of the public functions (Model files added later, see manifest text) tied to the library on every run:
#      inputs generated here, the library run on them, the model evaluated on the same inputs by vm_compute inside coqc
import ties.tie_C15 as _tie_glue  # noqa: E402
_tie_n = _tie_glue.run(chk, arim, rng, Q)
chk.cov["glue_model_tie_comparisons"] = int(_tie_n or 0)

chk.finish(
    evaluations=evaluations,
    distinct_nontrivial=len(nontrivial),
    rule=("one evaluation = one operation of a chain (or one fmc/hmc/infer+weights/misc case); distinct = distinct "
          "(operation, index kind, #elements, #timetraces in, #timetraces out) for chain steps, distinct pair lists for "
          "infer/weights, distinct (n) for fmc/hmc; every counted chain step ran on a real arim.Frame"),
    samples=samples,
    extra={"chains": len(chain_cases), "systematic_single_op_chains": n_systematic, "corpus_chains": n_corpus, "chain_steps": n_steps, "chain_steps_raising": n_err_steps,
           "ops": op_hist, "exhaustive": False, "laps_s": LAPS},
    assumptions=["apply_filter: the filter acts row by row (premise of chain_attribution); the harness uses scalar multiples"],
)
