"""Shared machinery of the /verif checks (run by /venv/bin/python).

One check = one `harness/prop_Cxx.py` using the `Check` class below:

    chk = Check("C13", design_ref="DESIGN.md §5 C13")
    chk.proofs()                      # Coq build + Print Assumptions + hygiene
    arim = chk.import_arim()          # arim from /repo/src, with the numpy shim
    ... generate cases from chk.rng, run implementation and model ...
    chk.count(kind="...")             # input-distribution histogram
    chk.violation(key, what, replay, failing_input_found=True)
    chk.finish(evaluations=..., distinct_nontrivial=..., rule=..., samples=[...])

Exit status and output lines follow the interface of the task brief:
exit 0 when the property held on everything explored, exit 1 with
`VIOLATION property=<id> replay=<path>` otherwise; entries of
/verif/known_findings.txt marked `known:` print `KNOWN-FINDING:` instead.
"""
import argparse
import fractions
import hashlib
import json
import os
import re
import subprocess
import sys
import time

VERIF = "/verif"
REPO = "/repo"
WORK = os.path.join(VERIF, ".work")
COQ = os.path.join(VERIF, "coq")
THEORIES = os.path.join(COQ, "theories")

# Axioms a theorem may depend on: all are declared by Coq's standard library
# (none by this development).  Anything else under Print Assumptions makes the
# obligation count as NOT discharged.
AXIOM_WHITELIST = {
    "ClassicalDedekindReals.sig_forall_dec",
    "ClassicalDedekindReals.sig_not_dec",
    "FunctionalExtensionality.functional_extensionality_dep",
    "Classical_Prop.classic",
    "Eqdep.Eq_rect_eq.eq_rect_eq",
    "ProofIrrelevance.proof_irrelevance",
    "ClassicalEpsilon.constructive_indefinite_description",
    "IndefiniteDescription.constructive_indefinite_description",
    "Epsilon.epsilon_statement",
    "PropExtensionality.propositional_extensionality",
    "ClassicalFacts.prop_extensionality",
    "JMeq.JMeq_eq",
    "ClassicalUniqueChoice.dependent_unique_choice",
    "Description.constructive_definite_description",
}

FORBIDDEN = re.compile(
    r"\b(Admitted|admit|Axiom|Axioms|Parameter|Parameters|Conjecture|Conjectures|"
    r"Admit\s+Obligations|bypass_check|native_compute)\b|Unset\s+Guard|Unset\s+Positivity|"
    r"Unset\s+Universe\s+Checking|type-in-type|impredicative-set"
)


def strip_coq_comments(src):
    out, depth, i, n = [], 0, 0, len(src)
    in_str = False
    while i < n:
        if not in_str and src.startswith("(*", i):
            depth += 1
            i += 2
        elif not in_str and depth and src.startswith("*)", i):
            depth -= 1
            i += 2
        elif depth:
            i += 1
        else:
            if src[i] == '"':
                in_str = not in_str
            out.append(src[i])
            i += 1
    return "".join(out)


# ---------------------------------------------------------------------------
# literals for generated .v files
# ---------------------------------------------------------------------------
def cZ(n):
    n = int(n)
    return f"({n})%Z" if n < 0 else f"{n}%Z"


def cnat(n):
    n = int(n)
    assert 0 <= n < 5000, "never write large nat literals"
    return f"{n}%nat"


def cbool(b):
    return "true" if b else "false"


def cfloat(x):
    """binary64 literal, bit exact (hex)."""
    x = float(x)
    if x != x:
        return "PrimFloat.nan"
    if x == float("inf"):
        return "PrimFloat.infinity"
    if x == float("-inf"):
        return "PrimFloat.neg_infinity"
    h = x.hex()
    return f"({h})%float" if h.startswith("-") else f"{h}%float"


def cQ(x):
    """exact rational literal of a float / Fraction / int."""
    f = fractions.Fraction(x)
    num, den = f.numerator, f.denominator
    s = f"({num} # {den})%Q" if num >= 0 else f"((-{-num}) # {den})%Q"
    return s


def cstr(s):
    assert all(32 <= ord(c) < 127 for c in s), s
    return '"' + s.replace('"', '""') + '"%string'


def clist(items, conv=None, sep="; "):
    if conv is not None:
        items = [conv(i) for i in items]
    return "[" + sep.join(items) + "]"


def cpair(*items):
    return "(" + ", ".join(items) + ")"


def copt(x, conv):
    return "None" if x is None else f"(Some {conv(x)})"


# ---------------------------------------------------------------------------
def sh(cmd, timeout=3600, cwd=None, env=None, input=None):
    p = subprocess.run(
        cmd, shell=isinstance(cmd, str), cwd=cwd, env=env, input=input,
        stdout=subprocess.PIPE, stderr=subprocess.STDOUT, text=True, timeout=timeout,
    )
    return p.returncode, p.stdout


def parse_assumptions(out):
    """Split the output of a sequence of `Print Assumptions` commands into one
    list of axiom names per command."""
    blocks, cur = [], None
    for line in out.splitlines():
        if line.startswith("Closed under the global context"):
            if cur is not None:
                blocks.append(cur)
            blocks.append([])
            cur = None
        elif line.startswith("Axioms:"):
            if cur is not None:
                blocks.append(cur)
            cur = []
        elif cur is not None:
            m = re.match(r"^([A-Za-z_][\w.']*)\s*:", line)
            if m:
                cur.append(m.group(1))
            elif re.match(r"^([A-Za-z_][\w.']*)\s*$", line):
                cur.append(line.strip())
    if cur is not None:
        blocks.append(cur)
    return blocks


class Check:
    def __init__(self, pid, design_ref=""):
        ap = argparse.ArgumentParser()
        ap.add_argument("--tier", default=os.environ.get("VERIF_TIER", "quick"),
                        choices=["quick", "thorough"])
        ap.add_argument("--replay", default=None)
        ap.add_argument("--no-proofs", action="store_true",
                        help="development only: skip the Coq step")
        self.args = ap.parse_args(sys.argv[1:])
        self.pid = pid
        self.tier = self.args.tier
        self.thorough = self.tier == "thorough"
        self.seed = int(os.environ.get("VERIF_SEED", "20260930"))
        if self.args.replay:
            # a replay re-runs the deterministic check with the seed and tier recorded
            # in the replay file (every random choice derives from the seed)
            rp = json.load(open(self.args.replay))
            self.seed = int(rp.get("seed", self.seed))
            self.tier = rp.get("tier", self.tier)
            self.thorough = self.tier == "thorough"
            self.replaying = rp
        else:
            self.replaying = None
        self.design_ref = design_ref
        self.t_start = time.time()
        self.viol = []            # (key, what, replay_path, found)
        self.known_printed = []
        self.hist = {}
        self.cov = {}
        self.trusted = []
        self.assumptions = []
        self.obligations = 0
        self.discharged = 0
        self.theorems = []
        self.axioms_used = {}
        self.checker_cmd = ""
        self.work = os.path.join(WORK, pid)
        if os.environ.get("VERIF_ARIM_SRC"):
            # development run against a scratch copy of the sources (seeded changes): several such runs of one property may
            # be alive at once, so each gets a private scratch directory, removed when the process ends
            import atexit
            import shutil
            self.work = os.path.join(WORK, f"{pid}.dev{os.getpid()}")
            atexit.register(shutil.rmtree, self.work, ignore_errors=True)
        os.makedirs(self.work, exist_ok=True)
        os.makedirs(os.path.join(VERIF, "replay"), exist_ok=True)
        os.makedirs(os.path.join(VERIF, "evidence"), exist_ok=True)
        self._replay_n = 0
        self._load_known()
        self._finished = False
        sys.excepthook = self._excepthook
        import numpy as np
        self.np = np
        self.rng = np.random.default_rng(self.seed)

    def _excepthook(self, etype, exc, tb):
        """An exception escaping the harness means the correspondence could not be
        evaluated on the current tree (e.g. an internal function the tie relies on
        changed its signature): the property is no longer shown to hold, so this is
        reported as a violation without failing input, never as a silent crash."""
        import traceback
        text = "".join(traceback.format_exception(etype, exc, tb))
        sys.stderr.write(text)
        try:
            self.violation("harness-exception",
                           f"the correspondence could not be evaluated: {etype.__name__}: {exc}",
                           {"theorem_or_correspondence": f"harness/prop_{self.pid}.py (uncaught exception)",
                            "traceback": text[-3000:]}, failing_input_found=False)
            try:
                self.finish(evaluations=1, distinct_nontrivial=0,
                            rule="aborted by an uncaught exception in the harness", samples=[text[-500:]])
            except SystemExit:
                pass
        finally:
            sys.stdout.flush()
            os._exit(1)

    # -- known findings -------------------------------------------------
    def _load_known(self):
        self.known = {}
        path = os.path.join(VERIF, "known_findings.txt")
        if os.path.exists(path):
            for line in open(path):
                m = re.match(r"known:\s+property=(\S+)\s+key=(\S+)\s+(.*)", line.strip())
                if m and m.group(1) == self.pid:
                    self.known[m.group(2)] = m.group(3)

    # -- environment ----------------------------------------------------
    def import_arim(self):
        """arim from /repo/src (current working tree), with the compatibility
        shim for the pinned NumPy 2.x (np.complex_/np.float_ were removed; arim
        still uses them; see DESIGN §7.3)."""
        import numpy
        if not hasattr(numpy, "complex_"):
            numpy.complex_ = numpy.complex128
        if not hasattr(numpy, "float_"):
            numpy.float_ = numpy.float64
        # VERIF_ARIM_SRC: development only (mutation experiments on a scratch copy of
        # /repo/src); the registered commands never set it and use /repo/src.
        src = os.environ.get("VERIF_ARIM_SRC") or os.path.join(REPO, "src")
        sys.path[:] = [p for p in sys.path if os.path.realpath(p) != os.path.realpath(os.path.join(REPO, "src"))]
        sys.path.insert(0, src)
        os.environ.setdefault("ARIM_VERIF", "1")
        import warnings
        warnings.filterwarnings("ignore")
        import arim
        assert os.path.realpath(arim.__file__).startswith(os.path.realpath(src)), arim.__file__
        return arim

    # -- Coq ------------------------------------------------------------
    def build_coq(self, target=None):
        # only this property's target (and what it depends on) is built here;
        # bin/setup does the full build of the development
        cmd = [os.path.join(VERIF, "bin", "build")] + ([target] if target else [])
        rc, out = sh(cmd, timeout=3300)
        return rc, out

    def hygiene(self):
        bad = []
        for root, _, files in os.walk(THEORIES):
            for f in files:
                if f.endswith(".v"):
                    p = os.path.join(root, f)
                    src = strip_coq_comments(open(p).read())
                    for m in FORBIDDEN.finditer(src):
                        bad.append(f"{p}: {m.group(0)}")
                    # Variable/Hypothesis outside a section declare axioms
                    depth = 0
                    for line in src.splitlines():
                        s = line.strip()
                        if re.match(r"Section\s+\w+", s):
                            depth += 1
                        elif re.match(r"End\s+\w+", s) and depth:
                            depth -= 1
                        elif depth == 0 and re.match(r"(Variable|Variables|Hypothesis|Hypotheses|Context)\b", s):
                            # `End` of modules also matches above; only flag at depth 0
                            bad.append(f"{p}: {s[:40]} outside a section")
        return bad

    def proofs(self, props_file=None, extra_trusted=()):
        """Build the development, re-check Props/<pid>.v, run Print Assumptions on
        every Theorem it states, apply the hygiene grep.  A failure here is a
        violation without failing input (the property is no longer shown)."""
        if self.args.no_proofs:
            self.obligations = self.discharged = 0
            return
        props_file = props_file or os.path.join(THEORIES, "Props", f"{self.pid}.v")
        rel = os.path.relpath(props_file, COQ)
        self.checker_cmd = (f"bin/build (coq_makefile full .vo build) && coqc -Q theories Arim {rel} "
                            f"&& Print Assumptions on every Theorem of {rel}")
        t0 = time.time()
        rc, out = self.build_coq(rel[:-2] + ".vo")
        if rc != 0:
            self.violation("coq-build", "the Coq development no longer builds", {
                "theorem_or_correspondence": "coq build (bin/build)", "log": out[-4000:]},
                failing_input_found=False)
            return
        src = strip_coq_comments(open(props_file).read())
        names = re.findall(r"^\s*Theorem\s+([\w']+)", src, flags=re.M)
        self.theorems = names
        self.obligations = len(names)
        # force re-check of the property file itself
        rc, out = sh(["coqc", "-Q", "theories", "Arim", rel], cwd=COQ, timeout=1200)
        if rc != 0:
            self.violation("props-recheck", f"{rel} no longer checks", {
                "theorem_or_correspondence": rel, "log": out[-4000:]}, failing_input_found=False)
            return
        mod = "Arim." + rel[len("theories/"):-2].replace("/", ".")
        pa = os.path.join(self.work, f"assumptions_{self.pid}.v")
        with open(pa, "w") as f:
            f.write(f"Require Import {mod}.\n")
            for n in names:
                f.write(f"Print Assumptions {n}.\n")
        rc, out = sh(["coqc", "-Q", os.path.join(COQ, "theories"), "Arim", pa], cwd=self.work, timeout=1800)
        if rc != 0:
            self.violation("print-assumptions", "Print Assumptions failed", {
                "theorem_or_correspondence": rel, "log": out[-4000:]}, failing_input_found=False)
            return
        blocks = parse_assumptions(out)
        if len(blocks) != len(names):
            self.violation("print-assumptions", "could not parse Print Assumptions output", {
                "theorem_or_correspondence": rel, "log": out[-4000:]}, failing_input_found=False)
            return
        ok = 0
        for n, axs in zip(names, blocks):
            self.axioms_used[n] = axs
            extra = [a for a in axs if a not in AXIOM_WHITELIST]
            if extra:
                self.violation(f"axiom:{n}", f"theorem {n} depends on non-whitelisted axioms {extra}", {
                    "theorem_or_correspondence": n, "axioms": axs}, failing_input_found=False)
            else:
                ok += 1
        bad = self.hygiene()
        if bad:
            self.violation("hygiene", "forbidden vernacular in the development", {
                "theorem_or_correspondence": "hygiene grep", "hits": bad[:50]}, failing_input_found=False)
            ok = 0
        self.discharged = ok
        allax = sorted({a for axs in self.axioms_used.values() for a in axs})
        self.trusted = [
            "Coq 8.16.1 kernel (coqc; no native_compute; vm_compute used by the finite-domain lemmas and the correspondence runs)",
            "axioms reported by Print Assumptions for this property's theorems (all declared by Coq's standard library): "
            + (", ".join(allax) if allax else "none — closed under the global context"),
        ] + list(extra_trusted)
        self.cov["coq_wall_s"] = round(time.time() - t0, 1)
        if self.thorough and os.environ.get("VERIF_COQCHK", "1") == "1":
            rc, out = sh(["coqchk", "-silent", "-o", "-Q", "theories", "Arim", mod], cwd=COQ, timeout=3000)
            self.cov["coqchk"] = {"exit": rc, "tail": out[-1500:]}
            if rc != 0:
                self.violation("coqchk", "coqchk rejects the compiled property file", {
                    "theorem_or_correspondence": mod, "log": out[-4000:]}, failing_input_found=False)

    def coq_eval(self, name, text, timeout=900):
        """Compile a generated .v file (the model evaluated by vm_compute inside
        coqc) and return its output."""
        p = os.path.join(self.work, f"{name}.v")
        with open(p, "w") as f:
            f.write(text)
        rc, out = sh(f"ulimit -s unlimited 2>/dev/null; exec coqc -Q {COQ}/theories Arim {p}",
                     cwd=self.work, timeout=timeout)
        for ext in (".vo", ".vok", ".vos", ".glob"):
            try:
                os.remove(p[:-2] + ext)
            except OSError:
                pass
        try:
            os.remove(os.path.join(os.path.dirname(p), "." + os.path.basename(p)[:-2] + ".aux"))
        except OSError:
            pass
        if rc != 0:
            raise RuntimeError(f"coqc failed on generated {p}:\n{out[-3000:]}")
        return out

    def coq_failing(self, name, imports, case_type, case_literals, check_expr, shard=200, jobs=8,
                    timeout=900):
        """Evaluate the Coq model on `case_literals` (strings, each a Coq term of type
        `case_type`) and return the sorted indices of the cases on which the boolean
        `check_expr : case_type -> bool` is false.  The cases are sharded into files of
        at most `shard` cases (type-checking a list literal is super-linear) that are
        compiled in parallel; each prints only the failing indices.  Use binary Z / N /
        float literals in cases, never unary nat literals."""
        from concurrent.futures import ThreadPoolExecutor
        shards = [case_literals[i:i + shard] for i in range(0, len(case_literals), shard)]
        texts = []
        for k, sh_ in enumerate(shards):
            t = [imports, "From Arim Require Import Base.ListX.", "Import ListNotations.",
                 f"Definition cases : list ({case_type}) := [", ";\n".join(sh_), "].",
                 f"Eval vm_compute in failing ({check_expr}) cases."]
            texts.append((f"{name}_{k}", "\n".join(t) + "\n"))
        with ThreadPoolExecutor(max_workers=jobs) as ex:
            outs = list(ex.map(lambda nt: self.coq_eval(nt[0], nt[1], timeout=timeout), texts))
        bad = []
        for k, out in enumerate(outs):
            lists = self.parse_Z_list(out)
            assert len(lists) == 1, out[-2000:]
            bad += [k * shard + i for i in lists[0]]
        self.cov["model_cases_evaluated_in_coq"] = self.cov.get("model_cases_evaluated_in_coq", 0) + len(case_literals)
        return sorted(bad)

    def coq_values(self, name, imports, exprs, timeout=900):
        """Evaluate a few Coq terms with vm_compute and return the raw printed answers
        (diagnostics only: what the model answers on a failing case)."""
        t = [imports, "Import ListNotations."] + [f"Eval vm_compute in ({e})." for e in exprs]
        return self.coq_eval(name, "\n".join(t) + "\n", timeout=timeout)

    @staticmethod
    def parse_Z_list(out):
        """Parse the answer of `Eval vm_compute in (l : list Z / list nat)`; several
        Evals give several lists."""
        res = []
        for m in re.finditer(r"=\s*(\[[^\]]*\]|nil)\s*:\s*list", out, flags=re.S):
            body = m.group(1)
            res.append([int(x) for x in re.findall(r"-?\d+", body.replace("%Z", "").replace("%nat", ""))]
                       if body != "nil" else [])
        return res

    # -- second tie: re-translation of scalar kernels from the current source -----------
    def translation_tie(self):
        """Re-translate the scalar kernels that serve this property from the CURRENT source
        (harness/pytrans.py) and let Coq check `translated = hand-written model` by
        reflexivity.  Returns {tie name: "ok" | reason}.  A broken tie is recorded in the
        evidence (coverage.translation_tie) and returned so that the caller can deepen its
        correspondence run; it is not an alarm by itself (see DESIGN §9.8)."""
        import pytrans
        import translation_ties as tt
        res = {}
        mine = [t for t in tt.TIES if self.pid in t["props"]]
        if not mine:
            return res
        texts = {}
        for t in mine:
            try:
                defs = []
                known = {}
                for c in t.get("calls", []):
                    dep = next(x for x in tt.TIES if x["name"] == c)
                    tr = pytrans.Translator(known={}, given=dep["given"], omitted=dep.get("omitted", ()))
                    defs.append(tr.function(pytrans.source_of(dep["file"]), dep["py"], "tr_" + dep["name"], dep["params"]))
                    known[dep["py"]] = ("tr_" + dep["name"], 1)
                if "pattern" in t:       # one expression cut out of a function body
                    etr = pytrans.ExpressionTranslator(dict(t["vars"]))
                    order = [a for a, _ in t["vars"]]
                    if "subs" in t:
                        defs.append(etr.block(pytrans.source_of(t["file"]), t["pattern"], t["subs"], "tr_" + t["name"], order))
                    else:
                        defs.append(etr.expression(pytrans.source_of(t["file"]), t["pattern"], "tr_" + t["name"], order))
                    bind = " ".join(f"(v_{a} : {k})" for a, k in t["vars"])
                    lemma = (f"Lemma tie_{t['name']} : forall (T : Type) (N : Num T) {bind},\n"
                             f"  tr_{t['name']} N {' '.join('v_' + a for a in order)} = {t['model']}.\nProof. intros. reflexivity. Qed.\n")
                    texts[t["name"]] = tt.IMPORTS + "\n".join(defs) + "\n" + lemma
                    continue
                if "accumulation" in t:  # `out = 0; for i in range(lo, hi): out += e; return out`
                    atr = pytrans.AccumulationTranslator()
                    defs.append(atr.accumulation(pytrans.source_of(t["file"]), t["py"], "tr_" + t["name"], [tuple(x) for x in t["accumulation"]]))
                    bind, names = [], []
                    for a, k in t["accumulation"]:
                        if k == "Row":
                            bind.append(f"(v_len_{a} : Z) (v_{a} : list D)"); names += [f"v_len_{a}", f"v_{a}"]
                        else:
                            bind.append(f"(v_{a} : {k})"); names.append(f"v_{a}")
                    lemma = (f"Lemma tie_{t['name']} : forall (T D : Type) (N : Num T) (V : Data T D) {' '.join(bind)},\n"
                             f"  tr_{t['name']} N V {' '.join(names)} = {t['model']}.\nProof. intros. reflexivity. Qed.\n")
                    texts[t["name"]] = tt.IMPORTS + "\n".join(defs) + "\n" + lemma
                    continue
                if "summand" in t:       # summand of a delay-and-sum accumulation loop
                    str_ = pytrans.SummandTranslator()
                    defs.append(str_.summand(pytrans.source_of(t["file"]), t["py"], "tr_" + t["name"], [tuple(x) for x in t["summand"]]))
                    bind = "(v_numsamples : Z) " + " ".join(f"(v_{a} : {k})" for a, k in t["summand"])
                    lemma = (f"Lemma tie_{t['name']} : forall (T D : Type) (N : Num T) (V : Data T D) {bind} (r : prow T D) (s : scan D),\n"
                             f"  tr_{t['name']} N V v_numsamples {' '.join('v_' + a for a, _ in t['summand'])} r s = {t['model']}.\n"
                             "Proof. intros. reflexivity. Qed.\n")
                    texts[t["name"]] = tt.IMPORTS + "\n".join(defs) + "\n" + lemma
                    continue
                if "kparams" in t:       # typed kernel (floats and integers, matrix parameters)
                    ktr = pytrans.KernelTranslator(matrices=t.get("matrices", {}))
                    defs.append(ktr.function(pytrans.source_of(t["file"]), t["py"], "tr_" + t["name"], [tuple(x) for x in t["kparams"]]))
                    kinds = {"T": "T", "Z": "Z", "M": "Z -> Z -> T", "size": "Z"}
                    bind = " ".join(f"(v_{a} : {kinds[k]})" for a, k in t["kparams"])
                    names = " ".join("v_" + a for a, _ in t["kparams"])
                    lemma = (f"Lemma tie_{t['name']} : forall (T : Type) (N : Num T) {bind},\n"
                             f"  tr_{t['name']} N {names} = {t['model']}.\nProof. intros. reflexivity. Qed.\n")
                    texts[t["name"]] = tt.IMPORTS + "\n".join(defs) + "\n" + lemma
                    continue
                tr = pytrans.Translator(known=known, given=t["given"], omitted=t.get("omitted", ()))
                defs.append(tr.function(pytrans.source_of(t["file"]), t["py"], "tr_" + t["name"], t["params"]))
                binders = " ".join("v_" + a for a in t["params"])
                lemma = (f"Lemma tie_{t['name']} : forall (T : Type) (N : Num T) ({binders} : T),\n"
                         f"  tr_{t['name']} N {binders} = {t['model']}.\nProof. intros. reflexivity. Qed.\n")
                texts[t["name"]] = tt.IMPORTS + "\n".join(defs) + "\n" + lemma
            except pytrans.Untranslatable as e:
                res[t["name"]] = f"untranslatable: {e}"
            except Exception as e:  # noqa: BLE001  (source file missing, function renamed ...)
                res[t["name"]] = f"untranslatable: {type(e).__name__}: {e}"
        # all ties of the property in ONE coqc call (each in its own module); one call per tie only if that fails
        if len(texts) > 1:
            combined = tt.IMPORTS + "\n".join(
                f"Module Tie_{name}.\n{text[len(tt.IMPORTS):]}\nEnd Tie_{name}.\n" for name, text in texts.items())
            try:
                self.coq_eval("tie_all", combined, timeout=600)
                for name in texts:
                    res[name] = "ok"
                texts = {}
            except RuntimeError:
                pass
        for name, text in texts.items():
            try:
                self.coq_eval(f"tie_{name}", text, timeout=300)
                res[name] = "ok"
            except RuntimeError as e:
                res[name] = "translated definition is not convertible with the model: " + str(e)[-400:].replace("\n", " ")
        self.cov["translation_tie"] = res
        broken = {k: v for k, v in res.items() if v != "ok"}
        for k, v in broken.items():
            print(f"# {self.pid}: translation tie '{k}' broken ({v[:120]}); the correspondence run decides", flush=True)
        return res

    # -- OCaml ----------------------------------------------------------
    def ocaml_driver(self, name):
        """Build (if needed) and return the path of ocaml driver `name`
        (see bin/build-ocaml)."""
        rc, out = sh([os.path.join(VERIF, "bin", "build-ocaml"), name], timeout=1200)
        if rc != 0:
            raise RuntimeError("ocaml driver build failed:\n" + out[-3000:])
        return os.path.join(WORK, "ocaml", name, "driver.exe")

    # -- bookkeeping ----------------------------------------------------
    def count(self, **kw):
        for k, v in kw.items():
            d = self.hist.setdefault(k, {})
            d[str(v)] = d.get(str(v), 0) + 1

    def replay_path(self):
        self._replay_n += 1
        return os.path.join(VERIF, "replay", f"{self.pid}-{self._replay_n}.json")

    def violation(self, key, what, replay, failing_input_found=True):
        """Record a violation.  `key` is a stable identifier of the failing input /
        call site (matched against known_findings.txt)."""
        if key in self.known:
            if key not in self.known_printed:
                print(f"KNOWN-FINDING: property={self.pid} {self.known[key]}", flush=True)
                self.known_printed.append(key)
            return
        if len(self.viol) >= 20:
            self.viol.append((key, what, None, failing_input_found))
            return
        path = self.replay_path()
        obj = {"property": self.pid, "key": key, "what": what, "seed": self.seed,
               "tier": self.tier, "failing_input_found": failing_input_found, "replay": replay}
        with open(path, "w") as f:
            json.dump(obj, f, indent=1, default=_json_default)
        self.viol.append((key, what, path, failing_input_found))
        tail = "" if failing_input_found else " no-failing-input-found"
        print(f"# {self.pid}: {what}", flush=True)
        print(f"VIOLATION property={self.pid} replay={path}{tail}", flush=True)

    def finish(self, evaluations, distinct_nontrivial, rule, samples, extra=None, assumptions=()):
        wall = time.time() - self.t_start
        cov = dict(self.cov)
        cov.update({
            "obligations": int(self.obligations),
            "discharged": int(self.discharged),
            "checker_cmd": self.checker_cmd or "none (run with --no-proofs)",
            "trusted_base": self.trusted,
            "theorems": self.theorems,
            "axioms_per_theorem": self.axioms_used,
            "evaluations": int(evaluations),
            "distinct_nontrivial": int(distinct_nontrivial),
            "rule": rule,
            "samples": samples[:8] if samples else ["(none)"],
            "input_distribution": self.hist,
            "known_findings_printed": self.known_printed,
        })
        if extra:
            cov.update(extra)
        ev = {
            "property_id": self.pid, "tier": self.tier, "seed": self.seed, "level": "proof",
            "coverage": cov,
            "assumptions": list(assumptions) + self.assumptions,
            "wall_s": round(wall, 2),
            "violations": len(self.viol),
        }
        if self.args.no_proofs or os.environ.get("VERIF_ARIM_SRC"):
            # development runs (no Coq step, or a scratch copy of the sources) never touch the
            # committed evidence
            path = os.path.join(self.work, f"evidence_dev_{self.pid}.json")
        else:
            path = os.path.join(VERIF, "evidence", f"{self.pid}.json")
        with open(path, "w") as f:
            json.dump(ev, f, indent=1, default=_json_default)
        print(f"# {self.pid} tier={self.tier} seed={self.seed}: obligations={self.obligations} "
              f"discharged={self.discharged} evaluations={evaluations} violations={len(self.viol)} "
              f"wall={wall:.1f}s", flush=True)
        sys.exit(1 if self.viol else 0)


def _json_default(o):
    import numpy as np
    if isinstance(o, np.ndarray):
        return o.tolist()
    if isinstance(o, (np.integer,)):
        return int(o)
    if isinstance(o, (np.floating,)):
        return float(o)
    if isinstance(o, (np.complexfloating, complex)):
        return [float(o.real), float(o.imag)]
    if isinstance(o, (np.bool_,)):
        return bool(o)
    if isinstance(o, fractions.Fraction):
        return f"{o.numerator}/{o.denominator}"
    if isinstance(o, (set, frozenset, tuple)):
        return list(o)
    return repr(o)


def close(a, b, rtol, atol=0.0):
    """|a-b| <= atol + rtol*max(|a|,|b|), with nan==nan and equal infinities agreeing
    (complex numbers accepted)."""
    import cmath
    import math
    a, b = complex(a), complex(b)
    for x, y in ((a.real, b.real), (a.imag, b.imag)):
        if math.isnan(x) or math.isnan(y):
            if not (math.isnan(x) and math.isnan(y)):
                return False
        elif math.isinf(x) or math.isinf(y):
            if x != y:
                return False
    if any(math.isnan(v) or math.isinf(v) for v in (a.real, a.imag, b.real, b.imag)):
        return True
    return abs(a - b) <= atol + rtol * max(abs(a), abs(b))


def digest(obj):
    return hashlib.sha1(json.dumps(obj, sort_keys=True, default=_json_default).encode()).hexdigest()[:16]
