"""The scalar kernels of arim that are re-translated from the source on every run
(harness/pytrans.py) and checked convertible with the hand-written model by Coq.

Each tie: property ids it serves, source file (relative to src/arim), python function, the
parameter order for the translated definition, parameters whose `if p is None` defaults are
not taken, other translated functions it may call, and the model term it must equal."""
IMPORTS = ("From Coq Require Import ZArith Bool List.\n"
           "From Arim Require Import Base.Num Model.Interface Model.Weights Model.RayGeom Model.Das.\n")

TIES = [
    dict(name="snell_angles", props=["C04", "C07"], file="model.py", py="snell_angles",
         params=["incidents_angles", "c_incident", "c_refracted"], given=[],
         model="snell_angles N v_incidents_angles v_c_incident v_c_refracted"),
    dict(name="fluid_solid_n", props=["C04"], file="model.py", py="_fluid_solid_n",
         params=["alpha_fluid", "alpha_l", "alpha_t", "rho_fluid", "rho_solid", "c_fluid", "c_l", "c_t"], given=[],
         model="fluid_solid_n_ang N v_alpha_fluid v_alpha_l v_alpha_t v_rho_fluid v_rho_solid v_c_fluid v_c_l v_c_t"),
    dict(name="fluid_solid", props=["C04", "C03"], file="model.py", py="fluid_solid",
         params=["alpha_fluid", "alpha_l", "alpha_t", "rho_fluid", "rho_solid", "c_fluid", "c_l", "c_t"],
         given=["alpha_l", "alpha_t"], calls=["fluid_solid_n"],
         model="fluid_solid_ang N v_alpha_fluid v_alpha_l v_alpha_t v_rho_fluid v_rho_solid v_c_fluid v_c_l v_c_t"),
    dict(name="solid_l_fluid", props=["C04", "C03"], file="model.py", py="solid_l_fluid",
         params=["alpha_fluid", "alpha_l", "alpha_t", "rho_fluid", "rho_solid", "c_fluid", "c_l", "c_t"],
         given=["alpha_fluid", "alpha_t"], calls=["fluid_solid_n"],
         model="solid_l_fluid_ang N v_alpha_fluid v_alpha_l v_alpha_t v_rho_fluid v_rho_solid v_c_fluid v_c_l v_c_t"),
    dict(name="solid_t_fluid", props=["C04", "C03"], file="model.py", py="solid_t_fluid",
         params=["alpha_fluid", "alpha_l", "alpha_t", "rho_fluid", "rho_solid", "c_fluid", "c_l", "c_t"],
         given=["alpha_fluid", "alpha_l"], calls=["fluid_solid_n"],
         model="solid_t_fluid_ang N v_alpha_fluid v_alpha_l v_alpha_t v_rho_fluid v_rho_solid v_c_fluid v_c_l v_c_t"),
    dict(name="signed_leg_angle", props=["C05"], file="ray.py", py="_signed_leg_angle",
         params=["polar", "azimuth"], given=[],
         model="signed_leg_angle N v_polar v_azimuth"),
    dict(name="directivity", props=["C08"], file="model.py", py="directivity_2d_rectangular_in_fluid",
         params=["theta", "element_width", "wavelength"], given=[],
         model="directivity N v_theta v_element_width v_wavelength"),
    dict(name="das_sinc", props=["C02"], file="im/das.py", py="sinc", params=["x"], given=[],
         model="@sinc T N v_x"),
]
PY2TIE = {"_fluid_solid_n": "fluid_solid_n"}
