"""Structured generators of arim set-ups shared by several checks (imported AFTER
Check.import_arim()).  Every random choice comes from the numpy Generator passed
in (derived from VERIF_SEED)."""
import math
import subprocess

import numpy as np


def random_materials(rng, attenuation=False):
    """(couplant, block): fluid + solid with c_T < c_L/sqrt(2)."""
    import arim
    c_f = float(rng.uniform(900.0, 2000.0))
    c_l = float(rng.uniform(3000.0, 7000.0))
    c_t = float(c_l * rng.uniform(0.40, 0.68))  # < 1/sqrt(2) = 0.707
    kw_c, kw_b = {}, {}
    if attenuation:
        kw_c["longitudinal_att"] = arim.material_attenuation_factory("constant", float(rng.uniform(0.0, 3.0)))
        kw_b["longitudinal_att"] = arim.material_attenuation_factory("constant", float(rng.uniform(0.0, 8.0)))
        kw_b["transverse_att"] = arim.material_attenuation_factory("constant", float(rng.uniform(0.0, 12.0)))
    rho_f, rho_s = float(rng.uniform(800.0, 1300.0)), float(rng.uniform(2000.0, 9000.0))
    if rng.random() < 0.3:
        # the materials are created from nominal (catalogue) values and their documented attributes are then set to the
        # measured ones, before anything is built from them: the same materials as when constructed with these values
        couplant = arim.Material(longitudinal_vel=1480.0, density=1000.0, state_of_matter="liquid")
        block = arim.Material(longitudinal_vel=6320.0, transverse_vel=3130.0, density=2700.0, state_of_matter="solid")
        couplant.longitudinal_vel, couplant.density = c_f, rho_f
        block.longitudinal_vel, block.transverse_vel, block.density = c_l, c_t, rho_s
        for k_, v_ in kw_c.items():
            setattr(couplant, k_, v_)
        for k_, v_ in kw_b.items():
            setattr(block, k_, v_)
        return couplant, block
    couplant = arim.Material(longitudinal_vel=c_f, density=rho_f,
                             state_of_matter="liquid", **kw_c)
    block = arim.Material(longitudinal_vel=c_l, transverse_vel=c_t, density=rho_s,
                          state_of_matter="solid", **kw_b)
    return couplant, block


def immersion_setup(rng, numelements=None, numscat=None, max_refl=1, wall_points=None, tilt_deg=None,
                    attenuation=False, trace=True, aligned=False, offset=None, scat_y=0.0):
    """A block in immersion with a tilted linear probe above z=0, back wall at z=depth,
    scatterers inside; returns a dict with materials, probe, interfaces, paths (rays
    traced by arim's own ray tracing when trace=True), views, exam_obj."""
    import arim
    import arim.models.block_in_immersion as bim
    import arim.ray
    couplant, block = random_materials(rng, attenuation)
    numelements = int(numelements or rng.integers(2, 7))
    numscat = int(numscat or rng.integers(1, 4))
    wall_points = int(wall_points or rng.integers(60, 400))
    freq = float(rng.uniform(1e6, 10e6))
    pitch = float(rng.uniform(0.3e-3, 1.5e-3))
    probe = arim.Probe.make_matrix_probe(numelements, pitch, 1, np.nan, freq)
    probe.set_reference_element("first")
    probe.reset_position()
    standoff = float(rng.uniform(5e-3, 40e-3))
    tilt = math.radians(float(tilt_deg if tilt_deg is not None else rng.uniform(-25.0, 25.0)))
    probe.rotate(arim.geometry.rotation_matrix_y(tilt))
    probe.translate([0.0 if aligned else float(rng.uniform(-5e-3, 5e-3)), 0.0, -standoff - abs(math.sin(tilt)) * pitch * numelements])
    depth = float(rng.uniform(15e-3, 60e-3))
    xmin, xmax = -40e-3, 60e-3
    if aligned:
        # (use with tilt_deg=0) the first element, a wall sample of each wall and the first scatterer on ONE vertical line x = 0:
        # the rays between them are exactly vertical (angles exactly 0 or pi)
        xmin, xmax, wall_points = -50e-3, 50e-3, 129
    ox, oy, oz = (0.0, 0.0, 0.0) if offset is None else (float(offset[0]), float(offset[1]), float(offset[2]))
    if offset is not None:
        # the whole scene (probe, walls, scatterers) translated as one: an inspection described in site / robot coordinates
        probe.translate([ox, oy, oz])
    frontwall = arim.geometry.points_1d_wall_z(xmin + ox, xmax + ox, 0.0 + oz, wall_points, y=oy, name="Frontwall")
    backwall = arim.geometry.points_1d_wall_z(xmin + ox, xmax + ox, depth + oz, wall_points, y=oy, name="Backwall")
    sx = rng.uniform(-5e-3, 30e-3, size=numscat)
    sz = rng.uniform(0.15 * depth, 0.85 * depth, size=numscat)
    if aligned:
        sx[0] = 0.0
    # (scat_y: the targets in another slice y = const than the array and the walls -- a 3-D scene made of planar sets)
    scat_points = arim.Points(np.stack([sx + ox, np.zeros(numscat) + oy + float(scat_y), sz + oz], axis=1), "Scatterers")
    scat = arim.geometry.OrientedPoints(scat_points, arim.geometry.default_orientations(scat_points))
    exam_obj = arim.BlockInImmersion(block, couplant, frontwall, backwall, scat)
    probe_op = probe.to_oriented_points()
    interfaces = bim.make_interfaces(couplant, probe_op, frontwall, backwall, scat)
    paths = bim.make_paths(block, couplant, interfaces, max_number_of_reflection=max_refl)
    views = bim.make_views_from_paths(paths)
    if trace:
        arim.ray.ray_tracing_for_paths(list(paths.values()))
    return dict(couplant=couplant, block=block, probe=probe, probe_op=probe_op, frontwall=frontwall,
                backwall=backwall, scat=scat, exam_obj=exam_obj, interfaces=interfaces, paths=paths,
                views=views, freq=freq, depth=depth, pitch=pitch)


class Driver:
    """Line-protocol client of an extracted-OCaml driver (see ocaml/<name>/driver.ml)."""

    def __init__(self, exe):
        self.exe = exe

    def run(self, lines, timeout=600):
        p = subprocess.run([self.exe], input="\n".join(lines) + "\n", stdout=subprocess.PIPE,
                           stderr=subprocess.PIPE, text=True, timeout=timeout)
        if p.returncode != 0:
            raise RuntimeError(f"driver {self.exe} failed: {p.stderr[-2000:]}")
        out = [l for l in p.stdout.splitlines() if l.strip()]
        if len(out) != len(lines):
            raise RuntimeError(f"driver {self.exe}: {len(lines)} inputs, {len(out)} outputs")
        return out


def fhex(x):
    return float(x).hex()


def unhex(s):
    if s in ("nan", "-nan"):
        return float("nan")
    if s in ("inf", "infinity"):
        return float("inf")
    if s in ("-inf", "-infinity"):
        return float("-inf")
    return float.fromhex(s)
